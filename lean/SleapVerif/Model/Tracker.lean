/-!
# Model of `sleap_nn.tracking` (C09, C10) — core Lean only

Mirrors `Tracker.track` → `get_scores` → `scores_to_cost_matrix` → `assign_tracks` →
`{FixedWindowCandidates,LocalQueueCandidates}.update_tracks / add_new_tracks`.

* A *feature* is an abstract `φ`; the association score is a parameter `score : φ → φ → R`
  (total: NaN-producing inputs are outside the model).  A track with no candidate in the window
  has score `none` (the code's `nanmean([]) = NaN → cost +∞`).
* The external solvers are parameters (`Ext`): scipy's `linear_sum_assignment` (`lsa`, returns
  the (row, col) pairs) and numpy's `argsort(axis=None)`+`unravel_index` (`argsort`, returns the
  edge order that `greedy_matching` consumes).  `greedy` itself is modelled concretely.
* `Fixes` selects, per defect, the code as pinned (`false`) or as repaired by
  `/verif/fixes/C09-*.patch` (`true`).  Theorems are about `Fixes.repaired`; `Fixes.asIs` is kept
  for the counterexample lemmas and for the correspondence with an unpatched tree.
-/
namespace SleapVerif.Tracker

/-- which of the three C09 repairs are in effect -/
structure Fixes where
  /-- F-C09a: `len(row_inds) > 0` instead of `np.any(row_inds) and np.any(col_inds)` -/
  anyRow : Bool
  /-- F-C09b: local queues call `add_new_tracks([inst])` instead of `add_new_tracks(inst)` -/
  lqList : Bool
  /-- F-C09c: empty candidate list ↦ NaN without calling the reduction, and matching is
      restricted to the columns that have a finite cost -/
  stale : Bool
  /-- F-C09d (6ecdd3f): when nothing was matched `update_tracks` still calls `add_new_tracks` for all
      detections (before: the guard skipped it and they were dropped / left untracked).  The patch also
      leaves detections without a finite cost out of the matching (`valid_rows`); on the model's cost
      matrices (`ColPattern`: +∞ fills whole columns) that selection is the identity whenever a valid
      column exists and nothing is matched otherwise, so it is not represented separately. -/
  nanSafe : Bool
deriving DecidableEq, Repr

def Fixes.repaired : Fixes := ⟨true, true, true, true⟩
def Fixes.asIs : Fixes := ⟨false, false, false, false⟩

/-- the exceptions the pinned code can raise on finite inputs -/
inductive Err
  | typeError    -- `'TrackInstanceLocalQueue' object is not iterable`
  | infeasible   -- scipy: `cost matrix is infeasible`
  | emptyMax     -- numpy: `nanmax([])`, zero-size array to reduction
deriving DecidableEq, Repr

inductive Matcher | hungarian | greedy deriving DecidableEq, Repr
inductive Reduction | mean | max deriving DecidableEq, Repr

/-- external solvers, as functions of the cost matrix they are given (`none` = +∞) -/
structure Ext (R : Type) where
  /-- `scipy.optimize.linear_sum_assignment`: the list `zip(row_ind, col_ind)` -/
  lsa : List (List (Option R)) → List (Nat × Nat)
  /-- `np.unravel_index(np.argsort(cost, axis=None), cost.shape)`: all edges by ascending cost -/
  argsort : List (List (Option R)) → List (Nat × Nat)

structure Config (R : Type) where
  window : Nat
  thr : R
  matcher : Matcher
  red : Reduction
  fx : Fixes

/-! ## matching -/

/-- `greedy_matching`: pop the cheapest edge, strike every other edge sharing its row or column. -/
def greedy : List (Nat × Nat) → List (Nat × Nat)
  | [] => []
  | e :: rest => e :: greedy (rest.filter fun x => x.1 != e.1 && x.2 != e.2)
termination_by l => l.length
decreasing_by
  simp only [List.length_cons, List.unattach_filter, List.unattach_attach]
  exact Nat.lt_succ_of_le (List.length_filter_le _ _)

/-- `assignment[row] = col` for each matched pair, everything else `None` -/
def assignIds (n : Nat) (ms : List (Nat × Nat)) : List (Option Nat) :=
  ms.foldl (fun ids p => ids.set p.1 (some p.2)) (List.replicate n none)

/-- the guard at the top of `update_tracks` -/
def guardOk (fx : Fixes) (ms : List (Nat × Nat)) : Bool :=
  if fx.anyRow then !ms.isEmpty
  else ms.any (fun p => p.1 != 0) && ms.any (fun p => p.2 != 0)

/-- `get_new_track_id`: `0` if there is no track yet, else `max(current_tracks) + 1` -/
def newId : List Nat → Nat
  | [] => 0
  | t :: ts => ts.foldl Nat.max t + 1

section scores
variable {R : Type} {φ : Type}

/-- `np.nanmean` / `np.nanmax` of a list of finite scores (`none` = NaN for the empty list;
    the pinned code raises for `nanmax([])`) -/
def reduce [Add R] [Div R] [OfNat R 0] [NatCast R] [LT R] [DecidableLT R]
    (rd : Reduction) (stale : Bool) : List R → Except Err (Option R)
  | [] => if rd = .max ∧ stale = false then .error .emptyMax else .ok none
  | x :: xs => .ok (some (match rd with
      | .mean => (x :: xs).foldl (· + ·) 0 / ((xs.length + 1 : Nat) : R)
      | .max => xs.foldl (fun a b => if a < b then b else a) x))

/-- one row of `get_scores`: column `t` is the reduced score against track `t`'s candidates -/
def scoreRow [Add R] [Div R] [OfNat R 0] [NatCast R] [LT R] [DecidableLT R]
    (rd : Reduction) (stale : Bool) (score : φ → φ → R) (cands : Nat → List φ) (m : Nat) (f : φ) :
    Except Err (List (Option R)) :=
  (List.range m).mapM (fun t => reduce rd stale ((cands t).map (score f)))

/-- `get_scores`: `n × len(current_tracks)`; columns are indexed by track id (the invariant
    `current_tracks = range m` makes position and id coincide) -/
def scoreMatrix [Add R] [Div R] [OfNat R 0] [NatCast R] [LT R] [DecidableLT R]
    (rd : Reduction) (stale : Bool) (score : φ → φ → R) (cands : Nat → List φ) (m : Nat)
    (cur : List φ) : Except Err (List (List (Option R))) :=
  cur.mapM (scoreRow rd stale score cands m)

/-- `scores_to_cost_matrix`: negate, NaN ↦ +∞ -/
def toCost [Neg R] (sc : List (List (Option R))) : List (List (Option R)) :=
  sc.map (fun row => row.map (fun o => o.map (fun x => -x)))

/-- repaired: `np.flatnonzero(np.isfinite(cost).any(axis=0))`; as pinned: every column -/
def validCols (stale : Bool) (m : Nat) (cost : List (List (Option R))) : List Nat :=
  if stale then (List.range m).filter (fun c => cost.any (fun row => (row.getD c none).isSome))
  else List.range m

/-- `cost_matrix[:, valid_cols]` -/
def subMatrix (cost : List (List (Option R))) (valid : List Nat) : List (List (Option R)) :=
  cost.map (fun row => valid.map (fun c => row.getD c none))

/-- number of columns of an `n × k` matrix with a finite entry -/
def finiteCols (k : Nat) (cost : List (List (Option R))) : Nat :=
  ((List.range k).filter (fun c => cost.any (fun row => (row.getD c none).isSome))).length

/-- scipy raises `cost matrix is infeasible` when no full-size assignment avoids +∞.  In the
    model +∞ occupies whole columns only (scores are total), so this is a count. -/
def infeasible (k : Nat) (cost : List (List (Option R))) : Bool :=
  decide (finiteCols k cost < min cost.length k)

/-- `assign_tracks` up to and including `col_inds = valid_cols[col_inds]` -/
def assignStage (fx : Fixes) (mt : Matcher) (ext : Ext R) (m : Nat)
    (cost : List (List (Option R))) : Except Err (List (Nat × Nat)) :=
  let valid := validCols fx.stale m cost
  let sub := subMatrix cost valid
  let back := fun (ps : List (Nat × Nat)) => ps.map (fun p => (p.1, valid.getD p.2 0))
  match mt with
  | .hungarian =>
      if infeasible valid.length sub then .error .infeasible else .ok (back (ext.lsa sub))
  | .greedy => .ok (back (greedy (ext.argsort sub)))

/-- id allocation shared by both candidate classes (`add_new_tracks`): in detection order, every
    detection without a track whose instance score exceeds the threshold gets `newId`. -/
def allocate [LT R] [DecidableLT R] (thr : R) :
    List R → List (Option Nat) → List Nat → List (Option Nat) × List Nat
  | s :: ss, none :: ids, tr =>
      if thr < s then
        let r := allocate thr ss ids (tr ++ [newId tr])
        (some (newId tr) :: r.1, r.2)
      else
        let r := allocate thr ss ids tr
        (none :: r.1, r.2)
  | _ :: ss, some t :: ids, tr =>
      let r := allocate thr ss ids tr
      (some t :: r.1, r.2)
  | _, _, tr => ([], tr)

end scores

/-- `deque(maxlen = w).append(x)` (oldest first) -/
def pushBounded {α : Type} (w : Nat) (q : List α) (x : α) : List α :=
  (q ++ [x]).drop ((q ++ [x]).length - w)

/-! ## fixed window -/

/-- one `TrackInstances` object in the queue -/
structure FrameRec (φ : Type) where
  feats : List φ
  ids : List (Option Nat)
deriving Repr, DecidableEq

structure FW (φ : Type) where
  /-- `tracker_queue`, oldest first -/
  queue : List (FrameRec φ)
  /-- `current_tracks` -/
  tracks : List Nat
deriving Repr, DecidableEq

def FW.empty {φ : Type} : FW φ := ⟨[], []⟩

/-- `get_features_from_track_id`: per queued frame the feature at the *first* index holding `t` -/
def FW.cands {φ : Type} (s : FW φ) (t : Nat) : List φ :=
  s.queue.filterMap (fun fr => ((fr.ids.zip fr.feats).find? (fun p => p.1 == some t)).map (·.2))

section fw
variable {R : Type} {φ : Type} [LT R] [DecidableLT R]

/-- empty queue: `add_new_tracks(current_instances)`, appended only if a track was created -/
def FW.init (cfg : Config R) (s : FW φ) (cur : List (φ × R)) : FW φ × List (Option Nat) :=
  let r := allocate cfg.thr (cur.map (·.2)) (List.replicate cur.length none) s.tracks
  if r.1.any Option.isSome then
    (⟨pushBounded cfg.window s.queue ⟨cur.map (·.1), r.1⟩, r.2⟩, r.1)
  else (⟨s.queue, r.2⟩, r.1)

/-- `update_tracks` (+ `add_new_tracks(add_to_queue=False)`); returns the new state and the
    track id of every input detection -/
def FW.update (cfg : Config R) (s : FW φ) (cur : List (φ × R)) (ms : List (Nat × Nat)) :
    FW φ × List (Option Nat) :=
  if guardOk cfg.fx ms then
    let r := allocate cfg.thr (cur.map (·.2)) (assignIds cur.length ms) s.tracks
    (⟨pushBounded cfg.window s.queue ⟨cur.map (·.1), r.1⟩, r.2⟩, r.1)
  else if cfg.fx.nanSafe then FW.init cfg s cur      -- `elif row_inds is not None: add_new_tracks(all)`
  else (s, List.replicate cur.length none)

/-- the part of `track` after `get_scores`, given the score matrix -/
def FW.stepWith [Neg R] (cfg : Config R) (ext : Ext R) (s : FW φ) (cur : List (φ × R))
    (sc : List (List (Option R))) : Except Err (FW φ × List (Option Nat)) :=
  match assignStage cfg.fx cfg.matcher ext s.tracks.length (toCost sc) with
  | .error e => .error e
  | .ok ms => .ok (FW.update cfg s cur ms)

/-- `Tracker.track` with `FixedWindowCandidates`: new state and per-detection track id -/
def FW.step [Add R] [Div R] [OfNat R 0] [NatCast R] [Neg R] (cfg : Config R) (ext : Ext R)
    (score : φ → φ → R) (s : FW φ) (cur : List (φ × R)) : Except Err (FW φ × List (Option Nat)) :=
  if s.queue.isEmpty then .ok (FW.init cfg s cur)
  else
    match scoreMatrix cfg.red cfg.fx.stale score s.cands s.tracks.length (cur.map (·.1)) with
    | .error e => .error e
    | .ok sc => FW.stepWith cfg ext s cur sc

end fw

/-- what `track` returns for the fixed window: only detections that have a track -/
def FW.output (ids : List (Option Nat)) : List (Nat × Option Nat) :=
  (ids.zipIdx.filter (fun p => p.1.isSome)).map (fun p => (p.2, p.1))

/-! ## local queues -/

structure LQ (φ : Type) where
  /-- `tracker_queue`: track id ↦ `deque(maxlen = window)`, in dict insertion order -/
  queues : List (Nat × List φ)
  tracks : List Nat
deriving Repr, DecidableEq

def LQ.empty {φ : Type} : LQ φ := ⟨[], []⟩

def LQ.cands {φ : Type} (s : LQ φ) (t : Nat) : List φ :=
  ((s.queues.find? (fun q => q.1 == t)).map (·.2)).getD []

/-- `tracker_queue[t].append(f)` (a missing key would create an unbounded deque) -/
def qAppend {φ : Type} (w : Nat) (qs : List (Nat × List φ)) (t : Nat) (f : φ) : List (Nat × List φ) :=
  if qs.any (fun q => q.1 == t) then
    qs.map (fun q => if q.1 == t then (q.1, pushBounded w q.2 f) else q)
  else qs ++ [(t, [f])]

/-- `get_new_track_id` side effect `tracker_queue[t] = deque(maxlen=w)` followed by `.append(f)` -/
def qNew {φ : Type} (w : Nat) (qs : List (Nat × List φ)) (t : Nat) (f : φ) : List (Nat × List φ) :=
  if qs.any (fun q => q.1 == t) then
    qs.map (fun q => if q.1 == t then (q.1, pushBounded w [] f) else q)
  else qs ++ [(t, pushBounded w [] f)]

/-- matched detections are appended to their track's queue, in detection order -/
def appendMatched {φ : Type} (w : Nat) (qs : List (Nat × List φ)) :
    List (Option Nat) → List φ → List (Nat × List φ)
  | some t :: ids, f :: fs => appendMatched w (qAppend w qs t f) ids fs
  | none :: ids, _ :: fs => appendMatched w qs ids fs
  | _, _ => qs

/-- detections that had no track before `allocate` and have one after it start a new queue -/
def appendNew {φ : Type} (w : Nat) (qs : List (Nat × List φ)) :
    List (Option Nat) → List (Option Nat) → List φ → List (Nat × List φ)
  | none :: ids0, some t :: ids, f :: fs => appendNew w (qNew w qs t f) ids0 ids fs
  | _ :: ids0, _ :: ids, _ :: fs => appendNew w qs ids0 ids fs
  | _, _, _ => qs

section lq
variable {R : Type} {φ : Type} [LT R] [DecidableLT R]

/-- empty dict: `add_new_tracks(current_instances)` -/
def LQ.init (cfg : Config R) (s : LQ φ) (cur : List (φ × R)) : LQ φ × List (Option Nat) :=
  let ids0 := List.replicate cur.length (none : Option Nat)
  let r := allocate cfg.thr (cur.map (·.2)) ids0 s.tracks
  (⟨appendNew cfg.window s.queues ids0 r.1 (cur.map (·.1)), r.2⟩, r.1)

/-- `LocalQueueCandidates.update_tracks` -/
def LQ.update (cfg : Config R) (s : LQ φ) (cur : List (φ × R)) (ms : List (Nat × Nat)) :
    Except Err (LQ φ × List (Option Nat)) :=
  if guardOk cfg.fx ms then
    let ids0 := assignIds cur.length ms
    let feats := cur.map (·.1)
    let qs1 := appendMatched cfg.window s.queues ids0 feats
    -- `new_current_instances_inds` non-empty: the pinned code iterates over a single object
    if cfg.fx.lqList = false ∧ ids0.any Option.isNone then .error .typeError
    else
      let r := allocate cfg.thr (cur.map (·.2)) ids0 s.tracks
      .ok (⟨appendNew cfg.window qs1 ids0 r.1 feats, r.2⟩, r.1)
  else if cfg.fx.nanSafe then .ok (LQ.init cfg s cur)   -- `elif row_inds is not None: add_new_tracks(all)`
  else .ok (s, List.replicate cur.length none)

def LQ.stepWith [Neg R] (cfg : Config R) (ext : Ext R) (s : LQ φ) (cur : List (φ × R))
    (sc : List (List (Option R))) : Except Err (LQ φ × List (Option Nat)) :=
  match assignStage cfg.fx cfg.matcher ext s.tracks.length (toCost sc) with
  | .error e => .error e
  | .ok ms => LQ.update cfg s cur ms

/-- `Tracker.track` with `LocalQueueCandidates` -/
def LQ.step [Add R] [Div R] [OfNat R 0] [NatCast R] [Neg R] (cfg : Config R) (ext : Ext R)
    (score : φ → φ → R) (s : LQ φ) (cur : List (φ × R)) : Except Err (LQ φ × List (Option Nat)) :=
  if s.queues.isEmpty then .ok (LQ.init cfg s cur)
  else
    match scoreMatrix cfg.red cfg.fx.stale score s.cands s.tracks.length (cur.map (·.1)) with
    | .error e => .error e
    | .ok sc => LQ.stepWith cfg ext s cur sc

end lq

/-- what `track` returns for local queues: every detection, with or without a track -/
def LQ.output (ids : List (Option Nat)) : List (Nat × Option Nat) :=
  ids.zipIdx.map (fun p => (p.2, p.1))

/-! ## histories -/

/-- run a step function over a history; stops at the first exception (as the caller would) -/
def run {σ α β ε : Type} (step : σ → α → Except ε (σ × β)) : σ → List α → Except ε (σ × List β)
  | s, [] => .ok (s, [])
  | s, a :: as =>
      match step s a with
      | .error e => .error e
      | .ok (s', b) =>
          match run step s' as with
          | .error e => .error e
          | .ok (s'', bs) => .ok (s'', b :: bs)

end SleapVerif.Tracker
