import SleapVerif.Model.Oks
/-!
# Feature extraction and association scores of `sleap_nn/tracking/utils.py` (C09/C10) — core Lean only

`get_bbox`, `get_centroid` on a pose (keypoints with NaN = missing), `compute_iou`,
`compute_euclidean_distance`, `compute_cosine_sim`.  `compute_iou` (with its inclusive `+1`
conventions), `nanmin`/`nanmax` (`nanFold`), `cosine` are the definitions of `Model/Oks.lean`
(C15), re-used here; generic over the carrier so that the driver evaluates them exactly at `Rat`.
-/
namespace SleapVerif.TrackFeatures
open SleapVerif.Oks

variable {R : Type}

section arith
variable [Add R] [Sub R] [Mul R] [Div R] [Neg R] [LT R] [DecidableLT R]
  [OfNat R 0] [OfNat R 1] [OfNat R 2]

/-- `[xmin, ymin, xmax, ymax]` -/
abbrev Box (R : Type) := R × R × R × R

/-- `get_bbox`: `concatenate([nanmin(points, 0), nanmax(points, 0)])`; `none` when a column has no
    visible entry (numpy returns NaN with a warning) -/
def bbox (pts : List (Pt R)) : Option (Box R) :=
  match nanFold minR (pts.map (·.1)), nanFold minR (pts.map (·.2)),
        nanFold maxR (pts.map (·.1)), nanFold maxR (pts.map (·.2)) with
  | some x0, some y0, some x1, some y1 => some (x0, y0, x1, y1)
  | _, _, _, _ => none

/-- insertion into an ascending list -/
def insertAsc (a : R) : List R → List R
  | [] => [a]
  | b :: t => if a < b then a :: b :: t else b :: insertAsc a t

def sortAsc (l : List R) : List R := l.foldr insertAsc []

/-- `np.nanmedian` of a column: middle element of the visible values, mean of the two middle ones
    for an even count, `none` if nothing is visible -/
def nanMedian (col : List (Option R)) : Option R :=
  let v := sortAsc (col.filterMap id)
  match v.length with
  | 0 => none
  | n =>
    if n % 2 = 1 then v[n / 2]?
    else match v[n / 2 - 1]?, v[n / 2]? with
      | some a, some b => some ((a + b) / 2)
      | _, _ => none

/-- `get_centroid`: `np.nanmedian(pts, axis=0)` -/
def centroid (pts : List (Pt R)) : Option (R × R) :=
  match nanMedian (pts.map (·.1)), nanMedian (pts.map (·.2)) with
  | some x, some y => some (x, y)
  | _, _ => none

/-- `compute_iou` (C15's definition) -/
def scoreIou (a b : Box R) : R := iou a b

/-- squared Euclidean distance of two centroids -/
def dist2 (a b : R × R) : R := (a.1 - b.1) * (a.1 - b.1) + (a.2 - b.2) * (a.2 - b.2)

/-- `compute_euclidean_distance`: the *negative* norm of the difference -/
def scoreEuclid (sqrt : R → R) (a b : R × R) : R := -(sqrt (dist2 a b))

/-- `compute_cosine_sim` on 2-vectors (C15's definition on lists) -/
def scoreCosine (sqrt : R → R) (a b : R × R) : R := cosine sqrt [a.1, a.2] [b.1, b.2]

end arith

end SleapVerif.TrackFeatures
