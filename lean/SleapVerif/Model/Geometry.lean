import SleapVerif.Model.Scalar
/-!
# Geometric preprocessing (`sleap_nn/data/{resizing,instance_cropping,augmentation}.py` and the
`Dataset.__getitem__` chains of `custom_datasets.py`), core Lean only

Every geometric step is described by three things:

* a **size map** (exact, `Nat`),
* a **content map**: where the image content that was at (sub-pixel) input coordinate `p` is
  found in the output — this is what torchvision / kornia / `F.pad` do to the pixels,
* a **keypoint map**: what the code does to the keypoint coordinates.

Both coordinate maps are 2-D affine maps `Aff R`; the property C04 is that they agree up to less
than one output pixel.  Conventions of the libraries (validated on every run with marker images
by `harness/c04.py`):

* `tvf.resize` (bilinear, antialias) from `n` to `n'` pixels: `x ↦ (x + ½)·(n'/n) − ½`
  (pixel *centres* are scaled, `align_corners=False`);
* `F.pad(image, (0, pw, 0, ph))`: content does not move (padding is bottom/right);
* kornia `crop_and_resize` with the boxes of `make_centered_bboxes`: the box spans `bw − 1`
  pixels and is resampled on `bw` points, i.e. unit sampling: `x ↦ x − tl`;
* kornia `RandomAffine` (one `AugmentationSequential` call for image and keypoints): keypoints
  get the reported matrix `A`; the *image* is warped with `align_corners=False` after a
  normalisation that assumes `align_corners=True`, which amounts to `S ∘ A ∘ S⁻¹` with
  `S (x, y) = (x·W/(W−1) − ½, y·H/(H−1) − ½)` (measured to 0.02 px); `S` fixes the image centre and
  is a uniform zoom when `W = H`.

Sizes are computed in `Nat`/`Int` exactly as the Python does (floats enter only through the
rational they denote); scale factors travel as a pair `sn/sd` of naturals.
-/
namespace SleapVerif.Geometry
open SleapVerif.Scalar

/-! ## integer part -/

/-- `(max_stride - (size % max_stride)) % max_stride` with Python's `%` (`Int.fmod`) -/
def padFor (size stride : Int) : Int := Int.fmod (stride - Int.fmod size stride) stride

/-- `find_padding_for_stride` (hand model; `Gen/TranslatedGeometry.lean` is the translated one) -/
def findPaddingForStride (h w s : Int) : Int × Int := (padFor h s, padFor w s)

/-- sizes after `apply_pad_to_stride` (only acts when `max_stride > 1`; `F.pad` with a
non-negative pad appends) -/
def padToStrideSize (h w s : Nat) : Nat × Nat :=
  if s > 1 then (h + (padFor h s).toNat, w + (padFor w s).toNat) else (h, w)

/-- Python `round(n/d)` (round-half-to-even) on naturals -/
def roundHalfEven (n d : Nat) : Nat :=
  let q := n / d
  let r := n % d
  if 2 * r < d then q else if d < 2 * r then q + 1 else if q % 2 = 0 then q else q + 1

/-- distance of `n/d` from the nearest half-integer tie, as the pair (|2r − d|, 2d) -/
def roundMargin (n d : Nat) : Nat × Nat :=
  let r := n % d
  ((if 2 * r < d then d - 2 * r else 2 * r - d), 2 * d)

/-- result of `apply_sizematcher` on sizes: the resize target `(th, tw)`, the returned
`eff_scale = effN/effD`, whether the resize+pad branch ran -/
structure SMOut where
  th : Nat
  tw : Nat
  effN : Nat
  effD : Nat
  applied : Bool
deriving Repr, DecidableEq

/-- `apply_sizematcher` (sizes only).  `hratio > wratio` is `mh/h > mw/w ⇔ mh·w > mw·h`. -/
def sizematch (h w : Nat) (mh? mw? : Option Nat) : SMOut :=
  let mh := mh?.getD h
  let mw := mw?.getD w
  if h ≠ mh ∨ w ≠ mw then
    if mh * w > mw * h then
      ⟨roundHalfEven (h * mw) w, roundHalfEven (w * mw) w, mw, w, true⟩
    else
      ⟨roundHalfEven (h * mh) h, roundHalfEven (w * mh) h, mh, h, true⟩
  else ⟨h, w, 1, 1, false⟩

/-- output size of `apply_sizematcher`: `target + (max − target)`; the pads are `Int`s in the
code (`F.pad` would crop on a negative one) -/
def sizematchOutSize (h w : Nat) (mh? mw? : Option Nat) : Int × Int :=
  let o := sizematch h w mh? mw?
  if o.applied then
    ((o.th : Int) + ((mh?.getD h : Int) - o.th), (o.tw : Int) + ((mw?.getD w : Int) - o.tw))
  else (h, w)

/-- `resize_image`: `int(size * scale)` for `scale = sn/sd` -/
def resizeSize (n sn sd : Nat) : Nat := n * sn / sd

/-- over-crop side used by `CenteredInstanceDataset`: `int(crop · √2) = ⌊√(2·crop²)⌋` -/
def overcropSize (c : Nat) : Nat := Nat.sqrt (2 * c * c)

/-! ## affine maps -/

/-- `x' = a·x + b·y + c`, `y' = d·x + e·y + f` -/
structure Aff (R : Type) where
  a : R
  b : R
  c : R
  d : R
  e : R
  f : R

variable {R : Type} [Add R] [Sub R] [Mul R] [Div R] [OfNat R 0] [OfNat R 1] [OfNat R 2]

namespace Aff
def apply (A : Aff R) (p : R × R) : R × R :=
  (A.a * p.1 + A.b * p.2 + A.c, A.d * p.1 + A.e * p.2 + A.f)

def ident : Aff R := ⟨1, 0, 0, 0, 1, 0⟩

/-- `comp B A = B ∘ A` -/
def comp (B A : Aff R) : Aff R :=
  ⟨B.a * A.a + B.b * A.d, B.a * A.b + B.b * A.e, B.a * A.c + B.b * A.f + B.c,
   B.d * A.a + B.e * A.d, B.d * A.b + B.e * A.e, B.d * A.c + B.e * A.f + B.f⟩

/-- axis-aligned map `x ↦ sx·x + tx`, `y ↦ sy·y + ty` -/
def axis (sx tx sy ty : R) : Aff R := ⟨sx, 0, tx, 0, sy, ty⟩

/-- translation by `−t` -/
def shiftBy (t : R × R) : Aff R := ⟨1, 0, 0 - t.1, 0, 1, 0 - t.2⟩
end Aff

/-- `½` -/
def half : R := (1 : R) / 2

/-- content map of `tvf.resize` along one axis from `n` to `n'` pixels:
`x ↦ (x + ½)·r − ½ = r·x + (r − 1)/2`, `r = n'/n` -/
def resizeContent (cast : Nat → R) (h w nh nw : Nat) : Aff R :=
  let rx := cast nw / cast w
  let ry := cast nh / cast h
  Aff.axis rx ((rx - 1) / 2) ry ((ry - 1) / 2)

/-- keypoint map `instances * s` -/
def scaleKp (s : R) : Aff R := Aff.axis s 0 s 0

/-- top-left corner of `make_centered_bboxes(c, bh, bw)`: `(cx − bw/2 + ½, cy − bh/2 + ½)` -/
def bboxTopLeft (cast : Nat → R) (c : R × R) (bh bw : Nat) : R × R :=
  (c.1 - cast bw / 2 + half, c.2 - cast bh / 2 + half)

/-- all four corners of `make_centered_bboxes` in the order tl, tr, br, bl -/
def centeredBBox (cast : Nat → R) (c : R × R) (bh bw : Nat) : List (R × R) :=
  let hw := cast bw / 2
  let hh := cast bh / 2
  [(c.1 - hw + half, c.2 - hh + half), (c.1 + hw - half, c.2 - hh + half),
   (c.1 + hw - half, c.2 + hh - half), (c.1 - hw + half, c.2 + hh - half)]

/-- `S (x, y) = (x·W/(W−1) − ½, y·H/(H−1) − ½)`: pixel coordinates under the
`align_corners=True` normalisation read back under `align_corners=False` -/
def warpS (cast : Nat → R) (h w : Nat) : Aff R :=
  Aff.axis (cast w / (cast w - 1)) (0 - half) (cast h / (cast h - 1)) (0 - half)

/-- inverse of `warpS` -/
def warpSinv (cast : Nat → R) (h w : Nat) : Aff R :=
  Aff.axis ((cast w - 1) / cast w) (half * ((cast w - 1) / cast w))
           ((cast h - 1) / cast h) (half * ((cast h - 1) / cast h))

/-- what kornia's `RandomAffine` warp does to the *image* when it reports matrix `A` -/
def warpContent (cast : Nat → R) (h w : Nat) (A : Aff R) : Aff R :=
  (warpS cast h w).comp (A.comp (warpSinv cast h w))

/-! ## the chains of `custom_datasets.py` -/

/-- state threaded through a preprocessing chain -/
structure St (R : Type) where
  h : Nat
  w : Nat
  /-- composed content map (input frame → current frame) -/
  content : Aff R
  /-- composed keypoint map -/
  kp : Aff R
  /-- the sample's `"centroid"` entry in current coordinates (centred-instance chain) -/
  centroid : Option (R × R)
  /-- sizes after each step, most recent first -/
  sizes : List (Nat × Nat)

def St.init (h w : Nat) : St R := ⟨h, w, Aff.ident, Aff.ident, none, []⟩

inductive Op (R : Type) where
  /-- `apply_sizematcher(image, mh, mw)` + `instances * eff_scale` -/
  | sizematch (mh? mw? : Option Nat)
  /-- `apply_resizer(image, instances, sn/sd)` -/
  | resize (sn sd : Nat)
  /-- `apply_pad_to_stride(image, s)` -/
  | pad (s : Nat)
  /-- `generate_crops(image, instance, centroid, (bh, bw))`, centroid given in *input*
  coordinates (it is a keypoint or the bbox midpoint of keypoints: it travels with `kp`) -/
  | cropAbout (c0 : R × R) (bh bw : Nat)
  /-- re-crop about the sample's stored `"centroid"` (not touched by augmentation) -/
  | recrop (bh bw : Nat)
  /-- `apply_geometric_augmentation` when kornia reports matrix `A` -/
  | aug (A : Aff R)
  /-- the same with `RandomAffine(align_corners=True)` (fixes/C04-affine-align-corners.patch):
  kornia's normalisation and sampling conventions agree and the image is warped by `A` itself -/
  | augAligned (A : Aff R)
  /-- `apply_intensity_augmentation` -/
  | intensity

/-- push a step with the same map `M` on content and keypoints -/
def St.both (s : St R) (h w : Nat) (M : Aff R) : St R :=
  { s with h := h, w := w, content := M.comp s.content, kp := M.comp s.kp,
           sizes := (h, w) :: s.sizes }

def step (cast : Nat → R) (s : St R) : Op R → St R
  | .sizematch mh? mw? =>
    let o := sizematch s.h s.w mh? mw?
    if o.applied then
      { s with h := mh?.getD s.h, w := mw?.getD s.w,
               content := (resizeContent cast s.h s.w o.th o.tw).comp s.content,
               kp := (scaleKp (cast o.effN / cast o.effD)).comp s.kp,
               sizes := (mh?.getD s.h, mw?.getD s.w) :: s.sizes }
    else { s with sizes := (s.h, s.w) :: s.sizes }
  | .resize sn sd =>
    if sn ≠ sd then
      let nh := resizeSize s.h sn sd
      let nw := resizeSize s.w sn sd
      { s with h := nh, w := nw,
               content := (resizeContent cast s.h s.w nh nw).comp s.content,
               kp := (scaleKp (cast sn / cast sd)).comp s.kp,
               sizes := (nh, nw) :: s.sizes }
    else { s with sizes := (s.h, s.w) :: s.sizes }
  | .pad st =>
    let hw := padToStrideSize s.h s.w st
    { s with h := hw.1, w := hw.2, sizes := hw :: s.sizes }
  | .cropAbout c0 bh bw =>
    let c := s.kp.apply c0
    let tl := bboxTopLeft cast c bh bw
    { s.both bh bw (Aff.shiftBy tl) with centroid := some (c.1 - tl.1, c.2 - tl.2) }
  | .recrop bh bw =>
    match s.centroid with
    | some c =>
      let tl := bboxTopLeft cast c bh bw
      { s.both bh bw (Aff.shiftBy tl) with centroid := some (c.1 - tl.1, c.2 - tl.2) }
    | none => s
  | .aug A =>
    { s with content := (warpContent cast s.h s.w A).comp s.content, kp := A.comp s.kp,
             sizes := (s.h, s.w) :: s.sizes }
  | .augAligned A => s.both s.h s.w A
  | .intensity => { s with sizes := (s.h, s.w) :: s.sizes }

def run (cast : Nat → R) (h w : Nat) (ops : List (Op R)) : St R :=
  ops.foldl (step cast) (St.init h w)

/-! ## reading a Dataset repeatedly (`__getitem__` over an index history)

`_fill_cache` stores one pre-augmentation state per index; `__getitem__(idx)` takes
`sample = self.cache[idx].copy()` (a *shallow* copy), **rebinds** keys of `sample` to freshly
computed tensors and never writes into a cached tensor.  So one read is a function of the cached
entry and of that read's own augmentation draw, and it hands the cache back unchanged — this is the
model fact that makes every per-read theorem independent of the read history. -/

/-- one read of index `idx`; `ops` = what `__getitem__` applies to the cached entry on this read
(its augmentation draw, re-crop, stride pad).  Returns the sample and the cache after the read. -/
def getItem (cast : Nat → R) (cache : List (St R)) (idx : Nat) (ops : List (Op R)) :
    Option (St R) × List (St R) :=
  ((cache[idx]?).map fun s => ops.foldl (step cast) s, cache)

/-- a read history: the cache is threaded through the reads in order -/
def readAll (cast : Nat → R) (cache : List (St R)) :
    List (Nat × List (Op R)) → List (Option (St R)) × List (St R)
  | [] => ([], cache)
  | (i, ops) :: rest =>
    let r := getItem cast cache i ops
    let rs := readAll cast r.2 rest
    (r.1 :: rs.1, rs.2)

/-! ## `find_instance_crop_size` -/

section cropsize
variable [LT R] [DecidableLT R]

/-- `nanmax − nanmin` of one coordinate column, `0` when every entry is NaN -/
def extent (vals : List (Option R)) : R :=
  match vals.filterMap id with
  | [] => 0
  | x :: xs => xs.foldl maxR x - xs.foldl minR x

/-- the running `max_length` update for one instance (`pts *= input_scaling` first) -/
def lenStep (scaling noPad : R) (acc : R) (inst : List (Option R × Option R)) : R :=
  maxR (maxR (maxR acc (extent (inst.map fun p => p.1.map (· * scaling))))
             (extent (inst.map fun p => p.2.map (· * scaling)))) noPad

/-- `find_instance_crop_size`; `ceil` is `math.ceil`, `icast` the `int → float` conversion -/
def findCropSize (ceil : R → Int) (icast : Int → R) (insts : List (List (Option R × Option R)))
    (padding stride : Int) (scaling : R) (minCrop? : Option Int) : Int :=
  let mc := minCrop?.getD 0
  if mc > 0 ∧ Int.fmod mc stride = 0 then mc
  else
    let maxLen := insts.foldl (lenStep scaling (icast (mc - padding))) 0
    ceil ((maxLen + icast padding) / icast stride) * stride
end cropsize

end SleapVerif.Geometry
