/-!
# Model of `sleap_nn/evaluation.py` OKS + instance matching and of the matching helpers in
# `sleap_nn/tracking/utils.py` (core Lean only)

Everything numeric is written once over a carrier `R` that only provides the core notation
classes, so the driver runs the *same definitions* at `Rat` (exact) and at `Float`
(with `Float.exp`); the theorems (`Props/C15.lean`) instantiate `R` with an arbitrary ordered
field and `exp` with `T.exp` for a lawful `T : Transc R`.

Conventions
* a keypoint is `Pt R = Option R × Option R` (NaN is per coordinate: `nanmin`/`nanmax` in
  `compute_instance_area` look at coordinates, `np.any(np.isnan(..), -1)` looks at points);
* a NaN result (0 visible gt keypoints → `0/0`; all-NaN column → `nanmin` = NaN) is `none`;
* `eps` is `np.spacing(1)` (a positive parameter).
-/
namespace SleapVerif.Oks

variable {R : Type}

abbrev Pt (R : Type) := Option R × Option R

/-- both coordinates present (`~np.any(np.isnan(p), axis=-1)`) -/
def vis (p : Pt R) : Option (R × R) :=
  match p with
  | (some x, some y) => some (x, y)
  | _ => none

def isVis (p : Pt R) : Bool := (vis p).isSome

section arith
variable [Add R] [Sub R] [Mul R] [Div R] [Neg R] [LT R] [DecidableLT R]
  [OfNat R 0] [OfNat R 1] [OfNat R 2]

def minR (a b : R) : R := if b < a then b else a
def maxR (a b : R) : R := if a < b then b else a

/-- `np.nanmin` / `np.nanmax` of a column: `none` (NaN + RuntimeWarning) iff every entry is NaN -/
def nanFold (f : R → R → R) : List (Option R) → Option R
  | [] => none
  | none :: t => nanFold f t
  | some a :: t =>
    match nanFold f t with
    | none => some a
    | some b => some (f a b)

/-- `compute_instance_area` for one instance: `prod(nanmax - nanmin)` over the 2 coordinates -/
def area (pts : List (Pt R)) : Option R :=
  match nanFold minR (pts.map (·.1)), nanFold maxR (pts.map (·.1)),
        nanFold minR (pts.map (·.2)), nanFold maxR (pts.map (·.2)) with
  | some x0, some x1, some y0, some y1 => some ((x1 - x0) * (y1 - y0))
  | _, _, _, _ => none

def sumR (l : List R) : R := l.foldr (· + ·) 0

/-- squared displacement `((gt - pr)**2).sum(-1)` -/
def d2 (g p : R × R) : R := (g.1 - p.1) * (g.1 - p.1) + (g.2 - p.2) * (g.2 - p.2)

/-- per-keypoint normalisation factor `spread_factor * scale_factor` -/
def normFactor (coco : Bool) (eps sd s : R) : R :=
  if coco then ((2 * sd) * (2 * sd)) * (2 * (s + eps))
  else (sd * sd) * (2 * ((s + eps) * (s + eps)))

/-- one keypoint of one (gt, pr) pair: its stddev and the two points -/
structure Node (R : Type) where
  sd : R
  g : Pt R
  p : Pt R

/-- keypoint similarity.  Missing prediction: `distance = inf`, `exp(-inf) = 0`.
Missing ground truth: overwritten with 0. -/
def ks (exp : R → R) (coco : Bool) (eps s : R) (n : Node R) : R :=
  match vis n.g with
  | none => 0
  | some g =>
    match vis n.p with
    | none => 0
    | some p => exp (-(d2 g p / normFactor coco eps n.sd s))

/-- the argument of `np.exp` for one keypoint (`none` when the keypoint contributes KS 0): the
part of `ks` that is exact rational arithmetic -/
def ksArg (coco : Bool) (eps s : R) (n : Node R) : Option R :=
  match vis n.g, vis n.p with
  | some g, some p => some (-(d2 g p / normFactor coco eps n.sd s))
  | _, _ => none

def nVis (nodes : List (Node R)) : Nat := (nodes.filter (fun n => isVis n.g)).length

/-- `np.sum((~missing_gt).astype("float32"))` -/
def nVisR (nodes : List (Node R)) : R := sumR (nodes.map (fun n => if isVis n.g then (1 : R) else 0))

/-- OKS of one pair at a given scale: `sum(ks) / n_visible_gt` (`none` = NaN = 0/0) -/
def oksNodes (exp : R → R) (coco : Bool) (eps s : R) (nodes : List (Node R)) : Option R :=
  if nVis nodes = 0 then none
  else some (sumR (nodes.map (ks exp coco eps s)) / nVisR nodes)

/-- zip the per-node stddevs with the two point arrays -/
def mkNodes : List R → List (Pt R) → List (Pt R) → List (Node R)
  | sd :: sds, g :: gs, p :: ps => ⟨sd, g, p⟩ :: mkNodes sds gs ps
  | _, _, _ => []

/-- How `scale` was given for one gt instance: `none` = `scale=None` (use the bbox area). -/
def scaleOf (scale : Option R) (g : List (Pt R)) : Option R :=
  match scale with
  | some s => some s
  | none => area g

/-- one entry of `compute_oks` -/
def oksPair (exp : R → R) (coco : Bool) (eps : R) (sds : List R) (scale : Option R)
    (g p : List (Pt R)) : Option R :=
  match scaleOf scale g with
  | none => none
  | some s => oksNodes exp coco eps s (mkNodes sds g p)

/-- `compute_oks(points_gt, points_pr, scale, stddev, use_cocoeval)`; `scales[i]` is the scale of
gt instance `i` (`none` = bbox area) -/
def oksMatrix (exp : R → R) (coco : Bool) (eps : R) (sds : List R)
    (gts : List (Option R × List (Pt R))) (prs : List (List (Pt R))) : List (List (Option R)) :=
  gts.map (fun g => prs.map (fun p => oksPair exp coco eps sds g.1 g.2 p))

/-- **Historical (regression record only, not HEAD).**  The tree before 8197f2d: `ks[np.expand_dims(
missing_gt, 1)] = 0` indexed a `(n_gt, n_pr, n_nodes)` array with a `(n_gt, 1, n_nodes)` boolean mask,
which numpy rejects (`IndexError`) unless `n_pr = 1` (`none` = raise; F-C15b, fixed).  HEAD is
`oksMatrix`. -/
def oksMatrixBeforeFix (exp : R → R) (coco : Bool) (eps : R) (sds : List R)
    (gts : List (Option R × List (Pt R))) (prs : List (List (Pt R))) : Option (List (List (Option R))) :=
  if prs.length = 1 then some (oksMatrix exp coco eps sds gts prs) else none

/-- One entry of `compute_oks` with the exact part (squared distances, bbox area, normalisation, the
argument of `exp`) computed in a carrier `Q` and only `exp`, the sum and the division in `R`
(`toR : Q → R`).  The driver's `oksr` op runs it at `Q = Rat`, `R = Float`; for `Q = R`, `toR = id`
it is `oksPair` (`oksPairMixed_eq`). -/
def oksPairMixed {Q : Type} [Add Q] [Sub Q] [Mul Q] [Div Q] [Neg Q] [LT Q] [DecidableLT Q]
    [OfNat Q 0] [OfNat Q 1] [OfNat Q 2] (toR : Q → R) (exp : R → R) (coco : Bool) (eps : Q)
    (sds : List Q) (scale : Option Q) (g p : List (Pt Q)) : Option R :=
  match scaleOf scale g with
  | none => none
  | some s =>
    let nodes := mkNodes sds g p
    if nVis nodes = 0 then none
    else some (sumR (nodes.map (fun n => match ksArg coco eps s n with
        | some x => exp (toR x)
        | none => (0 : R))) /
      sumR (nodes.map (fun n => if isVis n.g then (1 : R) else 0)))

/-- A *history* of `compute_oks` calls: each call sees only its own arguments.  In the model this
is a `map`; that the real function behaves like one (does not modify its argument arrays, keeps no
state between calls) is the obligation the correspondence checks on call histories. -/
def oksHistory (exp : R → R) (eps : R)
    (calls : List (Bool × List R × List (Option R × List (Pt R)) × List (List (Pt R)))) :
    List (List (List (Option R))) :=
  calls.map (fun c => oksMatrix exp c.1 eps c.2.1 c.2.2.1 c.2.2.2)

/-! ## `match_instances` -/

/-- stable insertion for a descending sort (`np.argsort(-scores, kind="mergesort")`) -/
def insDesc {α : Type} (sc : α → R) (x : α) : List α → List α
  | [] => [x]
  | y :: t => if sc x < sc y then y :: insDesc sc x t else x :: y :: t

def sortDesc {α : Type} (sc : α → R) (l : List α) : List α := l.foldr (insDesc sc) []

/-- `oks[oks <= thr] = nan; argsort(-oks, mergesort)[0]`: first index attaining the largest
surviving value (`none` when every entry is NaN).  `go i best l` scans `l` whose head has index `i`. -/
def bestGo (thr : R) : Nat → Option (Nat × R) → List (Option R) → Option (Nat × R)
  | _, best, [] => best
  | i, best, none :: t => bestGo thr (i + 1) best t
  | i, best, some v :: t =>
    if thr < v then
      match best with
      | none => bestGo thr (i + 1) (some (i, v)) t
      | some (j, w) => if w < v then bestGo thr (i + 1) (some (i, v)) t else bestGo thr (i + 1) (some (j, w)) t
    else bestGo thr (i + 1) best t

def best (thr : R) (l : List (Option R)) : Option (Nat × R) := bestGo thr 0 none l

/-- the matching loop over the score-sorted predictions with the pool of available gt. -/
def matchLoop {G P : Type} (oks : G → P → Option R) (thr : R) :
    List P → List G → List (G × P × R) × List G
  | [], avail => ([], avail)
  | p :: ps, avail =>
    match avail with
    | [] => ([], [])   -- `break` after the pool ran empty (repaired entry with no gt)
    | a :: as =>
      match best thr ((a :: as).map (fun g => oks g p)) with
      | none => matchLoop oks thr ps (a :: as)
      | some (i, v) =>
        match (a :: as)[i]? with
        | none => matchLoop oks thr ps (a :: as)   -- unreachable (`best_lt`)
        | some g =>
          let r := matchLoop oks thr ps ((a :: as).eraseIdx i)
          ((g, p, v) :: r.1, r.2)

/-- `match_instances` (HEAD: no gt ⇒ no pairs, no misses) for a prediction frame that holds only
`PredictedInstance`s: returns `(positive_pairs, false_negatives)` -/
def matchInstances {G P : Type} (oks : G → P → Option R) (score : P → R) (thr : R)
    (gts : List G) (prs : List P) : List (G × P × R) × List G :=
  matchLoop oks thr (sortDesc score prs) gts

/-- **Historical (regression record only, not HEAD).**  The tree before 6b9ee84: `np.stack([])`
raised `ValueError` when the gt frame was empty and at least one prediction existed (`none` = raise;
F-C15, fixed).  HEAD is `matchInstances`. -/
def matchInstancesBeforeFix {G P : Type} (oks : G → P → Option R) (score : P → R) (thr : R)
    (gts : List G) (prs : List P) : Option (List (G × P × R) × List G) :=
  match gts, prs with
  | [], _ :: _ => none
  | _, _ => some (matchInstances oks score thr gts prs)

/-- **Historical (regression record only; F-C16d fixed by e83a3ca).**  `match_instances` before the fix for a prediction frame that may also hold user `Instance`s
(`score p = none`): `scores_pr` is built from the instances that have a `.score` only, but the
resulting `argsort` indices are used on the *unfiltered* list — the loop visits
`frame_pr[idx]` for `idx` in the score order of the first `k` positions, `k` = number of scored
instances (F-C16d).  With every `score p = some _` this is `matchInstances` (`matchMixed_eq`). -/
def matchInstancesMixed {G P : Type} (oks : G → P → Option R) (score : P → Option R) (thr : R)
    (gts : List G) (prs : List P) : List (G × P × R) × List G :=
  let fs := prs.filterMap score
  let order := sortDesc (fun i => fs.getD i thr) (List.range fs.length)
  matchLoop oks thr (order.filterMap (fun i => prs[i]?)) gts

/-- HEAD (e83a3ca): instances without a score in a prediction frame are ignored -/
def matchInstancesMixedFixed {G P : Type} (oks : G → P → Option R) (score : P → Option R) (thr : R)
    (gts : List G) (prs : List P) : List (G × P × R) × List G :=
  matchInstances oks (fun p => (score p).getD thr) thr gts (prs.filter (fun p => (score p).isSome))

/-- matrix look-up used by the drivers (`G = P = Nat`) -/
def lookup (m : List (List (Option R))) (i j : Nat) : Option R :=
  match m[i]? with
  | none => none
  | some row => match row[j]? with
    | none => none
    | some v => v

/-! ## `tracking/utils.py` -/

/-- `compute_iou` on `[xmin, ymin, xmax, ymax]` boxes (pixel-inclusive `+1` convention) -/
def iou (a b : R × R × R × R) : R :=
  let (x1, y1, X1, Y1) := a
  let (x2, y2, X2, Y2) := b
  let xi := maxR x1 x2
  let yi := maxR y1 y2
  let Xi := minR X1 X2
  let Yi := minR Y1 Y2
  let inter := maxR 0 (Xi - xi + 1) * maxR 0 (Yi - yi + 1)
  let a1 := (X1 - x1 + 1) * (Y1 - y1 + 1)
  let a2 := (X2 - x2 + 1) * (Y2 - y2 + 1)
  inter / (a1 + a2 - inter)

def dot (a b : List R) : R := sumR (List.zipWith (· * ·) a b)

/-- `compute_cosine_sim` -/
def cosine (sqrt : R → R) (a b : List R) : R := dot a b / (sqrt (dot a a) * sqrt (dot b b))

/-- `compute_euclidean_distance` (returns the *negative* norm) -/
def negEuclid (sqrt : R → R) (a b : List R) : R :=
  -(sqrt (sumR (List.zipWith (fun x y => (x - y) * (x - y)) a b)))

end arith

/-- `greedy_matching` after the edges were sorted by ascending cost: take the head, delete every
edge sharing its row or column, repeat. -/
def greedyFuel : Nat → List (Nat × Nat) → List (Nat × Nat)
  | 0, _ => []
  | _ + 1, [] => []
  | k + 1, e :: es => e :: greedyFuel k (es.filter (fun f => !(f.1 == e.1 || f.2 == e.2)))

/-- the `while len(unassigned_edges) > 0` loop; the edge list shrinks every round, so
`length` rounds suffice (`greedyFuel_stable` in Lemmas shows more fuel changes nothing) -/
def greedyLoop (l : List (Nat × Nat)) : List (Nat × Nat) := greedyFuel l.length l

/-- stable insertion sort of the flattened `(cost, row, col)` list by ascending cost -/
def insAsc [LT R] [DecidableLT R] (x : R × Nat × Nat) : List (R × Nat × Nat) → List (R × Nat × Nat)
  | [] => [x]
  | y :: t => if y.1 < x.1 then y :: insAsc x t else x :: y :: t   -- stable: x (earlier) before equal y
-- (`np.argsort(cost, axis=None)` is quicksort: the order among *equal* costs is unspecified;
--  the harness treats cost ties as knife-edges)

def flatten (m : List (List R)) : List (R × Nat × Nat) :=
  (m.zipIdx.map (fun (row, i) => row.zipIdx.map (fun (c, j) => (c, i, j)))).flatten

def greedyMatching [LT R] [DecidableLT R] (m : List (List R)) : List (Nat × Nat) :=
  greedyLoop (((flatten m).foldr insAsc []).map (·.2))

def nodupB : List Nat → Bool
  | [] => true
  | x :: t => !t.contains x && nodupB t

/-- checker for an assignment returned by `linear_sum_assignment` (the solver itself is a
parameter, see `LsaSpec` in Props): rows/cols in range, pairwise distinct, `min n m` pairs -/
def isAssignment (n m : Nat) (a : List (Nat × Nat)) : Bool :=
  a.all (fun e => e.1 < n && e.2 < m) && nodupB (a.map (·.1)) && nodupB (a.map (·.2))
    && a.length == min n m

end SleapVerif.Oks
