/-!
# Model of `sleap_nn/inference/peak_finding.py` (core Lean only)

Written once over a scalar type `R` that only needs the notation classes, so that the very same
definitions run at `Rat` in the driver and are reasoned about over every ordered field in
`Props/C06.lean`, `Props/C07.lean`.

What is mirrored, quirk by quirk:

* `find_local_peaks_rough`: `flat_img = cms.reshape(-1,1,h,w)` (flat index `n = s*C + c`, read back
  as `cms[n / C][n % C]`), kornia `dilation` with the kernel `[[1,1,1],[1,0,1],[1,1,1]]`:
  geodesic border = pad with `-max_val`, `neighborhood[kernel == 0] = -max_val`, output =
  max over the nine positions of `padded + neighborhood` (`max_val = 1e4` is the parameter
  `big`); `max_img.reshape(-1, C, h, w)`; `(cms > max_img) & (cms > threshold)`;
  `torch.where` on the `(S,h,w,C)` permutation = lexicographic `(sample,row,col,channel)`;
  point = `(x = col, y = row)`, value = `cms[s,c,row,col]`.
* `find_local_peaks(refinement="integral")`: crop index `sample*C + channel` into the
  `(S*C,1,h,w)` reshape, `make_centered_bboxes` + kornia `crop_and_resize` for patch size `p`
  = `p×p` samples at `c - (p-1)/2 + k` with **zeros outside the map**: integer positions (the
  cells) for odd `p`, half-integer positions (mean of the four surrounding cells) for even `p`
  (`cropZ`, checked against kornia on both); `integral_regression`: `gv[k] = k - (p-1)/2`,
  `x̂ = Σ gv[b]·P[a][b] / Σ P`, `ŷ = Σ gv[a]·P[a][b] / Σ P`.  A zero patch sum (the code then
  produces inf/NaN) is `none`.
* `find_global_peaks_rough`, **as it was before the repair f45cc18** (`globalRoughAsIs`, kept as a regression record): x = first argmax over columns of the
  per-column maximum, y = first argmax over rows of the per-row maximum — two separate
  reductions; and **as it is now** (`globalRough`, fixes/C07-flat-argmax.patch applied): first maximum of
  the row-major flattening, `x = k % w`, `y = k / w`.  `max < threshold` ↦ `(none, 0)`.
* `find_global_peaks(refinement="integral")`: `rough_peaks.view(S*C,2)`, `valid_idx` = the
  non-NaN rows, crops taken from flat map `valid_idx[k]`, offsets scattered back with
  `refined[valid_idx] += offsets`, reshape to `(S,C,2)`.

Half-precision maps are cropped in float32 since 327aafb (values unchanged: the model is dtype-agnostic; the
pre-fix behaviour — kornia solving the box transform in the map's dtype — is finding F-C06half, fixed).
`p = 1`: the model gives offset 0 (the formula's value); the code raises inside kornia (the
perspective solve of a degenerate box is singular) — finding F-C06p1, replayed by the harness.
-/
namespace SleapVerif.Peaks

variable {R : Type} [Add R] [Sub R] [Mul R] [Div R] [Neg R] [LT R] [DecidableLT R]
  [OfNat R 0] [NatCast R]

/-- a batch of confidence maps, `v sample channel row col` -/
structure Batch (R : Type) where
  S : Nat
  C : Nat
  h : Nat
  w : Nat
  v : Nat → Nat → Nat → Nat → R

/-- `cms.reshape(-1, 1, h, w)[n, 0]` -/
def Batch.flat (b : Batch R) (n : Nat) : Nat → Nat → R := b.v (n / b.C) (n % b.C)

/-- the 1×1 batch holding only map `(s,c)` -/
def Batch.single (b : Batch R) (s c : Nat) : Batch R :=
  { S := 1, C := 1, h := b.h, w := b.w, v := fun _ _ => b.v s c }

def maxR (a b : R) : R := if a < b then b else a

def inB (h w : Nat) (i j : Int) : Bool := decide (0 ≤ i) && decide (i < h) && decide (0 ≤ j) && decide (j < w)

/-- `F.pad(tensor, [1,1,1,1], value=-max_val)` read at a signed position -/
def padAt (big : R) (h w : Nat) (img : Nat → Nat → R) (i j : Int) : R :=
  if inB h w i j then img i.toNat j.toNat else -big

/-- `neighborhood`: zeros, `-max_val` where the kernel is 0 (the centre) -/
def nbhd (big : R) (di dj : Int) : R := if di = 0 ∧ dj = 0 then -big else 0

def kernelOffsets : List (Int × Int) :=
  [(-1,-1), (-1,0), (-1,1), (0,-1), (0,0), (0,1), (1,-1), (1,0), (1,1)]

/-- kornia `dilation(img, kernel)` at cell `(i,j)` (unfold engine) -/
def dilate (big : R) (h w : Nat) (img : Nat → Nat → R) (i j : Nat) : R :=
  match kernelOffsets.map fun d => padAt big h w img ((i : Int) + d.1) ((j : Int) + d.2) + nbhd big d.1 d.2 with
  | [] => -big
  | x :: xs => xs.foldl maxR x

/-- `max_img.reshape(-1, C, h, w)[s, c, i, j]` -/
def maxImg (big : R) (b : Batch R) (s c i j : Nat) : R :=
  dilate big b.h b.w (b.flat (s * b.C + c)) i j

/-- `(cms > max_img) & (cms > threshold)` -/
def isPeak (big thr : R) (b : Batch R) (s c i j : Nat) : Bool :=
  decide (maxImg big b s c i j < b.v s c i j) && decide (thr < b.v s c i j)

structure Peak (R : Type) where
  x : Nat
  y : Nat
  val : R
  sample : Nat
  channel : Nat
deriving DecidableEq

/-- `find_local_peaks_rough` -/
def localPeaksRough (big thr : R) (b : Batch R) : List (Peak R) :=
  (List.range b.S).flatMap fun s =>
    (List.range b.h).flatMap fun i =>
      (List.range b.w).flatMap fun j =>
        (List.range b.C).filterMap fun c =>
          if isPeak big thr b s c i j then some ⟨j, i, b.v s c i j, s, c⟩ else none

/-! ## integral refinement -/

def sumN (f : Nat → R) : Nat → R
  | 0 => 0
  | n+1 => sumN f n + f n

/-- value at a signed position with zeros outside the map (`crop_and_resize`, zero padding) -/
def zeroPadAt (h w : Nat) (img : Nat → Nat → R) (i j : Int) : R :=
  if inB h w i j then img i.toNat j.toNat else 0

/-- kornia `crop_and_resize` of a `p×p` box from `make_centered_bboxes` (corners at `c ∓ (p-1)/2`,
`align_corners=True`, bilinear, zero padding) on a zero-padded image `Z`; entry `(a,b)` is the
sample at row `cy - (p-1)/2 + a`, column `cx - (p-1)/2 + b`:
* odd `p`: an integer position — the cell itself;
* even `p`: a half-integer position in both axes — the mean of the four surrounding cells
  (rows `cy - p/2 + a`, `+1`; columns `cx - p/2 + b`, `+1`). -/
def cropZ (Z : Int → Int → R) (p cx cy a b : Nat) : R :=
  let i0 : Int := (cy : Int) - ((p / 2 : Nat) : Int) + a
  let j0 : Int := (cx : Int) - ((p / 2 : Nat) : Int) + b
  if p % 2 = 1 then Z i0 j0
  else (Z i0 j0 + Z i0 (j0 + 1) + Z (i0 + 1) j0 + Z (i0 + 1) (j0 + 1)) / ((4 : Nat) : R)

/-- the `p×p` patch cropped around cell `(cx, cy)` of a map -/
def patch (h w : Nat) (img : Nat → Nat → R) (p cx cy : Nat) (a b : Nat) : R :=
  cropZ (zeroPadAt h w img) p cx cy a b

/-- `gv = arange(p) - (p-1)/2` -/
def gv (p k : Nat) : R := (k : R) - ((p - 1 : Nat) : R) / ((2 : Nat) : R)

def patchSum (p : Nat) (P : Nat → Nat → R) : R :=
  sumN (fun a => sumN (fun b => P a b) p) p

def xNum (p : Nat) (P : Nat → Nat → R) : R :=
  sumN (fun a => sumN (fun b => gv p b * P a b) p) p

def yNum (p : Nat) (P : Nat → Nat → R) : R :=
  sumN (fun a => sumN (fun b => gv p a * P a b) p) p

/-- `integral_regression` on one patch; `none` when the normaliser is 0 -/
def integralOffsets (p : Nat) (P : Nat → Nat → R) : Option (R × R) :=
  let z := patchSum p P
  if z < 0 ∨ 0 < z then some (xNum p P / z, yNum p P / z) else none

/-- refined point `rough + offsets`, `integral_patch_size = p` -/
def refinePoint (h w : Nat) (img : Nat → Nat → R) (p x y : Nat) : Option (R × R) :=
  (integralOffsets p (patch h w img p x y)).map fun o => ((x : R) + o.1, (y : R) + o.2)

structure RPeak (R : Type) where
  pt : Option (R × R)
  val : R
  sample : Nat
  channel : Nat
deriving DecidableEq

/-- `find_local_peaks(refinement="integral", integral_patch_size=p)` applied to the rough list:
crop `k` is taken from flat map `sample*C + channel` -/
def refineLocal (q : Nat) (b : Batch R) (ps : List (Peak R)) : List (RPeak R) :=
  ps.map fun p =>
    ⟨refinePoint b.h b.w (b.flat (p.sample * b.C + p.channel)) q p.x p.y, p.val, p.sample, p.channel⟩

def localPeaks (big thr : R) (q : Nat) (b : Batch R) : List (RPeak R) :=
  refineLocal q b (localPeaksRough big thr b)

/-! ## global peaks -/

/-- first index in `0..k` (inclusive) at which `f` is maximal (`torch.max`/`argmax` on CPU) -/
def argmaxUpTo (f : Nat → R) : Nat → Nat
  | 0 => 0
  | k+1 => let m := argmaxUpTo f k; if f m < f (k+1) then k+1 else m

def maxUpTo (f : Nat → R) (k : Nat) : R := f (argmaxUpTo f k)

structure GPeak (R : Type) where
  pt : Option (Nat × Nat)   -- (x, y)
  val : R
deriving DecidableEq

def threshold (thr : R) (x y : Nat) (m : R) : GPeak R :=
  if m < thr then ⟨none, 0⟩ else ⟨some (x, y), m⟩

/-- `(flat_inds % width, flat_inds // width)`: exact integer arithmetic, whatever the size of the map
(the code does it on int64 indices and converts to float32 afterwards) -/
def unravel (w k : Nat) : Nat × Nat := (k % w, k / w)

/-- `find_global_peaks_rough` on one map (as it is since f45cc18): first maximum of the row-major flattening, unravelled -/
def globalRough1 (thr : R) (h w : Nat) (img : Nat → Nat → R) : GPeak R :=
  let f : Nat → R := fun k => img (k / w) (k % w)
  let k := argmaxUpTo f (h * w - 1)
  threshold thr (unravel w k).1 (unravel w k).2 (f k)

/-- `find_global_peaks_rough` as it was before the repair f45cc18 (finding F-C07): two separate reductions -/
def globalRoughAsIs1 (thr : R) (h w : Nat) (img : Nat → Nat → R) : GPeak R :=
  let colMax : Nat → R := fun j => maxUpTo (fun i => img i j) (h - 1)
  let rowMax : Nat → R := fun i => maxUpTo (fun j => img i j) (w - 1)
  let x := argmaxUpTo colMax (w - 1)
  let y := argmaxUpTo rowMax (h - 1)
  threshold thr x y (colMax x)

def globalRough (thr : R) (b : Batch R) (s c : Nat) : GPeak R := globalRough1 thr b.h b.w (b.v s c)
def globalRoughAsIs (thr : R) (b : Batch R) (s c : Nat) : GPeak R := globalRoughAsIs1 thr b.h b.w (b.v s c)

/-- a refined global result: `pt = none` ↔ the code's NaN row; `some none` = valid peak whose patch
sum is 0 (inf/NaN offsets in the code) -/
structure GRPeak (R : Type) where
  rough : Option (Nat × Nat)
  pt : Option (Option (R × R))
  val : R
deriving DecidableEq

/-- one step of `refined_peaks[valid_idx] += offsets`: row `kr.1` receives the refined point `kr.2` -/
def scatterStep (acc : List (GRPeak R)) (kr : Nat × Option (R × R)) : List (GRPeak R) :=
  match acc[kr.1]? with
  | some e => acc.set kr.1 { e with pt := some kr.2 }
  | none => acc

/-- `find_global_peaks(refinement="integral")`, flattened `(S*C)` view, written with the code's
`valid_idx` gather / scatter: `rough` is any rough detector (as-is or repaired). -/
def globalRefineFlat (rough : Nat → Nat → GPeak R) (q : Nat) (b : Batch R) : List (GRPeak R) :=
  let n := b.S * b.C
  let roughFlat : List (GPeak R) := (List.range n).map fun k => rough (k / b.C) (k % b.C)
  let base : List (GRPeak R) := roughFlat.map fun g => ⟨g.pt, g.pt.map fun _ => none, g.val⟩
  let validIdx : List Nat := (List.range n).filter fun k => (roughFlat.getD k ⟨none, 0⟩).pt.isSome
  -- crops: flat map `valid_idx[k]`, centred on `valid_peaks[k]`
  let refined : List (Option (R × R)) := validIdx.map fun k =>
    match (roughFlat.getD k ⟨none, 0⟩).pt with
    | some (x, y) => refinePoint b.h b.w (b.flat k) q x y
    | none => none
  -- refined_peaks[valid_idx] += offsets
  (validIdx.zip refined).foldl scatterStep base

/-- `refined_peaks.reshape(S, C, 2)[s, c]` -/
def globalPeaks (rough : Nat → Nat → GPeak R) (q : Nat) (b : Batch R) (s c : Nat) : GRPeak R :=
  (globalRefineFlat rough q b).getD (s * b.C + c) ⟨none, none, 0⟩

/-- row-major `(S,C,h,w)` tensor → batch (driver helper) -/
def Batch.ofArray (S C h w : Nat) (a : Array R) : Batch R :=
  { S := S, C := C, h := h, w := w, v := fun s c i j => a.getD (((s * C + c) * h + i) * w + j) 0 }

end SleapVerif.Peaks
