import SleapVerif.Model.Toposort
/-!
# Model of PAF peak grouping (`sleap_nn/inference/paf_grouping.py`), core Lean only

Pipeline of `PAFScorer.predict` for one sample, with the line scores taken as inputs (their
arithmetic belongs to C03):

* `candidates`        — `get_connection_candidates`: all src×dst pairs per edge type.  Peaks of a
                        node type are taken in ascending global index, which is both what the
                        `argsort`/mask grouping yields (up to the order inside an edge block) and
                        what `torch.unique` in `match_candidates_sample` and the channel masks in
                        `group_instances_sample` use, so "row/col of the cost matrix" = "index
                        within the node type".
* `costMatrix`        — `cost = -score`, a NaN / non-finite score is `none` (the code writes `inf`).
* the Hungarian solver is a **parameter** `lsa : Lsa R`; `none` = scipy raises
  `ValueError: cost matrix is infeasible`.  Its contract `LsaSpec` lives in `Lemmas/Grouping.lean`.
* `matchEdgeAsIs`     — the pinned code: `lsa` sees the matrix with the `none` entries.
* `matchEdgeFixed`    — the code after `fixes/C08-infeasible.patch`: `none` entries get the finite
                        cost `2·Σ|valid| + 1`, matches that used one are dropped afterwards.
* `filterMinScore`    — `match_line_scores >= min_line_scores` in `group_instances_sample`.
* `connections`       — connections grouped by edge type **in `sorted_edge_inds` order**.
* `astep` / `assignRaw` — the loop of `assign_connections_to_instances`, all four code cases kept
                        literally (including the missing "src unassigned, dst assigned" case and the
                        non-merging branch of case 3); the dict is an insertion-ordered association
                        list with unique keys.
* `minPeaksThresholdF64`, `filterSmall` — `min_instance_peaks` (int, or `int(frac·n_nodes)` with the
                        product rounded to float64 as in the code; `minPeaksThreshold` is the exact-product
                        idealisation the AST-translated block is tied to).
* `makeInstances`     — `make_predicted_instances`: contiguous ids in ascending id order, score
                        accumulation in connection order, the sanity `assert` / dict lookup as an
                        explicit error, rows written in dict order (last write wins).
-/
namespace SleapVerif.Grouping
open SleapVerif.Toposort (Edge)

variable {R : Type}

/-- `(node type, index within the node type)` — the code's `PeakID` -/
abbrev Peak := Nat × Nat
abbrev Mat (α : Type) := List (List α)

/-! ## get_connection_candidates -/

/-- global indices (into `peaks_sample`) of the peaks of node type `k`, ascending -/
def nodePeaks (ch : List Nat) (k : Nat) : List Nat :=
  (ch.zipIdx.filter (fun x => x.1 == k)).map (·.2)

/-- `(edge index, src global peak, dst global peak)` in edge-major, src-major order -/
def candidates (ch : List Nat) (edges : List Edge) : List (Nat × Nat × Nat) :=
  edges.zipIdx.flatMap fun x =>
    (nodePeaks ch x.1.1).flatMap fun s => (nodePeaks ch x.1.2).map fun d => (x.2, s, d)

/-! ## match_candidates_sample -/

def entry {α : Type} (C : Mat (Option α)) (i j : Nat) : Option α :=
  match C[i]? with
  | none => none
  | some row => match row[j]? with
    | none => none
    | some x => x

def mkMat {α : Type} (nr nc : Nat) (f : Nat → Nat → α) : Mat α :=
  (List.range nr).map fun i => (List.range nc).map fun j => f i j

def nRows {α : Type} (C : Mat α) : Nat := C.length
def nCols {α : Type} (C : Mat α) : Nat := (C.headD []).length

/-- `torch.unique` of the candidates' src / dst columns: if either node type has no peak the edge
    has no candidate at all and the matrix is 0×0 -/
def edgeDims (ch : List Nat) (e : Edge) : Nat × Nat :=
  let ns := (nodePeaks ch e.1).length
  let nd := (nodePeaks ch e.2).length
  if ns = 0 ∨ nd = 0 then (0, 0) else (ns, nd)

/-- `scores` = the edge's line scores as an `n_src × n_dst` table (`none` = NaN) -/
def costMatrix [Neg R] (ch : List Nat) (e : Edge) (scores : Mat (Option R)) : Mat (Option R) :=
  mkMat (edgeDims ch e).1 (edgeDims ch e).2 fun i j => (entry scores i j).map Neg.neg

/-- `scipy.optimize.linear_sum_assignment` on a matrix whose `none` entries are `+inf`;
    `none` = `ValueError: cost matrix is infeasible` -/
abbrev Lsa (R : Type) := Mat (Option R) → Option (List (Nat × Nat))

structure Match (R : Type) where
  row : Nat
  col : Nat
  /-- `-cost[row, col]`; `none` would be `-inf` (then dropped by every `min_line_scores`) -/
  score : Option R

def toMatches [Neg R] (C : Mat (Option R)) (M : List (Nat × Nat)) : List (Match R) :=
  M.map fun m => ⟨m.1, m.2, (entry C m.1 m.2).map Neg.neg⟩

/-- the pinned code -/
def matchEdgeAsIs [Neg R] (lsa : Lsa R) (C : Mat (Option R)) : Option (List (Match R)) :=
  (lsa C).map (toMatches C)

section fixed
variable [Add R] [Neg R] [LT R] [DecidableLT R] [OfNat R 0] [OfNat R 1]

def absR (x : R) : R := if x < 0 then -x else x

def sumL (l : List R) : R := l.foldl (· + ·) 0

/-- `|c|` of a valid cell, nothing for an invalid one -/
def cellAbs (x : Option R) : R :=
  match x with
  | some v => absR v
  | none => 0

/-- all cell indices, row-major -/
def allIdx {α : Type} (C : Mat α) : List (Nat × Nat) :=
  (List.range (nRows C)).flatMap fun i => (List.range (nCols C)).map fun j => (i, j)

/-- `2 * np.abs(cost[~is_invalid]).sum() + 1` (row-major sum; an invalid cell contributes nothing) -/
def sentinel (C : Mat (Option R)) : R :=
  let s := sumL ((allIdx C).map fun ij => cellAbs (entry C ij.1 ij.2))
  (s + s) + 1

def fillInvalid (C : Mat (Option R)) : Mat (Option R) :=
  C.map fun row => row.map fun x => some (x.getD (sentinel C))

/-- the code after the fix: solve on the filled matrix, drop matches on invalid entries -/
def matchEdgeFixed (lsa : Lsa R) (C : Mat (Option R)) : Option (List (Match R)) :=
  (lsa (fillInvalid C)).map fun M =>
    toMatches C (M.filter fun m => (entry C m.1 m.2).isSome)

def matchEdge (fixed : Bool) (lsa : Lsa R) (C : Mat (Option R)) : Option (List (Match R)) :=
  if fixed then matchEdgeFixed lsa C else matchEdgeAsIs lsa C

end fixed

/-! ## group_instances_sample: min-score filter, edge-ordered connections -/

def filterMinScore [LE R] [DecidableLE R] (thr : R) (ms : List (Match R)) : List (Match R) :=
  ms.filter fun m => match m.score with
    | some s => decide (thr ≤ s)
    | none => false

structure Conn (R : Type) where
  src : Peak
  dst : Peak
  score : R

def connsOfEdge (e : Edge) (ms : List (Match R)) : List (Conn R) :=
  ms.filterMap fun m => m.score.map fun s => ⟨(e.1, m.row), (e.2, m.col), s⟩

/-- the dict `connections` flattened in iteration order: for each edge index of
    `sorted_edge_inds`, that edge's (filtered) matches in match order -/
def connections (edges : List Edge) (order : List Nat) (mts : List (List (Match R))) :
    List (Conn R) :=
  order.flatMap fun k =>
    match edges[k]? with
    | some e => connsOfEdge e (mts.getD k [])
    | none => []

/-! ## assign_connections_to_instances -/

/-- Python dict `PeakID -> instance id`: insertion-ordered association list with unique keys -/
abbrev Assign := List (Peak × Nat)

def lookup (a : Assign) (p : Peak) : Option Nat := (a.find? (fun kv => kv.1 == p)).map (·.2)

/-- `a[p] = i` : update in place when the key exists, append otherwise -/
def insert (a : Assign) (p : Peak) (i : Nat) : Assign :=
  if (lookup a p).isSome then a.map (fun kv => if kv.1 == p then (kv.1, i) else kv)
  else a ++ [(p, i)]

/-- `max(instance_assignments.values(), default=-1) + 1` -/
def nextId (a : Assign) : Nat := a.foldl (fun m kv => max m (kv.2 + 1)) 0

/-- node types of the peaks currently assigned to instance `i` -/
def nodesOf (a : Assign) (i : Nat) : List Nat := (a.filter (fun kv => kv.2 == i)).map (·.1.1)

inductive Case | c1 | c2 | c3 | c4
deriving DecidableEq, Repr

def caseOf (a : Assign) (s d : Peak) : Case :=
  match lookup a s, lookup a d with
  | none, none => .c1
  | some _, none => .c2
  | some _, some _ => .c3
  | none, some _ => .c4

/-- one iteration of the loop body, the four code cases literally -/
def astep (a : Assign) (s d : Peak) : Assign :=
  match lookup a s, lookup a d with
  | none, none =>
    -- Case 1: new instance holding both
    let new := nextId a
    insert (insert a s new) d new
  | some i, none =>
    -- Case 2: dst joins the instance of src
    insert a d i
  | some i, some j =>
    -- Case 3: dst is re-assigned; the rest of dst's old instance follows only if the two
    -- instances share no node type
    let a1 := insert a d i
    if (nodesOf a1 i).any (fun n => (nodesOf a1 j).contains n) then a1
    else a1.map (fun kv => if kv.2 == j then (kv.1, i) else kv)
  | none, some _ =>
    -- (no branch in the code: nothing happens)
    a

def assignRaw (cs : List (Peak × Peak)) : Assign := cs.foldl (fun a c => astep a c.1 c.2) []

/-- the case taken by each connection, in order (reported for the evidence histogram) -/
def caseTrace (cs : List (Peak × Peak)) : List Case :=
  (cs.foldl (fun (st : Assign × List Case) c => (astep st.1 c.1 c.2, st.2 ++ [caseOf st.1 c.1 c.2]))
    ([], [])).2

inductive MinPeaks
  | int (n : Int)
  | frac (q : Rat)

/-- Threshold rule on **exact** numbers: `None` = `min_instance_peaks > 0` is false, no filtering; a
    fraction is converted with `⌊q · n_nodes⌋` on the exact product.  This is what the AST-translated
    block (`Props/TranslatedC08`, exact `pyMul`) computes.  The code's `int(q * n_nodes)` multiplies
    in float64 first: `minPeaksThresholdF64` is that rule literally, and `effMinPeaks` / `mkParams`
    make the pipeline model follow it for every float (`Lemmas/GroupingOut`: `filterSmall_eff`).
    The two rules agree whenever the float64 product is exact (`minPeaksThresholdF64_of_exact`). -/
def minPeaksThreshold (mp : MinPeaks) (nNodes : Nat) : Option Int :=
  match mp with
  | .int n => if 0 < n then some n else none
  | .frac q => if 0 < q then some (q * (nNodes : Rat)).floor else none

/-- `2^e` for an integer exponent -/
def pow2 (e : Int) : Rat :=
  if 0 ≤ e then ((2 ^ e.toNat : Nat) : Rat) else 1 / ((2 ^ (-e).toNat : Nat) : Rat)

/-- round to the nearest integer, ties to even -/
def roundHalfEven (x : Rat) : Int :=
  let f := x.floor
  let r := x - (f : Rat)
  if r < 1 / 2 then f else if 1 / 2 < r then f + 1 else if f % 2 = 0 then f else f + 1

/-- The IEEE-754 binary64 value nearest to a positive rational (round to nearest, ties to even;
    53-bit significand, gradual underflow below `2^-1022`; overflow to `inf` is not modelled — the
    code would raise `OverflowError` in `int(inf)`).  Doubles are dyadic rationals, so `Rat` carries
    the result exactly.  Non-positive arguments are returned unchanged (never used). -/
def roundF64 (x : Rat) : Rat :=
  if x ≤ 0 then x
  else
    let a : Int := x.num.natAbs.log2
    let b : Int := x.den.log2
    let e0 : Int := a - b - 52
    let e1 := if x / pow2 e0 < pow2 52 then e0 - 1 else e0
    let e2 := if pow2 53 ≤ x / pow2 e1 then e1 + 1 else e1
    let e := if e2 < -1074 then -1074 else e2
    (roundHalfEven (x / pow2 e) : Rat) * pow2 e

/-- The code's threshold: `if min_instance_peaks > 0:` … `int(min_instance_peaks * n_nodes)` for a
    float, **the product taken in float64** (`q` is the exact rational value of the double passed,
    `n_nodes` a small integer, the product is rounded to the nearest double, then truncated). -/
def minPeaksThresholdF64 (mp : MinPeaks) (nNodes : Nat) : Option Int :=
  match mp with
  | .int n => if 0 < n then some n else none
  | .frac q => if 0 < q then some (roundF64 (q * (nNodes : Rat))).floor else none

/-- The code's conversion statement `min_instance_peaks = int(min_instance_peaks * n_nodes)` for a
    positive float: afterwards the parameter **is** an absolute integer count. -/
def effMinPeaks (mp : MinPeaks) (nNodes : Nat) : MinPeaks :=
  match mp with
  | .int n => .int n
  | .frac q => if 0 < q then .int (roundF64 (q * (nNodes : Rat))).floor else .frac q

def countId (a : Assign) (i : Nat) : Nat := (a.filter (fun kv => kv.2 == i)).length

def filterSmall (a : Assign) (thr : Option Int) : Assign :=
  match thr with
  | none => a
  | some t => a.filter fun kv => decide (t ≤ (countId a kv.2 : Int))

def assignConnections (cs : List (Peak × Peak)) (mp : MinPeaks) (nNodes : Nat) : Assign :=
  filterSmall (assignRaw cs) (minPeaksThreshold mp nNodes)

/-! ## make_predicted_instances -/

inductive GErr
  | infeasible      -- scipy: `ValueError: cost matrix is infeasible`
  | keyError        -- `instance_assignments[dst_peak_id]` on a missing key
  | assertion       -- the sanity `assert` fails
  | noOrder         -- `toposort_edges` raised (not a tree)
deriving DecidableEq, Repr

/-- `np.unique(values)`: ascending, distinct -/
def sortedIds (a : Assign) : List Nat :=
  (List.range (nextId a)).filter fun i => a.any (fun kv => kv.2 == i)

/-- row of instance `id`: per node type the peak index written last in dict order -/
def rowOf (a : Assign) (nNodes : Nat) (id : Nat) : List (Option Nat) :=
  (List.range nNodes).map fun n =>
    ((a.filter (fun kv => kv.2 == id && kv.1.1 == n)).getLast?).map (·.1.2)

/-- first connection on which the score loop stops, if any -/
def checkConns (cs : List (Conn R)) (a : Assign) : Option GErr :=
  cs.findSome? fun c =>
    match lookup a c.src with
    | none => none
    | some i =>
      match lookup a c.dst with
      | none => some .keyError
      | some j => if i = j then none else some .assertion

def instScore [Add R] [OfNat R 0] (cs : List (Conn R)) (a : Assign) (id : Nat) : R :=
  (cs.filter (fun c => lookup a c.src == some id)).foldl (fun acc c => acc + c.score) 0

structure Inst (R : Type) where
  /-- per node type: index within the node type of the assigned peak -/
  row : List (Option Nat)
  score : R

def makeInstances [Add R] [OfNat R 0] (cs : List (Conn R)) (a : Assign) (nNodes : Nat) :
    Except GErr (List (Inst R)) :=
  match checkConns cs a with
  | some e => .error e
  | none => .ok ((sortedIds a).map fun id => ⟨rowOf a nNodes id, instScore cs a id⟩)

/-! ## the whole sample -/

structure Params (R : Type) where
  nNodes : Nat
  edges : List Edge
  /-- `sorted_edge_inds` (the driver computes it with `Toposort.toposort`) -/
  order : List Nat
  minLine : R
  minPeaks : MinPeaks

/-- scorer parameters as the code sees them: a float `min_instance_peaks` goes through the float64
    conversion of `assign_connections_to_instances` (`n_nodes` is passed by `group_instances_sample`) -/
def mkParams (nNodes : Nat) (edges : List Edge) (order : List Nat) (minLine : R) (mp : MinPeaks) :
    Params R := ⟨nNodes, edges, order, minLine, effMinPeaks mp nNodes⟩

structure Output (R : Type) where
  mts : List (List (Match R))      -- per edge index, before the min-score filter
  conns : List (Conn R)                -- accepted connections in processing order
  assign : Assign                      -- after the min_instance_peaks filter
  insts : List (Inst R)

def mapMOpt {α β : Type} (f : α → Option β) : List α → Option (List β)
  | [] => some []
  | x :: xs => match f x with
    | none => none
    | some y => match mapMOpt f xs with
      | none => none
      | some ys => some (y :: ys)

section sample
variable [Add R] [Neg R] [LT R] [DecidableLT R] [LE R] [DecidableLE R] [OfNat R 0] [OfNat R 1]

/-- per-edge matches for edge indices `0 … n_edges-1` (`match_candidates_sample`) -/
def matchAll (fixed : Bool) (lsa : Lsa R) (P : Params R) (ch : List Nat)
    (scores : List (Mat (Option R))) : Option (List (List (Match R))) :=
  mapMOpt (fun x : Edge × Nat => matchEdge fixed lsa (costMatrix ch x.1 (scores.getD x.2 [])))
    P.edges.zipIdx

def pairs (cs : List (Conn R)) : List (Peak × Peak) := cs.map fun c => (c.src, c.dst)

def groupSample (fixed : Bool) (lsa : Lsa R) (P : Params R) (ch : List Nat)
    (scores : List (Mat (Option R))) : Except GErr (Output R) :=
  match matchAll fixed lsa P ch scores with
  | none => .error .infeasible
  | some ms =>
    let cs := connections P.edges P.order (ms.map (filterMinScore P.minLine))
    let a := assignConnections (pairs cs) P.minPeaks P.nNodes
    match makeInstances cs a P.nNodes with
    | .error e => .error e
    | .ok insts => .ok ⟨ms, cs, a, insts⟩

/-- `group_instances_batch` / `PAFScorer.predict`: sample by sample, first error wins -/
def groupBatch (fixed : Bool) (lsa : Lsa R) (P : Params R)
    (samples : List (List Nat × List (Mat (Option R)))) : Except GErr (List (Output R)) :=
  samples.mapM fun s => groupSample fixed lsa P s.1 s.2

end sample

/-- global peak index of `(node type, index within node type)` -/
def globalIdx (ch : List Nat) (p : Peak) : Option Nat := (nodePeaks ch p.1)[p.2]?

end SleapVerif.Grouping
