/-!
# Generic scalar helpers (core Lean only)

Numeric model code is written once over an arbitrary carrier `R` that only provides the core
notation classes; the drivers run it at `Rat` (exact) and `Float`, the theorems instantiate it at
every ordered field.  Naturals enter through an explicit `cast : Nat → R`
(`Float` has no `NatCast`), transcendentals through explicit `exp sqrt : R → R` parameters
(laws: `SleapVerif/Lemmas/Transc.lean`).  Missing data is `Option`, never a NaN encoding.
-/
namespace SleapVerif.Scalar

variable {R : Type}

/-- `torch.maximum` on non-NaN arguments -/
def maxR [LT R] [DecidableLT R] (a b : R) : R := if a < b then b else a

/-- `torch.minimum` on non-NaN arguments -/
def minR [LT R] [DecidableLT R] (a b : R) : R := if b < a then b else a

/-- `torch.clamp(x, min=lo, max=hi)` = `min(max(x, lo), hi)` -/
def clamp [LT R] [DecidableLT R] (x lo hi : R) : R := minR (maxR x lo) hi

def sq [Mul R] (x : R) : R := x * x

/-- A point as the code sees it: either coordinate NaN makes every expression that touches the
point NaN, so a half-missing point is a missing point. -/
def mkPoint (x y : Option R) : Option (R × R) :=
  match x, y with
  | some a, some b => some (a, b)
  | _, _ => none

/-- left-to-right sum starting from `0` (the order `pafs += paf` uses) -/
def sumL [Add R] [OfNat R 0] (l : List R) : R := l.foldl (· + ·) 0

/-- left-to-right max starting from `0` (the order `cms = maximum(cms, cm)` uses) -/
def maxL [LT R] [DecidableLT R] [OfNat R 0] (l : List R) : R := l.foldl maxR 0

end SleapVerif.Scalar
