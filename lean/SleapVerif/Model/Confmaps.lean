import SleapVerif.Model.Scalar
import SleapVerif.Model.Grid
/-!
# Confidence-map targets (`sleap_nn/data/confidence_maps.py`), core Lean only

* `make_confmaps`: `cm = nan_to_num(exp(-((xv-x)² + (yv-y)²) / (2σ²)))`; a NaN coordinate makes the
  whole channel NaN and `nan_to_num` turns that into 0 — here: `none ↦ 0`.
* `generate_confmaps`: flatten `(n_inst, n_nodes)` to channels, `σ' = sigma * output_stride`.
* `make_multi_confmaps` (since fix 372b25e): `cms = zeros; for i in range(n_inst): cms =
  maximum(cms, make_confmaps(points_batch[:, i]))` — per sample a left fold of `max` from 0 over
  its own animals (`multiConfmapsBatch`).  The pre-fix behaviour (samples mixed by a broadcast)
  is kept only as `multiConfmapsBatchAsIs`, a regression record for F-C01.
* `generate_multiconfmaps`: `instances[:, :num_instances]` first; the centroid variant has one
  node per animal (`unsqueeze(-2)`) and hence one channel.
-/
namespace SleapVerif.Confmaps
open SleapVerif.Scalar SleapVerif.Grid

variable {R : Type} [Add R] [Sub R] [Mul R] [Div R] [Neg R] [LT R] [DecidableLT R]
  [OfNat R 0] [OfNat R 2]

/-- squared distance from grid point `(gx, gy)` to keypoint `(x, y)` -/
def d2 (gx gy x y : R) : R := (gx - x) * (gx - x) + (gy - y) * (gy - y)

/-- one cell of one channel; `sg` is the σ actually used (`sigma * stride`) -/
def cmCell (exp : R → R) (sg : R) (kp : Option (R × R)) (gx gy : R) : R :=
  match kp with
  | some (x, y) => exp (-(d2 gx gy x y) / ((2 : R) * (sg * sg)))
  | none => 0

/-- `make_confmaps` for one sample: one map per keypoint -/
def makeConfmaps (exp : R → R) (cast : Nat → R) (xv yv : List Nat) (sg : R)
    (kps : List (Option (R × R))) : List (List (List R)) :=
  kps.map fun kp => tabulate cast xv yv (cmCell exp sg kp)

/-- `generate_confmaps` for one sample (`kps` = the `(n_inst·n_nodes)` flattening) -/
def confmaps (exp : R → R) (cast : Nat → R) (sigma : R) (stride H W : Nat)
    (kps : List (Option (R × R))) : List (List (List R)) :=
  makeConfmaps exp cast (gridVec W stride) (gridVec H stride) (sigma * cast stride) kps

/-- node `c` of an animal (`none` when missing) -/
def nodeOf (a : List (Option (R × R))) (c : Nat) : Option (R × R) :=
  match a[c]? with
  | some kp => kp
  | none => none

/-- one cell of the max-reduction over a list of keypoints: `foldl max 0` -/
def multiCell (exp : R → R) (sg : R) (kps : List (Option (R × R))) (gx gy : R) : R :=
  kps.foldl (fun acc kp => maxR acc (cmCell exp sg kp gx gy)) 0

/-- `make_multi_confmaps`: channel `c` = max over animals of node `c` -/
def makeMultiConfmaps (exp : R → R) (cast : Nat → R) (xv yv : List Nat) (sg : R)
    (nNodes : Nat) (animals : List (List (Option (R × R)))) : List (List (List R)) :=
  (List.range nNodes).map fun c =>
    tabulate cast xv yv (multiCell exp sg (animals.map (nodeOf · c)))

/-- `generate_multiconfmaps(is_centroids=False)` -/
def multiConfmaps (exp : R → R) (cast : Nat → R) (sigma : R) (stride H W : Nat)
    (numInstances nNodes : Nat) (animals : List (List (Option (R × R)))) : List (List (List R)) :=
  makeMultiConfmaps exp cast (gridVec W stride) (gridVec H stride) (sigma * cast stride)
    nNodes (animals.take numInstances)

/-- `generate_multiconfmaps(is_centroids=True)`: one single-node animal per centroid -/
def centroidConfmaps (exp : R → R) (cast : Nat → R) (sigma : R) (stride H W : Nat)
    (numInstances : Nat) (centroids : List (Option (R × R))) : List (List (List R)) :=
  multiConfmaps exp cast sigma stride H W numInstances 1 (centroids.map fun c => [c])

/-- `instance.view(n_samples, -1, 2)` of a rank-4 input: channel `a·n_nodes + c` is node `c` of
animal `a` -/
def flattenInst (animals : List (List (Option (R × R)))) : List (Option (R × R)) := animals.flatten

/-- `generate_confmaps` on a rank-4 input `(n_inst, n_nodes, 2)` of one sample -/
def confmaps4 (exp : R → R) (cast : Nat → R) (sigma : R) (stride H W : Nat)
    (animals : List (List (Option (R × R)))) : List (List (List R)) :=
  confmaps exp cast sigma stride H W (flattenInst animals)

/-- `generate_confmaps` on a batch: `make_confmaps` broadcasts over the sample axis, every sample
is drawn from its own keypoints -/
def confmapsBatch (exp : R → R) (cast : Nat → R) (sigma : R) (stride H W : Nat)
    (batch : List (List (Option (R × R)))) : List (List (List (List R))) :=
  batch.map (confmaps exp cast sigma stride H W)

/-- `generate_multiconfmaps` on a whole batch **as coded since 372b25e**:
`for i in range(n_inst): cms = maximum(cms, make_confmaps(points_batch[:, i], …))` — the loop runs
over the instance axis and keeps the sample axis, i.e. sample `b` folds `max` over its own first
`num_instances` animals, starting from zeros. -/
def multiConfmapsBatch (exp : R → R) (cast : Nat → R) (sigma : R) (stride H W : Nat)
    (numInstances nNodes : Nat) (batch : List (List (List (Option (R × R))))) :
    List (List (List (List R))) :=
  batch.map fun animals =>
    makeMultiConfmaps exp cast (gridVec W stride) (gridVec H stride) (sigma * cast stride) nNodes
      (animals.take numInstances)

/-- centroid variant on a batch -/
def centroidConfmapsBatch (exp : R → R) (cast : Nat → R) (sigma : R) (stride H W : Nat)
    (numInstances : Nat) (batch : List (List (Option (R × R)))) : List (List (List (List R))) :=
  multiConfmapsBatch exp cast sigma stride H W numInstances 1 (batch.map fun cs => cs.map fun c => [c])

/-- Regression record (F-C01, fixed in 372b25e): the reduction **as it was coded before the fix** —
`points_batch.reshape(samples·n_inst, …)` folded into a `(samples, …)` accumulator by a
broadcasting `maximum`, so every sample received the reduction over the animals of *all* samples.
Models nothing in the current tree; kept so the counterexample stays machine-checked. -/
def multiConfmapsBatchAsIs (exp : R → R) (cast : Nat → R) (sigma : R) (stride H W : Nat)
    (numInstances nNodes : Nat) (batch : List (List (List (Option (R × R))))) :
    List (List (List (List R))) :=
  let all := (batch.map (·.take numInstances)).flatten
  batch.map fun _ =>
    makeMultiConfmaps exp cast (gridVec W stride) (gridVec H stride) (sigma * cast stride) nNodes all

/-! ### exact side channels used by the driver (same definitions, other `exp`) -/

/-- first index of the maximum of a non-empty list under `<` (ties → first), with the value -/
def argmaxFirst (l : List R) : Option (Nat × R) :=
  match l with
  | [] => none
  | x :: xs =>
    some ((xs.foldl (fun (acc : Nat × Nat × R) v =>
      let (k, bi, bv) := acc
      if bv < v then (k + 1, k, v) else (k + 1, bi, bv)) (1, 0, x)).2)

end SleapVerif.Confmaps
