/-!
# Model of the shape / stride / channel bookkeeping of `sleap_nn.architectures`

Mirrors, as it is (quirks included):

* `UNet.from_config` (block counts by integer `log2`), `UNet.__init__` (`current_stride`,
  `x_in_shape`), `Encoder.__init__` (stem / down / middle blocks, down blocks carry
  `convs_per_block - 1` convolutions), `Decoder.__init__` (`current_strides`, the up blocks and the
  extra `while current_stride >= output_stride` blocks with `// filters_rate`),
* `ConvNextWrapper` / `SwinTWrapper` (`arch` tables, `stem_patch_stride * 2**(down-1)`),
* `Model.__init__` (`in_channels = int(round(max_channels / r**len(decoder_stack)))`, then
  `* r**factor`, `strides.index` look-ups), `Model.forward` (stride look-up per head),
* `MaxPool2dWithSamePadding` as a one-bit state machine (`padding == "same"` only on the first
  call).

A tensor shape is `channels × size`; the two never interact in the code (convolutions do not look
at the size, pools do not look at the channels), so the model runs a **channel pass** (no input
size) and a **spatial pass** (one axis at a time) over the same list of operations.
Core Lean only.
-/
namespace SleapVerif.Arch

/-! ## integer primitives (also used by the generated file `Gen/TranslatedArch.lean`) -/

/-- Python `-((-a) // b)`, i.e. `math.ceil(a / b)` for `b > 0`. -/
def ceilDiv (a b : Int) : Int := -(Int.fdiv (-a) b)

/-- `int(log2(n / d))` (truncation toward zero) for positive `n`, `d`; `0` otherwise. -/
def log2Trunc (n d : Int) : Int :=
  if n ≤ 0 ∨ d ≤ 0 then 0
  else if d ≤ n then ((n / d).toNat.log2 : Int) else -((d / n).toNat.log2 : Int)

/-- `filters_rate` as a positive rational `p / q` (1, 3/2, 2 …). -/
structure Rate where
  p : Nat
  q : Nat
deriving DecidableEq, Repr

/-- `int(f * r ** k)` for an integer exponent of either sign (exact rational arithmetic). -/
def scale (f : Nat) (r : Rate) (k : Int) : Nat :=
  match k with
  | .ofNat n => f * r.p ^ n / r.q ^ n
  | .negSucc n => f * r.q ^ (n + 1) / r.p ^ (n + 1)

/-- Python `round(num / den)` (banker's rounding) on an exact quotient. -/
def roundHalfEven (num den : Nat) : Nat :=
  let q := num / den
  let rm := num % den
  if 2 * rm < den then q else if den < 2 * rm then q + 1 else if q % 2 = 0 then q else q + 1

/-- `int(round(max_channels / r ** n))` -/
def headBase (r : Rate) (xIn n : Nat) : Nat := roundHalfEven (xIn * r.q ^ n) (r.p ^ n)

/-- `int(base * r ** factor)` (`factor = none`: the head sits at the minimum output stride and
    the multiplication is skipped). -/
def headIn (r : Rate) (xIn n : Nat) (factor : Option Nat) : Nat :=
  match factor with
  | none => headBase r xIn n
  | some k => headBase r xIn n * r.p ^ k / r.q ^ k

/-! ### `padding="same"` (stride 1, dilation 1)

torch pads `k - 1` in total (`(k-1)/2` before, the rest after), so the output of a convolution with
**any** kernel size `k ≥ 1` has the input's size (`Props/C14.same_padding_preserves_size`; validated
against real `nn.Conv2d(padding="same")` modules on every run).  This is why `kernel_size` does not
appear in the ops below: `Op.conv` leaves the size unchanged. -/
def sameConvOut (n k : Nat) : Nat :=
  let total := k - 1
  let left := total / 2
  let right := total - left
  n + left + right + 1 - k

/-- the same convolution with the explicit symmetric padding `k // 2` (NOT what the code uses):
    grows the map by one for even `k` -/
def explicitHalfPadOut (n k : Nat) : Nat := n + 2 * (k / 2) + 1 - k

/-! ## results -/

inductive Err
  | value (n : Nat)      -- `ValueError: n is not in list`
  | runtime              -- torch `RuntimeError` (channel / size mismatch, empty pool output)
  | index                -- `IndexError` (decoder asks for a skip feature that does not exist)
  | unbound              -- `UnboundLocalError` (`block` in the extra-block loop with `up_blocks = 0`)
  | negPow               -- numpy `ValueError: Integers to negative integer powers are not allowed`
deriving DecidableEq, Repr

inductive Res (α : Type)
  | ok (a : α)
  | err (e : Err)
deriving DecidableEq, Repr

def Res.bind {α β} (x : Res α) (f : α → Res β) : Res β :=
  match x with
  | .ok a => f a
  | .err e => .err e

/-! ## operations of an encoder -/

inductive Op
  | pool                            -- `MaxPool2dWithSamePadding(2, 2, "same")`
  | conv (cin cout : Nat)           -- `Conv2d(cin, cout, k, stride=1, padding="same")`
  | sconv (cin cout k s p : Nat)    -- strided `Conv2d` (ConvNeXt / Swin stem and down-sampling)
  | merge                           -- Swin `PatchMerging` (pad to even, halve, channels × 2)
  | tap                             -- the output here is kept as a skip feature
deriving DecidableEq, Repr

/-- One decoder block (`SimpleUpsamplingBlock`) as configured by `Decoder.__init__`. -/
structure DecBlock where
  label : Nat      -- entry of `current_strides`
  convIn : Nat     -- `in_channels` of the first refine convolution
  tIn : Nat        -- channels of the `ConvTranspose2d` (used when `up_interpolate = False`)
  out : Nat        -- `refine_convs_filters`
  skip : Bool      -- `i < residuals`: concatenates the i-th skip feature
deriving DecidableEq, Repr

/-! ### MaxPool2dWithSamePadding: one bit of state

`fresh = true`: `self.padding == "same"` (first call): pad `i % 2`, output `⌈i/2⌉`.
`fresh = false`: `self.padding == 0`: output `⌊i/2⌋`, and torch raises when that is `0`. -/
def poolOut (fresh : Bool) (n : Nat) : Option Nat :=
  if fresh then some ((n + 1) / 2) else if n / 2 = 0 then none else some (n / 2)

/-- spatial effect of one op on one axis -/
def Op.spat (fresh : Bool) (n : Nat) : Op → Option Nat
  | .pool => poolOut fresh n
  | .conv _ _ => some n
  | .sconv _ _ k s p => if n + 2 * p < k ∨ s = 0 then none else some ((n + 2 * p - k) / s + 1)
  | .merge => some ((n + 1) / 2)
  | .tap => some n

/-- channel effect of one op -/
def Op.chan (c : Nat) : Op → Option Nat
  | .pool => some c
  | .conv cin cout => if c = cin then some cout else none
  | .sconv cin cout _ _ _ => if c = cin then some cout else none
  | .merge => some (2 * c)
  | .tap => some c

/-- Run the encoder on one quantity (`step` = channel or spatial effect); returns the final value
    and the tapped values, **deepest first** (the code reverses the feature list). -/
def encRun (step : Nat → Op → Option Nat) : List Op → Nat → List Nat → Option (Nat × List Nat)
  | [], x, taps => some (x, taps)
  | op :: ops, x, taps =>
    match step x op with
    | none => none
    | some y => encRun step ops y (if op = Op.tap then y :: taps else taps)

/-- Decoder, channel pass.  Returns the channels of every decoder output. -/
def decChan (upInterp : Bool) : List DecBlock → Nat → List Nat → Res (List Nat)
  | [], _, _ => .ok []
  | b :: bs, c, feats =>
    if !upInterp && c != b.tIn then .err .runtime
    else
      let step (c' : Nat) (feats' : List Nat) : Res (List Nat) :=
        if c' != b.convIn then .err .runtime
        else (decChan upInterp bs b.out feats').bind (fun l => .ok (b.out :: l))
      if b.skip then
        match feats with
        | [] => .err .index
        | f :: fs => step (c + f) fs
      else step c feats

/-- Decoder, spatial pass (one axis): every block doubles the size; a skip feature must have
    exactly the doubled size (`torch.concat`). -/
def decSpat : List DecBlock → Nat → List Nat → Res (List Nat)
  | [], _, _ => .ok []
  | b :: bs, n, feats =>
    if b.skip then
      match feats with
      | [] => .err .index
      | f :: fs =>
        if f != 2 * n then .err .runtime
        else (decSpat bs (2 * n) fs).bind (fun l => .ok (2 * n :: l))
    else (decSpat bs (2 * n) feats).bind (fun l => .ok (2 * n :: l))

/-! ## configurations -/

inductive Family | unet | convnext | swint
deriving DecidableEq, Repr

structure Head where
  os : Nat     -- head output stride
  ch : Nat     -- channels: parts | 1 | 2·edges
deriving DecidableEq, Repr

/-- A head as configured: the channel count is a function of the configured **list** (its
    length — duplicates, reversed duplicates of an edge and repeated part names all count; the
    heads do no de-duplication, exactly like the data pipeline's `generate_pafs`, which makes one
    field per listed edge). -/
inductive HeadKind
  | confmaps (parts : List Nat)          -- single-instance / centered-instance / multi-instance: `len(part_names)`
  | centroid                             -- 1
  | pafs (edges : List (Nat × Nat))      -- `int(len(edges) * 2)`
  | classMaps (classes : List Nat)       -- `len(classes)`
deriving DecidableEq, Repr

def HeadKind.channels : HeadKind → Nat
  | .confmaps p => p.length
  | .centroid => 1
  | .pafs e => 2 * e.length
  | .classMaps c => c.length

/-- the head record `Model` works with -/
def HeadKind.toHead (k : HeadKind) (os : Nat) : Head := { os := os, ch := k.channels }

structure Cfg where
  fam : Family
  variant : Nat     -- convnext: 0 tiny 1 small 2 base 3 large; swint: 0 tiny 1 small 2 base
  filters : Nat     -- unet only
  rate : Rate
  maxStride : Nat   -- unet: `max_stride`; ignored by the convnext/swint wrappers
  bos : Nat         -- backbone `output_stride`
  stem : Nat        -- unet: `stem_stride` (0 = None); convnext/swint: `stem_patch_stride`
  cpb : Nat         -- `convs_per_block`
  middle : Bool
  upInterp : Bool
  inCh : Nat
  heads : List Head
  /-- tree carries `fixes/C14-middle-block.patch` (decoder input sized for `middle_block=False`) -/
  fixMid : Bool := false
  /-- tree carries `fixes/C14-wrapper-output-stride.patch` (wrapper decoders stop at `output_stride`) -/
  fixWrap : Bool := false
  /-- ConvNeXt `stem_patch_kernel` / Swin `patch_size` (square); the stem conv has `padding = 1` hard-coded -/
  stemKernel : Nat := 4
deriving DecidableEq, Repr

/-- `UNet.from_config`: `(stem_blocks, down_blocks, up_blocks)`. -/
def unetBlocks (stemStride maxStride bos : Nat) : Int × Int × Int :=
  let stem : Int := if stemStride = 0 then 0 else log2Trunc stemStride 1
  let down : Int := log2Trunc maxStride 1 - stem
  let up : Int := log2Trunc maxStride bos
  (stem, down, up)

/-- `n` convolutions `cin → f → f …` of one `SimpleConvBlock`. -/
def convs (cin f : Nat) : Nat → List Op
  | 0 => []
  | n + 1 => Op.conv cin f :: List.replicate n (Op.conv f f)

/-- stem and down blocks of `Encoder.__init__`, block index `idx` counted over both loops -/
def unetEncBlocks (inCh f : Nat) (r : Rate) (cpb stem : Nat) : Nat → Nat → List Op
  | _, 0 => []
  | idx, n + 1 =>
    (if idx = 0 then [] else [Op.pool])
      ++ convs (if idx = 0 then inCh else scale f r (idx - 1 : Nat)) (scale f r idx)
           (if idx < stem then cpb else cpb - 1)
      ++ [Op.tap] ++ unetEncBlocks inCh f r cpb stem (idx + 1) n

/-- `nb` = number of stem + down blocks actually built (`range(down_blocks)` is empty for a negative
    `down_blocks`); `De` = the exponent `down_blocks + stem_blocks` as Python computes it (a negative
    `down_blocks` is NOT clamped there: `stem_stride > max_stride`). -/
def unetEnc (inCh f : Nat) (r : Rate) (cpb stem nb : Nat) (De : Int) (middle : Bool) : List Op :=
  unetEncBlocks inCh f r cpb stem 0 nb ++ [Op.pool] ++
    (if middle then
      (if cpb > 1 then convs (scale f r ((nb : Int) - 1)) (scale f r De) (cpb - 1) else [])
        ++ [Op.conv (scale f r De) (scale f r De)]
     else [])

/-- the `for block in range(up_blocks)` loop of `Decoder.__init__` -/
def decUp (f : Nat) (r : Rate) (D : Int) (xIn : Nat) : Nat → Nat → Nat → List DecBlock
  | _, _, 0 => []
  | block, cur, n + 1 =>
    let fin := scale f r (D - 1 - block)
    let prev := if block = 0 then xIn else scale f r (D - block)
    { label := cur, convIn := prev + fin, tIn := prev, out := fin, skip := true }
      :: decUp f r D xIn (block + 1) (cur / 2) n

/-- the `while current_stride >= output_stride` loop (`fuel` bounds the halvings) -/
def decExtra (f : Nat) (r : Rate) (D : Int) (bos : Nat) : Nat → Nat → Nat → List DecBlock
  | 0, _, _ => []
  | fuel + 1, block, cur =>
    if cur ≥ bos ∧ cur > 0 then
      let fin := scale f r (D - 1 - block)
      { label := cur, convIn := fin, tIn := fin, out := fin * r.q / r.p, skip := false }
        :: decExtra f r D bos fuel (block + 1) (cur / 2)
    else []

/-- `npInt`: the block counts are numpy integers and `filters_rate` is a Python int (UNet with an
    integer rate): `filters_rate ** (negative numpy int)` raises instead of giving a fraction.  A
    negative exponent only occurs in the extra blocks when `stem_stride > max_stride`. -/
def decBuild (npInt : Bool) (f : Nat) (r : Rate) (D : Int) (up xIn cur bos : Nat) : Res (List DecBlock) :=
  let ups := decUp f r D xIn 0 cur up
  let cur' := cur / 2 ^ up
  if up = 0 ∧ cur' ≥ bos ∧ cur' > 0 then .err .unbound
  else
    let extra := decExtra f r D bos (cur' + 1) (up - 1) cur'
    if npInt ∧ extra ≠ [] ∧ D - up - extra.length + 1 < 0 then .err .negPow
    else .ok (ups ++ extra)

def convnextChannels : Nat → List Nat
  | 2 => [128, 256, 512, 1024]
  | 3 => [192, 384, 768, 1536]
  | _ => [96, 192, 384, 768]

def swintEmbed : Nat → Nat
  | 2 => 128
  | _ => 96

structure Built where
  enc : List Op
  xIn : Nat            -- `backbone.max_channels`
  dec : List DecBlock
deriving DecidableEq, Repr

/-- up blocks of the ConvNeXt / Swin wrappers: always 3 on the pinned tree; with
    `fixes/C14-wrapper-output-stride.patch` the decoder stops at `output_stride`. -/
def wrapUp (fixWrap : Bool) (sps bos : Nat) : Nat :=
  if !fixWrap || bos ≤ sps then 3 else if bos ≤ 2 * sps then 2 else 1

def build (c : Cfg) : Res Built :=
  match c.fam with
  | .unet =>
    let (stemI, downI, upI) := unetBlocks c.stem c.maxStride c.bos
    let stem := stemI.toNat; let up := upI.toNat
    -- blocks actually built: `range(down_blocks)` is empty when `down_blocks < 0` (stem_stride > max_stride) …
    let nb := stem + downI.toNat
    -- … but the filter exponents use `down_blocks + stem_blocks` unclamped
    let De : Int := stemI + downI
    let xIn := scale c.filters c.rate De
    -- decoder input channels (`x_in_shape`): with the middle-block fix and no middle block the
    -- encoder output keeps the last down block's filters
    let xDec := if c.fixMid && !c.middle then scale c.filters c.rate (De - 1) else xIn
    -- `current_stride` = product of the pooling strides of the pooled conv blocks
    let cur := 2 ^ (nb - 1)
    (decBuild (c.rate.q == 1) c.filters c.rate De up xDec cur c.bos).bind fun dec =>
      .ok { enc := unetEnc c.inCh c.filters c.rate c.cpb stem nb De c.middle, xIn := xIn, dec := dec }
  | .convnext =>
    let ch := convnextChannels c.variant
    let c0 := ch.getD 0 0; let c1 := ch.getD 1 0; let c2 := ch.getD 2 0; let c3 := ch.getD 3 0
    let enc := [Op.sconv c.inCh c0 c.stemKernel c.stem 1, .tap, .sconv c0 c1 2 2 0, .tap, .sconv c1 c2 2 2 0, .tap,
                .sconv c2 c3 2 2 0]
    (decBuild false c0 c.rate 3 (wrapUp c.fixWrap c.stem c.bos) c3 (c.stem * 4) c.bos).bind fun dec =>
      .ok { enc := enc, xIn := c3, dec := dec }
  | .swint =>
    let e := swintEmbed c.variant
    let enc := [Op.sconv c.inCh e c.stemKernel c.stem 1, .tap, .merge, .tap, .merge, .tap, .merge]
    (decBuild false e c.rate 3 (wrapUp c.fixWrap c.stem c.bos) (e * 8) (c.stem * 4) c.bos).bind fun dec =>
      .ok { enc := enc, xIn := e * 8, dec := dec }

def labels (dec : List DecBlock) : List Nat := dec.map (·.label)

def minList : List Nat → Nat → Nat
  | [], m => m
  | x :: xs, m => minList xs (min x m)

def findIdx (l : List Nat) (a : Nat) : Res Nat :=
  if a ∈ l then .ok (l.idxOf a) else .err (.value a)

/-- minimum of the head strides and the backbone `output_stride` (`Model.__init__`) -/
def Cfg.minOs (c : Cfg) : Nat := minList (c.heads.map (·.os)) c.bos

/-- `Model.__init__` (HEAD of /repo, commit c60aeeb), one head: the `in_channels` of its 1×1 convolution are read
    from the decoder block the head will be applied to —
    `decoder_stack[strides.index(head.output_stride)].refine_convs_filters` (`ValueError` when the stride is
    not a decoder stride).  The head's own `output_stride` is used, never the position of its entry
    in the `head_configs` mapping. -/
def headInFor (b : Built) (os : Nat) : Res Nat :=
  (findIdx (labels b.dec) os).bind fun j => .ok ((b.dec.map (·.out)).getD j 0)

/-- `Model.__init__`: the `in_channels` of every head layer. -/
def initHeads (b : Built) : List Head → Res (List Nat)
  | [] => .ok []
  | h :: hs =>
    (headInFor b h.os).bind fun x => (initHeads b hs).bind fun xs => .ok (x :: xs)

structure Constructed where
  built : Built
  headIn : List Nat
deriving DecidableEq, Repr

def construct (c : Cfg) : Res Constructed :=
  (build c).bind fun b => (initHeads b c.heads).bind fun hi => .ok { built := b, headIn := hi }

/-! ### the tree before c60aeeb (regression record of F-C14-head-in-channels)

`in_channels` re-derived arithmetically: `int(round(max_channels / r**len(decoder_stack)))`, then `* r**factor`
with `factor` from `strides.index` look-ups relative to the minimum output stride. -/

def headInForAsIs (r : Rate) (xIn n : Nat) (strides : List Nat) (minOs os : Nat) : Res Nat :=
  if os ≠ minOs then
    (findIdx strides minOs).bind fun i => (findIdx strides os).bind fun j =>
      .ok (headIn r xIn n (some (i - j)))
  else .ok (headIn r xIn n none)

def initHeadsAsIs (c : Cfg) (b : Built) : List Head → Res (List Nat)
  | [] => .ok []
  | h :: hs =>
    (headInForAsIs c.rate b.xIn b.dec.length (labels b.dec) c.minOs h.os).bind fun x =>
      (initHeadsAsIs c b hs).bind fun xs => .ok (x :: xs)

def constructAsIs (c : Cfg) : Res Constructed :=
  (build c).bind fun b => (initHeadsAsIs c b c.heads).bind fun hi => .ok { built := b, headIn := hi }

/-- `get_head` reads the head entries of the `head_configs` mapping BY NAME, in a fixed order (`confmaps`,
    then `pafs` for bottom-up models): the order of the mapping's keys is irrelevant
    (`Props/C14.head_contract_order_independent`). -/
def getHeads (bottomup : Bool) (mapping : List (String × Head)) : List Head :=
  (if bottomup then ["confmaps", "pafs"] else ["confmaps"]).filterMap fun n => mapping.lookup n

/-- declared `(in_channels, out_channels)` of every stride-1 convolution of an encoder, in order -/
def encConvs : List Op → List (Nat × Nat)
  | [] => []
  | .conv a b :: ops => (a, b) :: encConvs ops
  | _ :: ops => encConvs ops

/-! ## forward -/

def optRes {α} : Option α → Res α
  | some a => .ok a
  | none => .err .runtime

/-- channels of every decoder output -/
def chanStages (c : Cfg) (b : Built) : Res (List Nat) :=
  (optRes (encRun (fun x op => op.chan x) b.enc c.inCh [])).bind fun (x, feats) =>
    decChan c.upInterp b.dec x feats

/-- sizes (one axis) of every decoder output -/
def spatStages (b : Built) (fresh : Bool) (n : Nat) : Res (List Nat) :=
  (optRes (encRun (fun x op => op.spat fresh x) b.enc n [])).bind fun (x, feats) =>
    decSpat b.dec x feats

/-- `Model.forward`, one head: look the head's stride up, apply the 1×1 head convolution. -/
def headOutFor (strides chans hs ws : List Nat) (h : Head) (hin : Nat) : Res (Nat × Nat × Nat) :=
  (findIdx strides h.os).bind fun i =>
    if chans.getD i 0 != hin then .err .runtime else .ok (h.ch, hs.getD i 0, ws.getD i 0)

/-- `Model.forward` head loop (`zip(self.heads, self.head_layers)`). -/
def headOuts (strides chans hs ws : List Nat) : List Head → List Nat → Res (List (Nat × Nat × Nat))
  | h :: hds, hin :: hins =>
    (headOutFor strides chans hs ws h hin).bind fun o =>
      (headOuts strides chans hs ws hds hins).bind fun l => .ok (o :: l)
  | _, _ => .ok []

structure Forward where
  stages : List (Nat × Nat × Nat × Nat)   -- (label, channels, height, width) per decoder output
  outs : List (Nat × Nat × Nat)           -- (channels, height, width) per head
deriving DecidableEq, Repr

def forward (c : Cfg) (k : Constructed) (fresh : Bool) (h w : Nat) : Res Forward :=
  (chanStages c k.built).bind fun chans =>
  (spatStages k.built fresh h).bind fun hs =>
  (spatStages k.built fresh w).bind fun ws =>
  (headOuts (labels k.built.dec) chans hs ws c.heads k.headIn).bind fun outs =>
    .ok { stages := List.zip (labels k.built.dec) (List.zip chans (List.zip hs ws)), outs := outs }

/-- A call history on one module: the first call sees fresh pools, later calls stale ones.
    Returns the result of the last call. -/
def callSeq (c : Cfg) (k : Constructed) : List (Nat × Nat) → Bool → Option (Res Forward)
  | [], _ => none
  | [(h, w)], fresh => some (forward c k fresh h w)
  | _ :: rest, _ => callSeq c k rest false

/-- real maximum stride of the backbone (what input sides must be multiples of) -/
def Cfg.realMaxStride (c : Cfg) : Nat :=
  match c.fam with
  | .unet => c.maxStride
  | _ => c.stem * 8

end SleapVerif.Arch
