import SleapVerif.Model.Oks
/-!
# Model of `sleap_nn/evaluation.py::Evaluator` (core Lean only)

`find_frame_pairs` + `match_frame_pairs` (`processFrames`), `voc_metrics` (`vocMetrics`), `mOKS`,
`compute_dists`/`distance_metrics` (`dist`, `avgDist`), `pck_metrics` (`pcks`, `mPCKparts`, `mPCK`),
`visibility_metrics` (`visCounts`, `visPrecision`, `visRecall`).

Generic over the carrier `R`; naturals enter through an explicit `cast : Nat → R`, `sqrt` is a
parameter.  The driver runs the VOC part at `Rat` (exact counts, exact comparisons; every
`rc < recall_threshold` comparison is reported with its margin because `searchsorted` against
`np.linspace` is a float knife-edge) and the distance part at `Float`.
-/
namespace SleapVerif.Eval
open SleapVerif.Oks

variable {R : Type}

/-! ## frame pairing and matching -/

/-- one ground-truth frame with `≥ 1` user instance; `prs = none` means `labels_pr.find` returned no
`LabeledFrame` for it: the pair is **skipped** — its gt instances are counted neither as matched nor
as missed (F-C16b). -/
structure Frame (G P : Type) where
  gts : List G
  prs : Option (List P)

section matching
variable [LT R] [DecidableLT R] {G P : Type}

/-- `match_frame_pairs ∘ find_frame_pairs`: concatenated positive pairs and false negatives -/
def processFrames (oks : G → P → Option R) (score : P → R) (thr : R) :
    List (Frame G P) → List (G × P × R) × List G
  | [] => ([], [])
  | f :: fs =>
    let rest := processFrames oks score thr fs
    match f.prs with
    | none => rest
    | some prs =>
      let r := matchInstances oks score thr f.gts prs
      (r.1 ++ rest.1, r.2 ++ rest.2)

end matching

/-! ## VOC metrics -/

/-- cumulative `(tp, fp)` counts: `np.cumsum(match_scores >= t)`, `np.cumsum(match_scores < t)` -/
def cums : Nat → Nat → List Bool → List (Nat × Nat)
  | _, _, [] => []
  | tp, fp, true :: t => (tp + 1, fp) :: cums (tp + 1) fp t
  | tp, fp, false :: t => (tp, fp + 1) :: cums tp (fp + 1) t

section voc
variable [Add R] [Sub R] [Mul R] [Div R] [LT R] [DecidableLT R] [OfNat R 0]

/-- `match_scores >= t` (scores are never NaN for matched pairs) -/
def flags (t : R) (ms : List R) : List Bool := ms.map (fun m => !decide (m < t))

/-- "Ensure strictly decreasing precisions": `for i in range(n-1, 0, -1): if pr[i] > pr[i-1]:
pr[i-1] = pr[i]` — the running maximum from the right -/
def env : List R → List R
  | [] => []
  | a :: t => (match env t with
      | [] => a
      | e :: _ => maxR a e) :: env t

/-- `np.searchsorted(rc, r, side="left")` on the (non-decreasing) recall list -/
def searchLeft (rc : List R) (r : R) : Nat := (rc.takeWhile (fun x => decide (x < r))).length

def rcList (cast : Nat → R) (npig : Nat) (c : List (Nat × Nat)) : List R :=
  c.map (fun x => cast x.1 / cast npig)

def prList (cast : Nat → R) (eps : R) (c : List (Nat × Nat)) : List R :=
  c.map (fun x => cast x.1 / (cast x.2 + cast x.1 + eps))

/-- precision at one recall threshold: `pr[rc_inds]` where valid, else 0 -/
def precisionAt (rc e : List R) (r : R) : R := e.getD (searchLeft rc r) 0

structure VocRow (R : Type) where
  precision : List R
  recall : R

/-- the body of the loop over `match_score_thresholds` -/
def vocRow (cast : Nat → R) (eps : R) (npig : Nat) (recThr : List R) (ms : List R) (t : R) : VocRow R :=
  let c := cums 0 0 (flags t ms)
  let rc := rcList cast npig c
  let e := env (prList cast eps c)
  { precision := recThr.map (precisionAt rc e), recall := rc.getLast?.getD 0 }

def mean (cast : Nat → R) (l : List R) : R := sumR l / cast l.length

structure Voc (R : Type) where
  matchScores : List R
  precisions : List (List R)
  recalls : List R
  AP : List R
  mAP : R
  mAR : R

/-- `Evaluator.voc_metrics(match_score_by="oks")`.  `pairs` = `(oks, detection score)` of the positive
pairs in their order; `none` = the all-zero dictionary returned when there is no positive pair. -/
def vocMetrics (cast : Nat → R) (eps : R) (pairs : List (R × R)) (nFn : Nat)
    (matchThr recThr : List R) : Option (Voc R) :=
  match pairs with
  | [] => none
  | _ :: _ =>
    let ms := (sortDesc (fun x => x.2) pairs).map (·.1)
    let npig := pairs.length + nFn
    let rows := matchThr.map (vocRow cast eps npig recThr ms)
    let precisions := rows.map (·.precision)
    let recalls := rows.map (·.recall)
    some { matchScores := ms, precisions := precisions, recalls := recalls,
           AP := precisions.map (mean cast), mAP := mean cast precisions.flatten,
           mAR := mean cast recalls }

/-- `mOKS` (`none` = NaN, the mean of an empty array) -/
def mOKS (cast : Nat → R) (pairs : List (R × R)) : Option R :=
  match pairs with
  | [] => none
  | _ => some (mean cast (pairs.map (·.1)))

/-- recall at one match threshold written directly: true positives over all gt instances -/
def recallAt (cast : Nat → R) (t : R) (ms : List R) (npig : Nat) : R :=
  cast ((flags t ms).filter id).length / cast npig

end voc

/-! ## distances, PCK, visibility -/

section dist
variable [Add R] [Sub R] [Mul R] [Div R] [LT R] [DecidableLT R] [OfNat R 0] [OfNat R 1]

/-- `np.linalg.norm(points_pr - points_gt, axis=-1)` for one node (`none` = NaN) -/
def dist (sqrt : R → R) (g p : Pt R) : Option R :=
  match g, p with
  | (some gx, some gy), (some px, some py) =>
    some (sqrt ((px - gx) * (px - gx) + (py - gy) * (py - gy)))
  | _, _ => none

def distRow (sqrt : R → R) (g p : List (Pt R)) : List (Option R) := List.zipWith (dist sqrt) g p

/-- `np.nanmean(dists)` -/
def avgDist (cast : Nat → R) (d : List (List (Option R))) : Option R :=
  match d.flatten.filterMap id with
  | [] => none
  | l => some (mean cast l)

/-- `dists[isnan] = inf; dists < thr` -/
def within (thr : R) (d : Option R) : Bool :=
  match d with
  | none => false
  | some x => decide (x < thr)

def ind (b : Bool) : R := if b then 1 else 0

/-- PCK at one pixel threshold over all matched keypoints -/
def pckAt (cast : Nat → R) (thr : R) (d : List (Option R)) : R :=
  cast (d.filter (within thr)).length / cast d.length

/-- `pcks.mean(axis=0).mean(axis=-1)`: entry `k` = mean over thresholds of the mean over pairs.
Without any positive pair `dists` has shape `(0,)` and the result is the empty array. -/
def mPCKparts (cast : Nat → R) (thrs : List R) (d : List (List (Option R))) (nNodes : Nat) : List R :=
  match d with
  | [] => []
  | _ :: _ =>
    (List.range nNodes).map (fun k =>
      mean cast (thrs.map (fun t => mean cast (d.map (fun row => ind (within t (row.getD k none)))))))

/-- `mPCK_parts.mean()`; `none` = NaN (no positive pair: the mean of an empty array) -/
def mPCK (cast : Nat → R) (thrs : List R) (d : List (List (Option R))) (nNodes : Nat) : Option R :=
  match mPCKparts cast thrs d nNodes with
  | [] => none
  | l => some (mean cast l)

end dist

/-- `(tp, fp, tn, fn)` of `visibility_metrics` over the matched pairs -/
def visCounts : List (List (Pt R) × List (Pt R)) → Nat × Nat × Nat × Nat
  | [] => (0, 0, 0, 0)
  | (g, p) :: rest =>
    let (tp, fp, tn, fn) := visCounts rest
    let z := List.zipWith (fun a b => (isVis a, isVis b)) g p
    (tp + (z.filter (fun x => x.1 && x.2)).length,
     fp + (z.filter (fun x => !x.1 && x.2)).length,
     tn + (z.filter (fun x => !x.1 && !x.2)).length,
     fn + (z.filter (fun x => x.1 && !x.2)).length)

/-- `a / (a + b) if (a + b) else nan` -/
def ratio [Div R] (cast : Nat → R) (a b : Nat) : Option R :=
  if a + b = 0 then none else some (cast a / cast (a + b))

/-! ## `find_frame_pairs` -/

/-- what `find_frame_pairs` looks at in a `sio.Video`: the backend class, the filename and — for
HDF5-backed videos only — the dataset inside the file (`none` = the backend has no `dataset`
attribute: `MediaVideo`, `ImageVideo`, an unopened backend).  Videos embedded in one `.pkg.slp`
share `kind` and `filename` and differ only by `dataset`. -/
structure VideoKey where
  kind : Nat
  filename : Nat
  dataset : Option Nat
deriving DecidableEq, Repr

/-- a `LabeledFrame`: `video` is the position of its `Video` object in `labels.videos` (object
identity), `insts` its user instances (gt side) / predicted instances (prediction side) -/
structure LFrame (I : Type) where
  video : Nat
  frameIdx : Nat
  insts : List I

structure Labels (I : Type) where
  videos : List VideoKey
  frames : List (LFrame I)

/-- the video-matching condition: `isinstance(video.backend, type(video_gt.backend)) and
video.filename == video_gt.filename and video.backend.dataset == video_gt.backend.dataset` -/
def sameVideo (vgt v : VideoKey) : Bool :=
  v.kind == vgt.kind && v.filename == vgt.filename && v.dataset == vgt.dataset

/-- index of the first element satisfying `p` (`for video in labels_pr.videos: if …: break`) -/
def firstIdx {α : Type} (p : α → Bool) : List α → Option Nat
  | [] => none
  | a :: t => if p a then some 0 else (firstIdx p t).map (· + 1)

/-- pairs of one gt video `vi` matched to prediction video `pj`: every gt frame of that video with
≥ 1 user instance, paired with the prediction frame of `pj` carrying the same `frame_idx`, if any -/
def pairsOfVideo {G P : Type} (gt : Labels G) (pr : Labels P) (vi pj : Nat) : List (LFrame G × LFrame P) :=
  (gt.frames.filter (fun lf => lf.video == vi && !lf.insts.isEmpty)).flatMap (fun lf =>
    match pr.frames.find? (fun x => x.video == pj && x.frameIdx == lf.frameIdx) with
    | some x => [(lf, x)]
    | none => [])

def pairsFrom {G P : Type} (gt : Labels G) (pr : Labels P) : Nat → List VideoKey → List (LFrame G × LFrame P)
  | _, [] => []
  | vi, vk :: rest =>
    (match firstIdx (sameVideo vk) pr.videos with
      | none => []
      | some pj => pairsOfVideo gt pr vi pj) ++ pairsFrom gt pr (vi + 1) rest

/-- `find_frame_pairs(labels_gt, labels_pr, user_labels_only=True)` (HEAD: a backend without `dataset`
compares as `None`) -/
def findFramePairs {G P : Type} (gt : Labels G) (pr : Labels P) : List (LFrame G × LFrame P) :=
  pairsFrom gt pr 0 gt.videos

/-- **Historical (regression record only, not HEAD; F-C16c fixed by 5b8ee29).**  The tree before the fix: `video.backend.dataset` raised `AttributeError` as soon as a prediction video
with the same backend class and filename as some gt video has no `dataset` attribute (`none` = raise) -/
def findFramePairsBeforeFix {G P : Type} (gt : Labels G) (pr : Labels P) : Option (List (LFrame G × LFrame P)) :=
  if gt.videos.any (fun vk => pr.videos.any (fun v =>
      v.kind == vk.kind && v.filename == vk.filename && (v.dataset.isNone || vk.dataset.isNone)))
  then none else some (findFramePairs gt pr)

/-- the frames handed to `match_frame_pairs` -/
def evalFrames {G P : Type} (gt : Labels G) (pr : Labels P) : List (Frame G P) :=
  (findFramePairs gt pr).map (fun ab => { gts := ab.1.insts, prs := some ab.2.insts })

/-! ### `user_labels_only`: which instances and which frames the Evaluator enumerates -/

/-- the instances of a gt frame that take part: `lf.user_instances` with `user_labels_only=True`
(the default), **all** instances of the frame — predicted ones stored in the reference labels
included — with `user_labels_only=False` -/
def enumerated {I : Type} (userOnly : Bool) (isUser : I → Bool) (l : List I) : List I :=
  if userOnly then l.filter isUser else l

/-- `user_labels_only=False`: every labeled frame of the gt video is a candidate, also one without
any instance -/
def pairsOfVideoAll {G P : Type} (gt : Labels G) (pr : Labels P) (vi pj : Nat) : List (LFrame G × LFrame P) :=
  (gt.frames.filter (fun lf => lf.video == vi)).flatMap (fun lf =>
    match pr.frames.find? (fun x => x.video == pj && x.frameIdx == lf.frameIdx) with
    | some x => [(lf, x)]
    | none => [])

def pairsFromAll {G P : Type} (gt : Labels G) (pr : Labels P) : Nat → List VideoKey → List (LFrame G × LFrame P)
  | _, [] => []
  | vi, vk :: rest =>
    (match firstIdx (sameVideo vk) pr.videos with
      | none => []
      | some pj => pairsOfVideoAll gt pr vi pj) ++ pairsFromAll gt pr (vi + 1) rest

def findFramePairsAll {G P : Type} (gt : Labels G) (pr : Labels P) : List (LFrame G × LFrame P) :=
  pairsFromAll gt pr 0 gt.videos

/-- `find_frame_pairs(labels_gt, labels_pr, user_labels_only)`: `gt.frames[·].insts` lists **all**
instances of the frame in order, `isUser` tells user instances from predicted ones.  The returned
gt frames carry the enumerated instances (the code overwrites `lf.instances` in the default mode). -/
def evaluatorPairs {G P : Type} (userOnly : Bool) (isUser : G → Bool) (gt : Labels G) (pr : Labels P) :
    List (LFrame G × LFrame P) :=
  let view : Labels G :=
    { videos := gt.videos,
      frames := gt.frames.map (fun f => { video := f.video, frameIdx := f.frameIdx,
                                          insts := enumerated userOnly isUser f.insts }) }
  if userOnly then findFramePairs view pr else findFramePairsAll view pr

/-- the frames handed to `match_frame_pairs`, either mode -/
def evaluatorFrames {G P : Type} (userOnly : Bool) (isUser : G → Bool) (gt : Labels G) (pr : Labels P) :
    List (Frame G P) :=
  (evaluatorPairs userOnly isUser gt pr).map (fun ab => { gts := ab.1.insts, prs := some ab.2.insts })

/-! ## percentiles of the distance summary -/

section pct
variable [Add R] [Sub R] [Mul R] [Div R] [LT R] [DecidableLT R] [OfNat R 0]

/-- ascending sort (`np.percentile` partitions; only the order statistics matter) -/
def sortAsc (l : List R) : List R := (sortDesc (fun x => x) l).reverse

/-- `np.percentile(x, p)` (default linear interpolation) for an integer `p ≤ 100`: virtual index
`h = (n-1)·p/100`, value `x_(⌊h⌋) + frac(h)·(x_(⌊h⌋+1) − x_(⌊h⌋))`; `none` for an empty sample
(the code then leaves NaN) -/
def percentile (cast : Nat → R) (p : Nat) (l : List R) : Option R :=
  match sortAsc l with
  | [] => none
  | s0 :: st =>
    let s := s0 :: st
    let n := s.length
    let k := (n - 1) * p / 100
    let r := (n - 1) * p % 100
    let a := s.getD k s0
    let b := s.getD (min (k + 1) (n - 1)) s0
    some (a + cast r / cast 100 * (b - a))

end pct

end SleapVerif.Eval
