import SleapVerif.Model.Scalar
import SleapVerif.Model.Grid
import SleapVerif.Model.Confmaps
/-!
# Part-affinity-field targets (`sleap_nn/data/edge_maps.py`), core Lean only

Mirrors the code literally, quirks included:

* `distance_to_edge`: `L2 = maximum(|d|², 1)` (so edges shorter than one pixel are projected with the
  wrong scale); `t = clamp((r·d)/L2, 0, 1)`; result `|t·d − r|²` — a **squared** distance.
* `make_edge_maps`/`gaussian_pdf`: `w = exp(−D²/(2σ²))` — the squared distance is squared again, and
  σ is *not* multiplied by the stride (unlike the confidence maps).
* `make_pafs`: `unit = d / ‖d‖`, `paf = w · unit`; a NaN endpoint or `d = 0` (`0/0`) makes the edge's
  field NaN (`none` here).
* `make_multi_pafs`: `paf[isnan(paf)] = 0`, `pafs += paf` per animal, from zeros.
* `generate_pafs` / `PartAffinityFieldsGenerator`: sample 0 only; an animal is kept iff some node
  lies strictly inside `(0, xv[-1]) × (0, yv[-1])`; channels `(n_edges, 2, h, w)`, flattened
  `2e ↦ x`, `2e+1 ↦ y`.
-/
namespace SleapVerif.Pafs
open SleapVerif.Scalar SleapVerif.Grid SleapVerif.Confmaps

variable {R : Type} [Add R] [Sub R] [Mul R] [Div R] [Neg R] [LT R] [DecidableLT R]
  [OfNat R 0] [OfNat R 1] [OfNat R 2]

def len2 (dx dy : R) : R := dx * dx + dy * dy

/-- `edge_length = maximum(|d|², 1.0)` -/
def edgeLen2 (dx dy : R) : R := maxR (len2 dx dy) 1

/-- clamped projection parameter of `r = p − s` on `d` -/
def proj (rx ry dx dy : R) : R := clamp ((rx * dx + ry * dy) / edgeLen2 dx dy) 0 1

/-- `distance_to_edge` for one point/edge (`r = p − s`): the squared norm of `t·d − r` -/
def distSq (rx ry dx dy : R) : R :=
  let t := proj rx ry dx dy
  (t * dx - rx) * (t * dx - rx) + (t * dy - ry) * (t * dy - ry)

/-- `distance_to_edge(point, source, destination)` -/
def distanceToEdge (px py sx sy tx ty : R) : R := distSq (px - sx) (py - sy) (tx - sx) (ty - sy)

/-- `gaussian_pdf(D, σ) = exp(−D²/(2σ²))` -/
def weight (exp : R → R) (sigma D : R) : R := exp (-(D * D) / ((2 : R) * (sigma * sigma)))

/-- `make_edge_maps` at one grid point for one edge -/
def edgeWeight (exp : R → R) (sigma sx sy tx ty gx gy : R) : R :=
  weight exp sigma (distanceToEdge gx gy sx sy tx ty)

/-- `make_pafs` at one grid point for one edge; `none` = the NaN the code produces for a missing
endpoint or a zero-length edge -/
def pafRaw (exp sqrt : R → R) (sigma : R) (src dst : Option (R × R)) (gx gy : R) : Option (R × R) :=
  match src, dst with
  | some (sx, sy), some (tx, ty) =>
    let dx := tx - sx
    let dy := ty - sy
    let n2 := len2 dx dy
    if 0 < n2 then
      let n := sqrt n2
      let w := edgeWeight exp sigma sx sy tx ty gx gy
      some (w * (dx / n), w * (dy / n))
    else none
  | _, _ => none

/-- after `paf[isnan(paf)] = 0` -/
def pafCell (exp sqrt : R → R) (sigma : R) (src dst : Option (R × R)) (gx gy : R) : R × R :=
  match pafRaw exp sqrt sigma src dst gx gy with
  | some v => v
  | none => (0, 0)

/-- an edge's endpoints in one animal -/
abbrev EdgePts (R : Type) := Option (R × R) × Option (R × R)

/-- `make_multi_pafs` at one grid point for edge data `es` (one `(src,dst)` per animal): the sum
`0 + paf₁ + paf₂ + …` of the NaN-cleaned fields -/
def multiCell (exp sqrt : R → R) (sigma : R) (es : List (EdgePts R)) (gx gy : R) : R × R :=
  (sumL (es.map fun e => (pafCell exp sqrt sigma e.1 e.2 gx gy).1),
   sumL (es.map fun e => (pafCell exp sqrt sigma e.1 e.2 gx gy).2))

/-- edge `e` of an animal's edge data (missing when out of range) -/
def edgeAt (a : List (EdgePts R)) (e : Nat) : EdgePts R :=
  match a[e]? with
  | some p => p
  | none => (none, none)

/-- `make_multi_pafs`, flattened channels: `perAnimal[a][e]` = endpoints of edge `e` in animal `a` -/
def makeMultiPafs (exp sqrt : R → R) (cast : Nat → R) (xv yv : List Nat) (sigma : R) (nEdges : Nat)
    (perAnimal : List (List (EdgePts R))) : List (List (List R)) :=
  (List.range nEdges).flatMap fun e =>
    let es := perAnimal.map (edgeAt · e)
    [tabulate cast xv yv (fun gx gy => (multiCell exp sqrt sigma es gx gy).1),
     tabulate cast xv yv (fun gx gy => (multiCell exp sqrt sigma es gx gy).2)]

/-- node strictly inside the open box `(0, xl) × (0, yl)` -/
def insideOpen (xl yl : R) (kp : Option (R × R)) : Bool :=
  match kp with
  | some (x, y) => decide (0 < x) && decide (x < xl) && decide (0 < y) && decide (y < yl)
  | none => false

/-- the in-image filter of `generate_pafs`: some node strictly inside `(0, xv[-1]) × (0, yv[-1])` -/
def kept (cast : Nat → R) (stride H W : Nat) (a : List (Option (R × R))) : Bool :=
  a.any (insideOpen (cast (gridLast W stride)) (cast (gridLast H stride)))

/-- `get_edge_points` -/
def edgePoints (edges : List (Nat × Nat)) (a : List (Option (R × R))) : List (EdgePts R) :=
  edges.map fun e => (nodeOf a e.1, nodeOf a e.2)

/-- `generate_pafs(..., flatten_channels=True)` for sample 0 -/
def pafs (exp sqrt : R → R) (cast : Nat → R) (sigma : R) (stride H W : Nat)
    (edges : List (Nat × Nat)) (animals : List (List (Option (R × R)))) : List (List (List R)) :=
  makeMultiPafs exp sqrt cast (gridVec W stride) (gridVec H stride) sigma edges.length
    ((animals.filter (kept cast stride H W)).map (edgePoints edges))

end SleapVerif.Pafs
