import SleapVerif.Model.Scalar
/-!
# The three data frameworks and the legacy DataPipe blocks (C18), core Lean only

Every framework is a function `(config, labelled frame, instance index) ↦ Sample`:

* the **coordinate part** (`instances`, `centroids`, `bbox`, `numInstances`, rank of the keypoint
  tensor, and — through `shape` — the image shape) is exact arithmetic over a carrier `R`;
* the **pixel part** is a symbolic term `Img R` over uninterpreted image primitives.  The harness
  owns an interpreter that evaluates such a term with the real primitives (torchvision `resize`,
  `F.pad`, kornia `crop_and_resize`, `ToPILImage`), so "these operations, in this order, with these
  parameters" is what gets compared with what each framework really produced.

Sources mirrored, statement by statement (order of operations is the whole content):

* `mem`/`np`: `BaseDataset._fill_cache`, `CenteredInstanceDataset._fill_cache`,
  `CentroidDataset._fill_cache` and the four `__getitem__`s of
  `sleap_nn/data/custom_datasets.py` (`np` = the `np_chunks=True` branch: `ToPILImage`, `savez`,
  `np.load`, `ToTensor`);
* `stream`: the `*_data_chunks` function of `get_data_chunks.py` followed by the matching
  `*StreamingDataset.__getitem__` of `streaming_datasets.py` (litdata's serialisation is the
  identity on what is stored).

Quirks kept as they are:

* `apply_resizer` does nothing at `scale == 1.0`; `instances * eff_scale` is always executed;
* `CenteredInstanceDataset` counts **all** instances of the frame in `num_instances`
  (empty ones included), `process_lf` counts the non-empty ones;
* the chunk functions size-match to `data_config.preprocessing.max_height/max_width` when set and
  to `max_hw` otherwise, per component; so do the torch datasets since `fix:` 3fdd300
  (`BaseDataset.__init__`).  Before it they only ever used `max_hw` (finding F-C18a): that tree is
  kept as `sampleOfAsWas` (`Tree.original`), the regression record;
* `SingleInstanceDataset` builds one-instance samples (`self.max_instances = 1`, `fix:` b2232cf),
  like `single_instance_data_chunks` (`process_lf(max_instances=1)`).  Before it the dataset padded
  `instances` to `get_max_instances(labels)` rows (finding F-C18b): kept as `sampleOfBeforeB2232cf`,
  the regression record;
* `centroid_data_chunks` takes centroids of the un-resized keypoints and resizes the centroids;
  its `instances` entry stays un-resized.  `CentroidDataset` resizes the keypoints first;
* `centered_instance_data_chunks` crops first and resizes the crop and the keypoints — not the
  centroid — afterwards; `CenteredInstanceStreamingDataset` re-crops to `int(crop_hw * scale)`;
  `CenteredInstanceDataset` resizes the frame first and crops with the un-scaled crop size;
* `generate_centroids` returns a view of its argument when `anchor_ind` is given and fills the
  missing anchors **in place** (finding F-C11).  `aliasing := true` models the tree with that defect,
  `aliasing := false` the repaired tree; the harness probes the real function and passes the flag.
-/
namespace SleapVerif.Pipelines
open SleapVerif.Scalar

/-- a keypoint; `none` = NaN (sleap-io marks a missing point by NaN in both coordinates) -/
abbrev Pt (R : Type) := Option (R × R)
/-- one animal: its nodes in skeleton order -/
abbrev Inst (R : Type) := List (Pt R)

inductive MT | single | centroid | centered | bottomup
  deriving DecidableEq, Repr

inductive FW | mem | np | stream
  deriving DecidableEq, Repr

/-- symbolic pixel term -/
inductive Img (R : Type) where
  /-- the frame as the video backend returns it (uint8, `(1, C, H, W)` after the transpose) -/
  | raw : Img R
  /-- `apply_normalization`: `to(float32) / 255` unless already floating -/
  | norm : Img R → Img R
  /-- `convert_to_grayscale` (no-op on one channel) -/
  | gray : Img R → Img R
  /-- `convert_to_rgb` (no-op on three channels) -/
  | rgb : Img R → Img R
  /-- `apply_sizematcher(max_height, max_width)`: aspect-preserving resize + bottom/right padding -/
  | sizematch : Nat → Nat → Img R → Img R
  /-- `resize_image(scale)`: `tvf.resize` to `(int(h·s), int(w·s))` -/
  | resize : R → Img R → Img R
  /-- `apply_pad_to_stride(max_stride)` -/
  | padStride : Nat → Img R → Img R
  /-- `crop_and_resize(boxes = make_centered_bboxes(centroid, h, w), size = (h, w))` -/
  | crop : Pt R → Nat → Nat → Img R → Img R
  /-- `ToPILImage` (×255, truncate to uint8) followed by `ToTensor` / `PILToTensor` + `/255` -/
  | quant8 : Img R → Img R
  deriving DecidableEq, Repr

namespace Img
variable {R : Type}

/-- forget the 8-bit round trips -/
def erase : Img R → Img R
  | raw => raw
  | norm i => norm (erase i)
  | gray i => gray (erase i)
  | rgb i => rgb (erase i)
  | sizematch a b i => sizematch a b (erase i)
  | resize s i => resize s (erase i)
  | padStride m i => padStride m (erase i)
  | crop c h w i => crop c h w (erase i)
  | quant8 i => erase i

/-- number of 8-bit round trips -/
def quants : Img R → Nat
  | raw => 0
  | norm i | gray i | rgb i | sizematch _ _ i | resize _ i | padStride _ i | crop _ _ _ i => quants i
  | quant8 i => quants i + 1

end Img

/-- the numeric environment: how naturals enter `R` and how Python's `int(round(x))` / `int(x)`
leave it (arguments are non-negative everywhere they are used) -/
structure Num (R : Type) where
  cast : Nat → R
  rnd : R → Nat
  /-- Python's `int(n * s)` for an `int` `n` and a `float` `s`: the product is taken in float64
  (rounded to the nearest double) and then truncated -/
  mulTrunc : Nat → R → Nat

/-- head configuration the targets are generated with -/
structure Heads (R : Type) where
  cmSigma : R
  cmStride : Nat
  pafSigma : R
  pafStride : Nat
  edges : List (Nat × Nat)

structure Cfg (R : Type) where
  mt : MT
  isRgb : Bool
  /-- `max_hw` handed to the dataset / chunk function by its caller -/
  maxH : Nat
  maxW : Nat
  /-- `data_config.preprocessing.max_height / max_width` -/
  cfgMaxH : Option Nat
  cfgMaxW : Option Nat
  scale : R
  maxStride : Nat
  cropH : Nat
  cropW : Nat
  anchor : Option Nat
  /-- `get_max_instances(labels)` of the labels the torch dataset is built from -/
  maxInstances : Nat
  /-- `max_instances` handed to the chunk functions when it is not that number (`get_bin_files.py`
  uses the TRAIN labels' maximum for the validation chunks too); `none` = the same number -/
  chunkMaxInst : Option Nat := none
  /-- does `generate_centroids` write through its argument (F-C11 present)? -/
  aliasing : Bool

/-- a labelled frame: raw image dimensions and `lf.instances` (user instances, possibly empty ones) -/
structure Frame (R : Type) where
  h : Nat
  w : Nat
  c : Nat
  insts : List (Inst R)

/-- training targets as generator applications (the generators themselves are C01 / C05) -/
inductive Target (R : Type) where
  /-- `generate_confmaps(points (1, n, 2), img_hw, sigma, output_stride)` -/
  | confmaps : List (Pt R) → Nat → Nat → R → Nat → Target R
  /-- `make_multi_confmaps(points (1, n_inst, n_nodes, 2), grid(img_hw, stride), sigma·stride)` -/
  | multiConfmaps : List (Inst R) → Nat → Nat → R → Nat → Target R
  /-- `generate_pafs(instances (1, n_inst, n_nodes, 2), img_hw, sigma, output_stride, edge_inds)` -/
  | pafs : List (Inst R) → Nat → Nat → R → Nat → List (Nat × Nat) → Target R
  deriving DecidableEq, Repr

structure Sample (R : Type) where
  img : Img R
  /-- `instances` (single, bottom-up, centroid) or `[instance]` (centred instance) -/
  instances : List (Inst R)
  /-- `centroids` (centroid) or `[centroid]` (centred instance) -/
  centroids : List (Pt R)
  /-- `instance_bbox` (centred instance) -/
  bbox : List (Pt R)
  numInstances : Nat
  /-- `ndim` of the keypoint tensor the targets are drawn from -/
  rank : Nat
  deriving DecidableEq, Repr

section numeric
variable {R : Type} [Add R] [Sub R] [Mul R] [Div R] [LT R] [DecidableLT R] [DecidableEq R]
  [OfNat R 1] [OfNat R 2]

/-! ## sizes -/

/-- `find_padding_for_stride` for one side (`apply_pad_to_stride` only acts when `max_stride > 1`) -/
def padFor (x m : Nat) : Nat := if 1 < m then (m - x % m) % m else 0

/-- `apply_sizematcher`: target size of the resize and `eff_scale` -/
def sizematchPlan (N : Num R) (h w mh mw : Nat) : (Nat × Nat) × R :=
  if h ≠ mh ∨ w ≠ mw then
    let hr := N.cast mh / N.cast h
    let wr := N.cast mw / N.cast w
    if wr < hr then ((N.rnd (N.cast h * wr), N.rnd (N.cast w * wr)), wr)
    else ((N.rnd (N.cast h * hr), N.rnd (N.cast w * hr)), hr)
  else ((h, w), 1)

/-- `(C, H, W)` of the tensor a term denotes, given the raw frame's -/
def shape (N : Num R) (raw : Nat × Nat × Nat) : Img R → Nat × Nat × Nat
  | .raw => raw
  | .norm i => shape N raw i
  | .gray i => (1, (shape N raw i).2.1, (shape N raw i).2.2)
  | .rgb i => (3, (shape N raw i).2.1, (shape N raw i).2.2)
  | .sizematch mh mw i => ((shape N raw i).1, mh, mw)
  | .resize s i =>
      ((shape N raw i).1, N.mulTrunc (shape N raw i).2.1 s, N.mulTrunc (shape N raw i).2.2 s)
  | .padStride m i =>
      ((shape N raw i).1, (shape N raw i).2.1 + padFor (shape N raw i).2.1 m,
        (shape N raw i).2.2 + padFor (shape N raw i).2.2 m)
  | .crop _ h w i => ((shape N raw i).1, h, w)
  | .quant8 i => shape N raw i

/-- `(np.array(crop_hw) * np.sqrt(2)).astype(int32)`: `⌊c·√2⌋ = ⌊√(2c²)⌋` -/
def cropExtra (c : Nat) : Nat := Nat.sqrt (2 * c * c)

/-! ## keypoints -/

def scalePt (s : R) (p : Pt R) : Pt R := p.map fun q => (q.1 * s, q.2 * s)
def scaleInst (s : R) (i : Inst R) : Inst R := i.map (scalePt s)
def subPt (o : R × R) (p : Pt R) : Pt R := p.map fun q => (q.1 - o.1, q.2 - o.2)

/-- `Instance.is_empty`: no visible point -/
def isEmptyInst (i : Inst R) : Bool := i.all Option.isNone

def nonEmpty (l : List (Inst R)) : List (Inst R) := l.filter fun i => !isEmptyInst i

def absDiff (a b : Nat) : Nat := if a < b then b - a else a - b

/-- `process_lf`: non-empty instances, NaN rows appended up to `max_instances` unless that is 1;
second component `num_instances` -/
def processLf (maxInst : Nat) (insts : List (Inst R)) : List (Inst R) × Nat :=
  let ne := nonEmpty insts
  let nodes := match ne with | [] => 0 | i :: _ => i.length
  (if maxInst ≠ 1 then ne ++ List.replicate (absDiff maxInst ne.length) (List.replicate nodes none)
   else ne, ne.length)

/-- `find_points_bbox_midpoint`: `(max + min) * 0.5` over the visible points -/
def midpoint (i : Inst R) : Pt R :=
  match i.filterMap id with
  | [] => none
  | p :: ps =>
    let mn := ps.foldl (fun a q => (minR a.1 q.1, minR a.2 q.2)) p
    let mx := ps.foldl (fun a q => (maxR a.1 q.1, maxR a.2 q.2)) p
    some ((mx.1 + mn.1) * ((1 : R) / 2), (mx.2 + mn.2) * ((1 : R) / 2))

/-- the anchor node when `anchor_ind` is given and the node is visible -/
def anchorPt (anchor : Option Nat) (i : Inst R) : Pt R :=
  match anchor with
  | some a => match i[a]? with | some p => p | none => none
  | none => none

/-- one row of `generate_centroids` -/
def centroidOf (anchor : Option Nat) (i : Inst R) : Pt R :=
  match anchorPt anchor i with
  | some p => some p
  | none => midpoint i

/-- what `generate_centroids` leaves in its *argument* for one row -/
def writeBack (aliasing : Bool) (anchor : Option Nat) (i : Inst R) : Inst R :=
  match anchor with
  | some a => match i[a]? with
    | some none => if aliasing then i.set a (midpoint i) else i
    | _ => i
  | none => i

/-! ## crops -/

/-- top-left corner of `make_centered_bboxes` -/
def topLeft (N : Num R) (c : R × R) (h w : Nat) : R × R :=
  (c.1 - N.cast w / 2 + (1 : R) / 2, c.2 - N.cast h / 2 + (1 : R) / 2)

/-- `make_centered_bboxes`: top-left, top-right, bottom-right, bottom-left -/
def bboxOf (N : Num R) (c : R × R) (h w : Nat) : List (R × R) :=
  let hw := N.cast w / 2
  let hh := N.cast h / 2
  let o := (1 : R) / 2
  [(c.1 - hw + o, c.2 - hh + o), (c.1 + hw - o, c.2 - hh + o),
   (c.1 + hw - o, c.2 + hh - o), (c.1 - hw + o, c.2 + hh - o)]

structure Crop (R : Type) where
  img : Img R
  bbox : List (Pt R)
  inst : Inst R
  cen : Pt R
  deriving DecidableEq, Repr

/-- the coordinate half of `generate_crops`: bbox, keypoints and centroid relative to the crop -/
structure CropCoords (R : Type) where
  bbox : List (Pt R)
  inst : Inst R
  cen : Pt R

def cropCoords (N : Num R) (inst : Inst R) (cen : Pt R) (h w : Nat) : CropCoords R :=
  match cen with
  | some c =>
    { bbox := (bboxOf N c h w).map some, inst := inst.map (subPt (topLeft N c h w)),
      cen := subPt (topLeft N c h w) cen }
  | none => { bbox := List.replicate 4 none, inst := inst.map fun _ => none, cen := none }

/-- `generate_crops(image, instance, centroid, (h, w))` -/
def generateCrops (N : Num R) (img : Img R) (inst : Inst R) (cen : Pt R) (h w : Nat) : Crop R :=
  { img := .crop cen h w img, bbox := (cropCoords N inst cen h w).bbox,
    inst := (cropCoords N inst cen h w).inst, cen := (cropCoords N inst cen h w).cen }

/-! ## shared front end -/

def chan (isRgb : Bool) (i : Img R) : Img R := if isRgb then .rgb i else .gray i

/-- `apply_normalization` → `convert_to_rgb|grayscale` → `apply_sizematcher` -/
def base (isRgb : Bool) (mh mw : Nat) : Img R := .sizematch mh mw (chan isRgb (.norm .raw))

/-- `apply_resizer`, image half -/
def applyResizer (s : R) (i : Img R) : Img R := if s = 1 then i else .resize s i
/-- `apply_resizer`, keypoint half -/
def applyResizerPts (s : R) (l : List (Inst R)) : List (Inst R) :=
  if s = 1 then l else l.map (scaleInst s)
def applyResizerCen (s : R) (l : List (Pt R)) : List (Pt R) :=
  if s = 1 then l else l.map (scalePt s)

def effScale (N : Num R) (fr : Frame R) (mh mw : Nat) : R := (sizematchPlan N fr.h fr.w mh mw).2

/-- the size the chunk functions size-match to -/
def chunkMaxH (cfg : Cfg R) : Nat := cfg.cfgMaxH.getD cfg.maxH
def chunkMaxW (cfg : Cfg R) : Nat := cfg.cfgMaxW.getD cfg.maxW

/-- which repairs of the torch datasets a modelled tree contains -/
structure Tree where
  /-- 3fdd300: config `max_height/max_width` first, per component (else only `max_hw`: F-C18a) -/
  honourCfgMax : Bool
  /-- b2232cf: `SingleInstanceDataset.max_instances = 1` (else NaN padding to the labels' maximum: F-C18b) -/
  singleNoPad : Bool

/-- /repo as it is -/
def Tree.current : Tree := ⟨true, true⟩
/-- the pinned snapshot (bc2d651) -/
def Tree.original : Tree := ⟨false, false⟩
/-- 3fdd300 without b2232cf -/
def Tree.beforeB2232cf : Tree := ⟨true, false⟩

/-- the size the torch datasets size-match to -/
def dsMaxH (t : Tree) (cfg : Cfg R) : Nat := if t.honourCfgMax then chunkMaxH cfg else cfg.maxH
def dsMaxW (t : Tree) (cfg : Cfg R) : Nat := if t.honourCfgMax then chunkMaxW cfg else cfg.maxW

/-- `max_instances` the single-instance / bottom-up torch dataset hands to `process_lf` -/
def dsMaxInst (t : Tree) (cfg : Cfg R) : Nat :=
  if cfg.mt = .single ∧ t.singleNoPad = true then 1 else cfg.maxInstances

/-- `max_instances` the chunk functions get -/
def chunkMaxInstOf (cfg : Cfg R) : Nat := cfg.chunkMaxInst.getD cfg.maxInstances

def q8If (b : Bool) (i : Img R) : Img R := if b then .quant8 i else i

/-! ## framework (i): torch datasets, in-memory cache (`np = false`) and `.npz` chunks (`np = true`) -/

/-- `BaseDataset._fill_cache` + `SingleInstanceDataset|BottomUpDataset.__getitem__` -/
def torchPlain (N : Num R) (t : Tree) (np : Bool) (cfg : Cfg R) (fr : Frame R) : Sample R :=
  let pl := processLf (dsMaxInst t cfg) fr.insts
  let e := effScale N fr (dsMaxH t cfg) (dsMaxW t cfg)
  { img := q8If np (.padStride cfg.maxStride (applyResizer cfg.scale (base cfg.isRgb (dsMaxH t cfg) (dsMaxW t cfg)))),
    instances := applyResizerPts cfg.scale (pl.1.map (scaleInst e)),
    centroids := [], bbox := [], numInstances := pl.2, rank := 4 }

/-- `CentroidDataset._fill_cache` + `__getitem__` -/
def torchCentroid (N : Num R) (t : Tree) (np : Bool) (cfg : Cfg R) (fr : Frame R) : Sample R :=
  let pl := processLf cfg.maxInstances fr.insts
  let e := effScale N fr (dsMaxH t cfg) (dsMaxW t cfg)
  let insts := applyResizerPts cfg.scale (pl.1.map (scaleInst e))
  { img := q8If np (.padStride cfg.maxStride (applyResizer cfg.scale (base cfg.isRgb (dsMaxH t cfg) (dsMaxW t cfg)))),
    instances := insts.map (writeBack cfg.aliasing cfg.anchor),
    centroids := insts.map (centroidOf cfg.anchor),
    bbox := [], numInstances := pl.2, rank := 3 }

/-- a crop turned into the sample `__getitem__` returns: re-crop to `(h, w)`, pad to stride -/
def recrop (N : Num R) (m : Nat) (c1 : Crop R) (h w : Nat) (num rank : Nat) : Sample R :=
  let c2 := generateCrops N c1.img c1.inst c1.cen h w
  { img := .padStride m c2.img, instances := [c2.inst], centroids := [c2.cen], bbox := c2.bbox,
    numInstances := num, rank := rank }

/-- `CenteredInstanceDataset._fill_cache` + `__getitem__` for the `k`-th non-empty instance -/
def torchCentered (N : Num R) (t : Tree) (np : Bool) (cfg : Cfg R) (fr : Frame R) (k : Nat) : Sample R :=
  let e := effScale N fr (dsMaxH t cfg) (dsMaxW t cfg)
  let inst0 := ((nonEmpty fr.insts)[k]?).getD []
  let inst1 := ((applyResizerPts cfg.scale [scaleInst e inst0])[0]?).getD []
  let img := applyResizer cfg.scale (base cfg.isRgb (dsMaxH t cfg) (dsMaxW t cfg))
  let c1 := generateCrops N img (writeBack cfg.aliasing cfg.anchor inst1) (centroidOf cfg.anchor inst1)
    (cropExtra cfg.cropH) (cropExtra cfg.cropW)
  recrop N cfg.maxStride { c1 with img := q8If np c1.img } cfg.cropH cfg.cropW fr.insts.length 3

/-! ## framework (ii)+(iii): chunk function, then the streaming `__getitem__` -/

/-- `single_instance_data_chunks` (`max_instances = 1`) / `bottomup_data_chunks`, then
`SingleInstance|BottomUpStreamingDataset.__getitem__` -/
def streamPlain (N : Num R) (cfg : Cfg R) (fr : Frame R) : Sample R :=
  let pl := processLf (if cfg.mt = .single then 1 else chunkMaxInstOf cfg) fr.insts
  let e := effScale N fr (chunkMaxH cfg) (chunkMaxW cfg)
  { img := .padStride cfg.maxStride
      (.quant8 (applyResizer cfg.scale (base cfg.isRgb (chunkMaxH cfg) (chunkMaxW cfg)))),
    instances := applyResizerPts cfg.scale (pl.1.map (scaleInst e)),
    centroids := [], bbox := [], numInstances := pl.2, rank := 4 }

/-- `centroid_data_chunks`, then `CentroidStreamingDataset.__getitem__` -/
def streamCentroid (N : Num R) (cfg : Cfg R) (fr : Frame R) : Sample R :=
  let pl := processLf (chunkMaxInstOf cfg) fr.insts
  let e := effScale N fr (chunkMaxH cfg) (chunkMaxW cfg)
  let insts := pl.1.map (scaleInst e)
  { img := .padStride cfg.maxStride
      (.quant8 (applyResizer cfg.scale (base cfg.isRgb (chunkMaxH cfg) (chunkMaxW cfg)))),
    instances := insts.map (writeBack cfg.aliasing cfg.anchor),
    centroids := applyResizerCen cfg.scale (insts.map (centroidOf cfg.anchor)),
    bbox := [], numInstances := pl.2, rank := 3 }

/-- `centered_instance_data_chunks` (its `k`-th yield), then
`CenteredInstanceStreamingDataset.__init__` (`crop_hw := int(crop_hw · scale)`) + `__getitem__` -/
def streamCentered (N : Num R) (cfg : Cfg R) (fr : Frame R) (k : Nat) : Sample R :=
  let pl := processLf (chunkMaxInstOf cfg) fr.insts
  let e := effScale N fr (chunkMaxH cfg) (chunkMaxW cfg)
  let insts := pl.1.map (scaleInst e)
  let inst := (((insts.map (writeBack cfg.aliasing cfg.anchor))[k]?).getD [])
  let cen := (((insts.map (centroidOf cfg.anchor))[k]?).getD none)
  let c1 := generateCrops N (base cfg.isRgb (chunkMaxH cfg) (chunkMaxW cfg)) inst cen
    (cropExtra cfg.cropH) (cropExtra cfg.cropW)
  let c1' : Crop R :=
    { c1 with img := .quant8 (applyResizer cfg.scale c1.img),
              inst := ((applyResizerPts cfg.scale [c1.inst])[0]?).getD [] }
  recrop N cfg.maxStride c1' (N.mulTrunc cfg.cropH cfg.scale) (N.mulTrunc cfg.cropW cfg.scale)
    pl.2 4

/-- the sample framework `fw` returns for frame `fr` (instance `k` of it for the centred-instance
model) on tree `t` -/
def sampleOfH (t : Tree) (N : Num R) (fw : FW) (cfg : Cfg R) (fr : Frame R) (k : Nat) : Sample R :=
  match fw, cfg.mt with
  | .mem, .single | .mem, .bottomup => torchPlain N t false cfg fr
  | .np, .single | .np, .bottomup => torchPlain N t true cfg fr
  | .stream, .single | .stream, .bottomup => streamPlain N cfg fr
  | .mem, .centroid => torchCentroid N t false cfg fr
  | .np, .centroid => torchCentroid N t true cfg fr
  | .stream, .centroid => streamCentroid N cfg fr
  | .mem, .centered => torchCentered N t false cfg fr k
  | .np, .centered => torchCentered N t true cfg fr k
  | .stream, .centered => streamCentered N cfg fr k

/-- the tree as it is (b2232cf) -/
def sampleOf (N : Num R) (fw : FW) (cfg : Cfg R) (fr : Frame R) (k : Nat) : Sample R :=
  sampleOfH Tree.current N fw cfg fr k

/-- the tree before 3fdd300: torch datasets ignore the config's `max_height/max_width` (F-C18a) -/
def sampleOfAsWas (N : Num R) (fw : FW) (cfg : Cfg R) (fr : Frame R) (k : Nat) : Sample R :=
  sampleOfH Tree.original N fw cfg fr k

/-- the tree between 3fdd300 and b2232cf: `SingleInstanceDataset` pads to the labels' maximum (F-C18b) -/
def sampleOfBeforeB2232cf (N : Num R) (fw : FW) (cfg : Cfg R) (fr : Frame R) (k : Nat) : Sample R :=
  sampleOfH Tree.beforeB2232cf N fw cfg fr k

/-- how many samples a framework produces for one labelled frame; `none` = it raises.
Torch datasets index the frames (`_get_lf_idx_list`) / instances (`_get_instance_idx_list`) that
are not empty; every chunk function starts with `process_lf`, whose `np.stack` of the non-empty
instances raises `ValueError` when there is none (finding F-C18c). -/
def sampleCount (fw : FW) (mt : MT) (fr : Frame R) : Option Nat :=
  let ne := (nonEmpty fr.insts).length
  match fw with
  | .mem | .np => some (if mt = .centered then ne else if ne = 0 then 0 else 1)
  | .stream => if ne = 0 then none else some (if mt = .centered then ne else 1)

/-! ## which instances of a labelled frame each framework enumerates (`user_instances_only`)

A labelled frame as sleap-io holds it: every instance is a user instance (`false`) or a predicted
one (`true`), in file order.  With `user_instances_only` every framework replaces
`lf.instances` by `lf.user_instances` **when that list is not empty** (a frame with predicted
instances only is used as it is) and the replacement is an assignment: it persists on the frame.

* torch datasets: `_get_lf_idx_list` / `_get_instance_idx_list` filter (and assign) once when the
  dataset is built; `_fill_cache` then iterates `lf` — the assigned list — and, for the single /
  bottom-up / centroid classes, goes through `process_lf`, which filters the already filtered frame
  again.  `CenteredInstanceDataset._fill_cache` stacks `for inst in lf` and indexes that stack with
  the indices `_get_instance_idx_list` took from the filtered list: it relies on the assignment.
* chunk functions: `process_lf` filters once.
-/

/-- `(is_predicted, keypoints)` in file order -/
abbrev Labelled (R : Type) := List (Bool × Inst R)

/-- `if user_instances_only and len(lf.user_instances) > 0: lf.instances = lf.user_instances` -/
def filterFrame (uio : Bool) (l : Labelled R) : Labelled R :=
  if uio && !(l.filter fun p => !p.1).isEmpty then l.filter fun p => !p.1 else l

/-- the instance list framework `fw` works on for one labelled frame -/
def enumerated (fw : FW) (mt : MT) (uio : Bool) (l : Labelled R) : List (Inst R) :=
  match fw, mt with
  | .stream, _ => (filterFrame uio l).map (·.2)                               -- `process_lf`
  | _, .centered => (filterFrame uio l).map (·.2)     -- index list and stack both see the assigned list
  | _, _ => (filterFrame uio (filterFrame uio l)).map (·.2)   -- `_get_lf_idx_list`, then `process_lf`

/-- a labelled frame with its raw image size -/
structure RawFrame (R : Type) where
  h : Nat
  w : Nat
  c : Nat
  labelled : Labelled R

/-- the frame framework `fw` processes -/
def RawFrame.seenBy (rf : RawFrame R) (fw : FW) (mt : MT) (uio : Bool) : Frame R :=
  { h := rf.h, w := rf.w, c := rf.c, insts := enumerated fw mt uio rf.labelled }

/-- sample for a raw labelled frame -/
def sampleOfRaw (N : Num R) (fw : FW) (cfg : Cfg R) (uio : Bool) (rf : RawFrame R) (k : Nat) : Sample R :=
  sampleOf N fw cfg (rf.seenBy fw cfg.mt uio) k

/-! ## the `.npz` chunk directory

`dir` = the samples `sample_0.npz, sample_1.npz, …` in `np_chunks_path` stand for.  A dataset built
with `use_existing_chunks = False` writes one file per item, **whatever the directory holds**
(files beyond its own count stay); with `use_existing_chunks = True` it writes nothing and serves
the directory. -/

/-- (directory afterwards, samples served) -/
def npDataset (N : Num R) (useExisting : Bool) (dir : List (Sample R)) (cfg : Cfg R)
    (items : List (Frame R × Nat)) : List (Sample R) × List (Sample R) :=
  if useExisting then (dir, dir)
  else
    let w := items.map fun it => sampleOf N .np cfg it.1 it.2
    (w ++ dir.drop w.length, w)

/-! ## targets -/

/-- what the `__getitem__`s generate from a sample (all frameworks call the same generators on the
sample's own keypoints and its own image height/width) -/
def targetsOf (N : Num R) (raw : Nat × Nat × Nat) (mt : MT) (hd : Heads R) (s : Sample R) :
    List (Target R) :=
  let h := (shape N raw s.img).2.1
  let w := (shape N raw s.img).2.2
  match mt with
  | .single | .centered => [.confmaps s.instances.flatten h w hd.cmSigma hd.cmStride]
  | .centroid =>
    [.multiConfmaps ((s.centroids.take s.numInstances).map fun c => [c]) h w hd.cmSigma hd.cmStride]
  | .bottomup =>
    [.multiConfmaps (s.instances.take s.numInstances) h w hd.cmSigma hd.cmStride,
     .pafs s.instances h w hd.pafSigma hd.pafStride hd.edges]

/-! ## the eight legacy DataPipe blocks next to their functional twins

Each block is modelled on the fields it reads/writes.  `fn…` is the function the torch datasets
and chunk functions call, `dp…` the body of the block's `__iter__`. -/

/-- `apply_normalization`; `convert_to_rgb` if `is_rgb` else `convert_to_grayscale` -/
def fnNormalize (isRgb : Bool) (i : Img R) : Img R := chan isRgb (.norm i)
/-- `Normalizer.__iter__`: inline normalisation; `if is_rgb: rgb`; `if not is_rgb: gray` -/
def dpNormalizer (isRgb : Bool) (i : Img R) : Img R :=
  let a : Img R := .norm i
  let b := if isRgb then Img.rgb a else a
  if !isRgb then .gray b else b

/-- `apply_resizer(image, instances, scale)` -/
def fnResize (s : R) (x : Img R × List (Inst R)) : Img R × List (Inst R) :=
  (applyResizer s x.1, applyResizerPts s x.2)
/-- `Resizer.__iter__`: `if scale != 1.0: image = resize_image(..); instances = instances * scale` -/
def dpResizer (s : R) (x : Img R × List (Inst R)) : Img R × List (Inst R) :=
  if s ≠ 1 then (.resize s x.1, x.2.map (scaleInst s)) else x

/-- what a size-matching step does to a frame of `(h, w)`: resize to `plan.1`, then zero-pad to
`(mh, mw)`; keypoints are multiplied by `plan.2`.  `none` = raises. -/
abbrev SizePlan (R : Type) := Option ((Nat × Nat) × R)

/-- `apply_sizematcher(image, max_height, max_width)` (aspect-preserving rescale, then padding) -/
def fnSizeMatch (N : Num R) (h w mh mw : Nat) : SizePlan R := some (sizematchPlan N h w mh mw)
/-- `SizeMatcher.__iter__` (legacy block used by every pipeline of `pipelines.py`): zero-pads only,
leaves the keypoints alone, raises when the frame is larger than the maximum -/
def dpSizeMatcher (h w mh mw : Nat) : SizePlan R :=
  if mh < h ∨ mw < w then none else some ((h, w), 1)

/-- `apply_pad_to_stride` -/
def fnPadToStride (m : Nat) (i : Img R) : Img R := .padStride m i
/-- `PadToStride.__iter__` -/
def dpPadToStride (m : Nat) (i : Img R) : Img R := fnPadToStride m i

/-- `generate_centroids(instances, anchor_ind)`: (returned centroids, what is left in the argument) -/
def fnCentroids (aliasing : Bool) (anchor : Option Nat) (l : List (Inst R)) : List (Pt R) × List (Inst R) :=
  (l.map (centroidOf anchor), l.map (writeBack aliasing anchor))
/-- `InstanceCentroidFinder.__iter__` -/
def dpCentroidFinder (aliasing : Bool) (anchor : Option Nat) (l : List (Inst R)) :
    List (Pt R) × List (Inst R) := fnCentroids aliasing anchor l

/-- `InstanceCropper.__iter__`: one crop per `(instance, centroid)` pair, stopping at `num_instances` -/
def dpInstanceCropper (N : Num R) (h w : Nat) (img : Img R) (insts : List (Inst R))
    (cens : List (Pt R)) (num : Nat) : List (Crop R) :=
  ((insts.zip cens).take num).map fun ic =>
    match ic.2 with
    | some c =>
      { img := .crop ic.2 h w img, bbox := (bboxOf N c h w).map some,
        inst := ic.1.map (subPt (topLeft N c h w)), cen := subPt (topLeft N c h w) ic.2 }
    | none =>
      { img := .crop none h w img, bbox := List.replicate 4 none, inst := ic.1.map fun _ => none,
        cen := none }

/-- keypoint tensors as the confidence-map code sees them -/
inductive Kps (R : Type) where
  /-- `(1, n_nodes, 2)` -/
  | rank3 : Inst R → Kps R
  /-- `(1, n_instances, n_nodes, 2)` -/
  | rank4 : List (Inst R) → Kps R

/-- `generate_confmaps`: `if instance.ndim != 3: view(n, -1, 2)` -/
def fnConfmaps (pts : Kps R) (h w : Nat) (sigma : R) (stride : Nat) : Target R :=
  match pts with
  | .rank3 i => .confmaps i h w sigma stride
  | .rank4 l => .confmaps l.flatten h w sigma stride
/-- `ConfidenceMapGenerator.__iter__`: `if instance_key == "instances": view(n, -1, 2)`; a rank-4
tensor under another key makes `make_confmaps` fail to unpack its shape (`none`) -/
def dpConfmapGen (keyIsInstances : Bool) (pts : Kps R) (h w : Nat) (sigma : R) (stride : Nat) :
    Option (Target R) :=
  match pts with
  | .rank3 i => some (.confmaps i h w sigma stride)   -- `view` of a rank-3 tensor is the identity
  | .rank4 l => if keyIsInstances then some (.confmaps l.flatten h w sigma stride) else none

/-- `generate_multiconfmaps` -/
def fnMultiConfmaps (isCentroids : Bool) (insts : List (Inst R)) (cens : List (Pt R)) (num : Nat)
    (h w : Nat) (sigma : R) (stride : Nat) : Target R :=
  if isCentroids then .multiConfmaps ((cens.take num).map fun c => [c]) h w sigma stride
  else .multiConfmaps (insts.take num) h w sigma stride
/-- `MultiConfidenceMapGenerator.__iter__`: the centroid branch slices `[:num_instances]`, the
keypoint branch passes **all** rows (NaN padding included) -/
def dpMultiConfmapGen (centroids : Bool) (insts : List (Inst R)) (cens : List (Pt R)) (num : Nat)
    (h w : Nat) (sigma : R) (stride : Nat) : Target R :=
  if centroids then .multiConfmaps ((cens.take num).map fun c => [c]) h w sigma stride
  else .multiConfmaps insts h w sigma stride

/-- `generate_pafs` -/
def fnPafs (insts : List (Inst R)) (h w : Nat) (sigma : R) (stride : Nat) (edges : List (Nat × Nat)) :
    Target R := .pafs insts h w sigma stride edges
/-- `PartAffinityFieldsGenerator.__iter__` (same body) -/
def dpPafGen (insts : List (Inst R)) (h w : Nat) (sigma : R) (stride : Nat) (edges : List (Nat × Nat)) :
    Target R := .pafs insts h w sigma stride edges

end numeric

/-! ## default arguments of each block and of its twin (read off the signatures)

`none` = no default / not a usable value.  Compared with `inspect.signature` on every run. -/
structure Defaults where
  name : String
  /-- (parameter, default of the DataPipe block, default of the function); values as Python reprs -/
  params : List (String × Option String × Option String)

def defaultsTable : List Defaults :=
  [ ⟨"Normalizer/apply_normalization", [("is_rgb", some "False", none)]⟩,
    ⟨"Resizer/apply_resizer", [("scale", some "1.0", some "1.0")]⟩,
    ⟨"PadToStride/apply_pad_to_stride", [("max_stride", some "1", none)]⟩,
    ⟨"InstanceCentroidFinder/generate_centroids", [("anchor_ind", some "None", some "None")]⟩,
    ⟨"InstanceCropper/generate_crops", [("crop_hw", none, none)]⟩,
    ⟨"ConfidenceMapGenerator/generate_confmaps",
      [("sigma", some "1.5", some "1.5"), ("output_stride", some "1", some "2")]⟩,
    ⟨"MultiConfidenceMapGenerator/generate_multiconfmaps",
      [("sigma", some "1.5", some "1.5"), ("output_stride", some "1", some "2"),
       ("centroids", some "True", some "False")]⟩,
    ⟨"PartAffinityFieldsGenerator/generate_pafs",
      [("sigma", none, some "1.5"), ("output_stride", none, some "2"),
       ("flatten_channels", some "False", some "False")]⟩ ]

/-- the blocks whose every shared parameter has the same default on both sides -/
def defaultsAgree (d : Defaults) : Bool :=
  d.params.all fun p => match p.2.1, p.2.2 with
    | some a, some b => a == b
    | _, _ => true


/-! ## interpretations of the pixel primitives -/

/-- an interpretation of the uninterpreted image primitives in a carrier `P` of pixel arrays -/
structure Interp (R P : Type) where
  raw : P
  norm : P → P
  gray : P → P
  rgb : P → P
  sizematch : Nat → Nat → P → P
  resize : R → P → P
  padStride : Nat → P → P
  crop : Pt R → Nat → Nat → P → P
  quant8 : P → P

def Interp.eval {R P : Type} (I : Interp R P) : Img R → P
  | .raw => I.raw
  | .norm i => I.norm (I.eval i)
  | .gray i => I.gray (I.eval i)
  | .rgb i => I.rgb (I.eval i)
  | .sizematch a b i => I.sizematch a b (I.eval i)
  | .resize s i => I.resize s (I.eval i)
  | .padStride m i => I.padStride m (I.eval i)
  | .crop c h w i => I.crop c h w (I.eval i)
  | .quant8 i => I.quant8 (I.eval i)

/-! ## the numeric environment the driver runs with (`R := Rat`) -/

/-- Python's `round()` (half to even) followed by `int()`, on a non-negative rational -/
def roundHalfEven (q : Rat) : Nat :=
  let f := q.floor
  let r := q - (f : Rat)
  let up := if r < 1/2 then false else if (1/2 : Rat) < r then true else f % 2 ≠ 0
  (if up then f + 1 else f).toNat

/-- `2^e` -/
def pow2 (e : Int) : Rat :=
  if 0 ≤ e then ((2 ^ e.toNat : Nat) : Rat) else 1 / ((2 ^ (-e).toNat : Nat) : Rat)

/-- Round a positive rational to the nearest IEEE-754 binary64 value, ties to even (normal range and
gradual underflow; overflow not modelled).  Doubles are dyadic rationals, so `Rat` carries the
result exactly.  (Same construction as `roundF64` in `Model/Grouping.lean`, copied so that this file
does not depend on another property's model.) -/
def roundF64 (x : Rat) : Rat :=
  if x ≤ 0 then x
  else
    let a : Int := x.num.natAbs.log2
    let b : Int := x.den.log2
    let e0 : Int := a - b - 52
    let e1 := if x / pow2 e0 < pow2 52 then e0 - 1 else e0
    let e2 := if pow2 53 ≤ x / pow2 e1 then e1 + 1 else e1
    let e := if e2 < -1074 then -1074 else e2
    (roundHalfEven (x / pow2 e) : Rat) * pow2 e

/-- the driver's environment: `s` arrives as the exact rational value of the Python float, `n * s`
is rounded to binary64 as CPython does, then truncated -/
def numRat : Num Rat :=
  { cast := fun n => (n : Rat), rnd := roundHalfEven,
    mulTrunc := fun n s => (roundF64 ((n : Rat) * s)).floor.toNat }

end SleapVerif.Pipelines
