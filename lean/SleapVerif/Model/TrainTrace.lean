/-!
# TrainTrace — the file-write trace of `ModelTrainer.__init__` + `ModelTrainer.train()` (C19)

Core Lean only.  The model follows `sleap_nn/training/model_trainer.py` statement by statement
for everything that persists the training configuration:

```
__init__ : OmegaConf.save(initial_config.yaml)            -- config as supplied (schema-merged)
           … fill in max_height/width, crop size, skeletons, part names …
           OmegaConf.save(training_config.yaml)           -- "prepared" config
           [np-chunks framework]  OmegaConf.save(<np_chunks_path>/config.yaml)
train()  : total_params := …;  [use_wandb] login, logger, wandb.api_key := ""
           OmegaConf.save(training_config.yaml)           -- "used" config
           [np-chunks] the datasets write train_chunks/*.npz, val_chunks/*.npz
           trainer.fit: per validation epoch  [save_ckpt ∧ val_loss improved]  best.ckpt, last.ckpt
                        — `on_save_checkpoint` puts the config into the checkpoint
finally  : [use_wandb] wandb.run_id := wandb.run.id       -- raises on a structured WandBConfig (as is)
           OmegaConf.save(training_config.yaml)
           [np-chunks ∧ delete_chunks_after_training] rmtree(train_chunks), rmtree(val_chunks)
```

A file's content is abstracted to *which* configuration it holds, whether the API key in it is
blank, and whether it carries `wandb.run_id`.  A **crash point** is a prefix of the trace
(`List.take n`); the **file system after a prefix** is the last write per path (`fsAfter`).

Two versions are modelled: `Version.repaired` (`trace`, the code with `fixes/C19-*.patch`: the
key is blanked in a copy at every save, `run_id` is tolerated on structured configs) and
`Version.asIs` (`asIs`, the pinned tree, finding F-C19).
-/
namespace SleapVerif.TrainTrace

inductive ModelType
  | singleInstance | centroid | centeredInstance | bottomup
  deriving DecidableEq, Repr

inductive Framework
  | torchDataset | npChunks
  deriving DecidableEq, Repr

/-- The configuration grid of property C19 (the key is present in the supplied config in every
case). `structured` = built by the `sleap_nn.train` builders (attrs classes → typed OmegaConf
nodes), otherwise a plain `OmegaConf.create`/YAML-loaded `DictConfig`. -/
structure Flags where
  model : ModelType
  fw : Framework
  wandb : Bool
  ckpt : Bool
  structured : Bool
  deleteChunks : Bool
  /-- `trainer_config.model_ckpt.save_last` (schema default `None` = `false`); `save_top_k` is fixed to 1. -/
  saveLast : Bool
  deriving DecidableEq, Repr

/-- Path classes under the output directories that carry modelled content. -/
inductive Path
  | initialCfg    -- <save_ckpt_path>/initial_config.yaml
  | trainingCfg   -- <save_ckpt_path>/training_config.yaml
  | chunksCfg     -- <np_chunks_path>/config.yaml
  | bestCkpt      -- <save_ckpt_path>/best.ckpt
  | lastCkpt      -- <save_ckpt_path>/last.ckpt
  | trainChunks   -- <np_chunks_path>/train_chunks/*.npz
  | valChunks     -- <np_chunks_path>/val_chunks/*.npz
  | bestCkptV1    -- <save_ckpt_path>/best-v1.ckpt  (second run into a folder that already has best.ckpt)
  | lastCkptV1    -- <save_ckpt_path>/last-v1.ckpt
  | cwdTrainChunks -- ./train_chunks/*.npz  (low-memory fallback: chunks go to the working directory)
  | cwdValChunks   -- ./val_chunks/*.npz
  deriving DecidableEq, Repr

/-- Which stage of the configuration a file holds. -/
inductive Which
  | supplied   -- `verify_training_cfg(config)`: what the caller passed, schema-merged
  | prepared   -- + max_height/width, crop_hw, skeletons, part_names/edges (end of `__init__`)
  | used       -- + model_config.total_params (what training actually ran with)
  | stale      -- a configuration of an *earlier* run into the same folder (any stage)
  deriving DecidableEq, Repr

inductive Content
  | config (which : Which) (keyBlank : Bool) (hasRunId : Bool)
  | data                                  -- image/keypoint chunks: no configuration inside
  deriving DecidableEq, Repr

def Content.keyBlank : Content → Bool
  | .config _ b _ => b
  | .data => true

inductive Event
  | write (p : Path) (c : Content)   -- OmegaConf.save / Lightning checkpoint / npz chunks
  | delete (p : Path)                -- shutil.rmtree
  | raise                            -- an exception escapes `ModelTrainer(cfg).train()`
  deriving DecidableEq, Repr

/-- the event does not put a key on disk -/
def Event.blank : Event → Bool
  | .write _ c => c.keyBlank
  | _ => true

def Event.isRaise : Event → Bool
  | .raise => true
  | _ => false

/-- The event with the key blanked in what it writes (same file, same configuration). -/
def Event.shape : Event → Event
  | .write p (.config w _ r) => .write p (.config w true r)
  | e => e

/-! ## File system = last write per path -/

abbrev FS := Path → Option Content

def FS.empty : FS := fun _ => none

def step (fs : FS) : Event → FS
  | .write p c => fun q => if q = p then some c else fs q
  | .delete p => fun q => if q = p then none else fs q
  | .raise => fs

def fsFrom (fs : FS) (l : List Event) : FS := l.foldl step fs

def fsAfter (l : List Event) : FS := fsFrom FS.empty l

/-- File system at crash point `n` of a trace. -/
def fsAt (l : List Event) (n : Nat) : FS := fsAfter (l.take n)

/-! ## The trace -/

inductive Version
  | repaired   -- what the property demands = the tree as it is now (all `fixes/C19-*.patch` applied)
  | asIs       -- the originally pinned tree (findings F-C19, F-C19b, F-C19c)
  | keyFixed   -- (record) the tree after the F-C19/F-C19b repair only: F-C19c (bottom-up + re-used chunks) remained
  deriving DecidableEq, Repr

/-- Is the key blank in what `__init__` saves? -/
def blankInit : Version → Bool
  | .repaired => true
  | .keyFixed => true
  | .asIs => false          -- `OmegaConf.save(config=self.config, …)` before any masking

/-- Is the key blank in what `train()` saves (config files and the config inside checkpoints)? -/
def blankTrain (v : Version) (f : Flags) : Bool :=
  match v with
  | .repaired => true
  | .keyFixed => true
  | .asIs => f.wandb        -- `self.config.trainer_config.wandb.api_key = ""` only `if use_wandb`

/-- Does `wandb.run_id := …` in the `finally` block raise? -/
def runIdRaises (v : Version) (f : Flags) : Bool :=
  match v with
  | .repaired => false
  | .keyFixed => false
  | .asIs => f.wandb && f.structured   -- `Key 'run_id' not in 'WandBConfig'`

def cfg (w : Which) (blank runId : Bool) : Content := .config w blank runId

def initPhase (v : Version) (f : Flags) : List Event :=
  [.write .initialCfg (cfg .supplied (blankInit v) false),
   .write .trainingCfg (cfg .prepared (blankInit v) false)]
  ++ (if f.fw = .npChunks then [.write .chunksCfg (cfg .prepared (blankInit v) false)] else [])

def resavePhase (v : Version) (f : Flags) : List Event :=
  [.write .trainingCfg (cfg .used (blankTrain v f) false)]

def chunkPhase (f : Flags) : List Event :=
  if f.fw = .npChunks then [.write .trainChunks .data, .write .valChunks .data] else []

/-- One validation epoch of `ModelCheckpoint(save_top_k=1, save_last=f.saveLast, filename="best")`
(Lightning as installed: `on_validation_end` saves `last.ckpt` only "if a checkpoint was actually
saved in this step"): when the monitored loss improved, `best.ckpt` is rewritten and then — if
`save_last` — `last.ckpt`; otherwise nothing is written. -/
def ckptRound (v : Version) (f : Flags) (improved : Bool) : List Event :=
  if improved then
    .write .bestCkpt (cfg .used (blankTrain v f) false) ::
      (if f.saveLast then [.write .lastCkpt (cfg .used (blankTrain v f) false)] else [])
  else []

def fitPhase (v : Version) (f : Flags) (rounds : List Bool) : List Event :=
  if f.ckpt then rounds.flatMap (ckptRound v f) else []

def finallyPhase (v : Version) (f : Flags) : List Event :=
  if runIdRaises v f then [.raise]
  else
    [.write .trainingCfg (cfg .used (blankTrain v f) f.wandb)]
    ++ (if f.fw = .npChunks ∧ f.deleteChunks then [.delete .trainChunks, .delete .valChunks] else [])

/-- The trace for an arbitrary number of validation epochs; `rounds[k]` says whether the
monitored loss improved in epoch `k` (the first epoch always improves in the real code). -/
def traceG (v : Version) (f : Flags) (rounds : List Bool) : List Event :=
  initPhase v f ++ resavePhase v f ++ chunkPhase f ++ fitPhase v f rounds ++ finallyPhase v f

/-- The 1-epoch run used by the correspondence check — repaired code. -/
def trace (f : Flags) : List Event := traceG .repaired f [true]

/-- A run aborted inside `trainer.fit` after the validation epochs `rounds` (an exception, or a
Ctrl-C — the installed Lightning turns `KeyboardInterrupt` into `SystemExit(1)` after teardown, so
`train()`'s `except KeyboardInterrupt` never fires): the `finally` block still runs (run_id,
re-save, chunk deletion), then the exception leaves `train()`. -/
def traceAbort (v : Version) (f : Flags) (rounds : List Bool) : List Event :=
  traceG v f rounds ++ [.raise]

/-- The 1-epoch run of the code as it is on the pinned tree. -/
def asIs (f : Flags) : List Event := traceG .asIs f [true]

/-! ## The key is a parameter of the run

A valid configuration need not carry an API key at all: `api_key` may be `""`, `None`, or the field
/ the whole `wandb` section may be missing (`KeyState.absent`).  What a run writes is then what it
writes with a key, except that there is no key that could be in any file: `traceGK .absent` is the
trace with every key bit set (`Event.shape`).  `traceGK .present = traceG`. -/

inductive KeyState
  | present | absent
  deriving DecidableEq, Repr

def Event.withKey (k : KeyState) (e : Event) : Event :=
  match k with
  | .present => e
  | .absent => e.shape

def traceGK (k : KeyState) (v : Version) (f : Flags) (rounds : List Bool) : List Event :=
  (traceG v f rounds).map (Event.withKey k)

/-! ## Low-memory fallback

`_create_data_loaders_torch_dataset` (called by `train()` after the re-save, before `fit`): with the
in-memory framework requested, if 1.1 × the estimated cache size exceeds
`psutil.virtual_memory().available` the trainer switches itself to the chunk framework —
`self.data_pipeline_fw := "torch_dataset_np_chunks"`, chunk directories := `./train_chunks`,
`./val_chunks` (the working directory, *not* `np_chunks_path`).  The configuration object is not
touched, no chunks `config.yaml` is written (that happened — or not — in `__init__`), and the
`finally` block, which looks at `self.data_pipeline_fw`, deletes those two directories iff
`delete_chunks_after_training`.  With the chunk framework requested the check is not made. -/

def chunkPhaseLM : List Event := [.write .cwdTrainChunks .data, .write .cwdValChunks .data]

def finallyPhaseLM (v : Version) (f : Flags) : List Event :=
  if runIdRaises v f then [.raise]
  else
    [.write .trainingCfg (cfg .used (blankTrain v f) f.wandb)]
    ++ (if f.deleteChunks then [.delete .cwdTrainChunks, .delete .cwdValChunks] else [])

/-- The trace of a fresh run on a host where the memory check fails. -/
def traceLM (v : Version) (f : Flags) (rounds : List Bool) : List Event :=
  if f.fw = .npChunks then traceG v f rounds
  else initPhase v f ++ resavePhase v f ++ chunkPhaseLM ++ fitPhase v f rounds ++ finallyPhaseLM v f

/-! ## Two-run history: a second run that re-uses the chunks of the first (`use_existing_chunks`)

Run 1 is an ordinary fresh run with the chunk framework and `delete_chunks_after_training = False`
(`run1Flags`), so it leaves `<np_chunks_path>/config.yaml`, `train_chunks/*.npz`, `val_chunks/*.npz`.
Run 2 has `use_existing_chunks = True`, the **same** `np_chunks_path` and a **new** `save_ckpt_path`:

```
__init__ : checks that both chunk dirs hold *.npz;  OmegaConf.save(initial_config.yaml)
           skeletons / max_height / crop size are *read from* <np_chunks_path>/config.yaml, the
           config is not filled in, so the second save holds the supplied configuration again
           OmegaConf.save(training_config.yaml)          -- no chunks config.yaml write
train()  : as a fresh run, but the datasets write no chunk files
finally  : as a fresh run: [delete_chunks_after_training] rmtree(train_chunks), rmtree(val_chunks)
```
-/

/-- What run 1 must look like for run 2 to be valid (chunks written and kept). -/
def run1Flags (f : Flags) : Flags := { f with fw := .npChunks, deleteChunks := false }

/-- Run 2 starts in a new checkpoint directory; only the shared chunk directory carries over. -/
def carry (fs : FS) : FS := fun p =>
  match p with
  | .chunksCfg | .trainChunks | .valChunks => fs p
  | _ => none

def initPhaseR (v : Version) : List Event :=
  [.write .initialCfg (cfg .supplied (blankInit v) false),
   .write .trainingCfg (cfg .supplied (blankInit v) false)]

/-- Does building the datasets of run 2 raise?  `BottomUpDataset.__init__` reads
`self.labels.skeletons[0].edge_inds`, but with `use_existing_chunks` the trainer passes
`labels=None` (finding F-C19c; repaired by passing the trainer's `edge_inds`). -/
def reuseRaises (v : Version) (f : Flags) : Bool :=
  match v with
  | .repaired => false
  | _ => f.model == .bottomup

/-- The trace of run 2 (`use_existing_chunks = True`; only meaningful for `f.fw = .npChunks`).
The data loaders are built *before* the `try … finally`, so a raise there skips the `finally` block. -/
def traceR (v : Version) (f : Flags) (rounds : List Bool) : List Event :=
  initPhaseR v ++ resavePhase v f ++
    (if reuseRaises v f then [.raise] else fitPhase v f rounds ++ finallyPhase v f)

/-- File system when run 2 starts, given run 1. -/
def reuseStart (v : Version) (f1 : Flags) (r1 : List Bool) : FS :=
  carry (fsAfter (traceG v (run1Flags f1) r1))

/-- File system (run 2's checkpoint dir + the shared chunk dir) at crash point `n` of run 2. -/
def fsReuseAt (v : Version) (f1 : Flags) (r1 : List Bool) (f2 : Flags) (r2 : List Bool) (n : Nat) : FS :=
  fsFrom (reuseStart v f1 r1) ((traceR v f2 r2).take n)

/-- … and after run 2 has finished. -/
def fsReuseAfter (v : Version) (f1 : Flags) (r1 : List Bool) (f2 : Flags) (r2 : List Bool) : FS :=
  fsFrom (reuseStart v f1 r1) (traceR v f2 r2)

/-! ## Two-run history into the SAME folder (same `save_ckpt_path`, same `np_chunks_path`)

Run A is any fresh run; run B is any fresh run (other model type / flags / configuration) started
in the folder A left behind.  The file system before B's first write is A's final state, with
every configuration A wrote now *stale* (`age`: it is no longer "the supplied / used
configuration" of the run in progress; key and run-id bits are kept exactly).  B writes exactly
what a fresh run writes — the config files are overwritten — except that the installed Lightning
never overwrites a checkpoint of another run: when A left `best.ckpt` / `last.ckpt`
(`fA.ckpt`), B's checkpoints go to `best-v1.ckpt` / `last-v1.ckpt` (observed on the real code),
rewritten in place by B's later epochs. -/

def Content.aged : Content → Content
  | .config _ b r => .config .stale b r
  | .data => .data

/-- What an earlier run left: same files, same key / run-id bits, configurations now stale. -/
def age (fs : FS) : FS := fun p => (fs p).map Content.aged

/-- One validation epoch writing to given checkpoint paths. -/
def ckptRoundP (pb pl : Path) (v : Version) (f : Flags) (improved : Bool) : List Event :=
  if improved then
    .write pb (cfg .used (blankTrain v f) false) ::
      (if f.saveLast then [.write pl (cfg .used (blankTrain v f) false)] else [])
  else []

def fitPhaseP (pb pl : Path) (v : Version) (f : Flags) (rounds : List Bool) : List Event :=
  if f.ckpt then rounds.flatMap (ckptRoundP pb pl v f) else []

def bestPath (aLeftBest : Bool) : Path := if aLeftBest then .bestCkptV1 else .bestCkpt
def lastPath (aLeftLast : Bool) : Path := if aLeftLast then .lastCkptV1 else .lastCkpt

/-- Did a completed run A leave `best.ckpt` / `last.ckpt`? -/
def leftBest (fA : Flags) : Bool := fA.ckpt
def leftLast (fA : Flags) : Bool := fA.ckpt && fA.saveLast

/-- The trace of run B in a folder where `best.ckpt` (`aBest`) / `last.ckpt` (`aLast`) already exist. -/
def traceS (v : Version) (aBest aLast : Bool) (f : Flags) (rounds : List Bool) : List Event :=
  initPhase v f ++ resavePhase v f ++ chunkPhase f
    ++ fitPhaseP (bestPath aBest) (lastPath aLast) v f rounds ++ finallyPhase v f

/-- File system when run B starts in run A's folder. -/
def sameStart (v : Version) (fA : Flags) (rA : List Bool) : FS := age (fsAfter (traceG v fA rA))

/-- File system at crash point `n` of run B (A's leftovers mixed with what B has written so far). -/
def fsSameAt (v : Version) (fA : Flags) (rA : List Bool) (fB : Flags) (rB : List Bool) (n : Nat) : FS :=
  fsFrom (sameStart v fA rA) ((traceS v (leftBest fA) (leftLast fA) fB rB).take n)

def fsSameAfter (v : Version) (fA : Flags) (rA : List Bool) (fB : Flags) (rB : List Bool) : FS :=
  fsFrom (sameStart v fA rA) (traceS v (leftBest fA) (leftLast fA) fB rB)

/-- Run B started in the folder of a run A that **died** at its crash point `k` (`aBest`/`aLast`:
whether A had got as far as writing `best.ckpt` / `last.ckpt`), at B's crash point `n`. -/
def fsCrashedAt (v : Version) (fA : Flags) (rA : List Bool) (k : Nat) (aBest aLast : Bool)
    (fB : Flags) (rB : List Bool) (n : Nat) : FS :=
  fsFrom (age (fsAt (traceG v fA rA) k)) ((traceS v aBest aLast fB rB).take n)

/-! ## Serialisation (driver) -/

def Path.str : Path → String
  | .initialCfg => "initial_config" | .trainingCfg => "training_config" | .chunksCfg => "chunks_config"
  | .bestCkpt => "best_ckpt" | .lastCkpt => "last_ckpt"
  | .trainChunks => "train_chunks" | .valChunks => "val_chunks"
  | .bestCkptV1 => "best_ckpt_v1" | .lastCkptV1 => "last_ckpt_v1"
  | .cwdTrainChunks => "cwd_train_chunks" | .cwdValChunks => "cwd_val_chunks"

def Path.all : List Path :=
  [.initialCfg, .trainingCfg, .chunksCfg, .bestCkpt, .lastCkpt, .trainChunks, .valChunks,
   .bestCkptV1, .lastCkptV1, .cwdTrainChunks, .cwdValChunks]

def Which.str : Which → String
  | .supplied => "supplied" | .prepared => "prepared" | .used => "used" | .stale => "stale"

def bit (b : Bool) : String := if b then "1" else "0"

def Content.str : Content → String
  | .config w b r => s!"{w.str}:{bit b}:{bit r}"
  | .data => "data"

def Event.str : Event → String
  | .write p c => s!"W:{p.str}:{c.str}"
  | .delete p => s!"D:{p.str}"
  | .raise => "RAISE"

def FS.str (fs : FS) : String :=
  ",".intercalate (Path.all.filterMap fun p => (fs p).map fun c => s!"{p.str}={c.str}")

end SleapVerif.TrainTrace
