/-!
# Sampling grids (core Lean only)

`make_grid_vectors(H, W, stride)` is `arange(0, W, stride)`, `arange(0, H, stride)`:
`[0, s, 2s, …]` with `⌈size/s⌉` entries (the docstring's `size // stride` is only right when
`s ∣ size`).  A map ("tensor" of rank 2) is a list of rows; a stack of maps is a list of those.
-/
namespace SleapVerif.Grid

/-- number of grid points along an axis: `len(arange(0, size, stride))` for `stride ≥ 1` -/
def gridLen (size stride : Nat) : Nat := (size + stride - 1) / stride

/-- `arange(0, size, stride)` -/
def gridVec (size stride : Nat) : List Nat := (List.range (gridLen size stride)).map (· * stride)

/-- `xv[-1]` (0 on an empty grid, where torch raises) -/
def gridLast (size stride : Nat) : Nat := (gridLen size stride - 1) * stride

variable {R : Type}

/-- value `f x y` at every grid point, row `i` ↔ `yv[i]`, column `j` ↔ `xv[j]` -/
def tabulate {α : Type} (cast : Nat → R) (xv yv : List Nat) (f : R → R → α) : List (List α) :=
  yv.map fun gy => xv.map fun gx => f (cast gx) (cast gy)

/-- read cell `(i, j)` of a map -/
def cellAt? {α : Type} (m : List (List α)) (i j : Nat) : Option α :=
  match m[i]? with
  | some row => row[j]?
  | none => none

/-- read cell `(c, i, j)` of a stack of maps -/
def cellAt3? {α : Type} (m : List (List (List α))) (c i j : Nat) : Option α :=
  match m[c]? with
  | some ch => cellAt? ch i j
  | none => none

/-- `(rows, cols)`; cols of the first row (all rows of a tabulated map have equal length) -/
def shape2 {α : Type} (m : List (List α)) : Nat × Nat :=
  (m.length, match m with | [] => 0 | r :: _ => r.length)

end SleapVerif.Grid
