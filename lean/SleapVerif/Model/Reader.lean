/-!
# Model of the frame-reader threads and the inference loop (core Lean only)

Mirrors `sleap_nn/data/providers.py` (`VideoReader.run`, `LabelsReader.run`) and
`sleap_nn/inference/predictors.py` (`Predictor._predict_generator`) as a labelled transition
system over the shared bounded FIFO `frame_buffer`.

```python
# producer thread (VideoReader.run; LabelsReader.run is the same with range(0, len(labels)))
try:
    for idx in range(self.start_idx, self.end_idx):
        img = self.video[idx]                      # READ  idx     (may raise)
        self.frame_buffer.put({... idx, 0, size})  # PUT   idx     (blocks while the queue is full)
except Exception as e: logger.error(...)
finally:
    self.frame_buffer.put({"image": None, ...})    # PUT   sentinel (blocks while the queue is full)

# consumer (_predict_generator)
self.pipeline.start(); done = False
while not done:
    imgs = []
    for _ in range(batch_size):
        frame = self.pipeline.frame_buffer.get()   # GET   (blocks while the queue is empty)
        if frame["image"] is None: done = True; break
        imgs.append(...)
    if imgs: outputs = self.inference_model(ex) ; yield ...   # local: process the batch
self.pipeline.join()                               # JOIN  (blocks until the producer thread ended)
```

* One transition = one visible operation (READ / PUT / PUT-sentinel of the producer, GET / JOIN of
  the consumer).  `queue.Queue` makes `put`/`get` atomic, so the system is the interleaving of the
  two threads.  Everything a thread does between two visible operations touches only its own
  locals and is folded into the preceding transition (e.g. running the network on a full batch is
  part of the GET that completed the batch; exiting the `for` loop is part of the last PUT).
* `cap` is `Queue(maxsize=cap)`: Python's queue is **unbounded when `maxsize <= 0`**, so a put is
  enabled iff `cap = 0 ∨ |q| < cap`.
* `pay i` is what the reader attaches to position `i` (frame index, video index, height, width):
  for `VideoReader` `(i, 0, H, W)`, for `LabelsReader` `(lf.frame_idx, videos.index(lf.video), h, w)`
  of the `i`-th labelled frame.  It is computed at READ time and travels with the item.
* `fail = some k`: READ of position `k` raises (only the first failure matters: the loop is left).
* `taken` is a ghost history: every item the consumer ever took from the queue, in order.
-/
namespace SleapVerif.Reader

/-- what travels with a frame: `frame_idx`, `video_idx`, `orig_size = (height, width)` -/
structure Payload where
  frameIdx : Nat
  videoIdx : Nat
  height   : Nat
  width    : Nat
deriving Repr, DecidableEq, Inhabited

structure Params where
  cap   : Nat
  B     : Nat
  start : Nat
  stop  : Nat
  fail  : Option Nat
  pay   : Nat → Payload

inductive Item | frame (x : Payload) | sentinel
deriving Repr, DecidableEq

/-- producer program counter: the next visible operation of the reader thread -/
inductive PPc
  | reading (i : Nat)
  | putting (i : Nat) (x : Payload)
  | putSent
  | done
deriving Repr, DecidableEq

/-- consumer program counter -/
inductive CPc | getting | joining | finished
deriving Repr, DecidableEq

structure St where
  p     : PPc
  q     : List Item
  c     : CPc
  batch : List Payload
  out   : List (List Payload)
  taken : List Item
deriving Repr

/-- head of `for idx in range(start, stop)`: next READ, or fall through to `finally` -/
def loopPc (P : Params) (i : Nat) : PPc := if i < P.stop then .reading i else .putSent

def init (P : Params) : St := ⟨loopPc P P.start, [], .getting, [], [], []⟩

/-- `not Queue.full()`; `maxsize = 0` means unbounded -/
def canPut (P : Params) (s : St) : Prop := P.cap = 0 ∨ s.q.length < P.cap

instance (P : Params) (s : St) : Decidable (canPut P s) := by unfold canPut; infer_instance

def stepP (P : Params) (s : St) : Option St :=
  match s.p with
  | .reading i =>
      if P.fail = some i then some { s with p := .putSent }       -- raise → except → finally
      else some { s with p := .putting i (P.pay i) }
  | .putting i x =>
      if canPut P s then some { s with q := s.q ++ [.frame x], p := loopPc P (i+1) } else none
  | .putSent =>
      if canPut P s then some { s with q := s.q ++ [.sentinel], p := .done } else none
  | .done => none

def stepC (_P : Params) (s : St) : Option St :=
  match s.c with
  | .finished => none
  | .joining => if s.p = .done then some { s with c := .finished } else none
  | .getting =>
    match s.q with
    | [] => none
    | .frame x :: q' =>
        let b := s.batch ++ [x]
        if b.length = _P.B then
          some { s with q := q', batch := [], out := s.out ++ [b], taken := s.taken ++ [.frame x] }
        else some { s with q := q', batch := b, taken := s.taken ++ [.frame x] }
    | .sentinel :: q' =>
        some { s with q := q', c := .joining, batch := [], taken := s.taken ++ [.sentinel],
                      out := if s.batch = [] then s.out else s.out ++ [s.batch] }

inductive Step (P : Params) : St → St → Prop
  | prod {s s'} : stepP P s = some s' → Step P s s'
  | cons {s s'} : stepC P s = some s' → Step P s s'

inductive Reach (P : Params) : St → Prop
  | init : Reach P (init P)
  | step {s s'} : Reach P s → Step P s s' → Reach P s'

/-! ### The consumer going away (outside C13's statement, modelled to state the limit)

`_predict_generator` can stop draining the queue without reaching the marker: the network raises
inside the loop, or the caller closes / abandons the generator early.  The consumer then never
calls `get` or `join` again.  `abortC` is that event (enabled while the consumer is in its get
loop); `StepA` = the system extended with it. -/

def abortC (s : St) : St := { s with c := .finished, batch := [] }

inductive StepA (P : Params) : St → St → Prop
  | step {s s'} : Step P s s' → StepA P s s'
  | abort {s} : s.c = .getting → StepA P s (abortC s)

inductive ReachA (P : Params) : St → Prop
  | init : ReachA P (init P)
  | step {s s'} : ReachA P s → StepA P s s' → ReachA P s'

def isFinal (s : St) : Prop := s.p = .done ∧ s.c = .finished ∧ s.q = []

instance (s : St) : Decidable (isFinal s) := by unfold isFinal; infer_instance

/-! ## Specification vocabulary -/

/-- first position that is not delivered: the failing index if it lies in the range, else the end -/
def stopIdx (P : Params) : Nat :=
  match P.fail with
  | some k => if P.start ≤ k ∧ k < P.stop then k else max P.start P.stop
  | none => max P.start P.stop

def idxUpto (P : Params) (n : Nat) : List Nat := List.range' P.start (n - P.start)

def upto (P : Params) (n : Nat) : List Payload := (idxUpto P n).map P.pay

/-- what must be delivered: positions `start … stopIdx-1`, each with its own payload -/
def expected (P : Params) : List Payload := upto P (stopIdx P)

/-- frames the consumer has taken so far, in order -/
def delivered (s : St) : List Payload := s.out.flatten ++ s.batch

def framesOf : List Item → List Payload
  | [] => []
  | .frame x :: r => x :: framesOf r
  | .sentinel :: r => framesOf r

/-- termination measure: strictly decreases on every transition -/
def pcRank (P : Params) : PPc → Nat
  | .reading i => 3 * (P.stop - i) + 6
  | .putting i _ => 3 * (P.stop - i) + 5
  | .putSent => 2
  | .done => 0

def cRank : CPc → Nat
  | .getting => 1
  | .joining => 1
  | .finished => 0

def mu (P : Params) (s : St) : Nat := pcRank P s.p + s.q.length + cRank s.c

/-! ## Executable scheduler (what the driver runs)

`sched t = true` asks for the producer at step `t`, `false` for the consumer; a thread that is
blocked (or finished) cedes to the other one; the run stops when neither can move. -/

def pick (P : Params) (s : St) (wantP : Bool) : Option (Bool × St) :=
  if wantP then
    match stepP P s with
    | some s' => some (true, s')
    | none => (stepC P s).map (fun s' => (false, s'))
  else
    match stepC P s with
    | some s' => some (false, s')
    | none => (stepP P s).map (fun s' => (true, s'))

/-- `(who moved, state before)` for every step, and the last state -/
def run (P : Params) (sched : Nat → Bool) : Nat → Nat → St → List (Bool × St) × St
  | _, 0, s => ([], s)
  | t, fuel+1, s =>
    match pick P s (sched t) with
    | none => ([], s)
    | some (who, s') =>
      let r := run P sched (t+1) fuel s'
      ((who, s) :: r.1, r.2)

/-- schedule string (cyclic; empty = producer first) -/
def schedOf (l : List Bool) : Nat → Bool := fun t =>
  if h : l.length = 0 then true else l[t % l.length]'(Nat.mod_lt _ (Nat.pos_of_ne_zero h))

/-- all maximal runs from `s`, as effective schedule strings (`fuel ≥ mu` suffices) -/
def allRuns (P : Params) : Nat → St → List (List Bool)
  | 0, _ => [[]]
  | fuel+1, s =>
    let a := match stepP P s with
      | some s' => (allRuns P fuel s').map (true :: ·)
      | none => []
    let b := match stepC P s with
      | some s' => (allRuns P fuel s').map (false :: ·)
      | none => []
    if a.isEmpty && b.isEmpty then [[]] else a ++ b

end SleapVerif.Reader
