/-!
# Line protocol shared by all drivers (core Lean only)

One operation per line, whitespace-separated tokens.  Rationals travel as `n/d` (or `n`),
missing values as `nan`, floats leave the driver as their IEEE-754 bit pattern (`fb<u64>`) so
that the Python side can rebuild them exactly.  Lists are sent as `<len> x1 … xlen`.
-/
namespace SleapVerif.Proto

def tokens (s : String) : List String :=
  ((s.replace "\n" " ").replace "\r" " " |>.replace "\t" " " |>.splitOn " ").filter (· ≠ "")

def parseInt? (s : String) : Option Int := s.toInt?
def parseNat? (s : String) : Option Nat := s.toNat?

/-- `n/d` or `n` -/
def parseRat? (s : String) : Option Rat :=
  match s.splitOn "/" with
  | [n] => (n.toInt?).map (fun i => (i : Rat))
  | [n, d] => do
      let i ← n.toInt?
      let k ← d.toNat?
      if k = 0 then none else some (mkRat i k)
  | _ => none

/-- `nan` ↦ missing -/
def parseORat? (s : String) : Option (Option Rat) :=
  if s = "nan" then some none else (parseRat? s).map some

def ratStr (q : Rat) : String :=
  if q.den = 1 then toString q.num else s!"{q.num}/{q.den}"

def oratStr : Option Rat → String
  | none => "nan"
  | some q => ratStr q

def ratToFloat (q : Rat) : Float := Float.ofInt q.num / Float.ofNat q.den

/-- exact float transport: the bit pattern -/
def floatStr (f : Float) : String := s!"fb{f.toBits.toNat}"

def natsStr (l : List Nat) : String := " ".intercalate (l.map toString)
def intsStr (l : List Int) : String := " ".intercalate (l.map toString)
def ratsStr (l : List Rat) : String := " ".intercalate (l.map ratStr)
def oratsStr (l : List (Option Rat)) : String := " ".intercalate (l.map oratStr)

/-- A tiny parser monad over the token list. -/
abbrev P := StateT (List String) Option

def tok : P String := do
  match (← get) with
  | [] => failure
  | t :: ts => set ts; pure t

def nat : P Nat := do let t ← tok; match parseNat? t with | some n => pure n | none => failure
def int : P Int := do let t ← tok; match parseInt? t with | some n => pure n | none => failure
def rat : P Rat := do let t ← tok; match parseRat? t with | some n => pure n | none => failure
def orat : P (Option Rat) := do
  let t ← tok; match parseORat? t with | some n => pure n | none => failure
def bool : P Bool := do
  let t ← tok
  if t = "1" ∨ t = "true" ∨ t = "True" then pure true
  else if t = "0" ∨ t = "false" ∨ t = "False" then pure false else failure

def rep {α} (n : Nat) (p : P α) : P (List α) :=
  match n with
  | 0 => pure []
  | k+1 => do let x ← p; let xs ← rep k p; pure (x :: xs)

/-- `<len> x1 … xlen` -/
def listOf {α} (p : P α) : P (List α) := do let n ← nat; rep n p

def eoi : P Unit := do match (← get) with | [] => pure () | _ => failure

def runP {α} (p : P α) (ts : List String) : Option α :=
  match (do let x ← p; eoi; pure x : P α).run ts with
  | some (x, _) => some x
  | none => none

/-- Generic read-eval-print loop: `step state line = (state', output line)`. -/
partial def loop {σ} (h : IO.FS.Stream) (out : IO.FS.Stream) (step : σ → String → σ × String) (s : σ) :
    IO Unit := do
  let line ← h.getLine
  if line.isEmpty then
    out.flush
    return ()
  let (s', o) := step s line
  out.putStrLn o
  loop h out step s'

def mainLoop {σ} (step : σ → String → σ × String) (init : σ) : IO Unit := do
  loop (← IO.getStdin) (← IO.getStdout) step init

/-- stateless variant -/
def mainLoop' (f : String → String) : IO Unit :=
  mainLoop (σ := Unit) (fun _ l => ((), f l)) ()

end SleapVerif.Proto
