import SleapVerif.Model.TrainTrace
/-!
# Helper lemmas for C19 (file system after a prefix of a write trace)
-/
namespace SleapVerif.TrainTrace

/-- Case analysis over the whole (finite) flag grid — 4 × 2 × 2 × 2 × 2 × 2 × 2 = 256 configurations —
each case closed by kernel evaluation (`decide`). -/
macro "flag_cases " f:ident : tactic =>
  `(tactic| (rcases $f:ident with ⟨m, fw, w, c, s, d, l⟩
             cases m <;> cases fw <;> cases w <;> cases c <;> cases s <;> cases d <;> cases l <;> decide))

/-- every file in `fs` has a blank key -/
def FS.Blank (fs : FS) : Prop := ∀ p c, fs p = some c → c.keyBlank = true

theorem FS.blank_empty : FS.Blank FS.empty := by
  intro p c h; simp [FS.empty] at h

theorem step_blank {fs : FS} {e : Event} (hfs : fs.Blank) (he : e.blank = true) : (step fs e).Blank := by
  intro p c h
  cases e with
  | write q c' =>
    simp only [step] at h
    split at h
    · cases h; simpa [Event.blank] using he
    · exact hfs p c h
  | delete q =>
    simp only [step] at h
    split at h
    · cases h
    · exact hfs p c h
  | raise => exact hfs p c h

theorem fsFrom_blank : ∀ (l : List Event) (fs : FS), fs.Blank → (∀ e ∈ l, e.blank = true) → (fsFrom fs l).Blank
  | [], fs, hfs, _ => hfs
  | e :: l, fs, hfs, h => by
    simp only [fsFrom, List.foldl_cons]
    exact fsFrom_blank l (step fs e) (step_blank hfs (h e (List.mem_cons_self ..)))
      (fun e' he' => h e' (List.mem_cons_of_mem _ he'))

theorem fsFrom_append (fs : FS) (l₁ l₂ : List Event) :
    fsFrom fs (l₁ ++ l₂) = fsFrom (fsFrom fs l₁) l₂ := by
  simp [fsFrom, List.foldl_append]

/-- the event neither writes nor deletes path `p` -/
def Event.touches (e : Event) (p : Path) : Bool :=
  match e with
  | .write q _ => q == p
  | .delete q => q == p
  | .raise => false

theorem step_untouched {fs : FS} {e : Event} {p : Path} (h : e.touches p = false) : step fs e p = fs p := by
  cases e with
  | write q c =>
    have : ¬ p = q := by intro hq; subst hq; simp [Event.touches] at h
    simp [step, this]
  | delete q =>
    have : ¬ p = q := by intro hq; subst hq; simp [Event.touches] at h
    simp [step, this]
  | raise => rfl

theorem fsFrom_untouched : ∀ (l : List Event) (fs : FS) (p : Path),
    (∀ e ∈ l, e.touches p = false) → fsFrom fs l p = fs p
  | [], _, _, _ => rfl
  | e :: l, fs, p, h => by
    simp only [fsFrom, List.foldl_cons]
    have := fsFrom_untouched l (step fs e) p (fun e' he' => h e' (List.mem_cons_of_mem _ he'))
    simp only [fsFrom] at this
    rw [this, step_untouched (h e (List.mem_cons_self ..))]

/-- Rewriting a file with the content it already has does not change the file system. -/
theorem step_write_same {fs : FS} {p : Path} {c : Content} (h : fs p = some c) :
    step fs (.write p c) = fs := by
  funext q
  simp only [step]
  split
  · next hq => subst hq; exact h.symm
  · rfl

/-- Further validation epochs only rewrite the checkpoint files with the same abstract content
(any pair of checkpoint paths; `last` only exists when `save_last`). -/
theorem fsFrom_more_roundsP (pb pl : Path) (v : Version) (f : Flags) : ∀ (rs : List Bool) (fs : FS),
    fs pb = some (cfg .used (blankTrain v f) false) →
    (f.saveLast = true → fs pl = some (cfg .used (blankTrain v f) false)) →
    fsFrom fs (rs.flatMap (ckptRoundP pb pl v f)) = fs
  | [], _, _, _ => rfl
  | r :: rs, fs, hb, hl => by
    rw [List.flatMap_cons, fsFrom_append]
    have h1 : fsFrom fs (ckptRoundP pb pl v f r) = fs := by
      cases r
      · simp [ckptRoundP, fsFrom]
      · cases hsl : f.saveLast
        · simp [ckptRoundP, fsFrom, hsl, step_write_same hb]
        · simp [ckptRoundP, fsFrom, hsl, step_write_same hb, step_write_same (hl hsl)]
    rw [h1]
    exact fsFrom_more_roundsP pb pl v f rs fs hb hl

/-- Further validation epochs do not change the file system, from any starting state. -/
theorem fsFrom_fit_any_epochsP (pb pl : Path) (hne : pb ≠ pl) (v : Version) (f : Flags) (rs : List Bool)
    (fs : FS) :
    fsFrom fs (fitPhaseP pb pl v f (true :: rs)) = fsFrom fs (fitPhaseP pb pl v f [true]) := by
  unfold fitPhaseP
  split
  · rw [List.flatMap_cons, fsFrom_append]
    have hb : fsFrom fs (ckptRoundP pb pl v f true) pb = some (cfg .used (blankTrain v f) false) := by
      cases hsl : f.saveLast <;> simp [ckptRoundP, fsFrom, step, hsl, hne]
    have hl : f.saveLast = true →
        fsFrom fs (ckptRoundP pb pl v f true) pl = some (cfg .used (blankTrain v f) false) := by
      intro hsl; simp [ckptRoundP, fsFrom, step, hsl]
    rw [fsFrom_more_roundsP pb pl v f rs _ hb hl]
    simp
  · rfl

theorem fsFrom_fit_any_epochs (v : Version) (f : Flags) (rs : List Bool) (fs : FS) :
    fsFrom fs (fitPhase v f (true :: rs)) = fsFrom fs (fitPhase v f [true]) :=
  fsFrom_fit_any_epochsP .bestCkpt .lastCkpt (by decide) v f rs fs

/-- The file system at exit does not depend on the number of epochs (first epoch improves). -/
theorem fsAfter_any_epochs (v : Version) (f : Flags) (rs : List Bool) :
    fsAfter (traceG v f (true :: rs)) = fsAfter (traceG v f [true]) := by
  unfold fsAfter traceG
  simp only [fsFrom_append]
  rw [fsFrom_fit_any_epochs]

/-- A predicate holds for every event of a trace if it holds phase by phase (any number of epochs). -/
theorem forall_mem_traceG {P : Event → Prop} (v : Version) (f : Flags) (rounds : List Bool)
    (h1 : ∀ e ∈ initPhase v f, P e) (h2 : ∀ e ∈ resavePhase v f, P e) (h3 : ∀ e ∈ chunkPhase f, P e)
    (h4 : ∀ b, ∀ e ∈ ckptRound v f b, P e) (h5 : ∀ e ∈ finallyPhase v f, P e) :
    ∀ e ∈ traceG v f rounds, P e := by
  intro e he
  simp only [traceG, List.mem_append] at he
  rcases he with (((h | h) | h) | h) | h
  · exact h1 e h
  · exact h2 e h
  · exact h3 e h
  · unfold fitPhase at h
    split at h
    · obtain ⟨b, _, hb⟩ := List.mem_flatMap.mp h
      exact h4 b e hb
    · cases h
  · exact h5 e h

/-- Same, for everything after the first write. -/
theorem forall_mem_traceG_tail {P : Event → Prop} (v : Version) (f : Flags) (rounds : List Bool)
    (h1 : ∀ e ∈ (initPhase v f).tail, P e) (h2 : ∀ e ∈ resavePhase v f, P e) (h3 : ∀ e ∈ chunkPhase f, P e)
    (h4 : ∀ b, ∀ e ∈ ckptRound v f b, P e) (h5 : ∀ e ∈ finallyPhase v f, P e) :
    ∀ e ∈ (traceG v f rounds).tail, P e := by
  intro e he
  have : (traceG v f rounds).tail = (initPhase v f).tail ++ resavePhase v f ++ chunkPhase f
      ++ fitPhase v f rounds ++ finallyPhase v f := by
    simp [traceG, initPhase]
  rw [this] at he
  simp only [List.mem_append] at he
  rcases he with (((h | h) | h) | h) | h
  · exact h1 e h
  · exact h2 e h
  · exact h3 e h
  · unfold fitPhase at h
    split at h
    · obtain ⟨b, _, hb⟩ := List.mem_flatMap.mp h
      exact h4 b e hb
    · cases h
  · exact h5 e h

/-- A file written by the first event and never touched again holds that content at every later
crash point. -/
theorem fsAt_head_untouched (p : Path) (c : Content) (rest : List Event)
    (h : ∀ e ∈ rest, e.touches p = false) (n : Nat) (hn : 1 ≤ n) :
    fsAt (.write p c :: rest) n p = some c := by
  obtain ⟨k, rfl⟩ : ∃ k, n = k + 1 := ⟨n - 1, by omega⟩
  simp only [fsAt, List.take_succ_cons, fsAfter, fsFrom, List.foldl_cons]
  have hu := fsFrom_untouched (rest.take k) (step FS.empty (.write p c)) p
    (fun e he => h e (List.mem_of_mem_take he))
  simp only [fsFrom] at hu
  rw [hu]
  simp [step]

/-! ## Two-run history (`use_existing_chunks`) -/

theorem fsFrom_traceR_any_epochs (f : Flags) (rs : List Bool) (fs : FS) :
    fsFrom fs (traceR .repaired f (true :: rs)) = fsFrom fs (traceR .repaired f [true]) := by
  unfold traceR
  simp only [reuseRaises, Bool.false_eq_true, ↓reduceIte, fsFrom_append]
  rw [fsFrom_fit_any_epochs]

theorem forall_mem_traceR {P : Event → Prop} (v : Version) (f : Flags) (rounds : List Bool)
    (h1 : ∀ e ∈ initPhaseR v, P e) (h2 : ∀ e ∈ resavePhase v f, P e)
    (h3 : reuseRaises v f = true → P .raise)
    (h4 : ∀ b, ∀ e ∈ ckptRound v f b, P e) (h5 : ∀ e ∈ finallyPhase v f, P e) :
    ∀ e ∈ traceR v f rounds, P e := by
  intro e he
  simp only [traceR, List.mem_append] at he
  rcases he with (h | h) | h
  · exact h1 e h
  · exact h2 e h
  · split at h
    · next hr => rcases List.mem_singleton.mp h with rfl; exact h3 hr
    · rcases List.mem_append.mp h with h | h
      · unfold fitPhase at h
        split at h
        · obtain ⟨b, _, hb⟩ := List.mem_flatMap.mp h
          exact h4 b e hb
        · cases h
      · exact h5 e h

theorem all_blank_traceG (f : Flags) (rounds : List Bool) :
    ∀ e ∈ traceG .repaired f rounds, e.blank = true := by
  refine forall_mem_traceG _ f rounds ?_ ?_ ?_ ?_ ?_
  · flag_cases f
  · flag_cases f
  · flag_cases f
  · intro b; cases b <;> flag_cases f
  · flag_cases f

theorem all_blank_traceR (f : Flags) (rounds : List Bool) :
    ∀ e ∈ traceR .repaired f rounds, e.blank = true := by
  refine forall_mem_traceR _ f rounds ?_ ?_ ?_ ?_ ?_
  · decide
  · flag_cases f
  · intro h; simp [reuseRaises] at h
  · intro b; cases b <;> flag_cases f
  · flag_cases f

theorem carry_blank {fs : FS} (h : fs.Blank) : (carry fs).Blank := by
  intro p c hc
  cases p <;> simp [carry] at hc <;> exact h _ c hc

/-- What a (repaired) run 1 leaves in the shared chunk directory. -/
def chunksLeft : FS := fun p =>
  match p with
  | .chunksCfg => some (cfg .prepared true false)
  | .trainChunks | .valChunks => some .data
  | _ => none

theorem reuseStart_repaired (f1 : Flags) (rs : List Bool) :
    reuseStart .repaired f1 (true :: rs) = chunksLeft := by
  unfold reuseStart
  rw [fsAfter_any_epochs]
  funext p
  rcases f1 with ⟨m, fw, w, c, s, d, l⟩
  cases m <;> cases fw <;> cases w <;> cases c <;> cases s <;> cases d <;> cases l <;> cases p <;> decide

/-! ## Two-run history into the same folder -/

theorem age_blank {fs : FS} (h : fs.Blank) : (age fs).Blank := by
  intro p c hc
  simp only [age, Option.map_eq_some_iff] at hc
  obtain ⟨c0, h0, rfl⟩ := hc
  have := h p c0 h0
  cases c0 <;> simp_all [Content.aged, Content.keyBlank]

theorem bestPath_ne_lastPath (a b : Bool) : bestPath a ≠ lastPath b := by
  cases a <;> cases b <;> decide

theorem fsFrom_traceS_any_epochs (v : Version) (a b : Bool) (f : Flags) (rs : List Bool) (fs : FS) :
    fsFrom fs (traceS v a b f (true :: rs)) = fsFrom fs (traceS v a b f [true]) := by
  unfold traceS
  simp only [fsFrom_append]
  rw [fsFrom_fit_any_epochsP _ _ (bestPath_ne_lastPath a b)]

theorem forall_mem_traceS {P : Event → Prop} (v : Version) (a b : Bool) (f : Flags) (rounds : List Bool)
    (h1 : ∀ e ∈ initPhase v f, P e) (h2 : ∀ e ∈ resavePhase v f, P e) (h3 : ∀ e ∈ chunkPhase f, P e)
    (h4 : ∀ r, ∀ e ∈ ckptRoundP (bestPath a) (lastPath b) v f r, P e) (h5 : ∀ e ∈ finallyPhase v f, P e) :
    ∀ e ∈ traceS v a b f rounds, P e := by
  intro e he
  simp only [traceS, List.mem_append] at he
  rcases he with (((h | h) | h) | h) | h
  · exact h1 e h
  · exact h2 e h
  · exact h3 e h
  · unfold fitPhaseP at h
    split at h
    · obtain ⟨r, _, hr⟩ := List.mem_flatMap.mp h
      exact h4 r e hr
    · cases h
  · exact h5 e h

theorem all_blank_traceS (a b : Bool) (f : Flags) (rounds : List Bool) :
    ∀ e ∈ traceS .repaired a b f rounds, e.blank = true := by
  refine forall_mem_traceS _ a b f rounds ?_ ?_ ?_ ?_ ?_
  · flag_cases f
  · flag_cases f
  · flag_cases f
  · intro r; cases a <;> cases b <;> cases r <;> flag_cases f
  · flag_cases f

/-- The file system a completed (repaired) fresh run leaves; it depends on five flags only. -/
def exitFS (fw : Framework) (wandb ckpt del sl : Bool) : FS := fun p =>
  match p with
  | .initialCfg => some (cfg .supplied true false)
  | .trainingCfg => some (cfg .used true wandb)
  | .bestCkpt => if ckpt then some (cfg .used true false) else none
  | .lastCkpt => if ckpt ∧ sl then some (cfg .used true false) else none
  | .chunksCfg => if fw = .npChunks then some (cfg .prepared true false) else none
  | .trainChunks | .valChunks => if fw = .npChunks ∧ ¬ del then some .data else none
  | .bestCkptV1 | .lastCkptV1 | .cwdTrainChunks | .cwdValChunks => none

theorem fsAfter_repaired_eq (f : Flags) (rs : List Bool) :
    fsAfter (traceG .repaired f (true :: rs)) = exitFS f.fw f.wandb f.ckpt f.deleteChunks f.saveLast := by
  rw [fsAfter_any_epochs]
  funext p
  rcases f with ⟨m, fw, w, c, s, d, l⟩
  cases m <;> cases fw <;> cases w <;> cases c <;> cases s <;> cases d <;> cases l <;> cases p <;> decide

/-- The repaired trace of run B depends on B's model type / structured flag not at all. -/
def canonB (fw : Framework) (w c d l : Bool) : Flags := ⟨.centroid, fw, w, c, false, d, l⟩

theorem traceS_canon (a b : Bool) (fB : Flags) (r : List Bool) :
    traceS .repaired a b fB r
      = traceS .repaired a b (canonB fB.fw fB.wandb fB.ckpt fB.deleteChunks fB.saveLast) r := by
  rcases fB with ⟨m, fw, w, c, s, d, l⟩
  rfl

/-- Exit state of run B started on top of a completed run A (A, B given by their relevant flags). -/
def SameFolderExit (fwA : Framework) (wA cA dA lA : Bool) (fwB : Framework) (wB cB dB lB : Bool) : Prop :=
    let fs := fsFrom (age (exitFS fwA wA cA dA lA))
      (traceS .repaired cA (cA && lA) (canonB fwB wB cB dB lB) [true])
    fs .initialCfg = some (cfg .supplied true false) ∧
    fs .trainingCfg = some (cfg .used true wB) ∧
    fs (bestPath cA) = (if cB then some (cfg .used true false) else none) ∧
    fs (lastPath (cA && lA)) = (if cB ∧ lB then some (cfg .used true false) else none) ∧
    (cA = true → fs .bestCkpt = some (cfg .stale true false)) ∧
    (cA = true → lA = true → fs .lastCkpt = some (cfg .stale true false)) ∧
    fs .chunksCfg = (if fwB = .npChunks then some (cfg .prepared true false)
                     else if fwA = .npChunks then some (cfg .stale true false) else none) ∧
    fs .trainChunks = (if fwB = .npChunks then (if dB then none else some .data)
                       else if fwA = .npChunks ∧ ¬ dA then some .data else none) ∧
    fs .valChunks = (if fwB = .npChunks then (if dB then none else some .data)
                     else if fwA = .npChunks ∧ ¬ dA then some .data else none)

/-! A finite table (32 × 32 cases), each by kernel evaluation; split in four to keep each lemma short. -/
set_option hygiene false in
macro "same_folder_table" : tactic =>
  `(tactic| (unfold SameFolderExit
             cases wA <;> cases dA <;> cases lA <;> cases fwB <;> cases wB <;> cases cB <;> cases dB
               <;> cases lB <;> decide))

theorem same_folder_exit_tf (wA dA lA : Bool) (fwB : Framework) (wB cB dB lB : Bool) :
    SameFolderExit .torchDataset wA false dA lA fwB wB cB dB lB := by same_folder_table
theorem same_folder_exit_tt (wA dA lA : Bool) (fwB : Framework) (wB cB dB lB : Bool) :
    SameFolderExit .torchDataset wA true dA lA fwB wB cB dB lB := by same_folder_table
theorem same_folder_exit_nf (wA dA lA : Bool) (fwB : Framework) (wB cB dB lB : Bool) :
    SameFolderExit .npChunks wA false dA lA fwB wB cB dB lB := by same_folder_table
theorem same_folder_exit_nt (wA dA lA : Bool) (fwB : Framework) (wB cB dB lB : Bool) :
    SameFolderExit .npChunks wA true dA lA fwB wB cB dB lB := by same_folder_table

theorem same_folder_exit (fwA : Framework) (wA cA dA lA : Bool) (fwB : Framework) (wB cB dB lB : Bool) :
    SameFolderExit fwA wA cA dA lA fwB wB cB dB lB := by
  cases fwA <;> cases cA
  · exact same_folder_exit_tf wA dA lA fwB wB cB dB lB
  · exact same_folder_exit_tt wA dA lA fwB wB cB dB lB
  · exact same_folder_exit_nf wA dA lA fwB wB cB dB lB
  · exact same_folder_exit_nt wA dA lA fwB wB cB dB lB

/-! ## Key as a parameter -/

theorem shape_of_blank {e : Event} (h : e.blank = true) : e.shape = e := by
  cases e with
  | write p c =>
    cases c with
    | config w b r => simp only [Event.blank, Content.keyBlank] at h; subst h; rfl
    | data => rfl
  | delete p => rfl
  | raise => rfl

theorem map_shape_of_all_blank : ∀ (l : List Event), (∀ e ∈ l, e.blank = true) → l.map Event.shape = l
  | [], _ => rfl
  | e :: l, h => by
    rw [List.map_cons, shape_of_blank (h e (List.mem_cons_self ..)),
      map_shape_of_all_blank l (fun e' he' => h e' (List.mem_cons_of_mem _ he'))]

theorem withKey_present (l : List Event) : l.map (Event.withKey .present) = l := by
  induction l with
  | nil => rfl
  | cons e l ih => simp [Event.withKey, ih]

/-! ## Low-memory fallback -/

theorem forall_mem_traceLM {P : Event → Prop} (v : Version) (f : Flags) (rounds : List Bool)
    (h0 : ∀ e ∈ traceG v f rounds, P e)
    (h1 : ∀ e ∈ initPhase v f, P e) (h2 : ∀ e ∈ resavePhase v f, P e) (h3 : ∀ e ∈ chunkPhaseLM, P e)
    (h4 : ∀ b, ∀ e ∈ ckptRound v f b, P e) (h5 : ∀ e ∈ finallyPhaseLM v f, P e) :
    ∀ e ∈ traceLM v f rounds, P e := by
  intro e he
  unfold traceLM at he
  split at he
  · exact h0 e he
  · simp only [List.mem_append] at he
    rcases he with (((h | h) | h) | h) | h
    · exact h1 e h
    · exact h2 e h
    · exact h3 e h
    · unfold fitPhase at h
      split at h
      · obtain ⟨b, _, hb⟩ := List.mem_flatMap.mp h
        exact h4 b e hb
      · cases h
    · exact h5 e h

theorem fsAfter_traceLM_any_epochs (v : Version) (f : Flags) (rs : List Bool) :
    fsAfter (traceLM v f (true :: rs)) = fsAfter (traceLM v f [true]) := by
  unfold traceLM
  split
  · exact fsAfter_any_epochs v f rs
  · unfold fsAfter
    simp only [fsFrom_append]
    rw [fsFrom_fit_any_epochs]

/-! ## Aborted runs -/

theorem step_congr_at {fs1 fs2 : FS} {p : Path} (h : fs1 p = fs2 p) (e : Event) :
    step fs1 e p = step fs2 e p := by
  cases e with
  | write q c => simp only [step]; split <;> simp_all
  | delete q => simp only [step]; split <;> simp_all
  | raise => exact h

/-- The content of a path after a trace depends only on its content before. -/
theorem fsFrom_congr_at : ∀ (l : List Event) {fs1 fs2 : FS} {p : Path}, fs1 p = fs2 p →
    fsFrom fs1 l p = fsFrom fs2 l p
  | [], _, _, _, h => h
  | e :: l, _, _, _, h => by
    simp only [fsFrom, List.foldl_cons]
    exact fsFrom_congr_at l (step_congr_at h e)

/-- The checkpoint writes of `fit` touch nothing but `best.ckpt` / `last.ckpt`. -/
theorem fsFrom_fit_untouched (v : Version) (f : Flags) (rounds : List Bool) (fs : FS) (p : Path)
    (hb : p ≠ .bestCkpt) (hl : p ≠ .lastCkpt) : fsFrom fs (fitPhase v f rounds) p = fs p := by
  apply fsFrom_untouched
  intro e he
  unfold fitPhase at he
  split at he
  · obtain ⟨r, _, hr⟩ := List.mem_flatMap.mp he
    cases r
    · simp [ckptRound] at hr
    · simp only [ckptRound, ↓reduceIte, List.mem_cons] at hr
      rcases hr with rfl | hr
      · simp [Event.touches, Ne.symm hb]
      · split at hr
        · rcases List.mem_singleton.mp hr with rfl
          simp [Event.touches, Ne.symm hl]
        · cases hr
  · cases he

/-- Outside the checkpoint files, an aborted run leaves what a run with no validation epoch leaves. -/
theorem fsAfter_abort_at (v : Version) (f : Flags) (rounds : List Bool) (p : Path)
    (hb : p ≠ .bestCkpt) (hl : p ≠ .lastCkpt) :
    fsAfter (traceAbort v f rounds) p = fsAfter (traceG v f []) p := by
  unfold fsAfter traceAbort traceG
  simp only [fsFrom_append]
  have hr : ∀ fs : FS, fsFrom fs [Event.raise] = fs := fun _ => rfl
  rw [hr]
  apply fsFrom_congr_at
  rw [fsFrom_fit_untouched v f rounds _ p hb hl, fsFrom_fit_untouched v f [] _ p hb hl]

end SleapVerif.TrainTrace
