import SleapVerif.Lemmas.GroupingFixOpt
/-!
# C03's own copy of the pipeline theorems it composes (decoupling)

`Props/C03` must not break when `Props/C08.lean` / `Props/C17.lean` are mid-edit.  This file depends
only on the *lemma* files of C08 / C17 (`Lemmas/Grouping*.lean`, `Lemmas/Toposort.lean`) and restates,
with the proofs of `Props/C08.lean` / `Props/C17.lean` (thin wrappers over those lemmas), exactly the
theorems the C03 composition uses: `toposort_perm`, `tree_conns`, `assign_classes_eq_components`,
`matches_one_to_one`, `min_score_filtered`, `assign_eq_filterSmall`, `instance_one_peak_per_node`,
`peaks_disjoint`, `instance_peaks_are_inputs`, `instance_score_sum`, `grouping_total`,
`grouping_total_partial`, `matches_fixed_eq_asIs_when_valid`.  Same statements, namespace
`SleapVerif.BottomUp.Deps`.
-/

set_option linter.unusedSectionVars false

namespace SleapVerif.BottomUp.Deps
open SleapVerif.Grouping SleapVerif.Toposort

/-- C17 `toposort_perm` -/
theorem toposort_perm {edges : List Edge} {r : Nat} (A : Arbo edges r) (hne : edges ≠ []) :
    ∃ l, toposort edges = some l ∧ l.Perm (List.range edges.length) := by
  refine ⟨(bfsOut edges r).map (fun e => edges.idxOf e), ?_, ?_⟩
  · simp [toposort, arbo_rootOf A hne]
  · have := (arbo_out_perm A).map (fun e => edges.idxOf e)
    rwa [map_idxOf_self edges A.nodup] at this

/-- C08 `matches_fixed_eq_asIs_when_valid` -/
theorem matches_fixed_eq_asIs_when_valid {K : Type} [Field K] [LinearOrder K] [IsStrictOrderedRing K]
    {lsa : Lsa K} {C : Mat (Option K)} (hv : AllValid C)
    (S : LsaSpecOn lsa C) : matchEdgeFixed lsa C = matchEdgeAsIs lsa C :=
  matchEdgeFixed_eq_asIs_of_allValid hv S

variable {R : Type}

/-- `get_connection_candidates` lists exactly all (src peak, dst peak) pairs of every edge type
    (`s`, `d` index the detected peaks, `ch` holds their node types). -/
theorem candidates_complete {ch : List Nat} {edges : List Edge} {k s d : Nat} :
    (k, s, d) ∈ candidates ch edges ↔
      ∃ e, edges[k]? = some e ∧ ch[s]? = some e.1 ∧ ch[d]? = some e.2 := mem_candidates

/-! ## the assignment loop on any destination-fresh connection list -/

/-- When a connection is processed its destination peak is never assigned yet: only cases 1 and 2
    of `assign_connections_to_instances` fire; the un-handled "src unassigned, dst assigned" case
    and case 3 (with its odd non-merging branch) are unreachable. -/
theorem assign_only_cases_1_2 {cs pre post : List (Peak × Peak)} {c : Peak × Peak}
    (h : DstFresh cs) (hs : cs = pre ++ c :: post) :
    lookup (assignRaw pre) c.2 = none ∧
    (caseOf (assignRaw pre) c.1 c.2 = .c1 ∨ caseOf (assignRaw pre) c.1 c.2 = .c2) ∧
    assignRaw (pre ++ [c]) = astep (assignRaw pre) c.1 c.2 := by
  subst hs
  have I := finv_assignRaw h.prefix
  have hd := (finv_step I h.fresh.1 h.fresh.2).1
  refine ⟨hd, ?_, by simp [assignRaw_append]⟩
  unfold caseOf
  cases lookup (assignRaw pre) c.1 <;> simp [hd]

/-- **The instance map's classes are the connected components of the accepted matches**
    (before the `min_instance_peaks` filter): exactly the endpoints of accepted connections are
    assigned, and two peaks get the same instance id iff a chain of accepted connections joins them. -/
theorem assign_classes_eq_components {cs : List (Peak × Peak)} (h : DstFresh cs) :
    (∀ p, (lookup (assignRaw cs) p).isSome ↔ p ∈ endpoints cs) ∧
    (∀ p q i j, lookup (assignRaw cs) p = some i → lookup (assignRaw cs) q = some j →
      (i = j ↔ Connected cs p q)) := by
  have I := finv_assignRaw h
  exact ⟨fun p => ⟨I.keys p, I.cover p⟩, I.cls⟩

/-! ## the pipeline on a tree skeleton -/

section pipeline
variable [Add R] [Neg R] [LT R] [DecidableLT R] [LE R] [DecidableLE R] [OfNat R 0] [OfNat R 1]
variable {fixed : Bool} {lsa : Lsa R} {P : Params R} {r : Nat} {ch : List Nat}
  {scores : List (Mat (Option R))} {out : Output R}

/-- The connection list the assignment loop sees has tree shape (`TreeConns`): the node type of
    every destination peak is new, or was a destination only on the same edge type with another
    source and another destination peak.  In particular it is `DstFresh`. -/
theorem tree_conns (A : Arbo P.edges r) (ho : toposort P.edges = some P.order)
    (S : LsaOK fixed lsa P ch scores) (h : groupSample fixed lsa P ch scores = .ok out) :
    TreeConns (pairs out.conns) ∧ DstFresh (pairs out.conns) :=
  ⟨treeConns_out A ho S h, (treeConns_out A ho S h).dstFresh⟩

/-- Per edge type the matches are one-to-one, index existing rows/columns of the cost matrix,
    use only candidates with a valid score, and carry that candidate's score. -/
theorem matches_one_to_one (S : LsaOK fixed lsa P ch scores)
    (h : groupSample fixed lsa P ch scores = .ok out) {k : Nat} {e : Edge}
    (he : P.edges[k]? = some e) : GoodMatches (edgeCost ch scores k e) (out.mts.getD k []) :=
  mts_good S (groupSample_ok h).1 he

/-- The accepted connections are exactly the matches with `score ≥ min_line_scores`
    (matches scoring below the minimum are not used, all others are). -/
theorem min_score_filtered (A : Arbo P.edges r) (ho : toposort P.edges = some P.order)
    (S : LsaOK fixed lsa P ch scores) (h : groupSample fixed lsa P ch scores = .ok out) (c : Conn R) :
    c ∈ out.conns ↔ ∃ k e m, P.edges[k]? = some e ∧ m ∈ out.mts.getD k [] ∧
      m.score = some c.score ∧ P.minLine ≤ c.score ∧ c.src = (e.1, m.row) ∧ c.dst = (e.2, m.col) := by
  constructor
  · intro hc
    obtain ⟨k, e, m, _, he, hm, hs, hle, h1, h2, _, _⟩ := conn_facts S h hc
    exact ⟨k, e, m, he, hm, hs, hle, h1, h2⟩
  · rintro ⟨k, e, m, he, hm, hs, hle, h1, h2⟩
    obtain ⟨_, hcs, _, _⟩ := groupSample_ok h
    have hk := mem_order_of_edge A ho he
    have hm' : m ∈ (out.mts.map (filterMinScore P.minLine)).getD k [] := by
      rw [getD_filtered]; exact mem_filterMinScore.mpr ⟨hm, c.score, hs, hle⟩
    have := connections_mem (edges := P.edges) hk he hm' hs
    rw [hcs]
    have hc : c = ⟨(e.1, m.row), (e.2, m.col), c.score⟩ := by
      cases c; simp only at h1 h2; simp [h1, h2]
    rw [hc]; exact this

/-- the state of the assignment loop before the `min_instance_peaks` filter -/
def rawAssign (out : Output R) : Assign := assignRaw (pairs out.conns)

theorem assign_eq_filterSmall (h : groupSample fixed lsa P ch scores = .ok out) :
    out.assign = filterSmall (rawAssign out) (minPeaksThreshold P.minPeaks P.nNodes) :=
  (groupSample_ok h).2.2.1

/-- Instances with fewer peaks than the configured minimum are dropped whole, all others are
    kept whole: whether a peak survives depends only on its instance. -/
theorem small_instances_dropped_whole (A : Arbo P.edges r) (ho : toposort P.edges = some P.order)
    (S : LsaOK fixed lsa P ch scores) (h : groupSample fixed lsa P ch scores = .ok out)
    {p : Peak} {i : Nat} (hp : lookup (rawAssign out) p = some i) :
    (Kept (rawAssign out) (minPeaksThreshold P.minPeaks P.nNodes) i → lookup out.assign p = some i) ∧
    (¬ Kept (rawAssign out) (minPeaksThreshold P.minPeaks P.nNodes) i → lookup out.assign p = none) := by
  have I := finv_assignRaw (tree_conns A ho S h).2
  rw [assign_eq_filterSmall h]
  refine ⟨fun hk => (lookup_filterSmall I.nodupKeys _ p i).mpr ⟨hp, hk⟩, ?_⟩
  intro hk
  cases hl : lookup (filterSmall (rawAssign out) (minPeaksThreshold P.minPeaks P.nNodes)) p with
  | none => rfl
  | some j =>
    obtain ⟨h1, h2⟩ := (lookup_filterSmall I.nodupKeys _ p j).mp hl
    have : some i = some j := hp.symm.trans h1
    cases this; exact absurd h2 hk

/-- **The final instances are connected components of the accepted matches**: two peaks of the
    final instance map share an instance iff accepted connections join them. -/
theorem final_classes_eq_components (A : Arbo P.edges r) (ho : toposort P.edges = some P.order)
    (S : LsaOK fixed lsa P ch scores) (h : groupSample fixed lsa P ch scores = .ok out)
    {p q : Peak} {i j : Nat} (hp : lookup out.assign p = some i) (hq : lookup out.assign q = some j) :
    i = j ↔ Connected (pairs out.conns) p q := by
  have I := finv_assignRaw (tree_conns A ho S h).2
  rw [assign_eq_filterSmall h] at hp hq
  exact I.cls p q i j (lookup_filterSmall_sub I.nodupKeys hp) (lookup_filterSmall_sub I.nodupKeys hq)

/-- **At most one peak per node type in an instance** (so no row entry of
    `make_predicted_instances` is ever overwritten). -/
theorem instance_one_peak_per_node (A : Arbo P.edges r) (ho : toposort P.edges = some P.order)
    (S : LsaOK fixed lsa P ch scores) (h : groupSample fixed lsa P ch scores = .ok out)
    {n k k' i : Nat} (h1 : lookup out.assign (n, k) = some i) (h2 : lookup out.assign (n, k') = some i) :
    k = k' := by
  have hc := (final_classes_eq_components A ho S h h1 h2).mp rfl
  have := (tree_conns A ho S h).1.onePer _ _ hc rfl
  exact (Prod.mk.inj this).2

/-- **No peak appears in two instances**: the final instance map has one entry per peak, and a
    peak written into the rows of two instance ids forces the ids to be equal. -/
theorem peaks_disjoint (A : Arbo P.edges r) (ho : toposort P.edges = some P.order)
    (S : LsaOK fixed lsa P ch scores) (h : groupSample fixed lsa P ch scores = .ok out) :
    (out.assign.map (·.1)).Nodup ∧
    ∀ (id id' n k : Nat), (rowOf out.assign P.nNodes id)[n]? = some (some k) →
      (rowOf out.assign P.nNodes id')[n]? = some (some k) → id = id' := by
  have I := finv_assignRaw (tree_conns A ho S h).2
  have hn : (out.assign.map (·.1)).Nodup := by
    rw [assign_eq_filterSmall h]; exact keys_nodup_filterSmall I.nodupKeys _
  refine ⟨hn, ?_⟩
  intro id id' n k h1 h2
  have e1 := lookup_of_mem hn (mem_of_rowOf h1)
  have e2 := lookup_of_mem hn (mem_of_rowOf h2)
  rw [e1] at e2; exact Option.some.inj e2

/-- **Every predicted keypoint is an input peak of that node type**: an assigned `(node, index)`
    resolves to a detected peak `g` whose channel is `node`, and every row entry of the output is
    such an assigned peak of that instance (the harness checks that coordinates and score written
    are those of peak `g`). -/
theorem instance_peaks_are_inputs (A : Arbo P.edges r) (ho : toposort P.edges = some P.order)
    (S : LsaOK fixed lsa P ch scores) (h : groupSample fixed lsa P ch scores = .ok out) :
    (∀ (n k i : Nat), lookup out.assign (n, k) = some i →
      ∃ g, globalIdx ch (n, k) = some g ∧ ch[g]? = some n) ∧
    (∀ (id n k : Nat), (rowOf out.assign P.nNodes id)[n]? = some (some k) →
      lookup out.assign (n, k) = some id) := by
  have I := finv_assignRaw (tree_conns A ho S h).2
  have hn := (peaks_disjoint A ho S h).1
  refine ⟨?_, fun id n k hr => lookup_of_mem hn (mem_of_rowOf hr)⟩
  intro n k i hl
  rw [assign_eq_filterSmall h] at hl
  have hraw := lookup_filterSmall_sub I.nodupKeys hl
  have hend := I.keys (n, k) (by
    show (lookup (assignRaw (pairs out.conns)) (n, k)).isSome = true
    rw [hraw]; rfl)
  obtain ⟨c, hc, hor⟩ := mem_endpoints.mp hend
  obtain ⟨c', hc', rfl⟩ := List.mem_map.mp hc
  obtain ⟨_, e, m, _, _, _, _, _, h1, h2, r1, r2⟩ := conn_facts S h hc'
  rcases hor with hh | hh
  · have : (n, k) = (e.1, m.row) := by rw [hh]; exact h1
    obtain ⟨rfl, rfl⟩ := Prod.mk.inj this
    exact globalIdx_of_lt r1
  · have : (n, k) = (e.2, m.col) := by rw [hh]; exact h2
    obtain ⟨rfl, rfl⟩ := Prod.mk.inj this
    exact globalIdx_of_lt r2

end pipeline

/-! ## `make_predicted_instances` on any destination-fresh connection list -/

section make
variable [Add R] [OfNat R 0]

/-- The sanity `assert` (and the dict lookup before it) never fails: whenever the source of an
    accepted connection survived the filter, its destination survived in the same instance. -/
theorem assert_never_fires {cs : List (Conn R)} (h : DstFresh (pairs cs)) (mp : MinPeaks) (nNodes : Nat) :
    (∀ c ∈ cs, ∀ i, lookup (assignConnections (pairs cs) mp nNodes) c.src = some i →
      lookup (assignConnections (pairs cs) mp nNodes) c.dst = some i) ∧
    checkConns cs (assignConnections (pairs cs) mp nNodes) = none := by
  have I := finv_assignRaw h
  have key : ∀ c ∈ cs, ∀ i, lookup (assignConnections (pairs cs) mp nNodes) c.src = some i →
      lookup (assignConnections (pairs cs) mp nNodes) c.dst = some i := by
    intro c hc i hs
    unfold assignConnections at hs ⊢
    obtain ⟨hraw, hk⟩ := (lookup_filterSmall I.nodupKeys _ _ _).mp hs
    have hmem : (c.src, c.dst) ∈ pairs cs := List.mem_map.mpr ⟨c, hc, rfl⟩
    have hdst : (lookup (assignRaw (pairs cs)) c.dst).isSome :=
      I.cover _ (mem_endpoints.mpr ⟨_, hmem, Or.inr rfl⟩)
    cases hd : lookup (assignRaw (pairs cs)) c.dst with
    | none => simp [hd] at hdst
    | some j =>
      have : i = j := (I.cls _ _ i j hraw hd).mpr (.edge hmem)
      subst this
      exact (lookup_filterSmall I.nodupKeys _ _ _).mpr ⟨hd, hk⟩
  exact ⟨key, checkConns_none key⟩

/-- **Instance score = sum of the accepted edge scores of that instance** (the connections with
    both endpoints in it), accumulated in processing order; and the output lists one instance per
    surviving id, in ascending id order. -/
theorem instance_score_sum {cs : List (Conn R)} (h : DstFresh (pairs cs)) (mp : MinPeaks) (nNodes : Nat) :
    let a := assignConnections (pairs cs) mp nNodes
    (∀ id, instScore cs a id =
      (cs.filter fun c => lookup a c.src == some id && lookup a c.dst == some id).foldl
        (fun acc c => acc + c.score) 0) ∧
    makeInstances cs a nNodes = .ok ((sortedIds a).map fun id => ⟨rowOf a nNodes id, instScore cs a id⟩) := by
  intro a
  obtain ⟨key, hchk⟩ := assert_never_fires h mp nNodes
  refine ⟨?_, by simp [makeInstances, a, hchk]⟩
  intro id
  unfold instScore
  congr 1
  apply List.filter_congr
  intro c hc
  by_cases hs : lookup a c.src = some id
  · have hd : lookup a c.dst = some id := key c hc id hs
    simp [hs, hd]
  · simp [hs]

end make

/-! ## totality -/

section total
variable [Add R] [Neg R] [LT R] [DecidableLT R] [LE R] [DecidableLE R] [OfNat R 0] [OfNat R 1]
variable {lsa : Lsa R} {P : Params R} {r : Nat} {ch : List Nat} {scores : List (Mat (Option R))}

theorem total_of_matchAll {fixed : Bool} (A : Arbo P.edges r) (ho : toposort P.edges = some P.order)
    (S : LsaOK fixed lsa P ch scores) {ms : List (List (Match R))}
    (hm : matchAll fixed lsa P ch scores = some ms) :
    ∃ out, groupSample fixed lsa P ch scores = .ok out := by
  have T := treeConns_of_matchAll A ho S hm
  have hmk := (instance_score_sum T.dstFresh P.minPeaks P.nNodes).2
  unfold groupSample
  simp only [hm]
  rw [hmk]
  exact ⟨_, rfl⟩

/-- **The repaired grouping never raises**: for every tree skeleton in any listing, any peaks, any
    scores (NaN included) and any parameters, `groupSample` returns instances. -/
theorem grouping_total (A : Arbo P.edges r) (ho : toposort P.edges = some P.order)
    (S : LsaOK true lsa P ch scores) : ∃ out, groupSample true lsa P ch scores = .ok out := by
  have : ∃ ms, matchAll true lsa P ch scores = some ms := by
    unfold matchAll
    apply mapMOpt_total
    intro x hx
    have hx' := List.mem_zipIdx_iff_getElem?.mp hx
    have hS := S x.2 x.1 (by simpa using hx')
    unfold lsaInput edgeCost costMatrix at hS
    simp only [if_true] at hS
    unfold matchEdge costMatrix
    simp only [if_true]
    exact matchEdgeFixed_total _ _ _ hS
  obtain ⟨ms, hm⟩ := this
  exact total_of_matchAll A ho S hm

/-- … and so does a whole batch (`group_instances_batch` / `PAFScorer.predict`), empty frames included. -/
theorem grouping_total_batch (A : Arbo P.edges r) (ho : toposort P.edges = some P.order)
    (samples : List (List Nat × List (Mat (Option R))))
    (S : ∀ s ∈ samples, LsaOK true lsa P s.1 s.2) :
    ∃ outs, groupBatch true lsa P samples = .ok outs ∧ outs.length = samples.length :=
  groupBatch_total samples fun s hs => grouping_total A ho (S s hs)

/-- The pinned grouping does not raise **provided** every per-edge cost matrix admits a saturating
    assignment that avoids NaN scores. -/
theorem grouping_total_partial (A : Arbo P.edges r) (ho : toposort P.edges = some P.order)
    (S : LsaOK false lsa P ch scores)
    (hfeas : ∀ k e, P.edges[k]? = some e → ∃ M, IsMatching (edgeCost ch scores k e) M) :
    ∃ out, groupSample false lsa P ch scores = .ok out := by
  have : ∃ ms, matchAll false lsa P ch scores = some ms := by
    unfold matchAll
    apply mapMOpt_total
    intro x hx
    have hx' := List.mem_zipIdx_iff_getElem?.mp hx
    have he : P.edges[x.2]? = some x.1 := by simpa using hx'
    have hS := S x.2 x.1 he
    unfold lsaInput at hS
    simp only [Bool.false_eq_true, if_false] at hS
    unfold matchEdge
    simp only [Bool.false_eq_true, if_false]
    exact matchEdgeAsIs_total hS (hfeas x.2 x.1 he)
  obtain ⟨ms, hm⟩ := this
  exact total_of_matchAll A ho S hm

end total


end SleapVerif.BottomUp.Deps
