import SleapVerif.Model.Datasets
/-!
# Heap lemmas for C11 (core Lean only)

`Ext h h'` — "`h'` is `h` plus allocations": every tensor cell and every dict that existed in
`h` is still there, unchanged.  This is what "the function leaves its inputs (and everything
else) untouched" means in the heap model.
-/
set_option linter.unusedSectionVars false
namespace SleapVerif.Datasets
variable {R : Type}

/-- `h'` extends `h`: nothing that existed was written to -/
def Ext (h h' : Heap R) : Prop :=
  (h.cells.length ≤ h'.cells.length ∧ ∀ i, i < h.cells.length → h'.cells[i]? = h.cells[i]?) ∧
  (h.dicts.length ≤ h'.dicts.length ∧ ∀ j, j < h.dicts.length → h'.dicts[j]? = h.dicts[j]?)

theorem Ext.refl (h : Heap R) : Ext h h := ⟨⟨Nat.le_refl _, fun _ _ => rfl⟩, ⟨Nat.le_refl _, fun _ _ => rfl⟩⟩

theorem Ext.trans {a b c : Heap R} (h1 : Ext a b) (h2 : Ext b c) : Ext a c := by
  obtain ⟨⟨l1, c1⟩, ⟨m1, d1⟩⟩ := h1
  obtain ⟨⟨l2, c2⟩, ⟨m2, d2⟩⟩ := h2
  refine ⟨⟨Nat.le_trans l1 l2, fun i hi => ?_⟩, ⟨Nat.le_trans m1 m2, fun j hj => ?_⟩⟩
  · rw [c2 i (Nat.lt_of_lt_of_le hi l1), c1 i hi]
  · rw [d2 j (Nat.lt_of_lt_of_le hj m1), d1 j hj]

theorem frame_allocT (h : Heap R) (v : List (Pt R)) : Ext h (h.allocT v).1 := by
  refine ⟨⟨by simp [Heap.allocT], fun i hi => ?_⟩, ⟨Nat.le_refl _, fun _ _ => rfl⟩⟩
  simp [Heap.allocT, List.getElem?_append_left hi]

theorem frame_allocD (h : Heap R) (d : List (Key × TRef)) : Ext h (h.allocD d).1 := by
  refine ⟨⟨Nat.le_refl _, fun _ _ => rfl⟩, ⟨by simp [Heap.allocD], fun j hj => ?_⟩⟩
  simp [Heap.allocD, List.getElem?_append_left hj]

/-- rebinding a key of a dict that did not exist in `h0` does not disturb `h0` -/
theorem frame_setKey {h0 h : Heap R} (F : Ext h0 h) (d : Nat) (hd : h0.dicts.length ≤ d) (k : Key)
    (t : TRef) : Ext h0 (h.setKey d k t) := by
  obtain ⟨c, ⟨m, dd⟩⟩ := F
  refine ⟨c, ⟨by simpa [Heap.setKey] using m, fun j hj => ?_⟩⟩
  have hne : d ≠ j := by omega
  simp [Heap.setKey, hne, dd j hj]

/-! ### reading -/

theorem readT_congr {h h' : Heap R} (t : TRef) (e : h'.cells[t.loc]? = h.cells[t.loc]?) :
    h'.readT t = h.readT t := by
  simp [Heap.readT, List.getD_eq_getElem?_getD, e]

theorem readT_frame {h h' : Heap R} (F : Ext h h') (t : TRef) (ht : t.loc < h.cells.length) :
    h'.readT t = h.readT t := readT_congr t (F.1.2 _ ht)

theorem getD_range_self (v : List (Pt R)) :
    (List.range v.length).map (fun k => v.getD k Pt.nan) = v := by
  apply List.ext_getElem
  · simp
  · intro i h1 h2
    simp at h1
    simp [List.getD_eq_getElem?_getD, h1]

theorem readT_allocT_new (h : Heap R) (v : List (Pt R)) : (h.allocT v).1.readT (h.allocT v).2 = v := by
  simp [Heap.readT, Heap.allocT, List.getD_eq_getElem?_getD]
  have := getD_range_self v
  simpa [List.getD_eq_getElem?_getD] using this

/-! ### association lists -/

theorem assocSet_map {β γ} (F : β → γ) (k : Key) (t : β) (l : List (Key × β)) :
    (assocSet k t l).map (fun e => (e.1, F e.2)) = assocSet k (F t) (l.map (fun e => (e.1, F e.2))) := by
  unfold assocSet
  have hany : (l.map (fun e => (e.1, F e.2))).any (fun e => e.1 == k) = l.any (fun e => e.1 == k) := by
    simp [List.any_map, Function.comp_def]
  rw [hany]
  split
  · simp only [List.map_map]
    apply List.map_congr_left
    intro e _
    by_cases he : e.1 = k <;> simp [he]
  · simp

/-! ### the `__getitem__` engine -/

/-- every tensor bound in dict `d` exists -/
def WFd (h : Heap R) (d : Nat) : Prop := ∀ e ∈ h.dicts.getD d [], e.2.loc < h.cells.length

theorem readD_frame {h h' : Heap R} (F : Ext h h') (d : Nat) (hd : d < h.dicts.length) (W : WFd h d) :
    h'.readD d = h.readD d := by
  unfold Heap.readD
  have e : h'.dicts.getD d [] = h.dicts.getD d [] := by
    simp [List.getD_eq_getElem?_getD, F.2.2 d hd]
  rw [e]
  apply List.map_congr_left
  intro x hx
  rw [readT_frame F x.2 (W x hx)]

theorem WFd_frame {h h' : Heap R} (F : Ext h h') (d : Nat) (hd : d < h.dicts.length) (W : WFd h d) :
    WFd h' d := by
  intro e he
  have e' : h'.dicts.getD d [] = h.dicts.getD d [] := by
    simp [List.getD_eq_getElem?_getD, F.2.2 d hd]
  rw [e'] at he
  exact Nat.lt_of_lt_of_le (W e he) F.1.1

theorem mem_assocSet {β} (k : Key) (t : β) (l : List (Key × β)) (e : Key × β) (he : e ∈ assocSet k t l) :
    e ∈ l ∨ e = (k, t) := by
  unfold assocSet at he
  split at he
  · simp only [List.mem_map] at he
    obtain ⟨x, hx, rfl⟩ := he
    by_cases hk : (x.1 == k) = true
    · right; simp [hk]
    · left; simpa [hk] using hx
  · simp only [List.mem_append, List.mem_singleton] at he
    exact he

/-- one rebinding step: the dict's values become `assocSet key (f values) values`, nothing
else moves, and the dict stays well-formed -/
theorem stepH_spec (h : Heap R) (d : Nat) (s : Step R) (hd : d < h.dicts.length) (W : WFd h d) :
    (stepH h d s).readD d = assocSet s.1 (s.2 (h.readD d)) (h.readD d) ∧
    WFd (stepH h d s) d ∧ (stepH h d s).dicts.length = h.dicts.length ∧
    (h.cells.length ≤ (stepH h d s).cells.length ∧
      ∀ i, i < h.cells.length → (stepH h d s).cells[i]? = h.cells[i]?) := by
  have hcells : (stepH h d s).cells = h.cells ++ [s.2 (h.readD d)] := by
    simp [stepH, Heap.allocT, Heap.setKey]
  have hdicts : (stepH h d s).dicts.getD d [] =
      assocSet s.1 ⟨h.cells.length, List.range (s.2 (h.readD d)).length⟩ (h.dicts.getD d []) := by
    simp [stepH, Heap.allocT, Heap.setKey, List.getD_eq_getElem?_getD, List.getElem?_eq_getElem hd]
  refine ⟨?_, ?_, by simp [stepH, Heap.allocT, Heap.setKey], ?_⟩
  · unfold Heap.readD
    rw [hdicts, assocSet_map (fun t => (stepH h d s).readT t)]
    have hnew : (stepH h d s).readT ⟨h.cells.length, List.range (s.2 (h.readD d)).length⟩
        = s.2 (h.readD d) := by
      have := readT_allocT_new h (s.2 (h.readD d))
      simpa [Heap.readT, Heap.allocT, hcells] using this
    have hold : (h.dicts.getD d []).map (fun e => (e.1, (stepH h d s).readT e.2))
        = (h.dicts.getD d []).map (fun e => (e.1, h.readT e.2)) := by
      apply List.map_congr_left
      intro x hx
      have : (stepH h d s).readT x.2 = h.readT x.2 := by
        apply readT_congr
        rw [hcells, List.getElem?_append_left (W x hx)]
      rw [this]
    rw [hnew, hold]
    rfl
  · intro e he
    rw [hdicts] at he
    rw [hcells]
    rcases mem_assocSet _ _ _ _ he with h1 | h1
    · have := W e h1
      simp; omega
    · subst h1; simp
  · rw [hcells]
    exact ⟨by simp, fun i hi => List.getElem?_append_left hi⟩

theorem frame_stepH {h0 h : Heap R} (F : Ext h0 h) (d : Nat) (hd : h0.dicts.length ≤ d) (s : Step R) :
    Ext h0 (stepH h d s) := by
  unfold stepH
  exact frame_setKey (F.trans (frame_allocT h _)) d hd _ _

theorem frame_foldSteps {h0 : Heap R} (d : Nat) (hd : h0.dicts.length ≤ d) (steps : List (Step R)) :
    ∀ h, Ext h0 h → Ext h0 (steps.foldl (fun h s => stepH h d s) h) := by
  induction steps with
  | nil => intro h F; exact F
  | cons s ss ih => intro h F; exact ih _ (frame_stepH F d hd s)

theorem foldSteps_value (d : Nat) (steps : List (Step R)) :
    ∀ h : Heap R, d < h.dicts.length → WFd h d →
      (steps.foldl (fun h s => stepH h d s) h).readD d = applySteps steps (h.readD d) := by
  induction steps with
  | nil => intro h _ _; rfl
  | cons s ss ih =>
    intro h hd W
    obtain ⟨e1, W', hl, _⟩ := stepH_spec h d s hd W
    have := ih (stepH h d s) (by omega) W'
    simp only [List.foldl_cons, applySteps] at this ⊢
    rw [this, e1]

/-- `Ext`: `__getitem__` only allocates (for any list of rebinding steps) -/
theorem frame_getItemD (steps : List (Step R)) (h : Heap R) (src : Nat) :
    Ext h (getItemD steps h src).1 := by
  unfold getItemD
  exact frame_foldSteps _ (Nat.le_refl _) steps _ (frame_allocD h _)

/-- the returned sample is the pure rebinding of the cached values -/
theorem getItemD_value (steps : List (Step R)) (h : Heap R) (src : Nat) (W : WFd h src) :
    (getItemD steps h src).1.readD (getItemD steps h src).2 = applySteps steps (h.readD src) := by
  unfold getItemD
  have hd : h.dicts.length < (h.allocD (h.dicts.getD src [])).1.dicts.length := by simp [Heap.allocD]
  have W' : WFd (h.allocD (h.dicts.getD src [])).1 h.dicts.length := by
    intro e he
    have : (h.allocD (h.dicts.getD src [])).1.dicts.getD h.dicts.length [] = h.dicts.getD src [] := by
      simp [Heap.allocD, List.getD_eq_getElem?_getD]
    rw [this] at he
    simpa [Heap.allocD] using W e he
  have hcopy : (h.allocD (h.dicts.getD src [])).1.readD h.dicts.length = h.readD src := by
    simp [Heap.readD, Heap.allocD, List.getD_eq_getElem?_getD, Heap.readT]
  have := foldSteps_value h.dicts.length steps _ hd W'
  simp only [Heap.allocD] at this hcopy ⊢
  rw [this, hcopy]

/-- dataset state invariant: every cached dict exists and binds existing tensors -/
def WFds (ds : DS R) : Prop := ∀ e ∈ ds.cache, e.1 < ds.heap.dicts.length ∧ WFd ds.heap e.1

theorem getItem_cache (steps : List (Step R)) (ds : DS R) (i : Nat) :
    (getItem steps ds i).1.cache = ds.cache := by
  unfold getItem; split <;> rfl

theorem getItem_frame (steps : List (Step R)) (ds : DS R) (i : Nat) :
    Ext ds.heap (getItem steps ds i).1.heap := by
  unfold getItem; split
  · exact Ext.refl _
  · exact frame_getItemD _ _ _

theorem runGets_inv (steps : List (Step R)) (is : List Nat) :
    ∀ ds : DS R, Ext ds.heap (runGets steps ds is).heap ∧ (runGets steps ds is).cache = ds.cache := by
  induction is with
  | nil => intro ds; exact ⟨Ext.refl _, rfl⟩
  | cons i is ih =>
    intro ds
    obtain ⟨F, c⟩ := ih (getItem steps ds i).1
    exact ⟨(getItem_frame steps ds i).trans F, by rw [show runGets steps ds (i :: is) =
      runGets steps (getItem steps ds i).1 is from rfl, c, getItem_cache]⟩

theorem getItem_value (steps : List (Step R)) (ds : DS R) (W : WFds ds) (i : Nat) :
    (getItem steps ds i).2 =
      (ds.cache[i]?).map fun e => (applySteps steps (ds.heap.readD e.1), e.2) := by
  unfold getItem
  cases hc : ds.cache[i]? with
  | none => rfl
  | some e =>
    obtain ⟨src, m⟩ := e
    have hmem : (src, m) ∈ ds.cache := List.mem_of_getElem? hc
    simp only [Option.map_some]
    rw [getItemD_value steps ds.heap src (W _ hmem).2]

/-! ### masked writes and `generate_centroids` -/

theorem writeT_none (h : Heap R) (t : TRef) (vals : List (Option (Pt R))) (hv : ∀ v ∈ vals, v = none) :
    h.writeT t vals = h := by
  unfold Heap.writeT
  have hz : ∀ kv ∈ t.idx.zip vals, kv.2 = none := fun kv hkv => hv _ (List.of_mem_zip hkv).2
  generalize t.idx.zip vals = l at hz
  induction l generalizing h with
  | nil => rfl
  | cons kv l ih =>
    have h1 : kv.2 = none := hz kv (by simp)
    simp only [List.foldl_cons, h1]
    exact ih _ (fun x hx => hz x (by simp [hx]))

theorem zipWith_mask_none {α β} (p : α → Bool) (l1 : List α) (l2 : List β)
    (hp : ∀ c ∈ l1, p c = false) :
    ∀ v ∈ List.zipWith (fun c m => if p c then some m else none) l1 l2, v = none := by
  induction l1 generalizing l2 with
  | nil => simp
  | cons c cs ih =>
    cases l2 with
    | nil => simp
    | cons m ms =>
      intro v hv
      simp only [List.zipWith_cons_cons, List.mem_cons] at hv
      rcases hv with rfl | hv
      · simp [hp c (by simp)]
      · exact ih ms (fun x hx => hp x (by simp [hx])) v hv

theorem zipWith_map_same {α β γ δ} (f : β → γ → δ) (g1 : α → β) (g2 : α → γ) (l : List α) :
    List.zipWith f (l.map g1) (l.map g2) = l.map (fun x => f (g1 x) (g2 x)) := by
  induction l with
  | nil => rfl
  | cons x xs ih => simp [ih]

theorem chunk_getD {α} (X : List α) (n i a : Nat) (d : α) (ha : a < n) :
    ((X.drop (i * n)).take n).getD a d = X.getD (i * n + a) d := by
  simp [List.getD_eq_getElem?_getD, ha, List.getElem?_drop]

theorem readT_getD (h : Heap R) (t : TRef) (j : Nat) (hj : j < t.idx.length) :
    (h.readT t).getD j Pt.nan = (h.cells.getD t.loc []).getD (t.idx.getD j 0) Pt.nan := by
  simp [Heap.readT, List.getD_eq_getElem?_getD, List.getElem?_map, List.getElem?_eq_getElem hj]

section Cen
variable [Add R] [Sub R] [Mul R] [Div R] [LT R] [DecidableLT R] [OfNat R 1] [OfNat R 2]
  [DecidableEq R]

theorem ext_genCentroids_repaired (h : Heap R) (t : TRef) (nI nN : Nat) (a : Option Nat) :
    Ext h (genCentroids .repaired h t nI nN a).1 := by
  unfold genCentroids
  cases a <;> exact frame_allocT _ _

theorem ext_prepT (h : Heap R) (t : TRef) (eff s : R) : Ext h (prepT h t eff s).1 := by
  unfold prepT
  simp only
  split
  · exact frame_allocT _ _
  · exact (frame_allocT _ _).trans (frame_allocT _ _)

/-- the repaired function returns, for every instance, `centroidOf` of that instance -/
theorem genCentroids_repaired_value (h : Heap R) (t : TRef) (nI nN : Nat) (anchor : Option Nat)
    (ht : t.idx.length = nI * nN) (ha : ∀ a, anchor = some a → a < nN) :
    (genCentroids .repaired h t nI nN anchor).1.readT (genCentroids .repaired h t nI nN anchor).2
      = (chunks nN nI (h.readT t)).map (centroidOf anchor) := by
  cases anchor with
  | none =>
    simp only [genCentroids, readT_allocT_new]
    rfl
  | some a =>
    have ha' := ha a rfl
    simp only [genCentroids, readT_allocT_new, chunks, List.map_map]
    have hcur : h.readT (t.slice ((List.range nI).map fun i => i * nN + a))
        = (List.range nI).map (fun i => (h.readT t).getD (i * nN + a) Pt.nan) := by
      simp only [Heap.readT, TRef.slice, List.map_map]
      apply List.map_congr_left
      intro i hi
      have hi' : i < nI := by simpa using hi
      have hlt : i * nN + a < t.idx.length := by
        rw [ht]
        calc i * nN + a < i * nN + nN := by omega
          _ = (i + 1) * nN := by rw [Nat.add_mul, Nat.one_mul]
          _ ≤ nI * nN := Nat.mul_le_mul_right _ hi'
      have := readT_getD h t (i * nN + a) hlt
      simp only [Heap.readT] at this
      simp only [Function.comp]
      rw [this]
    rw [hcur]
    have := zipWith_map_same (fun (c m : Pt R) => if c.missing then m else c)
      (fun i => (h.readT t).getD (i * nN + a) Pt.nan)
      (fun i => bboxMid (((h.readT t).drop (i * nN)).take nN)) (List.range nI)
    simp only [Function.comp_def] at this ⊢
    rw [this]
    apply List.map_congr_left
    intro i _
    simp only [centroidOf, chunk_getD _ _ _ _ _ ha']

/-- as coded, the function leaves the heap alone **when no anchor is missing** -/
theorem genCentroids_asIs_pure_of_present (h : Heap R) (t : TRef) (nI nN a : Nat)
    (hp : ∀ c ∈ h.readT (t.slice ((List.range nI).map fun i => i * nN + a)), c.missing = false) :
    (genCentroids .asIs h t nI nN (some a)).1 = h := by
  simp only [genCentroids]
  exact writeT_none _ _ _ (zipWith_mask_none _ _ _ hp)

end Cen

/-! ### index lists -/

theorem zipIdx_filter_fst_length {α} (p : α → Bool) (l : List α) (k : Nat) :
    ((l.zipIdx k).filter (fun q => p q.1)).length = l.countP p := by
  have h1 : (((l.zipIdx k).filter (fun q => p q.1)).map Prod.fst) = l.filter p := by
    have := List.filter_map (f := Prod.fst) (p := p) (l := l.zipIdx k)
    rw [List.zipIdx_map_fst] at this
    rw [this]
    rfl
  rw [List.countP_eq_length_filter, ← h1, List.length_map]

theorem lfIdxList_length (uo : Bool) (fs : List (Frame R)) :
    (lfIdxList uo fs).length = fs.countP (fun f => f.hasNonEmpty uo) := by
  unfold lfIdxList
  rw [List.length_map]
  exact zipIdx_filter_fst_length (fun f => f.hasNonEmpty uo) fs 0

theorem instanceIdxList_length (uo : Bool) (fs : List (Frame R)) :
    (instanceIdxList uo fs).length
      = (fs.map fun f => (f.filtered uo).countP (fun i => !i.isEmpty)).sum := by
  unfold instanceIdxList
  rw [List.length_flatMap]
  have : (fun (p : Frame R × Nat) =>
      ((((p.1.filtered uo).zipIdx.filter (fun q => !q.1.isEmpty)).map fun q => (p.2, q.2))).length)
      = (fun f : Frame R => (f.filtered uo).countP (fun i => !i.isEmpty)) ∘ Prod.fst := by
    funext p
    simp only [List.length_map, Function.comp]
    exact zipIdx_filter_fst_length (fun i : Inst R => !i.isEmpty) _ 0
  rw [this, ← List.map_map, List.zipIdx_map_fst]

theorem filtered_idem (uo : Bool) (f : Frame R) :
    Frame.filtered uo { f with insts := f.filtered uo } = f.filtered uo := by
  unfold Frame.filtered
  by_cases h : (uo && (f.insts.filter Inst.isUser).length != 0) = true
  · simp only [h, if_true, List.filter_filter, Bool.and_self]
  · simp only [h]
    simp [h]

end SleapVerif.Datasets
