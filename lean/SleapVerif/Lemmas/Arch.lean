import SleapVerif.Model.Arch
/-!
# Lemmas about the architecture bookkeeping model (core Lean only)

* arithmetic of `scale` / `roundHalfEven` / `headIn` for integer `filters_rate`;
* exactness of the spatial pass on inputs that are multiples of the encoder's total stride
  (for either pooling state), homogeneity of the decoder's spatial pass;
* plumbing lemmas for `Res.bind`, `findIdx`, `headOuts`.
-/
namespace SleapVerif.Arch

/-! ## Res plumbing -/

theorem Res.bind_eq_ok {α β} {x : Res α} {f : α → Res β} {b : β} :
    x.bind f = .ok b ↔ ∃ a, x = .ok a ∧ f a = .ok b := by
  cases x <;> simp [Res.bind]

@[simp] theorem Res.bind_ok {α β} (a : α) (f : α → Res β) : (Res.ok a).bind f = f a := rfl
@[simp] theorem Res.bind_err {α β} (e : Err) (f : α → Res β) : (Res.err e : Res α).bind f = .err e := rfl

theorem optRes_eq_ok {α} {o : Option α} {a : α} : optRes o = .ok a ↔ o = some a := by
  cases o <;> simp [optRes]

/-! ## arithmetic -/

theorem roundHalfEven_mul (a d : Nat) (hd : 0 < d) : roundHalfEven (a * d) d = a := by
  unfold roundHalfEven
  simp [Nat.mul_div_cancel _ hd, Nat.mul_mod_left, hd]

theorem scale_ofNat (f : Nat) (r : Rate) (n : Nat) : scale f r (n : Int) = f * r.p ^ n / r.q ^ n := rfl

theorem scale_int (f r k : Nat) : scale f ⟨r, 1⟩ (k : Int) = f * r ^ k := by
  simp [scale_ofNat]

/-- `int(round(f·r^(up+e) / r^up)) = f·r^e` for an integer rate. -/
theorem headBase_int (f r up e : Nat) (hr : 0 < r) :
    headBase ⟨r, 1⟩ (f * r ^ (up + e)) up = f * r ^ e := by
  unfold headBase
  have : f * r ^ (up + e) * 1 ^ up = (f * r ^ e) * r ^ up := by
    rw [Nat.one_pow, Nat.mul_one, Nat.pow_add, Nat.mul_comm (r ^ up), Nat.mul_assoc]
  simp only [this]
  exact roundHalfEven_mul _ _ (Nat.pow_pos hr)

/-! ## stride look-up -/

theorem findIdx_ok {l : List Nat} {a i : Nat} (h : findIdx l a = .ok i) :
    ∃ hi : i < l.length, l[i] = a := by
  unfold findIdx at h
  split at h
  · rename_i hm
    injection h with h
    subst h
    exact ⟨List.idxOf_lt_length_of_mem hm, List.getElem_idxOf _⟩
  · cases h

/-! ## spatial pass: exactness on multiples of the total stride -/

/-- down-sampling factor of one op -/
def Op.stride : Op → Nat
  | .pool => 2
  | .conv _ _ => 1
  | .sconv _ _ _ s _ => s
  | .merge => 2
  | .tap => 1

/-- a strided convolution divides sizes that are multiples of its stride exactly iff
    `1 ≤ k - 2p ≤ s` (true of every strided conv of the ConvNeXt / Swin encoders) -/
def Op.exactOk : Op → Bool
  | .sconv _ _ k s p => decide (0 < s ∧ 2 * p < k ∧ k ≤ s + 2 * p)
  | _ => true

/-- total stride of an encoder -/
def encStride : List Op → Nat
  | [] => 1
  | op :: ops => op.stride * encStride ops

/-- skip-feature sizes (deepest first) for an input of `m` × total stride -/
def tapAcc : List Op → Nat → List Nat → List Nat
  | [], _, acc => acc
  | op :: ops, m, acc => tapAcc ops m (if op = Op.tap then m * encStride ops :: acc else acc)

theorem Op.stride_pos {op : Op} (h : op.exactOk = true) : 0 < op.stride := by
  cases op <;> simp_all [Op.stride, Op.exactOk]

theorem encStride_pos {ops : List Op} (h : ∀ op ∈ ops, op.exactOk = true) : 0 < encStride ops := by
  induction ops with
  | nil => simp [encStride]
  | cons op ops ih =>
    simp only [encStride]
    exact Nat.mul_pos (Op.stride_pos (h op (by simp))) (ih (fun o ho => h o (by simp [ho])))

/-- one op on a positive multiple of its stride: exact division, in either pooling state -/
theorem Op.spat_exact (op : Op) (h : op.exactOk = true) (fresh : Bool) (n : Nat) (hn : 0 < n) :
    op.spat fresh (n * op.stride) = some n := by
  cases op with
  | pool =>
    cases fresh
    · have h1 : n * 2 / 2 = n := by omega
      simp [Op.spat, Op.stride, poolOut, h1]; omega
    · have h1 : (n * 2 + 1) / 2 = n := by omega
      simp [Op.spat, Op.stride, poolOut, h1]
  | conv a b => simp [Op.spat, Op.stride]
  | merge =>
    have h1 : (n * 2 + 1) / 2 = n := by omega
    simp [Op.spat, Op.stride, h1]
  | tap => simp [Op.spat, Op.stride]
  | sconv a b k s p =>
    simp only [Op.exactOk, decide_eq_true_eq] at h
    obtain ⟨hs, hp, hk⟩ := h
    simp only [Op.spat, Op.stride]
    have hge : s ≤ n * s := Nat.le_mul_of_pos_left s hn
    have h1 : ¬ (n * s + 2 * p < k ∨ s = 0) := by omega
    simp only [h1, if_false]
    congr 1
    -- (n*s + 2p - k) / s + 1 = n   with 1 ≤ k - 2p ≤ s
    obtain ⟨n', rfl⟩ : ∃ n', n = n' + 1 := ⟨n - 1, by omega⟩
    have e : (n' + 1) * s + 2 * p - k = (s + 2 * p - k) + n' * s := by
      rw [Nat.add_mul]; omega
    rw [e, Nat.add_mul_div_right _ _ hs]
    have : (s + 2 * p - k) / s = 0 := Nat.div_eq_of_lt (by omega)
    omega

theorem enc_spat_exact (fresh : Bool) (ops : List Op) (h : ∀ op ∈ ops, op.exactOk = true)
    (m : Nat) (hm : 0 < m) (acc : List Nat) :
    encRun (fun x op => op.spat fresh x) ops (m * encStride ops) acc = some (m, tapAcc ops m acc) := by
  induction ops generalizing acc with
  | nil => simp [encRun, encStride, tapAcc]
  | cons op ops ih =>
    have hop := h op (by simp)
    have hrest : ∀ o ∈ ops, o.exactOk = true := fun o ho => h o (by simp [ho])
    have hpos : 0 < m * encStride ops := Nat.mul_pos hm (encStride_pos hrest)
    have e : m * encStride (op :: ops) = (m * encStride ops) * op.stride := by
      simp only [encStride]; rw [Nat.mul_comm op.stride, Nat.mul_assoc]
    simp only [encRun, e, Op.spat_exact op hop fresh _ hpos, tapAcc]
    exact ih hrest _

theorem tapAcc_scale (ops : List Op) (m : Nat) (acc : List Nat) :
    tapAcc ops m (acc.map (m * ·)) = (tapAcc ops 1 acc).map (m * ·) := by
  induction ops generalizing acc with
  | nil => simp [tapAcc]
  | cons op ops ih =>
    simp only [tapAcc]
    split
    · have := ih (1 * encStride ops :: acc)
      simpa using this
    · exact ih acc

/-- the decoder's spatial pass is homogeneous -/
theorem decSpat_scale (m : Nat) (bs : List DecBlock) (n : Nat) (fs l : List Nat)
    (h : decSpat bs n fs = .ok l) : decSpat bs (m * n) (fs.map (m * ·)) = .ok (l.map (m * ·)) := by
  induction bs generalizing n fs l with
  | nil => simp [decSpat] at h ⊢; exact h.symm ▸ rfl
  | cons b bs ih =>
    simp only [decSpat] at h ⊢
    cases hb : b.skip with
    | true =>
      simp only [hb, if_true] at h ⊢
      cases fs with
      | nil => simp at h
      | cons f fs =>
        simp only [List.map_cons] at h ⊢
        by_cases hf : f = 2 * n
        · subst hf
          simp only [bne_self_eq_false, Bool.false_eq_true, if_false] at h
          obtain ⟨l', hl', hl⟩ := Res.bind_eq_ok.mp h
          injection hl with hl; subst hl
          have e : m * (2 * n) = 2 * (m * n) := by
            rw [← Nat.mul_assoc, Nat.mul_comm m 2, Nat.mul_assoc]
          have := ih (2 * n) fs l' hl'
          rw [e] at this
          simp [e, this]
        · simp [hf] at h
    | false =>
      simp only [hb, Bool.false_eq_true, if_false] at h ⊢
      obtain ⟨l', hl', hl⟩ := Res.bind_eq_ok.mp h
      injection hl with hl; subst hl
      have e : m * (2 * n) = 2 * (m * n) := by
        rw [← Nat.mul_assoc, Nat.mul_comm m 2, Nat.mul_assoc]
      have := ih (2 * n) fs l' hl'
      rw [e] at this
      simp [e, this]

/-- sizes of all decoder outputs on an input of `m` × total stride, in either pooling state,
    from the sizes at exactly the total stride -/
theorem spatStages_scale (b : Built) (hex : ∀ op ∈ b.enc, op.exactOk = true) (l0 : List Nat)
    (h0 : spatStages b true (encStride b.enc) = .ok l0) (m : Nat) (hm : 0 < m) (fresh : Bool) :
    spatStages b fresh (m * encStride b.enc) = .ok (l0.map (m * ·)) := by
  unfold spatStages at h0 ⊢
  have e1 := enc_spat_exact true b.enc hex 1 (by omega) []
  rw [Nat.one_mul] at e1
  rw [e1] at h0
  rw [enc_spat_exact fresh b.enc hex m hm []]
  simp only [optRes, Res.bind_ok] at h0 ⊢
  have := decSpat_scale m b.dec 1 (tapAcc b.enc 1 []) l0 h0
  rw [Nat.mul_one] at this
  have t := tapAcc_scale b.enc m []
  simp only [List.map_nil] at t
  rw [t]; exact this

/-! ## head loop -/

theorem getD_map_mul (l : List Nat) (m i : Nat) : (l.map (m * ·)).getD i 0 = m * l.getD i 0 := by
  simp only [List.getD_eq_getElem?_getD, List.getElem?_map]
  cases l[i]? <;> simp

/-- every head's output has the head's channel count, and comes from the stage labelled with
    the head's stride -/
theorem headOuts_spec (strides chans hs ws : List Nat) (heads : List Head) (hins : List Nat)
    (outs : List (Nat × Nat × Nat)) (hlen : heads.length = hins.length)
    (h : headOuts strides chans hs ws heads hins = .ok outs) :
    outs.length = heads.length ∧ ∀ p ∈ List.zip heads outs,
      ∃ i, ∃ _ : i < strides.length, strides[i] = p.1.os ∧ p.2 = (p.1.ch, hs.getD i 0, ws.getD i 0) := by
  induction heads generalizing hins outs with
  | nil => simp [headOuts] at h; subst h; simp
  | cons hd hds ih =>
    cases hins with
    | nil => simp at hlen
    | cons hin hins =>
      simp only [headOuts] at h
      obtain ⟨o, ho, h⟩ := Res.bind_eq_ok.mp h
      obtain ⟨l', hl', hl⟩ := Res.bind_eq_ok.mp h
      injection hl with hl; subst hl
      unfold headOutFor at ho
      obtain ⟨i, hi, ho⟩ := Res.bind_eq_ok.mp ho
      split at ho
      · cases ho
      · injection ho with ho; subst ho
        obtain ⟨hlt, hget⟩ := findIdx_ok hi
        obtain ⟨ih1, ih2⟩ := ih hins l' (by simpa using hlen) hl'
        refine ⟨by simp [ih1], ?_⟩
        intro p hp
        simp only [List.zip_cons_cons, List.mem_cons] at hp
        rcases hp with rfl | hp
        · exact ⟨i, hlt, hget, rfl⟩
        · exact ih2 p hp

/-- per-head facts assemble into the `Model.__init__` loop -/
theorem initHeads_map (b : Built) (g : Head → Nat) (hs : List Head)
    (h : ∀ hd ∈ hs, headInFor b hd.os = .ok (g hd)) :
    initHeads b hs = .ok (hs.map g) := by
  induction hs with
  | nil => rfl
  | cons hd hs ih =>
    simp only [initHeads, h hd (by simp), Res.bind_ok, ih (fun x hx => h x (by simp [hx])), List.map_cons]

/-- per-head facts assemble into the `Model.forward` loop -/
theorem headOuts_map (strides chans hs ws : List Nat) (g : Head → Nat) (o : Head → Nat × Nat × Nat)
    (heads : List Head) (h : ∀ hd ∈ heads, headOutFor strides chans hs ws hd (g hd) = .ok (o hd)) :
    headOuts strides chans hs ws heads (heads.map g) = .ok (heads.map o) := by
  induction heads with
  | nil => rfl
  | cons hd hds ih =>
    simp only [List.map_cons, headOuts, h hd (by simp), Res.bind_ok, ih (fun x hx => h x (by simp [hx]))]

/-- `up_interpolate = False` only adds a check (the `ConvTranspose2d` channels) -/
theorem decChan_upInterp_mono (bs : List DecBlock) (c : Nat) (fs l : List Nat)
    (h : decChan false bs c fs = .ok l) : decChan true bs c fs = .ok l := by
  induction bs generalizing c fs l with
  | nil => simpa [decChan] using h
  | cons b bs ih =>
    simp only [decChan, Bool.not_false, Bool.true_and, Bool.not_true, Bool.false_and,
      Bool.false_eq_true, if_false] at h ⊢
    split at h
    · cases h
    · cases hb : b.skip with
      | true =>
        simp only [hb, if_true] at h ⊢
        cases fs with
        | nil => simp at h
        | cons f fs =>
          simp only at h ⊢
          split at h
          · cases h
          · rename_i hc
            simp only [hc]
            obtain ⟨l', hl', hl⟩ := Res.bind_eq_ok.mp h
            rw [ih _ _ _ hl']; exact hl
      | false =>
        simp only [hb, Bool.false_eq_true, if_false] at h ⊢
        split at h
        · cases h
        · rename_i hc
          simp only [hc]
          obtain ⟨l', hl', hl⟩ := Res.bind_eq_ok.mp h
          rw [ih _ _ _ hl']; exact hl

/-! ## the `head_configs` mapping is read by name -/

theorem lookup_perm {β : Type} (k : String) {l₁ l₂ : List (String × β)} (p : l₁.Perm l₂)
    (nd : l₁.Pairwise fun a b => a.1 ≠ b.1) : l₁.lookup k = l₂.lookup k := by
  induction p with
  | nil => rfl
  | cons x _ ih =>
    obtain ⟨a, b⟩ := x
    simp only [List.lookup_cons]
    rw [ih (List.pairwise_cons.mp nd).2]
  | swap x y l =>
    obtain ⟨a, b⟩ := x
    obtain ⟨a', b'⟩ := y
    have hne : a' ≠ a := (List.pairwise_cons.mp nd).1 (a, b) (by simp)
    simp only [List.lookup_cons]
    by_cases h1 : k = a
    · subst h1
      have : (k == a') = false := by simpa using fun h => hne h.symm
      simp [this]
    · have : (k == a) = false := by simpa using h1
      simp [this]
  | trans p₁ _ ih₁ ih₂ =>
    rw [ih₁ nd]
    exact ih₂ ((p₁.pairwise_iff (fun {a b} (h : a.1 ≠ b.1) => fun e => h e.symm)).mp nd)

theorem minList_of_le (l : List Nat) (m : Nat) (h : ∀ x ∈ l, m ≤ x) : minList l m = m := by
  induction l with
  | nil => rfl
  | cons x xs ih =>
    simp only [minList]
    have : min x m = m := Nat.min_eq_right (h x (by simp))
    rw [this]; exact ih (fun y hy => h y (by simp [hy]))

end SleapVerif.Arch
