import SleapVerif.Lemmas.GroupingFixOpt
import Mathlib.Tactic.Ring
/-! Helper lemmas for C08, part 7 (ordered fields): what the repaired `match_candidates_sample`
    returns **in general** (NaN cells present, possibly no saturating assignment that avoids them):
    among all one-to-one assignments that use only valid cells, the kept matches have the maximum
    number of pairs and, among those of that size, the minimum cost (= maximum total score).

    Ingredients: every one-to-one assignment extends to a saturating one (pigeonhole), the cost on
    the filled matrix splits as `valid cost + B · #invalid`, and `B = 2·Σ|valid| + 1` outweighs any
    difference of valid costs. -/

set_option linter.unusedSectionVars false

namespace SleapVerif.Grouping

/-! ## extending a one-to-one assignment to a saturating one -/

theorem exists_free {l : List Nat} {n : Nat} (_hn : l.Nodup) (hlt : l.length < n) :
    ∃ i, i < n ∧ i ∉ l := by
  by_contra h
  have hall : ∀ i, i < n → i ∈ l := by
    intro i hi
    by_contra hni
    exact h ⟨i, hi, hni⟩
  have hsub : List.range n ⊆ l := fun i hi => hall i (List.mem_range.mp hi)
  have := (List.subperm_of_subset List.nodup_range hsub).length_le
  simp at this; omega

theorem length_le_of_nodup_lt {l : List Nat} {n : Nat} (hn : l.Nodup) (hlt : ∀ x ∈ l, x < n) :
    l.length ≤ n := by
  have hsub : l ⊆ List.range n := fun i hi => List.mem_range.mpr (hlt i hi)
  have := (List.subperm_of_subset hn hsub).length_le
  simpa using this

theorem oneToOne_snoc {M : List (Nat × Nat)} (h : OneToOne M) {i j : Nat}
    (hi : i ∉ M.map (·.1)) (hj : j ∉ M.map (·.2)) : OneToOne (M ++ [(i, j)]) := by
  refine ⟨?_, ?_⟩
  · rw [List.map_append]
    refine List.nodup_append.mpr ⟨h.1, by simp, ?_⟩
    intro a ha b hb hab
    simp at hb; subst hb; subst hab; exact hi ha
  · rw [List.map_append]
    refine List.nodup_append.mpr ⟨h.2, by simp, ?_⟩
    intro a ha b hb hab
    simp at hb; subst hb; subst hab; exact hj ha

theorem extend_assign (nr nc : Nat) : ∀ (d : Nat) (M : List (Nat × Nat)), OneToOne M →
    (∀ m ∈ M, m.1 < nr ∧ m.2 < nc) → M.length + d = min nr nc →
    ∃ ext, OneToOne (M ++ ext) ∧ (∀ m ∈ M ++ ext, m.1 < nr ∧ m.2 < nc) ∧
      (M ++ ext).length = min nr nc
  | 0, M, h1, h2, h3 => ⟨[], by simpa using h1, by simpa using h2, by simpa using h3⟩
  | d + 1, M, h1, h2, h3 => by
    have hr : (M.map (·.1)).length < nr := by simp; omega
    have hc : (M.map (·.2)).length < nc := by simp; omega
    obtain ⟨i, hi, hi'⟩ := exists_free h1.1 hr
    obtain ⟨j, hj, hj'⟩ := exists_free h1.2 hc
    have h1' := oneToOne_snoc h1 hi' hj'
    have h2' : ∀ m ∈ M ++ [(i, j)], m.1 < nr ∧ m.2 < nc := by
      intro m hm
      rcases List.mem_append.mp hm with h | h
      · exact h2 m h
      · simp at h; subst h; exact ⟨hi, hj⟩
    obtain ⟨ext, e1, e2, e3⟩ := extend_assign nr nc d (M ++ [(i, j)]) h1' h2' (by simp; omega)
    refine ⟨(i, j) :: ext, ?_, ?_, ?_⟩
    · simpa [List.append_assoc] using e1
    · simpa [List.append_assoc] using e2
    · simpa [List.append_assoc] using e3

/-! ## valid assignments and the cost split -/

variable {K : Type}

/-- a one-to-one assignment (any size) that uses only valid cells of `C` -/
structure ValidAssign (C : Mat (Option K)) (M : List (Nat × Nat)) : Prop where
  oneToOne : OneToOne M
  inRange : ∀ m ∈ M, m.1 < nRows C ∧ m.2 < nCols C
  finite : ∀ m ∈ M, (entry C m.1 m.2).isSome

def validPart (C : Mat (Option K)) (L : List (Nat × Nat)) : List (Nat × Nat) :=
  L.filter fun m => (entry C m.1 m.2).isSome

def nInvalid (C : Mat (Option K)) (L : List (Nat × Nat)) : Nat :=
  (L.filter fun m => !(entry C m.1 m.2).isSome).length

theorem length_split (C : Mat (Option K)) (L : List (Nat × Nat)) :
    (validPart C L).length + nInvalid C L = L.length := by
  unfold validPart nInvalid
  induction L with
  | nil => rfl
  | cons m L ih =>
    cases h : (entry C m.1 m.2).isSome with
    | true =>
      simp only [List.filter_cons, h, Bool.not_true, Bool.false_eq_true, if_true, if_false,
        List.length_cons]
      omega
    | false =>
      simp only [List.filter_cons, h, Bool.not_false, Bool.false_eq_true, if_true, if_false,
        List.length_cons]
      omega

theorem nInvalid_cons (C : Mat (Option K)) (m : Nat × Nat) (L : List (Nat × Nat)) :
    nInvalid C (m :: L) = nInvalid C L + (if (entry C m.1 m.2).isSome then 0 else 1) := by
  unfold nInvalid
  cases he : entry C m.1 m.2 with
  | none => simp [he]
  | some v => simp [he]

theorem validPart_of_valid {C : Mat (Option K)} {L : List (Nat × Nat)}
    (h : ∀ m ∈ L, (entry C m.1 m.2).isSome) : validPart C L = L :=
  List.filter_eq_self.mpr h

variable [Field K] [LinearOrder K] [IsStrictOrderedRing K]

theorem cost_cons (C : Mat (Option K)) (m : Nat × Nat) (L : List (Nat × Nat)) :
    cost C (m :: L) = (entry C m.1 m.2).getD 0 + cost C L := by
  unfold cost; simp [sumL_eq_sum]

theorem cost_nil (C : Mat (Option K)) : cost C [] = 0 := by
  unfold cost; simp [sumL_eq_sum]

theorem cost_append (C : Mat (Option K)) (L L' : List (Nat × Nat)) :
    cost C (L ++ L') = cost C L + cost C L' := by
  induction L with
  | nil => simp [cost_nil]
  | cons m L ih => rw [List.cons_append, cost_cons, cost_cons, ih]; ring

/-- invalid cells contribute nothing to the valid cost -/
theorem cost_validPart (C : Mat (Option K)) (L : List (Nat × Nat)) :
    cost C (validPart C L) = cost C L := by
  unfold validPart
  induction L with
  | nil => rfl
  | cons m L ih =>
    by_cases h : (entry C m.1 m.2).isSome
    · rw [List.filter_cons_of_pos (by simpa using h), cost_cons, cost_cons, ih]
    · rw [List.filter_cons_of_neg (by simpa using h), cost_cons, ih]
      have : entry C m.1 m.2 = none := by
        cases he : entry C m.1 m.2 with
        | none => rfl
        | some v => simp [he] at h
      simp [this]

section main
variable {nr nc : Nat} {f : Nat → Nat → Option K}

/-- on the filled matrix: cost = valid cost + sentinel · number of invalid cells used -/
theorem cost_fill_split {L : List (Nat × Nat)} (hr : ∀ m ∈ L, m.1 < nr ∧ m.2 < nc) :
    cost (fillInvalid (mkMat nr nc f)) L
      = cost (mkMat nr nc f) L + sentinel (mkMat nr nc f) * (nInvalid (mkMat nr nc f) L : K) := by
  induction L with
  | nil => simp [cost_nil, nInvalid]
  | cons m L ih =>
    have ih' := ih (fun x hx => hr x (by simp [hx]))
    obtain ⟨a, b⟩ := hr m (by simp)
    rw [cost_cons, cost_cons, ih', entry_fill a b, nInvalid_cons]
    cases he : entry (mkMat nr nc f) m.1 m.2 with
    | none =>
      have hf : f m.1 m.2 = none := by rw [entry_mkMat _ _ _ a b] at he; exact he
      simp only [hf, Option.getD_none, Option.getD_some, Option.isSome_none, Bool.false_eq_true, if_false]
      push_cast; ring
    | some v =>
      have hf : f m.1 m.2 = some v := by rw [entry_mkMat _ _ _ a b] at he; exact he
      simp only [hf, Option.getD_some, Option.isSome_some, if_true, add_zero]
      ring

theorem neg_absTotal_le_cost {M : List (Nat × Nat)} (h1 : OneToOne M)
    (hr : ∀ m ∈ M, m.1 < nr ∧ m.2 < nc) : -absTotal nr nc f ≤ cost (mkMat nr nc f) M := by
  have hr' : ∀ m ∈ M, m.1 < nRows (mkMat nr nc f) ∧ m.2 < nCols (mkMat nr nc f) := by
    intro m hm
    obtain ⟨a, b⟩ := hr m hm
    rw [nRows_mkMat, nCols_mkMat _ _ _ (by omega)]; exact ⟨a, b⟩
  have habs := matching_abs_le (mkMat nr nc f) h1 hr'
  have : -(M.map fun m => cellAbs (entry (mkMat nr nc f) m.1 m.2)).sum ≤ cost (mkMat nr nc f) M := by
    clear habs hr' hr h1
    induction M with
    | nil => simp [cost_nil]
    | cons m M ih =>
      rw [cost_cons, List.map_cons, List.sum_cons]
      have := neg_cellAbs_le_getD (entry (mkMat nr nc f) m.1 m.2) (le_refl (0 : K))
      linarith
  unfold absTotal
  linarith

end main

/-- **What the repaired matching returns, in general**: a one-to-one assignment on valid cells
    with the maximum number of pairs among all such assignments and, among those of that size,
    minimum cost. -/
theorem matchEdgeFixed_lexOptimal {lsa : Lsa K} (nr nc : Nat) (f : Nat → Nat → Option K)
    (S : LsaSpecOn lsa (fillInvalid (mkMat nr nc f))) :
    ∃ ms, matchEdgeFixed lsa (mkMat nr nc f) = some ms ∧ ValidAssign (mkMat nr nc f) (rc ms) ∧
      ∀ M', ValidAssign (mkMat nr nc f) M' →
        M'.length ≤ (rc ms).length ∧
        (M'.length = (rc ms).length → cost (mkMat nr nc f) (rc ms) ≤ cost (mkMat nr nc f) M') := by
  have hrF : nRows (fillInvalid (mkMat nr nc f)) = nRows (mkMat nr nc f) := nRows_fillInvalid _
  have hcF : nCols (fillInvalid (mkMat nr nc f)) = nCols (mkMat nr nc f) := nCols_fillInvalid _
  have hmin : min (nRows (fillInvalid (mkMat nr nc f))) (nCols (fillInvalid (mkMat nr nc f))) = min nr nc := by
    rw [hrF, hcF, min_dims_mkMat]
  obtain ⟨ms, hms⟩ := matchEdgeFixed_total nr nc f S
  cases hl : lsa (fillInvalid (mkMat nr nc f)) with
  | none => unfold matchEdgeFixed at hms; simp [hl] at hms
  | some M =>
    obtain ⟨IM, hopt⟩ := S.sound M hl
    have hrM := inRange_mk hrF hcF IM.inRange
    have hmsEq : ms = toMatches (mkMat nr nc f) (validPart (mkMat nr nc f) M) := by
      unfold matchEdgeFixed at hms; simp [hl] at hms; exact hms.symm
    have hrc : rc ms = validPart (mkMat nr nc f) M := by rw [hmsEq, rc_toMatches]
    have hMlen : M.length = min nr nc := by rw [IM.saturating, hmin]
    refine ⟨ms, hms, ?_, ?_⟩
    · rw [hrc]
      refine ⟨IM.oneToOne.sublist List.filter_sublist, ?_, fun m hm => (List.mem_filter.mp hm).2⟩
      intro m hm
      have := IM.inRange m (List.mem_filter.mp hm).1
      rwa [hrF, hcF] at this
    · intro M' VM'
      have hr' := inRange_mk rfl rfl VM'.inRange
      -- extend M' to a saturating assignment of the filled matrix
      have hlen' : M'.length ≤ min nr nc := by
        have a := length_le_of_nodup_lt VM'.oneToOne.1 (by
          intro x hx; obtain ⟨m, hm, rfl⟩ := List.mem_map.mp hx; exact (hr' m hm).1)
        have b := length_le_of_nodup_lt VM'.oneToOne.2 (by
          intro x hx; obtain ⟨m, hm, rfl⟩ := List.mem_map.mp hx; exact (hr' m hm).2)
        simp at a b; omega
      obtain ⟨ext, e1, e2, e3⟩ := extend_assign nr nc (min nr nc - M'.length) M' VM'.oneToOne hr' (by omega)
      have IM'' : IsMatching (fillInvalid (mkMat nr nc f)) (M' ++ ext) := by
        refine ⟨e1, ?_, by rw [hmin]; exact e3, ?_⟩
        · intro m hm
          obtain ⟨a, b⟩ := e2 m hm
          rw [hrF, hcF, nRows_mkMat, nCols_mkMat _ _ _ (by omega)]; exact ⟨a, b⟩
        · intro m hm
          obtain ⟨a, b⟩ := e2 m hm
          rw [entry_fill a b]; rfl
      have hle := hopt _ IM''
      rw [cost_fill_split hrM, cost_fill_split e2] at hle
      -- bounds on the valid costs
      have hS := absTotal_nonneg nr nc f
      have hB : sentinel (mkMat nr nc f) = 2 * absTotal nr nc f + 1 := sentinel_eq nr nc f
      have lo := neg_absTotal_le_cost (f := f) IM.oneToOne hrM
      have hi := cost_le_absTotal (f := f) e1 e2
      -- hence M uses no more invalid cells than the extension
      have hinv : nInvalid (mkMat nr nc f) M ≤ nInvalid (mkMat nr nc f) (M' ++ ext) := by
        by_contra hcon
        have hnat : nInvalid (mkMat nr nc f) (M' ++ ext) + 1 ≤ nInvalid (mkMat nr nc f) M := by omega
        have hcast : ((nInvalid (mkMat nr nc f) (M' ++ ext) : K) + 1) ≤ (nInvalid (mkMat nr nc f) M : K) := by
          exact_mod_cast hnat
        have hB0 : 0 ≤ sentinel (mkMat nr nc f) := by rw [hB]; linarith
        have := mul_le_mul_of_nonneg_left hcast hB0
        rw [mul_add, mul_one] at this
        linarith
      have s1 := length_split (mkMat nr nc f) M
      have s2 := length_split (mkMat nr nc f) (M' ++ ext)
      have hvp : validPart (mkMat nr nc f) (M' ++ ext) = M' ++ validPart (mkMat nr nc f) ext := by
        unfold validPart
        rw [List.filter_append, List.filter_eq_self.mpr VM'.finite]
      rw [hvp, List.length_append] at s2
      rw [hrc]
      refine ⟨by omega, ?_⟩
      intro heq
      -- equal size: the extension used invalid cells only, so both use equally many
      have hext0 : (validPart (mkMat nr nc f) ext).length = 0 := by omega
      have hext : validPart (mkMat nr nc f) ext = [] := List.length_eq_zero_iff.mp hext0
      have hinvEq : nInvalid (mkMat nr nc f) M = nInvalid (mkMat nr nc f) (M' ++ ext) := by omega
      rw [hinvEq] at hle
      have hc : cost (mkMat nr nc f) M ≤ cost (mkMat nr nc f) (M' ++ ext) := by linarith
      rw [← cost_validPart _ (M' ++ ext), hvp, hext, List.append_nil, ← cost_validPart _ M] at hc
      exact hc

end SleapVerif.Grouping
