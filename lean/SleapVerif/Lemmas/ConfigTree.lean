import SleapVerif.Model.Config
/-!
# Lemmas about configuration trees: `lookup`, `setKey`, `merge`, `verify`, `construct`
(core Lean only; no Mathlib needed)
-/
namespace SleapVerif.Config

/-! ### induction principle for the nested type -/

theorem Cfg.ind {P : Cfg → Prop} (hleaf : ∀ v, P (.leaf v))
    (hnode : ∀ kvs : Kvs, (∀ kv ∈ kvs, P kv.2) → P (.node kvs)) : ∀ c, P c := by
  intro c
  refine Cfg.rec (motive_1 := P) (motive_2 := fun l => ∀ kv ∈ l, P kv.2) (motive_3 := fun kv => P kv.2)
    hleaf (fun kvs ih => hnode kvs ih) ?_ ?_ ?_ c
  · intro kv h; cases h
  · intro hd tl hhd htl kv hmem
    cases hmem with
    | head => exact hhd
    | tail _ h => exact htl kv h
  · intro k v hv; exact hv

/-! ### lookup / hasKey / setKey -/

@[simp] theorem lookup_nil (k : String) : lookup k [] = none := rfl

theorem lookup_cons (k k' : String) (v : Cfg) (r : Kvs) :
    lookup k ((k', v) :: r) = if k' = k then some v else lookup k r := rfl

theorem hasKey_cons (k k' : String) (v : Cfg) (r : Kvs) :
    hasKey k ((k', v) :: r) = (decide (k' = k) || hasKey k r) := by
  unfold hasKey; rw [lookup_cons]; by_cases h : k' = k <;> simp [h]

theorem hasKey_iff_mem_keys (k : String) (kvs : Kvs) : hasKey k kvs = true ↔ k ∈ keys kvs := by
  induction kvs with
  | nil => simp [hasKey, keys]
  | cons kv r ih =>
    obtain ⟨k', v⟩ := kv
    rw [hasKey_cons]
    simp only [keys, List.map_cons, List.mem_cons, Bool.or_eq_true, decide_eq_true_eq]
    rw [ih]; simp only [keys]
    constructor
    · rintro (h | h)
      · exact Or.inl h.symm
      · exact Or.inr h
    · rintro (h | h)
      · exact Or.inl h.symm
      · exact Or.inr h

theorem lookup_isSome_iff (k : String) (kvs : Kvs) : (lookup k kvs).isSome = true ↔ k ∈ keys kvs :=
  hasKey_iff_mem_keys k kvs

theorem lookup_eq_none_iff (k : String) (kvs : Kvs) : lookup k kvs = none ↔ k ∉ keys kvs := by
  rw [← hasKey_iff_mem_keys]; unfold hasKey
  cases lookup k kvs <;> simp

theorem lookup_mem {k : String} {kvs : Kvs} {v : Cfg} (h : lookup k kvs = some v) : (k, v) ∈ kvs := by
  induction kvs with
  | nil => simp at h
  | cons kv r ih =>
    obtain ⟨k', w⟩ := kv
    rw [lookup_cons] at h
    by_cases hk : k' = k
    · simp [hk] at h; subst hk; subst h; exact List.mem_cons_self
    · simp [hk] at h; exact List.mem_cons_of_mem _ (ih h)

@[simp] theorem keys_setKey (k : String) (v : Cfg) (kvs : Kvs) : keys (setKey k v kvs) = keys kvs := by
  induction kvs with
  | nil => rfl
  | cons kv r ih =>
    obtain ⟨k', w⟩ := kv
    unfold setKey
    by_cases h : k' = k
    · simp [h, keys]
    · simp only [h, if_false, keys, List.map_cons] at ih ⊢
      rw [ih]

theorem hasKey_setKey (k k' : String) (v : Cfg) (kvs : Kvs) :
    hasKey k' (setKey k v kvs) = hasKey k' kvs := by
  have h1 := hasKey_iff_mem_keys k' (setKey k v kvs)
  have h2 := hasKey_iff_mem_keys k' kvs
  rw [keys_setKey] at h1
  cases ha : hasKey k' (setKey k v kvs) <;> cases hb : hasKey k' kvs <;> simp_all

theorem lookup_setKey_self {k : String} {v : Cfg} {kvs : Kvs} (h : hasKey k kvs = true) :
    lookup k (setKey k v kvs) = some v := by
  induction kvs with
  | nil => simp [hasKey] at h
  | cons kv r ih =>
    obtain ⟨k', w⟩ := kv
    unfold setKey
    by_cases hk : k' = k
    · simp [hk, lookup_cons]
    · rw [hasKey_cons] at h
      simp [hk] at h
      simp [hk, lookup_cons, ih h]

theorem lookup_setKey_ne {k k' : String} (v : Cfg) (kvs : Kvs) (hne : k ≠ k') :
    lookup k' (setKey k v kvs) = lookup k' kvs := by
  induction kvs with
  | nil => rfl
  | cons kv r ih =>
    obtain ⟨k'', w⟩ := kv
    unfold setKey
    by_cases hk : k'' = k
    · subst hk
      simp [lookup_cons, hne]
    · simp only [hk, if_false, lookup_cons]
      rw [ih]

theorem setKey_comm {k k' : String} (v v' : Cfg) (kvs : Kvs) (hne : k ≠ k') :
    setKey k v (setKey k' v' kvs) = setKey k' v' (setKey k v kvs) := by
  induction kvs with
  | nil => rfl
  | cons kv r ih =>
    obtain ⟨k'', w⟩ := kv
    by_cases h1 : k'' = k <;> by_cases h2 : k'' = k'
    · exact absurd (h1.symm.trans h2) hne
    · subst h1
      simp [setKey, hne]
    · subst h2
      have hne' : ¬ k'' = k := fun h => hne h.symm
      simp [setKey, hne']
    · simp [setKey, h1, h2, ih]

theorem setKey_idem (k : String) (v w : Cfg) (kvs : Kvs) :
    setKey k v (setKey k w kvs) = setKey k v kvs := by
  induction kvs with
  | nil => rfl
  | cons kv r ih =>
    obtain ⟨k'', u⟩ := kv
    by_cases h1 : k'' = k
    · simp [setKey, h1]
    · simp [setKey, h1, ih]


/-! ### well-formedness -/

theorem wfKvs_cons {k : String} {v : Cfg} {r : Kvs} :
    wfKvs ((k, v) :: r) = true ↔ hasKey k r = false ∧ wf v = true ∧ wfKvs r = true := by
  rw [wfKvs]; simp [Bool.and_eq_true, and_assoc]

theorem wf_node {kvs : Kvs} : wf (.node kvs) = wfKvs kvs := by rw [wf]

theorem wfKvs_mem {kvs : Kvs} (h : wfKvs kvs = true) {kv : String × Cfg} (hm : kv ∈ kvs) :
    wf kv.2 = true := by
  induction kvs with
  | nil => cases hm
  | cons hd r ih =>
    obtain ⟨k, v⟩ := hd
    obtain ⟨_, hv, hr⟩ := wfKvs_cons.1 h
    cases hm with
    | head => exact hv
    | tail _ hm' => exact ih hr hm'

theorem wfKvs_lookup {kvs : Kvs} (h : wfKvs kvs = true) {kv : String × Cfg} (hm : kv ∈ kvs) :
    lookup kv.1 kvs = some kv.2 := by
  induction kvs with
  | nil => cases hm
  | cons hd r ih =>
    obtain ⟨k, v⟩ := hd
    obtain ⟨hk, _, hr⟩ := wfKvs_cons.1 h
    cases hm with
    | head => simp [lookup_cons]
    | tail _ hm' =>
      have hne : ¬ k = kv.1 := by
        intro he
        have : hasKey kv.1 r = true := by
          rw [hasKey_iff_mem_keys]; exact List.mem_map_of_mem (f := (·.1)) hm'
        rw [← he] at this; rw [hk] at this; cases this
      rw [lookup_cons]; simp [hne, ih hr hm']

theorem wfKvs_lookup_wf {kvs : Kvs} (h : wfKvs kvs = true) {k : String} {v : Cfg}
    (hl : lookup k kvs = some v) : wf v = true :=
  wfKvs_mem h (lookup_mem hl)

/-! ### merge -/

theorem merge_node_node (a b : Kvs) :
    merge (.node a) (.node b) = .node (mergeKvs a b ++ b.filter (fun kv => !(hasKey kv.1 a))) := by
  rw [merge]

theorem merge_leaf_left (v : Value) (c : Cfg) : merge (.leaf v) c = c := by
  cases c <;> rw [merge] <;> intro a b h <;> cases h

theorem merge_leaf_right (s : Cfg) (v : Value) : merge s (.leaf v) = .leaf v := by
  cases s <;> rw [merge] <;> intro a b _ h <;> cases h

/-- the entry `mergeKvs` writes for `(k, v)` of the left tree -/
def mergeEntry (b : Kvs) (k : String) (v : Cfg) : Cfg :=
  match lookup k b with
  | some w => merge v w
  | none => v

theorem mergeKvs_cons (k : String) (v : Cfg) (r b : Kvs) :
    mergeKvs ((k, v) :: r) b = (k, mergeEntry b k v) :: mergeKvs r b := by
  rw [mergeKvs]; rfl

@[simp] theorem mergeKvs_nil (b : Kvs) : mergeKvs [] b = [] := by rw [mergeKvs]

@[simp] theorem keys_mergeKvs (a b : Kvs) : keys (mergeKvs a b) = keys a := by
  induction a with
  | nil => simp [keys]
  | cons kv r ih =>
    obtain ⟨k, v⟩ := kv
    rw [mergeKvs_cons]; simp only [keys, List.map_cons] at ih ⊢; rw [ih]

theorem lookup_mergeKvs (k : String) (a b : Kvs) :
    lookup k (mergeKvs a b) = (lookup k a).map (mergeEntry b k) := by
  induction a with
  | nil => simp
  | cons kv r ih =>
    obtain ⟨k', v⟩ := kv
    rw [mergeKvs_cons, lookup_cons, lookup_cons]
    by_cases h : k' = k
    · subst h; simp
    · simp [h, ih]

theorem mergeKvs_congr {a b b' : Kvs} (h : ∀ kv ∈ a, mergeEntry b kv.1 kv.2 = mergeEntry b' kv.1 kv.2) :
    mergeKvs a b = mergeKvs a b' := by
  induction a with
  | nil => simp
  | cons kv r ih =>
    obtain ⟨k, v⟩ := kv
    rw [mergeKvs_cons, mergeKvs_cons, h (k, v) List.mem_cons_self,
      ih (fun kv hm => h kv (List.mem_cons_of_mem _ hm))]

theorem mergeKvs_eq_self {a b : Kvs} (h : ∀ kv ∈ a, mergeEntry b kv.1 kv.2 = kv.2) : mergeKvs a b = a := by
  induction a with
  | nil => simp
  | cons kv r ih =>
    obtain ⟨k, v⟩ := kv
    rw [mergeKvs_cons, h (k, v) List.mem_cons_self, ih (fun kv hm => h kv (List.mem_cons_of_mem _ hm))]

theorem lookup_append (k : String) (a b : Kvs) :
    lookup k (a ++ b) = if hasKey k a then lookup k a else lookup k b := by
  induction a with
  | nil => simp [hasKey]
  | cons kv r ih =>
    obtain ⟨k', v⟩ := kv
    rw [List.cons_append, lookup_cons, lookup_cons, hasKey_cons]
    by_cases h : k' = k
    · simp [h]
    · simp [h, ih]

theorem lookup_filter_not (k : String) (a b : Kvs) :
    lookup k (b.filter (fun kv => !(hasKey kv.1 a))) = if hasKey k a then none else lookup k b := by
  induction b with
  | nil => simp
  | cons kv r ih =>
    obtain ⟨k', v⟩ := kv
    rw [List.filter_cons]
    by_cases hk : hasKey k' a = true
    · simp only [hk, Bool.not_true, Bool.false_eq_true, if_false, ih, lookup_cons]
      by_cases h : k' = k
      · subst h; simp [hk]
      · simp [h]
    · have hk' : hasKey k' a = false := by simpa using hk
      simp only [hk', Bool.not_false, if_true, lookup_cons, ih]
      by_cases h : k' = k
      · subst h; simp [hk']
      · simp [h]

theorem filter_not_eq_nil {a b : Kvs} (h : ∀ kv ∈ b, hasKey kv.1 a = true) :
    b.filter (fun kv => !(hasKey kv.1 a)) = [] := by
  rw [List.filter_eq_nil_iff]
  intro kv hm; simp [h kv hm]

theorem merge_self_aux (c : Cfg) : wf c = true → merge c c = c := by
  induction c using Cfg.ind with
  | hleaf v => intro _; exact merge_leaf_left _ _
  | hnode kvs ih =>
    intro hw
    rw [wf_node] at hw
    rw [merge_node_node]
    have h1 : kvs.filter (fun kv => !(hasKey kv.1 kvs)) = [] :=
      filter_not_eq_nil (fun kv hm => by
        rw [hasKey_iff_mem_keys]; exact List.mem_map_of_mem (f := (·.1)) hm)
    have h2 : mergeKvs kvs kvs = kvs :=
      mergeKvs_eq_self (fun kv hm => by
        unfold mergeEntry
        rw [wfKvs_lookup hw hm]
        exact ih kv hm (wfKvs_mem hw hm))
    rw [h1, h2, List.append_nil]

theorem merge_idem_aux (s : Cfg) : wf s = true → ∀ c, merge s (merge s c) = merge s c := by
  induction s using Cfg.ind with
  | hleaf v => intro _ c; rw [merge_leaf_left, merge_leaf_left]
  | hnode a ih =>
    intro hw c
    rw [wf_node] at hw
    cases c with
    | leaf v => rw [merge_leaf_right, merge_leaf_right]
    | node b =>
      rw [merge_node_node, merge_node_node]
      congr 1
      have hfil : (mergeKvs a b ++ b.filter (fun kv => !(hasKey kv.1 a))).filter (fun kv => !(hasKey kv.1 a))
          = b.filter (fun kv => !(hasKey kv.1 a)) := by
        rw [List.filter_append, List.filter_filter]
        have : (mergeKvs a b).filter (fun kv => !(hasKey kv.1 a)) = [] := by
          apply filter_not_eq_nil
          intro kv hm
          rw [hasKey_iff_mem_keys, ← keys_mergeKvs a b]
          exact List.mem_map_of_mem (f := (·.1)) hm
        rw [this, List.nil_append]
        congr 1; funext kv; simp
      rw [hfil]
      congr 1
      apply mergeKvs_congr
      intro kv hm
      have hka : hasKey kv.1 (mergeKvs a b) = true := by
        rw [hasKey_iff_mem_keys, keys_mergeKvs]; exact List.mem_map_of_mem (f := (·.1)) hm
      have hl : lookup kv.1 (mergeKvs a b ++ b.filter (fun kv => !(hasKey kv.1 a)))
          = some (mergeEntry b kv.1 kv.2) := by
        rw [lookup_append, hka, if_pos rfl, lookup_mergeKvs, wfKvs_lookup hw hm]; rfl
      have hwv := wfKvs_mem hw hm
      show mergeEntry _ kv.1 kv.2 = mergeEntry b kv.1 kv.2
      conv => lhs; unfold mergeEntry
      rw [hl]
      show merge kv.2 (mergeEntry b kv.1 kv.2) = mergeEntry b kv.1 kv.2
      unfold mergeEntry
      cases hb : lookup kv.1 b with
      | none => exact merge_self_aux _ hwv
      | some w => exact ih kv hm hwv w

theorem merge_lossless_aux (p : List String) : ∀ (s c : Cfg) (v : Value),
    getPath p c = some (.leaf v) → getPath p (merge s c) = some (.leaf v) := by
  induction p with
  | nil =>
    intro s c v h
    simp only [getPath, Option.some.injEq] at h
    subst h; rw [merge_leaf_right]; rfl
  | cons k p ih =>
    intro s c v h
    cases c with
    | leaf w => simp [getPath] at h
    | node b =>
      cases s with
      | leaf u => rw [merge_leaf_left]; exact h
      | node a =>
        rw [merge_node_node]
        simp only [getPath] at h ⊢
        cases hb : lookup k b with
        | none => rw [hb] at h; simp at h
        | some c' =>
          rw [hb] at h
          simp only at h
          rw [lookup_append]
          by_cases hka : hasKey k a = true
          · have hka' : hasKey k (mergeKvs a b) = true := by
              rw [hasKey_iff_mem_keys, keys_mergeKvs, ← hasKey_iff_mem_keys]; exact hka
            rw [hka', if_pos rfl, lookup_mergeKvs]
            cases ha : lookup k a with
            | none => unfold hasKey at hka; rw [ha] at hka; cases hka
            | some v0 =>
              simp only [Option.map_some, mergeEntry, hb]
              exact ih v0 c' v h
          · have hka0 : hasKey k a = false := by simpa using hka
            have hka' : hasKey k (mergeKvs a b) = false := by
              cases hx : hasKey k (mergeKvs a b) with
              | false => rfl
              | true =>
                rw [hasKey_iff_mem_keys, keys_mergeKvs, ← hasKey_iff_mem_keys] at hx
                rw [hx] at hka0; cases hka0
            rw [hka']
            simp only [Bool.false_eq_true, if_false]
            rw [lookup_filter_not, hka0]
            simp only [Bool.false_eq_true, if_false, hb]
            exact h


/-! ### verify -/

theorem keys_topFill (s c : Kvs) : keys (topFill s c) = keys s := by
  unfold topFill keys; rw [List.map_map]; rfl

theorem verify_ok {s c r : Cfg} (h : verify s c = .ok r) :
    ∃ sk ck, s = .node sk ∧ c = .node ck ∧ (∀ kv ∈ ck, hasKey kv.1 sk = true) ∧
      r = merge (.node (topFill sk ck)) (.node ck) ∧ hasMissing r = false := by
  cases s with
  | leaf v => simp [verify] at h
  | node sk =>
    cases c with
    | leaf v => simp [verify] at h
    | node ck =>
      refine ⟨sk, ck, rfl, rfl, ?_⟩
      unfold verify at h
      by_cases hany : (ck.any fun kv => !(hasKey kv.1 sk)) = true
      · simp [hany] at h
      · simp only [hany, Bool.false_eq_true, if_false] at h
        by_cases hm : hasMissing (merge (.node (topFill sk ck)) (.node ck)) = true
        · simp [hm] at h
        · simp only [hm, Bool.false_eq_true, if_false, Except.ok.injEq] at h
          refine ⟨?_, h.symm, ?_⟩
          · intro kv hkv
            rw [List.any_eq_true] at hany
            cases hh : hasKey kv.1 sk with
            | true => rfl
            | false => exact absurd ⟨kv, hkv, by simp [hh]⟩ hany
          · rw [← h]; simpa using hm

theorem lookup_topFill (k : String) (s c : Kvs) :
    lookup k (topFill s c) = (lookup k s).map (fun d => (lookup k c).getD d) := by
  induction s with
  | nil => simp [topFill]
  | cons kv r ih =>
    obtain ⟨k', d⟩ := kv
    simp only [topFill, List.map_cons] at ih ⊢
    rw [lookup_cons, lookup_cons]
    by_cases h : k' = k
    · subst h; simp
    · simp [h, ih]

theorem wfKvs_of_map {s : Kvs} {f : String × Cfg → Cfg} (hs : wfKvs s = true)
    (hf : ∀ kv ∈ s, wf (f kv) = true) : wfKvs (s.map (fun kv => (kv.1, f kv))) = true := by
  induction s with
  | nil => rfl
  | cons kv r ih =>
    obtain ⟨k, v⟩ := kv
    obtain ⟨hk, _, hr⟩ := wfKvs_cons.1 hs
    simp only [List.map_cons]
    rw [wfKvs_cons]
    refine ⟨?_, hf (k, v) List.mem_cons_self, ih hr (fun kv hm => hf kv (List.mem_cons_of_mem _ hm))⟩
    cases hx : hasKey k (r.map (fun kv => (kv.1, f kv))) with
    | false => rfl
    | true =>
      rw [hasKey_iff_mem_keys] at hx
      have : keys (r.map (fun kv => (kv.1, f kv))) = keys r := by
        unfold keys; rw [List.map_map]; rfl
      rw [this, ← hasKey_iff_mem_keys, hk] at hx; cases hx

theorem wfKvs_topFill {s c : Kvs} (hs : wfKvs s = true) (hc : wfKvs c = true) :
    wfKvs (topFill s c) = true := by
  unfold topFill
  apply wfKvs_of_map hs
  intro kv hm
  cases hl : lookup kv.1 c with
  | none => simpa using wfKvs_mem hs hm
  | some w => simpa using wfKvs_lookup_wf hc hl

/-- with a well-formed configuration the normal form is just "caller's sections, else defaults" -/
theorem verify_eq_topFill {sk ck : Kvs} (hc : wfKvs ck = true) (hsub : ∀ kv ∈ ck, hasKey kv.1 sk = true) :
    merge (.node (topFill sk ck)) (.node ck) = .node (topFill sk ck) := by
  rw [merge_node_node]
  have h1 : ck.filter (fun kv => !(hasKey kv.1 (topFill sk ck))) = [] := by
    apply filter_not_eq_nil
    intro kv hm
    rw [hasKey_iff_mem_keys, keys_topFill, ← hasKey_iff_mem_keys]; exact hsub kv hm
  have h2 : mergeKvs (topFill sk ck) ck = topFill sk ck := by
    apply mergeKvs_eq_self
    intro kv hm
    unfold topFill at hm
    rw [List.mem_map] at hm
    obtain ⟨kv0, _, rfl⟩ := hm
    unfold mergeEntry
    cases hl : lookup kv0.1 ck with
    | none => simp
    | some w => simpa using merge_self_aux w (wfKvs_lookup_wf hc hl)
  rw [h1, h2, List.append_nil]

theorem topFill_self {sk : Kvs} (hs : wfKvs sk = true) (c : Kvs) :
    topFill sk (topFill sk c) = topFill sk c := by
  unfold topFill
  apply List.map_congr_left
  intro kv hm
  have := lookup_topFill kv.1 sk c
  unfold topFill at this
  rw [this, wfKvs_lookup hs hm]
  simp

/-- complete configuration with the schema's sections in the schema's order -/
theorem topFill_of_keys_eq : ∀ {sk ck : Kvs}, keys ck = keys sk → wfKvs ck = true → topFill sk ck = ck := by
  intro sk
  induction sk with
  | nil => intro ck h _; cases ck with
    | nil => rfl
    | cons _ _ => simp [keys] at h
  | cons kv r ih =>
    intro ck h hc
    obtain ⟨k, d⟩ := kv
    cases ck with
    | nil => simp [keys] at h
    | cons kv' r' =>
      obtain ⟨k', v⟩ := kv'
      simp only [keys, List.map_cons, List.cons.injEq] at h
      obtain ⟨hk, hr⟩ := h
      subst hk
      obtain ⟨hnk, _, hr'⟩ := wfKvs_cons.1 hc
      simp only [topFill, List.map_cons, lookup_cons, if_true, Option.getD_some]
      congr 1
      have ih' := ih (ck := r') hr hr'
      unfold topFill at ih'
      rw [← ih']
      apply List.map_congr_left
      intro kv hm
      have hne : ¬ k' = kv.1 := by
        intro he
        have : hasKey kv.1 r' = true := by
          rw [hasKey_iff_mem_keys]
          show kv.1 ∈ keys r'
          unfold keys; rw [hr]; exact List.mem_map_of_mem (f := (·.1)) hm
        rw [← he, hnk] at this; cases this
      simp [hne, ih']

/-! ### construct -/

theorem foldl_setKey_keys (kw : Kvs) (kvs : Kvs) :
    keys (kw.foldl (fun acc kv => setKey kv.1 kv.2 acc) kvs) = keys kvs := by
  induction kw generalizing kvs with
  | nil => rfl
  | cons kv r ih => simp only [List.foldl_cons]; rw [ih, keys_setKey]

theorem lookup_foldl_setKey_not_mem {k : String} (kw : Kvs) (kvs : Kvs) (h : k ∉ keys kw) :
    lookup k (kw.foldl (fun acc kv => setKey kv.1 kv.2 acc) kvs) = lookup k kvs := by
  induction kw generalizing kvs with
  | nil => rfl
  | cons kv r ih =>
    simp only [keys, List.map_cons, List.mem_cons, not_or] at h
    simp only [List.foldl_cons]
    rw [ih _ h.2, lookup_setKey_ne]
    exact fun he => h.1 he.symm

theorem lookup_foldl_setKey_mem {k : String} {v : Cfg} (kw : Kvs) (kvs : Kvs)
    (hnd : (keys kw).Nodup) (hm : (k, v) ∈ kw) (hk : hasKey k kvs = true) :
    lookup k (kw.foldl (fun acc kv => setKey kv.1 kv.2 acc) kvs) = some v := by
  induction kw generalizing kvs with
  | nil => cases hm
  | cons kv r ih =>
    simp only [keys, List.map_cons, List.nodup_cons] at hnd
    simp only [List.foldl_cons]
    cases hm with
    | head =>
      rw [lookup_foldl_setKey_not_mem _ _ hnd.1]
      exact lookup_setKey_self hk
    | tail _ hm' =>
      apply ih _ hnd.2 hm'
      rw [hasKey_setKey]; exact hk

theorem construct_ok {d : Cfg} {kw : Kvs} {r : Cfg} (h : construct d kw = .ok r) :
    ∃ kvs, d = .node kvs ∧ (∀ kv ∈ kw, hasKey kv.1 kvs = true) ∧
      r = .node (kw.foldl (fun acc kv => setKey kv.1 kv.2 acc) kvs) := by
  cases d with
  | leaf v => simp [construct] at h
  | node kvs =>
    refine ⟨kvs, rfl, ?_⟩
    unfold construct at h
    by_cases hall : (kw.all fun kv => hasKey kv.1 kvs) = true
    · simp only [hall, if_true, Except.ok.injEq] at h
      exact ⟨by simpa [List.all_eq_true] using hall, h.symm⟩
    · simp [hall] at h

end SleapVerif.Config
