import SleapVerif.Lemmas.TrackerInv
import Mathlib.Algebra.Order.Field.Basic
import Mathlib.Tactic.Linarith
import Mathlib.Order.WithBot
/-!
# Identity continuity (C10): dominance survives the reduction, greedy picks the dominant edges
-/
namespace SleapVerif.Tracker

/-! ## reductions preserve dominance -/

section red
variable {R : Type} [Field R] [LinearOrder R] [IsStrictOrderedRing R]

theorem foldl_add_ge (c : R) (L : List R) (h : ∀ x ∈ L, c ≤ x) (a : R) :
    a + (L.length : R) * c ≤ L.foldl (· + ·) a := by
  induction L generalizing a with
  | nil => simp
  | cons x xs ih =>
    have hx : c ≤ x := h x (by simp)
    have := ih (fun y hy => h y (List.mem_cons_of_mem _ hy)) (a + x)
    simp only [List.foldl_cons, List.length_cons, Nat.cast_add, Nat.cast_one]
    linarith

theorem foldl_add_le (c : R) (L : List R) (h : ∀ x ∈ L, x ≤ c) (a : R) :
    L.foldl (· + ·) a ≤ a + (L.length : R) * c := by
  induction L generalizing a with
  | nil => simp
  | cons x xs ih =>
    have hx : x ≤ c := h x (by simp)
    have := ih (fun y hy => h y (List.mem_cons_of_mem _ hy)) (a + x)
    simp only [List.foldl_cons, List.length_cons, Nat.cast_add, Nat.cast_one]
    linarith

/-- mean of a non-empty list of values all above `c` is above `c` -/
theorem mean_gt (c x : R) (xs : List R) (h : ∀ y ∈ x :: xs, c < y) :
    c < (x :: xs).foldl (· + ·) 0 / ((xs.length + 1 : Nat) : R) := by
  have hpos : (0 : R) < ((xs.length + 1 : Nat) : R) := by exact_mod_cast Nat.succ_pos _
  rw [lt_div_iff₀ hpos]
  have h1 := foldl_add_ge c xs (fun y hy => le_of_lt (h y (List.mem_cons_of_mem _ hy))) (0 + x)
  have hx := h x (by simp)
  simp only [List.foldl_cons]
  push_cast
  linarith

theorem mean_lt (c x : R) (xs : List R) (h : ∀ y ∈ x :: xs, y < c) :
    (x :: xs).foldl (· + ·) 0 / ((xs.length + 1 : Nat) : R) < c := by
  have hpos : (0 : R) < ((xs.length + 1 : Nat) : R) := by exact_mod_cast Nat.succ_pos _
  rw [div_lt_iff₀ hpos]
  have h1 := foldl_add_le c xs (fun y hy => le_of_lt (h y (List.mem_cons_of_mem _ hy))) (0 + x)
  have hx := h x (by simp)
  simp only [List.foldl_cons]
  push_cast
  linarith

omit [Field R] [IsStrictOrderedRing R] in
theorem foldl_max_mem' (x : R) (xs : List R) :
    xs.foldl (fun a b => if a < b then b else a) x ∈ x :: xs := by
  induction xs generalizing x with
  | nil => simp
  | cons y ys ih =>
    simp only [List.foldl_cons]
    have := ih (if x < y then y else x)
    rcases List.mem_cons.1 this with h | h
    · rw [h]; split <;> simp
    · simp [h]

/-- **`np.nanmean` / `np.nanmax` preserve strict dominance**: if every score in `L1` beats every
    score in `L2` (both windows non-empty), the reduced score of `L1` beats that of `L2`. -/
theorem reduceP_dominance (rd : Reduction) (L1 L2 : List R) (h1 : L1 ≠ []) (h2 : L2 ≠ [])
    (h : ∀ x ∈ L1, ∀ y ∈ L2, y < x) :
    ∃ a b, reduceP rd L1 = some a ∧ reduceP rd L2 = some b ∧ b < a := by
  cases L1 with
  | nil => exact absurd rfl h1
  | cons x xs =>
    cases L2 with
    | nil => exact absurd rfl h2
    | cons y ys =>
      cases rd with
      | mean =>
        refine ⟨_, _, rfl, rfl, ?_⟩
        have hA : ∀ z ∈ y :: ys, z < (x :: xs).foldl (· + ·) 0 / ((xs.length + 1 : Nat) : R) :=
          fun z hz => mean_gt z x xs (fun w hw => h w hw z hz)
        exact mean_lt _ y ys hA
      | max =>
        refine ⟨_, _, rfl, rfl, ?_⟩
        exact h _ (foldl_max_mem' x xs) _ (foldl_max_mem' y ys)

end red

/-! ## greedy on a sorted edge list picks the dominant edges -/

section greedyId
variable {C : Type} [Preorder C]

/-- on an ascending edge list, an edge that greedy does not choose is blocked by a chosen edge
    that is no more expensive -/
theorem greedy_sorted_blocks (cost : Nat × Nat → C) (l : List (Nat × Nat))
    (hs : l.Pairwise (fun a b => cost a ≤ cost b)) :
    ∀ e ∈ l, e ∈ greedy l ∨ ∃ g ∈ greedy l, (g.1 = e.1 ∨ g.2 = e.2) ∧ cost g ≤ cost e := by
  induction l using greedy_ind with
  | nil => simp
  | cons h rest ih =>
    rw [greedy_cons]
    intro e he
    rcases List.mem_cons.1 he with h0 | h0
    · left; simp [h0]
    · have hle : cost h ≤ cost e := (List.pairwise_cons.1 hs).1 e h0
      by_cases hc : e.1 = h.1 ∨ e.2 = h.2
      · right
        exact ⟨h, by simp, by rcases hc with h1 | h1 <;> simp [h1], hle⟩
      · have hm : e ∈ rest.filter fun y => y.1 != h.1 && y.2 != h.2 := by
          simp only [List.mem_filter, bne_iff_ne, ne_eq, Bool.and_eq_true]
          exact ⟨h0, fun h1 => hc (Or.inl h1), fun h1 => hc (Or.inr h1)⟩
        have hs' : (rest.filter fun y => y.1 != h.1 && y.2 != h.2).Pairwise
            (fun a b => cost a ≤ cost b) :=
          List.Pairwise.sublist List.filter_sublist (List.pairwise_cons.1 hs).2
        rcases ih hs' e hm with h1 | ⟨g, hg, hg'⟩
        · left; exact List.mem_cons_of_mem _ h1
        · right; exact ⟨g, List.mem_cons_of_mem _ hg, hg'⟩

/-- **greedy picks the identity**: if the edge list is ascending in cost and every edge of `ident`
    is strictly cheaper than every other edge in its row and in its column, greedy chooses all of
    `ident`; if moreover every edge touches an `ident` edge (all rows or all columns are covered),
    greedy chooses nothing else. -/
theorem greedy_picks_identity (cost : Nat × Nat → C) (l ident : List (Nat × Nat))
    (hs : l.Pairwise (fun a b => cost a ≤ cost b)) (hsub : ∀ e ∈ ident, e ∈ l)
    (hdom : ∀ e ∈ ident, ∀ g ∈ l, g ≠ e → (g.1 = e.1 ∨ g.2 = e.2) → cost e < cost g) :
    (∀ e ∈ ident, e ∈ greedy l) ∧
    ((∀ g ∈ l, ∃ e ∈ ident, e.1 = g.1 ∨ e.2 = g.2) → ∀ g ∈ greedy l, g ∈ ident) := by
  have hin : ∀ e ∈ ident, e ∈ greedy l := by
    intro e he
    rcases greedy_sorted_blocks cost l hs e (hsub e he) with h | ⟨g, hg, hrc, hle⟩
    · exact h
    · by_cases hge : g = e
      · rw [← hge]; exact hg
      · exact absurd (lt_of_lt_of_le (hdom e he g (greedy_mem l g hg) hge hrc) hle) (lt_irrefl _)
  refine ⟨hin, ?_⟩
  intro hcov g hg
  obtain ⟨e, he, hrc⟩ := hcov g (greedy_mem l g hg)
  by_cases hge : e = g
  · rw [← hge]; exact he
  · exfalso
    have hp := greedy_pairwise l
    have : e.1 ≠ g.1 ∧ e.2 ≠ g.2 := by
      rw [List.pairwise_iff_getElem] at hp
      obtain ⟨i, hi, hie⟩ := List.getElem_of_mem (hin e he)
      obtain ⟨j, hj, hje⟩ := List.getElem_of_mem hg
      rcases Nat.lt_trichotomy i j with h | h | h
      · have := hp i j hi hj h; rw [hie, hje] at this; exact this
      · subst h; exact absurd (hie.symm.trans hje) hge
      · have := hp j i hj hi h; rw [hie, hje] at this
        exact ⟨fun h' => this.1 h'.symm, fun h' => this.2 h'.symm⟩
    rcases hrc with h | h
    · exact this.1 h
    · exact this.2 h

end greedyId


/-! ## the matching stage on a dominant matrix -/

section stageId
variable {R : Type} [LinearOrder R]

/-- a cost entry as an element of `R ∪ {+∞}` -/
def toTop : Option R → WithTop R
  | none => ⊤
  | some x => (x : WithTop R)

/-- entry `(row, col)` of a cost matrix (`+∞` outside) -/
def entry (M : List (List (Option R))) (e : Nat × Nat) : WithTop R :=
  toTop ((M.getD e.1 []).getD e.2 none)

/-- numpy contract needed for C10: the argsort order is ascending in cost -/
def ArgsortSorted (ext : Ext R) : Prop :=
  ∀ M : List (List (Option R)), (ext.argsort M).Pairwise (fun a b => entry M a ≤ entry M b)

/-- `ident` is dominant in the cost matrix: each of its edges is strictly cheaper than every other
    in-bounds edge of the same row or column -/
def Dominant (cost : List (List (Option R))) (m : Nat) (ident : List (Nat × Nat)) : Prop :=
  ∀ e ∈ ident, ∀ g : Nat × Nat, g.1 < cost.length → g.2 < m → g ≠ e → (g.1 = e.1 ∨ g.2 = e.2) →
    entry cost e < entry cost g

omit [LinearOrder R] in
theorem validCols_full {m : Nat} {cost : List (List (Option R))} (hne : cost ≠ [])
    (hrect : ∀ row ∈ cost, row.length = m)
    (hsome : ∀ row ∈ cost, ∀ o ∈ row, o ≠ none) : validCols true m cost = List.range m := by
  simp only [validCols, if_true]
  rw [List.filter_eq_self]
  intro c hc
  obtain ⟨row, hrow⟩ := List.exists_mem_of_ne_nil _ hne
  rw [List.any_eq_true]
  refine ⟨row, hrow, ?_⟩
  have hc' : c < row.length := by rw [hrect row hrow]; exact List.mem_range.1 hc
  rw [List.getD_eq_getElem?_getD, List.getElem?_eq_getElem hc', Option.getD_some]
  have := hsome row hrow row[c] (List.getElem_mem _)
  cases h : row[c] with
  | none => exact absurd h this
  | some x => rfl

omit [LinearOrder R] in
theorem subMatrix_full {m : Nat} {cost : List (List (Option R))}
    (hrect : ∀ row ∈ cost, row.length = m) : subMatrix cost (List.range m) = cost := by
  unfold subMatrix
  conv_rhs => rw [← List.map_id cost]
  apply List.map_congr_left
  intro row hrow
  apply List.ext_getElem
  · simp [hrect row hrow]
  · intro i h1 h2
    have h3 : i < row.length := h2
    simp [List.getD_eq_getElem?_getD, List.getElem?_eq_getElem h3]

/-- **the repaired greedy matching stage returns exactly the identity edges** when they dominate
    the cost matrix, every track has a candidate (no `+∞`), and every edge touches an identity edge
    (all known animals visible, or no newcomer). -/
theorem greedy_stage_identity {ext : Ext R} (hext : ExtOk ext) (hsort : ArgsortSorted ext)
    (m : Nat) (cost : List (List (Option R))) (hne : cost ≠ [])
    (hrect : ∀ row ∈ cost, row.length = m) (hsome : ∀ row ∈ cost, ∀ o ∈ row, o ≠ none)
    (ident : List (Nat × Nat)) (hb : ∀ e ∈ ident, e.1 < cost.length ∧ e.2 < m)
    (hdom : Dominant cost m ident)
    (hcov : ∀ g : Nat × Nat, g.1 < cost.length → g.2 < m → ∃ e ∈ ident, e.1 = g.1 ∨ e.2 = g.2) :
    ∃ ms, assignStage Fixes.repaired .greedy ext m cost = .ok ms ∧ ∀ p, p ∈ ms ↔ p ∈ ident := by
  have hv := validCols_full hne hrect hsome
  have hsub := subMatrix_full hrect
  have hmem := hext.argsort cost m hrect
  have hback : ∀ ps : List (Nat × Nat), (∀ p ∈ ps, p.2 < m) →
      ps.map (fun p => (p.1, (List.range m).getD p.2 0)) = ps := by
    intro ps hps
    conv_rhs => rw [← List.map_id ps]
    apply List.map_congr_left
    intro p hp
    have := hps p hp
    simp [List.getD_eq_getElem?_getD, this]
  have hG := greedy_picks_identity (entry cost) (ext.argsort cost) ident (hsort cost)
    (fun e he => (hmem e).2 (hb e he))
    (fun e he g hg hge hrc => hdom e he g ((hmem g).1 hg).1 ((hmem g).1 hg).2 hge hrc)
  refine ⟨greedy (ext.argsort cost), ?_, ?_⟩
  · simp only [assignStage, Fixes.repaired, hv, hsub]
    rw [hback _ (fun p hp => ((hmem p).1 (greedy_mem _ p hp)).2)]
  · intro p
    constructor
    · intro hp
      exact hG.2 (fun g hg => hcov g ((hmem g).1 hg).1 ((hmem g).1 hg).2) p hp
    · intro hp; exact hG.1 p hp

end stageId

/-! ## ids after allocation when the matches are the identity edges -/

section idsId
variable {R : Type} [LT R] [DecidableLT R]

/-- known animals keep their track, newcomers above the threshold get an id `≥ m` (never held) -/
theorem identity_ids (thr : R) (ss : List R) (m : Nat) (ms ident : List (Nat × Nat))
    (hv : MatchValid ss.length m ms) (hset : ∀ p, p ∈ ms ↔ p ∈ ident) :
    (∀ i t, (i, t) ∈ ident →
      (allocate thr ss (assignIds ss.length ms) (List.range m)).1[i]? = some (some t)) ∧
    (∀ i (h : i < ss.length), (∀ t, (i, t) ∉ ident) → thr < ss[i] →
      ∃ t, m ≤ t ∧ (allocate thr ss (assignIds ss.length ms) (List.range m)).1[i]? = some (some t)) := by
  have H := allocate_spec' thr ss (assignIds ss.length ms) m (assignIds_length _ _)
    (fun t ht => by
      obtain ⟨i, hi⟩ := assignIds_mem_some hv ht
      exact (hv.bounds _ hi).2)
    (assignIds_distinct hv)
  constructor
  · intro i t hit
    exact H.keep i t (assignIds_of_mem hv ((hset _).2 hit))
  · intro i h hnone hthr
    have hrow : i ∉ ms.map (·.1) := by
      intro hmem
      obtain ⟨p, hp, rfl⟩ := List.mem_map.1 hmem
      exact hnone p.2 ((hset _).1 hp)
    exact H.fresh i h (assignIds_none h hrow) hthr

end idsId


/-! ## from feature-level separation to a dominant cost matrix -/

section sep
variable {R φ : Type} [Field R] [LinearOrder R] [IsStrictOrderedRing R]

/-- **Separated** (relative to the identity edges `ident` and the window contents `cands`):
    the detection of an animal scores strictly higher against every stored feature of its own track
    than (row) against any stored feature of another track, and than (col) any other detection of
    the frame scores against any stored feature of that track. -/
structure Separated (score : φ → φ → R) (cands : Nat → List φ) (m : Nat) (cur : List φ)
    (ident : List (Nat × Nat)) : Prop where
  row : ∀ e ∈ ident, ∀ (h : e.1 < cur.length) (t' : Nat), t' < m → t' ≠ e.2 →
    ∀ f ∈ cands e.2, ∀ f' ∈ cands t', score cur[e.1] f' < score cur[e.1] f
  col : ∀ e ∈ ident, ∀ (h : e.1 < cur.length) (i' : Nat) (h' : i' < cur.length), i' ≠ e.1 →
    ∀ f ∈ cands e.2, ∀ f' ∈ cands e.2, score cur[i'] f' < score cur[e.1] f

omit [IsStrictOrderedRing R] in
theorem entry_cost (rd : Reduction) (score : φ → φ → R) (cands : Nat → List φ) (m : Nat)
    (cur : List φ) (i t : Nat) (hi : i < cur.length) (ht : t < m) :
    entry (toCost (scoreMatrixP rd score cands m cur)) (i, t) =
      toTop ((reduceP rd ((cands t).map (score cur[i]))).map (fun x => -x)) := by
  simp [entry, toCost, scoreMatrixP, List.getD_eq_getElem?_getD, hi, ht]

/-- the reduced, negated score matrix is rectangular, finite and dominated by `ident` -/
theorem score_matrix_dominant (rd : Reduction) (score : φ → φ → R) (cands : Nat → List φ)
    (m : Nat) (cur : List φ) (ident : List (Nat × Nat))
    (hb : ∀ e ∈ ident, e.1 < cur.length ∧ e.2 < m) (hns : ∀ t, t < m → cands t ≠ [])
    (hsep : Separated score cands m cur ident) :
    (∀ row ∈ toCost (scoreMatrixP rd score cands m cur), row.length = m) ∧
    (∀ row ∈ toCost (scoreMatrixP rd score cands m cur), ∀ o ∈ row, o ≠ none) ∧
    Dominant (toCost (scoreMatrixP rd score cands m cur)) m ident := by
  refine ⟨?_, ?_, ?_⟩
  · intro row hrow
    simp only [toCost, scoreMatrixP, List.map_map, List.mem_map] at hrow
    obtain ⟨f, _, rfl⟩ := hrow
    simp
  · intro row hrow o ho
    simp only [toCost, scoreMatrixP, List.map_map, List.mem_map] at hrow
    obtain ⟨f, _, rfl⟩ := hrow
    simp only [Function.comp_apply, List.map_map, List.mem_map, List.mem_range] at ho
    obtain ⟨t, ht, rfl⟩ := ho
    have := reduceP_isSome rd (l := (cands t).map (score f)) (by simpa using hns t ht)
    obtain ⟨a, ha⟩ := Option.isSome_iff_exists.1 this
    simp [ha]
  · intro e he g hg1 hg2 hge hrc
    obtain ⟨he1, he2⟩ := hb e he
    have hlen : (toCost (scoreMatrixP rd score cands m cur)).length = cur.length := by
      rw [toCost_length, scoreMatrixP_length]
    rw [hlen] at hg1
    have hdomL : ∀ x ∈ (cands e.2).map (score cur[e.1]), ∀ y ∈ (cands g.2).map (score cur[g.1]),
        y < x := by
      intro x hx y hy
      obtain ⟨f, hf, rfl⟩ := List.mem_map.1 hx
      obtain ⟨f', hf', rfl⟩ := List.mem_map.1 hy
      by_cases hrow : g.1 = e.1
      · have hcol : g.2 ≠ e.2 := by
          intro h; apply hge; exact Prod.ext hrow h
        have := hsep.row e he he1 g.2 hg2 hcol f hf f' hf'
        simpa [hrow] using this
      · have hcol : g.2 = e.2 := by
          rcases hrc with h | h
          · exact absurd h hrow
          · exact h
        rw [hcol] at hf'
        exact hsep.col e he he1 g.1 hg1 hrow f hf f' hf'
    obtain ⟨a, b, ha, hb', hlt⟩ := reduceP_dominance rd _ _
      (by simpa using hns e.2 he2) (by simpa using hns g.2 hg2) hdomL
    have e1 := entry_cost rd score cands m cur e.1 e.2 he1 he2
    have e2 := entry_cost rd score cands m cur g.1 g.2 hg1 hg2
    rw [show e = (e.1, e.2) from rfl, show g = (g.1, g.2) from rfl, e1, e2, ha, hb']
    simp only [Option.map_some, toTop]
    exact WithTop.coe_lt_coe.2 (neg_lt_neg hlt)

end sep


/-! ## Hungarian: the optimum-uniqueness contract as a hypothesis -/

section hung
variable {R : Type} [LinearOrder R]

/-- scipy contract assumed for C10 (validated per recorded call by the harness, not proved):
    on a finite cost matrix in which `ident` is dominant and touches every edge, the optimal
    assignment is exactly `ident`. -/
def LsaPicksIdentity (ext : Ext R) : Prop :=
  ∀ (m : Nat) (cost : List (List (Option R))) (ident : List (Nat × Nat)),
    cost ≠ [] → (∀ row ∈ cost, row.length = m) → (∀ row ∈ cost, ∀ o ∈ row, o ≠ none) →
    (∀ e ∈ ident, e.1 < cost.length ∧ e.2 < m) → Dominant cost m ident →
    (∀ g : Nat × Nat, g.1 < cost.length → g.2 < m → ∃ e ∈ ident, e.1 = g.1 ∨ e.2 = g.2) →
    ∀ p, p ∈ ext.lsa cost ↔ p ∈ ident

theorem hungarian_stage_identity {ext : Ext R} (hpick : LsaPicksIdentity ext)
    (m : Nat) (cost : List (List (Option R))) (hne : cost ≠ [])
    (hrect : ∀ row ∈ cost, row.length = m) (hsome : ∀ row ∈ cost, ∀ o ∈ row, o ≠ none)
    (ident : List (Nat × Nat)) (hb : ∀ e ∈ ident, e.1 < cost.length ∧ e.2 < m)
    (hdom : Dominant cost m ident)
    (hcov : ∀ g : Nat × Nat, g.1 < cost.length → g.2 < m → ∃ e ∈ ident, e.1 = g.1 ∨ e.2 = g.2) :
    ∃ ms, assignStage Fixes.repaired .hungarian ext m cost = .ok ms ∧ ∀ p, p ∈ ms ↔ p ∈ ident := by
  have hv := validCols_full hne hrect hsome
  have hsub := subMatrix_full hrect
  have hP := hpick m cost ident hne hrect hsome hb hdom hcov
  have hinf := infeasible_sub m cost
  rw [hv, hsub] at hinf
  have hback : (ext.lsa cost).map (fun p => (p.1, (List.range m).getD p.2 0)) = ext.lsa cost := by
    conv_rhs => rw [← List.map_id (ext.lsa cost)]
    apply List.map_congr_left
    intro p hp
    have := (hb p ((hP p).1 hp)).2
    simp [List.getD_eq_getElem?_getD, this]
  refine ⟨ext.lsa cost, ?_, hP⟩
  have hinf' : infeasible m cost = false := by simpa using hinf
  unfold assignStage
  simp only [Fixes.repaired, hv, hsub, List.length_range, hinf', Bool.false_eq_true, if_false, hback]

end hung

/-! ## one step of the tracker when the matching stage returns the identity edges -/

section stepId
variable {R φ : Type} [LT R] [DecidableLT R] [Add R] [Div R] [OfNat R 0] [NatCast R] [Neg R]

/-- what "identity preserved" means for one frame: detections of known animals keep their track,
    newcomers above the threshold get an id `≥ m` that nobody held -/
def IdentityStep (thr : R) (m : Nat) (cur : List (φ × R)) (ident : List (Nat × Nat))
    (ids : List (Option Nat)) : Prop :=
  (∀ i t, (i, t) ∈ ident → ids[i]? = some (some t)) ∧
  (∀ i (h : i < cur.length), (∀ t, (i, t) ∉ ident) → thr < cur[i].2 →
    ∃ t, m ≤ t ∧ ids[i]? = some (some t))

omit [Add R] [Div R] [OfNat R 0] [NatCast R] [Neg R] in
theorem identityStep_of_alloc (thr : R) (m : Nat) (cur : List (φ × R)) (ms ident : List (Nat × Nat))
    (hv : MatchValid cur.length m ms) (hset : ∀ p, p ∈ ms ↔ p ∈ ident) (tracks : List Nat)
    (htr : tracks = List.range m) :
    IdentityStep thr m cur ident
      (allocate thr (cur.map (·.2)) (assignIds cur.length ms) tracks).1 := by
  subst htr
  have H := identity_ids thr (cur.map (·.2)) m ms ident (by simpa using hv) hset
  simp only [List.length_map] at H
  refine ⟨H.1, ?_⟩
  intro i h hn hthr
  exact H.2 i (by simpa using h) hn (by simpa using hthr)

theorem FW.identity_step_of_stage (cfg : Config R) (hfx : cfg.fx = Fixes.repaired) (ext : Ext R)
    (score : φ → φ → R) (s : FW φ) (hs : s.Inv) (hq : s.queue ≠ []) (cur : List (φ × R))
    (ident : List (Nat × Nat)) (hid : ident ≠ [])
    (hstage : ∃ ms, assignStage Fixes.repaired cfg.matcher ext s.tracks.length
        (toCost (scoreMatrixP cfg.red score s.cands s.tracks.length (cur.map (·.1)))) = .ok ms ∧
        MatchValid cur.length s.tracks.length ms ∧ ∀ p, p ∈ ms ↔ p ∈ ident) :
    ∃ s' ids, FW.step cfg ext score s cur = .ok (s', ids) ∧
      IdentityStep cfg.thr s.tracks.length cur ident ids := by
  obtain ⟨ms, hms, hv, hset⟩ := hstage
  have hst : cfg.fx.stale = true := by rw [hfx]; rfl
  have hq' : s.queue.isEmpty = false := by simpa using hq
  have hmsne : ms ≠ [] := by
    obtain ⟨e, he⟩ := List.exists_mem_of_ne_nil _ hid
    exact List.ne_nil_of_mem ((hset e).2 he)
  have hg : guardOk cfg.fx ms = true := by simp [guardOk, hfx, Fixes.repaired, hmsne]
  have hstep : FW.step cfg ext score s cur = .ok (FW.update cfg s cur ms) := by
    unfold FW.step
    rw [hq']
    have h1 : Fixes.repaired.stale = true := rfl
    simp only [Bool.false_eq_true, if_false, hfx, h1, scoreMatrix_repaired, FW.stepWith, hms]
  have hupd : (FW.update cfg s cur ms).2 =
      (allocate cfg.thr (cur.map (·.2)) (assignIds cur.length ms) s.tracks).1 := by
    simp only [FW.update, hg, if_true]
  refine ⟨(FW.update cfg s cur ms).1, (FW.update cfg s cur ms).2, by rw [hstep], ?_⟩
  rw [hupd]
  exact identityStep_of_alloc cfg.thr s.tracks.length cur ms ident hv hset s.tracks hs.tracks

theorem LQ.identity_step_of_stage (cfg : Config R) (hfx : cfg.fx = Fixes.repaired) (ext : Ext R)
    (score : φ → φ → R) (s : LQ φ) (hs : s.Inv) (hq : s.queues ≠ []) (cur : List (φ × R))
    (ident : List (Nat × Nat)) (hid : ident ≠ [])
    (hstage : ∃ ms, assignStage Fixes.repaired cfg.matcher ext s.tracks.length
        (toCost (scoreMatrixP cfg.red score s.cands s.tracks.length (cur.map (·.1)))) = .ok ms ∧
        MatchValid cur.length s.tracks.length ms ∧ ∀ p, p ∈ ms ↔ p ∈ ident) :
    ∃ s' ids, LQ.step cfg ext score s cur = .ok (s', ids) ∧
      IdentityStep cfg.thr s.tracks.length cur ident ids := by
  obtain ⟨ms, hms, hv, hset⟩ := hstage
  have hst : cfg.fx.stale = true := by rw [hfx]; rfl
  have hq' : s.queues.isEmpty = false := by simpa using hq
  have hmsne : ms ≠ [] := by
    obtain ⟨e, he⟩ := List.exists_mem_of_ne_nil _ hid
    exact List.ne_nil_of_mem ((hset e).2 he)
  have hg : guardOk cfg.fx ms = true := by simp [guardOk, hfx, Fixes.repaired, hmsne]
  have hlq : cfg.fx.lqList = true := by rw [hfx]; rfl
  have hstep : LQ.step cfg ext score s cur = LQ.update cfg s cur ms := by
    unfold LQ.step
    rw [hq']
    have h1 : Fixes.repaired.stale = true := rfl
    simp only [Bool.false_eq_true, if_false, hfx, h1, scoreMatrix_repaired, LQ.stepWith, hms]
  have hupd : ∃ s', LQ.update cfg s cur ms = .ok (s',
      (allocate cfg.thr (cur.map (·.2)) (assignIds cur.length ms) s.tracks).1) := by
    simp only [LQ.update, hg, if_true, hlq, Bool.true_eq_false, false_and, if_false]
    exact ⟨_, rfl⟩
  obtain ⟨s', hs'⟩ := hupd
  refine ⟨s', _, by rw [hstep, hs'], ?_⟩
  exact identityStep_of_alloc cfg.thr s.tracks.length cur ms ident hv hset s.tracks hs.tracks

/-- local queues: every known track has a candidate (a consequence of the invariant) -/
theorem LQ.cands_ne_nil_all (s : LQ φ) (hs : s.Inv) : ∀ t, t < s.tracks.length → s.cands t ≠ [] := by
  intro t ht
  have hk : t ∈ s.queues.map (·.1) := by rw [hs.keys, hs.tracks]; exact List.mem_range.2 ht
  obtain ⟨q, hq', hqt⟩ := List.mem_map.1 hk
  have hsome : (s.queues.find? (fun x => x.1 == t)).isSome = true := by
    rw [List.find?_isSome]; exact ⟨q, hq', by simp [hqt]⟩
  obtain ⟨x, hx⟩ := Option.isSome_iff_exists.1 hsome
  have hxm : x ∈ s.queues := List.mem_of_find?_eq_some hx
  simp only [LQ.cands, hx, Option.map_some, Option.getD_some]
  exact hs.nonempty x hxm

end stepId

end SleapVerif.Tracker
