import SleapVerif.Model.BottomUp
import SleapVerif.Lemmas.Transc
import Mathlib.Tactic.Linarith
import Mathlib.Tactic.Ring
import Mathlib.Tactic.FieldSimp
import Mathlib.Tactic.Positivity

/-!
# Lemmas for C03: line subscripts, line scores, decode (numeric part)
-/
namespace SleapVerif.BottomUp

/-! ## subscripts: layout and bounds (any carrier, including `Float`) -/

section anyCarrier
variable {R : Type} [Add R] [Sub R] [Mul R] [Div R] [LT R] [DecidableLT R]

theorem clipI_bounds (v : Int) (n : Nat) (hn : 0 < n) : 0 ≤ clipI v n ∧ clipI v n < n := by
  unfold clipI; omega

theorem lineSub_in_bounds (fl : R → Int) (castI : Int → R) (stride h w e : Nat) (src dst : R × R) (t : R)
    (hh : 0 < h) (hw : 0 < w) :
    let s := lineSub fl castI stride h w e src dst t
    0 ≤ s.row ∧ s.row < h ∧ 0 ≤ s.col ∧ s.col < w := by
  simp only [lineSub]
  exact ⟨(clipI_bounds _ h hh).1, (clipI_bounds _ h hh).2, (clipI_bounds _ w hw).1, (clipI_bounds _ w hw).2⟩

theorem lineSub_channels (fl : R → Int) (castI : Int → R) (stride h w e : Nat) (src dst : R × R) (t : R) :
    (lineSub fl castI stride h w e src dst t).chX = writerChannel e 0 ∧
    (lineSub fl castI stride h w e src dst t).chY = writerChannel e 1 := by
  simp [lineSub, writerChannel]

end anyCarrier

/-- reading the tensor built by the writer at channel `writerChannel e comp` yields component
`comp` of edge `e` at that cell -/
theorem ofFields_at {R : Type} [OfNat R 0] (h w nE : Nat) (G : Nat → Nat → Nat → Nat → R)
    (row col : Int) (e comp : Nat) (hr0 : 0 ≤ row) (hr : row < h) (hc0 : 0 ≤ col) (hc : col < w)
    (he : e < nE) (hcomp : comp < 2) :
    (Paf.ofFields h w nE G).at row col (writerChannel e comp) = G e comp row.toNat col.toNat := by
  obtain ⟨r, rfl⟩ := Int.eq_ofNat_of_zero_le hr0
  obtain ⟨c, rfl⟩ := Int.eq_ofNat_of_zero_le hc0
  have hr' : r < h := by exact_mod_cast hr
  have hc' : c < w := by exact_mod_cast hc
  have hch : e * 2 + comp < nE * 2 := by omega
  have hpos : 0 < nE * 2 := by omega
  have hrc : r * w + c < h * w := by
    calc r * w + c < r * w + w := by omega
      _ = (r + 1) * w := by ring
      _ ≤ h * w := Nat.mul_le_mul_right w hr'
  have hidx : (r * w + c) * (nE * 2) + (e * 2 + comp) < h * w * (nE * 2) := by
    calc (r * w + c) * (nE * 2) + (e * 2 + comp) < (r * w + c) * (nE * 2) + nE * 2 := by omega
      _ = (r * w + c + 1) * (nE * 2) := by ring
      _ ≤ h * w * (nE * 2) := Nat.mul_le_mul_right _ hrc
  have hwpos : 0 < w := by omega
  have e1 : ((r * w + c) * (nE * 2) + (e * 2 + comp)) % (nE * 2) = e * 2 + comp := by
    rw [Nat.add_comm, Nat.add_mul_mod_self_right, Nat.mod_eq_of_lt hch]
  have e2 : ((r * w + c) * (nE * 2) + (e * 2 + comp)) / (nE * 2) = r * w + c := by
    rw [Nat.add_comm, Nat.add_mul_div_right _ _ hpos, Nat.div_eq_of_lt hch, Nat.zero_add]
  have e3 : (e * 2 + comp) / 2 = e := by omega
  have e4 : (e * 2 + comp) % 2 = comp := by omega
  have e5 : (r * w + c) / w = r := by
    rw [Nat.add_comm, Nat.add_mul_div_right _ _ hwpos, Nat.div_eq_of_lt hc', Nat.zero_add]
  have e6 : (r * w + c) % w = c := by
    rw [Nat.add_comm, Nat.add_mul_mod_self_right, Nat.mod_eq_of_lt hc']
  simp only [Paf.at, Paf.ofFields, writerChannel, Int.toNat_natCast]
  rw [Array.getD_eq_getD_getElem?, Array.getElem?_ofFn]
  simp only [hidx, ↓reduceDIte, Option.getD_some, e1, e2, e3, e4, e5, e6]

/-! ## ordered-field part -/

variable {R : Type} [Field R] [LinearOrder R] [IsStrictOrderedRing R]

/-- the contract of a floor function -/
def IsFloor (fl : R → Int) : Prop := ∀ x : R, ((fl x : Int) : R) ≤ x ∧ x < ((fl x : Int) : R) + 1

theorem roundHalfEven_near (fl : R → Int) (hfl : IsFloor fl) (x : R) :
    |x - ((roundHalfEven fl (fun i => (i : R)) x : Int) : R)| ≤ 1 / 2 := by
  obtain ⟨h1, h2⟩ := hfl x
  unfold roundHalfEven
  simp only [Int.cast_one]
  split_ifs with a b c
  · rw [abs_le]; constructor <;> linarith
  · rw [abs_le]; push_cast; constructor <;> linarith
  · rw [abs_le]; constructor <;> linarith
  · rw [abs_le]; push_cast; constructor <;> linarith

/-! ### penalty -/

theorem penalty_nonpos {maxLen len weight : R} (hw : 0 ≤ weight) : penalty maxLen len weight ≤ 0 := by
  simp only [penalty]
  split_ifs with h
  · simp
  · exact mul_nonpos_of_nonpos_of_nonneg (not_lt.mp h) hw

theorem penalty_ge {maxLen len weight : R} (hm : 0 ≤ maxLen) (hl : 0 < len) (hw : 0 ≤ weight) :
    -weight ≤ penalty maxLen len weight := by
  simp only [penalty]
  split_ifs with h
  · simp [hw]
  · have : 0 ≤ maxLen / len := div_nonneg hm hl.le
    nlinarith

theorem penalty_zero_of_le {maxLen len weight : R} (hl : 0 < len) (h : len ≤ maxLen) :
    penalty maxLen len weight = 0 := by
  simp only [penalty]
  have : 1 ≤ maxLen / len := by rw [le_div_iff₀ hl]; linarith
  split_ifs with h'
  · simp
  · have : maxLen / len - 1 = 0 := le_antisymm (not_lt.mp h') (by linarith)
    rw [this]; simp

/-! ### sums and means -/

theorem foldl_add_ge (l : List R) (lo a : R) (h : ∀ x ∈ l, lo ≤ x) :
    a + (l.length : R) * lo ≤ l.foldl (· + ·) a := by
  induction l generalizing a with
  | nil => simp
  | cons x xs ih =>
    simp only [List.foldl_cons, List.length_cons]
    have := ih (a + x) (fun y hy => h y (List.mem_cons_of_mem _ hy))
    have hx := h x (List.mem_cons_self ..)
    push_cast
    linarith

theorem foldl_add_le (l : List R) (hi a : R) (h : ∀ x ∈ l, x ≤ hi) :
    l.foldl (· + ·) a ≤ a + (l.length : R) * hi := by
  induction l generalizing a with
  | nil => simp
  | cons x xs ih =>
    simp only [List.foldl_cons, List.length_cons]
    have := ih (a + x) (fun y hy => h y (List.mem_cons_of_mem _ hy))
    have hx := h x (List.mem_cons_self ..)
    push_cast
    linarith

theorem mean_ge (l : List R) (lo : R) (hne : l ≠ []) (h : ∀ x ∈ l, lo ≤ x) :
    lo ≤ sumL l / (l.length : R) := by
  have hpos : (0 : R) < (l.length : R) := by
    have : 0 < l.length := List.length_pos_iff.mpr hne
    exact_mod_cast this
  rw [le_div_iff₀ hpos]
  have := foldl_add_ge l lo 0 h
  unfold sumL
  linarith

theorem mean_le (l : List R) (hi : R) (hne : l ≠ []) (h : ∀ x ∈ l, x ≤ hi) :
    sumL l / (l.length : R) ≤ hi := by
  have hpos : (0 : R) < (l.length : R) := by
    have : 0 < l.length := List.length_pos_iff.mpr hne
    exact_mod_cast this
  rw [div_le_iff₀ hpos]
  have := foldl_add_le l hi 0 h
  unfold sumL
  linarith

/-! ### the unit vector -/

theorem segLen_pos (T : Transc R) {src dst : R × R} (hne : src ≠ dst) : 0 < segLen T.sqrt src dst := by
  unfold segLen
  apply T.sqrt_pos
  have : dst.1 - src.1 ≠ 0 ∨ dst.2 - src.2 ≠ 0 := by
    by_contra hc
    push Not at hc
    apply hne
    ext
    · linarith [hc.1]
    · linarith [hc.2]
  rcases this with h | h
  · have := mul_self_pos.mpr h
    nlinarith [mul_self_nonneg (dst.2 - src.2)]
  · have := mul_self_pos.mpr h
    nlinarith [mul_self_nonneg (dst.1 - src.1)]

theorem unitVec_norm (T : Transc R) {src dst : R × R} (hne : src ≠ dst) :
    (unitVec T.sqrt src dst).1 * (unitVec T.sqrt src dst).1
      + (unitVec T.sqrt src dst).2 * (unitVec T.sqrt src dst).2 = 1 := by
  have hpos := segLen_pos T hne
  have hsq : segLen T.sqrt src dst * segLen T.sqrt src dst
      = (dst.1 - src.1) * (dst.1 - src.1) + (dst.2 - src.2) * (dst.2 - src.2) := by
    unfold segLen
    apply T.sq_sqrt
    nlinarith [mul_self_nonneg (dst.1 - src.1), mul_self_nonneg (dst.2 - src.2)]
  simp only [unitVec]
  have hne' : segLen T.sqrt src dst ≠ 0 := ne_of_gt hpos
  field_simp
  linarith

/-! ### score bounds -/

theorem lineScore_ge (T : Transc R) (F : Int → Int → Nat → R) (subs : List LineSub) (src dst : R × R)
    (maxLen weight ω : R) (hne : subs ≠ [])
    (h : ∀ s ∈ subs, ω ≤ pointDot F (unitVec T.sqrt src dst).1 (unitVec T.sqrt src dst).2 s) :
    ω + penalty maxLen (segLen T.sqrt src dst) weight
      ≤ lineScore T.sqrt (fun i => (i : R)) F subs src dst maxLen weight := by
  unfold lineScore
  have hm := mean_ge (subs.map (pointDot F (unitVec T.sqrt src dst).1 (unitVec T.sqrt src dst).2)) ω
    (by simpa using hne) (by simpa using h)
  simp only [List.length_map] at hm
  simp only [Int.cast_natCast]
  linarith

theorem lineScore_le (T : Transc R) (F : Int → Int → Nat → R) (subs : List LineSub) (src dst : R × R)
    (maxLen weight M : R) (hne : subs ≠ [])
    (h : ∀ s ∈ subs, pointDot F (unitVec T.sqrt src dst).1 (unitVec T.sqrt src dst).2 s ≤ M) :
    lineScore T.sqrt (fun i => (i : R)) F subs src dst maxLen weight
      ≤ M + penalty maxLen (segLen T.sqrt src dst) weight := by
  unfold lineScore
  have hm := mean_le (subs.map (pointDot F (unitVec T.sqrt src dst).1 (unitVec T.sqrt src dst).2)) M
    (by simpa using hne) (by simpa using h)
  simp only [List.length_map] at hm
  simp only [Int.cast_natCast]
  linarith

/-- Cauchy–Schwarz against a unit vector -/
theorem dot_unit_abs_le {px py ux uy M : R} (hu : ux * ux + uy * uy = 1) (hM : 0 ≤ M)
    (hp : px * px + py * py ≤ M * M) : |px * ux + py * uy| ≤ M := by
  have key : (px * ux + py * uy) * (px * ux + py * uy) ≤ M * M := by
    have : (px * ux + py * uy) * (px * ux + py * uy)
        = (px * px + py * py) * (ux * ux + uy * uy) - (px * uy - py * ux) * (px * uy - py * ux) := by ring
    rw [this, hu]
    nlinarith [mul_self_nonneg (px * uy - py * ux)]
  exact abs_le_of_sq_le_sq' (by simpa [sq] using key) hM |> fun h => abs_le.mpr h

/-! ### decode -/

theorem decode_coord_within {g cs s e x : R} (hs : 0 < s) (he : 0 < e)
    (h : |g * cs - s * e * x| ≤ cs / 2) : |g * cs / s / e - x| ≤ cs / 2 / (s * e) := by
  have hse : 0 < s * e := mul_pos hs he
  have : g * cs / s / e - x = (g * cs - s * e * x) / (s * e) := by
    field_simp
  rw [this, abs_div, abs_of_pos hse]
  exact div_le_div_of_nonneg_right h hse.le

end SleapVerif.BottomUp
