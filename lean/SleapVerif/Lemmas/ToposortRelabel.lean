import SleapVerif.Model.Toposort
/-! Helper lemmas for C17: renumbering the nodes by an injective map does not change the edge order
    ("however its nodes are numbered").  Core Lean only.  Holds for EVERY listing, tree or not. -/
namespace SleapVerif.Toposort

/-- renumber both ends of an edge -/
def relabelE (f : Nat → Nat) (e : Edge) : Edge := (f e.1, f e.2)

def relabel (f : Nat → Nat) (edges : List Edge) : List Edge := edges.map (relabelE f)

def BState.relabel (f : Nat → Nat) (s : BState) : BState :=
  ⟨s.processed.map f, s.queue.map f, s.out.map (relabelE f)⟩

variable {f : Nat → Nat}

theorem relabelE_inj (hf : ∀ a b, f a = f b → a = b) (e e' : Edge)
    (h : relabelE f e = relabelE f e') : e = e' := by
  obtain ⟨a, b⟩ := e; obtain ⟨c, d⟩ := e'
  simp only [relabelE, Prod.mk.injEq] at h
  rw [hf a c h.1, hf b d h.2]

theorem beq_relabel (hf : ∀ a b, f a = f b → a = b) (a b : Nat) : (f a == f b) = (a == b) := by
  by_cases h : a = b
  · subst h; simp
  · have : f a ≠ f b := fun h' => h (hf a b h')
    rw [beq_eq_false_iff_ne.mpr this, beq_eq_false_iff_ne.mpr h]

theorem children_relabel (hf : ∀ a b, f a = f b → a = b) (edges : List Edge) (u : Nat) :
    children (relabel f edges) (f u) = (children edges u).map (relabelE f) := by
  induction edges with
  | nil => rfl
  | cons e es ih =>
    simp only [children, relabel, List.map_cons, List.filter_cons] at ih ⊢
    have : ((relabelE f e).1 == f u) = (e.1 == u) := by
      simp only [relabelE]; exact beq_relabel hf e.1 u
    rw [this]
    by_cases h : (e.1 == u) = true
    · simp only [h, if_true, List.map_cons]; rw [ih]
    · simp only [h]; exact ih

theorem contains_relabel (hf : ∀ a b, f a = f b → a = b) (l : List Nat) (x : Nat) :
    (l.map f).contains (f x) = l.contains x := by
  induction l with
  | nil => rfl
  | cons a as ih =>
    simp only [List.map_cons, List.contains_cons]
    rw [ih, beq_relabel hf x a]

theorem filter_fresh_relabel (hf : ∀ a b, f a = f b → a = b) (vis : List Nat) (l : List Edge) :
    (l.map (relabelE f)).filter (fun e => !((vis.map f).contains e.2))
      = (l.filter (fun e => !(vis.contains e.2))).map (relabelE f) := by
  induction l with
  | nil => rfl
  | cons e es ih =>
    simp only [List.map_cons, List.filter_cons]
    have : (vis.map f).contains (relabelE f e).2 = vis.contains e.2 := by
      simp only [relabelE]; exact contains_relabel hf vis e.2
    rw [this]
    by_cases h : (vis.contains e.2) = true
    · simp only [h, Bool.not_true, Bool.false_eq_true, if_false]; exact ih
    · have h' : vis.contains e.2 = false := by simpa using h
      simp only [h', Bool.not_false, if_true, List.map_cons]; rw [ih]

theorem map_snd_relabel (l : List Edge) :
    (l.map (relabelE f)).map (fun e => e.2) = (l.map (fun e => e.2)).map f := by
  induction l with
  | nil => rfl
  | cons e es ih => simp only [List.map_cons, ih]; rfl

theorem visited_relabel (s : BState) : (s.relabel f).visited = s.visited.map f := by
  simp [BState.relabel, BState.visited]

theorem bstep_relabel (hf : ∀ a b, f a = f b → a = b) (edges : List Edge) (s : BState) :
    bstep (relabel f edges) (s.relabel f) = (bstep edges s).map (BState.relabel f) := by
  obtain ⟨p, q, o⟩ := s
  cases q with
  | nil => rfl
  | cons u q =>
    simp only [bstep, BState.relabel, List.map_cons, Option.map_some]
    have hv : (BState.visited ⟨p.map f, f u :: q.map f, o.map (relabelE f)⟩)
        = (BState.visited ⟨p, u :: q, o⟩).map f := by
      simp [BState.visited]
    rw [hv, children_relabel hf, filter_fresh_relabel hf, map_snd_relabel]
    simp only [List.map_append, List.map_cons, List.map_nil]

theorem brun_relabel (hf : ∀ a b, f a = f b → a = b) (edges : List Edge) (n : Nat) (s : BState) :
    brun (relabel f edges) n (s.relabel f) = (brun edges n s).relabel f := by
  induction n generalizing s with
  | zero => rfl
  | succ n ih =>
    simp only [brun]
    rw [bstep_relabel hf]
    cases h : bstep edges s with
    | none => simp
    | some s' => simp only [Option.map_some]; exact ih s'

theorem bfsOut_relabel (hf : ∀ a b, f a = f b → a = b) (edges : List Edge) (r : Nat) :
    bfsOut (relabel f edges) (f r) = (bfsOut edges r).map (relabelE f) := by
  have h0 : binit (f r) = (binit r).relabel f := rfl
  have hl : (relabel f edges).length = edges.length := by simp [relabel]
  simp only [bfsOut]
  rw [hl, h0, brun_relabel hf]
  rfl

theorem nodesOf_relabel (edges : List Edge) : nodesOf (relabel f edges) = (nodesOf edges).map f := by
  induction edges with
  | nil => rfl
  | cons e es ih =>
    simp only [nodesOf, relabel, List.map_cons, List.flatMap_cons, List.map_append] at ih ⊢
    rw [ih]; rfl

theorem any_in_relabel (hf : ∀ a b, f a = f b → a = b) (edges : List Edge) (v : Nat) :
    (relabel f edges).any (fun e => e.2 == f v) = edges.any (fun e => e.2 == v) := by
  induction edges with
  | nil => rfl
  | cons e es ih =>
    simp only [relabel, List.map_cons, List.any_cons] at ih ⊢
    rw [ih]
    have : ((relabelE f e).2 == f v) = (e.2 == v) := by
      simp only [relabelE]; exact beq_relabel hf e.2 v
    rw [this]

theorem find_map_relabel (hf : ∀ a b, f a = f b → a = b) (edges : List Edge) (l : List Nat) :
    (l.map f).find? (fun v => !((relabel f edges).any (fun e => e.2 == v)))
      = (l.find? (fun v => !(edges.any (fun e => e.2 == v)))).map f := by
  induction l with
  | nil => rfl
  | cons a as ih =>
    simp only [List.map_cons, List.find?_cons]
    rw [any_in_relabel hf]
    cases h : !(edges.any (fun e => e.2 == a)) with
    | true => rfl
    | false => exact ih

theorem rootOf_relabel (hf : ∀ a b, f a = f b → a = b) (edges : List Edge) :
    rootOf (relabel f edges) = (rootOf edges).map f := by
  simp only [rootOf]
  rw [nodesOf_relabel]
  exact find_map_relabel hf edges (nodesOf edges)

theorem idxOf_relabel (hf : ∀ a b, f a = f b → a = b) (edges : List Edge) (e : Edge) :
    (relabel f edges).idxOf (relabelE f e) = edges.idxOf e := by
  induction edges with
  | nil => rfl
  | cons x xs ih =>
    simp only [relabel, List.map_cons, List.idxOf_cons] at ih ⊢
    have : (relabelE f x == relabelE f e) = (x == e) := by
      by_cases h : x = e
      · subst h; simp
      · have : relabelE f x ≠ relabelE f e := fun h' => h (relabelE_inj hf x e h')
        rw [beq_eq_false_iff_ne.mpr this, beq_eq_false_iff_ne.mpr h]
    rw [this, ih]

end SleapVerif.Toposort
