import SleapVerif.Lemmas.Eval

/-! Row-level lemmas about `vocRow` (bounds, recall, monotonicity in the match threshold). -/
set_option linter.unusedSectionVars false
set_option linter.unusedVariables false
namespace SleapVerif.Eval
open SleapVerif.Oks

variable {R : Type} [Field R] [LinearOrder R] [IsStrictOrderedRing R]

theorem inUnit_zero : InUnit (0 : R) := ⟨le_refl _, zero_le_one⟩

theorem getD_mem_or_default {α : Type} (l : List α) (k : Nat) (d : α) : l.getD k d = d ∨ l.getD k d ∈ l := by
  rw [List.getD_eq_getElem?_getD]
  cases h : l[k]? with
  | none => exact Or.inl rfl
  | some x => exact Or.inr (List.mem_of_getElem? h)

theorem getLast?_getD_mem_or_default {α : Type} (l : List α) (d : α) :
    l.getLast?.getD d = d ∨ l.getLast?.getD d ∈ l := by
  cases h : l.getLast? with
  | none => exact Or.inl rfl
  | some x => exact Or.inr (List.mem_of_getLast? h)

theorem forall₂_map_both {α β γ δ : Type} {Rel : α → β → Prop} {S : γ → δ → Prop} (f : α → γ) (g : β → δ)
    (h : ∀ a b, Rel a b → S (f a) (g b)) : ∀ {l : List α} {l' : List β}, List.Forall₂ Rel l l' →
    List.Forall₂ S (l.map f) (l'.map g)
  | _, _, List.Forall₂.nil => List.Forall₂.nil
  | _, _, List.Forall₂.cons hab t => List.Forall₂.cons (h _ _ hab) (forall₂_map_both f g h t)

theorem forall₂_map_same {α γ : Type} {S : γ → γ → Prop} (f g : α → γ) (h : ∀ a, S (f a) (g a)) :
    ∀ l : List α, List.Forall₂ S (l.map f) (l.map g)
  | [] => List.Forall₂.nil
  | a :: t => List.Forall₂.cons (h a) (forall₂_map_same f g h t)

section row
variable (eps : R) (he : 0 ≤ eps) (npig : Nat)

/-- an operating point `(recall, precision)` from cumulative counts -/
def opPoint (x : Nat × Nat) : R × R := ((x.1 : R) / (npig : R), (x.1 : R) / ((x.2 : R) + (x.1 : R) + eps))

theorem rcList_eq (c : List (Nat × Nat)) :
    rcList (Nat.cast : Nat → R) npig c = (c.map (opPoint eps npig)).map (·.1) := by
  simp [rcList, opPoint, List.map_map, Function.comp_def]

theorem prList_eq (c : List (Nat × Nat)) :
    prList (Nat.cast : Nat → R) eps c = (c.map (opPoint eps npig)).map (·.2) := by
  simp [prList, opPoint, List.map_map, Function.comp_def]

include he in
theorem opPoint_snd_unit (x : Nat × Nat) : InUnit (opPoint eps npig x).2 := by
  have h1 : (0 : R) ≤ (x.1 : R) := Nat.cast_nonneg _
  have h2 : (0 : R) ≤ (x.2 : R) := Nat.cast_nonneg _
  exact ⟨div_nonneg h1 (by linarith), div_le_one_of_le₀ (by linarith) (by linarith)⟩

theorem opPoint_fst_unit (x : Nat × Nat) (hx : x.1 ≤ npig) : InUnit (opPoint eps npig x).1 := by
  have h1 : (0 : R) ≤ (x.1 : R) := Nat.cast_nonneg _
  have h2 : (x.1 : R) ≤ (npig : R) := by exact_mod_cast hx
  exact ⟨div_nonneg h1 (Nat.cast_nonneg _), div_le_one_of_le₀ h2 (Nat.cast_nonneg _)⟩

include he in
/-- every precision entry and the recall of one row lie in `[0, 1]` -/
theorem vocRow_unit (recThr ms : List R) (t : R) (hn : ms.length ≤ npig) :
    (∀ x ∈ (vocRow (Nat.cast : Nat → R) eps npig recThr ms t).precision, InUnit x) ∧
    InUnit (vocRow (Nat.cast : Nat → R) eps npig recThr ms t).recall := by
  have hc : ∀ x ∈ cums 0 0 (flags t ms), x.1 ≤ npig := by
    intro x hx
    have := (cums_mem _ 0 0 x hx).2.1
    rw [flags_length] at this; omega
  constructor
  · intro x hx
    simp only [vocRow, List.mem_map] at hx
    obtain ⟨r, _, rfl⟩ := hx
    unfold precisionAt
    rcases getD_mem_or_default (env (prList (Nat.cast : Nat → R) eps (cums 0 0 (flags t ms))))
      (searchLeft (rcList (Nat.cast : Nat → R) npig (cums 0 0 (flags t ms))) r) 0 with h | h
    · rw [h]; exact inUnit_zero
    · generalize (env (prList (Nat.cast : Nat → R) eps (cums 0 0 (flags t ms)))).getD
        (searchLeft (rcList (Nat.cast : Nat → R) npig (cums 0 0 (flags t ms))) r) 0 = v at h ⊢
      have h2 := env_subset _ _ h
      rw [prList_eq eps npig] at h2
      simp only [List.map_map, List.mem_map] at h2
      obtain ⟨y, _, hy⟩ := h2
      rw [← hy]; exact opPoint_snd_unit eps he npig y
  · simp only [vocRow]
    rcases getLast?_getD_mem_or_default (rcList (Nat.cast : Nat → R) npig (cums 0 0 (flags t ms))) 0 with h | h
    · rw [h]; exact inUnit_zero
    · generalize (rcList (Nat.cast : Nat → R) npig (cums 0 0 (flags t ms))).getLast?.getD 0 = v at h ⊢
      rw [rcList_eq eps npig] at h
      simp only [List.map_map, List.mem_map] at h
      obtain ⟨y, hy, hyx⟩ := h
      rw [← hyx]; exact opPoint_fst_unit eps npig y (hc y hy)

/-- the recall of a row is (true positives)/(all gt) — order of the pairs is irrelevant -/
theorem vocRow_recall (recThr ms : List R) (t : R) (hne : ms ≠ []) :
    (vocRow (Nat.cast : Nat → R) eps npig recThr ms t).recall = recallAt (Nat.cast : Nat → R) t ms npig := by
  have hfl : flags t ms ≠ [] := by
    intro h; have := flags_length t ms; rw [h] at this
    exact hne (List.eq_nil_of_length_eq_zero this.symm)
  have hl := cums_last (flags t ms) 0 0 hfl
  simp only [vocRow, rcList, recallAt]
  rw [List.getLast?_map]
  cases hg : (cums 0 0 (flags t ms)).getLast? with
  | none => rw [hg] at hl; simp at hl
  | some x =>
    rw [hg] at hl
    simp only [Option.map_some, Option.some.injEq] at hl
    simp only [Option.map_some, Option.getD_some, hl, Nat.zero_add]

include he in
/-- raising the match threshold lowers every precision entry -/
theorem vocRow_precision_mono (recThr ms : List R) (t t' : R) (htt : t ≤ t') :
    List.Forall₂ (· ≤ ·) (vocRow (Nat.cast : Nat → R) eps npig recThr ms t').precision
      (vocRow (Nat.cast : Nat → R) eps npig recThr ms t).precision := by
  simp only [vocRow]
  apply forall₂_map_same
  intro r
  have hD := cums_mono _ _ (flags_mono t t' htt ms) 0 0 0 0 (le_refl _) rfl
  have key : ∀ fl : List Bool,
      precisionAt (rcList (Nat.cast : Nat → R) npig (cums 0 0 fl))
        (env (prList (Nat.cast : Nat → R) eps (cums 0 0 fl))) r =
      sup0 (((cums 0 0 fl).map (opPoint eps npig)).map (term r)) := by
    intro fl
    rw [rcList_eq eps npig, prList_eq eps npig]
    apply precisionAt_eq_sup
    · refine List.Pairwise.map _ ?_ (cums_sorted fl 0 0)
      intro a b hab
      exact div_le_div_of_nonneg_right (by exact_mod_cast hab) (Nat.cast_nonneg _)
    · intro x hx
      obtain ⟨y, _, rfl⟩ := List.mem_map.mp hx
      exact (opPoint_snd_unit eps he npig y).1
  rw [key, key]
  apply sup0_mono
  rw [List.map_map, List.map_map]
  refine forall₂_map_both _ _ ?_ hD
  intro a b ⟨h1, h2⟩
  have e1 : ((a.1 : R)) ≤ (b.1 : R) := by exact_mod_cast h1
  have e2 : (a.2 : R) + (a.1 : R) = (b.2 : R) + (b.1 : R) := by
    have : a.2 + a.1 = b.2 + b.1 := by omega
    exact_mod_cast this
  have hrc : (opPoint eps npig a).1 ≤ (opPoint eps npig b).1 :=
    div_le_div_of_nonneg_right e1 (Nat.cast_nonneg _)
  have hpr : (opPoint eps npig a).2 ≤ (opPoint eps npig b).2 := by
    simp only [opPoint]; rw [e2]
    exact div_le_div_of_nonneg_right e1 (by
      have : (0 : R) ≤ (b.2 : R) := Nat.cast_nonneg _
      have : (0 : R) ≤ (b.1 : R) := Nat.cast_nonneg _
      linarith)
  simp only [Function.comp, term]
  by_cases ha : (opPoint eps npig a).1 < r
  · rw [if_pos ha]
    split
    · exact le_refl _
    · exact (opPoint_snd_unit eps he npig b).1
  · rw [if_neg ha, if_neg (not_lt.mpr (le_trans (not_lt.mp ha) hrc))]
    exact hpr

end row

theorem recallAt_mono (t t' : R) (h : t ≤ t') (ms : List R) (npig : Nat) :
    recallAt (Nat.cast : Nat → R) t' ms npig ≤ recallAt (Nat.cast : Nat → R) t ms npig := by
  unfold recallAt
  exact div_le_div_of_nonneg_right (by exact_mod_cast count_mono (flags_mono t t' h ms)) (Nat.cast_nonneg _)

theorem recallAt_perm (t : R) {ms ms' : List R} (h : ms.Perm ms') (npig : Nat) :
    recallAt (Nat.cast : Nat → R) t ms npig = recallAt (Nat.cast : Nat → R) t ms' npig := by
  unfold recallAt; rw [flags_perm t h]

theorem recallAt_sublist (t : R) {ms ms' : List R} (h : ms.Sublist ms') (npig : Nat) :
    recallAt (Nat.cast : Nat → R) t ms npig ≤ recallAt (Nat.cast : Nat → R) t ms' npig := by
  unfold recallAt
  have : ((flags t ms).filter id).length ≤ ((flags t ms').filter id).length :=
    ((h.map _).filter _).length_le
  exact div_le_div_of_nonneg_right (by exact_mod_cast this) (Nat.cast_nonneg _)

/-! ### perfect predictions: a lower bound for every precision entry -/

theorem precisionAt_cums_eq_sup (eps : R) (he : 0 ≤ eps) (npig : Nat) (fl : List Bool) (r : R) :
    precisionAt (rcList (Nat.cast : Nat → R) npig (cums 0 0 fl))
      (env (prList (Nat.cast : Nat → R) eps (cums 0 0 fl))) r =
    sup0 (((cums 0 0 fl).map (opPoint eps npig)).map (term r)) := by
  rw [rcList_eq eps npig, prList_eq eps npig]
  apply precisionAt_eq_sup
  · refine List.Pairwise.map _ ?_ (cums_sorted fl 0 0)
    intro a b hab
    exact div_le_div_of_nonneg_right (by exact_mod_cast hab) (Nat.cast_nonneg _)
  · intro x hx
    obtain ⟨y, _, rfl⟩ := List.mem_map.mp hx
    exact (opPoint_snd_unit eps he npig y).1

theorem cums_all_true : ∀ (n tp fp : Nat) (x : Nat × Nat), x ∈ cums tp fp (List.replicate n true) → x.2 = fp
  | 0, _, _, x, h => by simp [cums] at h
  | n + 1, tp, fp, x, h => by
    rw [List.replicate_succ] at h
    simp only [cums, List.mem_cons] at h
    rcases h with rfl | h
    · rfl
    · exact cums_all_true n (tp + 1) fp x h

/-- all `n` pairs are true positives, no false negative: the last operating point is
`(recall 1, precision n/(n+eps))`, so every recall threshold `r ≤ 1` sees at least that precision -/
theorem perfect_precision_ge (eps : R) (he : 0 ≤ eps) (n : Nat) (hn : 0 < n) (r : R) (hr : r ≤ 1) :
    (n : R) / ((n : R) + eps) ≤
      precisionAt (rcList (Nat.cast : Nat → R) n (cums 0 0 (List.replicate n true)))
        (env (prList (Nat.cast : Nat → R) eps (cums 0 0 (List.replicate n true)))) r := by
  rw [precisionAt_cums_eq_sup eps he]
  have hne : List.replicate n true ≠ [] := by
    intro h; have := congrArg List.length h; simp at this; omega
  have hl := cums_last (List.replicate n true) 0 0 hne
  cases hg : (cums 0 0 (List.replicate n true)).getLast? with
  | none => rw [hg] at hl; simp at hl
  | some x =>
    rw [hg] at hl
    have hx1 : x.1 = n := by simpa using hl
    have hxm : x ∈ cums 0 0 (List.replicate n true) := List.mem_of_getLast? hg
    have hx2 : x.2 = 0 := cums_all_true n 0 0 x hxm
    have hnR : (0 : R) < (n : R) := by exact_mod_cast hn
    have hterm : term r (opPoint eps n x) = (n : R) / ((n : R) + eps) := by
      unfold term opPoint
      simp only [hx1, hx2, Nat.cast_zero, zero_add]
      rw [div_self (ne_of_gt hnR), if_neg (not_lt.mpr hr)]
    rw [← hterm]
    apply le_sup0
    exact List.mem_map_of_mem (List.mem_map_of_mem hxm)

theorem le_mean (c : R) : ∀ (l : List R), l ≠ [] → (∀ x ∈ l, c ≤ x) → c ≤ mean (Nat.cast : Nat → R) l := by
  intro l hne h
  have hs : c * (l.length : R) ≤ sumR l := by
    clear hne
    induction l with
    | nil => simp [sumR]
    | cons a t ih =>
      have := ih (fun x hx => h x (List.mem_cons_of_mem _ hx))
      have ha := h a List.mem_cons_self
      rw [sumR_cons]
      simp only [List.length_cons]; push_cast; linarith
  have hpos : (0 : R) < (l.length : R) := by exact_mod_cast List.length_pos_iff.mpr hne
  unfold mean
  rw [le_div_iff₀ hpos]; exact hs

end SleapVerif.Eval
