import SleapVerif.Lemmas.GroupingTree
/-! Helper lemmas for C08, part 3: the assumed contract of `scipy.optimize.linear_sum_assignment`
    (`LsaSpec`) and what it gives for `matchEdgeAsIs` / `matchEdgeFixed`. -/
namespace SleapVerif.Grouping

variable {R : Type}

/-- a one-to-one assignment that saturates the smaller side of `C` and uses no `none` (= `inf`) entry -/
structure IsMatching (C : Mat (Option R)) (M : List (Nat × Nat)) : Prop where
  oneToOne : OneToOne M
  inRange : ∀ m ∈ M, m.1 < nRows C ∧ m.2 < nCols C
  saturating : M.length = min (nRows C) (nCols C)
  finite : ∀ m ∈ M, (entry C m.1 m.2).isSome

def cost [Add R] [OfNat R 0] (C : Mat (Option R)) (M : List (Nat × Nat)) : R :=
  sumL (M.map fun m => (entry C m.1 m.2).getD 0)

/-- scipy's documented behaviour on one matrix: the answer is a minimum-cost saturating matching
    that avoids `inf` entries; `ValueError: cost matrix is infeasible` iff there is none -/
structure LsaSpecOn [Add R] [OfNat R 0] [LE R] (lsa : Lsa R) (C : Mat (Option R)) : Prop where
  sound : ∀ M, lsa C = some M → IsMatching C M ∧ ∀ M', IsMatching C M' → cost C M ≤ cost C M'
  complete : lsa C = none → ¬ ∃ M', IsMatching C M'

def LsaSpec [Add R] [OfNat R 0] [LE R] (lsa : Lsa R) : Prop := ∀ C, LsaSpecOn lsa C

/-! ## matrices -/

theorem entry_mkMat {α : Type} (nr nc : Nat) (f : Nat → Nat → Option α) {i j : Nat}
    (hi : i < nr) (hj : j < nc) : entry (mkMat nr nc f) i j = f i j := by
  unfold entry mkMat
  simp [hi, hj]

theorem nRows_mkMat {α : Type} (nr nc : Nat) (f : Nat → Nat → α) : nRows (mkMat nr nc f) = nr := by
  simp [nRows, mkMat]

theorem nCols_mkMat {α : Type} (nr nc : Nat) (f : Nat → Nat → α) (h : 0 < nr) :
    nCols (mkMat nr nc f) = nc := by
  unfold nCols mkMat
  cases nr with
  | zero => omega
  | succ k => simp [List.range_succ_eq_map]

theorem nCols_mkMat_zero {α : Type} (nc : Nat) (f : Nat → Nat → α) : nCols (mkMat 0 nc f) = 0 := by
  simp [nCols, mkMat]

theorem min_dims_mkMat {α : Type} (nr nc : Nat) (f : Nat → Nat → α) :
    min (nRows (mkMat nr nc f)) (nCols (mkMat nr nc f)) = min nr nc := by
  rw [nRows_mkMat]
  cases nr with
  | zero => simp
  | succ k => rw [nCols_mkMat _ _ _ (by omega)]

section fixed
variable [Add R] [Neg R] [LT R] [DecidableLT R] [OfNat R 0] [OfNat R 1]

theorem fillInvalid_mkMat (nr nc : Nat) (f : Nat → Nat → Option R) :
    fillInvalid (mkMat nr nc f)
      = mkMat nr nc fun i j => some ((f i j).getD (sentinel (mkMat nr nc f))) := by
  unfold fillInvalid
  generalize sentinel (mkMat nr nc f) = B
  simp [mkMat, List.map_map, Function.comp_def]

theorem nRows_fillInvalid (C : Mat (Option R)) : nRows (fillInvalid C) = nRows C := by
  simp [nRows, fillInvalid]

theorem nCols_fillInvalid (C : Mat (Option R)) : nCols (fillInvalid C) = nCols C := by
  unfold nCols fillInvalid
  cases C with
  | nil => rfl
  | cons row rest => simp

/-- every cell of the matrix is a valid (non-NaN) cost -/
def AllValid (C : Mat (Option R)) : Prop := ∀ row ∈ C, ∀ x ∈ row, x.isSome

theorem fillInvalid_of_allValid {C : Mat (Option R)} (h : AllValid C) : fillInvalid C = C := by
  unfold fillInvalid
  generalize sentinel C = B
  have : ∀ row ∈ C, (row.map fun x => some (x.getD B)) = row := by
    intro row hrow
    have : ∀ x ∈ row, some (x.getD B) = x := by
      intro x hx
      have := h row hrow x hx
      cases x with
      | none => simp at this
      | some v => rfl
    calc row.map (fun x => some (x.getD B)) = row.map id := List.map_congr_left this
      _ = row := by simp
  calc C.map (fun row => row.map fun x => some (x.getD B)) = C.map id := List.map_congr_left this
    _ = C := by simp

end fixed

/-! ## what the contract gives for the per-edge matches -/

/-- `(row, col)` of each match -/
def rc (ms : List (Match R)) : List (Nat × Nat) := ms.map fun m => (m.row, m.col)

theorem rc_toMatches [Neg R] (C : Mat (Option R)) (M : List (Nat × Nat)) : rc (toMatches C M) = M := by
  simp [rc, toMatches, List.map_map, Function.comp_def]

/-- a per-edge match list is *good* for cost matrix `C`: one-to-one, in range, each match carries
    the (valid) score of its own candidate -/
structure GoodMatches [Neg R] (C : Mat (Option R)) (ms : List (Match R)) : Prop where
  oneToOne : OneToOne (rc ms)
  inRange : ∀ m ∈ ms, m.row < nRows C ∧ m.col < nCols C
  valid : ∀ m ∈ ms, (entry C m.row m.col).isSome
  score : ∀ m ∈ ms, m.score = (entry C m.row m.col).map Neg.neg

theorem goodMatches_toMatches [Neg R] (C : Mat (Option R)) {M : List (Nat × Nat)} (h1 : OneToOne M)
    (h2 : ∀ m ∈ M, m.1 < nRows C ∧ m.2 < nCols C) (h3 : ∀ m ∈ M, (entry C m.1 m.2).isSome) :
    GoodMatches C (toMatches C M) := by
  refine ⟨by rw [rc_toMatches]; exact h1, ?_, ?_, ?_⟩ <;>
  · intro m hm
    obtain ⟨x, hx, rfl⟩ := List.mem_map.mp hm
    first | exact h2 x hx | exact h3 x hx | rfl

theorem matchEdgeAsIs_good [Add R] [Neg R] [OfNat R 0] [LE R] {lsa : Lsa R} {C : Mat (Option R)}
    (S : LsaSpecOn lsa C) {ms : List (Match R)} (h : matchEdgeAsIs lsa C = some ms) :
    GoodMatches C ms := by
  unfold matchEdgeAsIs at h
  cases hl : lsa C with
  | none => simp [hl] at h
  | some M =>
    simp [hl] at h; subst h
    have IM := (S.sound M hl).1
    exact goodMatches_toMatches C IM.oneToOne IM.inRange IM.finite

section fixed
variable [Add R] [Neg R] [LT R] [DecidableLT R] [LE R] [OfNat R 0] [OfNat R 1]

theorem matchEdgeFixed_good {lsa : Lsa R} {C : Mat (Option R)}
    (S : LsaSpecOn lsa (fillInvalid C)) {ms : List (Match R)} (h : matchEdgeFixed lsa C = some ms) :
    GoodMatches C ms := by
  unfold matchEdgeFixed at h
  cases hl : lsa (fillInvalid C) with
  | none => simp [hl] at h
  | some M =>
    simp [hl] at h; subst h
    have IM := (S.sound M hl).1
    refine goodMatches_toMatches C (IM.oneToOne.sublist List.filter_sublist) ?_ ?_
    · intro m hm
      have := IM.inRange m (List.mem_filter.mp hm).1
      rwa [nRows_fillInvalid, nCols_fillInvalid] at this
    · intro m hm
      exact (List.mem_filter.mp hm).2

omit [Add R] [Neg R] [LT R] [DecidableLT R] [LE R] [OfNat R 0] [OfNat R 1] in
/-- the diagonal is a saturating matching of any fully valid rectangular matrix -/
theorem diag_isMatching (nr nc : Nat) (f : Nat → Nat → Option R) (hf : ∀ i j, (f i j).isSome) :
    IsMatching (mkMat nr nc f) ((List.range (min nr nc)).map fun i => (i, i)) := by
  refine ⟨⟨?_, ?_⟩, ?_, ?_, ?_⟩
  · simp [List.map_map, Function.comp_def, List.nodup_range]
  · simp [List.map_map, Function.comp_def, List.nodup_range]
  · intro m hm
    obtain ⟨i, hi, rfl⟩ := List.mem_map.mp hm
    have hi := List.mem_range.mp hi
    rw [nRows_mkMat]
    have hnr : 0 < nr := by omega
    rw [nCols_mkMat _ _ _ hnr]
    omega
  · simp [min_dims_mkMat]
  · intro m hm
    obtain ⟨i, hi, rfl⟩ := List.mem_map.mp hm
    have hi := List.mem_range.mp hi
    rw [entry_mkMat _ _ _ (by omega) (by omega)]
    exact hf i i

/-- **the repaired matching never raises** (on the matrices the pipeline builds) -/
theorem matchEdgeFixed_total {lsa : Lsa R} (nr nc : Nat) (f : Nat → Nat → Option R)
    (S : LsaSpecOn lsa (fillInvalid (mkMat nr nc f))) :
    ∃ ms, matchEdgeFixed lsa (mkMat nr nc f) = some ms := by
  unfold matchEdgeFixed
  cases hl : lsa (fillInvalid (mkMat nr nc f)) with
  | some M => exact ⟨_, rfl⟩
  | none =>
    exfalso
    apply S.complete hl
    rw [fillInvalid_mkMat]
    exact ⟨_, diag_isMatching nr nc _ (fun i j => rfl)⟩

theorem matchEdgeFixed_eq_asIs_of_allValid {lsa : Lsa R} {C : Mat (Option R)} (hv : AllValid C)
    (S : LsaSpecOn lsa C) : matchEdgeFixed lsa C = matchEdgeAsIs lsa C := by
  unfold matchEdgeFixed matchEdgeAsIs
  rw [fillInvalid_of_allValid hv]
  cases hl : lsa C with
  | none => rfl
  | some M =>
    simp only [Option.map_some]
    have IM := (S.sound M hl).1
    congr 2
    apply List.filter_eq_self.mpr
    intro m hm
    exact IM.finite m hm

end fixed

theorem matchEdgeAsIs_total [Add R] [Neg R] [OfNat R 0] [LE R] {lsa : Lsa R} {C : Mat (Option R)}
    (S : LsaSpecOn lsa C) (hfeas : ∃ M, IsMatching C M) : ∃ ms, matchEdgeAsIs lsa C = some ms := by
  unfold matchEdgeAsIs
  cases hl : lsa C with
  | some M => exact ⟨_, rfl⟩
  | none => exact absurd hfeas (S.complete hl)

theorem matchEdgeAsIs_raises [Add R] [Neg R] [OfNat R 0] [LE R] {lsa : Lsa R} {C : Mat (Option R)}
    (S : LsaSpecOn lsa C) (hinf : ¬ ∃ M, IsMatching C M) : matchEdgeAsIs lsa C = none := by
  unfold matchEdgeAsIs
  cases hl : lsa C with
  | none => rfl
  | some M => exact absurd ⟨M, (S.sound M hl).1⟩ hinf

end SleapVerif.Grouping
