import SleapVerif.Lemmas.TrackerIdentity
/-!
# Lifting identity continuity to histories (C10): owner map, window purity, induction over frames
-/
namespace SleapVerif.Tracker

section allocExtra
variable {R : Type} [LT R] [DecidableLT R]

/-- two more facts about `allocate` on `current_tracks = range m`: where an id in the result comes
    from (index level), and every fresh id `m ≤ t < m'` is held by some detection -/
theorem allocate_extra (thr : R) (ss : List R) : ∀ (ids0 : List (Option Nat)) (m : Nat),
    ids0.length = ss.length →
    (∀ (i t : Nat), (allocate thr ss ids0 (List.range m)).1[i]? = some (some t) →
        ids0[i]? = some (some t) ∨ (ids0[i]? = some none ∧ m ≤ t)) ∧
    (∀ m', (allocate thr ss ids0 (List.range m)).2 = List.range m' → ∀ t, m ≤ t → t < m' →
        some t ∈ (allocate thr ss ids0 (List.range m)).1) := by
  induction ss with
  | nil =>
    intro ids0 m hl
    have : ids0 = [] := List.length_eq_zero_iff.1 (by simpa using hl)
    subst this
    refine ⟨by simp [allocate], ?_⟩
    intro m' hm' t h1 h2
    have : m = m' := by simpa using congrArg List.length (show List.range m = List.range m' from hm')
    omega
  | cons s ss ih =>
    intro ids0 m hl
    cases ids0 with
    | nil => simp at hl
    | cons o ids =>
      have hl' : ids.length = ss.length := by simpa using hl
      cases o with
      | some t0 =>
        have e : allocate thr (s :: ss) (some t0 :: ids) (List.range m) =
            (some t0 :: (allocate thr ss ids (List.range m)).1, (allocate thr ss ids (List.range m)).2) := by
          simp [allocate]
        rw [e]
        obtain ⟨h1, h2⟩ := ih ids m hl'
        refine ⟨?_, ?_⟩
        · intro i t hi
          cases i with
          | zero => left; simpa using hi
          | succ i => simpa using h1 i t (by simpa using hi)
        · intro m' hm' t ht1 ht2
          exact List.mem_cons_of_mem _ (h2 m' hm' t ht1 ht2)
      | none =>
        by_cases hs : thr < s
        · have e : allocate thr (s :: ss) (none :: ids) (List.range m) =
              (some m :: (allocate thr ss ids (List.range (m + 1))).1,
               (allocate thr ss ids (List.range (m + 1))).2) := by
            simp [allocate, hs, newId_range, List.range_succ]
          rw [e]
          obtain ⟨h1, h2⟩ := ih ids (m + 1) hl'
          refine ⟨?_, ?_⟩
          · intro i t hi
            cases i with
            | zero =>
              right
              have : m = t := by simpa using hi
              exact ⟨by simp, by omega⟩
            | succ i =>
              rcases h1 i t (by simpa using hi) with h | ⟨h, h'⟩
              · left; simpa using h
              · right; exact ⟨by simpa using h, by omega⟩
          · intro m' hm' t ht1 ht2
            by_cases htm : t = m
            · subst htm; simp
            · exact List.mem_cons_of_mem _ (h2 m' hm' t (by omega) ht2)
        · have e : allocate thr (s :: ss) (none :: ids) (List.range m) =
              (none :: (allocate thr ss ids (List.range m)).1, (allocate thr ss ids (List.range m)).2) := by
            simp [allocate, hs]
          rw [e]
          obtain ⟨h1, h2⟩ := ih ids m hl'
          refine ⟨?_, ?_⟩
          · intro i t hi
            cases i with
            | zero => simp at hi
            | succ i => simpa using h1 i t (by simpa using hi)
          · intro m' hm' t ht1 ht2
            exact List.mem_cons_of_mem _ (h2 m' hm' t ht1 ht2)

end allocExtra


/-! ## the owner map -/

section core
variable {R φ : Type} [LT R] [DecidableLT R]

/-- identity edges with respect to a ground truth `who` and an owner map (track id ↦ animal) -/
def IsIdent (who : φ → Nat) (owner : Nat → Nat) (m : Nat) (cur : List (φ × R)) (p : Nat × Nat) : Prop :=
  p.2 < m ∧ ∃ h : p.1 < cur.length, who cur[p.1].1 = owner p.2

/-- no animal owns two of the first `m` tracks -/
def InjOn (owner : Nat → Nat) (m : Nat) : Prop :=
  ∀ t t', t < m → t' < m → owner t = owner t' → t = t'

/-- owner map after a frame: old tracks keep their animal; a fresh track belongs to the animal of
    the detection that holds it -/
def extendOwner (who : φ → Nat) (owner : Nat → Nat) (m : Nat) (feats : List φ)
    (ids : List (Option Nat)) (t : Nat) : Nat :=
  if t < m then owner t else
    match (ids.zip feats).find? (fun p => p.1 == some t) with
    | some p => who p.2
    | none => owner t

theorem find_holder : ∀ (ids : List (Option Nat)) (feats : List φ) (i t : Nat) (f : φ),
    Distinct ids → ids[i]? = some (some t) → feats[i]? = some f →
    (ids.zip feats).find? (fun p => p.1 == some t) = some (some t, f) := by
  intro ids
  induction ids with
  | nil => intro feats i t f _ h; simp at h
  | cons o ids ih =>
    intro feats i t f hd hi hf
    cases feats with
    | nil => simp at hf
    | cons f0 fs =>
      cases i with
      | zero =>
        simp only [List.getElem?_cons_zero, Option.some.injEq] at hi hf
        subst hi; subst hf
        simp
      | succ j =>
        simp only [List.getElem?_cons_succ] at hi hf
        have hne : o ≠ some t := by
          intro ho
          exact (List.pairwise_cons.1 hd).1 (some t) (List.mem_of_getElem? hi) t ho rfl
        have hb : (o == some t) = false := by simpa using hne
        simp only [List.zip_cons_cons, List.find?_cons, hb]
        exact ih fs j t f (List.pairwise_cons.1 hd).2 hi hf

/-- **core of the lift**: when the matches are exactly the identity edges of an injective owner map,
    the frame's ids respect an extended owner map that is still injective -/
theorem alloc_identity_owner (thr : R) (who : φ → Nat) (owner : Nat → Nat) (m : Nat)
    (cur : List (φ × R)) (ms : List (Nat × Nat)) (hv : MatchValid cur.length m ms)
    (hset : ∀ p, p ∈ ms ↔ IsIdent who owner m cur p) (hinj : InjOn owner m)
    (hdist : (cur.map (fun d => who d.1)).Nodup) (habove : ∀ d ∈ cur, thr < d.2)
    (tracks : List Nat) (htr : tracks = List.range m) :
    ∃ m', m ≤ m' ∧
      (allocate thr (cur.map (·.2)) (assignIds cur.length ms) tracks).2 = List.range m' ∧
      InjOn (extendOwner who owner m (cur.map (·.1))
        (allocate thr (cur.map (·.2)) (assignIds cur.length ms) tracks).1) m' ∧
      (allocate thr (cur.map (·.2)) (assignIds cur.length ms) tracks).1.length = cur.length ∧
      (∀ (i t : Nat), (allocate thr (cur.map (·.2)) (assignIds cur.length ms) tracks).1[i]? = some (some t) →
        t < m' ∧ ∃ h : i < cur.length, who cur[i].1 = extendOwner who owner m (cur.map (·.1))
          (allocate thr (cur.map (·.2)) (assignIds cur.length ms) tracks).1 t) ∧
      (∀ i, i < cur.length →
        ∃ t, (allocate thr (cur.map (·.2)) (assignIds cur.length ms) tracks).1[i]? = some (some t)) ∧
      Distinct (allocate thr (cur.map (·.2)) (assignIds cur.length ms) tracks).1 := by
  subst htr
  have hv' : MatchValid (cur.map (·.2)).length m ms := by simpa using hv
  have hlt0 : ∀ t, some t ∈ assignIds cur.length ms → t < m := fun t ht => by
    obtain ⟨i, hi⟩ := assignIds_mem_some hv ht
    exact (hv.bounds _ hi).2
  have H := allocate_spec' thr (cur.map (·.2)) (assignIds cur.length ms) m
    (by simp [assignIds_length]) hlt0 (assignIds_distinct hv)
  have E := allocate_extra thr (cur.map (·.2)) (assignIds cur.length ms) m
    (by simp [assignIds_length])
  generalize hr : allocate thr (cur.map (·.2)) (assignIds cur.length ms) (List.range m) = r at H E ⊢
  obtain ⟨m', hm', hr2, hmem⟩ := H.tracks
  have hlen : r.1.length = cur.length := by simpa using H.length
  -- where ids come from
  have F1 : ∀ (i t : Nat), r.1[i]? = some (some t) → t < m → (i, t) ∈ ms := by
    intro i t hi ht
    rcases E.1 i t hi with h | ⟨_, h⟩
    · exact assignIds_some hv h
    · omega
  have F2 : ∀ (i t : Nat), r.1[i]? = some (some t) → m ≤ t → ∀ t0, (i, t0) ∉ ms := by
    intro i t hi ht t0 hmem0
    have h0 := assignIds_of_mem hv hmem0
    rcases E.1 i t hi with h | ⟨h, _⟩
    · have := hlt0 t (List.mem_of_getElem? h); omega
    · rw [h0] at h; cases h
  have F3 : ∀ (i t : Nat), r.1[i]? = some (some t) → t < m' := by
    intro i t hi
    rcases hmem t (List.mem_of_getElem? hi) with h | h
    · have := hlt0 t h; omega
    · exact h.2
  have Fi : ∀ (i t : Nat), r.1[i]? = some (some t) → i < cur.length := by
    intro i t hi
    have := (List.getElem?_eq_some_iff.1 hi).1
    omega
  have F4 : ∀ (i t : Nat) (hi : r.1[i]? = some (some t)), m ≤ t →
      extendOwner who owner m (cur.map (·.1)) r.1 t = who (cur[i]'(Fi i t hi)).1 := by
    intro i t hi ht
    have hf : (cur.map (·.1))[i]? = some (cur[i]'(Fi i t hi)).1 := by
      simp [List.getElem?_eq_getElem (Fi i t hi)]
    have := find_holder r.1 (cur.map (·.1)) i t _ H.distinct hi hf
    simp only [extendOwner, this]
    rw [if_neg (by omega)]
  have Fold : ∀ t, t < m → extendOwner who owner m (cur.map (·.1)) r.1 t = owner t := by
    intro t ht; simp [extendOwner, ht]
  refine ⟨m', hm', hr2, ?_, hlen, ?_, ?_, H.distinct⟩
  · -- injectivity of the extended owner map
    have mixed : ∀ t t', t < m → m ≤ t' → t' < m' →
        extendOwner who owner m (cur.map (·.1)) r.1 t ≠
          extendOwner who owner m (cur.map (·.1)) r.1 t' := by
      intro t t' ht ht' ht'm heq
      obtain ⟨i', hi'⟩ := List.mem_iff_getElem?.1 (E.2 m' hr2 t' ht' ht'm)
      rw [Fold t ht, F4 i' t' hi' ht'] at heq
      exact F2 i' t' hi' ht' t ((hset (i', t)).2 ⟨ht, Fi i' t' hi', heq.symm⟩)
    intro t t' ht ht' heq
    by_cases h1 : t < m <;> by_cases h2 : t' < m
    · rw [Fold t h1, Fold t' h2] at heq; exact hinj t t' h1 h2 heq
    · exact absurd heq (mixed t t' h1 (by omega) ht')
    · exact absurd heq.symm (mixed t' t h2 (by omega) ht)
    · obtain ⟨i, hi⟩ := List.mem_iff_getElem?.1 (E.2 m' hr2 t (by omega) ht)
      obtain ⟨i', hi'⟩ := List.mem_iff_getElem?.1 (E.2 m' hr2 t' (by omega) ht')
      rw [F4 i t hi (by omega), F4 i' t' hi' (by omega)] at heq
      have hii : i = i' := by
        have h1' : i < (cur.map (fun d => who d.1)).length := by simpa using Fi i t hi
        have h2' : i' < (cur.map (fun d => who d.1)).length := by simpa using Fi i' t' hi'
        apply (List.Nodup.getElem_inj_iff hdist (hi := h1') (hj := h2')).1
        simpa using heq
      subst hii
      rw [hi] at hi'
      simpa using hi'
  · intro i t hi
    refine ⟨F3 i t hi, Fi i t hi, ?_⟩
    by_cases ht : t < m
    · rw [Fold t ht]
      obtain ⟨_, h, hw⟩ := (hset (i, t)).1 (F1 i t hi ht)
      exact hw
    · exact (F4 i t hi (by omega)).symm
  · intro i hi
    have hi0 : i < (assignIds cur.length ms).length := by rw [assignIds_length]; exact hi
    have h' : i < (cur.map (·.2)).length := by simpa using hi
    cases ho : (assignIds cur.length ms)[i] with
    | some c => exact ⟨c, H.keep i c (by rw [List.getElem?_eq_getElem hi0, ho])⟩
    | none =>
      obtain ⟨t, _, ht⟩ := H.fresh i h' (by rw [List.getElem?_eq_getElem hi0, ho])
        (by simpa using habove cur[i] (List.getElem_mem _))
      exact ⟨t, ht⟩

end core


/-! ## the per-frame class relative to identity edges (used by the one-step theorems) -/

section frameClass
variable {R φ : Type} [Field R] [LinearOrder R] [IsStrictOrderedRing R]

/-- hypotheses of the property's class for one frame, relative to the window contents -/
structure FrameClass (score : φ → φ → R) (cands : Nat → List φ) (m : Nat) (cur : List (φ × R))
    (ident : List (Nat × Nat)) : Prop where
  nonempty : cur ≠ []
  bounds : ∀ e ∈ ident, e.1 < cur.length ∧ e.2 < m
  /-- absences shorter than the window -/
  noStale : ∀ t, t < m → cands t ≠ []
  separated : Separated score cands m (cur.map (·.1)) ident
  /-- a newcomer only while every known animal is visible -/
  cover : ∀ g : Nat × Nat, g.1 < cur.length → g.2 < m → ∃ e ∈ ident, e.1 = g.1 ∨ e.2 = g.2

/-- the stage returns `ident` (as a valid match list) for either matcher -/
theorem stage_identity (cfg : Config R) (ext : Ext R) (hext : ExtOk ext)
    (hmatch : (cfg.matcher = .greedy ∧ ArgsortSorted ext) ∨
              (cfg.matcher = .hungarian ∧ LsaPicksIdentity ext))
    (score : φ → φ → R) (cands : Nat → List φ) (m : Nat) (hm : 0 < m) (cur : List (φ × R))
    (ident : List (Nat × Nat)) (hc : FrameClass score cands m cur ident) :
    ident ≠ [] ∧ ∃ ms, assignStage Fixes.repaired cfg.matcher ext m
        (toCost (scoreMatrixP cfg.red score cands m (cur.map (·.1)))) = .ok ms ∧
        MatchValid cur.length m ms ∧ ∀ p, p ∈ ms ↔ p ∈ ident := by
  have hlen : (toCost (scoreMatrixP cfg.red score cands m (cur.map (·.1)))).length = cur.length := by
    rw [toCost_length, scoreMatrixP_length]; simp
  have hcur : 0 < cur.length := List.length_pos_iff.2 hc.nonempty
  have hne : toCost (scoreMatrixP cfg.red score cands m (cur.map (·.1))) ≠ [] := by
    apply List.ne_nil_of_length_pos; rw [hlen]; exact hcur
  obtain ⟨hrect, hsome, hdom⟩ := score_matrix_dominant cfg.red score cands m (cur.map (·.1)) ident
    (by simpa using hc.bounds) hc.noStale hc.separated
  have hid : ident ≠ [] := by
    obtain ⟨e, he, _⟩ := hc.cover (0, 0) hcur hm
    exact List.ne_nil_of_mem he
  refine ⟨hid, ?_⟩
  obtain ⟨ms0, h0, hv0, _⟩ := assignStage_repaired hext Fixes.repaired rfl cfg.matcher m
    (toCost (scoreMatrixP cfg.red score cands m (cur.map (·.1)))) (colPattern_scoreMatrix _ _ _ _ _)
  rw [hlen] at hv0
  have hb' : ∀ e ∈ ident, e.1 < (toCost (scoreMatrixP cfg.red score cands m (cur.map (·.1)))).length
      ∧ e.2 < m := by rw [hlen]; exact hc.bounds
  have hcov' : ∀ g : Nat × Nat,
      g.1 < (toCost (scoreMatrixP cfg.red score cands m (cur.map (·.1)))).length → g.2 < m →
      ∃ e ∈ ident, e.1 = g.1 ∨ e.2 = g.2 := by rw [hlen]; exact hc.cover
  rcases hmatch with ⟨hg, hsort⟩ | ⟨hh, hpick⟩
  · obtain ⟨ms, h1, hset⟩ := greedy_stage_identity hext hsort m _ hne hrect hsome ident hb' hdom hcov'
    rw [hg] at h0 ⊢
    have e : ms = ms0 := by rw [h1] at h0; exact Except.ok.inj h0
    subst e
    exact ⟨ms, h1, hv0, hset⟩
  · obtain ⟨ms, h1, hset⟩ := hungarian_stage_identity hpick m _ hne hrect hsome ident hb' hdom hcov'
    rw [hh] at h0 ⊢
    have e : ms = ms0 := by rw [h1] at h0; exact Except.ok.inj h0
    subst e
    exact ⟨ms, h1, hv0, hset⟩

end frameClass

end SleapVerif.Tracker
