import SleapVerif.Lemmas.BottomUpMatch
import SleapVerif.Lemmas.BottomUpDeps
/-!
# C03 composition: the grouping stage on a separated score table

Puts together, for `Grouping.groupSample` (pinned matching):
* C17/C08 (restated from their lemma files in `Lemmas/BottomUpDeps.lean`) — on an arborescence the
  connection list has tree shape (`tree_conns`, which rests on C17's parent-first order), hence the
  instance classes are the connected components of the accepted connections
  (`assign_classes_eq_components`) and the run does not raise (`grouping_total`, `…_partial`);
* C08's solver contract `LsaOK` ⇒ `LsaStable` (`lsaStable_of_spec`);
* H2 (`SepTable`) ⇒ accepted connections = true visible edges (`accepted_iff_true`).
-/
set_option linter.unusedSectionVars false

namespace SleapVerif.BottomUp
open SleapVerif.Grouping SleapVerif.Toposort SleapVerif.BottomUp.Deps

variable {K : Type} [Field K] [LinearOrder K] [IsStrictOrderedRing K]

/-- **H2** for the cost matrix `C` of one edge type: no NaN score, and the scores `−C` separate the
true pairs `T` from the others. -/
structure SepTable (C : Mat (Option K)) (T : Nat → Nat → Prop) (minLine : K) : Prop where
  valid : ValidIn C
  sep : Separated (scoreOf C) T (nRows C) (nCols C) minLine

/-- per edge type: a match of the run passes `min_line_scores` iff it is a true pair -/
theorem edge_accepted {lsa : Lsa K} {C : Mat (Option K)} {T : Nat → Nat → Prop} {minLine : K}
    (S : LsaSpecOn lsa C) (H : SepTable C T minLine) {ms : List (Match K)}
    (h : matchEdgeAsIs lsa C = some ms) (i j : Nat) :
    (∃ m ∈ ms, m.row = i ∧ m.col = j ∧ ∃ s, m.score = some s ∧ minLine ≤ s) ↔ T i j := by
  unfold matchEdgeAsIs at h
  cases hl : lsa C with
  | none => simp [hl] at h
  | some M =>
    simp only [hl, Option.map_some, Option.some.injEq] at h
    subst h
    obtain ⟨St, inR⟩ := lsaStable_of_spec H.valid S hl
    have key := accepted_iff_true inR St H.sep i j
    constructor
    · rintro ⟨m, hm, rfl, rfl, s, hs, hle⟩
      obtain ⟨x, hx, rfl⟩ := List.mem_map.mp hm
      apply key.mp
      refine ⟨hx, ?_⟩
      simp only at hs
      cases he : entry C x.1 x.2 with
      | none => simp [he] at hs
      | some v =>
        simp only [he, Option.map_some, Option.some.injEq] at hs
        simp only [scoreOf, he, Option.getD_some]
        rw [hs]; exact hle
    · intro hT
      obtain ⟨hm, hle⟩ := key.mpr hT
      refine ⟨⟨i, j, (entry C i j).map Neg.neg⟩, List.mem_map.mpr ⟨(i, j), hm, rfl⟩, rfl, rfl, ?_⟩
      obtain ⟨hi, hj⟩ := inR _ hm
      have hv := H.valid i hi j hj
      cases he : entry C i j with
      | none => simp [he] at hv
      | some v =>
        refine ⟨-v, by simp, ?_⟩
        simpa [scoreOf, he] using hle

theorem allValid_edgeCost {ch : List Nat} {scores : List (Mat (Option K))} {k : Nat} {e : Edge}
    (hv : ValidIn (edgeCost ch scores k e)) : AllValid (edgeCost ch scores k e) := by
  unfold edgeCost costMatrix at hv ⊢
  generalize (edgeDims ch e).1 = nr at hv ⊢
  generalize (edgeDims ch e).2 = nc at hv ⊢
  generalize (fun i j => Option.map Neg.neg (entry (scores.getD k []) i j)) = f at hv ⊢
  intro row hrow x hx
  simp only [mkMat, List.mem_map, List.mem_range] at hrow
  obtain ⟨i, hi, rfl⟩ := hrow
  simp only [List.mem_map, List.mem_range] at hx
  obtain ⟨j, hj, rfl⟩ := hx
  have h0 : 0 < nr := by omega
  have := hv i (by rw [nRows_mkMat]; exact hi) j (by rw [nCols_mkMat _ _ _ h0]; exact hj)
  rwa [entry_mkMat _ _ _ hi hj] at this

/-- with a NaN-free cost matrix both variants of the matching are the pinned one, and the solver
sees the matrix itself -/
theorem matchEdge_valid {fixed : Bool} {lsa : Lsa K} {C : Mat (Option K)} (hv : AllValid C)
    (S : LsaSpecOn lsa (lsaInput fixed C)) :
    LsaSpecOn lsa C ∧ matchEdge fixed lsa C = matchEdgeAsIs lsa C := by
  cases fixed with
  | false => exact ⟨by simpa [lsaInput] using S, by simp [matchEdge]⟩
  | true =>
    have S' : LsaSpecOn lsa C := by
      have : lsaInput true C = C := by simp [lsaInput, fillInvalid_of_allValid hv]
      rwa [this] at S
    exact ⟨S', by simp only [matchEdge, if_true]; exact matches_fixed_eq_asIs_when_valid hv S'⟩

/-- **The grouping stage reassembles the true groups.**  Arborescence (any listing, processed in
C17's order), solver contract on the matrices of the run, `min_instance_peaks = 0`, H2 per edge type
⇒ the run returns (both variants of the matching: `fixed`); the accepted connections are exactly
the true visible edges; exactly their endpoints are assigned; two peaks share an instance iff a
chain of true visible edges joins them. -/
theorem grouping_reassembly {fixed : Bool} {lsa : Lsa K} {P : Grouping.Params K} {r : Nat} {ch : List Nat}
    {scores : List (Mat (Option K))}
    (A : Arbo P.edges r) (ho : toposort P.edges = some P.order)
    (S : LsaOK fixed lsa P ch scores) (hmp : P.minPeaks = .int 0)
    (T : Nat → Nat → Nat → Prop)
    (H2 : ∀ k e, P.edges[k]? = some e → SepTable (edgeCost ch scores k e) (T k) P.minLine) :
    ∃ out, groupSample fixed lsa P ch scores = .ok out ∧
      (∀ p q, (p, q) ∈ pairs out.conns ↔
        ∃ k e i j, P.edges[k]? = some e ∧ T k i j ∧ p = (e.1, i) ∧ q = (e.2, j)) ∧
      (∀ p, (lookup out.assign p).isSome ↔ p ∈ endpoints (pairs out.conns)) ∧
      (∀ p q i j, lookup out.assign p = some i → lookup out.assign q = some j →
        (i = j ↔ Connected (pairs out.conns) p q)) := by
  have hval : ∀ k e, P.edges[k]? = some e → LsaSpecOn lsa (edgeCost ch scores k e) ∧
      matchEdge fixed lsa (edgeCost ch scores k e) = matchEdgeAsIs lsa (edgeCost ch scores k e) :=
    fun k e he => matchEdge_valid (allValid_edgeCost (H2 k e he).valid) (S k e he)
  have htot : ∃ out, groupSample fixed lsa P ch scores = .ok out := by
    cases fixed with
    | true => exact grouping_total A ho S
    | false =>
      exact grouping_total_partial A ho S
        (fun k e he => ⟨_, diag_isMatching_of_valid (H2 k e he).valid⟩)
  obtain ⟨out, h⟩ := htot
  refine ⟨out, h, ?_, ?_⟩
  · -- accepted connections = true visible edges
    have hmts : ∀ k e, P.edges[k]? = some e →
        matchEdgeAsIs lsa (edgeCost ch scores k e) = some (out.mts.getD k []) := by
      intro k e he
      rw [← (hval k e he).2]
      exact matchAll_get (groupSample_ok h).1 he
    have hS : ∀ k e, P.edges[k]? = some e → LsaSpecOn lsa (edgeCost ch scores k e) :=
      fun k e he => (hval k e he).1
    intro p q
    constructor
    · intro hpq
      obtain ⟨c, hc, hcpq⟩ := List.mem_map.mp hpq
      obtain ⟨k, e, m, he, hm, hs, hle, h1, h2⟩ := (min_score_filtered A ho S h c).mp hc
      have hT := (edge_accepted (hS k e he) (H2 k e he) (hmts k e he) m.row m.col).mp
        ⟨m, hm, rfl, rfl, c.score, hs, hle⟩
      have hp : p = c.src := (congrArg Prod.fst hcpq).symm
      have hq : q = c.dst := (congrArg Prod.snd hcpq).symm
      exact ⟨k, e, m.row, m.col, he, hT, hp.trans h1, hq.trans h2⟩
    · rintro ⟨k, e, i, j, he, hT, rfl, rfl⟩
      obtain ⟨m, hm, rfl, rfl, s, hs, hle⟩ :=
        (edge_accepted (hS k e he) (H2 k e he) (hmts k e he) i j).mpr hT
      have := (min_score_filtered A ho S h ⟨(e.1, m.row), (e.2, m.col), s⟩).mpr
        ⟨k, e, m, he, hm, hs, hle, rfl, rfl⟩
      exact List.mem_map.mpr ⟨_, this, rfl⟩
  · -- instance classes = connected components (C08, through C17's order)
    have hraw : out.assign = assignRaw (pairs out.conns) := by
      rw [assign_eq_filterSmall h, hmp]
      simp [minPeaksThreshold, filterSmall, rawAssign]
    rw [hraw]
    exact assign_classes_eq_components (tree_conns A ho S h).2

/-- **A frame without any peak**: the grouping stage returns no connection, an empty instance map
and no instance — for every `min_instance_peaks`, any score tables, both variants of the matching. -/
theorem grouping_empty {fixed : Bool} {lsa : Lsa K} {P : Grouping.Params K} {r : Nat}
    {scores : List (Mat (Option K))}
    (A : Arbo P.edges r) (ho : toposort P.edges = some P.order) (S : LsaOK fixed lsa P [] scores) :
    ∃ out, groupSample fixed lsa P [] scores = .ok out ∧ out.conns = [] ∧ out.assign = [] ∧
      out.insts = [] := by
  have hC : ∀ k e, edgeCost ([] : List Nat) scores k e = [] := by
    intro k e
    simp [edgeCost, costMatrix, edgeDims, nodePeaks, mkMat]
  have htot : ∃ out, groupSample fixed lsa P [] scores = .ok out := by
    cases fixed with
    | true => exact grouping_total A ho S
    | false =>
      exact grouping_total_partial A ho S (fun k e _ => ⟨[], by
        rw [hC]
        exact ⟨⟨by simp, by simp⟩, by simp, by simp [nRows, nCols], by simp⟩⟩)
  obtain ⟨out, h⟩ := htot
  have hconns : out.conns = [] := by
    apply List.eq_nil_iff_forall_not_mem.mpr
    intro c hc
    obtain ⟨k, e, m, he, hm, _⟩ := (min_score_filtered A ho S h c).mp hc
    have := (matches_one_to_one S h he).inRange m hm
    rw [hC] at this
    simp [nRows] at this
  obtain ⟨_, _, ha, hi⟩ := groupSample_ok h
  have hassign : out.assign = [] := by
    rw [ha, hconns]
    unfold assignConnections
    cases minPeaksThreshold P.minPeaks P.nNodes <;> simp [pairs, assignRaw, filterSmall]
  refine ⟨out, h, hconns, hassign, ?_⟩
  rw [hconns, hassign] at hi
  simp [makeInstances, checkConns, sortedIds, nextId] at hi
  exact hi

/-! ## the output rows -/

theorem mem_sortedIds {a : Assign} {id : Nat} : id ∈ sortedIds a ↔ ∃ kv ∈ a, kv.2 = id := by
  unfold sortedIds
  rw [List.mem_filter, List.mem_range]
  constructor
  · rintro ⟨_, h⟩
    obtain ⟨kv, hkv, he⟩ := List.any_eq_true.mp h
    exact ⟨kv, hkv, by simpa using he⟩
  · rintro ⟨kv, hkv, rfl⟩
    exact ⟨lt_nextId hkv, List.any_eq_true.mpr ⟨kv, hkv, by simp⟩⟩

theorem sortedIds_nodup (a : Assign) : (sortedIds a).Nodup :=
  List.Nodup.filter _ List.nodup_range

/-- `rowOf` holds every assigned peak of the instance, provided the instance has at most one peak
per node type and the instance map has one entry per peak -/
theorem rowOf_of_lookup {a : Assign} {nNodes id n k : Nat} (hn : (a.map (·.1)).Nodup)
    (hone : ∀ k k', lookup a (n, k) = some id → lookup a (n, k') = some id → k = k')
    (hlt : n < nNodes) (h : lookup a (n, k) = some id) :
    (rowOf a nNodes id)[n]? = some (some k) := by
  unfold rowOf
  rw [List.getElem?_map, List.getElem?_range hlt]
  simp only [Option.map_some, Option.some.injEq]
  have hmem : ((n, k), id) ∈ a.filter (fun kv => kv.2 == id && kv.1.1 == n) :=
    List.mem_filter.mpr ⟨lookup_some_mem h, by simp⟩
  cases hl : (a.filter (fun kv => kv.2 == id && kv.1.1 == n)).getLast? with
  | none =>
    rw [List.getLast?_eq_none_iff] at hl
    rw [hl] at hmem
    simp at hmem
  | some kv =>
    have hm := List.mem_of_getLast? hl
    obtain ⟨hma, hp⟩ := List.mem_filter.mp hm
    simp only [Bool.and_eq_true, beq_iff_eq] at hp
    have hkv : kv = ((n, kv.1.2), id) := by
      rcases kv with ⟨⟨x, y⟩, z⟩
      simp only at hp ⊢
      rw [hp.1, hp.2]
    have hlk : lookup a (n, kv.1.2) = some id := lookup_of_mem hn (hkv ▸ hma)
    simp only [Option.map_some, Option.some.injEq]
    exact (hone k kv.1.2 h hlk).symm

/-- **The rows of `make_predicted_instances`**: one row per instance id in use (ascending ids), and
the row of `id` holds at node `n` exactly the peak `(n, k)` assigned to `id`. -/
theorem rows_of_run {fixed : Bool} {lsa : Lsa K} {P : Grouping.Params K} {r : Nat} {ch : List Nat}
    {scores : List (Mat (Option K))} {out : Grouping.Output K}
    (A : Arbo P.edges r) (ho : toposort P.edges = some P.order)
    (S : LsaOK fixed lsa P ch scores) (h : groupSample fixed lsa P ch scores = .ok out)
    (hnodes : ∀ e ∈ P.edges, e.1 < P.nNodes ∧ e.2 < P.nNodes) :
    out.insts.map (·.row) = (sortedIds out.assign).map (rowOf out.assign P.nNodes) ∧
    (sortedIds out.assign).Nodup ∧
    (∀ id, id ∈ sortedIds out.assign ↔ ∃ p, lookup out.assign p = some id) ∧
    (∀ id n k, (rowOf out.assign P.nNodes id)[n]? = some (some k) ↔ lookup out.assign (n, k) = some id) := by
  have hn := (peaks_disjoint A ho S h).1
  obtain ⟨_, hcs, ha, hi⟩ := groupSample_ok h
  refine ⟨?_, sortedIds_nodup _, ?_, ?_⟩
  · have := (instance_score_sum (tree_conns A ho S h).2 P.minPeaks P.nNodes).2
    rw [← ha] at this
    rw [this] at hi
    have hi' := (Except.ok.inj hi).symm
    rw [hi']
    simp [List.map_map, Function.comp_def]
  · intro id
    rw [mem_sortedIds]
    constructor
    · rintro ⟨kv, hkv, rfl⟩
      exact ⟨kv.1, lookup_of_mem hn hkv⟩
    · rintro ⟨p, hp⟩
      exact ⟨(p, id), lookup_some_mem hp, rfl⟩
  · intro id n k
    constructor
    · exact (instance_peaks_are_inputs A ho S h).2 id n k
    · intro hl
      have hlt : n < P.nNodes := by
        have I := finv_assignRaw (tree_conns A ho S h).2
        rw [assign_eq_filterSmall h] at hl
        have hraw := lookup_filterSmall_sub I.nodupKeys hl
        have hend := I.keys (n, k) (by
          show (lookup (assignRaw (pairs out.conns)) (n, k)).isSome = true
          rw [hraw]; rfl)
        obtain ⟨c, hc, hor⟩ := mem_endpoints.mp hend
        obtain ⟨c', hc', rfl⟩ := List.mem_map.mp hc
        obtain ⟨_, e, m, _, he, _, _, _, h1, h2, _, _⟩ := conn_facts S h hc'
        have hE : e ∈ P.edges := List.mem_of_getElem? he
        rcases hor with hh | hh
        · have : (n, k) = (e.1, m.row) := by rw [hh]; exact h1
          rw [(Prod.mk.inj this).1]; exact (hnodes e hE).1
        · have : (n, k) = (e.2, m.col) := by rw [hh]; exact h2
          rw [(Prod.mk.inj this).1]; exact (hnodes e hE).2
      exact rowOf_of_lookup hn
        (fun k k' h1 h2 => instance_one_peak_per_node A ho S h h1 h2) hlt hl

end SleapVerif.BottomUp
