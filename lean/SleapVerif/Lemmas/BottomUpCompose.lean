import SleapVerif.Lemmas.BottomUpMatch
import SleapVerif.Props.C08
import SleapVerif.Props.C17
/-!
# C03 composition: the grouping stage on a separated score table

Puts together, for `Grouping.groupSample` (pinned matching):
* C17/C08 — on an arborescence the connection list has tree shape (`C08.tree_conns`, which rests on
  C17's parent-first order), hence the instance classes are the connected components of the
  accepted connections (`C08.assign_classes_eq_components`) and the run does not raise
  (`C08.grouping_total_partial`);
* C08's solver contract `LsaOK` ⇒ `LsaStable` (`lsaStable_of_spec`);
* H2 (`SepTable`) ⇒ accepted connections = true visible edges (`accepted_iff_true`).
-/
set_option linter.unusedSectionVars false

namespace SleapVerif.BottomUp
open SleapVerif.Grouping SleapVerif.Toposort

variable {K : Type} [Field K] [LinearOrder K] [IsStrictOrderedRing K]

/-- **H2** for the cost matrix `C` of one edge type: no NaN score, and the scores `−C` separate the
true pairs `T` from the others. -/
structure SepTable (C : Mat (Option K)) (T : Nat → Nat → Prop) (minLine : K) : Prop where
  valid : ValidIn C
  sep : Separated (scoreOf C) T (nRows C) (nCols C) minLine

/-- per edge type: a match of the run passes `min_line_scores` iff it is a true pair -/
theorem edge_accepted {lsa : Lsa K} {C : Mat (Option K)} {T : Nat → Nat → Prop} {minLine : K}
    (S : LsaSpecOn lsa C) (H : SepTable C T minLine) {ms : List (Match K)}
    (h : matchEdgeAsIs lsa C = some ms) (i j : Nat) :
    (∃ m ∈ ms, m.row = i ∧ m.col = j ∧ ∃ s, m.score = some s ∧ minLine ≤ s) ↔ T i j := by
  unfold matchEdgeAsIs at h
  cases hl : lsa C with
  | none => simp [hl] at h
  | some M =>
    simp only [hl, Option.map_some, Option.some.injEq] at h
    subst h
    obtain ⟨St, inR⟩ := lsaStable_of_spec H.valid S hl
    have key := accepted_iff_true inR St H.sep i j
    constructor
    · rintro ⟨m, hm, rfl, rfl, s, hs, hle⟩
      obtain ⟨x, hx, rfl⟩ := List.mem_map.mp hm
      apply key.mp
      refine ⟨hx, ?_⟩
      simp only at hs
      cases he : entry C x.1 x.2 with
      | none => simp [he] at hs
      | some v =>
        simp only [he, Option.map_some, Option.some.injEq] at hs
        simp only [scoreOf, he, Option.getD_some]
        rw [hs]; exact hle
    · intro hT
      obtain ⟨hm, hle⟩ := key.mpr hT
      refine ⟨⟨i, j, (entry C i j).map Neg.neg⟩, List.mem_map.mpr ⟨(i, j), hm, rfl⟩, rfl, rfl, ?_⟩
      obtain ⟨hi, hj⟩ := inR _ hm
      have hv := H.valid i hi j hj
      cases he : entry C i j with
      | none => simp [he] at hv
      | some v =>
        refine ⟨-v, by simp, ?_⟩
        simpa [scoreOf, he] using hle

/-- **The grouping stage reassembles the true groups.**  Arborescence (any listing, processed in
C17's order), solver contract, `min_instance_peaks = 0`, H2 per edge type ⇒ the run returns; the
accepted connections are exactly the true visible edges; exactly their endpoints are assigned; two
peaks share an instance iff a chain of true visible edges joins them. -/
theorem grouping_reassembly {lsa : Lsa K} {P : Grouping.Params K} {r : Nat} {ch : List Nat}
    {scores : List (Mat (Option K))}
    (A : Arbo P.edges r) (ho : toposort P.edges = some P.order)
    (S : LsaOK false lsa P ch scores) (hmp : P.minPeaks = .int 0)
    (T : Nat → Nat → Nat → Prop)
    (H2 : ∀ k e, P.edges[k]? = some e → SepTable (edgeCost ch scores k e) (T k) P.minLine) :
    ∃ out, groupSample false lsa P ch scores = .ok out ∧
      (∀ p q, (p, q) ∈ pairs out.conns ↔
        ∃ k e i j, P.edges[k]? = some e ∧ T k i j ∧ p = (e.1, i) ∧ q = (e.2, j)) ∧
      (∀ p, (lookup out.assign p).isSome ↔ p ∈ endpoints (pairs out.conns)) ∧
      (∀ p q i j, lookup out.assign p = some i → lookup out.assign q = some j →
        (i = j ↔ Connected (pairs out.conns) p q)) := by
  obtain ⟨out, h⟩ := C08.grouping_total_partial A ho S
    (fun k e he => ⟨_, diag_isMatching_of_valid (H2 k e he).valid⟩)
  refine ⟨out, h, ?_, ?_⟩
  · -- accepted connections = true visible edges
    have hmts : ∀ k e, P.edges[k]? = some e →
        matchEdgeAsIs lsa (edgeCost ch scores k e) = some (out.mts.getD k []) := by
      intro k e he
      have := matchAll_get (groupSample_ok h).1 he
      simpa [matchEdge] using this
    have hS : ∀ k e, P.edges[k]? = some e → LsaSpecOn lsa (edgeCost ch scores k e) := by
      intro k e he
      have := S k e he
      simpa [lsaInput] using this
    intro p q
    constructor
    · intro hpq
      obtain ⟨c, hc, hcpq⟩ := List.mem_map.mp hpq
      obtain ⟨k, e, m, he, hm, hs, hle, h1, h2⟩ := (C08.min_score_filtered A ho S h c).mp hc
      have hT := (edge_accepted (hS k e he) (H2 k e he) (hmts k e he) m.row m.col).mp
        ⟨m, hm, rfl, rfl, c.score, hs, hle⟩
      have hp : p = c.src := (congrArg Prod.fst hcpq).symm
      have hq : q = c.dst := (congrArg Prod.snd hcpq).symm
      exact ⟨k, e, m.row, m.col, he, hT, hp.trans h1, hq.trans h2⟩
    · rintro ⟨k, e, i, j, he, hT, rfl, rfl⟩
      obtain ⟨m, hm, rfl, rfl, s, hs, hle⟩ :=
        (edge_accepted (hS k e he) (H2 k e he) (hmts k e he) i j).mpr hT
      have := (C08.min_score_filtered A ho S h ⟨(e.1, m.row), (e.2, m.col), s⟩).mpr
        ⟨k, e, m, he, hm, hs, hle, rfl, rfl⟩
      exact List.mem_map.mpr ⟨_, this, rfl⟩
  · -- instance classes = connected components (C08, through C17's order)
    have hraw : out.assign = assignRaw (pairs out.conns) := by
      rw [C08.assign_eq_filterSmall h, hmp]
      simp [minPeaksThreshold, filterSmall, C08.rawAssign]
    rw [hraw]
    exact C08.assign_classes_eq_components (C08.tree_conns A ho S h).2

/-- **A frame without any peak**: the grouping stage returns no connection, an empty instance map
and no instance — for every `min_instance_peaks`, any score tables. -/
theorem grouping_empty {lsa : Lsa K} {P : Grouping.Params K} {r : Nat} {scores : List (Mat (Option K))}
    (A : Arbo P.edges r) (ho : toposort P.edges = some P.order) (S : LsaOK false lsa P [] scores) :
    ∃ out, groupSample false lsa P [] scores = .ok out ∧ out.conns = [] ∧ out.assign = [] ∧
      out.insts = [] := by
  have hC : ∀ k e, edgeCost ([] : List Nat) scores k e = [] := by
    intro k e
    simp [edgeCost, costMatrix, edgeDims, nodePeaks, mkMat]
  obtain ⟨out, h⟩ := C08.grouping_total_partial A ho S (fun k e _ => ⟨[], by
    rw [hC]
    exact ⟨⟨by simp, by simp⟩, by simp, by simp [nRows, nCols], by simp⟩⟩)
  have hconns : out.conns = [] := by
    apply List.eq_nil_iff_forall_not_mem.mpr
    intro c hc
    obtain ⟨k, e, m, he, hm, _⟩ := (C08.min_score_filtered A ho S h c).mp hc
    have := (C08.matches_one_to_one S h he).inRange m hm
    rw [hC] at this
    simp [nRows] at this
  obtain ⟨_, _, ha, hi⟩ := groupSample_ok h
  have hassign : out.assign = [] := by
    rw [ha, hconns]
    unfold assignConnections
    cases minPeaksThreshold P.minPeaks P.nNodes <;> simp [pairs, assignRaw, filterSmall]
  refine ⟨out, h, hconns, hassign, ?_⟩
  rw [hconns, hassign] at hi
  simp [makeInstances, checkConns, sortedIds, nextId] at hi
  exact hi

end SleapVerif.BottomUp
