import SleapVerif.Lemmas.TrackerOwner
/-!
# C10 over whole histories: scene class, window purity, one step with the owner map
-/
namespace SleapVerif.Tracker

section scene
variable {R φ : Type}

/-- the identity edges of a frame as a list -/
def identList (who : φ → Nat) (owner : Nat → Nat) (m : Nat) (cur : List (φ × R)) : List (Nat × Nat) :=
  (List.range cur.length).flatMap fun i =>
    ((List.range m).filter fun t => (cur[i]?.map fun d => who d.1) == some (owner t)).map fun t => (i, t)

theorem mem_identList (who : φ → Nat) (owner : Nat → Nat) (m : Nat) (cur : List (φ × R))
    (p : Nat × Nat) : p ∈ identList who owner m cur ↔ IsIdent who owner m cur p := by
  simp only [identList, List.mem_flatMap, List.mem_range, List.mem_map, List.mem_filter, IsIdent]
  constructor
  · rintro ⟨i, hi, t, ⟨ht, he⟩, rfl⟩
    refine ⟨ht, hi, ?_⟩
    simpa [List.getElem?_eq_getElem hi] using he
  · rintro ⟨ht, hi, he⟩
    refine ⟨p.1, hi, p.2, ⟨ht, ?_⟩, rfl⟩
    simp [List.getElem?_eq_getElem hi, he]

/-- **the scene class of the property for one frame**, stated with the ground truth `who` only,
    relative to the window contents `cands` of the `m` known tracks:
    one detection per animal, all above the new-track threshold, absences shorter than the window,
    a newcomer only while every animal in the window is visible, and separation of the animals
    (row: own stored features beat foreign ones; column: nobody else scores as well against them). -/
structure SceneFrame [LT R] (who : φ → Nat) (score : φ → φ → R) (thr : R) (cands : Nat → List φ)
    (m : Nat) (cur : List (φ × R)) : Prop where
  distinct : (cur.map (fun d => who d.1)).Nodup
  above : ∀ d ∈ cur, thr < d.2
  noStale : ∀ t, t < m → cands t ≠ []
  newcomer : ∀ d ∈ cur, (∀ t, t < m → ∀ f ∈ cands t, who f ≠ who d.1) →
    ∀ t, t < m → ∀ f ∈ cands t, ∃ d' ∈ cur, who d'.1 = who f
  sepRow : ∀ d ∈ cur, ∀ t t', t < m → t' < m → ∀ f ∈ cands t, ∀ f' ∈ cands t',
    who f = who d.1 → who f' ≠ who d.1 → score d.1 f' < score d.1 f
  sepCol : ∀ d ∈ cur, ∀ d' ∈ cur, ∀ t, t < m → ∀ f ∈ cands t, ∀ f' ∈ cands t,
    who f = who d.1 → who f' = who d.1 → who d'.1 ≠ who d.1 → score d'.1 f' < score d.1 f

end scene

section toClass
variable {R φ : Type} [Field R] [LinearOrder R] [IsStrictOrderedRing R]

omit [Field R] [IsStrictOrderedRing R] in
/-- with a pure window (every candidate of track `t` belongs to `owner t`) and an injective owner
    map, the scene class gives the per-frame class of the one-step theorems -/
theorem sceneFrame_frameClass (who : φ → Nat) (owner : Nat → Nat) (score : φ → φ → R) (thr : R)
    (cands : Nat → List φ) (m : Nat) (cur : List (φ × R)) (hcur : cur ≠ [])
    (hpure : ∀ t, t < m → ∀ f ∈ cands t, who f = owner t) (hinj : InjOn owner m)
    (hc : SceneFrame who score thr cands m cur) :
    FrameClass score cands m cur (identList who owner m cur) := by
  have hdistinct : ∀ (i j : Nat) (hi : i < cur.length) (hj : j < cur.length),
      who cur[i].1 = who cur[j].1 → i = j := by
    intro i j hi hj h
    have h1 : i < (cur.map (fun d => who d.1)).length := by simpa using hi
    have h2 : j < (cur.map (fun d => who d.1)).length := by simpa using hj
    apply (List.Nodup.getElem_inj_iff hc.distinct (hi := h1) (hj := h2)).1
    simpa using h
  refine ⟨hcur, ?_, hc.noStale, ⟨?_, ?_⟩, ?_⟩
  · intro e he
    obtain ⟨h2, h1, _⟩ := (mem_identList who owner m cur e).1 he
    exact ⟨h1, h2⟩
  · -- row dominance
    intro e he h t' ht' hne f hf f' hf'
    obtain ⟨h2, h1, hw⟩ := (mem_identList who owner m cur e).1 he
    have hd : cur[e.1] ∈ cur := List.getElem_mem _
    have e1 : who f = who cur[e.1].1 := by rw [hpure e.2 h2 f hf, hw]
    have e2 : who f' ≠ who cur[e.1].1 := by
      rw [hpure t' ht' f' hf', hw]
      intro h'; exact hne (hinj t' e.2 ht' h2 h')
    have := hc.sepRow _ hd e.2 t' h2 ht' f hf f' hf' e1 e2
    simpa using this
  · -- column dominance
    intro e he h i' hi' hne f hf f' hf'
    obtain ⟨h2, h1, hw⟩ := (mem_identList who owner m cur e).1 he
    have hi'' : i' < cur.length := by simpa using hi'
    have hd : cur[e.1] ∈ cur := List.getElem_mem _
    have hd' : cur[i'] ∈ cur := List.getElem_mem _
    have e1 : who f = who cur[e.1].1 := by rw [hpure e.2 h2 f hf, hw]
    have e2 : who f' = who cur[e.1].1 := by rw [hpure e.2 h2 f' hf', hw]
    have e3 : who cur[i'].1 ≠ who cur[e.1].1 := fun h' => hne (hdistinct i' e.1 hi'' h1 h')
    have := hc.sepCol _ hd _ hd' e.2 h2 f hf f' hf' e1 e2 e3
    simpa using this
  · -- every (detection, track) pair touches an identity edge
    intro g hg1 hg2
    by_cases hk : ∃ t, t < m ∧ who cur[g.1].1 = owner t
    · obtain ⟨t, ht, hw⟩ := hk
      exact ⟨(g.1, t), (mem_identList who owner m cur _).2 ⟨ht, hg1, hw⟩, Or.inl rfl⟩
    · -- a newcomer: then every animal in the window is visible, in particular the owner of g.2
      have hnew : ∀ t, t < m → ∀ f ∈ cands t, who f ≠ who cur[g.1].1 := by
        intro t ht f hf h'
        exact hk ⟨t, ht, by rw [← h', hpure t ht f hf]⟩
      obtain ⟨f, hf⟩ := List.exists_mem_of_ne_nil _ (hc.noStale g.2 hg2)
      obtain ⟨d', hd', hw⟩ := hc.newcomer _ (List.getElem_mem _) hnew g.2 hg2 f hf
      obtain ⟨j, hj, rfl⟩ := List.getElem_of_mem hd'
      refine ⟨(j, g.2), (mem_identList who owner m cur _).2 ⟨hg2, hj, ?_⟩, Or.inr rfl⟩
      rw [hw, hpure g.2 hg2 f hf]

end toClass


/-! ## fixed window: purity of the window and one step with the owner map -/

/-- **window purity** (fixed window): every stored feature that carries track `t` belongs to the
    animal `owner t` -/
def FW.Pure {φ : Type} (who : φ → Nat) (owner : Nat → Nat) (s : FW φ) : Prop :=
  ∀ fr ∈ s.queue, ∀ (i t : Nat) (f : φ), fr.ids[i]? = some (some t) → fr.feats[i]? = some f →
    who f = owner t

theorem FW.cands_pure {φ : Type} (who : φ → Nat) (owner : Nat → Nat) (s : FW φ)
    (hp : FW.Pure who owner s) (t : Nat) : ∀ f ∈ s.cands t, who f = owner t := by
  intro f hf
  unfold FW.cands at hf
  obtain ⟨fr, hfr, hx⟩ := List.mem_filterMap.1 hf
  cases hfind : (fr.ids.zip fr.feats).find? (fun p => p.1 == some t) with
  | none => simp [hfind] at hx
  | some p =>
    simp only [hfind, Option.map_some, Option.some.injEq] at hx
    have hp1 : p.1 = some t := by simpa using List.find?_some hfind
    obtain ⟨i, hi⟩ := List.mem_iff_getElem?.1 (List.mem_of_find?_eq_some hfind)
    obtain ⟨h1, h2⟩ := List.getElem?_zip_eq_some.1 hi
    rw [← hx]
    exact hp fr hfr i t p.2 (by rw [h1, hp1]) h2

section fwOwner
variable {R φ : Type} [Field R] [LinearOrder R] [IsStrictOrderedRing R]

/-- result of one step for the history induction -/
structure OwnerStep (who : φ → Nat) (owner owner' : Nat → Nat) (m m' : Nat) (cur : List (φ × R))
    (ids : List (Option Nat)) : Prop where
  mono : m ≤ m'
  agree : ∀ t, t < m → owner' t = owner t
  inj : InjOn owner' m'
  length : ids.length = cur.length
  /-- every returned track belongs to the animal of its detection -/
  owned : ∀ (i t : Nat), ids[i]? = some (some t) → t < m' ∧ ∃ h : i < cur.length, who cur[i].1 = owner' t
  /-- every detection has a track -/
  tracked : ∀ i, i < cur.length → ∃ t, ids[i]? = some (some t)

/-- matches for the frame: valid and exactly the identity edges (any frame of the class) -/
theorem scene_matches (cfg : Config R) (ext : Ext R) (hext : ExtOk ext)
    (hmatch : (cfg.matcher = .greedy ∧ ArgsortSorted ext) ∨
              (cfg.matcher = .hungarian ∧ LsaPicksIdentity ext))
    (score : φ → φ → R) (who : φ → Nat) (owner : Nat → Nat) (cands : Nat → List φ) (m : Nat)
    (hm : 0 < m) (cur : List (φ × R))
    (hpure : ∀ t, t < m → ∀ f ∈ cands t, who f = owner t) (hinj : InjOn owner m)
    (hc : SceneFrame who score cfg.thr cands m cur) :
    ∃ ms, assignStage Fixes.repaired cfg.matcher ext m
        (toCost (scoreMatrixP cfg.red score cands m (cur.map (·.1)))) = .ok ms ∧
      MatchValid cur.length m ms ∧ (∀ p, p ∈ ms ↔ IsIdent who owner m cur p) ∧
      (cur ≠ [] → ms ≠ []) := by
  by_cases hcur : cur = []
  · subst hcur
    obtain ⟨ms, h1, hv, _⟩ := assignStage_repaired hext Fixes.repaired rfl cfg.matcher m
      (toCost (scoreMatrixP cfg.red score cands m (([] : List (φ × R)).map (·.1))))
      (colPattern_scoreMatrix _ _ _ _ _)
    have hlen : (toCost (scoreMatrixP cfg.red score cands m (([] : List (φ × R)).map (·.1)))).length = 0 := by
      rw [toCost_length, scoreMatrixP_length]; rfl
    rw [hlen] at hv
    have hnil : ms = [] := by
      cases ms with
      | nil => rfl
      | cons p ps => exact absurd (hv.bounds p (by simp)).1 (Nat.not_lt_zero _)
    subst hnil
    refine ⟨[], h1, hv, ?_, fun h => absurd rfl h⟩
    intro p
    constructor
    · intro h; cases h
    · rintro ⟨_, h, _⟩; exact absurd h (Nat.not_lt_zero _)
  · have hfc := sceneFrame_frameClass who owner score cfg.thr cands m cur hcur hpure hinj hc
    obtain ⟨hid, ms, h1, hv, hset⟩ := stage_identity cfg ext hext hmatch score cands m hm cur _ hfc
    refine ⟨ms, h1, hv, fun p => (hset p).trans (mem_identList who owner m cur p), ?_⟩
    intro _ hms
    obtain ⟨e, he⟩ := List.exists_mem_of_ne_nil _ hid
    rw [hms] at hset
    exact absurd ((hset e).2 he) (by simp)

/-- **one step with the owner map (fixed window)**: invariant, purity and injectivity are preserved,
    every returned track belongs to the animal of its detection, every detection is tracked -/
theorem FW.owner_step (cfg : Config R) (hfx : cfg.fx = Fixes.repaired) (ext : Ext R)
    (hext : ExtOk ext)
    (hmatch : (cfg.matcher = .greedy ∧ ArgsortSorted ext) ∨
              (cfg.matcher = .hungarian ∧ LsaPicksIdentity ext))
    (score : φ → φ → R) (who : φ → Nat) (owner : Nat → Nat) (s : FW φ) (hs : s.Inv)
    (hp : FW.Pure who owner s) (hinj : InjOn owner s.tracks.length) (cur : List (φ × R))
    (hc : SceneFrame who score cfg.thr s.cands s.tracks.length cur) :
    ∃ s' ids owner', FW.step cfg ext score s cur = .ok (s', ids) ∧ s'.Inv ∧
      FW.Pure who owner' s' ∧
      OwnerStep who owner owner' s.tracks.length s'.tracks.length cur ids := by
  have hst : cfg.fx.stale = true := by rw [hfx]; rfl
  have har : cfg.fx.anyRow = true := by rw [hfx]; rfl
  obtain ⟨s1, ids1, hstep, hinv1, hfo⟩ := FW.step_ok cfg hfx ext hext score s hs cur
  -- the match list `ms` (empty queue: no matching happens, `ms = []`)
  have hms : ∃ ms, MatchValid cur.length s.tracks.length ms ∧
      (∀ p, p ∈ ms ↔ IsIdent who owner s.tracks.length cur p) ∧
      (s1.queue = s.queue ∨ s1.queue = pushBounded cfg.window s.queue
          ⟨cur.map (·.1), (allocate cfg.thr (cur.map (·.2)) (assignIds cur.length ms) s.tracks).1⟩) ∧
      s1.tracks = (allocate cfg.thr (cur.map (·.2)) (assignIds cur.length ms) s.tracks).2 ∧
      ids1 = (allocate cfg.thr (cur.map (·.2)) (assignIds cur.length ms) s.tracks).1 := by
    by_cases hq : s.queue.isEmpty = true
    · -- first frame of a run: no known track (`noStale` forces `m = 0`)
      have hm0 : s.tracks.length = 0 := by
        by_contra h
        have hq' : s.queue = [] := by simpa using hq
        exact hc.noStale 0 (by omega) (by simp [FW.cands, hq'])
      refine ⟨[], ⟨by simp, by simp, by simp⟩, ?_, ?_⟩
      · intro p
        constructor
        · intro h; cases h
        · rintro ⟨h, _⟩; omega
      · have hinit : FW.step cfg ext score s cur = .ok (FW.init cfg s cur) := by
          unfold FW.step; rw [if_pos hq]
        rw [hinit] at hstep
        have e := Except.ok.inj hstep
        have ea : assignIds cur.length [] = List.replicate cur.length (none : Option Nat) := rfl
        rw [ea]
        unfold FW.init at e
        by_cases hany : (allocate cfg.thr (cur.map (·.2)) (List.replicate cur.length none) s.tracks).1.any
            Option.isSome = true
        · simp only [hany, if_true] at e
          injection e with e1 e2; subst e1; subst e2; exact ⟨Or.inr rfl, rfl, rfl⟩
        · simp only [hany] at e
          injection e with e1 e2; subst e1; subst e2; exact ⟨Or.inl rfl, rfl, rfl⟩
    · have hq' : s.queue ≠ [] := by simpa using hq
      obtain ⟨t0, ht0, _⟩ := FW.cands_ne_nil s hs hq'
      obtain ⟨ms, h1, hv, hset, hne⟩ := scene_matches cfg ext hext hmatch score who owner s.cands
        s.tracks.length (by omega) cur (fun t _ => FW.cands_pure who owner s hp t) hinj hc
      refine ⟨ms, hv, hset, ?_⟩
      have hupd : FW.step cfg ext score s cur = .ok (FW.update cfg s cur ms) := by
        unfold FW.step
        rw [if_neg hq]
        have h1' : Fixes.repaired.stale = true := rfl
        simp only [hfx, h1', scoreMatrix_repaired, FW.stepWith, h1]
      rw [hupd] at hstep
      have e := Except.ok.inj hstep
      unfold FW.update at e
      by_cases hmsn : ms = []
      · have hcur : cur = [] := by
          by_contra h; exact hne h hmsn
        subst hcur; subst hmsn
        have hns : cfg.fx.nanSafe = true := by rw [hfx]; rfl
        simp only [guardOk, har, if_true, List.isEmpty_nil, Bool.not_true, Bool.false_eq_true,
          if_false, hns, FW.init_nil] at e
        injection e with e1 e2; subst e1; subst e2
        exact ⟨Or.inl rfl, by simp [allocate], by simp [allocate]⟩
      · have hg : guardOk cfg.fx ms = true := by simp [guardOk, har, hmsn]
        rw [if_pos hg] at e
        injection e with e1 e2; subst e1; subst e2; exact ⟨Or.inr rfl, rfl, rfl⟩
  obtain ⟨ms, hv, hset, hqueue, htracks, hids⟩ := hms
  obtain ⟨m', hm', hr2, hinj', hlen, howned, htracked, _⟩ :=
    alloc_identity_owner cfg.thr who owner s.tracks.length cur ms hv hset hinj hc.distinct hc.above
      s.tracks hs.tracks
  have hm1 : s1.tracks.length = m' := by rw [htracks, hr2]; simp
  refine ⟨s1, ids1, _, hstep, hinv1, ?_, ⟨by omega, ?_, by rw [hm1]; exact hinj', by rw [hids]; exact hlen,
    by rw [hids, hm1]; exact howned, by rw [hids]; exact htracked⟩⟩
  · -- purity of the new window
    intro fr hfr i t f hi hf
    have hold : fr ∈ s.queue → who f = extendOwner who owner s.tracks.length (cur.map (·.1))
        (allocate cfg.thr (cur.map (·.2)) (assignIds cur.length ms) s.tracks).1 t := by
      intro hmem
      have ht : t < s.tracks.length := (hs.frames fr hmem).2.1 t (List.mem_of_getElem? hi)
      simp only [extendOwner, ht, if_true]
      exact hp fr hmem i t f hi hf
    rcases hqueue with hq | hq
    · rw [hq] at hfr; exact hold hfr
    · rw [hq] at hfr
      rcases pushBounded_mem hfr with h | h
      · exact hold h
      · subst h
        obtain ⟨_, hi', hw⟩ := howned i t hi
        have : f = cur[i].1 := by
          simp only [List.getElem?_map, List.getElem?_eq_getElem hi', Option.map_some,
            Option.some.injEq] at hf
          exact hf.symm
        rw [this]; exact hw
  · intro t ht
    simp [extendOwner, ht]

end fwOwner


/-! ## histories (fixed window) -/

section fwHistory
variable {R φ : Type} [Field R] [LinearOrder R] [IsStrictOrderedRing R]

/-- the scene class of the property along the run of the model: every frame is a `SceneFrame`
    relative to the window the tracker holds when the frame arrives -/
def FW.InClass (cfg : Config R) (ext : Ext R) (score : φ → φ → R) (who : φ → Nat) :
    FW φ → List (List (φ × R)) → Prop
  | _, [] => True
  | s, cur :: rest => SceneFrame who score cfg.thr s.cands s.tracks.length cur ∧
      ∀ s' ids, FW.step cfg ext score s cur = .ok (s', ids) → FW.InClass cfg ext score who s' rest

/-- what the history theorem says about one frame: every detection has a track, and that track
    belongs (under the final owner map) to the detection's animal -/
def FrameOwned (who : φ → Nat) (owner : Nat → Nat) (m : Nat) (cur : List (φ × R))
    (ids : List (Option Nat)) : Prop :=
  ids.length = cur.length ∧ (∀ i, i < cur.length → ∃ t, ids[i]? = some (some t)) ∧
  ∀ (i t : Nat), ids[i]? = some (some t) → t < m ∧ ∃ h : i < cur.length, who cur[i].1 = owner t

theorem FW.identity_history (cfg : Config R) (hfx : cfg.fx = Fixes.repaired) (ext : Ext R)
    (hext : ExtOk ext)
    (hmatch : (cfg.matcher = .greedy ∧ ArgsortSorted ext) ∨
              (cfg.matcher = .hungarian ∧ LsaPicksIdentity ext))
    (score : φ → φ → R) (who : φ → Nat) :
    ∀ (frames : List (List (φ × R))) (s : FW φ) (owner : Nat → Nat), s.Inv → FW.Pure who owner s →
      InjOn owner s.tracks.length → FW.InClass cfg ext score who s frames →
      ∃ s' outs owner', run (FW.step cfg ext score) s frames = .ok (s', outs) ∧ s'.Inv ∧
        FW.Pure who owner' s' ∧ InjOn owner' s'.tracks.length ∧
        s.tracks.length ≤ s'.tracks.length ∧ (∀ t, t < s.tracks.length → owner' t = owner t) ∧
        List.Forall₂ (FrameOwned who owner' s'.tracks.length) frames outs := by
  intro frames
  induction frames with
  | nil =>
    intro s owner hs hp hinj _
    exact ⟨s, [], owner, rfl, hs, hp, hinj, Nat.le_refl _, fun _ _ => rfl, List.Forall₂.nil⟩
  | cons cur rest ih =>
    intro s owner hs hp hinj hcl
    obtain ⟨hc, hrest⟩ := hcl
    obtain ⟨s1, ids1, owner1, hstep, hinv1, hp1, hos⟩ :=
      FW.owner_step cfg hfx ext hext hmatch score who owner s hs hp hinj cur hc
    obtain ⟨s', outs, owner', hrun, hinv', hp', hinj', hmono, hagree, hall⟩ :=
      ih s1 owner1 hinv1 hp1 hos.inj (hrest s1 ids1 hstep)
    refine ⟨s', ids1 :: outs, owner', by simp [run, hstep, hrun], hinv', hp', hinj',
      Nat.le_trans hos.mono hmono, ?_, List.Forall₂.cons ⟨hos.length, hos.tracked, ?_⟩ hall⟩
    · intro t ht
      rw [hagree t (by have := hos.mono; omega), hos.agree t ht]
    · intro i t hi
      obtain ⟨ht, h, hw⟩ := hos.owned i t hi
      exact ⟨by omega, h, by rw [hagree t ht]; exact hw⟩

end fwHistory


/-! ## local queues: purity and one step with the owner map -/

/-- **window purity** (local queues): every feature in track `t`'s queue belongs to `owner t` -/
def LQ.Pure {φ : Type} (who : φ → Nat) (owner : Nat → Nat) (s : LQ φ) : Prop :=
  ∀ q ∈ s.queues, ∀ f ∈ q.2, who f = owner q.1

section lqPure
variable {φ : Type} (who : φ → Nat) (own : Nat → Nat)

/-- purity of a dict of queues with respect to an arbitrary labelling -/
def QPure (qs : List (Nat × List φ)) : Prop := ∀ q ∈ qs, ∀ f ∈ q.2, who f = own q.1

theorem LQ.cands_pure (owner : Nat → Nat) (s : LQ φ) (hp : LQ.Pure who owner s) (t : Nat) :
    ∀ f ∈ s.cands t, who f = owner t := by
  intro f hf
  unfold LQ.cands at hf
  cases hfind : s.queues.find? (fun q => q.1 == t) with
  | none => simp [hfind] at hf
  | some q =>
    simp only [hfind, Option.map_some, Option.getD_some] at hf
    have hq1 : q.1 = t := by simpa using List.find?_some hfind
    rw [← hq1]
    exact hp q (List.mem_of_find?_eq_some hfind) f hf

theorem qAppend_pure (w : Nat) (qs : List (Nat × List φ)) (t : Nat) (f0 : φ)
    (hq : QPure who own qs) (h0 : who f0 = own t) : QPure who own (qAppend w qs t f0) := by
  unfold qAppend
  split
  · intro q hq' f hf
    obtain ⟨q0, hq0, rfl⟩ := List.mem_map.1 hq'
    by_cases h : q0.1 == t
    · simp only [h, if_true] at hf ⊢
      rcases pushBounded_mem hf with h' | h'
      · exact hq q0 hq0 f h'
      · rw [h', h0]; simp at h; rw [h]
    · simp only [h] at hf ⊢
      exact hq q0 hq0 f hf
  · intro q hq' f hf
    rcases List.mem_append.1 hq' with h | h
    · exact hq q h f hf
    · simp only [List.mem_singleton] at h
      subst h
      simp only [List.mem_singleton] at hf
      rw [hf, h0]

theorem qNew_pure (w : Nat) (qs : List (Nat × List φ)) (t : Nat) (f0 : φ)
    (hq : QPure who own qs) (h0 : who f0 = own t) : QPure who own (qNew w qs t f0) := by
  unfold qNew
  split
  · intro q hq' f hf
    obtain ⟨q0, hq0, rfl⟩ := List.mem_map.1 hq'
    by_cases h : q0.1 == t
    · simp only [h, if_true] at hf ⊢
      rcases pushBounded_mem hf with h' | h'
      · simp at h'
      · rw [h', h0]; simp at h; rw [h]
    · simp only [h] at hf ⊢
      exact hq q0 hq0 f hf
  · intro q hq' f hf
    rcases List.mem_append.1 hq' with h | h
    · exact hq q h f hf
    · simp only [List.mem_singleton] at h
      subst h
      rcases pushBounded_mem hf with h' | h'
      · simp at h'
      · rw [h', h0]

theorem appendMatched_pure (w : Nat) : ∀ (ids : List (Option Nat)) (feats : List φ)
    (qs : List (Nat × List φ)), QPure who own qs →
    (∀ (i t : Nat) (f : φ), ids[i]? = some (some t) → feats[i]? = some f → who f = own t) →
    QPure who own (appendMatched w qs ids feats) := by
  intro ids
  induction ids with
  | nil =>
    intro feats qs hq _
    have e : appendMatched w qs [] feats = qs := by simp [appendMatched]
    rw [e]; exact hq
  | cons o ids ih =>
    intro feats qs hq h
    cases feats with
    | nil =>
      have e : appendMatched w qs (o :: ids) [] = qs := by cases o <;> simp [appendMatched]
      rw [e]; exact hq
    | cons f0 fs =>
      have h' : ∀ (i t : Nat) (f : φ), ids[i]? = some (some t) → fs[i]? = some f → who f = own t :=
        fun i t f a b => h (i + 1) t f (by simpa using a) (by simpa using b)
      cases o with
      | none => simpa [appendMatched] using ih fs qs hq h'
      | some t =>
        have := ih fs (qAppend w qs t f0) (qAppend_pure who own w qs t f0 hq (h 0 t f0 rfl rfl)) h'
        simpa [appendMatched] using this

theorem appendNew_pure (w : Nat) : ∀ (ids0 ids : List (Option Nat)) (feats : List φ)
    (qs : List (Nat × List φ)), QPure who own qs →
    (∀ (i t : Nat) (f : φ), ids[i]? = some (some t) → feats[i]? = some f → who f = own t) →
    QPure who own (appendNew w qs ids0 ids feats) := by
  intro ids0
  induction ids0 with
  | nil =>
    intro ids feats qs hq _
    have e : appendNew w qs [] ids feats = qs := by simp [appendNew]
    rw [e]; exact hq
  | cons o0 ids0 ih =>
    intro ids feats qs hq h
    cases ids with
    | nil =>
      have e : appendNew w qs (o0 :: ids0) [] feats = qs := by cases o0 <;> simp [appendNew]
      rw [e]; exact hq
    | cons o ids =>
      cases feats with
      | nil =>
        have e : appendNew w qs (o0 :: ids0) (o :: ids) [] = qs := by
          cases o0 <;> cases o <;> simp [appendNew]
        rw [e]; exact hq
      | cons f0 fs =>
        have h' : ∀ (i t : Nat) (f : φ), ids[i]? = some (some t) → fs[i]? = some f → who f = own t :=
          fun i t f a b => h (i + 1) t f (by simpa using a) (by simpa using b)
        cases o0 with
        | some t0 => simpa [appendNew] using ih ids fs qs hq h'
        | none =>
          cases o with
          | none => simpa [appendNew] using ih ids fs qs hq h'
          | some t =>
            have := ih ids fs (qNew w qs t f0) (qNew_pure who own w qs t f0 hq (h 0 t f0 rfl rfl)) h'
            simpa [appendNew] using this

end lqPure


section lqOwner
variable {R φ : Type} [Field R] [LinearOrder R] [IsStrictOrderedRing R]

/-- **one step with the owner map (local queues)** -/
theorem LQ.owner_step (cfg : Config R) (hfx : cfg.fx = Fixes.repaired) (hw : 0 < cfg.window)
    (ext : Ext R) (hext : ExtOk ext)
    (hmatch : (cfg.matcher = .greedy ∧ ArgsortSorted ext) ∨
              (cfg.matcher = .hungarian ∧ LsaPicksIdentity ext))
    (score : φ → φ → R) (who : φ → Nat) (owner : Nat → Nat) (s : LQ φ) (hs : s.Inv)
    (hp : LQ.Pure who owner s) (hinj : InjOn owner s.tracks.length) (cur : List (φ × R))
    (hc : SceneFrame who score cfg.thr s.cands s.tracks.length cur) :
    ∃ s' ids owner', LQ.step cfg ext score s cur = .ok (s', ids) ∧ s'.Inv ∧
      LQ.Pure who owner' s' ∧
      OwnerStep who owner owner' s.tracks.length s'.tracks.length cur ids := by
  have hst : cfg.fx.stale = true := by rw [hfx]; rfl
  have har : cfg.fx.anyRow = true := by rw [hfx]; rfl
  have hlq : cfg.fx.lqList = true := by rw [hfx]; rfl
  obtain ⟨s1, ids1, hstep, hinv1, hfo⟩ := LQ.step_ok cfg hfx hw ext hext score s hs cur
  have hms : ∃ ms, MatchValid cur.length s.tracks.length ms ∧
      (∀ p, p ∈ ms ↔ IsIdent who owner s.tracks.length cur p) ∧
      (s1.queues = s.queues ∨
       s1.queues = appendNew cfg.window
          (appendMatched cfg.window s.queues (assignIds cur.length ms) (cur.map (·.1)))
          (assignIds cur.length ms)
          (allocate cfg.thr (cur.map (·.2)) (assignIds cur.length ms) s.tracks).1 (cur.map (·.1)) ∨
       s1.queues = appendNew cfg.window s.queues (assignIds cur.length ms)
          (allocate cfg.thr (cur.map (·.2)) (assignIds cur.length ms) s.tracks).1 (cur.map (·.1))) ∧
      s1.tracks = (allocate cfg.thr (cur.map (·.2)) (assignIds cur.length ms) s.tracks).2 ∧
      ids1 = (allocate cfg.thr (cur.map (·.2)) (assignIds cur.length ms) s.tracks).1 := by
    by_cases hq : s.queues.isEmpty = true
    · have hm0 : s.tracks.length = 0 := by
        have hq' : s.queues = [] := by simpa using hq
        have := congrArg List.length hs.keys
        simpa [hq'] using this.symm
      refine ⟨[], ⟨by simp, by simp, by simp⟩, ?_, ?_⟩
      · intro p
        constructor
        · intro h; cases h
        · rintro ⟨h, _⟩; omega
      · have hinit : LQ.step cfg ext score s cur = .ok (LQ.init cfg s cur) := by
          unfold LQ.step; rw [if_pos hq]
        rw [hinit] at hstep
        have e := Except.ok.inj hstep
        have ea : assignIds cur.length [] = List.replicate cur.length (none : Option Nat) := rfl
        rw [ea]
        unfold LQ.init at e
        injection e with e1 e2; subst e1; subst e2
        exact ⟨Or.inr (Or.inr rfl), rfl, rfl⟩
    · have hq' : s.queues ≠ [] := by simpa using hq
      obtain ⟨t0, ht0, _⟩ := LQ.cands_ne_nil s hs hq'
      obtain ⟨ms, h1, hv, hset, hne⟩ := scene_matches cfg ext hext hmatch score who owner s.cands
        s.tracks.length (by omega) cur (fun t _ => LQ.cands_pure who owner s hp t) hinj hc
      refine ⟨ms, hv, hset, ?_⟩
      have hupd : LQ.step cfg ext score s cur = LQ.update cfg s cur ms := by
        unfold LQ.step
        rw [if_neg hq]
        have h1' : Fixes.repaired.stale = true := rfl
        simp only [hfx, h1', scoreMatrix_repaired, LQ.stepWith, h1]
      rw [hupd] at hstep
      unfold LQ.update at hstep
      by_cases hmsn : ms = []
      · have hcur : cur = [] := by
          by_contra h; exact hne h hmsn
        subst hcur; subst hmsn
        have hns : cfg.fx.nanSafe = true := by rw [hfx]; rfl
        simp only [guardOk, har, if_true, List.isEmpty_nil, Bool.not_true, Bool.false_eq_true,
          if_false, hns, LQ.init_nil] at hstep
        have e := Except.ok.inj hstep
        injection e with e1 e2; subst e1; subst e2
        exact ⟨Or.inl rfl, by simp [allocate], by simp [allocate]⟩
      · have hg : guardOk cfg.fx ms = true := by simp [guardOk, har, hmsn]
        rw [if_pos hg] at hstep
        simp only [hlq, Bool.true_eq_false, false_and, if_false] at hstep
        have e := Except.ok.inj hstep
        injection e with e1 e2; subst e1; subst e2
        exact ⟨Or.inr (Or.inl rfl), rfl, rfl⟩
  obtain ⟨ms, hv, hset, hqueue, htracks, hids⟩ := hms
  obtain ⟨m', hm', hr2, hinj', hlen, howned, htracked, _⟩ :=
    alloc_identity_owner cfg.thr who owner s.tracks.length cur ms hv hset hinj hc.distinct hc.above
      s.tracks hs.tracks
  have hm1 : s1.tracks.length = m' := by rw [htracks, hr2]; simp
  -- purity of the old queues with respect to the extended owner map
  have hold : QPure who (extendOwner who owner s.tracks.length (cur.map (·.1))
      (allocate cfg.thr (cur.map (·.2)) (assignIds cur.length ms) s.tracks).1) s.queues := by
    intro q hq f hf
    have hk : q.1 ∈ s.tracks := by rw [← hs.keys]; exact List.mem_map.2 ⟨q, hq, rfl⟩
    rw [hs.tracks] at hk
    have ht : q.1 < s.tracks.length := List.mem_range.1 hk
    simp only [extendOwner, ht, if_true]
    exact hp q hq f hf
  have hnewids : ∀ (i t : Nat) (f : φ),
      (allocate cfg.thr (cur.map (·.2)) (assignIds cur.length ms) s.tracks).1[i]? = some (some t) →
      (cur.map (·.1))[i]? = some f →
      who f = extendOwner who owner s.tracks.length (cur.map (·.1))
        (allocate cfg.thr (cur.map (·.2)) (assignIds cur.length ms) s.tracks).1 t := by
    intro i t f hi hf
    obtain ⟨_, hi', hw⟩ := howned i t hi
    have : f = cur[i].1 := by
      simp only [List.getElem?_map, List.getElem?_eq_getElem hi', Option.map_some,
        Option.some.injEq] at hf
      exact hf.symm
    rw [this]; exact hw
  have hmatched : ∀ (i t : Nat) (f : φ), (assignIds cur.length ms)[i]? = some (some t) →
      (cur.map (·.1))[i]? = some f →
      who f = extendOwner who owner s.tracks.length (cur.map (·.1))
        (allocate cfg.thr (cur.map (·.2)) (assignIds cur.length ms) s.tracks).1 t := by
    intro i t f hi hf
    obtain ⟨ht, hi', hw⟩ := (hset (i, t)).1 (assignIds_some hv hi)
    have : f = cur[i].1 := by
      simp only [List.getElem?_map, List.getElem?_eq_getElem hi', Option.map_some,
        Option.some.injEq] at hf
      exact hf.symm
    rw [this]
    simp only [extendOwner, ht, if_true]
    exact hw
  refine ⟨s1, ids1, _, hstep, hinv1, ?_, ⟨by omega, ?_, by rw [hm1]; exact hinj', by rw [hids]; exact hlen,
    by rw [hids, hm1]; exact howned, by rw [hids]; exact htracked⟩⟩
  · show QPure who _ s1.queues
    rcases hqueue with hq | hq | hq
    · rw [hq]; exact hold
    · rw [hq]
      exact appendNew_pure who _ cfg.window _ _ _ _
        (appendMatched_pure who _ cfg.window _ _ _ hold hmatched) hnewids
    · rw [hq]
      exact appendNew_pure who _ cfg.window _ _ _ _ hold hnewids
  · intro t ht
    simp [extendOwner, ht]

/-- the scene class along the run of the model (local queues) -/
def LQ.InClass (cfg : Config R) (ext : Ext R) (score : φ → φ → R) (who : φ → Nat) :
    LQ φ → List (List (φ × R)) → Prop
  | _, [] => True
  | s, cur :: rest => SceneFrame who score cfg.thr s.cands s.tracks.length cur ∧
      ∀ s' ids, LQ.step cfg ext score s cur = .ok (s', ids) → LQ.InClass cfg ext score who s' rest

theorem LQ.identity_history (cfg : Config R) (hfx : cfg.fx = Fixes.repaired) (hw : 0 < cfg.window)
    (ext : Ext R) (hext : ExtOk ext)
    (hmatch : (cfg.matcher = .greedy ∧ ArgsortSorted ext) ∨
              (cfg.matcher = .hungarian ∧ LsaPicksIdentity ext))
    (score : φ → φ → R) (who : φ → Nat) :
    ∀ (frames : List (List (φ × R))) (s : LQ φ) (owner : Nat → Nat), s.Inv → LQ.Pure who owner s →
      InjOn owner s.tracks.length → LQ.InClass cfg ext score who s frames →
      ∃ s' outs owner', run (LQ.step cfg ext score) s frames = .ok (s', outs) ∧ s'.Inv ∧
        LQ.Pure who owner' s' ∧ InjOn owner' s'.tracks.length ∧
        s.tracks.length ≤ s'.tracks.length ∧ (∀ t, t < s.tracks.length → owner' t = owner t) ∧
        List.Forall₂ (FrameOwned who owner' s'.tracks.length) frames outs := by
  intro frames
  induction frames with
  | nil =>
    intro s owner hs hp hinj _
    exact ⟨s, [], owner, rfl, hs, hp, hinj, Nat.le_refl _, fun _ _ => rfl, List.Forall₂.nil⟩
  | cons cur rest ih =>
    intro s owner hs hp hinj hcl
    obtain ⟨hc, hrest⟩ := hcl
    obtain ⟨s1, ids1, owner1, hstep, hinv1, hp1, hos⟩ :=
      LQ.owner_step cfg hfx hw ext hext hmatch score who owner s hs hp hinj cur hc
    obtain ⟨s', outs, owner', hrun, hinv', hp', hinj', hmono, hagree, hall⟩ :=
      ih s1 owner1 hinv1 hp1 hos.inj (hrest s1 ids1 hstep)
    refine ⟨s', ids1 :: outs, owner', by simp [run, hstep, hrun], hinv', hp', hinj',
      Nat.le_trans hos.mono hmono, ?_, List.Forall₂.cons ⟨hos.length, hos.tracked, ?_⟩ hall⟩
    · intro t ht
      rw [hagree t (by have := hos.mono; omega), hos.agree t ht]
    · intro i t hi
      obtain ⟨ht, h, hw⟩ := hos.owned i t hi
      exact ⟨by omega, h, by rw [hagree t ht]; exact hw⟩

end lqOwner

end SleapVerif.Tracker
