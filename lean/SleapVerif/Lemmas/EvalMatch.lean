import SleapVerif.Lemmas.Eval

/-! Helper lemmas for C16 (matching under truncation; perfect predictions). -/
set_option linter.unusedSectionVars false
set_option linter.unusedVariables false
namespace SleapVerif.Eval
open SleapVerif.Oks

/-! ### truncation: the loop treats a prefix of the sorted predictions identically -/

section prefix_
variable {S : Type} [LT S] [DecidableLT S] {G P : Type}

theorem matchLoop_take_prefix (oks : G → P → Option S) (thr : S) : ∀ (ps : List P) (k : Nat) (avail : List G),
    (matchLoop oks thr (ps.take k) avail).1 <+: (matchLoop oks thr ps avail).1
  | [], k, avail => by simp [matchLoop]
  | p :: ps, 0, avail => by simp [matchLoop]
  | p :: ps, k + 1, [] => by simp [matchLoop]
  | p :: ps, k + 1, a :: as => by
    rw [List.take_succ_cons, matchLoop_cons, matchLoop_cons]
    cases hb : best thr ((a :: as).map (fun g => oks g p)) with
    | none => exact matchLoop_take_prefix oks thr ps k (a :: as)
    | some iv =>
      obtain ⟨i, v⟩ := iv
      dsimp only
      cases hg : (a :: as)[i]? with
      | none => exact matchLoop_take_prefix oks thr ps k (a :: as)
      | some g =>
        dsimp only
        exact (List.prefix_cons_inj _).mpr (matchLoop_take_prefix oks thr ps k _)

/-- `|pairs| + |false negatives| = |gt|` for one frame -/
theorem matchLoop_count (oks : G → P → Option S) (thr : S) (ps : List P) (avail : List G) :
    (matchLoop oks thr ps avail).1.length + (matchLoop oks thr ps avail).2.length = avail.length := by
  have := (matchLoop_perm oks thr ps avail).length_eq
  simpa using this

end prefix_

variable {R : Type} [Field R] [LinearOrder R] [IsStrictOrderedRing R]

/-! ### `best` picks a strict maximum -/

theorem bestGo_keep (thr : R) : ∀ (l : List (Option R)) (s k : Nat) (v : R),
    (∀ (j : Nat) (w : R), l[j]? = some (some w) → w ≤ v) → bestGo thr s (some (k, v)) l = some (k, v)
  | [], _, _, _, _ => rfl
  | none :: t, s, k, v, h => by
    simp only [bestGo]
    exact bestGo_keep thr t (s + 1) k v (fun j w hj => h (j + 1) w (by simpa using hj))
  | some w :: t, s, k, v, h => by
    have hw : w ≤ v := h 0 w (by simp)
    have ht := bestGo_keep thr t (s + 1) k v (fun j w hj => h (j + 1) w (by simpa using hj))
    simp only [bestGo]
    by_cases h1 : thr < w
    · rw [if_pos h1, if_neg (not_lt.mpr hw)]; exact ht
    · rw [if_neg h1]; exact ht

theorem bestGo_unique_max (thr : R) (v : R) (hv : thr < v) : ∀ (l : List (Option R)) (s : Nat)
    (b : Option (Nat × R)) (i : Nat), l[i]? = some (some v) →
    (∀ (j : Nat) (w : R), j ≠ i → l[j]? = some (some w) → w < v) → (∀ (j : Nat) (w : R), b = some (j, w) → w < v) →
    bestGo thr s b l = some (s + i, v)
  | [], _, _, i, h, _, _ => by simp at h
  | x :: t, s, b, 0, h, hother, hb => by
    have hx : x = some v := by simpa using h
    subst hx
    have hrest : ∀ j w, t[j]? = some (some w) → w ≤ v := fun j w hj =>
      (hother (j + 1) w (by omega) (by simpa using hj)).le
    simp only [bestGo, if_pos hv]
    cases b with
    | none => simp only; rw [bestGo_keep thr t (s + 1) s v hrest]; simp
    | some jw =>
      obtain ⟨j, w⟩ := jw
      simp only [if_pos (hb j w rfl)]
      rw [bestGo_keep thr t (s + 1) s v hrest]; simp
  | x :: t, s, b, i + 1, h, hother, hb => by
    have h' : t[i]? = some (some v) := by simpa using h
    have hother' : ∀ j w, j ≠ i → t[j]? = some (some w) → w < v := fun j w hj hjw =>
      hother (j + 1) w (by omega) (by simpa using hjw)
    have key : ∀ b', (∀ j w, b' = some (j, w) → w < v) → bestGo thr (s + 1) b' t = some (s + (i + 1), v) := by
      intro b' hb'
      have := bestGo_unique_max thr v hv t (s + 1) b' i h' hother' hb'
      rw [this]; congr 2; omega
    cases x with
    | none => simp only [bestGo]; exact key b hb
    | some w =>
      have hw : w < v := hother 0 w (by omega) (by simp)
      simp only [bestGo]
      by_cases h1 : thr < w
      · rw [if_pos h1]
        cases b with
        | none => simp only; exact key _ (fun j w' e => by cases e; exact hw)
        | some jw =>
          obtain ⟨j, w0⟩ := jw
          simp only
          by_cases h2 : w0 < w
          · rw [if_pos h2]; exact key _ (fun j w' e => by cases e; exact hw)
          · rw [if_neg h2]; exact key _ hb
      · rw [if_neg h1]; exact key b hb

theorem best_unique_max (thr v : R) (hv : thr < v) (l : List (Option R)) (i : Nat)
    (h : l[i]? = some (some v)) (hother : ∀ (j : Nat) (w : R), j ≠ i → l[j]? = some (some w) → w < v) :
    best thr l = some (i, v) := by
  have := bestGo_unique_max thr v hv l 0 none i h hother (by simp)
  simpa [best] using this

/-! ### perfect predictions -/

variable {G P : Type}

/-- if every remaining prediction is the copy `pred g` of a still-available, distinguishable gt `g`,
the loop pairs each with its own gt at OKS `one` and leaves nothing unmatched -/
theorem matchLoop_perfect (oks : G → P → Option R) (pred : G → P) (thr one : R) (hthr : thr < one)
    (L : List G) (hself : ∀ g ∈ L, oks g (pred g) = some one)
    (hdist : ∀ g ∈ L, ∀ g' ∈ L, ∀ w, g' ≠ g → oks g' (pred g) = some w → w < one) :
    ∀ (gs avail : List G), gs.Perm avail → avail.Nodup → (∀ x ∈ avail, x ∈ L) →
      matchLoop oks thr (gs.map pred) avail = (gs.map (fun g => (g, pred g, one)), [])
  | [], avail, hp, _, _ => by
    have : avail = [] := List.Perm.eq_nil hp.symm
    subst this; simp [matchLoop]
  | g :: gs, avail, hp, hnd, hL => by
    have hg : g ∈ avail := hp.subset List.mem_cons_self
    cases avail with
    | nil => simp at hg
    | cons a as =>
      obtain ⟨i, hi, hig⟩ := List.getElem_of_mem hg
      have higet : (a :: as)[i]? = some g := by rw [List.getElem?_eq_getElem hi, hig]
      have hb : best thr ((a :: as).map (fun g' => oks g' (pred g))) = some (i, one) := by
        apply best_unique_max thr one hthr
        · rw [List.getElem?_map, higet]; simp [hself g (hL g hg)]
        · intro j w hj hjw
          rw [List.getElem?_map] at hjw
          cases hgj : (a :: as)[j]? with
          | none => rw [hgj] at hjw; simp at hjw
          | some g' =>
            rw [hgj] at hjw
            have hne : g' ≠ g := by
              rintro rfl
              have hj' : j < (a :: as).length := by
                rcases List.getElem?_eq_some_iff.mp hgj with ⟨h, _⟩; exact h
              have e1 : (a :: as)[j] = g' := by
                rcases List.getElem?_eq_some_iff.mp hgj with ⟨_, h⟩; exact h
              exact hj ((List.Nodup.getElem_inj_iff hnd).mp (e1.trans hig.symm))
            exact hdist g (hL g hg) g' (hL g' (List.mem_of_getElem? hgj)) w hne (by simpa using hjw)
      have hperm' : gs.Perm ((a :: as).eraseIdx i) := by
        have h1 : (g :: (a :: as).eraseIdx i).Perm (a :: as) := cons_eraseIdx_perm _ i g higet
        exact (List.Perm.cons_inv (hp.trans h1.symm))
      have hnd' : ((a :: as).eraseIdx i).Nodup := hnd.sublist (List.eraseIdx_sublist _ _)
      have ih := matchLoop_perfect oks pred thr one hthr L hself hdist gs _ hperm' hnd'
        (fun x hx => hL x ((List.eraseIdx_sublist _ _).subset hx))
      rw [List.map_cons, matchLoop_cons, hb]
      dsimp only
      rw [higet]
      dsimp only
      rw [ih]
      rfl

/-! ### truncation of every frame to its `k` highest-scoring predictions -/

/-- keep only the `k` highest-scoring predictions of every frame (ties: the ones listed first) -/
def truncFrames (score : P → R) (k : Nat) (frames : List (Frame G P)) : List (Frame G P) :=
  frames.map (fun f => { gts := f.gts, prs := f.prs.map (fun prs => (sortDesc score prs).take k) })

theorem matchInstances_trunc_prefix (oks : G → P → Option R) (score : P → R) (thr : R) (gts : List G)
    (prs : List P) (k : Nat) :
    (matchInstances oks score thr gts ((sortDesc score prs).take k)).1 <+:
      (matchInstances oks score thr gts prs).1 := by
  unfold matchInstances
  have hs : SortedDesc score ((sortDesc score prs).take k) :=
    (sortDesc_sorted score prs).sublist (List.take_sublist _ _)
  rw [sortDesc_of_sorted score _ hs]
  exact matchLoop_take_prefix oks thr _ k gts

theorem matchInstances_count (oks : G → P → Option R) (score : P → R) (thr : R) (gts : List G) (prs : List P) :
    (matchInstances oks score thr gts prs).1.length + (matchInstances oks score thr gts prs).2.length =
      gts.length := matchLoop_count oks thr _ gts

theorem processFrames_cons_some (oks : G → P → Option R) (score : P → R) (thr : R) (gts : List G)
    (prs : List P) (fs : List (Frame G P)) :
    processFrames oks score thr (⟨gts, some prs⟩ :: fs) =
      ((matchInstances oks score thr gts prs).1 ++ (processFrames oks score thr fs).1,
       (matchInstances oks score thr gts prs).2 ++ (processFrames oks score thr fs).2) := rfl

theorem processFrames_cons_none (oks : G → P → Option R) (score : P → R) (thr : R) (gts : List G)
    (fs : List (Frame G P)) :
    processFrames oks score thr (⟨gts, none⟩ :: fs) = processFrames oks score thr fs := rfl

/-- truncated evaluation: the positive pairs are a sub-list of the full ones and the number of
ground-truth instances that enter the count is unchanged -/
theorem processFrames_trunc (oks : G → P → Option R) (score : P → R) (thr : R) (k : Nat) :
    ∀ frames : List (Frame G P),
      (processFrames oks score thr (truncFrames score k frames)).1.Sublist
        (processFrames oks score thr frames).1 ∧
      (processFrames oks score thr (truncFrames score k frames)).1.length +
        (processFrames oks score thr (truncFrames score k frames)).2.length =
      (processFrames oks score thr frames).1.length + (processFrames oks score thr frames).2.length
  | [] => ⟨List.Sublist.refl _, rfl⟩
  | ⟨gts, none⟩ :: fs => by
    have ih := processFrames_trunc oks score thr k fs
    have e : truncFrames score k (⟨gts, none⟩ :: fs) = ⟨gts, none⟩ :: truncFrames score k fs := rfl
    rw [e, processFrames_cons_none, processFrames_cons_none]
    exact ih
  | ⟨gts, some prs⟩ :: fs => by
    have ih := processFrames_trunc oks score thr k fs
    have e : truncFrames score k (⟨gts, some prs⟩ :: fs) =
        ⟨gts, some ((sortDesc score prs).take k)⟩ :: truncFrames score k fs := rfl
    rw [e, processFrames_cons_some, processFrames_cons_some]
    refine ⟨(matchInstances_trunc_prefix oks score thr gts prs k).sublist.append ih.1, ?_⟩
    have h1 := matchInstances_count oks score thr gts prs
    have h2 := matchInstances_count oks score thr gts ((sortDesc score prs).take k)
    simp only [List.length_append]
    omega


/-! ### truncation with a separate `k` for every frame (by position) -/

/-- keep only the `k i` highest-scoring predictions of the `i`-th frame -/
def truncFramesK (score : P → R) (k : Nat → Nat) : Nat → List (Frame G P) → List (Frame G P)
  | _, [] => []
  | i, f :: fs =>
    { gts := f.gts, prs := f.prs.map (fun prs => (sortDesc score prs).take (k i)) } ::
      truncFramesK score k (i + 1) fs

theorem processFrames_truncK (oks : G → P → Option R) (score : P → R) (thr : R) (k : Nat → Nat) :
    ∀ (frames : List (Frame G P)) (i : Nat),
      (processFrames oks score thr (truncFramesK score k i frames)).1.Sublist
        (processFrames oks score thr frames).1 ∧
      (processFrames oks score thr (truncFramesK score k i frames)).1.length +
        (processFrames oks score thr (truncFramesK score k i frames)).2.length =
      (processFrames oks score thr frames).1.length + (processFrames oks score thr frames).2.length
  | [], _ => ⟨List.Sublist.refl _, rfl⟩
  | ⟨gts, none⟩ :: fs, i => by
    have ih := processFrames_truncK oks score thr k fs (i + 1)
    have e : truncFramesK score k i (⟨gts, none⟩ :: fs) = ⟨gts, none⟩ :: truncFramesK score k (i + 1) fs := rfl
    rw [e, processFrames_cons_none, processFrames_cons_none]
    exact ih
  | ⟨gts, some prs⟩ :: fs, i => by
    have ih := processFrames_truncK oks score thr k fs (i + 1)
    have e : truncFramesK score k i (⟨gts, some prs⟩ :: fs) =
        ⟨gts, some ((sortDesc score prs).take (k i))⟩ :: truncFramesK score k (i + 1) fs := rfl
    rw [e, processFrames_cons_some, processFrames_cons_some]
    refine ⟨(matchInstances_trunc_prefix oks score thr gts prs (k i)).sublist.append ih.1, ?_⟩
    have h1 := matchInstances_count oks score thr gts prs
    have h2 := matchInstances_count oks score thr gts ((sortDesc score prs).take (k i))
    simp only [List.length_append]
    omega

/-! ### perfect predictions next to *empty* ground-truth instances -/

theorem getElem?_inj_of_nodup' {α : Type} {l : List α} (h : l.Nodup) {i j : Nat} {x : α}
    (hi : l[i]? = some x) (hj : l[j]? = some x) : i = j := by
  obtain ⟨hi', ei⟩ := List.getElem?_eq_some_iff.mp hi
  obtain ⟨hj', ej⟩ := List.getElem?_eq_some_iff.mp hj
  exact (List.Nodup.getElem_inj_iff h).mp (ei.trans ej.symm)

theorem bestGo_none (thr : R) : ∀ (l : List (Option R)) (s : Nat),
    (∀ (j : Nat) (w : R), l[j]? = some (some w) → ¬ thr < w) → bestGo thr s none l = none
  | [], _, _ => rfl
  | none :: t, s, h => by
    simp only [bestGo]
    exact bestGo_none thr t (s + 1) (fun j w hj => h (j + 1) w (by simpa using hj))
  | some w :: t, s, h => by
    simp only [bestGo]
    rw [if_neg (h 0 w (by simp))]
    exact bestGo_none thr t (s + 1) (fun j w hj => h (j + 1) w (by simpa using hj))

/-- `real g` = gt instance `g` has a visible keypoint.  Copies of real instances take their own gt at
OKS `one`; the copy of an empty instance (all keypoints NaN, OKS 0 or NaN against everything) matches
nothing; empty gt rows (OKS NaN) are skipped by `best`. -/
theorem matchLoop_perfect_empty (oks : G → P → Option R) (pred : G → P) (real : G → Bool) (thr one : R)
    (hthr : thr < one) (hself : ∀ g, real g = true → oks g (pred g) = some one)
    (hdist : ∀ g g' w, real g = true → g' ≠ g → oks g' (pred g) = some w → w < one)
    (hempty : ∀ g g' w, real g = false → oks g' (pred g) = some w → ¬ thr < w) :
    ∀ (gs avail : List G), avail.Nodup → gs.Nodup → (∀ g ∈ gs, real g = true → g ∈ avail) →
      (matchLoop oks thr (gs.map pred) avail).1 = (gs.filter real).map (fun g => (g, pred g, one))
  | [], avail, _, _, _ => by simp [matchLoop]
  | g :: gs, [], _, _, hin => by
    have hnone : ∀ x ∈ g :: gs, real x = false := by
      intro x hx
      cases hr : real x with
      | false => rfl
      | true => exact absurd (hin x hx hr) (by simp)
    have : (g :: gs).filter real = [] := List.filter_eq_nil_iff.mpr (fun x hx => by simp [hnone x hx])
    rw [this]; simp [matchLoop]
  | g :: gs, a :: as, hnd, hgs, hin => by
    have hgs' := (List.nodup_cons.mp hgs)
    rw [List.map_cons, matchLoop_cons]
    cases hr : real g with
    | false =>
      have hb : best thr ((a :: as).map (fun g' => oks g' (pred g))) = none := by
        apply bestGo_none
        intro j w hj
        rw [List.getElem?_map] at hj
        cases hgj : (a :: as)[j]? with
        | none => rw [hgj] at hj; simp at hj
        | some g' =>
          rw [hgj] at hj
          exact hempty g g' w hr (by simpa using hj)
      rw [hb, List.filter_cons, hr]
      simp only [Bool.false_eq_true, if_false]
      exact matchLoop_perfect_empty oks pred real thr one hthr hself hdist hempty gs (a :: as) hnd hgs'.2
        (fun x hx hrx => hin x (List.mem_cons_of_mem _ hx) hrx)
    | true =>
      have hg : g ∈ a :: as := hin g List.mem_cons_self hr
      obtain ⟨i, hi, hig⟩ := List.getElem_of_mem hg
      have higet : (a :: as)[i]? = some g := by rw [List.getElem?_eq_getElem hi, hig]
      have hb : best thr ((a :: as).map (fun g' => oks g' (pred g))) = some (i, one) := by
        apply best_unique_max thr one hthr
        · rw [List.getElem?_map, higet]; simp [hself g hr]
        · intro j w hj hjw
          rw [List.getElem?_map] at hjw
          cases hgj : (a :: as)[j]? with
          | none => rw [hgj] at hjw; simp at hjw
          | some g' =>
            rw [hgj] at hjw
            have hne : g' ≠ g := by
              rintro rfl
              exact hj (getElem?_inj_of_nodup' hnd hgj higet)
            exact hdist g g' w hr hne (by simpa using hjw)
      have hperm : (g :: (a :: as).eraseIdx i).Perm (a :: as) := cons_eraseIdx_perm _ i g higet
      have hnd' : ((a :: as).eraseIdx i).Nodup := hnd.sublist (List.eraseIdx_sublist _ _)
      have hin' : ∀ x ∈ gs, real x = true → x ∈ (a :: as).eraseIdx i := by
        intro x hx hrx
        have hxa := hin x (List.mem_cons_of_mem _ hx) hrx
        have hxg : x ≠ g := fun e => hgs'.1 (e ▸ hx)
        rcases List.mem_cons.mp (hperm.mem_iff.mpr hxa) with h | h
        · exact absurd h hxg
        · exact h
      have ih := matchLoop_perfect_empty oks pred real thr one hthr hself hdist hempty gs _ hnd' hgs'.2 hin'
      rw [hb]
      dsimp only
      rw [higet]
      dsimp only
      rw [ih, List.filter_cons, hr]
      simp

end SleapVerif.Eval
