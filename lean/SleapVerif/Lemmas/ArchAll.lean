import SleapVerif.Lemmas.ArchTableU8
import SleapVerif.Lemmas.ArchTableU16
import SleapVerif.Lemmas.ArchTableU24
import SleapVerif.Lemmas.ArchTableU32
import SleapVerif.Lemmas.ArchTableU64
import SleapVerif.Lemmas.ArchTableW
/-! From the checked tables to every configuration of the grid. -/
set_option linter.unusedSimpArgs false
namespace SleapVerif.Arch

theorem tableUnet_all : ∀ f ∈ [8, 16, 24, 32, 64], ∀ r ∈ rates3, tableUnet f r = true := by
  intro f hf r hr
  simp only [List.mem_cons, List.not_mem_nil, or_false, rates3] at hf hr
  rcases hf with rfl | rfl | rfl | rfl | rfl <;> rcases hr with rfl | rfl | rfl
  · exact tableUnet_8_r1
  · exact tableUnet_8_r32
  · exact tableUnet_8_r2
  · exact tableUnet_16_r1
  · exact tableUnet_16_r32
  · exact tableUnet_16_r2
  · exact tableUnet_24_r1
  · exact tableUnet_24_r32
  · exact tableUnet_24_r2
  · exact tableUnet_32_r1
  · exact tableUnet_32_r32
  · exact tableUnet_32_r2
  · exact tableUnet_64_r1
  · exact tableUnet_64_r32
  · exact tableUnet_64_r2

theorem unet_rows {f : Nat} (hf : f ∈ [8, 16, 24, 32, 64]) {r : Rate} (hr : r ∈ rates3)
    {ms : Nat} (hms : ms ∈ [8, 16, 32]) {stem : Nat} (hstem : stem ∈ [0, 2, 4])
    {bos : Nat} (hbos : bos ∈ strides6) {os : Nat} (hos : os ∈ strides6)
    {cpb : Nat} (hcpb : cpb ∈ [2, 3]) (mid : Bool)
    (h1 : bos ≤ os) (h2 : 2 * os ≤ ms) :
    wellFormed (mkUnet f r ms stem bos os cpb mid) = true := by
  have t := tableUnet_all f hf r hr
  simp only [tableUnet, List.all_eq_true] at t
  have := t ms hms stem hstem bos hbos os hos
  simp only [Bool.or_eq_true, Bool.not_eq_true', Bool.and_eq_false_iff, decide_eq_false_iff_not,
    List.all_eq_true] at this
  rcases this with (h | h) | h
  · exact absurd h1 h
  · exact absurd h2 h
  · exact h cpb hcpb mid (by cases mid <;> simp [bools])

theorem tableUnetCpb1_all : ∀ f ∈ [8, 16, 24, 32, 64], tableUnetCpb1 f = true := by
  intro f hf
  simp only [List.mem_cons, List.not_mem_nil, or_false] at hf
  rcases hf with rfl | rfl | rfl | rfl | rfl
  · exact tableUnetCpb1_8
  · exact tableUnetCpb1_16
  · exact tableUnetCpb1_24
  · exact tableUnetCpb1_32
  · exact tableUnetCpb1_64

theorem unet_rows_cpb1 {f : Nat} (hf : f ∈ [8, 16, 24, 32, 64])
    {ms : Nat} (hms : ms ∈ [8, 16, 32]) {stem : Nat} (hstem : stem ∈ [2, 4])
    {bos : Nat} (hbos : bos ∈ strides6) {os : Nat} (hos : os ∈ strides6) (mid : Bool)
    (h1 : bos ≤ os) (h2 : 2 * os ≤ ms) :
    wellFormed (mkUnet f ⟨1, 1⟩ ms stem bos os 1 mid) = true := by
  have t := tableUnetCpb1_all f hf
  simp only [tableUnetCpb1, List.all_eq_true] at t
  have := t ms hms stem hstem bos hbos os hos
  simp only [Bool.or_eq_true, Bool.not_eq_true', Bool.and_eq_false_iff, decide_eq_false_iff_not,
    List.all_eq_true] at this
  rcases this with (h | h) | h
  · exact absurd h1 h
  · exact absurd h2 h
  · exact h mid (by cases mid <;> simp [bools])

theorem tableWrap_all : ∀ fam v, (fam = .convnext ∧ v ∈ [0, 1, 2, 3]) ∨ (fam = .swint ∧ v ∈ [0, 1, 2]) →
    tableWrap fam v = true := by
  intro fam v h
  simp only [List.mem_cons, List.not_mem_nil, or_false] at h
  rcases h with ⟨rfl, rfl | rfl | rfl | rfl⟩ | ⟨rfl, rfl | rfl | rfl⟩
  · exact tableWrap_convnext_0
  · exact tableWrap_convnext_1
  · exact tableWrap_convnext_2
  · exact tableWrap_convnext_3
  · exact tableWrap_swint_0
  · exact tableWrap_swint_1
  · exact tableWrap_swint_2

theorem wrap_rows {fam : Family} {v : Nat}
    (hfv : (fam = .convnext ∧ v ∈ [0, 1, 2, 3]) ∨ (fam = .swint ∧ v ∈ [0, 1, 2]))
    {sps : Nat} (hsps : sps ∈ [2, 4]) {bos : Nat} (hbos : bos ∈ strides6) {os : Nat} (hos : os ∈ strides6)
    {cpb : Nat} (hcpb : cpb ∈ [1, 2, 3]) (h1 : bos ≤ os) (h2 : 2 * os ≤ sps * 8) :
    wellFormed (mkWrap fam v sps bos os cpb) = true := by
  have t := tableWrap_all fam v hfv
  simp only [tableWrap, List.all_eq_true] at t
  have := t sps hsps bos hbos os hos
  simp only [Bool.or_eq_true, Bool.not_eq_true', Bool.and_eq_false_iff, decide_eq_false_iff_not,
    List.all_eq_true] at this
  rcases this with (h | h) | h
  · exact absurd h1 h
  · exact absurd h2 h
  · exact h cpb hcpb

/-- every documented-valid, supported configuration of the grid carries a certificate -/
theorem grid_wellFormed (c : Cfg) (hin : inGrid c = true) (hdoc : docValid c = true)
    (hsup : supported c = true) : wellFormed c = true := by
  obtain ⟨fam, variant, filters, rate, maxStride, bos, stem, cpb, middle, upInterp, inCh, heads, fixMid, fixWrap, stemKernel⟩ := c
  simp only [inGrid, Bool.and_eq_true, beq_iff_eq, List.all_eq_true, List.contains_iff_mem] at hin
  simp only [docValid, Bool.and_eq_true, List.all_eq_true, decide_eq_true_eq, Bool.not_eq_true',
    List.isEmpty_eq_false_iff] at hdoc
  obtain ⟨⟨⟨⟨⟨⟨⟨⟨hinCh, hfm⟩, hfw⟩, hsk⟩, hheads⟩, hbos⟩, hcpb⟩, hrate⟩, hfam⟩ := hin
  obtain ⟨hne, hd⟩ := hdoc
  subst hinCh hfm hfw hsk
  apply wellFormed_of_single _ hne
  intro hd' hhd
  obtain ⟨hle, hle2⟩ := hd hd' hhd
  refine ⟨0, ?_⟩
  have key : ∀ u, wellFormed (Cfg.mk fam variant filters rate maxStride bos stem cpb middle u 1 [⟨hd'.os, 0⟩] true true 4) = true := by
    apply wellFormed_upInterp (Cfg.mk fam variant filters rate maxStride bos stem cpb middle upInterp 1 [⟨hd'.os, 0⟩] true true 4)
    have hos := hheads hd' hhd
    cases fam with
    | unet =>
      simp only [Bool.and_eq_true, beq_iff_eq, List.contains_iff_mem] at hfam
      obtain ⟨⟨⟨hv, hf⟩, hms⟩, hst⟩ := hfam
      subst hv
      simp only [supported, Bool.or_eq_true, Bool.and_eq_true, decide_eq_true_eq, beq_iff_eq, bne_iff_ne] at hsup
      have hle2' : 2 * hd'.os ≤ maxStride := hle2
      by_cases h2 : 2 ≤ cpb
      · have hcpb' : cpb ∈ [2, 3] := by
          simp only [List.mem_cons, List.not_mem_nil, or_false] at hcpb ⊢; omega
        exact unet_rows hf hrate hms hst hbos hos hcpb' middle hle hle2'
      · have hc1 : cpb = 1 := by
          simp only [List.mem_cons, List.not_mem_nil, or_false] at hcpb; omega
        rcases hsup with h | ⟨hr, hs0⟩
        · exact absurd h h2
        · subst hc1 hr
          have hst' : stem ∈ [2, 4] := by
            simp only [List.mem_cons, List.not_mem_nil, or_false] at hst ⊢
            rcases hst with rfl | rfl | rfl
            · exact absurd rfl hs0
            · exact Or.inl rfl
            · exact Or.inr rfl
          exact unet_rows_cpb1 hf hms hst' hbos hos middle hle hle2'
    | convnext =>
      simp only [Bool.and_eq_true, beq_iff_eq, List.contains_iff_mem] at hfam
      obtain ⟨⟨⟨⟨hv, hf⟩, hst⟩, _hms⟩, hmid⟩ := hfam
      subst hf hmid
      simp only [supported, Bool.and_eq_true, beq_iff_eq] at hsup
      obtain ⟨hr, hms⟩ := hsup
      subst hr hms
      exact wrap_rows (Or.inl ⟨rfl, hv⟩) hst hbos hos hcpb hle hle2
    | swint =>
      simp only [Bool.and_eq_true, beq_iff_eq, List.contains_iff_mem] at hfam
      obtain ⟨⟨⟨⟨hv, hf⟩, hst⟩, _hms⟩, hmid⟩ := hfam
      subst hf hmid
      simp only [supported, Bool.and_eq_true, beq_iff_eq] at hsup
      obtain ⟨hr, hms⟩ := hsup
      subst hr hms
      exact wrap_rows (Or.inr ⟨rfl, hv⟩) hst hbos hos hcpb hle hle2
  exact key upInterp

end SleapVerif.Arch
