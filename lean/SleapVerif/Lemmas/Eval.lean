import SleapVerif.Model.Eval
import SleapVerif.Lemmas.Oks
import SleapVerif.Lemmas.OksMatch

/-! Helper lemmas for C16 (VOC metrics over an ordered field). -/
set_option linter.unusedSectionVars false
set_option linter.unusedVariables false
namespace SleapVerif.Eval
open SleapVerif.Oks

variable {R : Type} [Field R] [LinearOrder R] [IsStrictOrderedRing R]

def InUnit (x : R) : Prop := 0 ≤ x ∧ x ≤ 1

/-! ### cumulative counts -/

theorem cums_length : ∀ (fl : List Bool) (tp fp : Nat), (cums tp fp fl).length = fl.length
  | [], _, _ => rfl
  | true :: t, tp, fp => by simp [cums, cums_length t]
  | false :: t, tp, fp => by simp [cums, cums_length t]

/-- every cumulative pair: `tp` grew by at most the number of flags, and `tp + fp` is positive -/
theorem cums_mem : ∀ (fl : List Bool) (tp fp : Nat) (x : Nat × Nat), x ∈ cums tp fp fl →
    tp ≤ x.1 ∧ x.1 ≤ tp + fl.length ∧ tp + fp < x.1 + x.2
  | [], _, _, x, h => by simp [cums] at h
  | true :: t, tp, fp, x, h => by
    simp only [cums, List.mem_cons] at h
    rcases h with rfl | h
    · simp
    · have := cums_mem t (tp + 1) fp x h
      simp only [List.length_cons]; omega
  | false :: t, tp, fp, x, h => by
    simp only [cums, List.mem_cons] at h
    rcases h with rfl | h
    · simp
    · have := cums_mem t tp (fp + 1) x h
      simp only [List.length_cons]; omega

theorem cums_sorted : ∀ (fl : List Bool) (tp fp : Nat),
    (cums tp fp fl).Pairwise (fun a b => a.1 ≤ b.1)
  | [], _, _ => List.Pairwise.nil
  | true :: t, tp, fp => by
    simp only [cums]
    exact List.Pairwise.cons (fun x hx => (cums_mem t (tp + 1) fp x hx).1) (cums_sorted t _ _)
  | false :: t, tp, fp => by
    simp only [cums]
    exact List.Pairwise.cons (fun x hx => (cums_mem t tp (fp + 1) x hx).1) (cums_sorted t _ _)

theorem cums_last : ∀ (fl : List Bool) (tp fp : Nat), fl ≠ [] →
    ((cums tp fp fl).getLast?).map (·.1) = some (tp + (fl.filter id).length)
  | [], _, _, h => absurd rfl h
  | [true], tp, fp, _ => by simp [cums]
  | [false], tp, fp, _ => by simp [cums]
  | true :: b :: t, tp, fp, _ => by
    have ih := cums_last (b :: t) (tp + 1) fp (by simp)
    have hne : cums (tp + 1) fp (b :: t) ≠ [] := by
      intro h; have := cums_length (b :: t) (tp + 1) fp; rw [h] at this; simp at this
    simp only [cums]
    rw [List.getLast?_cons_of_ne_nil hne] at *
    rw [ih]; simp; omega
  | false :: b :: t, tp, fp, _ => by
    have ih := cums_last (b :: t) tp (fp + 1) (by simp)
    have hne : cums tp (fp + 1) (b :: t) ≠ [] := by
      intro h; have := cums_length (b :: t) tp (fp + 1); rw [h] at this; simp at this
    simp only [cums]
    rw [List.getLast?_cons_of_ne_nil hne] at *
    rw [ih]; simp

/-- pointwise smaller flags give pointwise smaller `tp` with the same `tp + fp` -/
theorem cums_mono : ∀ (fl' fl : List Bool), List.Forall₂ (fun b' b => b' = true → b = true) fl' fl →
    ∀ (tp' fp' tp fp : Nat), tp' ≤ tp → tp' + fp' = tp + fp →
    List.Forall₂ (fun x' x => x'.1 ≤ x.1 ∧ x'.1 + x'.2 = x.1 + x.2) (cums tp' fp' fl') (cums tp fp fl)
  | [], [], _, _, _, _, _, _, _ => List.Forall₂.nil
  | b' :: t', b :: t, h, tp', fp', tp, fp, h1, h2 => by
    cases h with
    | cons hb ht =>
      cases b' <;> cases b
      · simp only [cums]
        exact List.Forall₂.cons ⟨h1, by omega⟩ (cums_mono t' t ht _ _ _ _ h1 (by omega))
      · simp only [cums]
        exact List.Forall₂.cons ⟨by simp; omega, by simp; omega⟩ (cums_mono t' t ht _ _ _ _ (by omega) (by omega))
      · exact absurd (hb rfl) (by simp)
      · simp only [cums]
        exact List.Forall₂.cons ⟨by simp; omega, by simp; omega⟩ (cums_mono t' t ht _ _ _ _ (by omega) (by omega))

/-! ### envelope -/

theorem env_length : ∀ l : List R, (env l).length = l.length
  | [] => rfl
  | a :: t => by simp [env, env_length t]

theorem env_subset : ∀ (l : List R) (y : R), y ∈ env l → y ∈ l
  | [], y, h => by simp [env] at h
  | a :: t, y, h => by
    simp only [env, List.mem_cons] at h
    rcases h with h | h
    · cases he : env t with
      | nil => rw [he] at h; exact h ▸ List.mem_cons_self
      | cons e es =>
        rw [he] at h
        simp only [maxR_eq] at h
        rcases max_choice a e with hm | hm
        · rw [hm] at h; exact h ▸ List.mem_cons_self
        · rw [hm] at h
          exact List.mem_cons_of_mem _ (env_subset t y (by rw [he, h]; exact List.mem_cons_self))
    · exact List.mem_cons_of_mem _ (env_subset t y h)

/-- the envelope is non-increasing -/
theorem env_antitone : ∀ l : List R, (env l).Pairwise (fun a b => b ≤ a)
  | [] => List.Pairwise.nil
  | a :: t => by
    have ih := env_antitone t
    simp only [env]
    cases he : env t with
    | nil => exact List.Pairwise.cons (by simp) List.Pairwise.nil
    | cons e es =>
      rw [he] at ih
      refine List.Pairwise.cons ?_ ih
      intro y hy
      simp only [maxR_eq]
      have hey : y ≤ e := by
        rcases List.mem_cons.mp hy with rfl | hy'
        · exact le_refl _
        · exact (List.pairwise_cons.mp ih).1 y hy'
      exact le_trans hey (le_max_right _ _)

def sup0 (l : List R) : R := l.foldr max 0

theorem sup0_nonneg : ∀ l : List R, 0 ≤ sup0 l
  | [] => le_refl _
  | a :: t => le_trans (sup0_nonneg t) (le_max_right _ _)

theorem sup0_cons (a : R) (t : List R) : sup0 (a :: t) = max a (sup0 t) := rfl

theorem sup0_mono : ∀ {l l' : List R}, List.Forall₂ (· ≤ ·) l l' → sup0 l ≤ sup0 l'
  | _, _, List.Forall₂.nil => le_refl _
  | _, _, List.Forall₂.cons h t => max_le_max h (sup0_mono t)

theorem le_sup0 : ∀ (l : List R) (x : R), x ∈ l → x ≤ sup0 l
  | a :: t, x, h => by
    rcases List.mem_cons.mp h with rfl | h'
    · exact le_max_left _ _
    · exact le_trans (le_sup0 t x h') (le_max_right _ _)

/-- Lemma A: entry `k` of the envelope is the maximum of the suffix from `k` (0 past the end) -/
theorem env_getD : ∀ (l : List R), (∀ x ∈ l, 0 ≤ x) → ∀ k, (env l).getD k 0 = sup0 (l.drop k)
  | [], _, k => by simp [env, sup0]
  | a :: t, h, 0 => by
    have ih := env_getD t (fun x hx => h x (List.mem_cons_of_mem _ hx)) 0
    have ha := h a List.mem_cons_self
    simp only [env, List.getD_cons_zero, List.drop_zero, sup0_cons]
    cases he : env t with
    | nil =>
      have : t = [] := by
        have := env_length t; rw [he] at this; exact List.eq_nil_of_length_eq_zero this.symm
      subst this; simp [sup0, ha]
    | cons e es =>
      rw [he] at ih
      simp only [List.getD_cons_zero, List.drop_zero] at ih
      show maxR a e = max a (sup0 t)
      rw [maxR_eq, ih]
  | a :: t, h, k + 1 => by
    have ih := env_getD t (fun x hx => h x (List.mem_cons_of_mem _ hx)) k
    simp only [env, List.getD_cons_succ, List.drop_succ_cons]
    exact ih

def term (r : R) (x : R × R) : R := if x.1 < r then 0 else x.2

/-- Lemma B: precision at recall threshold `r` = the best precision among the operating points
whose recall reaches `r` (0 when none does) -/
theorem precisionAt_eq_sup (r : R) : ∀ (c : List (R × R)), c.Pairwise (fun a b => a.1 ≤ b.1) →
    (∀ x ∈ c, 0 ≤ x.2) →
    precisionAt (c.map (·.1)) (env (c.map (·.2))) r = sup0 (c.map (term r)) := by
  intro c hs hp
  unfold precisionAt
  rw [env_getD _ (by
    intro x hx
    obtain ⟨y, hy, rfl⟩ := List.mem_map.mp hx
    exact hp y hy)]
  unfold searchLeft
  induction c with
  | nil => rfl
  | cons x t ih =>
    have hs' := (List.pairwise_cons.mp hs).2
    have hp' : ∀ y ∈ t, 0 ≤ y.2 := fun y hy => hp y (List.mem_cons_of_mem _ hy)
    by_cases hx : x.1 < r
    · simp only [List.map_cons, List.takeWhile_cons, hx, decide_true, if_true, List.length_cons,
        List.drop_succ_cons, sup0_cons, term]
      rw [ih hs' hp', max_eq_right (sup0_nonneg _)]
    · simp only [List.map_cons, List.takeWhile_cons, hx, decide_false, Bool.false_eq_true, if_false,
        List.length_nil, List.drop_zero]
      have hall : ∀ y ∈ t, term r y = y.2 := by
        intro y hy
        have := (List.pairwise_cons.mp hs).1 y hy
        unfold term
        rw [if_neg (not_lt.mpr (le_trans (not_lt.mp hx) this))]
      have : t.map (term r) = t.map (·.2) := List.map_congr_left hall
      rw [sup0_cons, sup0_cons, this]
      unfold term; rw [if_neg hx]

/-! ### means -/

theorem sumR_le_of_forall₂ : ∀ {l l' : List R}, List.Forall₂ (· ≤ ·) l l' → sumR l ≤ sumR l'
  | _, _, List.Forall₂.nil => le_refl _
  | _, _, List.Forall₂.cons h t => add_le_add h (sumR_le_of_forall₂ t)

theorem sumR_bounds : ∀ (l : List R), (∀ x ∈ l, InUnit x) → 0 ≤ sumR l ∧ sumR l ≤ (l.length : R)
  | [], _ => by simp [sumR]
  | a :: t, h => by
    have ih := sumR_bounds t (fun x hx => h x (List.mem_cons_of_mem _ hx))
    have ha := h a List.mem_cons_self
    rw [sumR_cons]
    have hl : (((a :: t).length : Nat) : R) = (t.length : R) + 1 := by
      simp only [List.length_cons]; push_cast; ring
    rw [hl]
    exact ⟨add_nonneg ha.1 ih.1, by linarith [ha.2, ih.2]⟩

theorem mean_unit (l : List R) (h : ∀ x ∈ l, InUnit x) : InUnit (mean (Nat.cast : Nat → R) l) := by
  obtain ⟨h0, h1⟩ := sumR_bounds l h
  unfold mean
  refine ⟨div_nonneg h0 (Nat.cast_nonneg _), ?_⟩
  exact div_le_one_of_le₀ h1 (Nat.cast_nonneg _)

theorem mean_mono {l l' : List R} (h : List.Forall₂ (· ≤ ·) l l') :
    mean (Nat.cast : Nat → R) l ≤ mean (Nat.cast : Nat → R) l' := by
  unfold mean
  rw [h.length_eq]
  exact div_le_div_of_nonneg_right (sumR_le_of_forall₂ h) (Nat.cast_nonneg _)

/-! ### flags -/

theorem flags_mono (t t' : R) (h : t ≤ t') : ∀ ms : List R,
    List.Forall₂ (fun b' b => b' = true → b = true) (flags t' ms) (flags t ms)
  | [] => List.Forall₂.nil
  | m :: ms => by
    refine List.Forall₂.cons ?_ (flags_mono t t' h ms)
    simp only [Bool.not_eq_true', decide_eq_false_iff_not, not_lt]
    exact fun h' => le_trans h h'

theorem count_mono : ∀ {fl' fl : List Bool}, List.Forall₂ (fun b' b => b' = true → b = true) fl' fl →
    (fl'.filter id).length ≤ (fl.filter id).length
  | _, _, List.Forall₂.nil => le_refl _
  | b' :: _, b :: _, List.Forall₂.cons h t => by
    have ih := count_mono t
    cases b' <;> cases b <;> simp at h ⊢ <;> omega

theorem flags_length (t : R) (ms : List R) : (flags t ms).length = ms.length := by simp [flags]

theorem flags_perm (t : R) {ms ms' : List R} (h : ms.Perm ms') :
    ((flags t ms).filter id).length = ((flags t ms').filter id).length :=
  ((h.map _).filter _).length_eq

/-! ### sorting (needs the linear order) -/

def SortedDesc {α : Type} (sc : α → R) (l : List α) : Prop := l.Pairwise (fun a b => ¬ sc a < sc b)

theorem insDesc_mem {α : Type} (sc : α → R) (x : α) : ∀ (l : List α) (y : α),
    y ∈ insDesc sc x l → y = x ∨ y ∈ l := fun l y h => by
  have := (insDesc_perm sc x l).mem_iff.mp h
  simpa using this

theorem insDesc_sorted {α : Type} (sc : α → R) (x : α) : ∀ (l : List α), SortedDesc sc l →
    SortedDesc sc (insDesc sc x l)
  | [], _ => by simp [insDesc, SortedDesc]
  | y :: t, h => by
    unfold insDesc
    have ht := (List.pairwise_cons.mp h)
    by_cases hxy : sc x < sc y
    · rw [if_pos hxy]
      refine List.Pairwise.cons ?_ (insDesc_sorted sc x t ht.2)
      intro z hz
      rcases insDesc_mem sc x t z hz with rfl | hz'
      · exact not_lt.mpr hxy.le
      · exact ht.1 z hz'
    · rw [if_neg hxy]
      refine List.Pairwise.cons ?_ h
      intro z hz
      rcases List.mem_cons.mp hz with rfl | hz'
      · exact hxy
      · exact not_lt.mpr (le_trans (not_lt.mp (ht.1 z hz')) (not_lt.mp hxy))

theorem sortDesc_sorted {α : Type} (sc : α → R) : ∀ l : List α, SortedDesc sc (sortDesc sc l)
  | [] => List.Pairwise.nil
  | x :: t => insDesc_sorted sc x _ (sortDesc_sorted sc t)

theorem sortDesc_of_sorted {α : Type} (sc : α → R) : ∀ l : List α, SortedDesc sc l → sortDesc sc l = l
  | [], _ => rfl
  | x :: t, h => by
    have ht := List.pairwise_cons.mp h
    show insDesc sc x (sortDesc sc t) = x :: t
    rw [sortDesc_of_sorted sc t ht.2]
    cases t with
    | nil => rfl
    | cons y t' =>
      unfold insDesc
      rw [if_neg (ht.1 y List.mem_cons_self)]

theorem insDesc_map {α β : Type} (sc : β → R) (f : α → β) (x : α) : ∀ l : List α,
    insDesc sc (f x) (l.map f) = (insDesc (sc ∘ f) x l).map f
  | [] => rfl
  | y :: t => by
    simp only [List.map_cons, insDesc, Function.comp]
    split
    · simp only [List.map_cons, insDesc_map sc f x t]
    · rfl

theorem sortDesc_map {α β : Type} (sc : β → R) (f : α → β) : ∀ l : List α,
    sortDesc sc (l.map f) = (sortDesc (sc ∘ f) l).map f
  | [] => rfl
  | x :: t => by
    show insDesc sc (f x) (sortDesc sc (t.map f)) = (insDesc (sc ∘ f) x (sortDesc (sc ∘ f) t)).map f
    rw [sortDesc_map sc f t, insDesc_map]

end SleapVerif.Eval
