import Mathlib.Algebra.Order.Field.Basic
import Mathlib.Analysis.SpecialFunctions.Exp
import Mathlib.Analysis.SpecialFunctions.Sqrt

/-!
# Transcendentals as parameters with laws (DESIGN §3.2)

`exp` and `sqrt` enter every numeric model as plain function parameters (`R → R`).  Theorems
take a `T : Transc R` — the functions bundled with exactly the laws the proofs use — and are
therefore valid for every ordered field that has such functions.  `realTransc` instantiates the
structure at `ℝ` from Mathlib, so the hypotheses are not vacuous.

Interface (keep small and stable; C01, C05, C06/C07, C15 import this file):
`exp sqrt exp_zero exp_pos exp_mono exp_strictMono sqrt_nonneg sqrt_sq sqrt_mono sq_sqrt`
plus the derived lemmas below.
-/

namespace SleapVerif

structure Transc (R : Type) [Field R] [LinearOrder R] [IsStrictOrderedRing R] where
  exp : R → R
  sqrt : R → R
  exp_zero : exp 0 = 1
  exp_pos : ∀ x, 0 < exp x
  exp_mono : ∀ x y, x ≤ y → exp x ≤ exp y
  exp_strictMono : ∀ x y, x < y → exp x < exp y
  sqrt_nonneg : ∀ x, 0 ≤ sqrt x
  /-- `sqrt (x²) = |x|` -/
  sqrt_sq : ∀ x, sqrt (x * x) = |x|
  sqrt_mono : ∀ x y, x ≤ y → sqrt x ≤ sqrt y
  /-- `(sqrt x)² = x` for `0 ≤ x` -/
  sq_sqrt : ∀ x, 0 ≤ x → sqrt x * sqrt x = x

namespace Transc

variable {R : Type} [Field R] [LinearOrder R] [IsStrictOrderedRing R] (T : Transc R)

theorem sqrt_sq_of_nonneg {x : R} (hx : 0 ≤ x) : T.sqrt (x * x) = x := by
  rw [T.sqrt_sq, abs_of_nonneg hx]

theorem sqrt_zero : T.sqrt 0 = 0 := by
  have := T.sqrt_sq 0
  simpa using this

theorem sqrt_one : T.sqrt 1 = 1 := by
  have := T.sqrt_sq 1
  simpa using this

theorem sqrt_pos {x : R} (hx : 0 < x) : 0 < T.sqrt x := by
  rcases (T.sqrt_nonneg x).lt_or_eq with h | h
  · exact h
  · have := T.sq_sqrt x hx.le
    rw [← h] at this
    simp at this
    exact absurd this.symm (ne_of_gt hx)

theorem exp_le_one {x : R} (hx : x ≤ 0) : T.exp x ≤ 1 := by
  rw [← T.exp_zero]; exact T.exp_mono _ _ hx

theorem exp_lt_one {x : R} (hx : x < 0) : T.exp x < 1 := by
  rw [← T.exp_zero]; exact T.exp_strictMono _ _ hx

theorem exp_le_exp {x y : R} : T.exp x ≤ T.exp y ↔ x ≤ y := by
  constructor
  · intro h
    by_contra hc
    exact absurd (T.exp_strictMono _ _ (not_le.mp hc)) (not_lt.mpr h)
  · exact T.exp_mono _ _

theorem exp_lt_exp {x y : R} : T.exp x < T.exp y ↔ x < y := by
  constructor
  · intro h
    by_contra hc
    exact absurd (T.exp_mono _ _ (not_lt.mp hc)) (not_le.mpr h)
  · exact T.exp_strictMono _ _

theorem exp_eq_one_iff {x : R} : T.exp x = 1 ↔ x = 0 := by
  constructor
  · intro h
    rcases lt_trichotomy x 0 with hx | hx | hx
    · exact absurd h (ne_of_lt (T.exp_lt_one hx))
    · exact hx
    · have := T.exp_strictMono _ _ hx
      rw [T.exp_zero] at this
      exact absurd h (ne_of_gt this)
  · rintro rfl; exact T.exp_zero

end Transc

/-- Non-vacuity: the real numbers with Mathlib's `exp` and `sqrt` satisfy every law. -/
noncomputable def realTransc : Transc ℝ where
  exp := Real.exp
  sqrt := Real.sqrt
  exp_zero := Real.exp_zero
  exp_pos := Real.exp_pos
  exp_mono := fun _ _ h => Real.exp_le_exp.mpr h
  exp_strictMono := fun _ _ h => Real.exp_lt_exp.mpr h
  sqrt_nonneg := Real.sqrt_nonneg
  sqrt_sq := Real.sqrt_mul_self_eq_abs
  sqrt_mono := fun _ _ h => Real.sqrt_le_sqrt h
  sq_sqrt := fun _ h => Real.mul_self_sqrt h

end SleapVerif
