import SleapVerif.Model.Geometry
import Mathlib.Tactic.Linarith
import Mathlib.Tactic.Ring
import Mathlib.Tactic.FieldSimp
import Mathlib.Tactic.Positivity
import Mathlib.Tactic.NormNum
import Mathlib.Algebra.Order.Field.Basic

/-!
# Helper lemmas for C04 (ordered-field facts about the maps of `Model/Geometry.lean`)
-/

set_option linter.unusedSectionVars false

namespace SleapVerif.Geometry
open SleapVerif.Scalar

variable {R : Type} [Field R] [LinearOrder R] [IsStrictOrderedRing R]

/-! ## affine maps -/

theorem Aff.apply_comp (B A : Aff R) (p : R × R) : (B.comp A).apply p = B.apply (A.apply p) := by
  simp only [Aff.comp, Aff.apply]
  refine Prod.ext ?_ ?_ <;> simp only <;> ring

theorem Aff.apply_ident (p : R × R) : (Aff.ident : Aff R).apply p = p := by
  simp [Aff.ident, Aff.apply]

theorem Aff.apply_shiftBy (t p : R × R) : (Aff.shiftBy t).apply p = (p.1 - t.1, p.2 - t.2) := by
  simp only [Aff.shiftBy, Aff.apply]
  refine Prod.ext ?_ ?_ <;> simp only <;> ring

theorem Aff.apply_axis (sx tx sy ty : R) (p : R × R) :
    (Aff.axis sx tx sy ty).apply p = (sx * p.1 + tx, sy * p.2 + ty) := by
  simp only [Aff.axis, Aff.apply]
  refine Prod.ext ?_ ?_ <;> simp only <;> ring

/-! ## one resized axis

`resized r x = (x + ½)·r − ½` is the content map, `s·x` the keypoint map. -/

/-- the exact registration offset of a resized axis: content minus keypoint -/
theorem axis_offset (r s x : R) :
    (r * x + (r - 1) / 2) - s * x = (s - 1) / 2 + (x + 1 / 2) * (r - s) := by ring

/-- size ratio `n'/n` versus nominal factor `s`, given the rounding slack `|n' − n·s| ≤ δ`,
for a pixel centre inside the image: the offset is the half-pixel term plus at most
`δ·(x+½)/n ≤ δ`. -/
theorem axis_offset_bound (n : Nat) (hn : 0 < n) (n' s x δ : R)
    (hδ : |n' - (n : R) * s| ≤ δ) (hx0 : -(1 / 2) ≤ x) (hx1 : x ≤ (n : R) - 1 / 2) :
    |((n' / (n : R)) * x + (n' / (n : R) - 1) / 2) - s * x| ≤ |s - 1| / 2 + δ := by
  have hnR : (0 : R) < n := by exact_mod_cast hn
  rw [axis_offset]
  have h1 : (n' / (n : R) - s) = (n' - (n : R) * s) / n := by field_simp
  have hx : 0 ≤ x + 1 / 2 := by linarith
  have hxn : (x + 1 / 2) / (n : R) ≤ 1 := by
    rw [div_le_one hnR]; linarith
  have hxn0 : 0 ≤ (x + 1 / 2) / (n : R) := div_nonneg hx hnR.le
  have hδ0 : 0 ≤ δ := le_trans (abs_nonneg _) hδ
  have h2 : |(x + 1 / 2) * (n' / (n : R) - s)| ≤ δ := by
    rw [h1, abs_mul, abs_div, abs_of_nonneg hx, abs_of_pos hnR]
    calc (x + 1 / 2) * (|n' - (n : R) * s| / n)
        = ((x + 1 / 2) / n) * |n' - (n : R) * s| := by ring
      _ ≤ 1 * δ := mul_le_mul hxn hδ (abs_nonneg _) (by norm_num)
      _ = δ := one_mul _
  calc |(s - 1) / 2 + (x + 1 / 2) * (n' / (n : R) - s)|
      ≤ |(s - 1) / 2| + |(x + 1 / 2) * (n' / (n : R) - s)| := abs_add_le _ _
    _ ≤ |s - 1| / 2 + δ := by
        have : |(s - 1) / 2| = |s - 1| / 2 := by rw [abs_div]; simp
        rw [this]; linarith

/-- the same when the target size is exact (`n' = n·s`): the offset is exactly `(s − 1)/2` -/
theorem axis_offset_exact (n : Nat) (hn : 0 < n) (n' s x : R) (he : n' = (n : R) * s) :
    ((n' / (n : R)) * x + (n' / (n : R) - 1) / 2) - s * x = (s - 1) / 2 := by
  have hnR : (n : R) ≠ 0 := by exact_mod_cast hn.ne'
  rw [axis_offset, he]
  have : (n : R) * s / n = s := by field_simp
  rw [this]; ring

/-- floor-truncated target (`n' ≤ n·s < n' + 1`): the offset lies in
`((s−1)/2 − 1, (s−1)/2]` -/
theorem axis_offset_floor (n : Nat) (hn : 0 < n) (n' s x : R)
    (hlo : n' ≤ (n : R) * s) (hhi : (n : R) * s < n' + 1)
    (hx0 : -(1 / 2) ≤ x) (hx1 : x ≤ (n : R) - 1 / 2) :
    (s - 1) / 2 - 1 < ((n' / (n : R)) * x + (n' / (n : R) - 1) / 2) - s * x ∧
    ((n' / (n : R)) * x + (n' / (n : R) - 1) / 2) - s * x ≤ (s - 1) / 2 := by
  have hnR : (0 : R) < n := by exact_mod_cast hn
  rw [axis_offset]
  have h1 : (n' / (n : R) - s) = (n' - (n : R) * s) / n := by field_simp
  have hx : 0 ≤ x + 1 / 2 := by linarith
  have hxn : (x + 1 / 2) / (n : R) ≤ 1 := by
    rw [div_le_one hnR]; linarith
  have hxn0 : 0 ≤ (x + 1 / 2) / (n : R) := div_nonneg hx hnR.le
  have h3 : (x + 1 / 2) * (n' / (n : R) - s) = ((x + 1 / 2) / n) * (n' - (n : R) * s) := by
    rw [h1]; ring
  rw [h3]
  constructor
  · have : -1 < ((x + 1 / 2) / (n : R)) * (n' - (n : R) * s) := by
      have hd : -1 < n' - (n : R) * s := by linarith
      have hd0 : n' - (n : R) * s ≤ 0 := by linarith
      nlinarith
    linarith
  · have : ((x + 1 / 2) / (n : R)) * (n' - (n : R) * s) ≤ 0 :=
      mul_nonpos_of_nonneg_of_nonpos hxn0 (by linarith)
    linarith

/-! ## rounding -/

theorem roundHalfEven_spec (n d : Nat) (hd : 0 < d) :
    |((roundHalfEven n d : Nat) : R) - (n : R) / d| ≤ 1 / 2 := by
  have hdR : (0 : R) < d := by exact_mod_cast hd
  have hn : (n : R) = (d : R) * ((n / d : Nat) : R) + ((n % d : Nat) : R) := by
    exact_mod_cast (Nat.div_add_mod n d).symm
  have hr : n % d < d := Nat.mod_lt _ hd
  have hrR : ((n % d : Nat) : R) < d := by exact_mod_cast hr
  have hr0 : (0 : R) ≤ ((n % d : Nat) : R) := Nat.cast_nonneg _
  have hq : (n : R) / d = ((n / d : Nat) : R) + ((n % d : Nat) : R) / d := by
    rw [hn]; field_simp
  rw [hq, abs_le]
  unfold roundHalfEven
  simp only
  have key : ∀ (c : Prop) [Decidable c] (a b : Nat), (((if c then a else b : Nat)) : R) =
      if c then (a : R) else (b : R) := by intro c _ a b; split <;> rfl
  by_cases h1 : 2 * (n % d) < d
  · rw [if_pos h1]
    have h1R : (2 : R) * ((n % d : Nat) : R) < d := by exact_mod_cast h1
    have : ((n % d : Nat) : R) / d ≤ 1 / 2 := by
      rw [div_le_iff₀ hdR]; linarith
    have h0 : 0 ≤ ((n % d : Nat) : R) / d := div_nonneg hr0 hdR.le
    constructor <;> linarith
  · rw [if_neg h1]
    by_cases h2 : d < 2 * (n % d)
    · rw [if_pos h2]
      have h2R : (d : R) < 2 * ((n % d : Nat) : R) := by exact_mod_cast h2
      have ha : 1 / 2 ≤ ((n % d : Nat) : R) / d := by
        rw [le_div_iff₀ hdR]; linarith
      have hb : ((n % d : Nat) : R) / d ≤ 1 := by
        rw [div_le_one hdR]; exact hrR.le
      push_cast
      constructor <;> linarith
    · rw [if_neg h2]
      have h3 : 2 * (n % d) = d := by omega
      have h3R : (2 : R) * ((n % d : Nat) : R) = d := by exact_mod_cast h3
      have ha : ((n % d : Nat) : R) / d = 1 / 2 := by
        rw [div_eq_iff hdR.ne']; linarith
      rw [ha]
      split
      · constructor <;> linarith
      · push_cast
        constructor <;> linarith

/-- an integer within `½` of an integer-valued real is that integer -/
theorem nat_eq_of_abs_le_half (a b : Nat) (h : |(a : R) - (b : R)| ≤ 1 / 2) : a = b := by
  rw [abs_le] at h
  have h1 : (a : R) < ((b + 1 : Nat) : R) := by push_cast; linarith
  have h2 : (b : R) < ((a + 1 : Nat) : R) := by push_cast; linarith
  have h1' : a < b + 1 := by exact_mod_cast h1
  have h2' : b < a + 1 := by exact_mod_cast h2
  omega

/-- an integer at most `½` above an integer bound is at most that bound -/
theorem nat_le_of_le_add_half (a b : Nat) (h : (a : R) ≤ (b : R) + 1 / 2) : a ≤ b := by
  have h1 : (a : R) < ((b + 1 : Nat) : R) := by push_cast; linarith
  have h1' : a < b + 1 := by exact_mod_cast h1
  omega

/-! ## `maxR` / `minR` and the crop-size fold -/

theorem maxR_eq_max (a b : R) : maxR a b = max a b := by
  unfold maxR
  split
  · rw [max_eq_right]; exact le_of_lt ‹_›
  · rw [max_eq_left]; exact le_of_not_gt ‹_›

theorem le_maxR_left (a b : R) : a ≤ maxR a b := by rw [maxR_eq_max]; exact le_max_left _ _
theorem le_maxR_right (a b : R) : b ≤ maxR a b := by rw [maxR_eq_max]; exact le_max_right _ _

theorem lenStep_ge_acc (sc np acc : R) (inst : List (Option R × Option R)) :
    acc ≤ lenStep sc np acc inst := by
  unfold lenStep
  exact le_trans (le_trans (le_maxR_left _ _) (le_maxR_left _ _)) (le_maxR_left _ _)

theorem lenStep_ge_x (sc np acc : R) (inst : List (Option R × Option R)) :
    extent (inst.map fun p => p.1.map (· * sc)) ≤ lenStep sc np acc inst := by
  unfold lenStep
  exact le_trans (le_trans (le_maxR_right _ _) (le_maxR_left _ _)) (le_maxR_left _ _)

theorem lenStep_ge_y (sc np acc : R) (inst : List (Option R × Option R)) :
    extent (inst.map fun p => p.2.map (· * sc)) ≤ lenStep sc np acc inst := by
  unfold lenStep
  exact le_trans (le_maxR_right _ _) (le_maxR_left _ _)

theorem lenStep_ge_noPad (sc np acc : R) (inst : List (Option R × Option R)) :
    np ≤ lenStep sc np acc inst := by
  unfold lenStep
  exact le_maxR_right _ _

theorem foldl_lenStep_ge_acc (sc np : R) (l : List (List (Option R × Option R))) (acc : R) :
    acc ≤ l.foldl (lenStep sc np) acc := by
  induction l generalizing acc with
  | nil => exact le_refl _
  | cons a t ih => exact le_trans (lenStep_ge_acc sc np acc a) (ih _)

/-- after the fold, `max_length` dominates every instance's x- and y-extent and (when there is at
least one instance) `min_crop_size − padding` -/
theorem foldl_lenStep_ge (sc np : R) (l : List (List (Option R × Option R))) (acc : R)
    (inst : List (Option R × Option R)) (hi : inst ∈ l) :
    extent (inst.map fun p => p.1.map (· * sc)) ≤ l.foldl (lenStep sc np) acc ∧
    extent (inst.map fun p => p.2.map (· * sc)) ≤ l.foldl (lenStep sc np) acc ∧
    np ≤ l.foldl (lenStep sc np) acc := by
  induction l generalizing acc with
  | nil => cases hi
  | cons a t ih =>
    simp only [List.foldl_cons]
    rcases List.mem_cons.mp hi with h | h
    · subst h
      exact ⟨le_trans (lenStep_ge_x sc np acc inst) (foldl_lenStep_ge_acc sc np t _),
             le_trans (lenStep_ge_y sc np acc inst) (foldl_lenStep_ge_acc sc np t _),
             le_trans (lenStep_ge_noPad sc np acc inst) (foldl_lenStep_ge_acc sc np t _)⟩
    · exact ih _ h

end SleapVerif.Geometry
