import SleapVerif.Model.TrackFeatures
import SleapVerif.Lemmas.Oks
import SleapVerif.Lemmas.TrackerHistory
/-!
# IoU / Euclidean association scores: laws and the bridging lemmas to `SceneFrame` (C10)
-/
set_option linter.unusedSectionVars false
namespace SleapVerif.TrackFeatures
open SleapVerif.Oks SleapVerif.Tracker

variable {R : Type} [Field R] [LinearOrder R] [IsStrictOrderedRing R]

/-! ## boxes -/

/-- well-formed box (what `get_bbox` returns): `xmin ≤ xmax`, `ymin ≤ ymax` — width or height 0 allowed -/
def WF (a : Box R) : Prop := a.1 ≤ a.2.2.1 ∧ a.2.1 ≤ a.2.2.2

/-- the inclusive-pixel intersection is non-empty in both directions -/
def Overlap (a b : Box R) : Prop :=
  max a.1 b.1 < min a.2.2.1 b.2.2.1 + 1 ∧ max a.2.1 b.2.1 < min a.2.2.2 b.2.2.2 + 1

/-- separated by at least one pixel in x or in y -/
def Disjoint (a b : Box R) : Prop :=
  min a.2.2.1 b.2.2.1 + 1 ≤ max a.1 b.1 ∨ min a.2.2.2 b.2.2.2 + 1 ≤ max a.2.1 b.2.1

theorem iou_range (a b : Box R) (ha : WF a) (hb : WF b) : 0 ≤ scoreIou a b ∧ scoreIou a b ≤ 1 := by
  obtain ⟨x1, y1, X1, Y1⟩ := a
  obtain ⟨x2, y2, X2, Y2⟩ := b
  exact iou_bounds x1 y1 X1 Y1 x2 y2 X2 Y2 ha.1 ha.2 hb.1 hb.2

theorem iou_symm (a b : Box R) : scoreIou a b = scoreIou b a := by
  obtain ⟨x1, y1, X1, Y1⟩ := a
  obtain ⟨x2, y2, X2, Y2⟩ := b
  exact iou_comm x1 y1 X1 Y1 x2 y2 X2 Y2

/-- a box compared with itself scores 1 **even when its width or height is 0** (collinear
    keypoints, a single visible keypoint): this is what the inclusive `+1` buys -/
theorem iou_self_is_one_degenerate (a : Box R) (ha : WF a) : scoreIou a a = 1 := by
  obtain ⟨x1, y1, X1, Y1⟩ := a
  exact iou_self_eq x1 y1 X1 Y1 ha.1 ha.2

theorem iou_disjoint_zero (a b : Box R) (h : Disjoint a b) : scoreIou a b = 0 := by
  obtain ⟨x1, y1, X1, Y1⟩ := a
  obtain ⟨x2, y2, X2, Y2⟩ := b
  unfold scoreIou
  rw [iou_unfold]
  rcases h with h | h
  · have : max (0 : R) (min X1 X2 - max x1 x2 + 1) = 0 := max_eq_left (by simp only at h; linarith)
    rw [this]; simp
  · have : max (0 : R) (min Y1 Y2 - max y1 y2 + 1) = 0 := max_eq_left (by simp only at h; linarith)
    rw [this]; simp

theorem iou_overlap_pos (a b : Box R) (ha : WF a) (hb : WF b) (h : Overlap a b) : 0 < scoreIou a b := by
  obtain ⟨x1, y1, X1, Y1⟩ := a
  obtain ⟨x2, y2, X2, Y2⟩ := b
  obtain ⟨h1, h2⟩ := ha
  obtain ⟨h3, h4⟩ := hb
  obtain ⟨o1, o2⟩ := h
  simp only at h1 h2 h3 h4 o1 o2
  unfold scoreIou
  rw [iou_unfold]
  have wpos : (0 : R) < min X1 X2 - max x1 x2 + 1 := by linarith
  have gpos : (0 : R) < min Y1 Y2 - max y1 y2 + 1 := by linarith
  rw [max_eq_right wpos.le, max_eq_right gpos.le]
  have ww1 : min X1 X2 - max x1 x2 + 1 ≤ X1 - x1 + 1 := by
    have := min_le_left X1 X2; have := le_max_left x1 x2; linarith
  have gg1 : min Y1 Y2 - max y1 y2 + 1 ≤ Y1 - y1 + 1 := by
    have := min_le_left Y1 Y2; have := le_max_left y1 y2; linarith
  have i1 : (min X1 X2 - max x1 x2 + 1) * (min Y1 Y2 - max y1 y2 + 1) ≤ (X1 - x1 + 1) * (Y1 - y1 + 1) :=
    mul_le_mul ww1 gg1 gpos.le (by linarith)
  have a2 : (1 : R) ≤ (X2 - x2 + 1) * (Y2 - y2 + 1) :=
    one_le_mul_of_one_le_of_one_le (by linarith) (by linarith)
  exact div_pos (mul_pos wpos gpos) (by linarith)

/-- **iou_dominance** (pointwise): an overlapping own box beats every disjoint foreign box -/
theorem iou_dominance (a f g f' : Box R) (ha : WF a) (hf : WF f) (ho : Overlap a f)
    (hd : Disjoint g f') : scoreIou g f' < scoreIou a f := by
  rw [iou_disjoint_zero g f' hd]; exact iou_overlap_pos a f ha hf ho

/-! ## `get_bbox` returns a well-formed box -/

theorem nanFold_none (f : R → R → R) (l : List (Option R)) (h : nanFold f l = none) :
    ∀ v, some v ∉ l := by
  induction l with
  | nil => simp
  | cons o t ih =>
    cases o with
    | none =>
      simp only [nanFold] at h
      intro v hv
      exact ih h v (by simpa using hv)
    | some y =>
      simp only [nanFold] at h
      cases hh : nanFold f t <;> simp [hh] at h

theorem nanFold_min_le (l : List (Option R)) (a : R) (h : nanFold minR l = some a) :
    (∀ v, some v ∈ l → a ≤ v) ∧ some a ∈ l := by
  induction l generalizing a with
  | nil => simp [nanFold] at h
  | cons o t ih =>
    cases o with
    | none =>
      simp only [nanFold] at h
      obtain ⟨h1, h2⟩ := ih a h
      exact ⟨fun v hv => h1 v (by simpa using hv), List.mem_cons_of_mem _ h2⟩
    | some x =>
      simp only [nanFold] at h
      cases ht : nanFold minR t with
      | none =>
        simp only [ht, Option.some.injEq] at h
        subst h
        refine ⟨?_, by simp⟩
        intro v hv
        rcases List.mem_cons.1 hv with h' | h'
        · cases h'; exact le_refl _
        · exact absurd h' (nanFold_none _ _ ht v)
      | some b =>
        simp only [ht, Option.some.injEq] at h
        obtain ⟨h1, h2⟩ := ih b ht
        rw [minR_eq] at h
        subst h
        refine ⟨?_, ?_⟩
        · intro v hv
          rcases List.mem_cons.1 hv with h' | h'
          · cases h'; exact min_le_left _ _
          · exact le_trans (min_le_right _ _) (h1 v h')
        · rcases min_choice x b with h' | h'
          · rw [h']; simp
          · rw [h']; exact List.mem_cons_of_mem _ h2

theorem nanFold_max_ge (l : List (Option R)) (a : R) (h : nanFold maxR l = some a) :
    ∀ v, some v ∈ l → v ≤ a := by
  induction l generalizing a with
  | nil => simp [nanFold] at h
  | cons o t ih =>
    cases o with
    | none =>
      simp only [nanFold] at h
      exact fun v hv => ih a h v (by simpa using hv)
    | some x =>
      simp only [nanFold] at h
      cases ht : nanFold maxR t with
      | none =>
        simp only [ht, Option.some.injEq] at h
        subst h
        intro v hv
        rcases List.mem_cons.1 hv with h' | h'
        · cases h'; exact le_refl _
        · exact absurd h' (nanFold_none _ _ ht v)
      | some b =>
        simp only [ht, Option.some.injEq] at h
        rw [maxR_eq] at h
        subst h
        intro v hv
        rcases List.mem_cons.1 hv with h' | h'
        · cases h'; exact le_max_left _ _
        · exact le_trans (ih b ht v h') (le_max_right _ _)

/-- whatever the pose (collinear, single visible keypoint, …) `get_bbox` returns a well-formed box -/
theorem bbox_wf (pts : List (Pt R)) (b : Box R) (h : bbox pts = some b) : WF b := by
  unfold bbox at h
  cases h1 : nanFold minR (pts.map (·.1)) <;> cases h2 : nanFold minR (pts.map (·.2)) <;>
    cases h3 : nanFold maxR (pts.map (·.1)) <;> cases h4 : nanFold maxR (pts.map (·.2)) <;>
    simp [h1, h2, h3, h4] at h
  subst h
  exact ⟨nanFold_max_ge _ _ h3 _ (nanFold_min_le _ _ h1).2, nanFold_max_ge _ _ h4 _ (nanFold_min_le _ _ h2).2⟩

/-! ## Euclidean distance -/

theorem dist2_nonneg (a b : R × R) : 0 ≤ dist2 a b := by
  unfold dist2; nlinarith [mul_self_nonneg (a.1 - b.1), mul_self_nonneg (a.2 - b.2)]

theorem dist2_comm (a b : R × R) : dist2 a b = dist2 b a := by unfold dist2; ring

/-- the triangle inequality for `sqrt ∘ dist2`, for any lawful `sqrt` -/
theorem dist_triangle (T : Transc R) (a b c : R × R) :
    T.sqrt (dist2 a c) ≤ T.sqrt (dist2 a b) + T.sqrt (dist2 b c) := by
  have hp := T.sqrt_nonneg (dist2 a b)
  have hq := T.sqrt_nonneg (dist2 b c)
  have hp2 := T.sq_sqrt _ (dist2_nonneg a b)
  have hq2 := T.sq_sqrt _ (dist2_nonneg b c)
  set p := T.sqrt (dist2 a b)
  set q := T.sqrt (dist2 b c)
  -- Cauchy–Schwarz in the plane
  have huv : (a.1 - b.1) * (b.1 - c.1) + (a.2 - b.2) * (b.2 - c.2) ≤ p * q := by
    by_contra hcon
    rw [not_le] at hcon
    have hpq : 0 ≤ p * q := mul_nonneg hp hq
    have h1 : (p * q) * (p * q) < ((a.1 - b.1) * (b.1 - c.1) + (a.2 - b.2) * (b.2 - c.2)) *
        ((a.1 - b.1) * (b.1 - c.1) + (a.2 - b.2) * (b.2 - c.2)) :=
      mul_self_lt_mul_self hpq hcon
    have h2 : (p * q) * (p * q) = dist2 a b * dist2 b c := by
      rw [← hp2, ← hq2]; ring
    rw [h2] at h1
    unfold dist2 at h1
    nlinarith [mul_self_nonneg ((a.1 - b.1) * (b.2 - c.2) - (a.2 - b.2) * (b.1 - c.1))]
  have hle : dist2 a c ≤ (p + q) * (p + q) := by
    have e : dist2 a c = dist2 a b + dist2 b c +
        2 * ((a.1 - b.1) * (b.1 - c.1) + (a.2 - b.2) * (b.2 - c.2)) := by unfold dist2; ring
    rw [e, ← hp2, ← hq2]; nlinarith
  calc T.sqrt (dist2 a c) ≤ T.sqrt ((p + q) * (p + q)) := T.sqrt_mono _ _ hle
    _ = p + q := T.sqrt_sq_of_nonneg (add_nonneg hp hq)

/-- **euclid_dominance** (pointwise): if `a` is within `μ` of its own stored position `f` and the
    foreign pair `(g, f')` is at least `σ − μ` apart with `2μ < σ`, the own score is larger -/
theorem euclid_dominance (T : Transc R) (a f g f' : R × R) (μ σ : R) (hμσ : 2 * μ < σ)
    (hown : T.sqrt (dist2 a f) ≤ μ) (hfar : σ - μ ≤ T.sqrt (dist2 g f')) :
    scoreEuclid T.sqrt g f' < scoreEuclid T.sqrt a f := by
  unfold scoreEuclid; linarith


/-! ## geometric scene classes ⇒ `SceneFrame`

Features are an arbitrary type `φ` with a projection `π` to the geometry (`φ := Box R × Tag`, `π := Prod.fst`
in particular): the ground truth `who : φ → Nat` need not be a function of the coordinates, so two animals
may produce the same box / position at different times. -/

section geo
variable {φ : Type}

/-- the scene class for `features = bboxes`, `scoring_method = iou`, stated on the geometry:
    a detection's box overlaps every stored box of its own animal in the window and is disjoint
    (≥ 1 px apart in x or y) from every stored box of another animal -/
structure IouFrame (π : φ → Box R) (who : φ → Nat) (thr : R) (cands : Nat → List φ) (m : Nat)
    (cur : List (φ × R)) : Prop where
  distinct : (cur.map (fun d => who d.1)).Nodup
  above : ∀ d ∈ cur, thr < d.2
  noStale : ∀ t, t < m → cands t ≠ []
  newcomer : ∀ d ∈ cur, (∀ t, t < m → ∀ f ∈ cands t, who f ≠ who d.1) →
    ∀ t, t < m → ∀ f ∈ cands t, ∃ d' ∈ cur, who d'.1 = who f
  wfCur : ∀ d ∈ cur, WF (π d.1)
  wfStored : ∀ t, t < m → ∀ f ∈ cands t, WF (π f)
  own : ∀ d ∈ cur, ∀ t, t < m → ∀ f ∈ cands t, who f = who d.1 → Overlap (π d.1) (π f)
  foreign : ∀ d ∈ cur, ∀ t, t < m → ∀ f ∈ cands t, who f ≠ who d.1 → Disjoint (π d.1) (π f)

/-- `iou_dominance` at frame level: the geometric class discharges the separation hypotheses -/
theorem sceneFrame_of_iou (π : φ → Box R) (who : φ → Nat) (thr : R) (cands : Nat → List φ) (m : Nat)
    (cur : List (φ × R)) (h : IouFrame π who thr cands m cur) :
    SceneFrame who (fun a b => scoreIou (π a) (π b)) thr cands m cur := by
  refine ⟨h.distinct, h.above, h.noStale, h.newcomer, ?_, ?_⟩
  · intro d hd t t' ht ht' f hf f' hf' e1 e2
    exact iou_dominance (π d.1) (π f) (π d.1) (π f') (h.wfCur d hd) (h.wfStored t ht f hf)
      (h.own d hd t ht f hf e1) (h.foreign d hd t' ht' f' hf' e2)
  · intro d hd d' hd' t ht f hf f' hf' e1 e2 e3
    exact iou_dominance (π d.1) (π f) (π d'.1) (π f') (h.wfCur d hd) (h.wfStored t ht f hf)
      (h.own d hd t ht f hf e1)
      (h.foreign d' hd' t ht f' hf' (by rw [e2]; exact fun h' => e3 h'.symm))

/-- the scene class for `features = centroids`, `scoring_method = euclidean_dist`: every detection
    is within `μ` of each stored position of its own animal; stored positions of different animals
    and simultaneous detections of different animals are at least `σ` apart; `2μ < σ`
    (motion inside the window smaller than half the separation) -/
structure EuclidFrame (T : Transc R) (μ σ : R) (π : φ → R × R) (who : φ → Nat) (thr : R)
    (cands : Nat → List φ) (m : Nat) (cur : List (φ × R)) : Prop where
  distinct : (cur.map (fun d => who d.1)).Nodup
  above : ∀ d ∈ cur, thr < d.2
  noStale : ∀ t, t < m → cands t ≠ []
  newcomer : ∀ d ∈ cur, (∀ t, t < m → ∀ f ∈ cands t, who f ≠ who d.1) →
    ∀ t, t < m → ∀ f ∈ cands t, ∃ d' ∈ cur, who d'.1 = who f
  halfSep : 2 * μ < σ
  own : ∀ d ∈ cur, ∀ t, t < m → ∀ f ∈ cands t, who f = who d.1 → T.sqrt (dist2 (π d.1) (π f)) ≤ μ
  sepNow : ∀ d ∈ cur, ∀ d' ∈ cur, who d'.1 ≠ who d.1 → σ ≤ T.sqrt (dist2 (π d'.1) (π d.1))
  sepStored : ∀ t t', t < m → t' < m → ∀ f ∈ cands t, ∀ f' ∈ cands t', who f ≠ who f' →
    σ ≤ T.sqrt (dist2 (π f) (π f'))

/-- `euclid_dominance` at frame level (triangle inequality) -/
theorem sceneFrame_of_euclid (T : Transc R) (μ σ : R) (π : φ → R × R) (who : φ → Nat) (thr : R)
    (cands : Nat → List φ) (m : Nat) (cur : List (φ × R))
    (h : EuclidFrame T μ σ π who thr cands m cur) :
    SceneFrame who (fun a b => scoreEuclid T.sqrt (π a) (π b)) thr cands m cur := by
  refine ⟨h.distinct, h.above, h.noStale, h.newcomer, ?_, ?_⟩
  · intro d hd t t' ht ht' f hf f' hf' e1 e2
    have hown := h.own d hd t ht f hf e1
    have hsep := h.sepStored t t' ht ht' f hf f' hf' (by rw [e1]; exact fun h' => e2 h'.symm)
    have htri := dist_triangle T (π f) (π d.1) (π f')
    rw [dist2_comm (π f) (π d.1)] at htri
    exact euclid_dominance T (π d.1) (π f) (π d.1) (π f') μ σ h.halfSep hown (by linarith)
  · intro d hd d' hd' t ht f hf f' hf' e1 e2 e3
    have hown := h.own d hd t ht f hf e1
    have hown' := h.own d hd t ht f' hf' e2
    have hsep := h.sepNow d hd d' hd' e3
    have htri := dist_triangle T (π d'.1) (π f') (π d.1)
    rw [dist2_comm (π f') (π d.1)] at htri
    exact euclid_dominance T (π d.1) (π f) (π d'.1) (π f') μ σ h.halfSep hown (by linarith)

end geo

/-! ## classes along the run, with an arbitrary per-frame predicate -/

section withClass
variable {φ : Type}

def FW.InClassWith (C : (Nat → List φ) → Nat → List (φ × R) → Prop) (cfg : Config R) (ext : Ext R)
    (score : φ → φ → R) : FW φ → List (List (φ × R)) → Prop
  | _, [] => True
  | s, cur :: rest => C s.cands s.tracks.length cur ∧
      ∀ s' ids, FW.step cfg ext score s cur = .ok (s', ids) → FW.InClassWith C cfg ext score s' rest

def LQ.InClassWith (C : (Nat → List φ) → Nat → List (φ × R) → Prop) (cfg : Config R) (ext : Ext R)
    (score : φ → φ → R) : LQ φ → List (List (φ × R)) → Prop
  | _, [] => True
  | s, cur :: rest => C s.cands s.tracks.length cur ∧
      ∀ s' ids, LQ.step cfg ext score s cur = .ok (s', ids) → LQ.InClassWith C cfg ext score s' rest

theorem FW.inClass_of_with (C : (Nat → List φ) → Nat → List (φ × R) → Prop) (cfg : Config R)
    (ext : Ext R) (score : φ → φ → R) (who : φ → Nat)
    (hC : ∀ cands m cur, C cands m cur → SceneFrame who score cfg.thr cands m cur) :
    ∀ (frames : List (List (φ × R))) (s : FW φ), FW.InClassWith C cfg ext score s frames →
      FW.InClass cfg ext score who s frames := by
  intro frames
  induction frames with
  | nil => intro s _; trivial
  | cons cur rest ih =>
    intro s h
    exact ⟨hC _ _ _ h.1, fun s' ids hs => ih s' (h.2 s' ids hs)⟩

theorem LQ.inClass_of_with (C : (Nat → List φ) → Nat → List (φ × R) → Prop) (cfg : Config R)
    (ext : Ext R) (score : φ → φ → R) (who : φ → Nat)
    (hC : ∀ cands m cur, C cands m cur → SceneFrame who score cfg.thr cands m cur) :
    ∀ (frames : List (List (φ × R))) (s : LQ φ), LQ.InClassWith C cfg ext score s frames →
      LQ.InClass cfg ext score who s frames := by
  intro frames
  induction frames with
  | nil => intro s _; trivial
  | cons cur rest ih =>
    intro s h
    exact ⟨hC _ _ _ h.1, fun s' ids hs => ih s' (h.2 s' ids hs)⟩

end withClass

end SleapVerif.TrackFeatures
