import SleapVerif.Lemmas.Tracker
/-!
# Invariants of the two candidate classes and the one-step lemmas (C09)
-/
namespace SleapVerif.Tracker

/-- the C09 property of one call of `track`, on the per-detection track ids -/
structure FrameOk {R φ : Type} [LT R] (thr : R) (cur : List (φ × R)) (ids : List (Option Nat)) : Prop where
  /-- one entry per input detection (nothing invented, nothing lost) -/
  length : ids.length = cur.length
  /-- a detection above the new-track threshold has a track -/
  complete : ∀ i (h : i < cur.length), thr < cur[i].2 → ∃ t, ids[i]? = some (some t)
  /-- no two detections of the frame share a track -/
  distinct : Distinct ids

theorem pushBounded_mem {α : Type} {w : Nat} {q : List α} {x y : α} (h : y ∈ pushBounded w q x) :
    y ∈ q ∨ y = x := by
  have := List.mem_of_mem_drop h
  simpa using this

theorem distinct_replicate_none (n : Nat) : Distinct (List.replicate n (none : Option Nat)) := by
  unfold Distinct
  rw [List.pairwise_replicate]
  right
  intro t h; cases h

/-! ## fixed window -/

structure FW.Inv {φ : Type} (s : FW φ) : Prop where
  /-- `current_tracks = [0, …, m-1]` -/
  tracks : s.tracks = List.range s.tracks.length
  /-- every stored frame: ids align with features, are known tracks, distinct, and not all `None` -/
  frames : ∀ fr ∈ s.queue, fr.ids.length = fr.feats.length ∧
    (∀ t, some t ∈ fr.ids → t < s.tracks.length) ∧ Distinct fr.ids ∧ ∃ t, some t ∈ fr.ids

theorem FW.inv_empty {φ : Type} : (FW.empty : FW φ).Inv := ⟨rfl, by simp [FW.empty]⟩

section fw
variable {R φ : Type} [LT R] [DecidableLT R]

/-- allocating on top of a valid assignment keeps the invariant and gives the frame property -/
theorem FW.alloc_push (cfg : Config R) (s : FW φ) (hs : s.Inv) (cur : List (φ × R))
    (ids0 : List (Option Nat)) (hl : ids0.length = cur.length)
    (hlt : ∀ t, some t ∈ ids0 → t < s.tracks.length) (hd : Distinct ids0) :
    let r := allocate cfg.thr (cur.map (·.2)) ids0 s.tracks
    FrameOk cfg.thr cur r.1 ∧ (FW.Inv ⟨s.queue, r.2⟩) ∧
    (∀ (i t : Nat), ids0[i]? = some (some t) → r.1[i]? = some (some t)) ∧
    ((∃ t, some t ∈ r.1) → FW.Inv ⟨pushBounded cfg.window s.queue ⟨cur.map (·.1), r.1⟩, r.2⟩) := by
  intro r
  have H : AllocSpec cfg.thr (cur.map (·.2)) ids0 s.tracks.length r := by
    have := allocate_spec' cfg.thr (cur.map (·.2)) ids0 s.tracks.length (by simpa using hl) hlt hd
    rw [← hs.tracks] at this
    exact this
  obtain ⟨m', hm', hr, hmem⟩ := H.tracks
  have hlen : r.1.length = cur.length := by simpa using H.length
  have hrl : r.2.length = m' := by rw [hr]; simp
  have hold : ∀ fr ∈ s.queue, fr.ids.length = fr.feats.length ∧
      (∀ t, some t ∈ fr.ids → t < r.2.length) ∧ Distinct fr.ids ∧ ∃ t, some t ∈ fr.ids := by
    intro fr hfr
    obtain ⟨a, b, c, d⟩ := hs.frames fr hfr
    exact ⟨a, fun t ht => by have := b t ht; omega, c, d⟩
  have hnewlt : ∀ t, some t ∈ r.1 → t < r.2.length := by
    intro t ht
    rcases hmem t ht with h | h
    · have := hlt t h; omega
    · omega
  refine ⟨⟨hlen, ?_, H.distinct⟩, ⟨by rw [hr]; simp, hold⟩, H.keep, ?_⟩
  · intro i h hthr
    have hi : i < ids0.length := by omega
    have h' : i < (cur.map (·.2)).length := by simpa using h
    cases ho : ids0[i] with
    | some c =>
      exact ⟨c, H.keep i c (by rw [List.getElem?_eq_getElem hi, ho])⟩
    | none =>
      obtain ⟨t, _, ht⟩ := H.fresh i h' (by rw [List.getElem?_eq_getElem hi, ho]) (by simpa using hthr)
      exact ⟨t, ht⟩
  · intro hex
    refine ⟨by show r.2 = List.range r.2.length; rw [hr]; simp, ?_⟩
    intro fr hfr
    rcases pushBounded_mem hfr with h | h
    · exact hold fr h
    · subst h
      exact ⟨by simp [hlen], hnewlt, H.distinct, hex⟩

theorem FW.init_ok (cfg : Config R) (s : FW φ) (hs : s.Inv) (cur : List (φ × R)) :
    (FW.init cfg s cur).1.Inv ∧ FrameOk cfg.thr cur (FW.init cfg s cur).2 := by
  have H := FW.alloc_push cfg s hs cur (List.replicate cur.length none) (by simp)
    (by intro t ht; simp at ht) (distinct_replicate_none _)
  simp only at H
  by_cases hany : (allocate cfg.thr (cur.map (·.2)) (List.replicate cur.length none) s.tracks).1.any
      Option.isSome = true
  · simp only [FW.init, hany, if_true]
    refine ⟨H.2.2.2 ?_, H.1⟩
    obtain ⟨o, ho, hso⟩ := List.any_eq_true.1 hany
    cases o with
    | none => simp at hso
    | some t => exact ⟨t, ho⟩
  · simp only [FW.init, hany]
    exact ⟨H.2.1, H.1⟩

theorem FW.update_ok (cfg : Config R) (hfx : cfg.fx.anyRow = true) (s : FW φ) (hs : s.Inv)
    (cur : List (φ × R)) (ms : List (Nat × Nat)) (hv : MatchValid cur.length s.tracks.length ms)
    (hne : cur ≠ [] → ms ≠ []) :
    (FW.update cfg s cur ms).1.Inv ∧ FrameOk cfg.thr cur (FW.update cfg s cur ms).2 := by
  unfold FW.update
  by_cases hms : ms = []
  · subst hms
    have hg : guardOk cfg.fx [] = false := by simp [guardOk, hfx]
    rw [hg]
    simp only [Bool.false_eq_true, if_false]
    by_cases hn : cfg.fx.nanSafe = true
    · rw [if_pos hn]; exact FW.init_ok cfg s hs cur
    · rw [if_neg hn]
      have hc : cur = [] := by
        by_contra h; exact hne h rfl
      subst hc
      refine ⟨hs, ⟨by simp, ?_, by simp [Distinct]⟩⟩
      intro i h; simp at h
  · have hg : guardOk cfg.fx ms = true := by
      simp [guardOk, hfx, hms]
    rw [if_pos hg]
    have H := FW.alloc_push cfg s hs cur (assignIds cur.length ms) (assignIds_length _ _)
      (fun t ht => by
        obtain ⟨i, hi⟩ := assignIds_mem_some hv ht
        exact (hv.bounds _ hi).2)
      (assignIds_distinct hv)
    simp only at H
    refine ⟨H.2.2.2 ?_, H.1⟩
    obtain ⟨p, hp⟩ := List.exists_mem_of_ne_nil ms hms
    have h1 := assignIds_of_mem hv (i := p.1) (c := p.2) hp
    have hk := H.2.2.1 p.1 p.2 h1
    exact ⟨p.2, List.mem_iff_getElem?.2 ⟨p.1, hk⟩⟩

/-- a non-empty queue holds a candidate for at least one known track -/
theorem FW.cands_ne_nil (s : FW φ) (hs : s.Inv) (hq : s.queue ≠ []) :
    ∃ t, t < s.tracks.length ∧ s.cands t ≠ [] := by
  obtain ⟨fr, hfr⟩ := List.exists_mem_of_ne_nil _ hq
  obtain ⟨hl, hlt, _, t, ht⟩ := hs.frames fr hfr
  refine ⟨t, hlt t ht, ?_⟩
  apply List.ne_nil_of_length_pos
  obtain ⟨i, hi, hie⟩ := List.getElem_of_mem ht
  have hi' : i < fr.feats.length := by omega
  have hz : (fr.ids[i], fr.feats[i]) ∈ fr.ids.zip fr.feats := by
    have : i < (fr.ids.zip fr.feats).length := by simp; omega
    have h2 := List.getElem_mem this
    simpa [List.getElem_zip] using h2
  have hsome : ((fr.ids.zip fr.feats).find? (fun p => p.1 == some t)).isSome = true := by
    rw [List.find?_isSome]
    exact ⟨_, hz, by simp [hie]⟩
  obtain ⟨x, hx⟩ := Option.isSome_iff_exists.1 hsome
  have : x.2 ∈ s.cands t := by
    unfold FW.cands
    rw [List.mem_filterMap]
    exact ⟨fr, hfr, by simp [hx]⟩
  exact List.length_pos_of_mem this

end fw

section fwstep
variable {R φ : Type} [LT R] [DecidableLT R] [Add R] [Div R] [OfNat R 0] [NatCast R] [Neg R]

/-- **one call of `track` (fixed window, repaired code)**: no exception, the invariant is kept and
    the frame property holds -/
theorem FW.step_ok (cfg : Config R) (hfx : cfg.fx = Fixes.repaired) (ext : Ext R) (hext : ExtOk ext)
    (score : φ → φ → R) (s : FW φ) (hs : s.Inv) (cur : List (φ × R)) :
    ∃ s' ids, FW.step cfg ext score s cur = .ok (s', ids) ∧ s'.Inv ∧ FrameOk cfg.thr cur ids := by
  have hst : cfg.fx.stale = true := by rw [hfx]; rfl
  have har : cfg.fx.anyRow = true := by rw [hfx]; rfl
  unfold FW.step
  by_cases hq : s.queue.isEmpty = true
  · rw [if_pos hq]
    exact ⟨_, _, rfl, (FW.init_ok cfg s hs cur).1, (FW.init_ok cfg s hs cur).2⟩
  · rw [if_neg hq, hst, scoreMatrix_repaired]
    simp only [FW.stepWith]
    obtain ⟨ms, hms, hv, hne⟩ := assignStage_repaired hext cfg.fx hst cfg.matcher s.tracks.length
      (toCost (scoreMatrixP cfg.red score s.cands s.tracks.length (cur.map (·.1))))
      (colPattern_scoreMatrix _ _ _ _ _)
    rw [hms]
    have hlen : (toCost (scoreMatrixP cfg.red score s.cands s.tracks.length (cur.map (·.1)))).length
        = cur.length := by rw [toCost_length, scoreMatrixP_length]; simp
    rw [hlen] at hv
    have hq' : s.queue ≠ [] := by simpa using hq
    obtain ⟨t, ht, hc⟩ := FW.cands_ne_nil s hs hq'
    have hne' : cur ≠ [] → ms ≠ [] := by
      intro hcur
      apply hne
      · intro h0
        have := congrArg List.length h0
        rw [hlen] at this
        exact hcur (List.length_eq_zero_iff.1 (by simpa using this))
      · exact validCols_ne_nil cfg.red score s.cands s.tracks.length (cur.map (·.1))
          (by simpa using hcur) ht hc
    have H := FW.update_ok cfg har s hs cur ms hv hne'
    exact ⟨_, _, rfl, H.1, H.2⟩

end fwstep


/-! ## local queues -/

structure LQ.Inv {φ : Type} (s : LQ φ) : Prop where
  tracks : s.tracks = List.range s.tracks.length
  /-- the dict has exactly one queue per track, created in id order -/
  keys : s.queues.map (·.1) = s.tracks
  /-- a track's queue is never empty (so a track never goes stale) -/
  nonempty : ∀ q ∈ s.queues, q.2 ≠ []

theorem LQ.inv_empty {φ : Type} : (LQ.empty : LQ φ).Inv := ⟨rfl, rfl, by simp [LQ.empty]⟩

theorem pushBounded_ne_nil {α : Type} {w : Nat} (hw : 0 < w) (q : List α) (x : α) :
    pushBounded w q x ≠ [] := by
  apply List.ne_nil_of_length_pos
  simp only [pushBounded, List.length_drop, List.length_append, List.length_cons, List.length_nil]
  omega

section lqaux
variable {φ : Type}

theorem qAppend_keys (w : Nat) (qs : List (Nat × List φ)) (t : Nat) (f : φ)
    (ht : t ∈ qs.map (·.1)) : (qAppend w qs t f).map (·.1) = qs.map (·.1) := by
  have : qs.any (fun q => q.1 == t) = true := by
    obtain ⟨q, hq, rfl⟩ := List.mem_map.1 ht
    exact List.any_eq_true.2 ⟨q, hq, by simp⟩
  simp only [qAppend, this, if_true, List.map_map]
  apply List.map_congr_left
  intro q _
  simp only [Function.comp_apply]
  split <;> rfl

theorem qAppend_nonempty (w : Nat) (hw : 0 < w) (qs : List (Nat × List φ)) (t : Nat) (f : φ)
    (hne : ∀ q ∈ qs, q.2 ≠ []) : ∀ q ∈ qAppend w qs t f, q.2 ≠ [] := by
  unfold qAppend
  split
  · intro q hq
    obtain ⟨q0, hq0, rfl⟩ := List.mem_map.1 hq
    by_cases h : q0.1 == t
    · simp only [h, if_true]; exact pushBounded_ne_nil hw _ _
    · simp only [h]; exact hne q0 hq0
  · intro q hq
    rcases List.mem_append.1 hq with h | h
    · exact hne q h
    · simp at h; subst h; simp

theorem appendMatched_ok (w : Nat) (hw : 0 < w) (m : Nat) :
    ∀ (ids : List (Option Nat)) (feats : List φ) (qs : List (Nat × List φ)),
      qs.map (·.1) = List.range m → (∀ t, some t ∈ ids → t < m) → (∀ q ∈ qs, q.2 ≠ []) →
      (appendMatched w qs ids feats).map (·.1) = List.range m ∧
        ∀ q ∈ appendMatched w qs ids feats, q.2 ≠ [] := by
  intro ids
  induction ids with
  | nil =>
    intro feats qs hk _ hne
    have e : appendMatched w qs [] feats = qs := by simp [appendMatched]
    rw [e]; exact ⟨hk, hne⟩
  | cons o ids ih =>
    intro feats qs hk hlt hne
    cases feats with
    | nil =>
      have e : appendMatched w qs (o :: ids) [] = qs := by cases o <;> simp [appendMatched]
      rw [e]; exact ⟨hk, hne⟩
    | cons f fs =>
      have hlt' : ∀ t, some t ∈ ids → t < m := fun t h => hlt t (List.mem_cons_of_mem _ h)
      cases o with
      | none => simpa [appendMatched] using ih fs qs hk hlt' hne
      | some t =>
        have ht : t ∈ qs.map (·.1) := by rw [hk]; exact List.mem_range.2 (hlt t (by simp))
        have := ih fs (qAppend w qs t f) (by rw [qAppend_keys w qs t f ht, hk]) hlt'
          (qAppend_nonempty w hw qs t f hne)
        simpa [appendMatched] using this

end lqaux

section lqalloc
variable {R φ : Type} [LT R] [DecidableLT R]

theorem appendNew_allocate (w : Nat) (hw : 0 < w) (thr : R) :
    ∀ (ss : List R) (ids0 : List (Option Nat)) (feats : List φ) (m : Nat) (qs : List (Nat × List φ)),
      ids0.length = ss.length → feats.length = ss.length → qs.map (·.1) = List.range m →
      (∀ q ∈ qs, q.2 ≠ []) →
      (appendNew w qs ids0 (allocate thr ss ids0 (List.range m)).1 feats).map (·.1)
          = (allocate thr ss ids0 (List.range m)).2 ∧
        ∀ q ∈ appendNew w qs ids0 (allocate thr ss ids0 (List.range m)).1 feats, q.2 ≠ [] := by
  intro ss
  induction ss with
  | nil =>
    intro ids0 feats m qs h1 h2 hk hne
    have e1 : ids0 = [] := List.length_eq_zero_iff.1 (by simpa using h1)
    have e2 : feats = [] := List.length_eq_zero_iff.1 (by simpa using h2)
    subst e1; subst e2
    have e : appendNew w qs [] (allocate thr [] [] (List.range m)).1 ([] : List φ) = qs := by
      simp [appendNew]
    rw [e]; exact ⟨by simp [allocate, hk], hne⟩
  | cons s ss ih =>
    intro ids0 feats m qs h1 h2 hk hne
    cases ids0 with
    | nil => simp at h1
    | cons o ids =>
      cases feats with
      | nil => simp at h2
      | cons f fs =>
        have h1' : ids.length = ss.length := by simpa using h1
        have h2' : fs.length = ss.length := by simpa using h2
        cases o with
        | some t0 =>
          have e : allocate thr (s :: ss) (some t0 :: ids) (List.range m) =
              (some t0 :: (allocate thr ss ids (List.range m)).1, (allocate thr ss ids (List.range m)).2) := by
            simp [allocate]
          rw [e]
          simpa [appendNew] using ih ids fs m qs h1' h2' hk hne
        | none =>
          by_cases hs : thr < s
          · have e : allocate thr (s :: ss) (none :: ids) (List.range m) =
                (some m :: (allocate thr ss ids (List.range (m + 1))).1,
                 (allocate thr ss ids (List.range (m + 1))).2) := by
              simp [allocate, hs, newId_range, List.range_succ]
            rw [e]
            have hany : qs.any (fun q => q.1 == m) = false := by
              rw [Bool.eq_false_iff]
              intro h
              obtain ⟨q, hq, hqm⟩ := List.any_eq_true.1 h
              have : q.1 ∈ qs.map (·.1) := List.mem_map.2 ⟨q, hq, rfl⟩
              rw [hk] at this
              have := List.mem_range.1 this
              simp at hqm; omega
            have hk' : (qNew w qs m f).map (·.1) = List.range (m + 1) := by
              simp [qNew, hany, hk, List.range_succ]
            have hne' : ∀ q ∈ qNew w qs m f, q.2 ≠ [] := by
              intro q hq
              simp only [qNew, hany, Bool.false_eq_true, if_false, List.mem_append,
                List.mem_singleton] at hq
              rcases hq with h | h
              · exact hne q h
              · subst h; exact pushBounded_ne_nil hw _ _
            simpa [appendNew] using ih ids fs (m + 1) (qNew w qs m f) h1' h2' hk' hne'
          · have e : allocate thr (s :: ss) (none :: ids) (List.range m) =
                (none :: (allocate thr ss ids (List.range m)).1, (allocate thr ss ids (List.range m)).2) := by
              simp [allocate, hs]
            rw [e]
            simpa [appendNew] using ih ids fs m qs h1' h2' hk hne

end lqalloc


section lq
variable {R φ : Type} [LT R] [DecidableLT R]

theorem alloc_frameOk (thr : R) (cur : List (φ × R)) (ids0 : List (Option Nat)) (m : Nat)
    (hl : ids0.length = cur.length) (hlt : ∀ t, some t ∈ ids0 → t < m) (hd : Distinct ids0) :
    FrameOk thr cur (allocate thr (cur.map (·.2)) ids0 (List.range m)).1 ∧
    (∃ m', (allocate thr (cur.map (·.2)) ids0 (List.range m)).2 = List.range m') := by
  have H := allocate_spec' thr (cur.map (·.2)) ids0 m (by simpa using hl) hlt hd
  obtain ⟨m', _, hr, _⟩ := H.tracks
  refine ⟨⟨by simpa using H.length, ?_, H.distinct⟩, ⟨m', hr⟩⟩
  intro i h hthr
  have hi : i < ids0.length := by omega
  have h' : i < (cur.map (·.2)).length := by simpa using h
  cases ho : ids0[i] with
  | some c => exact ⟨c, H.keep i c (by rw [List.getElem?_eq_getElem hi, ho])⟩
  | none =>
    obtain ⟨t, _, ht⟩ := H.fresh i h' (by rw [List.getElem?_eq_getElem hi, ho]) (by simpa using hthr)
    exact ⟨t, ht⟩

theorem LQ.init_ok (cfg : Config R) (hw : 0 < cfg.window) (s : LQ φ) (hs : s.Inv)
    (cur : List (φ × R)) :
    (LQ.init cfg s cur).1.Inv ∧ FrameOk cfg.thr cur (LQ.init cfg s cur).2 := by
  unfold LQ.init
  simp only
  rw [hs.tracks]
  have A := alloc_frameOk cfg.thr cur (List.replicate cur.length none) s.tracks.length (by simp)
    (by intro t ht; simp at ht) (distinct_replicate_none _)
  have B := appendNew_allocate cfg.window hw cfg.thr (cur.map (·.2))
    (List.replicate cur.length none) (cur.map (·.1)) s.tracks.length s.queues (by simp) (by simp)
    (by rw [hs.keys]; exact hs.tracks) hs.nonempty
  obtain ⟨m', hm'⟩ := A.2
  exact ⟨⟨by show _ = List.range _; rw [hm']; simp, B.1, B.2⟩, A.1⟩

theorem LQ.update_ok (cfg : Config R) (hfa : cfg.fx.anyRow = true) (hfb : cfg.fx.lqList = true)
    (hw : 0 < cfg.window) (s : LQ φ) (hs : s.Inv) (cur : List (φ × R)) (ms : List (Nat × Nat))
    (hv : MatchValid cur.length s.tracks.length ms) (hne : cur ≠ [] → ms ≠ []) :
    ∃ s' ids, LQ.update cfg s cur ms = .ok (s', ids) ∧ s'.Inv ∧ FrameOk cfg.thr cur ids := by
  unfold LQ.update
  by_cases hms : ms = []
  · subst hms
    have hg : guardOk cfg.fx [] = false := by simp [guardOk, hfa]
    rw [hg]
    simp only [Bool.false_eq_true, if_false]
    by_cases hn : cfg.fx.nanSafe = true
    · rw [if_pos hn]
      exact ⟨_, _, rfl, (LQ.init_ok cfg hw s hs cur).1, (LQ.init_ok cfg hw s hs cur).2⟩
    · rw [if_neg hn]
      have hc : cur = [] := by
        by_contra h; exact hne h rfl
      subst hc
      refine ⟨_, _, rfl, hs, ⟨by simp, ?_, by simp [Distinct]⟩⟩
      intro i h; simp at h
  · have hg : guardOk cfg.fx ms = true := by simp [guardOk, hfa, hms]
    rw [if_pos hg]
    simp only [hfb, Bool.true_eq_false, false_and, if_false]
    have hlt : ∀ t, some t ∈ assignIds cur.length ms → t < s.tracks.length := fun t ht => by
      obtain ⟨i, hi⟩ := assignIds_mem_some hv ht
      exact (hv.bounds _ hi).2
    have M := appendMatched_ok cfg.window hw s.tracks.length (assignIds cur.length ms)
      (cur.map (·.1)) s.queues (by rw [hs.keys]; exact hs.tracks) hlt hs.nonempty
    rw [hs.tracks]
    have A := alloc_frameOk cfg.thr cur (assignIds cur.length ms) s.tracks.length
      (assignIds_length _ _) hlt (assignIds_distinct hv)
    have B := appendNew_allocate cfg.window hw cfg.thr (cur.map (·.2))
      (assignIds cur.length ms) (cur.map (·.1)) s.tracks.length _
      (by simp [assignIds_length]) (by simp) M.1 M.2
    obtain ⟨m', hm'⟩ := A.2
    exact ⟨_, _, rfl, ⟨by show _ = List.range _; rw [hm']; simp, B.1, B.2⟩, A.1⟩

theorem LQ.cands_ne_nil (s : LQ φ) (hs : s.Inv) (hq : s.queues ≠ []) :
    ∃ t, t < s.tracks.length ∧ s.cands t ≠ [] := by
  obtain ⟨q, hq'⟩ := List.exists_mem_of_ne_nil _ hq
  have hk : q.1 ∈ s.tracks := by rw [← hs.keys]; exact List.mem_map.2 ⟨q, hq', rfl⟩
  rw [hs.tracks] at hk
  refine ⟨q.1, List.mem_range.1 hk, ?_⟩
  have hsome : (s.queues.find? (fun x => x.1 == q.1)).isSome = true := by
    rw [List.find?_isSome]; exact ⟨q, hq', by simp⟩
  obtain ⟨x, hx⟩ := Option.isSome_iff_exists.1 hsome
  have hxm : x ∈ s.queues := List.mem_of_find?_eq_some hx
  simp only [LQ.cands, hx, Option.map_some, Option.getD_some]
  exact hs.nonempty x hxm

end lq

section lqstep
variable {R φ : Type} [LT R] [DecidableLT R] [Add R] [Div R] [OfNat R 0] [NatCast R] [Neg R]

/-- **one call of `track` (local queues, repaired code)** -/
theorem LQ.step_ok (cfg : Config R) (hfx : cfg.fx = Fixes.repaired) (hw : 0 < cfg.window)
    (ext : Ext R) (hext : ExtOk ext) (score : φ → φ → R) (s : LQ φ) (hs : s.Inv)
    (cur : List (φ × R)) :
    ∃ s' ids, LQ.step cfg ext score s cur = .ok (s', ids) ∧ s'.Inv ∧ FrameOk cfg.thr cur ids := by
  have hst : cfg.fx.stale = true := by rw [hfx]; rfl
  have har : cfg.fx.anyRow = true := by rw [hfx]; rfl
  have hlq : cfg.fx.lqList = true := by rw [hfx]; rfl
  unfold LQ.step
  by_cases hq : s.queues.isEmpty = true
  · rw [if_pos hq]
    exact ⟨_, _, rfl, (LQ.init_ok cfg hw s hs cur).1, (LQ.init_ok cfg hw s hs cur).2⟩
  · rw [if_neg hq, hst, scoreMatrix_repaired]
    simp only [LQ.stepWith]
    obtain ⟨ms, hms, hv, hne⟩ := assignStage_repaired hext cfg.fx hst cfg.matcher s.tracks.length
      (toCost (scoreMatrixP cfg.red score s.cands s.tracks.length (cur.map (·.1))))
      (colPattern_scoreMatrix _ _ _ _ _)
    rw [hms]
    have hlen : (toCost (scoreMatrixP cfg.red score s.cands s.tracks.length (cur.map (·.1)))).length
        = cur.length := by rw [toCost_length, scoreMatrixP_length]; simp
    rw [hlen] at hv
    have hq' : s.queues ≠ [] := by simpa using hq
    obtain ⟨t, ht, hc⟩ := LQ.cands_ne_nil s hs hq'
    have hne' : cur ≠ [] → ms ≠ [] := by
      intro hcur
      apply hne
      · intro h0
        have := congrArg List.length h0
        rw [hlen] at this
        exact hcur (List.length_eq_zero_iff.1 (by simpa using this))
      · exact validCols_ne_nil cfg.red score s.cands s.tracks.length (cur.map (·.1))
          (by simpa using hcur) ht hc
    exact LQ.update_ok cfg har hlq hw s hs cur ms hv hne'

end lqstep


/-! ## an empty frame through `add_new_tracks` changes nothing -/

theorem FW.init_nil {R φ : Type} [LT R] [DecidableLT R] (cfg : Config R) (s : FW φ) :
    FW.init cfg s [] = (s, []) := by
  cases s
  simp [FW.init, allocate]

theorem LQ.init_nil {R φ : Type} [LT R] [DecidableLT R] (cfg : Config R) (s : LQ φ) :
    LQ.init cfg s [] = (s, []) := by
  cases s
  simp [LQ.init, allocate, appendNew]

end SleapVerif.Tracker
