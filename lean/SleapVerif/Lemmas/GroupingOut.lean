import SleapVerif.Lemmas.GroupingLsa
/-! Helper lemmas for C08, part 4: min-peaks filter, `make_predicted_instances`, and the glue of
    `groupSample` (which connection list the assignment loop sees). -/
namespace SleapVerif.Grouping
open SleapVerif.Toposort

variable {R : Type}

/-! ## lookup in a filtered dict -/

theorem lookup_none_of_not_key {a : Assign} {p : Peak} (h : p ∉ a.map (·.1)) : lookup a p = none := by
  cases hl : lookup a p with
  | none => rfl
  | some i => exact absurd (lookup_isSome_iff.mp (by simp [hl])) h

theorem lookup_filter {a : Assign} (hn : (a.map (·.1)).Nodup) (q : Peak × Nat → Bool) (p : Peak) :
    lookup (a.filter q) p = (lookup a p).bind fun i => if q (p, i) then some i else none := by
  induction a with
  | nil => rfl
  | cons kv a ih =>
    simp only [List.map_cons, List.nodup_cons] at hn
    rw [lookup_cons]
    by_cases hk : kv.1 = p
    · simp only [hk, if_true, Option.bind_some]
      have hkv : kv = (p, kv.2) := by rw [← hk]
      by_cases hq : q kv
      · rw [List.filter_cons_of_pos hq, lookup_cons]
        rw [hkv] at hq
        simp [hk, hq]
      · rw [List.filter_cons_of_neg hq]
        have : p ∉ (a.filter q).map (·.1) := by
          intro hm
          obtain ⟨x, hx, hxp⟩ := List.mem_map.mp hm
          exact hn.1 (by rw [hk, ← hxp]; exact List.mem_map.mpr ⟨x, (List.mem_filter.mp hx).1, rfl⟩)
        rw [lookup_none_of_not_key this]
        rw [hkv] at hq
        simp [hq]
    · simp only [hk, if_false]
      by_cases hq : q kv
      · rw [List.filter_cons_of_pos hq, lookup_cons]
        simp only [hk, if_false]
        exact ih hn.2
      · rw [List.filter_cons_of_neg hq]
        exact ih hn.2

theorem keys_nodup_filter {a : Assign} (hn : (a.map (·.1)).Nodup) (q : Peak × Nat → Bool) :
    ((a.filter q).map (·.1)).Nodup :=
  (List.filter_sublist.map _).nodup hn

/-! ## min_instance_peaks -/

/-- an integer `min_instance_peaks` involves no float product -/
@[simp] theorem minPeaksThresholdF64_int (n : Int) (k : Nat) :
    minPeaksThresholdF64 (.int n) k = minPeaksThreshold (.int n) k := rfl

/-- when the float64 product `q * n_nodes` is exact, the code's threshold is the exact
    `⌊q · n_nodes⌋` of the idealised rule (the one the AST-translated block is tied to) -/
theorem minPeaksThresholdF64_of_exact {q : Rat} {k : Nat} (h : roundF64 (q * (k : Rat)) = q * (k : Rat)) :
    minPeaksThresholdF64 (.frac q) k = minPeaksThreshold (.frac q) k := by
  show (if 0 < q then some (roundF64 (q * (k : Rat))).floor else none)
    = (if 0 < q then some (q * (k : Rat)).floor else none)
  rw [h]

/-- the pipeline model on `effMinPeaks` filters exactly as the code's float64 rule does -/
theorem filterSmall_eff (a : Assign) (mp : MinPeaks) (k : Nat) :
    filterSmall a (minPeaksThreshold (effMinPeaks mp k) k) = filterSmall a (minPeaksThresholdF64 mp k) := by
  cases mp with
  | int n => rfl
  | frac q =>
    by_cases hq : 0 < q
    · have e1 : effMinPeaks (.frac q) k = .int (roundF64 (q * (k : Rat))).floor := by
        simp [effMinPeaks, hq]
      have e2 : minPeaksThresholdF64 (.frac q) k = some (roundF64 (q * (k : Rat))).floor := by
        simp [minPeaksThresholdF64, hq]
      rw [e1, e2]
      by_cases ht : 0 < (roundF64 (q * (k : Rat))).floor
      · simp [minPeaksThreshold, ht]
      · simp only [minPeaksThreshold, ht, if_false, filterSmall]
        symm
        apply List.filter_eq_self.mpr
        intro kv _
        have : (roundF64 (q * (k : Rat))).floor ≤ (countId a kv.2 : Int) := by omega
        simpa using this
    · have e1 : effMinPeaks (.frac q) k = .frac q := by simp [effMinPeaks, hq]
      rw [e1]
      simp [minPeaksThreshold, minPeaksThresholdF64, hq]

/-- the instance `i` survives the `min_instance_peaks` filter -/
def Kept (raw : Assign) (thr : Option Int) (i : Nat) : Prop :=
  match thr with
  | none => True
  | some t => t ≤ (countId raw i : Int)

theorem lookup_filterSmall {raw : Assign} (hn : (raw.map (·.1)).Nodup) (thr : Option Int) (p : Peak) (i : Nat) :
    lookup (filterSmall raw thr) p = some i ↔ lookup raw p = some i ∧ Kept raw thr i := by
  cases thr with
  | none => simp [filterSmall, Kept]
  | some t =>
    simp only [filterSmall, Kept]
    rw [lookup_filter hn]
    cases hl : lookup raw p with
    | none => simp
    | some j =>
      simp only [Option.bind_some, Option.some.injEq]
      by_cases hk : t ≤ (countId raw j : Int)
      · simp only [hk, decide_true, if_true, Option.some.injEq]
        constructor
        · rintro rfl; exact ⟨rfl, hk⟩
        · rintro ⟨rfl, _⟩; rfl
      · simp only [hk, decide_false]
        constructor
        · intro h; simp at h
        · rintro ⟨rfl, h⟩; exact absurd h hk

theorem lookup_filterSmall_sub {raw : Assign} (hn : (raw.map (·.1)).Nodup) {thr : Option Int} {p : Peak}
    {i : Nat} (h : lookup (filterSmall raw thr) p = some i) : lookup raw p = some i :=
  ((lookup_filterSmall hn thr p i).mp h).1

theorem keys_nodup_filterSmall {raw : Assign} (hn : (raw.map (·.1)).Nodup) (thr : Option Int) :
    ((filterSmall raw thr).map (·.1)).Nodup := by
  cases thr with
  | none => exact hn
  | some t => exact keys_nodup_filter hn _

/-! ## make_predicted_instances -/

theorem checkConns_none {cs : List (Conn R)} {a : Assign}
    (h : ∀ c ∈ cs, ∀ i, lookup a c.src = some i → lookup a c.dst = some i) : checkConns cs a = none := by
  unfold checkConns
  apply List.findSome?_eq_none_iff.mpr
  intro c hc
  cases hs : lookup a c.src with
  | none => rfl
  | some i => simp [h c hc i hs]

theorem mem_of_rowOf {a : Assign} {nNodes id n k : Nat}
    (h : (rowOf a nNodes id)[n]? = some (some k)) : ((n, k), id) ∈ a := by
  unfold rowOf at h
  rw [List.getElem?_map] at h
  cases hr : (List.range nNodes)[n]? with
  | none => simp [hr] at h
  | some n' =>
    have hn' : n' = n := by
      have := List.getElem?_eq_some_iff.mp hr
      obtain ⟨_, h2⟩ := this
      simpa using h2.symm
    subst hn'
    simp only [hr, Option.map_some, Option.some.injEq] at h
    cases hl : (a.filter (fun kv => kv.2 == id && kv.1.1 == n')).getLast? with
    | none => simp [hl] at h
    | some kv =>
      simp only [hl, Option.map_some, Option.some.injEq] at h
      have hm := List.mem_of_getLast? hl
      obtain ⟨hma, hp⟩ := List.mem_filter.mp hm
      simp only [Bool.and_eq_true, beq_iff_eq] at hp
      have : kv = ((n', k), id) := by
        rcases kv with ⟨⟨x, y⟩, z⟩
        simp only at hp h
        rw [hp.1, hp.2, h]
      rw [← this]; exact hma

theorem lookup_of_mem {a : Assign} (hn : (a.map (·.1)).Nodup) {p : Peak} {i : Nat} (h : (p, i) ∈ a) :
    lookup a p = some i := by
  induction a with
  | nil => simp at h
  | cons kv a ih =>
    simp only [List.map_cons, List.nodup_cons] at hn
    rw [lookup_cons]
    rcases List.mem_cons.mp h with h | h
    · subst h; simp
    · have : kv.1 ≠ p := by
        intro hk; exact hn.1 (by rw [hk]; exact List.mem_map.mpr ⟨(p, i), h, rfl⟩)
      simp only [this, if_false]
      exact ih hn.2 h

/-! ## peaks of a node type -/

theorem mem_nodePeaks {ch : List Nat} {n g : Nat} (h : g ∈ nodePeaks ch n) : ch[g]? = some n := by
  unfold nodePeaks at h
  obtain ⟨x, hx, rfl⟩ := List.mem_map.mp h
  obtain ⟨hz, hp⟩ := List.mem_filter.mp hx
  have := List.mem_zipIdx_iff_getElem?.mp hz
  simp only [beq_iff_eq] at hp
  rw [← hp]; simpa using this

theorem mem_nodePeaks_iff {ch : List Nat} {n g : Nat} : g ∈ nodePeaks ch n ↔ ch[g]? = some n := by
  constructor
  · exact mem_nodePeaks
  · intro h
    unfold nodePeaks
    refine List.mem_map.mpr ⟨(n, g), List.mem_filter.mpr ⟨?_, by simp⟩, rfl⟩
    exact List.mem_zipIdx_iff_getElem?.mpr (by simpa using h)

theorem mem_candidates {ch : List Nat} {edges : List Edge} {k s d : Nat} :
    (k, s, d) ∈ candidates ch edges ↔
      ∃ e, edges[k]? = some e ∧ ch[s]? = some e.1 ∧ ch[d]? = some e.2 := by
  unfold candidates
  simp only [List.mem_flatMap, List.mem_map]
  constructor
  · rintro ⟨x, hx, s', hs', d', hd', heq⟩
    have hx' := List.mem_zipIdx_iff_getElem?.mp hx
    simp only [Prod.mk.injEq] at heq
    obtain ⟨rfl, rfl, rfl⟩ := heq
    exact ⟨x.1, by simpa using hx', mem_nodePeaks hs', mem_nodePeaks hd'⟩
  · rintro ⟨e, he, hs, hd⟩
    refine ⟨(e, k), List.mem_zipIdx_iff_getElem?.mpr (by simpa using he), s,
      mem_nodePeaks_iff.mpr hs, d, mem_nodePeaks_iff.mpr hd, rfl⟩

theorem globalIdx_of_lt {ch : List Nat} {n k : Nat} (h : k < (nodePeaks ch n).length) :
    ∃ g, globalIdx ch (n, k) = some g ∧ ch[g]? = some n := by
  refine ⟨(nodePeaks ch n)[k], ?_, mem_nodePeaks (List.getElem_mem h)⟩
  simp [globalIdx, List.getElem?_eq_getElem h]

theorem edgeDims_le (ch : List Nat) (e : Edge) :
    (edgeDims ch e).1 ≤ (nodePeaks ch e.1).length ∧ (edgeDims ch e).2 ≤ (nodePeaks ch e.2).length := by
  unfold edgeDims
  simp only []
  split
  · simp
  · simp

theorem dims_costMatrix [Neg R] (ch : List Nat) (e : Edge) (scores : Mat (Option R)) :
    nRows (costMatrix ch e scores) ≤ (nodePeaks ch e.1).length ∧
    nCols (costMatrix ch e scores) ≤ (nodePeaks ch e.2).length := by
  unfold costMatrix
  rw [nRows_mkMat]
  refine ⟨(edgeDims_le ch e).1, ?_⟩
  by_cases h0 : 0 < (edgeDims ch e).1
  · rw [nCols_mkMat _ _ _ h0]; exact (edgeDims_le ch e).2
  · have : (edgeDims ch e).1 = 0 := by omega
    rw [this, nCols_mkMat_zero]; omega

/-! ## the glue: mapMOpt / matchAll / connections -/

theorem mapMOpt_some {α β : Type} (f : α → Option β) : ∀ (l : List α) (ys : List β),
    mapMOpt f l = some ys → ys.length = l.length ∧ ∀ i (h : i < l.length), f l[i] = ys[i]?
  | [], ys, h => by
    simp [mapMOpt] at h; subst h; simp
  | x :: xs, ys, h => by
    unfold mapMOpt at h
    cases hx : f x with
    | none => simp [hx] at h
    | some y =>
      simp only [hx] at h
      cases hxs : mapMOpt f xs with
      | none => simp [hxs] at h
      | some ys' =>
        simp only [hxs, Option.some.injEq] at h
        subst h
        obtain ⟨h1, h2⟩ := mapMOpt_some f xs ys' hxs
        refine ⟨by simp [h1], ?_⟩
        intro i hi
        cases i with
        | zero => simpa using hx
        | succ j => simpa using h2 j (by simpa using hi)

theorem mapMOpt_total {α β : Type} (f : α → Option β) : ∀ (l : List α),
    (∀ x ∈ l, ∃ y, f x = some y) → ∃ ys, mapMOpt f l = some ys
  | [], _ => ⟨[], rfl⟩
  | x :: xs, h => by
    obtain ⟨y, hy⟩ := h x (by simp)
    obtain ⟨ys, hys⟩ := mapMOpt_total f xs (fun z hz => h z (by simp [hz]))
    exact ⟨y :: ys, by simp [mapMOpt, hy, hys]⟩

theorem mapMOpt_none {α β : Type} (f : α → Option β) : ∀ (l : List α),
    (∃ x ∈ l, f x = none) → mapMOpt f l = none
  | [], h => by obtain ⟨x, hx, _⟩ := h; simp at hx
  | x :: xs, h => by
    unfold mapMOpt
    cases hx : f x with
    | none => rfl
    | some y =>
      obtain ⟨z, hz, hfz⟩ := h
      rcases List.mem_cons.mp hz with rfl | hz
      · simp [hx] at hfz
      · simp [mapMOpt_none f xs ⟨z, hz, hfz⟩]

section sample
variable [Add R] [Neg R] [LT R] [DecidableLT R] [LE R] [DecidableLE R] [OfNat R 0] [OfNat R 1]

/-- the cost matrix of edge index `k` -/
def edgeCost (ch : List Nat) (scores : List (Mat (Option R))) (k : Nat) (e : Edge) :
    Mat (Option R) := costMatrix ch e (scores.getD k [])

omit [LE R] [DecidableLE R] in
theorem matchAll_get {fixed : Bool} {lsa : Lsa R} {P : Params R} {ch : List Nat}
    {scores : List (Mat (Option R))} {ms : List (List (Match R))}
    (h : matchAll fixed lsa P ch scores = some ms) {k : Nat} {e : Edge} (he : P.edges[k]? = some e) :
    matchEdge fixed lsa (edgeCost ch scores k e) = some (ms.getD k []) := by
  unfold matchAll at h
  obtain ⟨h1, h2⟩ := mapMOpt_some _ _ _ h
  obtain ⟨hk, hek⟩ := List.getElem?_eq_some_iff.mp he
  have hk' : k < P.edges.zipIdx.length := by simpa using hk
  have := h2 k hk'
  simp only [List.getElem_zipIdx, Nat.zero_add] at this
  rw [hek] at this
  have hk2 : k < ms.length := by rw [h1]; exact hk'
  rw [List.getElem?_eq_getElem hk2] at this
  unfold edgeCost
  rw [this]
  simp [List.getD_eq_getElem?_getD, List.getElem?_eq_getElem hk2]

end sample

theorem pairs_connsOfEdge (e : Edge) (ms : List (Match R)) :
    pairs (connsOfEdge e ms) = edgePairs e (rc (ms.filter fun m => m.score.isSome)) := by
  induction ms with
  | nil => rfl
  | cons m ms ih =>
    unfold connsOfEdge at ih ⊢
    cases hs : m.score with
    | none =>
      rw [List.filterMap_cons_none (by simp [hs]), List.filter_cons_of_neg (by simp [hs])]
      exact ih
    | some s =>
      rw [List.filterMap_cons_some (by simp [hs]; rfl), List.filter_cons_of_pos (by simp [hs])]
      simp only [pairs, List.map_cons, rc, edgePairs] at ih ⊢
      rw [ih]

theorem getD_map_filter {α : Type} (f : List α → List α) (hf : f [] = []) (l : List (List α)) (k : Nat) :
    (l.map f).getD k [] = f (l.getD k []) := by
  simp only [List.getD_eq_getElem?_getD, List.getElem?_map]
  cases l[k]? with
  | none => simp [hf]
  | some x => simp

/-- which connection list the assignment loop sees, for a tree skeleton in C17's order -/
theorem pairs_connections {edges : List Edge} {r : Nat} (A : Arbo edges r) {order : List Nat}
    (ho : toposort edges = some order) (mts : List (List (Match R))) :
    pairs (connections edges order mts)
      = (bfsOut edges r).flatMap fun e =>
          edgePairs e (rc ((mts.getD (edges.idxOf e) []).filter fun m => m.score.isSome)) := by
  have hform : connections edges order mts
      = order.flatMap fun k => ((edges[k]?).map fun e => connsOfEdge e (mts.getD k [])).getD [] := by
    unfold connections
    apply flatMap_congr'
    intro k _
    cases edges[k]? <;> rfl
  rw [hform, toposort_edges_back A ho (fun e k => connsOfEdge e (mts.getD k []))]
  unfold pairs
  rw [List.map_flatMap]
  apply flatMap_congr'
  intro e _
  exact pairs_connsOfEdge e _

theorem mem_connections {edges : List Edge} {order : List Nat} {mts : List (List (Match R))}
    {c : Conn R} (h : c ∈ connections edges order mts) :
    ∃ k e m, k ∈ order ∧ edges[k]? = some e ∧ m ∈ mts.getD k [] ∧ m.score = some c.score ∧
      c.src = (e.1, m.row) ∧ c.dst = (e.2, m.col) := by
  unfold connections at h
  obtain ⟨k, hk, hc⟩ := List.mem_flatMap.mp h
  cases he : edges[k]? with
  | none => simp [he] at hc
  | some e =>
    simp only [he] at hc
    unfold connsOfEdge at hc
    obtain ⟨m, hm, hmc⟩ := List.mem_filterMap.mp hc
    cases hs : m.score with
    | none => simp [hs] at hmc
    | some s =>
      simp only [hs, Option.map_some, Option.some.injEq] at hmc
      subst hmc
      exact ⟨k, e, m, hk, he, hm, hs, rfl, rfl⟩

theorem connections_mem {edges : List Edge} {order : List Nat} {mts : List (List (Match R))}
    {k : Nat} {e : Edge} {m : Match R} {s : R} (hk : k ∈ order) (he : edges[k]? = some e)
    (hm : m ∈ mts.getD k []) (hs : m.score = some s) :
    (⟨(e.1, m.row), (e.2, m.col), s⟩ : Conn R) ∈ connections edges order mts := by
  unfold connections
  refine List.mem_flatMap.mpr ⟨k, hk, ?_⟩
  simp only [he]
  unfold connsOfEdge
  exact List.mem_filterMap.mpr ⟨m, hm, by simp [hs]⟩

end SleapVerif.Grouping
