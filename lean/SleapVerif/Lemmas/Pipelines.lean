import SleapVerif.Model.Pipelines
import Mathlib.Algebra.Order.Field.Basic
import Mathlib.Tactic.Ring
import Mathlib.Tactic.NormNum
import Mathlib.Algebra.Order.Ring.Rat

/-!
# Helper lemmas for C18 (`Model/Pipelines.lean`)

* `erase` / `quants` / `shape` through the smart constructors;
* `process_lf`: the first `num_instances` rows are the non-empty instances;
* `generate_centroids` commutes with a positive rescaling of the keypoints.
-/

set_option linter.unusedSectionVars false

namespace SleapVerif.Pipelines
open SleapVerif.Scalar

variable {R : Type} [Field R] [LinearOrder R] [IsStrictOrderedRing R]

/-! ## pixel terms -/

@[simp] theorem erase_chan (b : Bool) (i : Img R) : (chan b i).erase = chan b i.erase := by
  cases b <;> simp [chan, Img.erase]

@[simp] theorem erase_base (b : Bool) (mh mw : Nat) : (base (R := R) b mh mw).erase = base b mh mw := by
  simp [base, Img.erase]

@[simp] theorem erase_applyResizer (s : R) (i : Img R) :
    (applyResizer s i).erase = applyResizer s i.erase := by
  unfold applyResizer; split <;> simp [Img.erase]

@[simp] theorem erase_q8If (b : Bool) (i : Img R) : (q8If b i).erase = i.erase := by
  cases b <;> simp [q8If, Img.erase]

@[simp] theorem quants_chan (b : Bool) (i : Img R) : (chan b i).quants = i.quants := by
  cases b <;> simp [chan, Img.quants]

@[simp] theorem quants_base (b : Bool) (mh mw : Nat) : (base (R := R) b mh mw).quants = 0 := by
  simp [base, Img.quants]

@[simp] theorem quants_applyResizer (s : R) (i : Img R) : (applyResizer s i).quants = i.quants := by
  unfold applyResizer; split <;> simp [Img.quants]

@[simp] theorem quants_q8If (b : Bool) (i : Img R) :
    (q8If b i).quants = i.quants + (if b then 1 else 0) := by
  cases b <;> simp [q8If, Img.quants]

/-- the 8-bit round trip does not change the shape -/
theorem shape_erase (N : Num R) (raw : Nat × Nat × Nat) (i : Img R) :
    shape N raw i.erase = shape N raw i := by
  induction i with
  | raw => rfl
  | norm i ih => simpa [Img.erase, shape] using ih
  | gray i ih => simp [Img.erase, shape, ih]
  | rgb i ih => simp [Img.erase, shape, ih]
  | sizematch a b i ih => simp [Img.erase, shape, ih]
  | resize s i ih => simp [Img.erase, shape, ih]
  | padStride m i ih => simp [Img.erase, shape, ih]
  | crop c h w i ih => simp [Img.erase, shape, ih]
  | quant8 i ih => simpa [Img.erase, shape] using ih

/-! ## `process_lf` -/

theorem processLf_num (m : Nat) (l : List (Inst R)) : (processLf m l).2 = (nonEmpty l).length := rfl

theorem processLf_getElem? (m : Nat) (l : List (Inst R)) (k : Nat) (hk : k < (nonEmpty l).length) :
    (processLf m l).1[k]? = (nonEmpty l)[k]? := by
  unfold processLf
  by_cases h : m ≠ 1
  · simp only [if_pos h]
    exact List.getElem?_append_left hk
  · simp [h]

theorem processLf_one (l : List (Inst R)) : (processLf 1 l).1 = nonEmpty l := by
  simp [processLf]

/-! ## `generate_centroids` and rescaling -/

omit [IsStrictOrderedRing R] in
theorem getElem?_scaleInst (s : R) (i : Inst R) (a : Nat) :
    (scaleInst s i)[a]? = (i[a]?).map (scalePt s) := by
  simp [scaleInst]

omit [IsStrictOrderedRing R] in
theorem anchorPt_scale (s : R) (anchor : Option Nat) (i : Inst R) :
    anchorPt anchor (scaleInst s i) = scalePt s (anchorPt anchor i) := by
  cases anchor with
  | none => rfl
  | some a =>
    simp only [anchorPt, getElem?_scaleInst]
    cases i[a]? with
    | none => rfl
    | some p => rfl

theorem minR_mul (s : R) (hs : 0 < s) (a b : R) : minR (a * s) (b * s) = minR a b * s := by
  unfold minR
  by_cases h : b < a
  · have : b * s < a * s := mul_lt_mul_of_pos_right h hs
    simp [h, this]
  · have : ¬ b * s < a * s := fun h' => h (lt_of_mul_lt_mul_right h' hs.le)
    simp [h, this]

theorem maxR_mul (s : R) (hs : 0 < s) (a b : R) : maxR (a * s) (b * s) = maxR a b * s := by
  unfold maxR
  by_cases h : a < b
  · have : a * s < b * s := mul_lt_mul_of_pos_right h hs
    simp [h, this]
  · have : ¬ a * s < b * s := fun h' => h (lt_of_mul_lt_mul_right h' hs.le)
    simp [h, this]

theorem foldl_min_scale (s : R) (hs : 0 < s) (ps : List (R × R)) (p : R × R) :
    (ps.map fun q => (q.1 * s, q.2 * s)).foldl (fun a q => (minR a.1 q.1, minR a.2 q.2)) (p.1 * s, p.2 * s)
      = (((ps.foldl (fun a q => (minR a.1 q.1, minR a.2 q.2)) p).1 * s),
         ((ps.foldl (fun a q => (minR a.1 q.1, minR a.2 q.2)) p).2 * s)) := by
  induction ps generalizing p with
  | nil => rfl
  | cons q qs ih =>
    simp only [List.map_cons, List.foldl_cons, minR_mul s hs]
    exact ih (minR p.1 q.1, minR p.2 q.2)

theorem foldl_max_scale (s : R) (hs : 0 < s) (ps : List (R × R)) (p : R × R) :
    (ps.map fun q => (q.1 * s, q.2 * s)).foldl (fun a q => (maxR a.1 q.1, maxR a.2 q.2)) (p.1 * s, p.2 * s)
      = (((ps.foldl (fun a q => (maxR a.1 q.1, maxR a.2 q.2)) p).1 * s),
         ((ps.foldl (fun a q => (maxR a.1 q.1, maxR a.2 q.2)) p).2 * s)) := by
  induction ps generalizing p with
  | nil => rfl
  | cons q qs ih =>
    simp only [List.map_cons, List.foldl_cons, maxR_mul s hs]
    exact ih (maxR p.1 q.1, maxR p.2 q.2)

omit [IsStrictOrderedRing R] in
theorem filterMap_scaleInst (s : R) (i : Inst R) :
    (scaleInst s i).filterMap id = (i.filterMap id).map fun q => (q.1 * s, q.2 * s) := by
  induction i with
  | nil => rfl
  | cons p ps ih =>
    cases p with
    | none => simpa [scaleInst, scalePt] using ih
    | some q =>
      simp only [scaleInst, List.map_cons, scalePt, Option.map_some, List.filterMap_cons, id,
        List.map_cons] at ih ⊢
      rw [ih]

/-- bounding-box midpoint of rescaled points = rescaled midpoint (`s > 0`) -/
theorem midpoint_scale (s : R) (hs : 0 < s) (i : Inst R) :
    midpoint (scaleInst s i) = scalePt s (midpoint i) := by
  unfold midpoint
  rw [filterMap_scaleInst]
  cases h : i.filterMap id with
  | nil => rfl
  | cons p ps =>
    simp only [List.map_cons, foldl_min_scale s hs, foldl_max_scale s hs, scalePt, Option.map_some]
    congr 1
    ext <;> ring

/-- `generate_centroids` commutes with a positive rescaling of the keypoints: this is what makes
`centroid_data_chunks` (centroid first, then `· scale`) agree with `CentroidDataset` (`· scale`
first) -/
theorem centroidOf_scale (s : R) (hs : 0 < s) (anchor : Option Nat) (i : Inst R) :
    centroidOf anchor (scaleInst s i) = scalePt s (centroidOf anchor i) := by
  unfold centroidOf
  rw [anchorPt_scale]
  cases anchorPt anchor i with
  | none => simpa [scalePt] using midpoint_scale s hs i
  | some p => rfl

theorem map_centroidOf_scale (s : R) (hs : 0 < s) (anchor : Option Nat) (l : List (Inst R)) :
    (l.map (scaleInst s)).map (centroidOf anchor) = (l.map (centroidOf anchor)).map (scalePt s) := by
  simp [List.map_map, Function.comp_def, centroidOf_scale s hs]

end SleapVerif.Pipelines
