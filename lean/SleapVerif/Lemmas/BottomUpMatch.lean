import SleapVerif.Model.BottomUp
import Mathlib.Algebra.Order.Field.Basic
import Mathlib.Tactic.Linarith

/-!
# Lemmas for C03: which matches are accepted, and how accepted connections become instances

* `accepted_iff_true` — an assignment that is *exchange-stable* (what optimality of scipy's
  `linear_sum_assignment` implies; validated per call by the harness) on a score table that
  separates true pairs from false ones contains every true pair, and the `min_line_scores` filter
  keeps exactly the true pairs.
* `assign_components` — `Grouping.assignRaw` (the loop of `assign_connections_to_instances`) on a
  connection list that is processed root-first gives two peaks the same instance id iff they lie in
  the same component, and assigns exactly the endpoints of the connections.
-/
namespace SleapVerif.BottomUp
open SleapVerif.Grouping

/-! ## matching -/

section matching
variable {R : Type} [Field R] [LinearOrder R] [IsStrictOrderedRing R]

/-- Local consequences of optimality of a maximum-cardinality assignment `M` on the complete
`nr × nc` table of scores (`score = −cost`): no row/column is used twice, no pair of a free row and
a free column is left, no 2-exchange and no move to a free column/row improves the total. -/
structure LsaStable (sc : Nat → Nat → R) (nr nc : Nat) (M : List (Nat × Nat)) : Prop where
  rowsInj : ∀ p ∈ M, ∀ q ∈ M, p.1 = q.1 → p = q
  colsInj : ∀ p ∈ M, ∀ q ∈ M, p.2 = q.2 → p = q
  maximal : ∀ i < nr, ∀ j < nc, (∃ p ∈ M, p.1 = i) ∨ (∃ p ∈ M, p.2 = j)
  exch2 : ∀ p ∈ M, ∀ q ∈ M, sc p.1 q.2 + sc q.1 p.2 ≤ sc p.1 p.2 + sc q.1 q.2
  rowMove : ∀ p ∈ M, ∀ j < nc, (∀ q ∈ M, q.2 ≠ j) → sc p.1 j ≤ sc p.1 p.2
  colMove : ∀ p ∈ M, ∀ i < nr, (∀ q ∈ M, q.1 ≠ i) → sc i p.2 ≤ sc p.1 p.2

/-- H2 for one edge type: `T i j` = "source peak `i` and destination peak `j` are the two ends of
this edge in one labelled animal". -/
structure Separated (sc : Nat → Nat → R) (T : Nat → Nat → Prop) (nr nc : Nat) (minLine : R) : Prop where
  inRange : ∀ i j, T i j → i < nr ∧ j < nc
  funRow : ∀ i j j', T i j → T i j' → j = j'
  funCol : ∀ i i' j, T i j → T i' j → i = i'
  /-- true candidates pass the `min_line_scores` filter -/
  trueHigh : ∀ i j, T i j → minLine ≤ sc i j
  /-- a candidate between two peaks that both lack a true partner is rejected by the filter -/
  orphanLow : ∀ i j, i < nr → j < nc → (∀ j', ¬ T i j') → (∀ i', ¬ T i' j) → sc i j < minLine
  /-- a true candidate beats every candidate that shares a peak with it -/
  domRow : ∀ i j j', T i j → j' < nc → j' ≠ j → sc i j' < sc i j
  domCol : ∀ i i' j, T i j → i' < nr → i' ≠ i → sc i' j < sc i j
  /-- … and every 2-exchange that would break it up -/
  exch : ∀ i j i' j', T i j → i' < nr → j' < nc → i' ≠ i → j' ≠ j →
    sc i j' + sc i' j < sc i j + sc i' j'

theorem true_mem_of_stable {sc : Nat → Nat → R} {T : Nat → Nat → Prop} {nr nc : Nat} {minLine : R}
    {M : List (Nat × Nat)} (inR : ∀ p ∈ M, p.1 < nr ∧ p.2 < nc)
    (S : LsaStable sc nr nc M) (H : Separated sc T nr nc minLine) {i j : Nat} (hT : T i j) :
    (i, j) ∈ M := by
  by_contra hnot
  obtain ⟨hi, hj⟩ := H.inRange i j hT
  by_cases hrow : ∃ p ∈ M, p.1 = i
  · obtain ⟨p, hp, hpi⟩ := hrow
    have hpj : p.2 ≠ j := by
      intro h; apply hnot
      have : p = (i, j) := Prod.ext hpi h
      rwa [← this]
    by_cases hcol : ∃ q ∈ M, q.2 = j
    · obtain ⟨q, hq, hqj⟩ := hcol
      have hqi : q.1 ≠ i := by
        intro h; apply hnot
        have : q = (i, j) := Prod.ext h hqj
        rwa [← this]
      have h1 := S.exch2 p hp q hq
      have h2 := H.exch i j q.1 p.2 hT (inR q hq).1 (inR p hp).2 hqi hpj
      rw [hpi, hqj] at h1
      linarith
    · have hfree : ∀ q ∈ M, q.2 ≠ j := fun q hq h => hcol ⟨q, hq, h⟩
      have h1 := S.rowMove p hp j hj hfree
      have h2 := H.domRow i j p.2 hT (inR p hp).2 hpj
      rw [hpi] at h1
      linarith
  · have hfree : ∀ q ∈ M, q.1 ≠ i := fun q hq h => hrow ⟨q, hq, h⟩
    rcases S.maximal i hi j hj with h | ⟨q, hq, hqj⟩
    · exact hrow h
    · have hqi : q.1 ≠ i := hfree q hq
      have h1 := S.colMove q hq i hi hfree
      have h2 := H.domCol i q.1 j hT (inR q hq).1 hqi
      rw [hqj] at h1
      linarith

/-- the accepted matches (`match_line_scores >= min_line_scores`) are exactly the true pairs -/
theorem accepted_iff_true {sc : Nat → Nat → R} {T : Nat → Nat → Prop} {nr nc : Nat} {minLine : R}
    {M : List (Nat × Nat)} (inR : ∀ p ∈ M, p.1 < nr ∧ p.2 < nc)
    (S : LsaStable sc nr nc M) (H : Separated sc T nr nc minLine) (i j : Nat) :
    ((i, j) ∈ M ∧ minLine ≤ sc i j) ↔ T i j := by
  constructor
  · rintro ⟨hm, hs⟩
    by_contra hT
    have hrow : ∀ j', ¬ T i j' := by
      intro j' h
      have hm' := true_mem_of_stable inR S H h
      have := S.rowsInj _ hm _ hm' rfl
      have hj : j = j' := by simpa using congrArg Prod.snd this
      exact hT (hj ▸ h)
    have hcol : ∀ i', ¬ T i' j := by
      intro i' h
      have hm' := true_mem_of_stable inR S H h
      have := S.colsInj _ hm _ hm' rfl
      have hi : i = i' := by simpa using congrArg Prod.fst this
      exact hT (hi ▸ h)
    have := H.orphanLow i j (inR _ hm).1 (inR _ hm).2 hrow hcol
    exact absurd hs (not_le.mpr this)
  · intro hT
    exact ⟨true_mem_of_stable inR S H hT, H.trueHigh i j hT⟩

end matching

/-! ## assignment -/

section assign

theorem lookup_nil (p : Peak) : lookup [] p = none := rfl

theorem lookup_cons (kv : Peak × Nat) (a : Assign) (p : Peak) :
    lookup (kv :: a) p = if kv.1 = p then some kv.2 else lookup a p := by
  unfold lookup
  by_cases h : kv.1 = p
  · simp [h]
  · have hb : (kv.1 == p) = false := by simpa using h
    simp [hb, h]

theorem lookup_append_none (a b : Assign) (p : Peak) (h : lookup a p = none) :
    lookup (a ++ b) p = lookup b p := by
  induction a with
  | nil => rfl
  | cons kv a ih =>
    rw [lookup_cons] at h
    simp only [List.cons_append, lookup_cons]
    split_ifs at h ⊢ with hk
    exact ih h

theorem lookup_append_some (a b : Assign) (p : Peak) (i : Nat) (h : lookup a p = some i) :
    lookup (a ++ b) p = some i := by
  induction a with
  | nil => simp [lookup_nil] at h
  | cons kv a ih =>
    rw [lookup_cons] at h
    simp only [List.cons_append, lookup_cons]
    split_ifs at h ⊢ with hk
    · exact h
    · exact ih h

theorem lookup_map_set (a : Assign) (p q : Peak) (i : Nat) :
    lookup (a.map (fun kv => if kv.1 == p then (kv.1, i) else kv)) q
      = if q = p then (lookup a q).map (fun _ => i) else lookup a q := by
  induction a with
  | nil => simp [lookup_nil]
  | cons kv a ih =>
    simp only [List.map_cons, lookup_cons]
    by_cases hkp : kv.1 = p
    · simp only [hkp, beq_self_eq_true, if_true]
      by_cases hqp : q = p
      · simp [hqp]
      · have : ¬ p = q := fun h => hqp h.symm
        simp only [this, if_false, hqp]
        rw [ih]; simp [hqp]
    · have hb : (kv.1 == p) = false := by simpa using hkp
      simp only [hb]
      by_cases hkq : kv.1 = q
      · have hqp : ¬ q = p := fun h => hkp (hkq.trans h)
        simp [hkq, hqp]
      · simp only [Bool.false_eq_true, if_false, hkq]
        rw [ih]

/-- `a[p] = i` then reading `q` -/
theorem lookup_insert (a : Assign) (p q : Peak) (i : Nat) :
    lookup (Grouping.insert a p i) q = if q = p then some i else lookup a q := by
  unfold Grouping.insert
  by_cases h : (lookup a p).isSome
  · simp only [h, if_true]
    rw [lookup_map_set]
    by_cases hqp : q = p
    · subst hqp
      obtain ⟨v, hv⟩ := Option.isSome_iff_exists.mp h
      simp [hv]
    · simp [hqp]
  · simp only [h, Bool.false_eq_true, if_false]
    have hn : lookup a p = none := by simpa using h
    by_cases hqp : q = p
    · subst hqp
      rw [lookup_append_none _ _ _ hn]
      simp [lookup_cons]
    · simp only [hqp, if_false]
      cases hq : lookup a q with
      | none =>
        rw [lookup_append_none _ _ _ hq]
        have : ¬ p = q := fun h => hqp h.symm
        simp [lookup_cons, lookup_nil, this]
      | some v => exact lookup_append_some _ _ _ _ hq

theorem foldl_max_ge (l : Assign) (m : Nat) : m ≤ l.foldl (fun m kv => max m (kv.2 + 1)) m := by
  induction l generalizing m with
  | nil => simp
  | cons kv l ih =>
    simp only [List.foldl_cons]
    exact le_trans (Nat.le_max_left _ _) (ih _)

theorem lt_foldl_max (l : Assign) (m : Nat) (p : Peak) (i : Nat) (h : lookup l p = some i) :
    i < l.foldl (fun m kv => max m (kv.2 + 1)) m := by
  induction l generalizing m with
  | nil => simp [lookup_nil] at h
  | cons kv l ih =>
    rw [lookup_cons] at h
    simp only [List.foldl_cons]
    split_ifs at h with hk
    · have : i = kv.2 := by simpa using h.symm
      subst this
      exact lt_of_lt_of_le (by omega : kv.2 < max m (kv.2 + 1)) (foldl_max_ge _ _)
    · exact ih _ h

/-- every id in use is below `nextId` -/
theorem lt_nextId (a : Assign) (p : Peak) (i : Nat) (h : lookup a p = some i) : i < nextId a :=
  lt_foldl_max a 0 p i h

/-- the endpoints of a connection list -/
def endpoints (cs : List (Peak × Peak)) : List Peak := cs.flatMap fun c => [c.1, c.2]

theorem mem_endpoints {cs : List (Peak × Peak)} {p : Peak} :
    p ∈ endpoints cs ↔ ∃ c ∈ cs, p = c.1 ∨ p = c.2 := by
  simp [endpoints]

/-- The connection list is processed **root-first** with respect to a component labelling `comp`:
both ends of a connection lie in one component; the destination peak has not been seen before;
and when the component has been started already, the source peak has been seen. -/
def RootFirst {C : Type} (comp : Peak → C) : List (Peak × Peak) → Prop
  | [] => True
  | cs => ∀ pre c post, cs = pre ++ c :: post →
      comp c.1 = comp c.2 ∧ c.2 ∉ endpoints pre ∧
      ((∃ d ∈ pre, comp d.1 = comp c.1) → c.1 ∈ endpoints pre)

theorem rootFirst_split {C : Type} {comp : Peak → C} {cs pre post : List (Peak × Peak)} {c : Peak × Peak}
    (h : RootFirst comp cs) (e : cs = pre ++ c :: post) :
    comp c.1 = comp c.2 ∧ c.2 ∉ endpoints pre ∧
      ((∃ d ∈ pre, comp d.1 = comp c.1) → c.1 ∈ endpoints pre) := by
  cases cs with
  | nil => simp at e
  | cons x xs => exact h pre c post e

/-- invariant of the loop after the prefix `pre` -/
structure AInv {C : Type} (comp : Peak → C) (pre : List (Peak × Peak)) (a : Assign) : Prop where
  keys : ∀ p, (lookup a p).isSome ↔ p ∈ endpoints pre
  ids : ∀ p q i j, lookup a p = some i → lookup a q = some j → (i = j ↔ comp p = comp q)

theorem assignRaw_snoc (pre : List (Peak × Peak)) (c : Peak × Peak) :
    assignRaw (pre ++ [c]) = astep (assignRaw pre) c.1 c.2 := by
  simp [assignRaw, List.foldl_append]

theorem ainv_step {C : Type} {comp : Peak → C} {pre : List (Peak × Peak)} {a : Assign}
    (I : AInv comp pre a) (c : Peak × Peak)
    (hsame : ∀ d ∈ pre, comp d.1 = comp d.2)
    (hc : comp c.1 = comp c.2) (hfresh : c.2 ∉ endpoints pre)
    (hroot : (∃ d ∈ pre, comp d.1 = comp c.1) → c.1 ∈ endpoints pre) :
    AInv comp (pre ++ [c]) (astep a c.1 c.2) := by
  have hd : lookup a c.2 = none := by
    have := (I.keys c.2).not.mpr hfresh
    simpa using this
  have hend : ∀ p, p ∈ endpoints (pre ++ [c]) ↔ p ∈ endpoints pre ∨ p = c.1 ∨ p = c.2 := by
    intro p; simp [endpoints]
  -- every old key lies in the component of some earlier connection's source
  have hold : ∀ q j, lookup a q = some j → ∃ d ∈ pre, comp d.1 = comp q := by
    intro q j hq
    have : q ∈ endpoints pre := (I.keys q).mp (by simp [hq])
    obtain ⟨d, hdm, h⟩ := mem_endpoints.mp this
    rcases h with h | h
    · exact ⟨d, hdm, by rw [h]⟩
    · exact ⟨d, hdm, by rw [h, hsame d hdm]⟩
  cases hs : lookup a c.1 with
  | none =>
    -- case 1: a new instance
    have hstep : astep a c.1 c.2 = Grouping.insert (Grouping.insert a c.1 (nextId a)) c.2 (nextId a) := by
      unfold astep; simp only [hs, hd]
    rw [hstep]
    have hnew : ∀ q j, lookup a q = some j → comp q ≠ comp c.1 := by
      intro q j hq hcq
      obtain ⟨d, hdm, hdq⟩ := hold q j hq
      have := hroot ⟨d, hdm, hdq.trans hcq⟩
      have := (I.keys c.1).mpr this
      simp [hs] at this
    have hlk : ∀ q, lookup (Grouping.insert (Grouping.insert a c.1 (nextId a)) c.2 (nextId a)) q
        = if q = c.1 ∨ q = c.2 then some (nextId a) else lookup a q := by
      intro q
      rw [lookup_insert, lookup_insert]
      by_cases h2 : q = c.2
      · simp [h2]
      · by_cases h1 : q = c.1
        · simp [h1]
        · simp [h1, h2]
    have hcn : ∀ q, (q = c.1 ∨ q = c.2) → comp q = comp c.1 := by
      rintro q (h | h)
      · rw [h]
      · rw [h, hc]
    constructor
    · intro p
      rw [hend, hlk]
      by_cases hn : p = c.1 ∨ p = c.2
      · simp [hn]
      · simp only [hn, if_false, or_false]
        exact I.keys p
    · intro p q i j hp hq
      rw [hlk] at hp hq
      by_cases pn : p = c.1 ∨ p = c.2 <;> by_cases qn : q = c.1 ∨ q = c.2
      · simp only [pn, qn, if_true, Option.some.injEq] at hp hq
        rw [hcn p pn, hcn q qn, ← hp, ← hq]; simp
      · simp only [pn, qn, if_true, if_false, Option.some.injEq] at hp hq
        have hlt := lt_nextId a q j hq
        have hcq := hnew q j hq
        rw [hcn p pn]
        constructor
        · intro h; omega
        · intro h; exact absurd h.symm hcq
      · simp only [pn, qn, if_true, if_false, Option.some.injEq] at hp hq
        have hlt := lt_nextId a p i hp
        have hcp := hnew p i hp
        rw [hcn q qn]
        constructor
        · intro h; omega
        · intro h; exact absurd h hcp
      · simp only [pn, qn, if_false] at hp hq
        exact I.ids p q i j hp hq
  | some si =>
    -- case 2: the destination joins the instance of the source
    have hstep : astep a c.1 c.2 = Grouping.insert a c.2 si := by
      unfold astep; simp only [hs, hd]
    rw [hstep]
    constructor
    · intro p
      rw [hend, lookup_insert]
      by_cases h2 : p = c.2
      · simp [h2]
      · simp only [h2, if_false, or_false]
        constructor
        · intro h; exact Or.inl ((I.keys p).mp h)
        · rintro (h | h)
          · exact (I.keys p).mpr h
          · rw [h, hs]; rfl
    · intro p q i j hp hq
      rw [lookup_insert] at hp hq
      by_cases p2 : p = c.2 <;> by_cases q2 : q = c.2
      · simp only [p2, q2, if_true, Option.some.injEq] at hp hq
        rw [p2, q2, ← hp, ← hq]; simp
      · simp only [p2, q2, if_true, if_false, Option.some.injEq] at hp hq
        rw [p2, ← hc, ← hp]
        exact I.ids c.1 q si j hs hq
      · simp only [p2, q2, if_true, if_false, Option.some.injEq] at hp hq
        rw [q2, ← hc, ← hq]
        exact I.ids p c.1 i si hp hs
      · simp only [p2, q2, if_false] at hp hq
        exact I.ids p q i j hp hq

theorem ainv_foldl {C : Type} (comp : Peak → C) (post : List (Peak × Peak)) :
    ∀ (pre : List (Peak × Peak)) (a : Assign), AInv comp pre a → RootFirst comp (pre ++ post) →
      AInv comp (pre ++ post) (post.foldl (fun a c => astep a c.1 c.2) a) := by
  induction post with
  | nil => intro pre a I _; simpa using I
  | cons c post ih =>
    intro pre a I h
    have hsame : ∀ d ∈ pre, comp d.1 = comp d.2 := by
      intro d hd
      obtain ⟨l1, l2, e⟩ := List.append_of_mem hd
      exact (rootFirst_split h (pre := l1) (c := d) (post := l2 ++ c :: post) (by rw [e]; simp)).1
    obtain ⟨h1, h2, h4⟩ := rootFirst_split h (pre := pre) (c := c) (post := post) rfl
    have I' := ainv_step I c hsame h1 h2 h4
    have := ih (pre ++ [c]) (astep a c.1 c.2) I' (by simpa using h)
    simpa using this

theorem ainv_assignRaw {C : Type} (comp : Peak → C) (cs : List (Peak × Peak)) (h : RootFirst comp cs) :
    AInv comp cs (assignRaw cs) := by
  have I0 : AInv comp [] ([] : Assign) :=
    ⟨by intro p; simp [lookup_nil, endpoints], by intro p q i j hp; simp [lookup_nil] at hp⟩
  have := ainv_foldl comp cs [] [] I0 (by simpa using h)
  simpa [assignRaw] using this

/-- `min_instance_peaks = 0` filters nothing -/
theorem assignConnections_zero (cs : List (Peak × Peak)) (n : Nat) :
    assignConnections cs (.int 0) n = assignRaw cs := by
  simp [assignConnections, minPeaksThreshold, filterSmall]

end assign

end SleapVerif.BottomUp
