import SleapVerif.Model.BottomUp
import SleapVerif.Lemmas.GroupingFixOpt
import Mathlib.Algebra.Order.Field.Basic
import Mathlib.Data.List.Nodup
import Mathlib.Tactic.Linarith

/-!
# Lemmas for C03: which matches are accepted, and how accepted connections become instances

* `accepted_iff_true` — an assignment that is *exchange-stable* (what optimality of scipy's
  `linear_sum_assignment` implies; validated per call by the harness) on a score table that
  separates true pairs from false ones contains every true pair, and the `min_line_scores` filter
  keeps exactly the true pairs.
* `lsaStable_of_spec` — the local conditions `LsaStable` follow from C08's solver contract
  `LsaSpecOn` (a minimum-cost saturating matching) on a cost matrix without `none` (NaN) cells:
  ONE solver contract in the trusted base.
-/
namespace SleapVerif.BottomUp
open SleapVerif.Grouping

/-! ## matching -/

section matching
variable {R : Type} [Field R] [LinearOrder R] [IsStrictOrderedRing R]

/-- Local consequences of optimality of a maximum-cardinality assignment `M` on the complete
`nr × nc` table of scores (`score = −cost`): no row/column is used twice, no pair of a free row and
a free column is left, no 2-exchange and no move to a free column/row improves the total. -/
structure LsaStable (sc : Nat → Nat → R) (nr nc : Nat) (M : List (Nat × Nat)) : Prop where
  rowsInj : ∀ p ∈ M, ∀ q ∈ M, p.1 = q.1 → p = q
  colsInj : ∀ p ∈ M, ∀ q ∈ M, p.2 = q.2 → p = q
  maximal : ∀ i < nr, ∀ j < nc, (∃ p ∈ M, p.1 = i) ∨ (∃ p ∈ M, p.2 = j)
  exch2 : ∀ p ∈ M, ∀ q ∈ M, sc p.1 q.2 + sc q.1 p.2 ≤ sc p.1 p.2 + sc q.1 q.2
  rowMove : ∀ p ∈ M, ∀ j < nc, (∀ q ∈ M, q.2 ≠ j) → sc p.1 j ≤ sc p.1 p.2
  colMove : ∀ p ∈ M, ∀ i < nr, (∀ q ∈ M, q.1 ≠ i) → sc i p.2 ≤ sc p.1 p.2

/-- H2 for one edge type: `T i j` = "source peak `i` and destination peak `j` are the two ends of
this edge in one labelled animal". -/
structure Separated (sc : Nat → Nat → R) (T : Nat → Nat → Prop) (nr nc : Nat) (minLine : R) : Prop where
  inRange : ∀ i j, T i j → i < nr ∧ j < nc
  funRow : ∀ i j j', T i j → T i j' → j = j'
  funCol : ∀ i i' j, T i j → T i' j → i = i'
  /-- true candidates pass the `min_line_scores` filter -/
  trueHigh : ∀ i j, T i j → minLine ≤ sc i j
  /-- a candidate between two peaks that both lack a true partner is rejected by the filter -/
  orphanLow : ∀ i j, i < nr → j < nc → (∀ j', ¬ T i j') → (∀ i', ¬ T i' j) → sc i j < minLine
  /-- a true candidate beats every candidate that shares a peak with it -/
  domRow : ∀ i j j', T i j → j' < nc → j' ≠ j → sc i j' < sc i j
  domCol : ∀ i i' j, T i j → i' < nr → i' ≠ i → sc i' j < sc i j
  /-- … and every 2-exchange that would break it up -/
  exch : ∀ i j i' j', T i j → i' < nr → j' < nc → i' ≠ i → j' ≠ j →
    sc i j' + sc i' j < sc i j + sc i' j'

theorem true_mem_of_stable {sc : Nat → Nat → R} {T : Nat → Nat → Prop} {nr nc : Nat} {minLine : R}
    {M : List (Nat × Nat)} (inR : ∀ p ∈ M, p.1 < nr ∧ p.2 < nc)
    (S : LsaStable sc nr nc M) (H : Separated sc T nr nc minLine) {i j : Nat} (hT : T i j) :
    (i, j) ∈ M := by
  by_contra hnot
  obtain ⟨hi, hj⟩ := H.inRange i j hT
  by_cases hrow : ∃ p ∈ M, p.1 = i
  · obtain ⟨p, hp, hpi⟩ := hrow
    have hpj : p.2 ≠ j := by
      intro h; apply hnot
      have : p = (i, j) := Prod.ext hpi h
      rwa [← this]
    by_cases hcol : ∃ q ∈ M, q.2 = j
    · obtain ⟨q, hq, hqj⟩ := hcol
      have hqi : q.1 ≠ i := by
        intro h; apply hnot
        have : q = (i, j) := Prod.ext h hqj
        rwa [← this]
      have h1 := S.exch2 p hp q hq
      have h2 := H.exch i j q.1 p.2 hT (inR q hq).1 (inR p hp).2 hqi hpj
      rw [hpi, hqj] at h1
      linarith
    · have hfree : ∀ q ∈ M, q.2 ≠ j := fun q hq h => hcol ⟨q, hq, h⟩
      have h1 := S.rowMove p hp j hj hfree
      have h2 := H.domRow i j p.2 hT (inR p hp).2 hpj
      rw [hpi] at h1
      linarith
  · have hfree : ∀ q ∈ M, q.1 ≠ i := fun q hq h => hrow ⟨q, hq, h⟩
    rcases S.maximal i hi j hj with h | ⟨q, hq, hqj⟩
    · exact hrow h
    · have hqi : q.1 ≠ i := hfree q hq
      have h1 := S.colMove q hq i hi hfree
      have h2 := H.domCol i q.1 j hT (inR q hq).1 hqi
      rw [hqj] at h1
      linarith

/-- the accepted matches (`match_line_scores >= min_line_scores`) are exactly the true pairs -/
theorem accepted_iff_true {sc : Nat → Nat → R} {T : Nat → Nat → Prop} {nr nc : Nat} {minLine : R}
    {M : List (Nat × Nat)} (inR : ∀ p ∈ M, p.1 < nr ∧ p.2 < nc)
    (S : LsaStable sc nr nc M) (H : Separated sc T nr nc minLine) (i j : Nat) :
    ((i, j) ∈ M ∧ minLine ≤ sc i j) ↔ T i j := by
  constructor
  · rintro ⟨hm, hs⟩
    by_contra hT
    have hrow : ∀ j', ¬ T i j' := by
      intro j' h
      have hm' := true_mem_of_stable inR S H h
      have := S.rowsInj _ hm _ hm' rfl
      have hj : j = j' := by simpa using congrArg Prod.snd this
      exact hT (hj ▸ h)
    have hcol : ∀ i', ¬ T i' j := by
      intro i' h
      have hm' := true_mem_of_stable inR S H h
      have := S.colsInj _ hm _ hm' rfl
      have hi : i = i' := by simpa using congrArg Prod.fst this
      exact hT (hi ▸ h)
    have := H.orphanLow i j (inR _ hm).1 (inR _ hm).2 hrow hcol
    exact absurd hs (not_le.mpr this)
  · intro hT
    exact ⟨true_mem_of_stable inR S H hT, H.trueHigh i j hT⟩

end matching

/-! ## the solver contract of C08 implies `LsaStable` -/

set_option linter.unusedSectionVars false

section bridge
variable {K : Type} [Field K] [LinearOrder K] [IsStrictOrderedRing K]

/-- line score of candidate `(i, j)` as the cost matrix holds it (`cost = −score`) -/
def scoreOf (C : Mat (Option K)) (i j : Nat) : K := -((entry C i j).getD 0)

/-- no NaN score among the candidates of this edge type -/
def ValidIn (C : Mat (Option K)) : Prop := ∀ i < nRows C, ∀ j < nCols C, (entry C i j).isSome

theorem cost_cons (C : Mat (Option K)) (m : Nat × Nat) (M : List (Nat × Nat)) :
    cost C (m :: M) = (entry C m.1 m.2).getD 0 + cost C M := by
  unfold cost
  rw [sumL_eq_sum, sumL_eq_sum]
  simp

theorem cost_perm (C : Mat (Option K)) {M M' : List (Nat × Nat)} (p : M.Perm M') : cost C M = cost C M' := by
  unfold cost
  rw [sumL_eq_sum, sumL_eq_sum]
  exact (p.map _).sum_eq

theorem isMatching_perm {C : Mat (Option K)} {M M' : List (Nat × Nat)} (p : M.Perm M')
    (h : IsMatching C M) : IsMatching C M' :=
  ⟨⟨(p.map _).nodup_iff.mp h.oneToOne.1, (p.map _).nodup_iff.mp h.oneToOne.2⟩,
   fun m hm => h.inRange m (p.mem_iff.mpr hm),
   by rw [← p.length_eq]; exact h.saturating,
   fun m hm => h.finite m (p.mem_iff.mpr hm)⟩

/-- the diagonal is a saturating matching of a matrix without `none` cells -/
theorem diag_isMatching_of_valid {C : Mat (Option K)} (hv : ValidIn C) :
    IsMatching C ((List.range (min (nRows C) (nCols C))).map fun i => (i, i)) := by
  refine ⟨⟨?_, ?_⟩, ?_, ?_, ?_⟩
  · simp [List.map_map, Function.comp_def, List.nodup_range]
  · simp [List.map_map, Function.comp_def, List.nodup_range]
  · intro m hm
    obtain ⟨i, hi, rfl⟩ := List.mem_map.mp hm
    have hi := List.mem_range.mp hi
    simp only
    omega
  · simp
  · intro m hm
    obtain ⟨i, hi, rfl⟩ := List.mem_map.mp hm
    have hi := List.mem_range.mp hi
    exact hv i (by omega) i (by omega)

theorem length_le_pred_of_avoid {l : List Nat} {n i : Nat} (hn : l.Nodup) (hi : i < n)
    (h : ∀ x ∈ l, x < n ∧ x ≠ i) : l.length + 1 ≤ n := by
  have hsub : l ⊆ (List.range n).erase i := by
    intro x hx
    obtain ⟨h1, h2⟩ := h x hx
    exact (List.mem_erase_of_ne h2).mpr (List.mem_range.mpr h1)
  have := (List.subperm_of_subset hn hsub).length_le
  rw [List.length_erase_of_mem (List.mem_range.mpr hi), List.length_range] at this
  omega

/-- **One solver contract.**  A minimum-cost saturating matching (`IsMatching` + optimality, what
`LsaSpecOn.sound` gives for scipy's answer) on a cost matrix without NaN cells is exchange-stable
for the scores `−cost`. -/
theorem lsaStable_of_optimal {C : Mat (Option K)} {M : List (Nat × Nat)} (hv : ValidIn C)
    (IM : IsMatching C M) (hopt : ∀ M', IsMatching C M' → cost C M ≤ cost C M') :
    LsaStable (scoreOf C) (nRows C) (nCols C) M := by
  have rowsInj : ∀ p ∈ M, ∀ q ∈ M, p.1 = q.1 → p = q := List.inj_on_of_nodup_map IM.oneToOne.1
  have colsInj : ∀ p ∈ M, ∀ q ∈ M, p.2 = q.2 → p = q := List.inj_on_of_nodup_map IM.oneToOne.2
  have getD_eq : ∀ i j, (entry C i j).getD 0 = -scoreOf C i j := by intro i j; simp [scoreOf]
  refine ⟨rowsInj, colsInj, ?_, ?_, ?_, ?_⟩
  · -- maximal
    intro i hi j hj
    by_contra hcon
    have hrow : ∀ x ∈ M.map (·.1), x < nRows C ∧ x ≠ i := by
      intro x hx
      obtain ⟨m, hm, rfl⟩ := List.mem_map.mp hx
      exact ⟨(IM.inRange m hm).1, fun h => hcon (Or.inl ⟨m, hm, h⟩)⟩
    have hcol : ∀ x ∈ M.map (·.2), x < nCols C ∧ x ≠ j := by
      intro x hx
      obtain ⟨m, hm, rfl⟩ := List.mem_map.mp hx
      exact ⟨(IM.inRange m hm).2, fun h => hcon (Or.inr ⟨m, hm, h⟩)⟩
    have h1 := length_le_pred_of_avoid IM.oneToOne.1 hi hrow
    have h2 := length_le_pred_of_avoid IM.oneToOne.2 hj hcol
    have h3 := IM.saturating
    simp only [List.length_map] at h1 h2
    omega
  · -- 2-exchange
    intro p hp q hq
    by_cases hpq : p = q
    · subst hpq; exact le_refl _
    · have hq' : q ∈ M.erase p := (List.mem_erase_of_ne (Ne.symm hpq)).mpr hq
      have perm : M.Perm (p :: q :: (M.erase p).erase q) :=
        (List.perm_cons_erase hp).trans ((List.perm_cons_erase hq').cons p)
      have IM2 := isMatching_perm perm IM
      have IM' : IsMatching C ((p.1, q.2) :: (q.1, p.2) :: (M.erase p).erase q) := by
        refine ⟨⟨?_, ?_⟩, ?_, ?_, ?_⟩
        · simpa using IM2.oneToOne.1
        · have := IM2.oneToOne.2
          simp only [List.map_cons] at this ⊢
          exact (List.Perm.swap _ _ _).nodup_iff.mp this
        · intro m hm
          simp only [List.mem_cons] at hm
          rcases hm with rfl | rfl | hm
          · exact ⟨(IM.inRange p hp).1, (IM.inRange q hq).2⟩
          · exact ⟨(IM.inRange q hq).1, (IM.inRange p hp).2⟩
          · exact IM2.inRange m (by simp [hm])
        · have := IM2.saturating
          simpa using this
        · intro m hm
          simp only [List.mem_cons] at hm
          rcases hm with rfl | rfl | hm
          · exact hv _ (IM.inRange p hp).1 _ (IM.inRange q hq).2
          · exact hv _ (IM.inRange q hq).1 _ (IM.inRange p hp).2
          · exact IM2.finite m (by simp [hm])
      have h := hopt _ IM'
      rw [cost_perm C perm, cost_cons, cost_cons, cost_cons, cost_cons] at h
      simp only [getD_eq] at h
      linarith
  · -- move to a free column
    intro p hp j hj hfree
    have perm : M.Perm (p :: M.erase p) := List.perm_cons_erase hp
    have IM2 := isMatching_perm perm IM
    have IM' : IsMatching C ((p.1, j) :: M.erase p) := by
      refine ⟨⟨?_, ?_⟩, ?_, ?_, ?_⟩
      · simpa using IM2.oneToOne.1
      · have := IM2.oneToOne.2
        simp only [List.map_cons, List.nodup_cons] at this ⊢
        refine ⟨?_, this.2⟩
        intro hm
        obtain ⟨m, hm, hmj⟩ := List.mem_map.mp hm
        exact hfree m (List.mem_of_mem_erase hm) hmj
      · intro m hm
        simp only [List.mem_cons] at hm
        rcases hm with rfl | hm
        · exact ⟨(IM.inRange p hp).1, hj⟩
        · exact IM2.inRange m (by simp [hm])
      · simpa using IM2.saturating
      · intro m hm
        simp only [List.mem_cons] at hm
        rcases hm with rfl | hm
        · exact hv _ (IM.inRange p hp).1 _ hj
        · exact IM2.finite m (by simp [hm])
    have h := hopt _ IM'
    rw [cost_perm C perm, cost_cons, cost_cons] at h
    simp only [getD_eq] at h
    linarith
  · -- move to a free row
    intro p hp i hi hfree
    have perm : M.Perm (p :: M.erase p) := List.perm_cons_erase hp
    have IM2 := isMatching_perm perm IM
    have IM' : IsMatching C ((i, p.2) :: M.erase p) := by
      refine ⟨⟨?_, ?_⟩, ?_, ?_, ?_⟩
      · have := IM2.oneToOne.1
        simp only [List.map_cons, List.nodup_cons] at this ⊢
        refine ⟨?_, this.2⟩
        intro hm
        obtain ⟨m, hm, hmi⟩ := List.mem_map.mp hm
        exact hfree m (List.mem_of_mem_erase hm) hmi
      · simpa using IM2.oneToOne.2
      · intro m hm
        simp only [List.mem_cons] at hm
        rcases hm with rfl | hm
        · exact ⟨hi, (IM.inRange p hp).2⟩
        · exact IM2.inRange m (by simp [hm])
      · simpa using IM2.saturating
      · intro m hm
        simp only [List.mem_cons] at hm
        rcases hm with rfl | hm
        · exact hv _ hi _ (IM.inRange p hp).2
        · exact IM2.finite m (by simp [hm])
    have h := hopt _ IM'
    rw [cost_perm C perm, cost_cons, cost_cons] at h
    simp only [getD_eq] at h
    linarith

theorem lsaStable_of_spec {lsa : Lsa K} {C : Mat (Option K)} {M : List (Nat × Nat)} (hv : ValidIn C)
    (S : LsaSpecOn lsa C) (h : lsa C = some M) :
    LsaStable (scoreOf C) (nRows C) (nCols C) M ∧ ∀ p ∈ M, p.1 < nRows C ∧ p.2 < nCols C :=
  ⟨lsaStable_of_optimal hv (S.sound M h).1 (S.sound M h).2, (S.sound M h).1.inRange⟩

end bridge

end SleapVerif.BottomUp
