import SleapVerif.Lemmas.ArchTable
/-! ConvNeXt / Swin-T tables: `decide +kernel` over the certified rows. -/
namespace SleapVerif.Arch
theorem tableWrap_convnext_0 : tableWrap .convnext 0 = true := by decide +kernel
theorem tableWrap_convnext_1 : tableWrap .convnext 1 = true := by decide +kernel
theorem tableWrap_convnext_2 : tableWrap .convnext 2 = true := by decide +kernel
theorem tableWrap_convnext_3 : tableWrap .convnext 3 = true := by decide +kernel
theorem tableWrap_swint_0 : tableWrap .swint 0 = true := by decide +kernel
theorem tableWrap_swint_1 : tableWrap .swint 1 = true := by decide +kernel
theorem tableWrap_swint_2 : tableWrap .swint 2 = true := by decide +kernel
end SleapVerif.Arch
