import SleapVerif.Lemmas.TrackerIdentity
import Mathlib.Algebra.Order.BigOperators.Group.List
import Mathlib.Data.List.Dedup
import Mathlib.Data.List.Perm.Subperm
import Mathlib.Data.List.Sublists
import Mathlib.Data.List.Permutation
import Mathlib.Data.Finset.Max
/-!
# Hungarian matcher: optimum uniqueness under row + column dominance (C10)

Termwise argument, no exchange: when the identity edges cover every row (resp. every column) a
full-size assignment uses every row (resp. column) exactly once, each of its edges costs at least
the identity edge of the same row (resp. column) — strictly more when it differs — so a
minimum-total-cost assignment is the identity assignment.
-/
set_option linter.unusedSectionVars false
namespace SleapVerif.Tracker

section sums
variable {R : Type} [Field R] [LinearOrder R] [IsStrictOrderedRing R] {α : Type}

/-- termwise `g ≤ f` and `Σ f ≤ Σ g` force termwise equality -/
theorem sum_map_eq_of_le (L : List α) (f g : α → R) (hle : ∀ p ∈ L, g p ≤ f p)
    (hsum : (L.map f).sum ≤ (L.map g).sum) : ∀ p ∈ L, f p = g p := by
  induction L with
  | nil => intro p hp; simp at hp
  | cons a t ih =>
    have ha : g a ≤ f a := hle a (by simp)
    have ht : ∀ p ∈ t, g p ≤ f p := fun p hp => hle p (List.mem_cons_of_mem _ hp)
    have htsum : (t.map g).sum ≤ (t.map f).sum := List.sum_le_sum (fun p hp => ht p hp)
    simp only [List.map_cons, List.sum_cons] at hsum
    have e1 : f a = g a := le_antisymm (by linarith) ha
    have e2 : (t.map f).sum ≤ (t.map g).sum := by linarith
    intro p hp
    rcases List.mem_cons.1 hp with h | h
    · rw [h]; exact e1
    · exact ih ht e2 p h

/-- **abstract core**: `L` and `I` use the same keys (rows, or columns) once each; every `I`-edge is
    strictly cheaper than any other `L`-edge with its key; `L` is no more expensive than `I`.
    Then `L` and `I` have the same elements. -/
theorem same_of_keyed_dominance (w : Nat × Nat → R) (key : Nat × Nat → Nat)
    (L I : List (Nat × Nat)) (hIk : (I.map key).Nodup)
    (hperm : (L.map key).Perm (I.map key))
    (hdom : ∀ e ∈ I, ∀ p ∈ L, key p = key e → p ≠ e → w e < w p)
    (hopt : (L.map w).sum ≤ (I.map w).sum) : ∀ p, p ∈ L ↔ p ∈ I := by
  -- the cost of the `I`-edge with a given key
  let ownW : Nat → R := fun k => ((I.find? (fun e => key e == k)).map w).getD 0
  have hown : ∀ e ∈ I, ownW (key e) = w e := by
    intro e he
    have hsome : (I.find? (fun x => key x == key e)).isSome = true := by
      rw [List.find?_isSome]; exact ⟨e, he, by simp⟩
    obtain ⟨x, hx⟩ := Option.isSome_iff_exists.1 hsome
    have hxI : x ∈ I := List.mem_of_find?_eq_some hx
    have hxk : key x = key e := by simpa using List.find?_some hx
    have : x = e := List.inj_on_of_nodup_map hIk hxI he hxk
    simp only [ownW, hx, Option.map_some, Option.getD_some, this]
  have hkeyI : ∀ p ∈ L, ∃ e ∈ I, key e = key p := by
    intro p hp
    have : key p ∈ I.map key := hperm.subset (List.mem_map.2 ⟨p, hp, rfl⟩)
    obtain ⟨e, he, hk⟩ := List.mem_map.1 this
    exact ⟨e, he, hk⟩
  have hle : ∀ p ∈ L, ownW (key p) ≤ w p := by
    intro p hp
    obtain ⟨e, he, hk⟩ := hkeyI p hp
    rw [← hk, hown e he]
    by_cases hpe : p = e
    · rw [hpe]
    · exact le_of_lt (hdom e he p hp hk.symm hpe)
  have hsumI : (I.map w).sum = (L.map (fun p => ownW (key p))).sum := by
    have h1 : (I.map w).sum = ((I.map key).map ownW).sum := by
      rw [List.map_map]
      congr 1
      apply List.map_congr_left
      intro e he
      exact (hown e he).symm
    have h2 : ((L.map key).map ownW).sum = ((I.map key).map ownW).sum :=
      List.Perm.sum_eq (hperm.map ownW)
    rw [h1, ← h2, List.map_map]; rfl
  have heq := sum_map_eq_of_le L w (fun p => ownW (key p)) hle (by rw [← hsumI]; exact hopt)
  have hLI : ∀ p ∈ L, p ∈ I := by
    intro p hp
    obtain ⟨e, he, hk⟩ := hkeyI p hp
    by_cases hpe : p = e
    · rw [hpe]; exact he
    · have h1 := hdom e he p hp hk.symm hpe
      have h2 := heq p hp
      rw [← hk, hown e he] at h2
      exact absurd h1 (by rw [h2]; exact lt_irrefl _)
  intro p
  constructor
  · exact hLI p
  · intro hpI
    have : key p ∈ L.map key := hperm.symm.subset (List.mem_map.2 ⟨p, hpI, rfl⟩)
    obtain ⟨q, hq, hk⟩ := List.mem_map.1 this
    have : q = p := List.inj_on_of_nodup_map hIk (hLI q hq) hpI hk
    rw [← this]; exact hq

end sums

section hungarian
variable {R : Type} [Field R] [LinearOrder R] [IsStrictOrderedRing R]

/-- finite entry of a cost matrix (0 outside / for `none`) -/
def entryR (M : List (List (Option R))) (p : Nat × Nat) : R := ((M.getD p.1 []).getD p.2 none).getD 0

/-- total cost of an assignment -/
def sumCost (M : List (List (Option R))) (ms : List (Nat × Nat)) : R := (ms.map (entryR M)).sum

/-- scipy's documented contract on finite matrices: among the one-to-one assignments of full size
    `min n k`, the returned one has minimum total cost (validated by brute force per recorded call) -/
def LsaOptimal (ext : Ext R) : Prop :=
  ∀ (M : List (List (Option R))) (k : Nat), (∀ row ∈ M, row.length = k) →
    (∀ row ∈ M, ∀ o ∈ row, o ≠ none) →
    ∀ ms', MatchValid M.length k ms' → ms'.length = min M.length k →
      sumCost M (ext.lsa M) ≤ sumCost M ms'

omit [LinearOrder R] [IsStrictOrderedRing R] in
theorem entry_eq_coe (M : List (List (Option R))) (k : Nat) (hrect : ∀ row ∈ M, row.length = k)
    (hsome : ∀ row ∈ M, ∀ o ∈ row, o ≠ none) (p : Nat × Nat) (h1 : p.1 < M.length) (h2 : p.2 < k) :
    entry M p = ((entryR M p : R) : WithTop R) := by
  have hrow : M[p.1] ∈ M := List.getElem_mem _
  have hlen : p.2 < (M[p.1]).length := by rw [hrect _ hrow]; exact h2
  have hne := hsome _ hrow (M[p.1])[p.2] (List.getElem_mem _)
  unfold entry entryR
  simp only [List.getD_eq_getElem?_getD, List.getElem?_eq_getElem h1, Option.getD_some,
    List.getElem?_eq_getElem hlen]
  cases h : (M[p.1])[p.2] with
  | none => exact absurd h hne
  | some x => rfl

/-- a duplicate-free list of naturals below `n` of length `n` is a permutation of `range n` -/
theorem perm_range_of_nodup {l : List Nat} {n : Nat} (hnd : l.Nodup) (hlt : ∀ a ∈ l, a < n)
    (hlen : n ≤ l.length) : l.Perm (List.range n) := by
  have hsub : l ⊆ List.range n := fun a ha => List.mem_range.2 (hlt a ha)
  exact (List.subperm_of_subset hnd hsub).perm_of_length_le (by simpa using hlen)

theorem length_le_of_nodup_lt {l : List Nat} {n : Nat} (hnd : l.Nodup) (hlt : ∀ a ∈ l, a < n) :
    l.length ≤ n := by
  have hsub : l ⊆ List.range n := fun a ha => List.mem_range.2 (hlt a ha)
  simpa using (List.subperm_of_subset hnd hsub).length_le

/-- **hungarian_picks_identity**: a solver satisfying scipy's contract (`ExtOk`: full-size,
    one-to-one, in bounds; `LsaOptimal`: minimum total cost) returns exactly the identity edges on a
    finite matrix in which they are row- and column-dominant and touch every edge. -/
theorem hungarian_picks_identity' {ext : Ext R} (hext : ExtOk ext) (hopt : LsaOptimal ext) :
    LsaPicksIdentity ext := by
  intro m cost ident hne hrect hsome hb hdom hcov
  classical
  obtain ⟨hv, hlenL⟩ := hext.lsa cost m hrect hsome
  set L := ext.lsa cost with hL
  set n := cost.length with hn
  have hnpos : 0 < n := List.length_pos_iff.2 hne
  -- the identity edges without repetitions
  let I := ident.dedup
  have hI : ∀ p, p ∈ I ↔ p ∈ ident := fun p => List.mem_dedup
  have hInd : I.Nodup := List.nodup_dedup _
  have hbI : ∀ e ∈ I, e.1 < n ∧ e.2 < m := fun e he => hb e ((hI e).1 he)
  have hlt : ∀ e ∈ I, ∀ g : Nat × Nat, g.1 < n → g.2 < m → g ≠ e → (g.1 = e.1 ∨ g.2 = e.2) →
      entryR cost e < entryR cost g := by
    intro e he g hg1 hg2 hge hrc
    have := hdom e ((hI e).1 he) g hg1 hg2 hge hrc
    rw [entry_eq_coe cost m hrect hsome e (hbI e he).1 (hbI e he).2,
      entry_eq_coe cost m hrect hsome g hg1 hg2] at this
    exact WithTop.coe_lt_coe.1 this
  have hIrows : (I.map (·.1)).Nodup := by
    refine List.Nodup.map_on ?_ hInd
    intro x hx y hy hxy
    by_contra hne'
    have h1 := hlt x hx y (hbI y hy).1 (hbI y hy).2 (fun h => hne' h.symm) (Or.inl hxy.symm)
    have h2 := hlt y hy x (hbI x hx).1 (hbI x hx).2 hne' (Or.inl hxy)
    exact absurd h1 (not_lt.2 h2.le)
  have hIcols : (I.map (·.2)).Nodup := by
    refine List.Nodup.map_on ?_ hInd
    intro x hx y hy hxy
    by_contra hne'
    have h1 := hlt x hx y (hbI y hy).1 (hbI y hy).2 (fun h => hne' h.symm) (Or.inr hxy.symm)
    have h2 := hlt y hy x (hbI x hx).1 (hbI x hx).2 hne' (Or.inr hxy)
    exact absurd h1 (not_lt.2 h2.le)
  have hIvalid : MatchValid n m I := ⟨hIrows, hIcols, hbI⟩
  have hIlen_n : I.length ≤ n := by
    have := length_le_of_nodup_lt hIrows (fun a ha => by
      obtain ⟨e, he, rfl⟩ := List.mem_map.1 ha; exact (hbI e he).1)
    simpa using this
  have hIlen_m : I.length ≤ m := by
    have := length_le_of_nodup_lt hIcols (fun a ha => by
      obtain ⟨e, he, rfl⟩ := List.mem_map.1 ha; exact (hbI e he).2)
    simpa using this
  -- either every row or every column carries an identity edge
  have hcases : (∀ r, r < n → ∃ e ∈ I, e.1 = r) ∨ (∀ c, c < m → ∃ e ∈ I, e.2 = c) := by
    by_contra hcon
    rw [not_or] at hcon
    obtain ⟨h1, h2⟩ := hcon
    rw [not_forall] at h1 h2
    obtain ⟨r, hr⟩ := h1
    obtain ⟨c, hc⟩ := h2
    rw [Classical.not_imp] at hr hc
    obtain ⟨e, he, hrc⟩ := hcov (r, c) hr.1 hc.1
    rcases hrc with h | h
    · exact hr.2 ⟨e, (hI e).2 he, h⟩
    · exact hc.2 ⟨e, (hI e).2 he, h⟩
  have hfinal : ∀ p, p ∈ L ↔ p ∈ I := by
    rcases hcases with hrows | hcols
    · -- rows saturate
      have hIperm : (I.map (·.1)).Perm (List.range n) :=
        perm_range_of_nodup hIrows (fun a ha => by
          obtain ⟨e, he, rfl⟩ := List.mem_map.1 ha; exact (hbI e he).1)
          (by
            have hsub : List.range n ⊆ I.map (·.1) := fun r hr => by
              obtain ⟨e, he, h⟩ := hrows r (List.mem_range.1 hr)
              exact List.mem_map.2 ⟨e, he, h⟩
            have := (List.subperm_of_subset List.nodup_range hsub).length_le
            simpa using this)
      have hIn : I.length = n := by simpa using hIperm.length_eq
      have hnm : n ≤ m := by omega
      have hLlen : L.length = n := by rw [hlenL]; exact Nat.min_eq_left hnm
      have hLperm : (L.map (·.1)).Perm (List.range n) :=
        perm_range_of_nodup hv.rows (fun a ha => by
          obtain ⟨p, hp, rfl⟩ := List.mem_map.1 ha; exact (hv.bounds p hp).1) (by simp [hLlen])
      have hoptI : sumCost cost L ≤ sumCost cost I :=
        hopt cost m hrect hsome I hIvalid (by rw [hIn]; exact (Nat.min_eq_left hnm).symm)
      exact same_of_keyed_dominance (entryR cost) (·.1) L I hIrows (hLperm.trans hIperm.symm)
        (fun e he p hp hk hpe => hlt e he p (hv.bounds p hp).1 (hv.bounds p hp).2 hpe (Or.inl hk))
        hoptI
    · -- columns saturate
      have hIperm : (I.map (·.2)).Perm (List.range m) :=
        perm_range_of_nodup hIcols (fun a ha => by
          obtain ⟨e, he, rfl⟩ := List.mem_map.1 ha; exact (hbI e he).2)
          (by
            have hsub : List.range m ⊆ I.map (·.2) := fun c hc => by
              obtain ⟨e, he, h⟩ := hcols c (List.mem_range.1 hc)
              exact List.mem_map.2 ⟨e, he, h⟩
            have := (List.subperm_of_subset List.nodup_range hsub).length_le
            simpa using this)
      have hIm : I.length = m := by simpa using hIperm.length_eq
      have hmn : m ≤ n := by omega
      have hLlen : L.length = m := by rw [hlenL]; exact Nat.min_eq_right hmn
      have hLperm : (L.map (·.2)).Perm (List.range m) :=
        perm_range_of_nodup hv.cols (fun a ha => by
          obtain ⟨p, hp, rfl⟩ := List.mem_map.1 ha; exact (hv.bounds p hp).2) (by simp [hLlen])
      have hoptI : sumCost cost L ≤ sumCost cost I :=
        hopt cost m hrect hsome I hIvalid (by rw [hIm]; exact (Nat.min_eq_right hmn).symm)
      exact same_of_keyed_dominance (entryR cost) (·.2) L I hIcols (hLperm.trans hIperm.symm)
        (fun e he p hp hk hpe => hlt e he p (hv.bounds p hp).1 (hv.bounds p hp).2 hpe (Or.inr hk))
        hoptI
  intro p
  exact (hfinal p).trans (hI p)

end hungarian


/-! ## a solver satisfying scipy's contract exists (brute force over all assignments) -/

section lsaWitness
variable {R : Type} [Field R] [LinearOrder R] [IsStrictOrderedRing R]
open Classical

/-- all index pairs of an `n × k` matrix -/
def pairsOf (n k : Nat) : List (Nat × Nat) :=
  (List.range n).flatMap fun i => (List.range k).map fun j => (i, j)

/-- every arrangement of every sub-collection of index pairs -/
def candidates (n k : Nat) : List (List (Nat × Nat)) :=
  (pairsOf n k).sublists.flatMap List.permutations

theorem mem_candidates {n k : Nat} {ms : List (Nat × Nat)} (hv : MatchValid n k ms) :
    ms ∈ candidates n k := by
  have hnd : ms.Nodup := List.Nodup.of_map _ hv.rows
  have hsub : ms ⊆ pairsOf n k := by
    intro p hp
    simp only [pairsOf, List.mem_flatMap, List.mem_range, List.mem_map]
    exact ⟨p.1, (hv.bounds p hp).1, p.2, (hv.bounds p hp).2, rfl⟩
  obtain ⟨l, hperm, hsl⟩ := List.subperm_of_subset hnd hsub
  simp only [candidates, List.mem_flatMap]
  exact ⟨l, List.mem_sublists.2 hsl, List.mem_permutations.2 hperm.symm⟩

def diagAssign (n k : Nat) : List (Nat × Nat) := (List.range (min n k)).map fun i => (i, i)

theorem diagAssign_valid (n k : Nat) :
    MatchValid n k (diagAssign n k) ∧ (diagAssign n k).length = min n k := by
  refine ⟨⟨?_, ?_, ?_⟩, by simp [diagAssign]⟩
  · simpa [diagAssign, List.map_map, Function.comp_def] using List.nodup_range
  · simpa [diagAssign, List.map_map, Function.comp_def] using List.nodup_range
  · intro p hp
    simp only [diagAssign, List.mem_map, List.mem_range] at hp
    obtain ⟨i, hi, rfl⟩ := hp
    exact ⟨by simp only; omega, by simp only; omega⟩

/-- the full-size one-to-one assignments of an `n × k` matrix, as a finite set -/
noncomputable def feasibleSet (n k : Nat) : Finset (List (Nat × Nat)) :=
  ((candidates n k).filter (fun ms => decide (MatchValid n k ms ∧ ms.length = min n k))).toFinset

theorem mem_feasibleSet {n k : Nat} {ms : List (Nat × Nat)} :
    ms ∈ feasibleSet n k ↔ MatchValid n k ms ∧ ms.length = min n k := by
  simp only [feasibleSet, List.mem_toFinset, List.mem_filter, decide_eq_true_eq]
  exact ⟨fun h => h.2, fun h => ⟨mem_candidates h.1, h⟩⟩

theorem feasibleSet_nonempty (n k : Nat) : (feasibleSet n k).Nonempty :=
  ⟨diagAssign n k, mem_feasibleSet.2 (diagAssign_valid n k)⟩

/-- brute-force `linear_sum_assignment`: a minimiser of the total cost over all full-size
    one-to-one assignments (exists because the set is finite and non-empty) -/
noncomputable def bruteLsa (M : List (List (Option R))) : List (Nat × Nat) :=
  Classical.choose (Finset.exists_min_image (feasibleSet M.length (M.headD []).length) (sumCost M)
    (feasibleSet_nonempty _ _))

theorem bruteLsa_spec (M : List (List (Option R))) :
    bruteLsa M ∈ feasibleSet M.length (M.headD []).length ∧
    ∀ x ∈ feasibleSet M.length (M.headD []).length, sumCost M (bruteLsa M) ≤ sumCost M x :=
  Classical.choose_spec (Finset.exists_min_image (feasibleSet M.length (M.headD []).length) (sumCost M)
    (feasibleSet_nonempty _ _))

theorem headD_length_of_rect (M : List (List (Option R))) (k : Nat) (h : ∀ row ∈ M, row.length = k)
    (hne : M ≠ []) : (M.headD []).length = k := by
  cases M with
  | nil => exact absurd rfl hne
  | cons r rs => simpa using h r (by simp)

/-- `bruteLsa` meets the `lsa` part of `ExtOk` -/
theorem bruteLsa_valid (M : List (List (Option R))) (k : Nat) (h : ∀ row ∈ M, row.length = k) :
    MatchValid M.length k (bruteLsa M) ∧ (bruteLsa M).length = min M.length k := by
  obtain ⟨hv, hl⟩ := mem_feasibleSet.1 (bruteLsa_spec M).1
  by_cases hne : M = []
  · subst hne
    have hnil : bruteLsa ([] : List (List (Option R))) = [] := by
      cases hb : bruteLsa ([] : List (List (Option R))) with
      | nil => rfl
      | cons p ps => rw [hb] at hv; exact absurd (hv.bounds p (by simp)).1 (by simp)
    rw [hnil]
    exact ⟨⟨by simp, by simp, by simp⟩, by simp⟩
  · rw [headD_length_of_rect M k h hne] at hv hl
    exact ⟨hv, hl⟩

/-- `bruteLsa` is optimal in the sense of `LsaOptimal` -/
theorem bruteLsa_optimal (M : List (List (Option R))) (k : Nat) (h : ∀ row ∈ M, row.length = k)
    (ms' : List (Nat × Nat)) (hv : MatchValid M.length k ms') (hl : ms'.length = min M.length k) :
    sumCost M (bruteLsa M) ≤ sumCost M ms' := by
  by_cases hne : M = []
  · subst hne
    have h1 := (bruteLsa_valid ([] : List (List (Option R))) k h).2
    have e1 : bruteLsa ([] : List (List (Option R))) = [] := List.length_eq_zero_iff.1 (by simpa using h1)
    have e2 : ms' = [] := List.length_eq_zero_iff.1 (by simpa using hl)
    rw [e1, e2]
  · apply (bruteLsa_spec M).2
    rw [headD_length_of_rect M k h hne]
    exact mem_feasibleSet.2 ⟨hv, hl⟩

end lsaWitness

end SleapVerif.Tracker
