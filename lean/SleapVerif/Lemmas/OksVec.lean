import SleapVerif.Lemmas.Oks

/-! Cauchy–Schwarz and the triangle inequality over lists in an ordered field with a lawful `sqrt`
(for `compute_cosine_sim` / `compute_euclidean_distance`, C15; used by C10's bridging argument). -/
set_option linter.unusedSectionVars false
set_option linter.unusedVariables false
namespace SleapVerif.Oks

variable {R : Type} [Field R] [LinearOrder R] [IsStrictOrderedRing R]

theorem dot_nil_left (b : List R) : dot ([] : List R) b = 0 := by simp [dot, sumR]
theorem dot_nil_right (a : List R) : dot a ([] : List R) = 0 := by simp [dot, sumR]
theorem dot_cons (x y : R) (a b : List R) : dot (x :: a) (y :: b) = x * y + dot a b := rfl

theorem dot_comm : ∀ a b : List R, dot a b = dot b a
  | [], b => by rw [dot_nil_left, dot_nil_right]
  | _ :: _, [] => by rw [dot_nil_left, dot_nil_right]
  | x :: a, y :: b => by rw [dot_cons, dot_cons, dot_comm a b, mul_comm]

theorem dot_self_nonneg : ∀ a : List R, 0 ≤ dot a a
  | [] => by rw [dot_nil_left]
  | x :: a => by rw [dot_cons]; exact add_nonneg (mul_self_nonneg x) (dot_self_nonneg a)

theorem dot_self_eq_zero : ∀ a : List R, dot a a = 0 → ∀ x ∈ a, x = 0
  | [], _, x, hx => by simp at hx
  | y :: a, h, x, hx => by
    rw [dot_cons] at h
    have h' := (add_eq_zero_iff_of_nonneg (mul_self_nonneg y) (dot_self_nonneg a)).mp h
    rcases List.mem_cons.mp hx with rfl | hx'
    · exact mul_self_eq_zero.mp h'.1
    · exact dot_self_eq_zero a h'.2 x hx'

/-- the scalar step of Cauchy–Schwarz -/
theorem cs_step (x y S A B : R) (hA : 0 ≤ A) (hB : 0 ≤ B) (h : S * S ≤ A * B) :
    2 * (x * y * S) ≤ x * x * B + A * (y * y) := by
  rcases hA.eq_or_lt with hA0 | hApos
  · subst hA0
    have hS : S = 0 := by
      have : S * S ≤ 0 := by simpa using h
      exact mul_self_eq_zero.mp (le_antisymm this (mul_self_nonneg S))
    subst hS
    have := mul_nonneg (mul_self_nonneg x) hB
    simpa using this
  · have h1 : 0 ≤ (A * y - x * S) * (A * y - x * S) := mul_self_nonneg _
    have h2 : x * x * (S * S) ≤ x * x * (A * B) := mul_le_mul_of_nonneg_left h (mul_self_nonneg x)
    have h3 : A * (2 * (x * y * S)) ≤ A * (x * x * B + A * (y * y)) := by nlinarith
    exact le_of_mul_le_mul_left h3 hApos

/-- **Cauchy–Schwarz** for lists (of any two lengths: `zipWith` truncates the product) -/
theorem dot_sq_le : ∀ a b : List R, dot a b * dot a b ≤ dot a a * dot b b
  | [], b => by rw [dot_nil_left, dot_nil_left]; simp
  | x :: a, [] => by rw [dot_nil_right, dot_nil_right]; simp
  | x :: a, y :: b => by
    have ih := dot_sq_le a b
    have hA := dot_self_nonneg a
    have hB := dot_self_nonneg b
    have hs := cs_step x y (dot a b) (dot a a) (dot b b) hA hB ih
    rw [dot_cons, dot_cons, dot_cons]
    nlinarith [mul_self_nonneg (x * y)]

variable (T : Transc R)

/-- `‖a‖ = sqrt (a·a)` -/
def norm' (a : List R) : R := T.sqrt (dot a a)

theorem norm'_nonneg (a : List R) : 0 ≤ norm' T a := T.sqrt_nonneg _

theorem norm'_sq (a : List R) : norm' T a * norm' T a = dot a a := T.sq_sqrt _ (dot_self_nonneg a)

theorem abs_dot_le (a b : List R) : |dot a b| ≤ norm' T a * norm' T b := by
  apply abs_le_of_sq_le_sq _ (mul_nonneg (norm'_nonneg T a) (norm'_nonneg T b))
  have : (norm' T a * norm' T b) ^ 2 = dot a a * dot b b := by
    rw [pow_two, mul_mul_mul_comm, norm'_sq, norm'_sq]
  rw [this, pow_two]
  exact dot_sq_le a b

/-! ### vectors of equal length -/

def vsub (a b : List R) : List R := List.zipWith (fun x y => x - y) a b
def vadd (a b : List R) : List R := List.zipWith (· + ·) a b

theorem negEuclid_eq (a b : List R) : negEuclid T.sqrt a b = -(norm' T (vsub a b)) := by
  unfold negEuclid norm' vsub dot
  congr 2
  induction a generalizing b with
  | nil => simp
  | cons x a ih =>
    cases b with
    | nil => simp
    | cons y b => simp only [List.zipWith_cons_cons]; unfold sumR; simp only [List.foldr_cons]; congr 1; exact ih b

theorem vsub_eq_vadd : ∀ a b c : List R, a.length = b.length → b.length = c.length →
    vsub a c = vadd (vsub a b) (vsub b c)
  | [], [], [], _, _ => rfl
  | x :: a, y :: b, z :: c, h1, h2 => by
    have ih := vsub_eq_vadd a b c (by simpa using h1) (by simpa using h2)
    simp only [vsub, vadd, List.zipWith_cons_cons] at ih ⊢
    rw [ih]
    congr 1; ring
  | [], _ :: _, _, h1, _ => by simp at h1
  | _ :: _, [], _, h1, _ => by simp at h1
  | _ :: _, _ :: _, [], _, h2 => by simp at h2
  | [], [], _ :: _, _, h2 => by simp at h2

theorem dot_vadd_self : ∀ u v : List R, u.length = v.length →
    dot (vadd u v) (vadd u v) = dot u u + 2 * dot u v + dot v v
  | [], [], _ => by simp [vadd, dot, sumR]
  | x :: u, y :: v, h => by
    have ih := dot_vadd_self u v (by simpa using h)
    simp only [vadd, List.zipWith_cons_cons] at ih ⊢
    rw [dot_cons, dot_cons, dot_cons, dot_cons, ih]; ring
  | [], _ :: _, h => by simp at h
  | _ :: _, [], h => by simp at h

/-- Minkowski: `‖u + v‖ ≤ ‖u‖ + ‖v‖` -/
theorem norm'_vadd_le (u v : List R) (h : u.length = v.length) :
    norm' T (vadd u v) ≤ norm' T u + norm' T v := by
  have hsum : 0 ≤ norm' T u + norm' T v := add_nonneg (norm'_nonneg T u) (norm'_nonneg T v)
  have h1 : dot (vadd u v) (vadd u v) ≤ (norm' T u + norm' T v) * (norm' T u + norm' T v) := by
    rw [dot_vadd_self u v h]
    have := (abs_le.mp (abs_dot_le T u v)).2
    have e : (norm' T u + norm' T v) * (norm' T u + norm' T v) =
        dot u u + 2 * (norm' T u * norm' T v) + dot v v := by
      rw [← norm'_sq T u, ← norm'_sq T v]; ring
    rw [e]; linarith
  have := T.sqrt_mono _ _ h1
  rwa [T.sqrt_sq_of_nonneg hsum] at this

theorem vsub_self_zero_iff : ∀ a b : List R, a.length = b.length →
    ((∀ x ∈ vsub a b, x = 0) ↔ a = b)
  | [], [], _ => by simp [vsub]
  | x :: a, y :: b, h => by
    have ih := vsub_self_zero_iff a b (by simpa using h)
    simp only [vsub, List.zipWith_cons_cons, List.mem_cons, forall_eq_or_imp, List.cons.injEq] at ih ⊢
    rw [ih, sub_eq_zero]
  | [], _ :: _, h => by simp at h
  | _ :: _, [], h => by simp at h

theorem dot_vsub_comm : ∀ a b : List R, dot (vsub a b) (vsub a b) = dot (vsub b a) (vsub b a)
  | [], b => by simp [vsub, dot_nil_left]
  | _ :: _, [] => by simp [vsub, dot_nil_left]
  | x :: a, y :: b => by
    have ih := dot_vsub_comm a b
    simp only [vsub, List.zipWith_cons_cons] at ih ⊢
    rw [dot_cons, dot_cons, ih]; ring

end SleapVerif.Oks
