import SleapVerif.Model.Oks

/-! Helper lemmas for C15 (combinatorial part: `match_instances`, `greedy_matching`).
No order laws are needed: the statements hold for any carrier with a decidable `<`. -/
namespace SleapVerif.Oks

variable {R : Type} [LT R] [DecidableLT R]

/-! ### sorting -/

theorem insDesc_perm {α : Type} (sc : α → R) (x : α) : ∀ l : List α, (insDesc sc x l).Perm (x :: l)
  | [] => List.Perm.refl _
  | y :: t => by
    unfold insDesc
    split
    · exact ((insDesc_perm sc x t).cons y).trans (List.Perm.swap x y t)
    · exact List.Perm.refl _

theorem sortDesc_perm {α : Type} (sc : α → R) : ∀ l : List α, (sortDesc sc l).Perm l
  | [] => List.Perm.refl _
  | x :: t => by
    show (insDesc sc x (sortDesc sc t)).Perm (x :: t)
    exact (insDesc_perm sc x _).trans ((sortDesc_perm sc t).cons x)

/-! ### `best` -/

theorem bestGo_spec (thr : R) : ∀ (l : List (Option R)) (i : Nat) (b : Option (Nat × R)) (k : Nat) (v : R),
    bestGo thr i b l = some (k, v) →
      b = some (k, v) ∨ ∃ j, k = i + j ∧ l[j]? = some (some v) ∧ thr < v
  | [], i, b, k, v, h => Or.inl (by simpa [bestGo] using h)
  | none :: t, i, b, k, v, h => by
    simp only [bestGo] at h
    rcases bestGo_spec thr t (i + 1) b k v h with h1 | ⟨j, hk, hj, hv⟩
    · exact Or.inl h1
    · exact Or.inr ⟨j + 1, by omega, by simpa using hj, hv⟩
  | some w :: t, i, b, k, v, h => by
    simp only [bestGo] at h
    have shift : (∃ j, k = i + 1 + j ∧ t[j]? = some (some v) ∧ thr < v) →
        ∃ j, k = i + j ∧ (some w :: t)[j]? = some (some v) ∧ thr < v := by
      rintro ⟨j, hk, hj, hv⟩
      exact ⟨j + 1, by omega, by simpa using hj, hv⟩
    by_cases hw : thr < w
    · rw [if_pos hw] at h
      cases b with
      | none =>
        simp only at h
        rcases bestGo_spec thr t (i + 1) _ k v h with h1 | h2
        · have : i = k ∧ w = v := by simpa using h1
          exact Or.inr ⟨0, by omega, by simp [this.2], this.2 ▸ hw⟩
        · exact Or.inr (shift h2)
      | some jw =>
        obtain ⟨j0, w0⟩ := jw
        simp only at h
        by_cases hlt : w0 < w
        · rw [if_pos hlt] at h
          rcases bestGo_spec thr t (i + 1) _ k v h with h1 | h2
          · have : i = k ∧ w = v := by simpa using h1
            exact Or.inr ⟨0, by omega, by simp [this.2], this.2 ▸ hw⟩
          · exact Or.inr (shift h2)
        · rw [if_neg hlt] at h
          rcases bestGo_spec thr t (i + 1) _ k v h with h1 | h2
          · exact Or.inl h1
          · exact Or.inr (shift h2)
    · rw [if_neg hw] at h
      rcases bestGo_spec thr t (i + 1) b k v h with h1 | h2
      · exact Or.inl h1
      · exact Or.inr (shift h2)

/-- the chosen index is in range, holds the reported value, and that value exceeds the threshold -/
theorem best_spec (thr : R) (l : List (Option R)) (k : Nat) (v : R) (h : best thr l = some (k, v)) :
    l[k]? = some (some v) ∧ thr < v := by
  rcases bestGo_spec thr l 0 none k v h with h1 | ⟨j, hk, hj, hv⟩
  · cases h1
  · have : k = j := by omega
    subst this; exact ⟨hj, hv⟩

/-! ### the matching loop -/

theorem cons_eraseIdx_perm {α : Type} : ∀ (l : List α) (i : Nat) (g : α), l[i]? = some g →
    (g :: l.eraseIdx i).Perm l
  | [], i, g, h => by simp at h
  | a :: t, 0, g, h => by
    have : a = g := by simpa using h
    subst this; exact List.Perm.refl _
  | a :: t, i + 1, g, h => by
    have h' : t[i]? = some g := by simpa using h
    have ih := cons_eraseIdx_perm t i g h'
    show (g :: a :: t.eraseIdx i).Perm (a :: t)
    exact (List.Perm.swap a g _).trans (ih.cons a)

variable {G P : Type}

/-- one unfolding step of `matchLoop`, as an explicit case analysis -/
theorem matchLoop_cons (oks : G → P → Option R) (thr : R) (p : P) (ps : List P) (a : G) (as : List G) :
    matchLoop oks thr (p :: ps) (a :: as) =
      match best thr ((a :: as).map (fun g => oks g p)) with
      | none => matchLoop oks thr ps (a :: as)
      | some (i, v) =>
        match (a :: as)[i]? with
        | none => matchLoop oks thr ps (a :: as)
        | some g => ((g, p, v) :: (matchLoop oks thr ps ((a :: as).eraseIdx i)).1,
                      (matchLoop oks thr ps ((a :: as).eraseIdx i)).2) := by
  rw [matchLoop]; rfl

/-- **conservation** (loop level): matched gt followed by the leftover pool is a permutation of
the pool the loop started with -/
theorem matchLoop_perm (oks : G → P → Option R) (thr : R) : ∀ (ps : List P) (avail : List G),
    ((matchLoop oks thr ps avail).1.map (·.1) ++ (matchLoop oks thr ps avail).2).Perm avail
  | [], avail => by simp [matchLoop]
  | p :: ps, [] => by simp [matchLoop]
  | p :: ps, a :: as => by
    rw [matchLoop_cons]
    cases hb : best thr ((a :: as).map (fun g => oks g p)) with
    | none => exact matchLoop_perm oks thr ps (a :: as)
    | some iv =>
      obtain ⟨i, v⟩ := iv
      dsimp only
      cases hg : (a :: as)[i]? with
      | none => exact matchLoop_perm oks thr ps (a :: as)
      | some g =>
        have ih := matchLoop_perm oks thr ps ((a :: as).eraseIdx i)
        dsimp only
        simp only [List.map_cons, List.cons_append]
        exact (ih.cons g).trans (cons_eraseIdx_perm _ i g hg)

/-- the matched predictions, in match order, form a sublist of the (sorted) prediction list -/
theorem matchLoop_pred_sublist (oks : G → P → Option R) (thr : R) : ∀ (ps : List P) (avail : List G),
    ((matchLoop oks thr ps avail).1.map (·.2.1)).Sublist ps
  | [], avail => by simp [matchLoop]
  | p :: ps, [] => by simp [matchLoop]
  | p :: ps, a :: as => by
    rw [matchLoop_cons]
    cases hb : best thr ((a :: as).map (fun g => oks g p)) with
    | none => exact (matchLoop_pred_sublist oks thr ps (a :: as)).cons p
    | some iv =>
      obtain ⟨i, v⟩ := iv
      dsimp only
      cases hg : (a :: as)[i]? with
      | none => exact (matchLoop_pred_sublist oks thr ps (a :: as)).cons p
      | some g =>
        dsimp only
        simp only [List.map_cons]
        exact (matchLoop_pred_sublist oks thr ps _).cons_cons p

/-- every reported pair carries its own OKS, which exceeds the threshold; its gt comes from the
pool and its prediction from the list -/
theorem matchLoop_sound (oks : G → P → Option R) (thr : R) : ∀ (ps : List P) (avail : List G)
    (g : G) (p : P) (v : R), (g, p, v) ∈ (matchLoop oks thr ps avail).1 →
      oks g p = some v ∧ thr < v ∧ g ∈ avail ∧ p ∈ ps
  | [], avail, g, p, v, h => by simp [matchLoop] at h
  | q :: ps, [], g, p, v, h => by simp [matchLoop] at h
  | q :: ps, a :: as, g, p, v, h => by
    rw [matchLoop_cons] at h
    cases hb : best thr ((a :: as).map (fun g => oks g q)) with
    | none =>
      rw [hb] at h
      have := matchLoop_sound oks thr ps (a :: as) g p v h
      exact ⟨this.1, this.2.1, this.2.2.1, List.mem_cons_of_mem _ this.2.2.2⟩
    | some iv =>
      obtain ⟨i, w⟩ := iv
      rw [hb] at h
      dsimp only at h
      cases hg : (a :: as)[i]? with
      | none =>
        rw [hg] at h
        have := matchLoop_sound oks thr ps (a :: as) g p v h
        exact ⟨this.1, this.2.1, this.2.2.1, List.mem_cons_of_mem _ this.2.2.2⟩
      | some g0 =>
        rw [hg] at h
        dsimp only at h
        simp only [List.mem_cons] at h
        rcases h with h | h
        · have hh : g = g0 ∧ p = q ∧ v = w := by simpa using h
          obtain ⟨rfl, rfl, rfl⟩ := hh
          obtain ⟨hbv, hthr⟩ := best_spec thr _ i v hb
          have hmap : ((a :: as).map (fun g => oks g p))[i]? = ((a :: as)[i]?).map (fun g => oks g p) :=
            List.getElem?_map
          rw [hg] at hmap
          rw [hmap] at hbv
          have : oks g p = some v := by simpa using hbv
          exact ⟨this, hthr, List.mem_of_getElem? hg, List.mem_cons_self⟩
        · have := matchLoop_sound oks thr ps _ g p v h
          exact ⟨this.1, this.2.1, (List.eraseIdx_sublist _ _).subset this.2.2.1,
            List.mem_cons_of_mem _ this.2.2.2⟩

/-! ### greedy -/

def conflict (e f : Nat × Nat) : Prop := f.1 = e.1 ∨ f.2 = e.2

theorem mem_filter_noconflict {e f : Nat × Nat} {es : List (Nat × Nat)}
    (h : f ∈ es.filter (fun f => !(f.1 == e.1 || f.2 == e.2))) : f ∈ es ∧ f.1 ≠ e.1 ∧ f.2 ≠ e.2 := by
  rw [List.mem_filter] at h
  refine ⟨h.1, ?_⟩
  have := h.2
  simp only [Bool.not_eq_true', Bool.or_eq_false_iff, beq_eq_false_iff_ne] at this
  exact this

theorem greedyFuel_sublist : ∀ (k : Nat) (l : List (Nat × Nat)), (greedyFuel k l).Sublist l
  | 0, l => by simp [greedyFuel]
  | k + 1, [] => by simp [greedyFuel]
  | k + 1, e :: es => by
    simp only [greedyFuel]
    exact ((greedyFuel_sublist k _).trans List.filter_sublist).cons_cons e

theorem greedyFuel_pairwise : ∀ (k : Nat) (l : List (Nat × Nat)),
    (greedyFuel k l).Pairwise (fun e f => f.1 ≠ e.1 ∧ f.2 ≠ e.2)
  | 0, l => by simp [greedyFuel]
  | k + 1, [] => by simp [greedyFuel]
  | k + 1, e :: es => by
    simp only [greedyFuel]
    refine List.Pairwise.cons ?_ (greedyFuel_pairwise k _)
    intro f hf
    exact (mem_filter_noconflict ((greedyFuel_sublist k _).subset hf)).2

/-- with enough fuel every edge is either chosen or blocked by a chosen edge (so the loop really
ran until `unassigned_edges` was empty) -/
theorem greedyFuel_maximal : ∀ (k : Nat) (l : List (Nat × Nat)), l.length ≤ k →
    ∀ f ∈ l, ∃ e ∈ greedyFuel k l, f.1 = e.1 ∨ f.2 = e.2
  | 0, l, hk, f, hf => by
    have : l = [] := List.eq_nil_of_length_eq_zero (by omega)
    subst this; simp at hf
  | k + 1, [], _, f, hf => by simp at hf
  | k + 1, e :: es, hk, f, hf => by
    simp only [greedyFuel]
    rcases List.mem_cons.mp hf with rfl | hfes
    · exact ⟨f, List.mem_cons_self, Or.inl rfl⟩
    · by_cases hc : f.1 = e.1 ∨ f.2 = e.2
      · exact ⟨e, List.mem_cons_self, hc⟩
      · have hmem : f ∈ es.filter (fun f => !(f.1 == e.1 || f.2 == e.2)) := by
          rw [List.mem_filter]
          refine ⟨hfes, ?_⟩
          simp only [Bool.not_eq_true', Bool.or_eq_false_iff, beq_eq_false_iff_ne]
          exact ⟨fun h => hc (Or.inl h), fun h => hc (Or.inr h)⟩
        have hlen : (es.filter (fun f => !(f.1 == e.1 || f.2 == e.2))).length ≤ k := by
          have := List.length_filter_le (fun f => !(f.1 == e.1 || f.2 == e.2)) es
          simp only [List.length_cons] at hk
          omega
        obtain ⟨e', he', hc'⟩ := greedyFuel_maximal k _ hlen f hmem
        exact ⟨e', List.mem_cons_of_mem _ he', hc'⟩

theorem nodupB_sound : ∀ l : List Nat, nodupB l = true → l.Nodup
  | [], _ => List.nodup_nil
  | x :: t, h => by
    simp only [nodupB, Bool.and_eq_true, Bool.not_eq_true', List.contains_eq_mem,
      decide_eq_false_iff_not] at h
    exact List.nodup_cons.mpr ⟨h.1, nodupB_sound t h.2⟩

end SleapVerif.Oks
