import SleapVerif.Lemmas.ArchTable
/-! UNet table, filters = 24: `decide +kernel` over the certified rows (the quantifier IS the table). -/
namespace SleapVerif.Arch
theorem tableUnet_24_r1 : tableUnet 24 ⟨1, 1⟩ = true := by decide +kernel
theorem tableUnet_24_r32 : tableUnet 24 ⟨3, 2⟩ = true := by decide +kernel
theorem tableUnet_24_r2 : tableUnet 24 ⟨2, 1⟩ = true := by decide +kernel
theorem tableUnetCpb1_24 : tableUnetCpb1 24 = true := by decide +kernel
end SleapVerif.Arch
