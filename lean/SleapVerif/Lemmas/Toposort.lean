import SleapVerif.Model.Toposort
import Batteries.Data.List.Perm
/-! Helper lemmas for C17: the BFS step invariant on trees (every listing, every fuel). -/
namespace SleapVerif.Toposort

/-- a rooted tree: no edge into the root, each node has at most one incoming edge,
    no duplicate edges (reachability is only needed for completeness, not here) -/
structure TreeLike (edges : List Edge) (r : Nat) : Prop where
  nodup : edges.Nodup
  noRootIn : ∀ e ∈ edges, e.2 ≠ r
  uniqueParent : ∀ e ∈ edges, ∀ e' ∈ edges, e.2 = e'.2 → e = e'

structure BInv (edges : List Edge) (r : Nat) (s : BState) : Prop where
  vis : s.visited = r :: s.out.map (·.2)
  nodupV : s.visited.Nodup
  blocks : s.out = s.processed.flatMap (children edges)
  parentFirst : ∀ (pre : List Edge) (e : Edge) (post : List Edge), s.out = pre ++ e :: post →
      e.1 = r ∨ ∃ e' ∈ pre, e'.2 = e.1

theorem binv_init (edges : List Edge) (r : Nat) : BInv edges r (binit r) := by
  refine ⟨by simp [binit, BState.visited], by simp [binit, BState.visited], by simp [binit], ?_⟩
  intro pre e post h; simp [binit] at h

theorem mem_children {edges : List Edge} {u : Nat} {e : Edge} :
    e ∈ children edges u ↔ e ∈ edges ∧ e.1 = u := by
  simp [children]

/-- In a tree, no child edge of a queued node leads to a visited node. -/
theorem children_fresh {edges : List Edge} {r : Nat} (T : TreeLike edges r) {s : BState}
    (I : BInv edges r s) {u : Nat} {q : List Nat} (hq : s.queue = u :: q) :
    ∀ e ∈ children edges u, e.2 ∉ s.visited := by
  intro e he hv
  obtain ⟨heE, heu⟩ := mem_children.mp he
  rw [I.vis] at hv
  rcases List.mem_cons.mp hv with h | h
  · exact T.noRootIn e heE h
  · obtain ⟨e', he', hd⟩ := List.mem_map.mp h
    -- e' is an emitted edge with the same destination ⇒ e' = e ⇒ u ∈ processed, contradiction
    have he'E : e' ∈ edges ∧ e'.1 ∈ s.processed := by
      rw [I.blocks] at he'
      obtain ⟨p, hp, hc⟩ := List.mem_flatMap.mp he'
      obtain ⟨a, b⟩ := mem_children.mp hc
      exact ⟨a, b ▸ hp⟩
    have : e' = e := T.uniqueParent e' he'E.1 e heE hd
    subst this
    have hup : u ∈ s.processed := heu ▸ he'E.2
    have hnd := I.nodupV
    unfold BState.visited at hnd
    rw [hq] at hnd
    have := (List.nodup_append.mp hnd).2.2 u hup u (by simp)
    exact this rfl

theorem filter_fresh_eq {edges : List Edge} {r : Nat} (T : TreeLike edges r) {s : BState}
    (I : BInv edges r s) {u : Nat} {q : List Nat} (hq : s.queue = u :: q) :
    (children edges u).filter (fun e => !(s.visited.contains e.2)) = children edges u := by
  apply List.filter_eq_self.mpr
  intro e he
  have := children_fresh T I hq e he
  simp [this]

theorem nodup_map_of_injOn {α β : Type} (f : α → β) :
    ∀ (l : List α), l.Nodup → (∀ a ∈ l, ∀ b ∈ l, f a = f b → a = b) → (l.map f).Nodup
  | [], _, _ => by simp
  | x :: xs, hn, hinj => by
    obtain ⟨hx, hxs⟩ := List.nodup_cons.mp hn
    simp only [List.map_cons, List.nodup_cons]
    refine ⟨?_, nodup_map_of_injOn f xs hxs (fun a ha b hb => hinj a (by simp [ha]) b (by simp [hb]))⟩
    intro hmem
    obtain ⟨y, hy, hxy⟩ := List.mem_map.mp hmem
    have := hinj y (by simp [hy]) x (by simp) hxy
    exact hx (this ▸ hy)

theorem nodup_of_map_nodup {α β : Type} (f : α → β) :
    ∀ (l : List α), (l.map f).Nodup → l.Nodup
  | [], _ => by simp
  | x :: xs, h => by
    simp only [List.map_cons, List.nodup_cons] at h
    refine List.nodup_cons.mpr ⟨?_, nodup_of_map_nodup f xs h.2⟩
    intro hx; exact h.1 (List.mem_map.mpr ⟨x, hx, rfl⟩)

theorem children_dst_nodup {edges : List Edge} {r : Nat} (T : TreeLike edges r) (u : Nat) :
    ((children edges u).map (·.2)).Nodup := by
  have hn : (children edges u).Nodup := T.nodup.filter _
  refine nodup_map_of_injOn _ _ hn ?_
  intro a ha b hb hab
  exact T.uniqueParent a (mem_children.mp ha).1 b (mem_children.mp hb).1 hab

theorem binv_step {edges : List Edge} {r : Nat} (T : TreeLike edges r) {s s' : BState}
    (I : BInv edges r s) (h : bstep edges s = some s') : BInv edges r s' := by
  unfold bstep at h
  cases hq : s.queue with
  | nil => simp [hq] at h
  | cons u q =>
    simp only [hq] at h
    rw [filter_fresh_eq T I hq] at h
    injection h with h; subst h
    have hvis : s.visited = s.processed ++ u :: q := by simp [BState.visited, hq]
    have hfresh := children_fresh T I hq
    refine ⟨?_, ?_, ?_, ?_⟩
    · -- vis
      show (s.processed ++ [u]) ++ (q ++ (children edges u).map (·.2)) = _
      have : (s.processed ++ [u]) ++ (q ++ (children edges u).map (·.2))
          = s.visited ++ (children edges u).map (·.2) := by simp [hvis]
      rw [this, I.vis]; simp
    · -- nodup
      show ((s.processed ++ [u]) ++ (q ++ (children edges u).map (·.2))).Nodup
      have : (s.processed ++ [u]) ++ (q ++ (children edges u).map (·.2))
          = s.visited ++ (children edges u).map (·.2) := by simp [hvis]
      rw [this]
      refine List.nodup_append.mpr ⟨I.nodupV, children_dst_nodup T u, ?_⟩
      intro a ha b hb hab
      obtain ⟨e, he, rfl⟩ := List.mem_map.mp hb
      exact hfresh e he (hab ▸ ha)
    · -- blocks
      show s.out ++ children edges u = (s.processed ++ [u]).flatMap (children edges)
      rw [List.flatMap_append, ← I.blocks]; simp
    · -- parentFirst
      intro pre e post hsplit
      have hsplit : s.out ++ children edges u = pre ++ e :: post := hsplit
      rcases List.append_eq_append_iff.mp hsplit with ⟨a', h1, h2⟩ | ⟨c', h1, h2⟩
      · -- pre = out ++ a' : e is a new edge, its source is u ∈ visited
        have he : e ∈ children edges u := by rw [h2]; simp
        have heu : e.1 = u := (mem_children.mp he).2
        have hu : u ∈ s.visited := by rw [hvis]; simp
        rw [I.vis] at hu
        rcases List.mem_cons.mp hu with hr | hm
        · left; rw [heu, hr]
        · right
          obtain ⟨e', he', hd⟩ := List.mem_map.mp hm
          exact ⟨e', by rw [h1]; simp [he'], by rw [hd, heu]⟩
      · -- out = pre ++ c' with c' ++ children = e :: post
        cases c' with
        | nil =>
          -- then e is the head of children u and pre = out
          simp at h1 h2
          have he : e ∈ children edges u := by rw [← h2]; simp
          have heu : e.1 = u := (mem_children.mp he).2
          have hu : u ∈ s.visited := by rw [hvis]; simp
          rw [I.vis] at hu
          rcases List.mem_cons.mp hu with hr | hm
          · left; rw [heu, hr]
          · right
            obtain ⟨e', he', hd⟩ := List.mem_map.mp hm
            exact ⟨e', by rw [← h1]; exact he', by rw [hd, heu]⟩
        | cons c cs =>
          simp at h2
          obtain ⟨hce, _⟩ := h2
          exact I.parentFirst pre e cs (hce ▸ h1)

theorem binv_run {edges : List Edge} {r : Nat} (T : TreeLike edges r) (f : Nat) {s : BState}
    (I : BInv edges r s) : BInv edges r (brun edges f s) := by
  induction f generalizing s with
  | zero => exact I
  | succ f ih =>
    unfold brun
    cases h : bstep edges s with
    | none => exact I
    | some s' => exact ih (binv_step T I h)


/-! ## Completeness: with fuel `|edges|+1` the queue is exhausted and every reachable edge emitted -/

/-- nodes reachable from the root along listed edges -/
inductive Reach (edges : List Edge) (r : Nat) : Nat → Prop
  | root : Reach edges r r
  | step {u v : Nat} : Reach edges r u → (u, v) ∈ edges → Reach edges r v

theorem Reach.inv {edges : List Edge} {r x : Nat} (h : Reach edges r x) :
    x = r ∨ ∃ e ∈ edges, e.2 = x := by
  cases h with
  | root => exact Or.inl rfl
  | step _ he => exact Or.inr ⟨_, he, rfl⟩

theorem brun_progress (edges : List Edge) : ∀ (f : Nat) (s : BState),
    (brun edges f s).queue = [] ∨ (brun edges f s).processed.length = s.processed.length + f
  | 0, s => Or.inr (by simp [brun])
  | f+1, s => by
    unfold brun
    cases h : bstep edges s with
    | none =>
      left
      unfold bstep at h
      cases hq : s.queue with
      | nil => rfl
      | cons u q => simp [hq] at h
    | some s' =>
      have hp : s'.processed.length = s.processed.length + 1 := by
        unfold bstep at h
        cases hq : s.queue with
        | nil => simp [hq] at h
        | cons u q =>
          simp only [hq] at h
          injection h with h; subst h; simp
      rcases brun_progress edges f s' with h1 | h1
      · exact Or.inl h1
      · right; simp only [h1, hp]; omega

theorem out_sub {edges : List Edge} {r : Nat} {s : BState} (I : BInv edges r s) :
    ∀ e ∈ s.out, e ∈ edges := by
  intro e he
  rw [I.blocks] at he
  obtain ⟨p, _, hc⟩ := List.mem_flatMap.mp he
  exact (mem_children.mp hc).1

theorem out_nodup {edges : List Edge} {r : Nat} {s : BState} (I : BInv edges r s) : s.out.Nodup := by
  have hv := I.nodupV
  rw [I.vis] at hv
  exact nodup_of_map_nodup _ _ (List.nodup_cons.mp hv).2

theorem out_length_le {edges : List Edge} {r : Nat} {s : BState} (I : BInv edges r s) :
    s.out.length ≤ edges.length :=
  (List.subperm_of_subset (out_nodup I) (fun _ h => out_sub I _ h)).length_le

/-- after `|edges|+1` steps the BFS queue is empty -/
theorem final_queue_empty {edges : List Edge} {r : Nat} (T : TreeLike edges r) :
    (brun edges (edges.length + 1) (binit r)).queue = [] := by
  have I := binv_run T (edges.length + 1) (binv_init edges r)
  rcases brun_progress edges (edges.length + 1) (binit r) with h | h
  · exact h
  · have hlen : (brun edges (edges.length + 1) (binit r)).visited.length
        = 1 + (brun edges (edges.length + 1) (binit r)).out.length := by
      rw [I.vis]; simp; omega
    have hle := out_length_le I
    simp only [BState.visited, List.length_append] at hlen
    have hb : (binit r).processed.length = 0 := rfl
    rw [hb] at h
    have : (brun edges (edges.length + 1) (binit r)).queue.length = 0 := by omega
    exact List.length_eq_zero_iff.mp this

theorem reach_processed {edges : List Edge} {r : Nat} (T : TreeLike edges r) {x : Nat}
    (h : Reach edges r x) : x ∈ (brun edges (edges.length + 1) (binit r)).processed := by
  have I := binv_run T (edges.length + 1) (binv_init edges r)
  have hq := final_queue_empty T
  have hvp : (brun edges (edges.length + 1) (binit r)).visited
      = (brun edges (edges.length + 1) (binit r)).processed := by simp [BState.visited, hq]
  induction h with
  | root => rw [← hvp, I.vis]; simp
  | @step u v _ he ih =>
    have hout : (u, v) ∈ (brun edges (edges.length + 1) (binit r)).out := by
      rw [I.blocks]
      exact List.mem_flatMap.mpr ⟨u, ih, mem_children.mpr ⟨he, rfl⟩⟩
    rw [← hvp, I.vis]
    exact List.mem_cons_of_mem _ (List.mem_map.mpr ⟨(u, v), hout, rfl⟩)

/-- An arborescence, however listed: a `TreeLike` listing all of whose edges start at a node
    reachable from the root. -/
structure Arbo (edges : List Edge) (r : Nat) : Prop extends TreeLike edges r where
  reach : ∀ e ∈ edges, Reach edges r e.1

theorem arbo_all_emitted {edges : List Edge} {r : Nat} (A : Arbo edges r) :
    ∀ e ∈ edges, e ∈ bfsOut edges r := by
  intro e he
  have I := binv_run A.toTreeLike (edges.length + 1) (binv_init edges r)
  unfold bfsOut
  rw [I.blocks]
  exact List.mem_flatMap.mpr ⟨e.1, reach_processed A.toTreeLike (A.reach e he), mem_children.mpr ⟨he, rfl⟩⟩

theorem arbo_out_perm {edges : List Edge} {r : Nat} (A : Arbo edges r) :
    (bfsOut edges r).Perm edges := by
  have I := binv_run A.toTreeLike (edges.length + 1) (binv_init edges r)
  refine (List.perm_ext_iff_of_nodup (out_nodup I) A.nodup).mpr ?_
  intro e
  exact ⟨fun h => out_sub I e h, fun h => arbo_all_emitted A e h⟩

theorem arbo_rootOf {edges : List Edge} {r : Nat} (A : Arbo edges r) (hne : edges ≠ []) :
    rootOf edges = some r := by
  have hp : ∀ v, (!(edges.any (fun e => e.2 == v))) = true ↔ ∀ e ∈ edges, e.2 ≠ v := by
    intro v; simp
  have hr_in : r ∈ nodesOf edges := by
    obtain ⟨e, he⟩ := List.exists_mem_of_ne_nil edges hne
    have : ∀ x, Reach edges r x → x = r ∨ r ∈ nodesOf edges := by
      intro x hx
      induction hx with
      | root => exact Or.inl rfl
      | @step u v _ he' ih =>
        right
        rcases ih with h | h
        · subst h
          exact List.mem_flatMap.mpr ⟨(u, v), he', by simp⟩
        · exact h
    rcases this _ (A.reach e he) with h | h
    · exact List.mem_flatMap.mpr ⟨e, he, by simp [h]⟩
    · exact h
  unfold rootOf
  cases hf : (nodesOf edges).find? (fun v => !(edges.any (fun e => e.2 == v))) with
  | none =>
    have := List.find?_eq_none.mp hf r hr_in
    exact absurd ((hp r).mpr A.noRootIn) this
  | some a =>
    have hpa := (hp a).mp (by have := List.find?_some hf; simpa using this)
    have ha := List.mem_of_find?_eq_some hf
    obtain ⟨e, he, hae⟩ := List.mem_flatMap.mp ha
    simp only [List.mem_cons, List.not_mem_nil, or_false] at hae
    rcases hae with h | h
    · rcases (A.reach e he).inv with h2 | ⟨e', he', h2⟩
      · rw [h, h2]
      · exact absurd (h ▸ h2) (hpa e' he')
    · exact absurd h.symm (hpa e he)

/-- every emitted edge starts at a node reachable from the root (by the parent-first invariant) -/
theorem out_reach {edges : List Edge} {r : Nat} {s : BState} (I : BInv edges r s) :
    ∀ (n : Nat) (pre : List Edge), pre.length ≤ n → ∀ (e : Edge) (post : List Edge),
      s.out = pre ++ e :: post → Reach edges r e.1 := by
  intro n
  induction n with
  | zero =>
    intro pre hp e post hs
    have : pre = [] := List.length_eq_zero_iff.mp (by omega)
    subst this
    rcases I.parentFirst [] e post hs with h0 | ⟨e', he', _⟩
    · rw [h0]; exact Reach.root
    · simp at he'
  | succ n ih =>
    intro pre hp e post hs
    rcases I.parentFirst pre e post hs with h0 | ⟨e', he', hd⟩
    · rw [h0]; exact Reach.root
    · obtain ⟨a, b, hab⟩ := List.append_of_mem he'
      have hs' : s.out = a ++ e' :: (b ++ e :: post) := by rw [hs, hab]; simp
      have hlt : a.length ≤ n := by rw [hab] at hp; simp at hp; omega
      have hr := ih a hlt e' (b ++ e :: post) hs'
      have hmem : e' ∈ edges := out_sub I e' (by rw [hs']; simp)
      rw [← hd]
      exact Reach.step hr (by cases e'; exact hmem)

/-- soundness of the decidable recogniser: `isArbo` implies the theorems' hypothesis -/
theorem isArbo_sound {edges : List Edge} (h : isArbo edges = true) : ∃ r, Arbo edges r := by
  unfold isArbo at h
  cases hr : rootOf edges with
  | none => simp [hr] at h
  | some r =>
    simp only [hr, Bool.and_eq_true, decide_eq_true_eq, List.all_eq_true, bne_iff_ne, ne_eq,
      Bool.or_eq_true, beq_iff_eq] at h
    obtain ⟨⟨⟨hnd, hroot⟩, huniq⟩, hlen⟩ := h
    have T : TreeLike edges r := {
      nodup := hnd
      noRootIn := fun e he => hroot e he
      uniqueParent := fun e he e' he' heq => by
        rcases huniq e he e' he' with h1 | h1
        · exact absurd heq h1
        · exact h1 }
    have I := binv_run T (edges.length + 1) (binv_init edges r)
    have hperm : (bfsOut edges r).Perm edges :=
      ((List.subperm_of_subset (out_nodup I) (fun _ h => out_sub I _ h)).perm_of_length_le
        (by simp [bfsOut] at hlen ⊢; omega))
    refine ⟨r, { T with reach := ?_ }⟩
    intro e he
    have hm : e ∈ bfsOut edges r := hperm.mem_iff.mpr he
    obtain ⟨a, b, hab⟩ := List.append_of_mem hm
    exact out_reach I a.length a (Nat.le_refl _) e b hab

theorem map_idxOf_self {α : Type} [BEq α] [LawfulBEq α] : ∀ (l : List α), l.Nodup →
    l.map (fun e => l.idxOf e) = List.range l.length := by
  intro l hn
  apply List.ext_getElem
  · simp
  · intro i h1 h2
    simp only [List.getElem_map, List.getElem_range]
    exact hn.idxOf_getElem i (by simpa using h1)

end SleapVerif.Toposort
