import SleapVerif.Model.Peaks
import Mathlib.Algebra.Order.Field.Basic
import Mathlib.Algebra.BigOperators.Intervals
import Mathlib.Algebra.Order.BigOperators.Group.Finset
import Mathlib.Algebra.Order.BigOperators.Ring.Finset
import Mathlib.Tactic.Linarith
import Mathlib.Tactic.Ring
/-!
Helper lemmas for C06/C07, part 2: the integral-regression sums for an arbitrary patch size `p`
(odd or even): bound for non-negative patches, pairing argument `k ↔ p-1-k` for symmetric patches
and for patches whose right half dominates its mirror image.
-/
namespace SleapVerif.Peaks
set_option linter.unusedSectionVars false
open Finset

variable {R : Type} [Field R] [LinearOrder R] [IsStrictOrderedRing R]

theorem sumN_eq_sum (f : Nat → R) (n : Nat) : sumN f n = ∑ i ∈ range n, f i := by
  induction n with
  | zero => simp [sumN]
  | succ n ih => rw [sumN, ih, sum_range_succ]

theorem patchSum_eq (p : Nat) (P : Nat → Nat → R) :
    patchSum p P = ∑ a ∈ range p, ∑ b ∈ range p, P a b := by
  simp only [patchSum, sumN_eq_sum]

theorem xNum_eq (p : Nat) (P : Nat → Nat → R) :
    xNum p P = ∑ a ∈ range p, ∑ b ∈ range p, gv p b * P a b := by
  simp only [xNum, sumN_eq_sum]

theorem yNum_eq (p : Nat) (P : Nat → Nat → R) :
    yNum p P = ∑ a ∈ range p, ∑ b ∈ range p, gv p a * P a b := by
  simp only [yNum, sumN_eq_sum]

theorem yNum_eq_xNum_transpose (p : Nat) (P : Nat → Nat → R) : yNum p P = xNum p (fun a b => P b a) := by
  rw [yNum_eq, xNum_eq, sum_comm]

theorem patchSum_transpose (p : Nat) (P : Nat → Nat → R) : patchSum p (fun a b => P b a) = patchSum p P := by
  rw [patchSum_eq, patchSum_eq, sum_comm]

/-- `gv p k = k - (p-1)/2` with the casts resolved -/
theorem gv_eq {p k : Nat} (hk : k < p) : gv (R := R) p k = (k : R) - ((p : R) - 1) / 2 := by
  unfold gv
  rw [Nat.cast_sub (by omega)]
  push_cast; ring

/-- half the grid span, `(p-1)/2` -/
def halfSpan (R : Type) [Field R] (p : Nat) : R := ((p - 1 : Nat) : R) / 2

theorem halfSpan_eq {p : Nat} (hp : 1 ≤ p) : halfSpan R p = ((p : R) - 1) / 2 := by
  unfold halfSpan; rw [Nat.cast_sub hp]; push_cast; ring

theorem abs_gv_le {p k : Nat} (hk : k < p) : |gv (R := R) p k| ≤ halfSpan R p := by
  rw [gv_eq hk, halfSpan_eq (by omega)]
  have h1 : (k : R) ≤ (p : R) - 1 := by
    have : k + 1 ≤ p := hk
    have : ((k + 1 : Nat) : R) ≤ (p : R) := by exact_mod_cast this
    push_cast at this; linarith
  have h0 : (0 : R) ≤ (k : R) := Nat.cast_nonneg k
  rw [abs_le]; constructor <;> linarith

theorem gv_reflect {p k : Nat} (hk : k < p) : gv (R := R) p (p - 1 - k) = - gv p k := by
  rw [gv_eq hk, gv_eq (by omega), Nat.cast_sub (by omega), Nat.cast_sub (by omega)]
  push_cast; ring

theorem gv_pos_iff {p b : Nat} (hb : b < p) : 0 < gv (R := R) p b ↔ p - 1 < 2 * b := by
  rw [gv_eq hb]
  constructor
  · intro h
    have h1 : (p : R) - 1 < 2 * (b : R) := by linarith
    have h2 : (p : R) < ((2 * b + 1 : Nat) : R) := by push_cast; linarith
    have : p < 2 * b + 1 := by exact_mod_cast h2
    omega
  · intro h
    have : p < 2 * b + 1 := by omega
    have h2 : (p : R) < ((2 * b + 1 : Nat) : R) := by exact_mod_cast this
    push_cast at h2; linarith

theorem gv_neg_iff {p b : Nat} (hb : b < p) : gv (R := R) p b < 0 ↔ 2 * b < p - 1 := by
  rw [gv_eq hb]
  constructor
  · intro h
    have h2 : ((2 * b + 1 : Nat) : R) < (p : R) := by push_cast; linarith
    have : 2 * b + 1 < p := by exact_mod_cast h2
    omega
  · intro h
    have : 2 * b + 1 < p := by omega
    have h2 : ((2 * b + 1 : Nat) : R) < (p : R) := by exact_mod_cast this
    push_cast at h2; linarith

theorem gv_zero_of_mid {p b : Nat} (hb : b < p) (h : 2 * b = p - 1) : gv (R := R) p b = 0 := by
  rw [gv_eq hb]
  have : ((2 * b + 1 : Nat) : R) = (p : R) := by
    have : 2 * b + 1 = p := by omega
    exact_mod_cast this
  push_cast at this; linarith

/-! ### bound for non-negative patches -/

theorem abs_xNum_le (p : Nat) (P : Nat → Nat → R) (hP : ∀ a b, a < p → b < p → 0 ≤ P a b) :
    |xNum p P| ≤ halfSpan R p * patchSum p P := by
  rw [xNum_eq, patchSum_eq, mul_sum]
  refine le_trans (abs_sum_le_sum_abs _ _) (sum_le_sum fun a ha => ?_)
  rw [mul_sum]
  refine le_trans (abs_sum_le_sum_abs _ _) (sum_le_sum fun b hb => ?_)
  rw [mem_range] at ha hb
  rw [abs_mul, abs_of_nonneg (hP a b ha hb)]
  exact mul_le_mul_of_nonneg_right (abs_gv_le hb) (hP a b ha hb)

theorem abs_yNum_le (p : Nat) (P : Nat → Nat → R) (hP : ∀ a b, a < p → b < p → 0 ≤ P a b) :
    |yNum p P| ≤ halfSpan R p * patchSum p P := by
  rw [yNum_eq_xNum_transpose, ← patchSum_transpose]
  exact abs_xNum_le p _ fun a b ha hb => hP b a hb ha

theorem integralOffsets_of_pos (p : Nat) (P : Nat → Nat → R) (hz : 0 < patchSum p P) :
    integralOffsets p P = some (xNum p P / patchSum p P, yNum p P / patchSum p P) := by
  unfold integralOffsets
  simp only
  rw [if_pos (Or.inr hz)]

/-! ### pairing `b ↔ p-1-b` along one row -/

/-- `2·Σ_b gv(b)·f(b) = Σ_b gv(b)·(f(b) − f(p−1−b))` -/
theorem two_mul_row (p : Nat) (f : Nat → R) :
    2 * ∑ b ∈ range p, gv p b * f b = ∑ b ∈ range p, gv p b * (f b - f (p - 1 - b)) := by
  have hrefl := sum_range_reflect (fun b => gv (R := R) p b * f b) p
  have h2 : ∑ b ∈ range p, gv (R := R) p (p - 1 - b) * f (p - 1 - b)
      = ∑ b ∈ range p, -(gv p b * f (p - 1 - b)) := by
    refine sum_congr rfl fun b hb => ?_
    rw [mem_range] at hb
    rw [gv_reflect hb]; ring
  rw [h2, sum_neg_distrib] at hrefl
  have : ∑ b ∈ range p, gv (R := R) p b * (f b - f (p - 1 - b))
      = ∑ b ∈ range p, gv p b * f b - ∑ b ∈ range p, gv p b * f (p - 1 - b) := by
    rw [← sum_sub_distrib]; exact sum_congr rfl fun b _ => by ring
  rw [this]; linarith

/-- every term of the paired sum is ≥ 0 when the right half dominates its mirror image -/
theorem row_term_nonneg (p : Nat) (f : Nat → R) (hdom : ∀ b, p - 1 < 2 * b → b < p → f (p - 1 - b) ≤ f b)
    (b : Nat) (hb : b < p) : 0 ≤ gv p b * (f b - f (p - 1 - b)) := by
  rcases Nat.lt_trichotomy (2 * b) (p - 1) with h | h | h
  · have h1 : gv (R := R) p b < 0 := (gv_neg_iff hb).mpr h
    have h2 := hdom (p - 1 - b) (by omega) (by omega)
    have h3 : p - 1 - (p - 1 - b) = b := by omega
    rw [h3] at h2
    exact mul_nonneg_of_nonpos_of_nonpos (le_of_lt h1) (by linarith)
  · rw [gv_zero_of_mid hb h]; simp
  · have h1 : 0 < gv (R := R) p b := (gv_pos_iff hb).mpr h
    exact mul_nonneg (le_of_lt h1) (by linarith [hdom b h hb])

theorem row_nonneg (p : Nat) (f : Nat → R) (hdom : ∀ b, p - 1 < 2 * b → b < p → f (p - 1 - b) ≤ f b) :
    0 ≤ ∑ b ∈ range p, gv p b * f b := by
  have h := two_mul_row p f
  have : 0 ≤ ∑ b ∈ range p, gv p b * (f b - f (p - 1 - b)) :=
    sum_nonneg fun b hb => row_term_nonneg p f hdom b (mem_range.mp hb)
  linarith

theorem row_pos (p : Nat) (hp : 2 ≤ p) (f : Nat → R) (hdom : ∀ b, p - 1 < 2 * b → b < p → f (p - 1 - b) < f b) :
    0 < ∑ b ∈ range p, gv p b * f b := by
  have h := two_mul_row p f
  have : 0 < ∑ b ∈ range p, gv p b * (f b - f (p - 1 - b)) := by
    refine sum_pos' (fun b hb => row_term_nonneg p f (fun b h1 h2 => le_of_lt (hdom b h1 h2)) b (mem_range.mp hb))
      ⟨p - 1, mem_range.mpr (by omega), ?_⟩
    have h1 : 0 < gv (R := R) p (p - 1) := (gv_pos_iff (by omega)).mpr (by omega)
    exact mul_pos h1 (by linarith [hdom (p - 1) (by omega) (by omega)])
  linarith

theorem row_zero (p : Nat) (f : Nat → R) (hsym : ∀ b, b < p → f (p - 1 - b) = f b) :
    ∑ b ∈ range p, gv p b * f b = 0 := by
  have h := two_mul_row p f
  have : ∑ b ∈ range p, gv p b * (f b - f (p - 1 - b)) = 0 :=
    sum_eq_zero fun b hb => by rw [hsym b (mem_range.mp hb)]; ring
  linarith

/-- mirrored statement: the left half dominates -/
theorem row_nonpos (p : Nat) (f : Nat → R) (hdom : ∀ b, p - 1 < 2 * b → b < p → f b ≤ f (p - 1 - b)) :
    ∑ b ∈ range p, gv p b * f b ≤ 0 := by
  have := row_nonneg p (fun b => - f b) (fun b h1 h2 => by simpa using hdom b h1 h2)
  simp only [mul_neg, sum_neg_distrib] at this
  linarith

theorem row_neg (p : Nat) (hp : 2 ≤ p) (f : Nat → R) (hdom : ∀ b, p - 1 < 2 * b → b < p → f b < f (p - 1 - b)) :
    ∑ b ∈ range p, gv p b * f b < 0 := by
  have := row_pos p hp (fun b => - f b) (fun b h1 h2 => by simpa using hdom b h1 h2)
  simp only [mul_neg, sum_neg_distrib] at this
  linarith

/-! ### consequences for `xNum` -/

theorem xNum_zero_of_symm (p : Nat) (P : Nat → Nat → R)
    (hsym : ∀ a b, a < p → b < p → P a (p - 1 - b) = P a b) : xNum p P = 0 := by
  rw [xNum_eq]
  exact sum_eq_zero fun a ha => row_zero p (P a) fun b hb => hsym a b (mem_range.mp ha) hb

theorem xNum_nonneg (p : Nat) (P : Nat → Nat → R)
    (hdom : ∀ a b, a < p → p - 1 < 2 * b → b < p → P a (p - 1 - b) ≤ P a b) : 0 ≤ xNum p P := by
  rw [xNum_eq]
  exact sum_nonneg fun a ha => row_nonneg p (P a) fun b h1 h2 => hdom a b (mem_range.mp ha) h1 h2

theorem xNum_nonpos (p : Nat) (P : Nat → Nat → R)
    (hdom : ∀ a b, a < p → p - 1 < 2 * b → b < p → P a b ≤ P a (p - 1 - b)) : xNum p P ≤ 0 := by
  rw [xNum_eq]
  exact sum_nonpos fun a ha => row_nonpos p (P a) fun b h1 h2 => hdom a b (mem_range.mp ha) h1 h2

theorem xNum_pos (p : Nat) (hp : 2 ≤ p) (P : Nat → Nat → R)
    (hdom : ∀ a b, a < p → p - 1 < 2 * b → b < p → P a (p - 1 - b) < P a b) : 0 < xNum p P := by
  rw [xNum_eq]
  exact sum_pos (fun a ha => row_pos p hp (P a) fun b h1 h2 => hdom a b (mem_range.mp ha) h1 h2)
    ⟨0, mem_range.mpr (by omega)⟩

theorem xNum_neg (p : Nat) (hp : 2 ≤ p) (P : Nat → Nat → R)
    (hdom : ∀ a b, a < p → p - 1 < 2 * b → b < p → P a b < P a (p - 1 - b)) : xNum p P < 0 := by
  rw [xNum_eq]
  exact sum_neg (fun a ha => row_neg p hp (P a) fun b h1 h2 => hdom a b (mem_range.mp ha) h1 h2)
    ⟨0, mem_range.mpr (by omega)⟩

/-! ### the crop: non-negativity, centre entry -/

theorem zeroPadAt_nonneg {h w : Nat} {img : Nat → Nat → R} (hnn : ∀ i j, 0 ≤ img i j) (i j : Int) :
    0 ≤ zeroPadAt h w img i j := by
  unfold zeroPadAt; split
  · exact hnn _ _
  · exact le_rfl

theorem cropZ_nonneg {Z : Int → Int → R} (hZ : ∀ i j, 0 ≤ Z i j) (p cx cy a b : Nat) : 0 ≤ cropZ Z p cx cy a b := by
  unfold cropZ
  simp only
  split
  · exact hZ _ _
  · apply div_nonneg
    · exact add_nonneg (add_nonneg (add_nonneg (hZ _ _) (hZ _ _)) (hZ _ _)) (hZ _ _)
    · positivity

theorem zeroPadAt_of_nat {h w : Nat} (img : Nat → Nat → R) {i' j' : Nat} {a b : Int}
    (ha : a = i') (hb : b = j') (hi : i' < h) (hj : j' < w) : zeroPadAt h w img a b = img i' j' := by
  subst ha hb
  simp [zeroPadAt, inB, hi, hj]

/-- the entry `((p-1)/2, (p-1)/2)` of the crop around an in-bounds cell of a non-negative map is at
least a quarter of that cell's value (it *is* the cell for odd `p`) -/
theorem quarter_le_centre {h w : Nat} {img : Nat → Nat → R} (hnn : ∀ i j, 0 ≤ img i j) {p x y : Nat} (hp : 1 ≤ p)
    (hx : x < w) (hy : y < h) :
    img y x / 4 ≤ patch h w img p x y ((p - 1) / 2) ((p - 1) / 2) := by
  have hZ := zeroPadAt_nonneg (h := h) (w := w) hnn
  unfold patch cropZ
  simp only
  split
  · rename_i hodd
    rw [zeroPadAt_of_nat img (i' := y) (j' := x) (by omega) (by omega) hy hx]
    have := hnn y x; linarith
  · rename_i heven
    have e1 : (y : Int) - ((p / 2 : Nat) : Int) + (((p - 1) / 2 : Nat) : Int) + 1 = y := by omega
    have e2 : (x : Int) - ((p / 2 : Nat) : Int) + (((p - 1) / 2 : Nat) : Int) + 1 = x := by omega
    rw [e1, e2, zeroPadAt_of_nat img (i' := y) (j' := x) rfl rfl hy hx]
    have c4 : ((4 : Nat) : R) = 4 := by norm_num
    rw [c4]
    apply div_le_div_of_nonneg_right _ (by norm_num : (0 : R) ≤ 4)
    have h1 := hZ ((y : Int) - ((p / 2 : Nat) : Int) + (((p - 1) / 2 : Nat) : Int)) ((x : Int) - ((p / 2 : Nat) : Int) + (((p - 1) / 2 : Nat) : Int))
    have h2 := hZ ((y : Int) - ((p / 2 : Nat) : Int) + (((p - 1) / 2 : Nat) : Int)) x
    have h3 := hZ y ((x : Int) - ((p / 2 : Nat) : Int) + (((p - 1) / 2 : Nat) : Int))
    linarith

/-! ### refined point: half-patch bound -/

theorem refinePoint_bounded (h w : Nat) (img : Nat → Nat → R) (p x y : Nat)
    (hnn : ∀ a b, a < p → b < p → 0 ≤ patch h w img p x y a b)
    (hz : 0 < patchSum p (patch h w img p x y)) :
    ∃ px py, refinePoint h w img p x y = some (px, py) ∧ |px - x| ≤ halfSpan R p ∧ |py - y| ≤ halfSpan R p := by
  refine ⟨x + xNum p (patch h w img p x y) / patchSum p (patch h w img p x y),
          y + yNum p (patch h w img p x y) / patchSum p (patch h w img p x y), ?_, ?_, ?_⟩
  · unfold refinePoint
    rw [integralOffsets_of_pos p _ hz]; rfl
  · rw [add_sub_cancel_left, abs_div, abs_of_pos hz, div_le_iff₀ hz]
    exact abs_xNum_le p _ hnn
  · rw [add_sub_cancel_left, abs_div, abs_of_pos hz, div_le_iff₀ hz]
    exact abs_yNum_le p _ hnn

theorem refinePoint_bounded_of_nonneg_map (h w : Nat) (img : Nat → Nat → R) (p x y : Nat) (hp : 1 ≤ p)
    (hx : x < w) (hy : y < h) (hnn : ∀ i j, 0 ≤ img i j) (hpos : 0 < img y x) :
    ∃ px py, refinePoint h w img p x y = some (px, py) ∧ |px - x| ≤ halfSpan R p ∧ |py - y| ≤ halfSpan R p := by
  have hP : ∀ a b, 0 ≤ patch h w img p x y a b := fun a b => cropZ_nonneg (zeroPadAt_nonneg hnn) p x y a b
  apply refinePoint_bounded h w img p x y (fun a b _ _ => hP a b)
  rw [patchSum_eq]
  have hr : (p - 1) / 2 ∈ range p := mem_range.mpr (by omega)
  calc (0 : R) < img y x / 4 := by positivity
    _ ≤ patch h w img p x y ((p - 1) / 2) ((p - 1) / 2) := quarter_le_centre hnn hp hx hy
    _ ≤ ∑ b ∈ range p, patch h w img p x y ((p - 1) / 2) b :=
        single_le_sum (f := fun b => patch h w img p x y ((p - 1) / 2) b) (fun b _ => hP _ b) hr
    _ ≤ ∑ a ∈ range p, ∑ b ∈ range p, patch h w img p x y a b :=
        single_le_sum (f := fun a => ∑ b ∈ range p, patch h w img p x y a b)
          (fun a _ => sum_nonneg fun b _ => hP a b) hr

/-! ### any patch with a non-zero sum: displacement ≤ half span × Σ|P| / |ΣP| -/

/-- `Σ_a Σ_b |P a b|` -/
def patchAbsSum (p : Nat) (P : Nat → Nat → R) : R := ∑ a ∈ range p, ∑ b ∈ range p, |P a b|

theorem abs_patchSum_le (p : Nat) (P : Nat → Nat → R) : |patchSum p P| ≤ patchAbsSum p P := by
  rw [patchSum_eq, patchAbsSum]
  refine le_trans (abs_sum_le_sum_abs _ _) (sum_le_sum fun a _ => abs_sum_le_sum_abs _ _)

theorem abs_xNum_le_abs (p : Nat) (P : Nat → Nat → R) : |xNum p P| ≤ halfSpan R p * patchAbsSum p P := by
  rw [xNum_eq, patchAbsSum, mul_sum]
  refine le_trans (abs_sum_le_sum_abs _ _) (sum_le_sum fun a _ => ?_)
  rw [mul_sum]
  refine le_trans (abs_sum_le_sum_abs _ _) (sum_le_sum fun b hb => ?_)
  rw [abs_mul]
  exact mul_le_mul_of_nonneg_right (abs_gv_le (mem_range.mp hb)) (abs_nonneg _)

theorem abs_yNum_le_abs (p : Nat) (P : Nat → Nat → R) : |yNum p P| ≤ halfSpan R p * patchAbsSum p P := by
  rw [yNum_eq_xNum_transpose]
  have : patchAbsSum p (fun a b => P b a) = patchAbsSum p P := by
    unfold patchAbsSum; rw [sum_comm]
  rw [← this]
  exact abs_xNum_le_abs p _

theorem integralOffsets_some_iff (p : Nat) (P : Nat → Nat → R) (o : R × R) :
    integralOffsets p P = some o ↔ patchSum p P ≠ 0 ∧ o = (xNum p P / patchSum p P, yNum p P / patchSum p P) := by
  unfold integralOffsets
  simp only
  by_cases hz : patchSum p P < 0 ∨ 0 < patchSum p P
  · rw [if_pos hz]
    have : patchSum p P ≠ 0 := by rcases hz with h | h <;> [exact ne_of_lt h; exact ne_of_gt h]
    simp only [Option.some.injEq, this, ne_eq, not_false_eq_true, true_and]
    exact eq_comm
  · rw [if_neg hz]
    have : patchSum p P = 0 := by
      rcases lt_trichotomy (patchSum p P) 0 with h | h | h
      · exact absurd (Or.inl h) hz
      · exact h
      · exact absurd (Or.inr h) hz
    simp [this]

/-- whatever the signs in the patch: a refined point is displaced by at most
`(p-1)/2 · Σ|P| / |ΣP|` in x and in y -/
theorem refinePoint_displacement_le (h w : Nat) (img : Nat → Nat → R) (p x y : Nat) (px py : R)
    (hpt : refinePoint h w img p x y = some (px, py)) :
    patchSum p (patch h w img p x y) ≠ 0 ∧
    |px - x| ≤ halfSpan R p * patchAbsSum p (patch h w img p x y) / |patchSum p (patch h w img p x y)| ∧
    |py - y| ≤ halfSpan R p * patchAbsSum p (patch h w img p x y) / |patchSum p (patch h w img p x y)| := by
  unfold refinePoint at hpt
  rw [Option.map_eq_some_iff] at hpt
  obtain ⟨o, ho, hxy⟩ := hpt
  rw [integralOffsets_some_iff] at ho
  obtain ⟨hz, rfl⟩ := ho
  simp only [Prod.mk.injEq] at hxy
  obtain ⟨rfl, rfl⟩ := hxy
  have hpos : 0 < |patchSum p (patch h w img p x y)| := abs_pos.mpr hz
  refine ⟨hz, ?_, ?_⟩
  · rw [add_sub_cancel_left, abs_div, div_le_div_iff_of_pos_right hpos]
    exact abs_xNum_le_abs p _
  · rw [add_sub_cancel_left, abs_div, div_le_div_iff_of_pos_right hpos]
    exact abs_yNum_le_abs p _

end SleapVerif.Peaks
