import SleapVerif.Model.Peaks
import Mathlib.Algebra.Order.Field.Basic
import Mathlib.Algebra.BigOperators.Intervals
import Mathlib.Algebra.Order.BigOperators.Group.Finset
import Mathlib.Algebra.Order.BigOperators.Ring.Finset
import Mathlib.Tactic.Linarith
import Mathlib.Tactic.Ring
/-!
Helper lemmas for C06/C07, part 2: the integral-regression sums (bound for non-negative patches,
pairing argument `k ↔ 2r-k` for symmetric patches and for bumps).
-/
namespace SleapVerif.Peaks
set_option linter.unusedSectionVars false
open Finset

variable {R : Type} [Field R] [LinearOrder R] [IsStrictOrderedRing R]

theorem sumN_eq_sum (f : Nat → R) (n : Nat) : sumN f n = ∑ i ∈ range n, f i := by
  induction n with
  | zero => simp [sumN]
  | succ n ih => rw [sumN, ih, sum_range_succ]

theorem patchSum_eq (r : Nat) (P : Nat → Nat → R) :
    patchSum r P = ∑ a ∈ range (2*r+1), ∑ b ∈ range (2*r+1), P a b := by
  simp only [patchSum, sumN_eq_sum]

theorem xNum_eq (r : Nat) (P : Nat → Nat → R) :
    xNum r P = ∑ a ∈ range (2*r+1), ∑ b ∈ range (2*r+1), gv r b * P a b := by
  simp only [xNum, sumN_eq_sum]

theorem yNum_eq (r : Nat) (P : Nat → Nat → R) :
    yNum r P = ∑ a ∈ range (2*r+1), ∑ b ∈ range (2*r+1), gv r a * P a b := by
  simp only [yNum, sumN_eq_sum]

theorem yNum_eq_xNum_transpose (r : Nat) (P : Nat → Nat → R) : yNum r P = xNum r (fun a b => P b a) := by
  rw [yNum_eq, xNum_eq, sum_comm]

theorem patchSum_transpose (r : Nat) (P : Nat → Nat → R) : patchSum r (fun a b => P b a) = patchSum r P := by
  rw [patchSum_eq, patchSum_eq, sum_comm]

theorem abs_gv_le {r k : Nat} (hk : k < 2*r+1) : |gv (R := R) r k| ≤ (r : R) := by
  unfold gv
  have h1 : (k : R) ≤ 2 * (r : R) := by
    have : k ≤ 2 * r := by omega
    exact_mod_cast this
  have h0 : (0 : R) ≤ (k : R) := Nat.cast_nonneg k
  rw [abs_le]; constructor <;> linarith

theorem gv_reflect {r k : Nat} (hk : k < 2*r+1) : gv (R := R) r (2*r+1-1-k) = - gv r k := by
  unfold gv
  have : 2*r+1-1-k = 2*r - k := by omega
  rw [this, Nat.cast_sub (by omega)]
  push_cast; ring

/-! ### bound for non-negative patches -/

theorem abs_xNum_le (r : Nat) (P : Nat → Nat → R) (hP : ∀ a b, a < 2*r+1 → b < 2*r+1 → 0 ≤ P a b) :
    |xNum r P| ≤ (r : R) * patchSum r P := by
  rw [xNum_eq, patchSum_eq, mul_sum]
  refine le_trans (abs_sum_le_sum_abs _ _) (sum_le_sum fun a ha => ?_)
  rw [mul_sum]
  refine le_trans (abs_sum_le_sum_abs _ _) (sum_le_sum fun b hb => ?_)
  rw [mem_range] at ha hb
  rw [abs_mul, abs_of_nonneg (hP a b ha hb)]
  exact mul_le_mul_of_nonneg_right (abs_gv_le hb) (hP a b ha hb)

theorem abs_yNum_le (r : Nat) (P : Nat → Nat → R) (hP : ∀ a b, a < 2*r+1 → b < 2*r+1 → 0 ≤ P a b) :
    |yNum r P| ≤ (r : R) * patchSum r P := by
  rw [yNum_eq_xNum_transpose, ← patchSum_transpose]
  exact abs_xNum_le r _ fun a b ha hb => hP b a hb ha

theorem integralOffsets_of_pos (r : Nat) (P : Nat → Nat → R) (hz : 0 < patchSum r P) :
    integralOffsets r P = some (xNum r P / patchSum r P, yNum r P / patchSum r P) := by
  unfold integralOffsets
  simp only
  rw [if_pos (Or.inr hz)]

/-! ### pairing `b ↔ 2r - b` along one row -/

/-- `2·Σ_b gv(b)·f(b) = Σ_b gv(b)·(f(b) − f(2r−b))` -/
theorem two_mul_row (r : Nat) (f : Nat → R) :
    2 * ∑ b ∈ range (2*r+1), gv r b * f b = ∑ b ∈ range (2*r+1), gv r b * (f b - f (2*r - b)) := by
  have hrefl := sum_range_reflect (fun b => gv (R := R) r b * f b) (2*r+1)
  have h2 : ∑ b ∈ range (2*r+1), gv (R := R) r (2*r+1-1-b) * f (2*r+1-1-b)
      = ∑ b ∈ range (2*r+1), -(gv r b * f (2*r - b)) := by
    refine sum_congr rfl fun b hb => ?_
    rw [mem_range] at hb
    rw [gv_reflect hb]
    have : 2*r+1-1-b = 2*r - b := by omega
    rw [this]; ring
  rw [h2, sum_neg_distrib] at hrefl
  have : ∑ b ∈ range (2*r+1), gv (R := R) r b * (f b - f (2*r - b))
      = ∑ b ∈ range (2*r+1), gv r b * f b - ∑ b ∈ range (2*r+1), gv r b * f (2*r - b) := by
    rw [← sum_sub_distrib]; exact sum_congr rfl fun b _ => by ring
  rw [this]; linarith

theorem gv_pos_iff {r b : Nat} : 0 < gv (R := R) r b ↔ r < b := by
  unfold gv; rw [sub_pos]; exact Nat.cast_lt

theorem gv_neg_iff {r b : Nat} : gv (R := R) r b < 0 ↔ b < r := by
  unfold gv; rw [sub_neg]; exact Nat.cast_lt

theorem gv_self (r : Nat) : gv (R := R) r r = 0 := by unfold gv; ring

/-- every term of the paired sum is ≥ 0 when the right half dominates its mirror image -/
theorem row_term_nonneg (r : Nat) (f : Nat → R) (hdom : ∀ b, r < b → b < 2*r+1 → f (2*r - b) ≤ f b)
    (b : Nat) (hb : b < 2*r+1) : 0 ≤ gv r b * (f b - f (2*r - b)) := by
  rcases Nat.lt_trichotomy b r with h | h | h
  · have h1 : gv (R := R) r b < 0 := gv_neg_iff.mpr h
    have h2 := hdom (2*r - b) (by omega) (by omega)
    have h3 : 2*r - (2*r - b) = b := by omega
    rw [h3] at h2
    exact mul_nonneg_of_nonpos_of_nonpos (le_of_lt h1) (by linarith)
  · subst h; rw [gv_self]; simp
  · have h1 : 0 < gv (R := R) r b := gv_pos_iff.mpr h
    exact mul_nonneg (le_of_lt h1) (by linarith [hdom b h hb])

theorem row_nonneg (r : Nat) (f : Nat → R) (hdom : ∀ b, r < b → b < 2*r+1 → f (2*r - b) ≤ f b) :
    0 ≤ ∑ b ∈ range (2*r+1), gv r b * f b := by
  have h := two_mul_row r f
  have : 0 ≤ ∑ b ∈ range (2*r+1), gv r b * (f b - f (2*r - b)) :=
    sum_nonneg fun b hb => row_term_nonneg r f hdom b (mem_range.mp hb)
  linarith

theorem row_pos (r : Nat) (hr : 1 ≤ r) (f : Nat → R) (hdom : ∀ b, r < b → b < 2*r+1 → f (2*r - b) < f b) :
    0 < ∑ b ∈ range (2*r+1), gv r b * f b := by
  have h := two_mul_row r f
  have : 0 < ∑ b ∈ range (2*r+1), gv r b * (f b - f (2*r - b)) := by
    refine sum_pos' (fun b hb => row_term_nonneg r f (fun b h1 h2 => le_of_lt (hdom b h1 h2)) b (mem_range.mp hb))
      ⟨r+1, mem_range.mpr (by omega), ?_⟩
    have h1 : 0 < gv (R := R) r (r+1) := gv_pos_iff.mpr (by omega)
    exact mul_pos h1 (by linarith [hdom (r+1) (by omega) (by omega)])
  linarith

theorem row_zero (r : Nat) (f : Nat → R) (hsym : ∀ b, b < 2*r+1 → f (2*r - b) = f b) :
    ∑ b ∈ range (2*r+1), gv r b * f b = 0 := by
  have h := two_mul_row r f
  have : ∑ b ∈ range (2*r+1), gv r b * (f b - f (2*r - b)) = 0 :=
    sum_eq_zero fun b hb => by rw [hsym b (mem_range.mp hb)]; ring
  linarith

/-- mirrored statement: the left half dominates -/
theorem row_nonpos (r : Nat) (f : Nat → R) (hdom : ∀ b, r < b → b < 2*r+1 → f b ≤ f (2*r - b)) :
    ∑ b ∈ range (2*r+1), gv r b * f b ≤ 0 := by
  have := row_nonneg r (fun b => - f b) (fun b h1 h2 => by simpa using hdom b h1 h2)
  simp only [mul_neg, sum_neg_distrib] at this
  linarith

theorem row_neg (r : Nat) (hr : 1 ≤ r) (f : Nat → R) (hdom : ∀ b, r < b → b < 2*r+1 → f b < f (2*r - b)) :
    ∑ b ∈ range (2*r+1), gv r b * f b < 0 := by
  have := row_pos r hr (fun b => - f b) (fun b h1 h2 => by simpa using hdom b h1 h2)
  simp only [mul_neg, sum_neg_distrib] at this
  linarith

/-! ### consequences for `xNum` -/

theorem xNum_zero_of_symm (r : Nat) (P : Nat → Nat → R)
    (hsym : ∀ a b, a < 2*r+1 → b < 2*r+1 → P a (2*r - b) = P a b) : xNum r P = 0 := by
  rw [xNum_eq]
  exact sum_eq_zero fun a ha => row_zero r (P a) fun b hb => hsym a b (mem_range.mp ha) hb

theorem xNum_nonneg (r : Nat) (P : Nat → Nat → R)
    (hdom : ∀ a b, a < 2*r+1 → r < b → b < 2*r+1 → P a (2*r - b) ≤ P a b) : 0 ≤ xNum r P := by
  rw [xNum_eq]
  exact sum_nonneg fun a ha => row_nonneg r (P a) fun b h1 h2 => hdom a b (mem_range.mp ha) h1 h2

theorem xNum_nonpos (r : Nat) (P : Nat → Nat → R)
    (hdom : ∀ a b, a < 2*r+1 → r < b → b < 2*r+1 → P a b ≤ P a (2*r - b)) : xNum r P ≤ 0 := by
  rw [xNum_eq]
  exact sum_nonpos fun a ha => row_nonpos r (P a) fun b h1 h2 => hdom a b (mem_range.mp ha) h1 h2

theorem xNum_pos (r : Nat) (hr : 1 ≤ r) (P : Nat → Nat → R)
    (hdom : ∀ a b, a < 2*r+1 → r < b → b < 2*r+1 → P a (2*r - b) < P a b) : 0 < xNum r P := by
  rw [xNum_eq]
  exact sum_pos (fun a ha => row_pos r hr (P a) fun b h1 h2 => hdom a b (mem_range.mp ha) h1 h2)
    ⟨0, mem_range.mpr (by omega)⟩

theorem xNum_neg (r : Nat) (hr : 1 ≤ r) (P : Nat → Nat → R)
    (hdom : ∀ a b, a < 2*r+1 → r < b → b < 2*r+1 → P a b < P a (2*r - b)) : xNum r P < 0 := by
  rw [xNum_eq]
  exact sum_neg (fun a ha => row_neg r hr (P a) fun b h1 h2 => hdom a b (mem_range.mp ha) h1 h2)
    ⟨0, mem_range.mpr (by omega)⟩

/-! ### refined point: half-patch bound -/

theorem refinePoint_bounded (h w : Nat) (img : Nat → Nat → R) (r x y : Nat)
    (hnn : ∀ a b, a < 2*r+1 → b < 2*r+1 → 0 ≤ patch h w img r x y a b)
    (hz : 0 < patchSum r (patch h w img r x y)) :
    ∃ px py, refinePoint h w img r x y = some (px, py) ∧ |px - x| ≤ r ∧ |py - y| ≤ r := by
  refine ⟨x + xNum r (patch h w img r x y) / patchSum r (patch h w img r x y),
          y + yNum r (patch h w img r x y) / patchSum r (patch h w img r x y), ?_, ?_, ?_⟩
  · unfold refinePoint
    rw [integralOffsets_of_pos r _ hz]; rfl
  · rw [add_sub_cancel_left, abs_div, abs_of_pos hz, div_le_iff₀ hz]
    exact abs_xNum_le r _ hnn
  · rw [add_sub_cancel_left, abs_div, abs_of_pos hz, div_le_iff₀ hz]
    exact abs_yNum_le r _ hnn


theorem refinePoint_bounded_of_nonneg_map (h w : Nat) (img : Nat → Nat → R) (r x y : Nat)
    (hx : x < w) (hy : y < h) (hnn : ∀ i j, 0 ≤ img i j) (hpos : 0 < img y x) :
    ∃ px py, refinePoint h w img r x y = some (px, py) ∧ |px - x| ≤ r ∧ |py - y| ≤ r := by
  have hP : ∀ a b, 0 ≤ patch h w img r x y a b := by
    intro a b
    unfold patch zeroPadAt
    split
    · exact hnn _ _
    · exact le_rfl
  apply refinePoint_bounded h w img r x y (fun a b _ _ => hP a b)
  rw [patchSum_eq]
  have hc : patch h w img r x y r r = img y x := by
    unfold patch zeroPadAt
    have : inB h w ((y : Int) - r + r) ((x : Int) - r + r) = true := by
      simp only [inB, Bool.and_eq_true, decide_eq_true_eq]; omega
    rw [if_pos this]
    congr 1 <;> omega
  have hr : r ∈ range (2*r+1) := mem_range.mpr (by omega)
  calc (0 : R) < patch h w img r x y r r := by rw [hc]; exact hpos
    _ ≤ ∑ b ∈ range (2*r+1), patch h w img r x y r b :=
        single_le_sum (f := fun b => patch h w img r x y r b) (fun b _ => hP r b) hr
    _ ≤ ∑ a ∈ range (2*r+1), ∑ b ∈ range (2*r+1), patch h w img r x y a b :=
        single_le_sum (f := fun a => ∑ b ∈ range (2*r+1), patch h w img r x y a b)
          (fun a _ => sum_nonneg fun b _ => hP a b) hr


end SleapVerif.Peaks
