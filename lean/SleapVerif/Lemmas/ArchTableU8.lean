import SleapVerif.Lemmas.ArchTable
/-! UNet table, filters = 8: `decide +kernel` over the certified rows (the quantifier IS the table). -/
namespace SleapVerif.Arch
theorem tableUnet_8_r1 : tableUnet 8 ⟨1, 1⟩ = true := by decide +kernel
theorem tableUnet_8_r32 : tableUnet 8 ⟨3, 2⟩ = true := by decide +kernel
theorem tableUnet_8_r2 : tableUnet 8 ⟨2, 1⟩ = true := by decide +kernel
theorem tableUnetCpb1_8 : tableUnetCpb1 8 = true := by decide +kernel
end SleapVerif.Arch
