import SleapVerif.Model.Grouping
/-! Helper lemmas for C08, part 1: the association list, connectivity, and the fold invariant
    "classes of the instance map = connected components of the processed connections". -/
namespace SleapVerif.Grouping

/-! ## lookup / insert -/

theorem lookup_nil (p : Peak) : lookup [] p = none := rfl

theorem lookup_cons (kv : Peak × Nat) (a : Assign) (p : Peak) :
    lookup (kv :: a) p = if kv.1 = p then some kv.2 else lookup a p := by
  unfold lookup
  by_cases h : kv.1 = p
  · simp [h]
  · have : (kv.1 == p) = false := by simpa using h
    simp [this, h]

theorem lookup_append (a b : Assign) (p : Peak) :
    lookup (a ++ b) p = (lookup a p).or (lookup b p) := by
  induction a with
  | nil => simp [lookup_nil]
  | cons kv a ih =>
    rw [List.cons_append, lookup_cons, lookup_cons, ih]
    by_cases h : kv.1 = p <;> simp [h]

/-- a map that keeps the keys -/
theorem lookup_mapVal (f : Peak × Nat → Nat) (a : Assign) (p : Peak) :
    lookup (a.map fun kv => (kv.1, f kv)) p
      = (a.find? (fun kv => kv.1 == p)).map f := by
  induction a with
  | nil => rfl
  | cons kv a ih =>
    rw [List.map_cons, lookup_cons]
    by_cases h : kv.1 = p
    · simp [h]
    · have : (kv.1 == p) = false := by simpa using h
      simp only [h, if_false, ih, List.find?_cons, this]

theorem find_key {a : Assign} {p : Peak} {kv : Peak × Nat}
    (h : a.find? (fun kv => kv.1 == p) = some kv) : kv.1 = p := by
  have := List.find?_some h
  simpa using this

theorem lookup_isSome_iff {a : Assign} {p : Peak} : (lookup a p).isSome ↔ p ∈ a.map (·.1) := by
  induction a with
  | nil => simp [lookup_nil]
  | cons kv a ih =>
    rw [lookup_cons]
    by_cases h : kv.1 = p
    · simp [h]
    · simp only [h, if_false, ih, List.map_cons, List.mem_cons]
      constructor
      · exact Or.inr
      · rintro (h' | h')
        · exact absurd h'.symm h
        · exact h'

theorem lookup_some_mem {a : Assign} {p : Peak} {i : Nat} (h : lookup a p = some i) : (p, i) ∈ a := by
  unfold lookup at h
  cases hf : a.find? (fun kv => kv.1 == p) with
  | none => simp [hf] at h
  | some kv =>
    simp [hf] at h
    have hk := find_key hf
    have hm := List.mem_of_find?_eq_some hf
    rw [← hk, ← h]; exact hm

theorem lookup_insert (a : Assign) (p : Peak) (i : Nat) (q : Peak) :
    lookup (insert a p i) q = if q = p then some i else lookup a q := by
  unfold insert
  by_cases hp : (lookup a p).isSome
  · simp only [hp, if_true]
    have hmap : (a.map fun kv => if kv.1 == p then (kv.1, i) else kv)
        = a.map fun kv => (kv.1, if kv.1 == p then i else kv.2) := by
      apply List.map_congr_left; intro kv _
      by_cases h : kv.1 = p <;> simp [h]
    rw [hmap, lookup_mapVal (fun kv => if kv.1 == p then i else kv.2)]
    by_cases hq : q = p
    · subst hq
      simp only [if_true]
      unfold lookup at hp
      cases hf : a.find? (fun kv => kv.1 == q) with
      | none => simp [hf] at hp
      | some kv => simp [find_key hf]
    · simp only [hq, if_false]
      unfold lookup
      cases hf : a.find? (fun kv => kv.1 == q) with
      | none => rfl
      | some kv =>
        have hk := find_key hf
        have : ¬ kv.1 = p := by rw [hk]; exact hq
        simp [this]
  · simp only [hp]
    have hnone : lookup a p = none := by
      cases h : lookup a p with
      | none => rfl
      | some _ => simp [h] at hp
    rw [if_neg (by simp), lookup_append, lookup_cons, lookup_nil]
    by_cases hq : q = p
    · subst hq; simp [hnone]
    · have : ¬ p = q := fun h => hq h.symm
      simp [hq, this]

theorem keys_insert (a : Assign) (p : Peak) (i : Nat) :
    (insert a p i).map (·.1) = if (lookup a p).isSome then a.map (·.1) else a.map (·.1) ++ [p] := by
  unfold insert
  by_cases hp : (lookup a p).isSome
  · simp only [hp, if_true, List.map_map]
    apply List.map_congr_left; intro kv _
    by_cases h : kv.1 = p <;> simp [h]
  · simp [hp]

theorem keys_nodup_insert {a : Assign} (h : (a.map (·.1)).Nodup) (p : Peak) (i : Nat) :
    ((insert a p i).map (·.1)).Nodup := by
  rw [keys_insert]
  by_cases hp : (lookup a p).isSome
  · simp [hp, h]
  · simp only [hp]
    have : p ∉ a.map (·.1) := fun hm => hp (lookup_isSome_iff.mpr hm)
    refine List.nodup_append.mpr ⟨h, by simp, ?_⟩
    intro x hx y hy hxy
    simp at hy; subst hy; subst hxy; exact this hx

/-- a map that keeps the keys keeps them -/
theorem keys_mapVal (f : Peak × Nat → Nat) (a : Assign) :
    (a.map fun kv => (kv.1, f kv)).map (·.1) = a.map (·.1) := by
  simp [List.map_map, Function.comp_def]

theorem foldl_max_ge (a : Assign) (m : Nat) :
    m ≤ a.foldl (fun m kv => max m (kv.2 + 1)) m ∧
    ∀ kv ∈ a, kv.2 < a.foldl (fun m kv => max m (kv.2 + 1)) m := by
  induction a generalizing m with
  | nil => simp
  | cons x a ih =>
    simp only [List.foldl_cons, List.mem_cons]
    obtain ⟨h1, h2⟩ := ih (max m (x.2 + 1))
    refine ⟨by omega, ?_⟩
    rintro kv (rfl | hkv)
    · omega
    · exact h2 kv hkv

theorem lt_nextId {a : Assign} {kv : Peak × Nat} (h : kv ∈ a) : kv.2 < nextId a :=
  (foldl_max_ge a 0).2 kv h

theorem lookup_lt_nextId {a : Assign} {p : Peak} {i : Nat} (h : lookup a p = some i) : i < nextId a :=
  lt_nextId (lookup_some_mem h)

/-! ## connectivity generated by a list of (src, dst) pairs -/

inductive Connected (cs : List (Peak × Peak)) : Peak → Peak → Prop
  | edge {p q} : (p, q) ∈ cs → Connected cs p q
  | refl (p) : Connected cs p p
  | symm {p q} : Connected cs p q → Connected cs q p
  | trans {p q r} : Connected cs p q → Connected cs q r → Connected cs p r

def endpoints (cs : List (Peak × Peak)) : List Peak := cs.flatMap (fun c => [c.1, c.2])

theorem mem_endpoints {cs : List (Peak × Peak)} {p : Peak} :
    p ∈ endpoints cs ↔ ∃ c ∈ cs, p = c.1 ∨ p = c.2 := by
  simp [endpoints, List.mem_flatMap]

theorem endpoints_append (cs cs' : List (Peak × Peak)) :
    endpoints (cs ++ cs') = endpoints cs ++ endpoints cs' := by
  simp [endpoints]

theorem Connected.mono {cs cs' : List (Peak × Peak)} (h : ∀ c ∈ cs, c ∈ cs') {p q : Peak}
    (hc : Connected cs p q) : Connected cs' p q := by
  induction hc with
  | edge e => exact .edge (h _ e)
  | refl p => exact .refl p
  | symm _ ih => exact .symm ih
  | trans _ _ ih1 ih2 => exact .trans ih1 ih2

/-- a vertex that is no endpoint is connected only to itself -/
theorem connected_not_endpoint {cs : List (Peak × Peak)} {s : Peak} (hs : s ∉ endpoints cs)
    {p q : Peak} (h : Connected cs p q) : p = s ↔ q = s := by
  induction h with
  | @edge p q e =>
    have hp : p ≠ s := by
      intro hps; apply hs; subst hps; exact mem_endpoints.mpr ⟨_, e, Or.inl rfl⟩
    have hq : q ≠ s := by
      intro hqs; apply hs; subst hqs; exact mem_endpoints.mpr ⟨_, e, Or.inr rfl⟩
    simp [hp, hq]
  | refl p => exact Iff.rfl
  | symm _ ih => exact ih.symm
  | trans _ _ ih1 ih2 => exact ih1.trans ih2

/-- Retraction: adding the edge `(s,d)` with `d` fresh; collapsing `d` onto `s` maps new
    connectivity into old connectivity (and back). -/
theorem connected_retract {cs : List (Peak × Peak)} {s d : Peak} (hd : d ∉ endpoints cs) {p q : Peak}
    (h : Connected (cs ++ [(s, d)]) p q) :
    Connected cs (if p = d then s else p) (if q = d then s else q) := by
  induction h with
  | @edge p q e =>
    rcases List.mem_append.mp e with e1 | e2
    · have hp : p ≠ d := by
        intro hpd; apply hd; subst hpd; exact mem_endpoints.mpr ⟨_, e1, Or.inl rfl⟩
      have hq : q ≠ d := by
        intro hqd; apply hd; subst hqd; exact mem_endpoints.mpr ⟨_, e1, Or.inr rfl⟩
      simp only [hp, hq, if_false]; exact .edge e1
    · simp at e2
      obtain ⟨rfl, rfl⟩ := e2
      by_cases hsd : p = q
      · simp [hsd]; exact .refl _
      · simp [hsd]; exact .refl _
  | refl p => exact .refl _
  | symm _ ih => exact .symm ih
  | trans _ _ ih1 ih2 => exact .trans ih1 ih2

theorem connected_retract_iff {cs : List (Peak × Peak)} {s d : Peak} (hd : d ∉ endpoints cs)
    (p q : Peak) :
    Connected (cs ++ [(s, d)]) p q ↔
      Connected cs (if p = d then s else p) (if q = d then s else q) := by
  constructor
  · exact connected_retract hd
  · intro h
    have up : ∀ x, Connected (cs ++ [(s, d)]) x (if x = d then s else x) := by
      intro x
      by_cases hx : x = d
      · subst hx; simp only [if_true]; exact .symm (.edge (by simp))
      · simp only [hx, if_false]; exact .refl _
    exact .trans (up p) (.trans (h.mono (fun c hc => List.mem_append.mpr (.inl hc))) (.symm (up q)))

/-! ## the fold invariant -/

/-- every endpoint of a processed connection is assigned, and two assigned peaks carry the same
    instance id iff they are connected by processed connections -/
structure WInv (a : Assign) (cs : List (Peak × Peak)) : Prop where
  cover : ∀ p ∈ endpoints cs, (lookup a p).isSome
  cls : ∀ p q i j, lookup a p = some i → lookup a q = some j → (i = j ↔ Connected cs p q)

theorem WInv.not_endpoint {a : Assign} {cs : List (Peak × Peak)} (I : WInv a cs) {p : Peak}
    (h : lookup a p = none) : p ∉ endpoints cs := by
  intro hp; have := I.cover p hp; simp [h] at this

/-- add an isolated vertex with a fresh id -/
theorem WInv.addIsolated {a : Assign} {cs : List (Peak × Peak)} (I : WInv a cs) {s : Peak} {i : Nat}
    (hs : lookup a s = none) (hi : ∀ q j, lookup a q = some j → j ≠ i) :
    WInv (insert a s i) cs := by
  have hse := I.not_endpoint hs
  refine ⟨?_, ?_⟩
  · intro p hp
    rw [lookup_insert]
    by_cases h : p = s
    · simp [h]
    · simp only [h, if_false]; exact I.cover p hp
  · intro p q i' j' h1 h2
    rw [lookup_insert] at h1 h2
    by_cases hp : p = s <;> by_cases hq : q = s
    · subst hp; subst hq
      simp only [if_true, Option.some.injEq] at h1 h2
      subst h1; subst h2
      exact ⟨fun _ => .refl _, fun _ => rfl⟩
    · subst hp
      simp only [if_true, Option.some.injEq, hq, if_false] at h1 h2
      subst h1
      constructor
      · intro h; exact absurd h.symm (hi q j' h2)
      · intro h; exact absurd ((connected_not_endpoint hse h).mp rfl) hq
    · subst hq
      simp only [if_true, Option.some.injEq, hp, if_false] at h1 h2
      subst h2
      constructor
      · intro h; exact absurd h (hi p i' h1)
      · intro h; exact absurd ((connected_not_endpoint hse h).mpr rfl) hp
    · simp only [hp, hq, if_false] at h1 h2
      exact I.cls p q i' j' h1 h2

/-- add a pendant edge `s → d`, `d` unassigned, `d` inherits the id of `s` -/
theorem WInv.addPendant {a : Assign} {cs : List (Peak × Peak)} (I : WInv a cs) {s d : Peak} {i : Nat}
    (hs : lookup a s = some i) (hd : lookup a d = none) :
    WInv (insert a d i) (cs ++ [(s, d)]) := by
  have hde := I.not_endpoint hd
  have hlk : ∀ p, lookup (insert a d i) p = lookup a (if p = d then s else p) := by
    intro p
    rw [lookup_insert]
    by_cases h : p = d <;> simp [h, hs]
  refine ⟨?_, ?_⟩
  · intro p hp
    rw [endpoints_append] at hp
    rcases List.mem_append.mp hp with h | h
    · rw [hlk]
      by_cases hpd : p = d
      · simp [hpd, hs]
      · simp only [hpd, if_false]; exact I.cover p h
    · simp [endpoints] at h
      rcases h with h | h
      · subst h
        rw [lookup_insert]
        by_cases hpd : p = d <;> simp [hpd, hs]
      · subst h; rw [lookup_insert]; simp
  · intro p q i' j' h1 h2
    rw [hlk] at h1 h2
    rw [connected_retract_iff hde]
    exact I.cls _ _ i' j' h1 h2

/-- keys are endpoints of processed connections -/
def KeysSub (a : Assign) (cs : List (Peak × Peak)) : Prop :=
  ∀ p, (lookup a p).isSome → p ∈ endpoints cs

/-- every connection's destination is new when it is processed -/
def DstFresh (cs : List (Peak × Peak)) : Prop :=
  cs.Pairwise (fun c c' => c'.2 ≠ c.1 ∧ c'.2 ≠ c.2) ∧ ∀ c ∈ cs, c.2 ≠ c.1

theorem DstFresh.prefix {pre post : List (Peak × Peak)} (h : DstFresh (pre ++ post)) : DstFresh pre :=
  ⟨(List.pairwise_append.mp h.1).1, fun c hc => h.2 c (List.mem_append.mpr (.inl hc))⟩

theorem DstFresh.fresh {pre post : List (Peak × Peak)} {c : Peak × Peak}
    (h : DstFresh (pre ++ c :: post)) : c.2 ∉ endpoints pre ∧ c.2 ≠ c.1 := by
  refine ⟨?_, h.2 c (by simp)⟩
  intro hm
  obtain ⟨c', hc', hor⟩ := mem_endpoints.mp hm
  have := (List.pairwise_append.mp h.1).2.2 c' hc' c (by simp)
  rcases hor with h1 | h1
  · exact this.1 h1
  · exact this.2 h1

structure FInv (a : Assign) (cs : List (Peak × Peak)) : Prop extends WInv a cs where
  keys : KeysSub a cs
  nodupKeys : (a.map (·.1)).Nodup

theorem finv_nil : FInv [] [] :=
  { cover := by intro p hp; simp [endpoints] at hp
    cls := by intro p q i j h; simp [lookup_nil] at h
    keys := by intro p h; simp [lookup_nil] at h
    nodupKeys := by simp }

/-- when the destination is unassigned only cases 1 and 2 of the code can fire -/
theorem astep_dst_none {a : Assign} {s d : Peak} (hd : lookup a d = none) :
    astep a s d = match lookup a s with
      | none => insert (insert a s (nextId a)) d (nextId a)
      | some i => insert a d i := by
  unfold astep
  cases lookup a s <;> simp [hd]

theorem finv_step {a : Assign} {pre : List (Peak × Peak)} (I : FInv a pre) {c : Peak × Peak}
    (hfresh : c.2 ∉ endpoints pre) (hne : c.2 ≠ c.1) :
    lookup a c.2 = none ∧ FInv (astep a c.1 c.2) (pre ++ [c]) := by
  have hd : lookup a c.2 = none := by
    cases h : lookup a c.2 with
    | none => rfl
    | some j => exact absurd (I.keys c.2 (by simp [h])) hfresh
  refine ⟨hd, ?_⟩
  rw [astep_dst_none hd]
  have hc : c = (c.1, c.2) := rfl
  cases hs : lookup a c.1 with
  | none =>
    simp only
    have I1 : WInv (insert a c.1 (nextId a)) pre :=
      I.toWInv.addIsolated hs (fun q j hq => Nat.ne_of_lt (lookup_lt_nextId hq))
    have hs1 : lookup (insert a c.1 (nextId a)) c.1 = some (nextId a) := by
      rw [lookup_insert]; simp
    have hd1 : lookup (insert a c.1 (nextId a)) c.2 = none := by
      rw [lookup_insert]; simp [hne, hd]
    have I2 := I1.addPendant hs1 hd1
    refine { toWInv := by rw [hc]; exact I2, keys := ?_, nodupKeys := ?_ }
    · intro p hp
      rw [lookup_insert, lookup_insert] at hp
      rw [endpoints_append]
      by_cases h2 : p = c.2
      · exact List.mem_append.mpr (.inr (by simp [endpoints, h2]))
      · by_cases h1 : p = c.1
        · exact List.mem_append.mpr (.inr (by simp [endpoints, h1]))
        · simp only [h1, h2, if_false] at hp
          exact List.mem_append.mpr (.inl (I.keys p hp))
    · exact keys_nodup_insert (keys_nodup_insert I.nodupKeys _ _) _ _
  | some i =>
    simp only
    have I2 := I.toWInv.addPendant hs hd
    refine { toWInv := by rw [hc]; exact I2, keys := ?_, nodupKeys := ?_ }
    · intro p hp
      rw [lookup_insert] at hp
      rw [endpoints_append]
      by_cases h2 : p = c.2
      · exact List.mem_append.mpr (.inr (by simp [endpoints, h2]))
      · simp only [h2, if_false] at hp
        exact List.mem_append.mpr (.inl (I.keys p hp))
    · exact keys_nodup_insert I.nodupKeys _ _

theorem finv_fold (post : List (Peak × Peak)) : ∀ (pre : List (Peak × Peak)) (a : Assign),
    FInv a pre → DstFresh (pre ++ post) →
    FInv (post.foldl (fun a c => astep a c.1 c.2) a) (pre ++ post) := by
  induction post with
  | nil => intro pre a I _; simpa using I
  | cons c post ih =>
    intro pre a I hf
    obtain ⟨h1, h2⟩ := hf.fresh
    have I' := (finv_step I h1 h2).2
    have := ih (pre ++ [c]) _ I' (by simpa using hf)
    simpa using this

theorem finv_assignRaw {cs : List (Peak × Peak)} (h : DstFresh cs) : FInv (assignRaw cs) cs := by
  have := finv_fold cs [] [] finv_nil (by simpa using h)
  simpa [assignRaw] using this

theorem assignRaw_append (pre post : List (Peak × Peak)) :
    assignRaw (pre ++ post) = post.foldl (fun a c => astep a c.1 c.2) (assignRaw pre) := by
  simp [assignRaw, List.foldl_append]

end SleapVerif.Grouping
