import SleapVerif.Model.Oks
import SleapVerif.Lemmas.Transc
import Mathlib.Algebra.Order.Field.Basic
import Mathlib.Tactic.Linarith
import Mathlib.Tactic.Ring
import Mathlib.Tactic.FieldSimp

/-! Helper lemmas for C15 (numeric part: OKS over an ordered field with a lawful `exp`). -/
set_option linter.unusedSectionVars false
namespace SleapVerif.Oks

variable {R : Type} [Field R] [LinearOrder R] [IsStrictOrderedRing R]

theorem minR_eq (a b : R) : minR a b = min a b := by
  unfold minR; rcases lt_or_ge b a with h | h
  · rw [if_pos h, min_eq_right h.le]
  · rw [if_neg (not_lt.mpr h), min_eq_left h]

theorem maxR_eq (a b : R) : maxR a b = max a b := by
  unfold maxR; rcases lt_or_ge a b with h | h
  · rw [if_pos h, max_eq_right h.le]
  · rw [if_neg (not_lt.mpr h), max_eq_left h]

theorem d2_nonneg (g p : R × R) : 0 ≤ d2 g p := by
  unfold d2; exact add_nonneg (mul_self_nonneg _) (mul_self_nonneg _)

theorem d2_self (g : R × R) : d2 g g = 0 := by unfold d2; ring

theorem normFactor_pos (coco : Bool) {eps sd s : R} (he : 0 < eps) (hsd : 0 < sd) (hs : 0 ≤ s) :
    0 < normFactor coco eps sd s := by
  have hu : 0 < s + eps := by linarith
  have h2 : (0 : R) < 2 := two_pos
  unfold normFactor
  cases coco
  · simp only [Bool.false_eq_true, if_false]
    exact mul_pos (mul_pos hsd hsd) (mul_pos h2 (mul_pos hu hu))
  · simp only [if_true]
    exact mul_pos (mul_pos (mul_pos h2 hsd) (mul_pos h2 hsd)) (mul_pos h2 hu)

variable (T : Transc R)

theorem ks_nonneg (coco : Bool) (eps s : R) (n : Node R) : 0 ≤ ks T.exp coco eps s n := by
  unfold ks
  cases vis n.g with
  | none => exact le_refl _
  | some g =>
    cases vis n.p with
    | none => exact le_refl _
    | some p => exact (T.exp_pos _).le

theorem ks_invisible_gt (coco : Bool) (eps s : R) (n : Node R) (h : isVis n.g = false) :
    ks T.exp coco eps s n = 0 := by
  unfold isVis at h
  unfold ks
  cases hv : vis n.g with
  | none => rfl
  | some g => rw [hv] at h; simp at h

theorem ks_missing_pred (coco : Bool) (eps s : R) (n : Node R) (h : vis n.p = none) :
    ks T.exp coco eps s n = 0 := by
  unfold ks
  cases vis n.g with
  | none => rfl
  | some g => simp only [h]

theorem ks_le_one (coco : Bool) {eps s : R} (he : 0 < eps) (hs : 0 ≤ s) (n : Node R) (hsd : 0 < n.sd) :
    ks T.exp coco eps s n ≤ 1 := by
  unfold ks
  cases vis n.g with
  | none => exact zero_le_one
  | some g =>
    cases vis n.p with
    | none => exact zero_le_one
    | some p =>
      apply T.exp_le_one
      have := div_nonneg (d2_nonneg g p) (normFactor_pos coco he hsd hs).le
      linarith

/-- a visible ground-truth keypoint predicted exactly has KS 1 (no positivity needed: `0/x = 0`) -/
theorem ks_self (coco : Bool) (eps s sd : R) (g : Pt R) (h : isVis g = true) :
    ks T.exp coco eps s ⟨sd, g, g⟩ = 1 := by
  unfold isVis at h
  unfold ks
  cases hv : vis g with
  | none => rw [hv] at h; simp at h
  | some q => simp only [d2_self, zero_div, neg_zero, T.exp_zero]

theorem sumR_cons (a : R) (l : List R) : sumR (a :: l) = a + sumR l := rfl

theorem sumR_nil : sumR ([] : List R) = 0 := rfl

theorem sumR_append (l1 l2 : List R) : sumR (l1 ++ l2) = sumR l1 + sumR l2 := by
  induction l1 with
  | nil => simp [sumR_nil]
  | cons a t ih => simp only [List.cons_append, sumR_cons, ih]; ring

theorem nVis_cons (n : Node R) (l : List (Node R)) :
    nVis (n :: l) = (if isVis n.g then 1 else 0) + nVis l := by
  unfold nVis
  rw [List.filter_cons]
  split <;> simp [Nat.add_comm]

theorem nVisR_eq (l : List (Node R)) : nVisR l = (nVis l : R) := by
  induction l with
  | nil => simp [nVisR, nVis, sumR]
  | cons n t ih =>
    have : nVisR (n :: t) = (if isVis n.g then (1 : R) else 0) + nVisR t := rfl
    rw [this, ih, nVis_cons]
    split <;> simp

theorem sum_ks_nonneg (coco : Bool) (eps s : R) (l : List (Node R)) :
    0 ≤ sumR (l.map (ks T.exp coco eps s)) := by
  induction l with
  | nil => exact le_refl _
  | cons n t ih => exact add_nonneg (ks_nonneg T coco eps s n) ih

theorem sum_ks_le (coco : Bool) {eps s : R} (he : 0 < eps) (hs : 0 ≤ s) (l : List (Node R))
    (hsd : ∀ n ∈ l, 0 < n.sd) : sumR (l.map (ks T.exp coco eps s)) ≤ nVisR l := by
  induction l with
  | nil => exact le_refl _
  | cons n t ih =>
    have iht := ih (fun m hm => hsd m (List.mem_cons_of_mem _ hm))
    have hn := hsd n List.mem_cons_self
    show ks T.exp coco eps s n + sumR (t.map (ks T.exp coco eps s)) ≤
      (if isVis n.g then (1 : R) else 0) + nVisR t
    cases hv : isVis n.g with
    | true => simp only [if_true]; have := ks_le_one T coco he hs n hn; linarith
    | false =>
      rw [ks_invisible_gt T coco eps s n hv]
      simp only [Bool.false_eq_true, if_false]; linarith

theorem nVisR_pos (l : List (Node R)) (h : nVis l ≠ 0) : 0 < nVisR l := by
  rw [nVisR_eq]; exact_mod_cast Nat.pos_of_ne_zero h

theorem oksNodes_eq_some (exp : R → R) (coco : Bool) (eps s : R) (l : List (Node R)) (h : nVis l ≠ 0) :
    oksNodes exp coco eps s l = some (sumR (l.map (ks exp coco eps s)) / nVisR l) := by
  unfold oksNodes; rw [if_neg h]

theorem oksNodes_eq_none (exp : R → R) (coco : Bool) (eps s : R) (l : List (Node R)) :
    oksNodes exp coco eps s l = none ↔ nVis l = 0 := by
  unfold oksNodes; split <;> simp_all

/-- pointwise comparison of two node lists with the same ground truth -/
theorem sum_ks_mono (coco : Bool) (eps s : R) {l l' : List (Node R)}
    (h : List.Forall₂ (fun a b => a.g = b.g ∧ ks T.exp coco eps s a ≤ ks T.exp coco eps s b) l l') :
    nVis l = nVis l' ∧ sumR (l.map (ks T.exp coco eps s)) ≤ sumR (l'.map (ks T.exp coco eps s)) := by
  induction h with
  | nil => exact ⟨rfl, le_refl _⟩
  | cons hab _ ih =>
    refine ⟨?_, ?_⟩
    · rw [nVis_cons, nVis_cons, hab.1, ih.1]
    · simp only [List.map_cons, sumR_cons]; linarith [hab.2, ih.2]

theorem sum_ks_congr (exp : R → R) (coco : Bool) (eps s : R) {l l' : List (Node R)}
    (h : List.Forall₂ (fun a b => a.g = b.g ∧ ks exp coco eps s a = ks exp coco eps s b) l l') :
    nVis l = nVis l' ∧ sumR (l.map (ks exp coco eps s)) = sumR (l'.map (ks exp coco eps s)) := by
  induction h with
  | nil => exact ⟨rfl, rfl⟩
  | cons hab _ ih =>
    refine ⟨?_, ?_⟩
    · rw [nVis_cons, nVis_cons, hab.1, ih.1]
    · simp only [List.map_cons, sumR_cons, hab.2, ih.2]

/-! ### translation -/

def shiftPt (t : R × R) (p : Pt R) : Pt R := (p.1.map (· + t.1), p.2.map (· + t.2))

theorem vis_shift (t : R × R) (p : Pt R) :
    vis (shiftPt t p) = (vis p).map (fun q => (q.1 + t.1, q.2 + t.2)) := by
  obtain ⟨x, y⟩ := p
  cases x <;> cases y <;> rfl

theorem isVis_shift (t : R × R) (p : Pt R) : isVis (shiftPt t p) = isVis p := by
  unfold isVis; rw [vis_shift]; cases vis p <;> rfl

theorem d2_shift (t g p : R × R) : d2 (g.1 + t.1, g.2 + t.2) (p.1 + t.1, p.2 + t.2) = d2 g p := by
  unfold d2; ring

theorem ks_shift (exp : R → R) (coco : Bool) (eps s : R) (t : R × R) (n : Node R) :
    ks exp coco eps s ⟨n.sd, shiftPt t n.g, shiftPt t n.p⟩ = ks exp coco eps s n := by
  unfold ks
  simp only [vis_shift]
  cases vis n.g with
  | none => rfl
  | some g =>
    cases vis n.p with
    | none => rfl
    | some p => simp only [Option.map_some, d2_shift]

theorem mkNodes_shift (t : R × R) : ∀ (sds : List R) (g p : List (Pt R)),
    mkNodes sds (g.map (shiftPt t)) (p.map (shiftPt t)) =
      (mkNodes sds g p).map (fun n => ⟨n.sd, shiftPt t n.g, shiftPt t n.p⟩)
  | [], _, _ => by simp [mkNodes]
  | _ :: _, [], _ => by simp [mkNodes]
  | _ :: _, _ :: _, [] => by simp [mkNodes]
  | sd :: sds, g :: gs, p :: ps => by
    simp only [List.map_cons, mkNodes, mkNodes_shift t sds gs ps]

theorem nanFold_min_shift (c : R) : ∀ l : List (Option R),
    nanFold minR (l.map (Option.map (· + c))) = (nanFold minR l).map (· + c)
  | [] => rfl
  | none :: t => by simp only [List.map_cons, Option.map_none, nanFold, nanFold_min_shift c t]
  | some a :: t => by
    simp only [List.map_cons, Option.map_some, nanFold, nanFold_min_shift c t]
    cases nanFold minR t with
    | none => rfl
    | some b => simp only [Option.map_some, minR_eq, min_add_add_right]

theorem nanFold_max_shift (c : R) : ∀ l : List (Option R),
    nanFold maxR (l.map (Option.map (· + c))) = (nanFold maxR l).map (· + c)
  | [] => rfl
  | none :: t => by simp only [List.map_cons, Option.map_none, nanFold, nanFold_max_shift c t]
  | some a :: t => by
    simp only [List.map_cons, Option.map_some, nanFold, nanFold_max_shift c t]
    cases nanFold maxR t with
    | none => rfl
    | some b => simp only [Option.map_some, maxR_eq, max_add_add_right]

theorem area_shift (t : R × R) (g : List (Pt R)) : area (g.map (shiftPt t)) = area g := by
  have h1 : (g.map (shiftPt t)).map (·.1) = (g.map (·.1)).map (Option.map (· + t.1)) := by
    simp [List.map_map, shiftPt, Function.comp_def]
  have h2 : (g.map (shiftPt t)).map (·.2) = (g.map (·.2)).map (Option.map (· + t.2)) := by
    simp [List.map_map, shiftPt, Function.comp_def]
  unfold area
  rw [h1, h2, nanFold_min_shift, nanFold_max_shift, nanFold_min_shift, nanFold_max_shift]
  cases nanFold minR (g.map (·.1)) <;> cases nanFold maxR (g.map (·.1)) <;>
    cases nanFold minR (g.map (·.2)) <;> cases nanFold maxR (g.map (·.2)) <;>
    simp only [Option.map_some, Option.map_none]
  congr 1; ring

theorem nVis_map_shift (t : R × R) (l : List (Node R)) :
    nVis (l.map (fun n => (⟨n.sd, shiftPt t n.g, shiftPt t n.p⟩ : Node R))) = nVis l := by
  induction l with
  | nil => rfl
  | cons n tl ih => simp only [List.map_cons, nVis_cons, ih, isVis_shift]

theorem nVisR_map_shift (t : R × R) (l : List (Node R)) :
    nVisR (l.map (fun n => (⟨n.sd, shiftPt t n.g, shiftPt t n.p⟩ : Node R))) = nVisR l := by
  rw [nVisR_eq, nVisR_eq, nVis_map_shift]

/-! ### IoU (`tracking/utils.py::compute_iou`) -/

theorem iou_unfold (x1 y1 X1 Y1 x2 y2 X2 Y2 : R) :
    iou (x1, y1, X1, Y1) (x2, y2, X2, Y2) =
      (max 0 (min X1 X2 - max x1 x2 + 1) * max 0 (min Y1 Y2 - max y1 y2 + 1)) /
        ((X1 - x1 + 1) * (Y1 - y1 + 1) + (X2 - x2 + 1) * (Y2 - y2 + 1) -
          max 0 (min X1 X2 - max x1 x2 + 1) * max 0 (min Y1 Y2 - max y1 y2 + 1)) := by
  simp only [iou, minR_eq, maxR_eq]

theorem iou_bounds (x1 y1 X1 Y1 x2 y2 X2 Y2 : R) (h1 : x1 ≤ X1) (h2 : y1 ≤ Y1) (h3 : x2 ≤ X2)
    (h4 : y2 ≤ Y2) :
    0 ≤ iou (x1, y1, X1, Y1) (x2, y2, X2, Y2) ∧ iou (x1, y1, X1, Y1) (x2, y2, X2, Y2) ≤ 1 := by
  rw [iou_unfold]
  have w0 : (0 : R) ≤ max 0 (min X1 X2 - max x1 x2 + 1) := le_max_left _ _
  have g0 : (0 : R) ≤ max 0 (min Y1 Y2 - max y1 y2 + 1) := le_max_left _ _
  have ww1 : max 0 (min X1 X2 - max x1 x2 + 1) ≤ X1 - x1 + 1 :=
    max_le (by linarith) (by have := min_le_left X1 X2; have := le_max_left x1 x2; linarith)
  have ww2 : max 0 (min X1 X2 - max x1 x2 + 1) ≤ X2 - x2 + 1 :=
    max_le (by linarith) (by have := min_le_right X1 X2; have := le_max_right x1 x2; linarith)
  have gg1 : max 0 (min Y1 Y2 - max y1 y2 + 1) ≤ Y1 - y1 + 1 :=
    max_le (by linarith) (by have := min_le_left Y1 Y2; have := le_max_left y1 y2; linarith)
  have gg2 : max 0 (min Y1 Y2 - max y1 y2 + 1) ≤ Y2 - y2 + 1 :=
    max_le (by linarith) (by have := min_le_right Y1 Y2; have := le_max_right y1 y2; linarith)
  generalize max 0 (min X1 X2 - max x1 x2 + 1) = w at *
  generalize max 0 (min Y1 Y2 - max y1 y2 + 1) = g at *
  have i1 : w * g ≤ (X1 - x1 + 1) * (Y1 - y1 + 1) := mul_le_mul ww1 gg1 g0 (by linarith)
  have i2 : w * g ≤ (X2 - x2 + 1) * (Y2 - y2 + 1) := mul_le_mul ww2 gg2 g0 (by linarith)
  have a2 : (1 : R) ≤ (X2 - x2 + 1) * (Y2 - y2 + 1) :=
    one_le_mul_of_one_le_of_one_le (by linarith) (by linarith)
  have upos : 0 < (X1 - x1 + 1) * (Y1 - y1 + 1) + (X2 - x2 + 1) * (Y2 - y2 + 1) - w * g := by linarith
  refine ⟨div_nonneg (mul_nonneg w0 g0) upos.le, ?_⟩
  rw [div_le_one upos]; linarith

theorem iou_self_eq (x1 y1 X1 Y1 : R) (h1 : x1 ≤ X1) (h2 : y1 ≤ Y1) :
    iou (x1, y1, X1, Y1) (x1, y1, X1, Y1) = 1 := by
  rw [iou_unfold]
  simp only [min_self, max_self]
  rw [max_eq_right (by linarith : (0 : R) ≤ X1 - x1 + 1), max_eq_right (by linarith : (0 : R) ≤ Y1 - y1 + 1)]
  have : (1 : R) ≤ (X1 - x1 + 1) * (Y1 - y1 + 1) :=
    one_le_mul_of_one_le_of_one_le (by linarith) (by linarith)
  rw [add_sub_cancel_right]
  exact div_self (by linarith)

theorem iou_comm (x1 y1 X1 Y1 x2 y2 X2 Y2 : R) :
    iou (x1, y1, X1, Y1) (x2, y2, X2, Y2) = iou (x2, y2, X2, Y2) (x1, y1, X1, Y1) := by
  rw [iou_unfold, iou_unfold, min_comm X1 X2, max_comm x1 x2, min_comm Y1 Y2, max_comm y1 y2,
    add_comm ((X1 - x1 + 1) * (Y1 - y1 + 1))]

theorem nanFold_min_le_max : ∀ (l : List (Option R)) (a b : R),
    nanFold minR l = some a → nanFold maxR l = some b → a ≤ b
  | [], _, _, h, _ => by simp [nanFold] at h
  | none :: t, a, b, h1, h2 => by
      simp only [nanFold] at h1 h2; exact nanFold_min_le_max t a b h1 h2
  | some x :: t, a, b, h1, h2 => by
      simp only [nanFold] at h1 h2
      cases hm : nanFold minR t with
      | none =>
        cases hM : nanFold maxR t with
        | none => rw [hm] at h1; rw [hM] at h2; simp at h1 h2; rw [← h1, ← h2]
        | some M =>
          rw [hm] at h1; rw [hM] at h2; simp at h1 h2
          rw [← h1, ← h2, maxR_eq]; exact le_max_left _ _
      | some m =>
        cases hM : nanFold maxR t with
        | none => rw [hm] at h1; rw [hM] at h2; simp at h1 h2; rw [← h1, ← h2, minR_eq]; exact min_le_left _ _
        | some M =>
          rw [hm] at h1; rw [hM] at h2; simp at h1 h2
          rw [← h1, ← h2, minR_eq, maxR_eq]
          exact le_trans (min_le_left _ _) (le_max_left _ _)

theorem nanFold_some_of_mem (f : R → R → R) : ∀ (l : List (Option R)), (∃ x, some x ∈ l) →
    ∃ v, nanFold f l = some v
  | [], h => by obtain ⟨x, hx⟩ := h; simp at hx
  | none :: t, h => by
    obtain ⟨x, hx⟩ := h
    simp only [List.mem_cons] at hx
    rcases hx with hx | hx
    · cases hx
    · simp only [nanFold]; exact nanFold_some_of_mem f t ⟨x, hx⟩
  | some a :: t, _ => by
    simp only [nanFold]
    cases nanFold f t with
    | none => exact ⟨a, rfl⟩
    | some b => exact ⟨f a b, rfl⟩

end SleapVerif.Oks
