import SleapVerif.Lemmas.Grouping
import SleapVerif.Lemmas.Toposort
/-! Helper lemmas for C08, part 2: what a tree skeleton processed parent-first (C17) and
    one-to-one per-edge matches give: every destination peak is new (`DstFresh`), and a connected
    component holds at most one peak per node type. -/
namespace SleapVerif.Grouping
open SleapVerif.Toposort

/-! ## connection lists of tree shape -/

/-- `c'` is processed before `c` -/
def Rel (c' c : Peak × Peak) : Prop :=
  c'.1.1 ≠ c.2.1 ∧ c'.2 ≠ c.2 ∧ (c'.2.1 = c.2.1 → c'.1.1 = c.1.1 ∧ c'.1 ≠ c.1)

/-- The shape of the connection list of a tree skeleton processed parent-first with one-to-one
    matches per edge type: the node type of a destination has not been seen as a source; it has
    been seen as a destination only on the same edge type, with another source and another
    destination peak. -/
structure TreeConns (cs : List (Peak × Peak)) : Prop where
  pw : cs.Pairwise Rel
  irr : ∀ c ∈ cs, c.2.1 ≠ c.1.1

theorem TreeConns.dstFresh {cs : List (Peak × Peak)} (h : TreeConns cs) : DstFresh cs := by
  refine ⟨h.pw.imp ?_, ?_⟩
  · intro c c' hr
    refine ⟨?_, fun e => hr.2.1 e.symm⟩
    intro e; exact hr.1 (by rw [e])
  · intro c hc e; exact h.irr c hc (by rw [e])

theorem TreeConns.prefix {pre post : List (Peak × Peak)} (h : TreeConns (pre ++ post)) : TreeConns pre :=
  ⟨(List.pairwise_append.mp h.pw).1, fun c hc => h.irr c (List.mem_append.mpr (.inl hc))⟩

/-- at most one peak per node type in a connected component -/
def OnePer (cs : List (Peak × Peak)) : Prop := ∀ p q, Connected cs p q → p.1 = q.1 → p = q

theorem onePer_nil : OnePer [] := by
  intro p q h _
  have : ∀ p q, Connected [] p q → p = q := by
    intro p q h
    induction h with
    | edge e => simp at e
    | refl p => rfl
    | symm _ ih => exact ih.symm
    | trans _ _ ih1 ih2 => exact ih1.trans ih2
  exact this p q h

theorem onePer_step {pre : List (Peak × Peak)} {c : Peak × Peak} (T : TreeConns (pre ++ [c]))
    (ih : OnePer pre) : OnePer (pre ++ [c]) := by
  have hfr := T.dstFresh
  obtain ⟨hd, _⟩ := (show DstFresh (pre ++ c :: []) from hfr).fresh
  have hirr : c.2.1 ≠ c.1.1 := T.irr c (by simp)
  have hrel : ∀ c' ∈ pre, Rel c' c := fun c' hc' => (List.pairwise_append.mp T.pw).2.2 c' hc' c (by simp)
  -- the asymmetric case: nothing old of the node type of `c.2` is connected to `c.1`
  have key : ∀ q, q ≠ c.2 → q.1 = c.2.1 → ¬ Connected pre c.1 q := by
    intro q _ hq1 hcon
    by_cases hqe : q ∈ endpoints pre
    · obtain ⟨c', hc', hor⟩ := mem_endpoints.mp hqe
      obtain ⟨r1, _, r3⟩ := hrel c' hc'
      rcases hor with h | h
      · exact r1 (by rw [← h]; exact hq1)
      · obtain ⟨r4, r5⟩ := r3 (by rw [← h]; exact hq1)
        have hc1 : Connected pre c'.1 q := by rw [h]; exact .edge hc'
        have := ih _ _ (Connected.trans hcon (.symm hc1)) r4.symm
        exact r5 this.symm
    · have := (connected_not_endpoint hqe hcon).mpr rfl
      exact hirr (by rw [← hq1, ← this])
  intro p q hcon hpq
  have hc : c = (c.1, c.2) := rfl
  rw [hc] at hcon
  have hr := connected_retract hd hcon
  by_cases hp : p = c.2 <;> by_cases hq : q = c.2
  · rw [hp, hq]
  · simp only [hp, if_true, hq, if_false] at hr
    exact absurd hr (key q hq (by rw [← hpq, hp]))
  · simp only [hq, if_true, hp, if_false] at hr
    exact absurd (.symm hr) (key p hp (by rw [hpq, hq]))
  · simp only [hp, hq, if_false] at hr
    exact ih p q hr hpq

theorem onePer_fold (post : List (Peak × Peak)) : ∀ (pre : List (Peak × Peak)),
    TreeConns (pre ++ post) → OnePer pre → OnePer (pre ++ post) := by
  induction post with
  | nil => intro pre _ h; simpa using h
  | cons c post ih =>
    intro pre T h
    have T' : TreeConns (pre ++ [c] ++ post) := by simpa using T
    have := ih (pre ++ [c]) T' (onePer_step T'.prefix h)
    simpa using this

theorem TreeConns.onePer {cs : List (Peak × Peak)} (T : TreeConns cs) : OnePer cs := by
  have := onePer_fold cs [] (by simpa using T) onePer_nil
  simpa using this

/-! ## from ordered edges + one-to-one matches to `TreeConns` -/

/-- parent-first edge order of a tree: the destination node of an edge is no endpoint of an
    earlier edge (and no edge is a loop) -/
def EdgeOrderOK (el : List Edge) : Prop :=
  el.Pairwise (fun y x => y.1 ≠ x.2 ∧ y.2 ≠ x.2) ∧ ∀ x ∈ el, x.2 ≠ x.1

def edgePairs (e : Edge) (rc : List (Nat × Nat)) : List (Peak × Peak) :=
  rc.map fun m => ((e.1, m.1), (e.2, m.2))

/-- rows pairwise distinct and columns pairwise distinct -/
def OneToOne (rc : List (Nat × Nat)) : Prop := (rc.map (·.1)).Nodup ∧ (rc.map (·.2)).Nodup

theorem OneToOne.sublist {l l' : List (Nat × Nat)} (hs : l.Sublist l') (h : OneToOne l') : OneToOne l :=
  ⟨(hs.map _).nodup h.1, (hs.map _).nodup h.2⟩

theorem treeConns_flatMap {el : List Edge} (hel : EdgeOrderOK el) (M : Edge → List (Nat × Nat))
    (hM : ∀ e ∈ el, OneToOne (M e)) :
    TreeConns (el.flatMap fun e => edgePairs e (M e)) := by
  refine ⟨List.pairwise_flatMap.mpr ⟨?_, ?_⟩, ?_⟩
  · intro e he
    unfold edgePairs
    rw [List.pairwise_map]
    have h1 := List.pairwise_map.mp (List.nodup_iff_pairwise_ne.mp (hM e he).1)
    have h2 := List.pairwise_map.mp (List.nodup_iff_pairwise_ne.mp (hM e he).2)
    refine (h1.and h2).imp ?_
    intro m' m ⟨a, b⟩
    have hne := hel.2 e he
    refine ⟨fun h => hne h.symm, ?_, ?_⟩
    · intro h; exact b (by simpa using h)
    · intro _; exact ⟨rfl, fun h => a (by simpa using h)⟩
  · refine hel.1.imp ?_
    intro y x ⟨a, b⟩ c' hc' c hc
    unfold edgePairs at hc' hc
    obtain ⟨m', _, rfl⟩ := List.mem_map.mp hc'
    obtain ⟨m, _, rfl⟩ := List.mem_map.mp hc
    refine ⟨a, ?_, ?_⟩
    · intro h; exact b (by simpa using congrArg Prod.fst h)
    · intro h; exact absurd h b
  · intro c hc
    obtain ⟨e, he, hce⟩ := List.mem_flatMap.mp hc
    unfold edgePairs at hce
    obtain ⟨m, _, rfl⟩ := List.mem_map.mp hce
    exact hel.2 e he

/-! ## the BFS edge order of C17 is parent-first in the sense needed here -/

theorem pairwise_of_splits {α : Type} {R : α → α → Prop} : ∀ (l : List α),
    (∀ pre x post, l = pre ++ x :: post → ∀ y ∈ pre, R y x) → l.Pairwise R
  | [], _ => List.Pairwise.nil
  | a :: t, h => by
    refine List.pairwise_cons.mpr ⟨?_, pairwise_of_splits t ?_⟩
    · intro x hx
      obtain ⟨t1, t2, rfl⟩ := List.append_of_mem hx
      exact h (a :: t1) x t2 rfl a (by simp)
    · intro pre x post hl y hy
      exact h (a :: pre) x post (by rw [hl]; rfl) y (by simp [hy])

theorem bfsOut_edgeOrderOK {edges : List Edge} {r : Nat} (T : TreeLike edges r) :
    EdgeOrderOK (bfsOut edges r) := by
  have I := binv_run T (edges.length + 1) (binv_init edges r)
  have hnd : (bfsOut edges r).Nodup := out_nodup I
  have hsub : ∀ e ∈ bfsOut edges r, e ∈ edges := out_sub I
  have hpf : ∀ pre e post, bfsOut edges r = pre ++ e :: post → e.1 = r ∨ ∃ e' ∈ pre, e'.2 = e.1 :=
    I.parentFirst
  -- an edge cannot occur before itself
  have hnot : ∀ pre x post, bfsOut edges r = pre ++ x :: post → x ∉ pre := by
    intro pre x post hl hx
    rw [hl] at hnd
    exact (List.nodup_append.mp hnd).2.2 x hx x (by simp) rfl
  have hmem : ∀ pre x post, bfsOut edges r = pre ++ x :: post → (x ∈ edges ∧ ∀ y ∈ pre, y ∈ edges) := by
    intro pre x post hl
    refine ⟨hsub x (by rw [hl]; simp), fun y hy => hsub y (by rw [hl]; simp [hy])⟩
  refine ⟨pairwise_of_splits _ ?_, ?_⟩
  · intro pre x post hl y hy
    obtain ⟨hxE, hpreE⟩ := hmem pre x post hl
    refine ⟨?_, ?_⟩
    · intro hyx
      obtain ⟨p1, p2, rfl⟩ := List.append_of_mem hy
      have hl' : bfsOut edges r = p1 ++ y :: (p2 ++ x :: post) := by rw [hl]; simp
      rcases hpf p1 y _ hl' with h | ⟨e', he', hd⟩
      · exact T.noRootIn x hxE (by rw [← hyx, h])
      · have he'E : e' ∈ edges := hpreE e' (by simp [he'])
        have : e' = x := T.uniqueParent e' he'E x hxE (by rw [hd, hyx])
        exact hnot _ x post hl (by rw [← this]; simp [he'])
    · intro hyx
      have : y = x := T.uniqueParent y (hpreE y hy) x hxE hyx
      exact hnot pre x post hl (this ▸ hy)
  · intro x hx hloop
    obtain ⟨pre, post, hl⟩ := List.append_of_mem hx
    obtain ⟨hxE, hpreE⟩ := hmem pre x post hl
    rcases hpf pre x post hl with h | ⟨e', he', hd⟩
    · exact T.noRootIn x hxE (by rw [hloop, h])
    · have : e' = x := T.uniqueParent e' (hpreE e' he') x hxE (by rw [hd, hloop])
      exact hnot pre x post hl (this ▸ he')

theorem flatMap_congr' {α β : Type} {l : List α} {f g : α → List β} (h : ∀ x ∈ l, f x = g x) :
    l.flatMap f = l.flatMap g := by
  induction l with
  | nil => rfl
  | cons a t ih =>
    simp only [List.flatMap_cons]
    rw [h a (by simp), ih (fun x hx => h x (by simp [hx]))]

/-- the model's `toposort` lists exactly the BFS edges: looking the indices up again gives them back -/
theorem toposort_edges_back {edges : List Edge} {r : Nat} (A : Arbo edges r) {order : List Nat}
    (h : toposort edges = some order) {β : Type} (f : Edge → Nat → List β) :
    (order.flatMap fun k => ((edges[k]?).map fun e => f e k).getD [])
      = (bfsOut edges r).flatMap fun e => f e (edges.idxOf e) := by
  have hne : edges ≠ [] := by
    intro h0; subst h0; simp [toposort, rootOf, Toposort.nodesOf] at h
  have ho : order = (bfsOut edges r).map (fun e => edges.idxOf e) := by
    simp [toposort, arbo_rootOf A hne] at h; exact h.symm
  subst ho
  have I := binv_run A.toTreeLike (edges.length + 1) (binv_init edges r)
  rw [List.flatMap_map]
  apply flatMap_congr'
  intro e he
  have hE : e ∈ edges := out_sub I e he
  have hlt := List.idxOf_lt_length_of_mem hE
  have : edges[edges.idxOf e]? = some e := by
    rw [List.getElem?_eq_getElem hlt, List.getElem_idxOf hlt]
  simp [this]

end SleapVerif.Grouping
