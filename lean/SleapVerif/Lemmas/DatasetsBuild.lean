import SleapVerif.Lemmas.Datasets
/-!
# `build` (the `_fill_cache` loops) refines `specCache` and yields a well-formed state

Core Lean only.  `Holds h t v` — tensor `t` exists in `h` and reads `v` — is stable under `Ext`,
so each allocation step of `fillFrame` / `fillCentered` is handled once and then carried to the
final heap.
-/
set_option linter.unusedSectionVars false
namespace SleapVerif.Datasets
variable {R : Type}

/-- tensor `t` exists in `h` and reads `v` -/
def Holds (h : Heap R) (t : TRef) (v : List (Pt R)) : Prop :=
  t.loc < h.cells.length ∧ h.readT t = v

theorem Holds.mono {h h' : Heap R} (F : Ext h h') {t : TRef} {v : List (Pt R)} (H : Holds h t v) :
    Holds h' t v :=
  ⟨Nat.lt_of_lt_of_le H.1 F.1.1, by rw [readT_frame F t H.1]; exact H.2⟩

theorem holds_allocT (h : Heap R) (v : List (Pt R)) : Holds (h.allocT v).1 (h.allocT v).2 v :=
  ⟨by simp [Heap.allocT], readT_allocT_new h v⟩

theorem readT_cells_eq {h h' : Heap R} (e : h'.cells = h.cells) (t : TRef) : h'.readT t = h.readT t := by
  simp [Heap.readT, e]

/-! ### list facts -/

theorem chunks_cons {α} (n k : Nat) (r X : List α) (hr : r.length = n) :
    chunks n (k + 1) (r ++ X) = r :: chunks n k X := by
  unfold chunks
  rw [List.range_succ_eq_map]
  simp only [List.map_cons, List.map_map, Nat.zero_mul, List.drop_zero]
  congr 1
  · exact List.take_left' hr
  · apply List.map_congr_left
    intro i _
    simp only [Function.comp, Nat.succ_eq_add_one]
    have : (i + 1) * n = r.length + i * n := by rw [hr, Nat.add_mul, Nat.one_mul, Nat.add_comm]
    rw [this, List.drop_append]
    have hd : List.drop (r.length + i * n) r = [] := List.drop_eq_nil_of_le (by omega)
    simp [hd]

theorem chunks_flatten {α} (n : Nat) (rows : List (List α)) (hu : ∀ r ∈ rows, r.length = n) :
    chunks n rows.length rows.flatten = rows := by
  induction rows with
  | nil => rfl
  | cons r rs ih =>
    simp only [List.flatten_cons, List.length_cons]
    rw [chunks_cons n rs.length r rs.flatten (hu r (by simp)), ih (fun x hx => hu x (by simp [hx]))]

theorem flatten_length_uniform {α} (n : Nat) (rows : List (List α)) (hu : ∀ r ∈ rows, r.length = n) :
    rows.flatten.length = rows.length * n := by
  induction rows with
  | nil => simp
  | cons r rs ih =>
    simp only [List.flatten_cons, List.length_append, List.length_cons]
    rw [ih (fun x hx => hu x (by simp [hx])), hu r (by simp), Nat.add_mul, Nat.one_mul, Nat.add_comm]

section Num
variable [Add R] [Sub R] [Mul R] [Div R] [LT R] [DecidableLT R] [OfNat R 1] [OfNat R 2]
  [DecidableEq R]

theorem prepPts_length (e s : R) (pts : List (Pt R)) : (prepPts e s pts).length = pts.length := by
  unfold prepPts; split <;> simp

theorem prepPts_flatten (e s : R) (rows : List (List (Pt R))) :
    prepPts e s rows.flatten = (rows.map (prepPts e s)).flatten := by
  unfold prepPts
  split
  · simp [List.map_flatten]
  · simp [List.map_flatten, List.map_map, Function.comp_def]

/-! ### the allocation steps -/

theorem prepT_spec (h : Heap R) (t : TRef) (e s : R) (v : List (Pt R)) (H : Holds h t v) :
    Ext h (prepT h t e s).1 ∧ Holds (prepT h t e s).1 (prepT h t e s).2 (prepPts e s v) ∧
    (prepT h t e s).1.dicts = h.dicts ∧ (prepT h t e s).2.idx.length = v.length := by
  unfold prepT prepPts
  simp only [H.2]
  by_cases hs : s = 1
  · simp only [hs, if_true]
    exact ⟨frame_allocT _ _, holds_allocT _ _, rfl, by simp [Heap.allocT]⟩
  · simp only [hs, if_false]
    have h1 := holds_allocT h (v.map (Pt.scale e))
    rw [h1.2]
    exact ⟨(frame_allocT _ _).trans (frame_allocT _ _), holds_allocT _ _, rfl, by simp [Heap.allocT]⟩

theorem genCentroids_spec (h : Heap R) (t : TRef) (nI nN : Nat) (anchor : Option Nat) (X : List (Pt R))
    (H : Holds h t X) (ht : t.idx.length = nI * nN) (ha : ∀ a, anchor = some a → a < nN) :
    Ext h (genCentroids .repaired h t nI nN anchor).1 ∧
    Holds (genCentroids .repaired h t nI nN anchor).1 (genCentroids .repaired h t nI nN anchor).2
      ((chunks nN nI X).map (centroidOf anchor)) ∧
    (genCentroids .repaired h t nI nN anchor).1.dicts = h.dicts := by
  refine ⟨ext_genCentroids_repaired h t nI nN anchor, ⟨?_, ?_⟩, ?_⟩
  · cases anchor <;> simp [genCentroids, Heap.allocT]
  · rw [genCentroids_repaired_value h t nI nN anchor ht ha, H.2]
  · cases anchor <;> rfl

/-- `sample = {...}` followed by `self.cache[idx] = sample.copy()` -/
theorem copy2_spec (h : Heap R) (d : List (Key × TRef)) :
    let a3 := h.allocD d
    let a4 := a3.1.allocD (a3.1.dicts.getD a3.2 [])
    a4.1.cells = h.cells ∧ a4.1.dicts.getD a4.2 [] = d ∧ a4.2 < a4.1.dicts.length ∧
      h.dicts.length ≤ a4.2 ∧ Ext h a4.1 := by
  intro a3 a4
  refine ⟨rfl, ?_, ?_, ?_, (frame_allocD _ _).trans (frame_allocD _ _)⟩
  · simp [a4, a3, Heap.allocD, List.getD_eq_getElem?_getD]
  · simp [a4, a3, Heap.allocD]
  · simp [a4, a3, Heap.allocD]

end Num

/-! ### `process_lf` rows are uniform -/

theorem mem_filtered (uo : Bool) (f : Frame R) (i : Inst R) (hi : i ∈ f.filtered uo) : i ∈ f.insts := by
  unfold Frame.filtered at hi
  split at hi
  · exact (List.mem_filter.mp hi).1
  · exact hi

theorem processInsts_rows (uo : Bool) (mi : Nat) (f : Frame R) (n : Nat)
    (hu : ∀ i ∈ f.insts, i.pts.length = n) :
    (∀ r ∈ (processInsts uo mi f).1, r.length = headLen (processInsts uo mi f).1) ∧
    (f.hasNonEmpty uo = true → headLen (processInsts uo mi f).1 = n) := by
  have hne : ∀ r ∈ ((f.filtered uo).filter (fun i => !i.isEmpty)).map (·.pts), r.length = n := by
    intro r hr
    simp only [List.mem_map, List.mem_filter] at hr
    obtain ⟨i, ⟨hi, _⟩, rfl⟩ := hr
    exact hu i (mem_filtered uo f i hi)
  have hany : f.hasNonEmpty uo = true →
      ((f.filtered uo).filter (fun i => !i.isEmpty)).map (·.pts) ≠ [] := by
    intro h hnil
    unfold Frame.hasNonEmpty at h
    rw [List.any_eq_true] at h
    obtain ⟨i, hi, hi2⟩ := h
    have : i.pts ∈ ((f.filtered uo).filter (fun i => !i.isEmpty)).map (·.pts) :=
      List.mem_map.mpr ⟨i, List.mem_filter.mpr ⟨hi, hi2⟩, rfl⟩
    rw [hnil] at this
    cases this
  unfold processInsts
  simp only
  generalize ((f.filtered uo).filter (fun i => !i.isEmpty)).map (·.pts) = ne at hne hany
  cases ne with
  | nil =>
    refine ⟨?_, fun h => absurd rfl (hany h)⟩
    by_cases hm : mi = 1
    · simp [hm]
    · simp only [hm, if_false, List.nil_append, List.head?_nil, Option.map_none, Option.getD_none,
        List.length_nil]
      intro r hr
      rw [List.mem_replicate] at hr
      rw [hr.2]
      cases hk : absDiff mi 0 with
      | zero => simp [hk] at hr
      | succ k => simp [headLen, List.replicate_succ]
  | cons x xs =>
    have hx : x.length = n := hne x (by simp)
    by_cases hm : mi = 1
    · simp only [hm, if_true, headLen, List.head?_cons, Option.map_some, Option.getD_some]
      exact ⟨fun r hr => by rw [hne r hr, hx], fun _ => hx⟩
    · simp only [hm, if_false, headLen, List.head?_cons, Option.map_some, Option.getD_some,
        List.cons_append]
      refine ⟨fun r hr => ?_, fun _ => hx⟩
      simp only [List.mem_cons, List.mem_append, List.mem_replicate] at hr
      rcases hr with rfl | hr | hr
      · rfl
      · rw [hne r (by simp [hr]), hx]
      · rw [hr.2]; simp

section Fill
variable [Add R] [Sub R] [Mul R] [Div R] [LT R] [DecidableLT R] [OfNat R 1] [OfNat R 2]
  [DecidableEq R]

/-- `sample = {…}; cache[idx] = sample.copy()`: the cached dict is new, well-formed and reads
the values its tensors hold -/
theorem copy2_read (h0 h : Heap R) (E : Ext h0 h) (d : List (Key × TRef))
    (hd : ∀ e ∈ d, e.2.loc < h.cells.length) :
    Ext h0 ((h.allocD d).1.allocD ((h.allocD d).1.dicts.getD (h.allocD d).2 [])).1 ∧
    ((h.allocD d).1.allocD ((h.allocD d).1.dicts.getD (h.allocD d).2 [])).2
      < ((h.allocD d).1.allocD ((h.allocD d).1.dicts.getD (h.allocD d).2 [])).1.dicts.length ∧
    WFd ((h.allocD d).1.allocD ((h.allocD d).1.dicts.getD (h.allocD d).2 [])).1
      ((h.allocD d).1.allocD ((h.allocD d).1.dicts.getD (h.allocD d).2 [])).2 ∧
    ((h.allocD d).1.allocD ((h.allocD d).1.dicts.getD (h.allocD d).2 [])).1.readD
      ((h.allocD d).1.allocD ((h.allocD d).1.dicts.getD (h.allocD d).2 [])).2
      = d.map (fun e => (e.1, h.readT e.2)) := by
  obtain ⟨C1, C2, C3, _, C5⟩ := copy2_spec h d
  refine ⟨E.trans C5, C3, ?_, ?_⟩
  · intro e he
    rw [C2] at he
    rw [C1]
    exact hd e he
  · unfold Heap.readD
    rw [C2]
    apply List.map_congr_left
    intro e _
    rw [readT_cells_eq C1]

theorem tail_centroid (h0 h1 : Heap R) (t1 : TRef) (P : List (Pt R)) (E : Ext h0 h1)
    (H1 : Holds h1 t1 P) (nI nN : Nat) (anchor : Option Nat) (ht : t1.idx.length = nI * nN)
    (ha : ∀ a, anchor = some a → a < nN) (m : SMeta) :
    let a2 := genCentroids .repaired h1 t1 nI nN anchor
    let a3 := a2.1.allocD [(Key.instances, t1), (Key.centroids, a2.2)]
    let a4 := a3.1.allocD (a3.1.dicts.getD a3.2 [])
    Ext h0 a4.1 ∧ a4.2 < a4.1.dicts.length ∧ WFd a4.1 a4.2 ∧
    (a4.1.readD a4.2, m) =
      (([(Key.instances, P), (Key.centroids, (chunks nN nI P).map (centroidOf anchor))] : DictV R), m) := by
  intro a2 a3 a4
  obtain ⟨E2, H2, _⟩ := genCentroids_spec h1 t1 nI nN anchor P H1 ht ha
  have H1' := H1.mono E2
  obtain ⟨F, L, W, Rd⟩ := copy2_read h0 a2.1 (E.trans E2) [(Key.instances, t1), (Key.centroids, a2.2)]
    (by
      intro e he
      simp only [List.mem_cons, List.not_mem_nil, or_false] at he
      rcases he with rfl | rfl
      · exact H1'.1
      · exact H2.1)
  refine ⟨F, L, W, ?_⟩
  show (a4.1.readD a4.2, m) = _
  rw [show a4.1.readD a4.2 = _ from Rd]
  simp only [List.map_cons, List.map_nil]
  rw [show a2.1.readT a2.2 = _ from H2.2, show a2.1.readT t1 = P from H1'.2]

theorem tail_plain (h0 h1 : Heap R) (t1 : TRef) (P : List (Pt R)) (E : Ext h0 h1)
    (H1 : Holds h1 t1 P) (m : SMeta) :
    let a3 := h1.allocD [(Key.instances, t1)]
    let a4 := a3.1.allocD (a3.1.dicts.getD a3.2 [])
    Ext h0 a4.1 ∧ a4.2 < a4.1.dicts.length ∧ WFd a4.1 a4.2 ∧
    (a4.1.readD a4.2, m) = (([(Key.instances, P)] : DictV R), m) := by
  intro a3 a4
  obtain ⟨F, L, W, Rd⟩ := copy2_read h0 h1 E [(Key.instances, t1)]
    (by
      intro e he
      simp only [List.mem_cons, List.not_mem_nil, or_false] at he
      subst he
      exact H1.1)
  refine ⟨F, L, W, ?_⟩
  rw [show a4.1.readD a4.2 = _ from Rd]
  simp only [List.map_cons, List.map_nil, H1.2]

/-- one `_fill_cache` iteration of a frame-based class: only allocation, a well-formed new dict,
and exactly the specified values -/
theorem fillFrame_spec (cfg : Cfg R) (cast : Nat → R) (mi : Nat) (h : Heap R) (f : Frame R) (n : Nat)
    (hu : ∀ i ∈ f.insts, i.pts.length = n) (hne : f.hasNonEmpty cfg.userOnly = true)
    (ha : ∀ a, cfg.anchor = some a → a < n) :
    Ext h (fillFrame .repaired cfg cast mi h f).1 ∧
    (fillFrame .repaired cfg cast mi h f).2.1 < (fillFrame .repaired cfg cast mi h f).1.dicts.length ∧
    WFd (fillFrame .repaired cfg cast mi h f).1 (fillFrame .repaired cfg cast mi h f).2.1 ∧
    ((fillFrame .repaired cfg cast mi h f).1.readD (fillFrame .repaired cfg cast mi h f).2.1,
      (fillFrame .repaired cfg cast mi h f).2.2) = specFrameCached cfg cast mi f := by
  obtain ⟨hrows, hhead⟩ := processInsts_rows cfg.userOnly mi f n hu
  have hhead := hhead hne
  have H0 := holds_allocT h (processInsts cfg.userOnly mi f).1.flatten
  have E0 := frame_allocT h (processInsts cfg.userOnly mi f).1.flatten
  obtain ⟨E1, H1, _, L1⟩ := prepT_spec _ _ (cfg.eff cast f) cfg.scale _ H0
  by_cases hk : cfg.kind = .centroid
  · have hrows' : ∀ r ∈ (processInsts cfg.userOnly mi f).1.map (prepPts (cfg.eff cast f) cfg.scale),
        r.length = n := by
      intro r hr
      obtain ⟨r0, hr0, rfl⟩ := List.mem_map.mp hr
      rw [prepPts_length, hrows r0 hr0, hhead]
    have T := tail_centroid h _ _ _ (E0.trans E1) H1 (processInsts cfg.userOnly mi f).1.length
      (headLen (processInsts cfg.userOnly mi f).1) cfg.anchor
      (by rw [L1, flatten_length_uniform _ _ hrows]) (by rw [hhead]; exact ha)
      ⟨(processInsts cfg.userOnly mi f).2, f.frameIdx, f.videoIdx, f.H, f.W⟩
    simp only [fillFrame, hk, specFrameCached]
    refine ⟨T.1, T.2.1, T.2.2.1, ?_⟩
    rw [T.2.2.2, prepPts_flatten, hhead]
    have := chunks_flatten n _ hrows'
    simp only [List.length_map] at this
    rw [this]
  · have T := tail_plain h _ _ _ (E0.trans E1) H1
      ⟨(processInsts cfg.userOnly mi f).2, f.frameIdx, f.videoIdx, f.H, f.W⟩
    have hf : fillFrame .repaired cfg cast mi h f =
        (let a1 := prepT (h.allocT (processInsts cfg.userOnly mi f).1.flatten).1
          (h.allocT (processInsts cfg.userOnly mi f).1.flatten).2 (cfg.eff cast f) cfg.scale
         let a3 := a1.1.allocD [(Key.instances, a1.2)]
         let a4 := a3.1.allocD (a3.1.dicts.getD a3.2 [])
         (a4.1, (a4.2, ⟨(processInsts cfg.userOnly mi f).2, f.frameIdx, f.videoIdx, f.H, f.W⟩))) := by
      unfold fillFrame
      cases hk2 : cfg.kind <;> simp_all
    have hs : specFrameCached cfg cast mi f =
        ([(Key.instances, ((processInsts cfg.userOnly mi f).1.map
            (prepPts (cfg.eff cast f) cfg.scale)).flatten)],
         ⟨(processInsts cfg.userOnly mi f).2, f.frameIdx, f.videoIdx, f.H, f.W⟩) := by
      unfold specFrameCached
      cases hk2 : cfg.kind <;> simp_all
    rw [hf, hs]
    refine ⟨T.1, T.2.1, T.2.2.1, ?_⟩
    rw [← prepPts_flatten]
    exact T.2.2.2

/-! ### centered-instance class -/

theorem flatten_row {α} (d : α) (n : Nat) (rows : List (List α)) (hu : ∀ r ∈ rows, r.length = n) :
    ∀ j, j < rows.length →
      (List.range n).map (fun k => rows.flatten.getD (j * n + k) d) = rows.getD j [] := by
  induction rows with
  | nil => intro j hj; simp at hj
  | cons r rs ih =>
    intro j hj
    have hr : r.length = n := hu r (by simp)
    cases j with
    | zero =>
      simp only [List.flatten_cons, Nat.zero_mul, Nat.zero_add, List.getD_cons_zero]
      apply List.ext_getElem
      · simp [hr]
      · intro i h1 h2
        simp only [List.length_map, List.length_range] at h1
        simp [List.getD_eq_getElem?_getD, List.getElem?_append_left (hr ▸ h1 : i < r.length), h2]
    | succ j =>
      have := ih (fun x hx => hu x (by simp [hx])) j (by simpa using hj)
      simp only [List.flatten_cons, List.getD_cons_succ]
      rw [← this]
      apply List.map_congr_left
      intro k _
      have e : (j + 1) * n + k = r.length + (j * n + k) := by
        rw [hr, Nat.add_mul, Nat.one_mul]; omega
      simp [List.getD_eq_getElem?_getD, e, List.getElem?_append_right]

theorem readT_slice (h : Heap R) (t : TRef) (ks : List Nat) (hk : ∀ k ∈ ks, k < t.idx.length) :
    h.readT (t.slice ks) = ks.map (fun k => (h.readT t).getD k Pt.nan) := by
  simp only [Heap.readT, TRef.slice, List.map_map]
  apply List.map_congr_left
  intro k hk'
  have := readT_getD h t k (hk k hk')
  simp only [Heap.readT] at this
  simp only [Function.comp]
  rw [this]

theorem tail_centered (cast : Nat → R) (h0 h1 : Heap R) (t1 : TRef) (P : List (Pt R)) (E : Ext h0 h1)
    (H1 : Holds h1 t1 P) (n : Nat) (anchor : Option Nat) (hP : P.length = n) (ht : t1.idx.length = n)
    (ha : ∀ a, anchor = some a → a < n) (bh bw : Nat) (m : SMeta) :
    let a2 := genCentroids .repaired h1 t1 1 n anchor
    let bb := centeredBbox cast ((a2.1.readT a2.2).getD 0 Pt.nan) bh bw
    let a3 := a2.1.allocT bb
    let a4 := a3.1.allocT ((a3.1.readT t1).map (·.sub (bb.getD 0 Pt.nan)))
    let a5 := a4.1.allocT ((a4.1.readT a2.2).map (·.sub (bb.getD 0 Pt.nan)))
    let a6 := a5.1.allocD [(Key.bbox, a3.2), (Key.instance, a4.2), (Key.centroid, a5.2)]
    let a7 := a6.1.allocD (a6.1.dicts.getD a6.2 [])
    Ext h0 a7.1 ∧ a7.2 < a7.1.dicts.length ∧ WFd a7.1 a7.2 ∧
    (a7.1.readD a7.2, m) =
      (([(Key.bbox, centeredBbox cast (centroidOf anchor P) bh bw),
         (Key.instance, P.map (·.sub ((centeredBbox cast (centroidOf anchor P) bh bw).getD 0 Pt.nan))),
         (Key.centroid, [(centroidOf anchor P).sub
            ((centeredBbox cast (centroidOf anchor P) bh bw).getD 0 Pt.nan)])] : DictV R), m) := by
  intro a2 bb a3 a4 a5 a6 a7
  obtain ⟨E2, H2, _⟩ := genCentroids_spec h1 t1 1 n anchor P H1 (by rw [ht, Nat.one_mul]) ha
  have hch : chunks n 1 P = [P] := by
    have := chunks_flatten n [P] (by intro r hr; simp at hr; rw [hr, hP])
    simpa using this
  rw [hch] at H2
  have H2 : Holds a2.1 a2.2 [centroidOf anchor P] := by simpa using H2
  have hc : (a2.1.readT a2.2).getD 0 Pt.nan = centroidOf anchor P := by rw [H2.2]; rfl
  have hbb : bb = centeredBbox cast (centroidOf anchor P) bh bw := by simp only [bb, hc]
  have E3 : Ext a2.1 a3.1 := frame_allocT _ _
  have H3 : Holds a3.1 a3.2 bb := holds_allocT _ _
  have H1a3 : Holds a3.1 t1 P := (H1.mono E2).mono E3
  have E4 : Ext a3.1 a4.1 := frame_allocT _ _
  have H4 : Holds a4.1 a4.2 ((a3.1.readT t1).map (·.sub (bb.getD 0 Pt.nan))) := holds_allocT _ _
  rw [H1a3.2] at H4
  have H2a4 : Holds a4.1 a2.2 [centroidOf anchor P] := (H2.mono E3).mono E4
  have E5 : Ext a4.1 a5.1 := frame_allocT _ _
  have H5 : Holds a5.1 a5.2 ((a4.1.readT a2.2).map (·.sub (bb.getD 0 Pt.nan))) := holds_allocT _ _
  rw [H2a4.2] at H5
  simp only [List.map_cons, List.map_nil] at H5
  have H3' := (H3.mono E4).mono E5
  have H4' := H4.mono E5
  obtain ⟨F, L, W, Rd⟩ := copy2_read h0 a5.1 ((((E.trans E2).trans E3).trans E4).trans E5)
    [(Key.bbox, a3.2), (Key.instance, a4.2), (Key.centroid, a5.2)]
    (by
      intro e he
      simp only [List.mem_cons, List.not_mem_nil, or_false] at he
      rcases he with rfl | rfl | rfl
      · exact H3'.1
      · exact H4'.1
      · exact H5.1)
  refine ⟨F, L, W, ?_⟩
  rw [show a7.1.readD a7.2 = _ from Rd]
  simp only [List.map_cons, List.map_nil]
  rw [show a5.1.readT a3.2 = bb from H3'.2, show a5.1.readT a4.2 = _ from H4'.2,
    show a5.1.readT a5.2 = _ from H5.2, hbb]

theorem fillCentered_spec (cfg : Cfg R) (cast : Nat → R) (h : Heap R) (f : Frame R) (j n : Nat)
    (hu : ∀ i ∈ f.insts, i.pts.length = n) (hj : j < (f.filtered cfg.userOnly).length)
    (ha : ∀ a, cfg.anchor = some a → a < n) :
    Ext h (fillCentered .repaired cfg cast h f j).1 ∧
    (fillCentered .repaired cfg cast h f j).2.1 < (fillCentered .repaired cfg cast h f j).1.dicts.length ∧
    WFd (fillCentered .repaired cfg cast h f j).1 (fillCentered .repaired cfg cast h f j).2.1 ∧
    ((fillCentered .repaired cfg cast h f j).1.readD (fillCentered .repaired cfg cast h f j).2.1,
      (fillCentered .repaired cfg cast h f j).2.2) = specCenteredCached cfg cast f j := by
  have hrows : ∀ r ∈ (f.filtered cfg.userOnly).map (·.pts), r.length = n := by
    intro r hr
    obtain ⟨i, hi, rfl⟩ := List.mem_map.mp hr
    exact hu i (mem_filtered _ f i hi)
  have hj' : j < ((f.filtered cfg.userOnly).map (·.pts)).length := by simpa using hj
  have hnn : ((f.filtered cfg.userOnly).map (fun i => i.pts.length)).getD j 0 = n := by
    simp only [List.getD_eq_getElem?_getD, List.getElem?_map, List.getElem?_eq_getElem hj,
      Option.map_some, Option.getD_some]
    exact hu _ (mem_filtered _ f _ (List.getElem_mem hj))
  have hrow : (((f.filtered cfg.userOnly).map (·.pts)).getD j []).length = n := by
    simp only [List.getD_eq_getElem?_getD, List.getElem?_map, List.getElem?_eq_getElem hj,
      Option.map_some, Option.getD_some]
    exact hu _ (mem_filtered _ f _ (List.getElem_mem hj))
  have H0 := holds_allocT h ((f.filtered cfg.userOnly).map (·.pts)).flatten
  have E0 := frame_allocT h ((f.filtered cfg.userOnly).map (·.pts)).flatten
  have hidx : (h.allocT ((f.filtered cfg.userOnly).map (·.pts)).flatten).2.idx.length
      = ((f.filtered cfg.userOnly).map (·.pts)).length * n := by
    simp only [Heap.allocT, List.length_range]
    exact flatten_length_uniform n _ hrows
  have Hj : Holds (h.allocT ((f.filtered cfg.userOnly).map (·.pts)).flatten).1
      ((h.allocT ((f.filtered cfg.userOnly).map (·.pts)).flatten).2.slice
        ((List.range n).map fun k => j * n + k))
      (((f.filtered cfg.userOnly).map (·.pts)).getD j []) := by
    refine ⟨H0.1, ?_⟩
    rw [readT_slice _ _ _ (by
      intro k hk
      obtain ⟨k0, hk0, rfl⟩ := List.mem_map.mp hk
      have hk0' : k0 < n := by simpa using hk0
      rw [hidx]
      calc j * n + k0 < j * n + n := by omega
        _ = (j + 1) * n := by rw [Nat.add_mul, Nat.one_mul]
        _ ≤ _ := Nat.mul_le_mul_right _ hj'), H0.2, List.map_map]
    exact flatten_row Pt.nan n _ hrows j hj'
  obtain ⟨E1, H1, _, L1⟩ := prepT_spec _ _ (cfg.eff cast f) cfg.scale _ Hj
  have T := tail_centered cast h _ _ _ (E0.trans E1) H1 n cfg.anchor
    (by rw [prepPts_length, hrow]) (by rw [L1, hrow]) ha (cropExtra cfg.cropH) (cropExtra cfg.cropW)
    ⟨(f.filtered cfg.userOnly).length, f.frameIdx, f.videoIdx, f.H, f.W⟩
  simp only [fillCentered, specCenteredCached, hnn]
  exact T

end Fill

/-! ### the loop -/

/-- values of the whole cache -/
def DS.read (ds : DS R) : List (DictV R × SMeta) := ds.cache.map fun e => (ds.heap.readD e.1, e.2)

theorem buildFold_spec {ι} (xs : List ι) (step : Heap R → ι → Option (Heap R × (Nat × SMeta)))
    (spec : ι → DictV R × SMeta)
    (hstep : ∀ (h : Heap R) x, x ∈ xs → ∃ r, step h x = some r ∧ Ext h r.1 ∧
        r.2.1 < r.1.dicts.length ∧ WFd r.1 r.2.1 ∧ (r.1.readD r.2.1, r.2.2) = spec x) :
    ∀ ds : DS R, WFds ds →
      WFds (buildFold xs step ds) ∧ (buildFold xs step ds).read = ds.read ++ xs.map spec := by
  induction xs with
  | nil => intro ds W; exact ⟨W, by simp [buildFold]⟩
  | cons x xs ih =>
    intro ds W
    obtain ⟨r, hr, F, hlt, Wr, hval⟩ := hstep ds.heap x (by simp)
    have hfold : buildFold (x :: xs) step ds = buildFold xs step ⟨r.1, ds.cache ++ [r.2]⟩ := by
      simp [buildFold, hr]
    have W1 : WFds (⟨r.1, ds.cache ++ [r.2]⟩ : DS R) := by
      intro e he
      simp only [List.mem_append, List.mem_singleton] at he
      rcases he with he | rfl
      · exact ⟨Nat.lt_of_lt_of_le (W e he).1 F.2.1, WFd_frame F e.1 (W e he).1 (W e he).2⟩
      · exact ⟨hlt, Wr⟩
    have hread : (⟨r.1, ds.cache ++ [r.2]⟩ : DS R).read = ds.read ++ [spec x] := by
      simp only [DS.read, List.map_append, List.map_cons, List.map_nil]
      congr 1
      · apply List.map_congr_left
        intro e he
        rw [readD_frame F e.1 (W e he).1 (W e he).2]
      · rw [hval]
    obtain ⟨W2, h2⟩ := ih (fun h y hy => hstep h y (by simp [hy])) _ W1
    rw [hfold]
    refine ⟨W2, ?_⟩
    rw [h2, hread]
    simp

section Build
variable [Add R] [Sub R] [Mul R] [Div R] [LT R] [DecidableLT R] [OfNat R 1] [OfNat R 2]
  [DecidableEq R]

/-- every instance of every frame has `n` nodes (one skeleton) -/
def Uniform (fs : List (Frame R)) (n : Nat) : Prop := ∀ f ∈ fs, ∀ i ∈ f.insts, i.pts.length = n

theorem mem_lfIdxList {uo : Bool} {fs : List (Frame R)} {i : Nat} (hi : i ∈ lfIdxList uo fs) :
    ∃ f, fs[i]? = some f ∧ f ∈ fs ∧ f.hasNonEmpty uo = true := by
  unfold lfIdxList at hi
  simp only [List.mem_map, List.mem_filter] at hi
  obtain ⟨p, ⟨hp, hne⟩, rfl⟩ := hi
  have := List.mem_zipIdx_iff_getElem?.mp hp
  exact ⟨p.1, this, List.mem_of_getElem? this, hne⟩

theorem mem_instanceIdxList {uo : Bool} {fs : List (Frame R)} {ij : Nat × Nat}
    (hi : ij ∈ instanceIdxList uo fs) :
    ∃ f, fs[ij.1]? = some f ∧ f ∈ fs ∧ ij.2 < (f.filtered uo).length := by
  unfold instanceIdxList at hi
  simp only [List.mem_flatMap, List.mem_map, List.mem_filter] at hi
  obtain ⟨p, hp, q, ⟨hq, _⟩, rfl⟩ := hi
  have h1 := List.mem_zipIdx_iff_getElem?.mp hp
  have h2 := List.mem_zipIdx_iff_getElem?.mp hq
  refine ⟨p.1, h1, List.mem_of_getElem? h1, ?_⟩
  exact (List.getElem?_eq_some_iff.mp h2).1

theorem wfds_empty : WFds (⟨Heap.empty, []⟩ : DS R) := by
  intro e he; cases he

/-- **`build` refines `specCache`**: the state built by `_fill_cache` (with the repaired
`generate_centroids`) is well-formed and its cache reads exactly the specified values. -/
theorem build_spec (cfg : Cfg R) (cast : Nat → R) (fs : List (Frame R)) (n : Nat)
    (hu : Uniform fs n) (ha : ∀ a, cfg.anchor = some a → a < n) :
    WFds (build .repaired cfg cast fs) ∧ (build .repaired cfg cast fs).read = specCache cfg cast fs := by
  by_cases hk : cfg.kind = .centered
  · have := buildFold_spec (instanceIdxList cfg.userOnly fs)
      (fun h ij => (fs[ij.1]?).map fun f => fillCentered .repaired cfg cast h f ij.2)
      (fun ij => ((fs[ij.1]?).map fun f => specCenteredCached cfg cast f ij.2).getD noEntry)
      (by
        intro h ij hij
        obtain ⟨f, hf, hmem, hj⟩ := mem_instanceIdxList hij
        refine ⟨fillCentered .repaired cfg cast h f ij.2, by simp [hf], ?_⟩
        simp only [hf, Option.map_some, Option.getD_some]
        exact fillCentered_spec cfg cast h f ij.2 n (hu f hmem) hj ha)
      ⟨Heap.empty, []⟩ wfds_empty
    simp only [build, specCache, hk]
    simpa [DS.read] using this
  · have := buildFold_spec (lfIdxList cfg.userOnly fs)
      (fun h i => (fs[i]?).map fun f => fillFrame .repaired cfg cast (cfg.maxInst fs) h f)
      (fun i => ((fs[i]?).map fun f => specFrameCached cfg cast (cfg.maxInst fs) f).getD noEntry)
      (by
        intro h i hi
        obtain ⟨f, hf, hmem, hne⟩ := mem_lfIdxList hi
        refine ⟨fillFrame .repaired cfg cast (cfg.maxInst fs) h f, by simp [hf], ?_⟩
        simp only [hf, Option.map_some, Option.getD_some]
        exact fillFrame_spec cfg cast (cfg.maxInst fs) h f n (hu f hmem) hne ha)
      ⟨Heap.empty, []⟩ wfds_empty
    have hb : build .repaired cfg cast fs = buildFold (lfIdxList cfg.userOnly fs)
        (fun h i => (fs[i]?).map fun f => fillFrame .repaired cfg cast (cfg.maxInst fs) h f)
        ⟨Heap.empty, []⟩ := by
      unfold build; cases hk2 : cfg.kind <;> simp_all
    have hs : specCache cfg cast fs = (lfIdxList cfg.userOnly fs).map
        (fun i => ((fs[i]?).map fun f => specFrameCached cfg cast (cfg.maxInst fs) f).getD noEntry) := by
      unfold specCache; cases hk2 : cfg.kind <;> simp_all
    rw [hb, hs]
    simpa [DS.read] using this

end Build
end SleapVerif.Datasets
