import SleapVerif.Lemmas.ConfigTree
/-!
# Lemmas about attrs constructors (`construct`, `mk`) and the three builders — core Lean only
-/
namespace SleapVerif.Config

theorem getPath_single (k : String) (kvs : Kvs) : getPath [k] (.node kvs) = lookup k kvs := by
  simp only [getPath]
  cases lookup k kvs <;> rfl

theorem getPath_cons_of {k : String} {p : List String} {r v : Cfg} (h : getPath [k] r = some v) :
    getPath (k :: p) r = getPath p v := by
  cases r with
  | leaf w => simp [getPath] at h
  | node kvs =>
    rw [getPath_single] at h
    simp only [getPath, h]

theorem construct_get {d : Cfg} {kw : Kvs} {r : Cfg} (h : construct d kw = .ok r)
    (hnd : (keys kw).Nodup) {k : String} {v : Cfg} (hm : (k, v) ∈ kw) : getPath [k] r = some v := by
  obtain ⟨kvs, _, hsub, rfl⟩ := construct_ok h
  rw [getPath_single]
  exact lookup_foldl_setKey_mem kw kvs hnd hm (hsub _ hm)

theorem construct_other {d : Cfg} {kw : Kvs} {r : Cfg} (h : construct d kw = .ok r)
    {k : String} (hk : k ∉ keys kw) : getPath [k] r = getPath [k] d := by
  obtain ⟨kvs, rfl, _, rfl⟩ := construct_ok h
  rw [getPath_single, getPath_single]
  exact lookup_foldl_setKey_not_mem kw kvs hk

theorem construct_keys {d : Cfg} {kw : Kvs} {r : Cfg} (h : construct d kw = .ok r) :
    ∃ dk rk, d = .node dk ∧ r = .node rk ∧ keys rk = keys dk := by
  obtain ⟨kvs, rfl, _, rfl⟩ := construct_ok h
  exact ⟨kvs, _, rfl, rfl, foldl_setKey_keys kw kvs⟩

/-- `mk` succeeds only if the plain constructor does, all field validators pass and the
class-level check passes -/
theorem mk_ok {env : Env} {cls : String} {kw : Kvs} {r : Cfg} (h : mk env cls kw = .ok r) :
    construct (env.cls cls) kw = .ok r ∧
      ∀ kvs, r = .node kvs → runRules kvs (fieldRules cls) = .ok () ∧ classCheck cls kvs = .ok () := by
  unfold mk at h
  cases hc : construct (env.cls cls) kw with
  | error e => rw [hc] at h; cases h
  | ok c =>
    rw [hc] at h
    cases c with
    | leaf v =>
      simp only [Except.ok.injEq] at h
      subst h
      exact ⟨rfl, fun kvs hk => by cases hk⟩
    | node kvs =>
      simp only at h
      cases hr : runRules kvs (fieldRules cls) with
      | error e => rw [hr] at h; cases h
      | ok u =>
        rw [hr] at h
        cases hcc : classCheck cls kvs with
        | error e => rw [hcc] at h; cases h
        | ok u' =>
          rw [hcc] at h
          simp only [Except.ok.injEq] at h
          subst h
          refine ⟨rfl, fun kvs' hk => ?_⟩
          cases hk
          exact ⟨hr, hcc⟩

theorem mk_get {env : Env} {cls : String} {kw : Kvs} {r : Cfg} (h : mk env cls kw = .ok r)
    (hnd : (keys kw).Nodup) {k : String} {v : Cfg} (hm : (k, v) ∈ kw) : getPath [k] r = some v :=
  construct_get (mk_ok h).1 hnd hm

theorem mk_other {env : Env} {cls : String} {kw : Kvs} {r : Cfg} (h : mk env cls kw = .ok r)
    {k : String} (hk : k ∉ keys kw) : getPath [k] r = getPath [k] (env.cls cls) :=
  construct_other (mk_ok h).1 hk

theorem mk_keys {env : Env} {cls : String} {kw : Kvs} {r : Cfg} (h : mk env cls kw = .ok r) :
    ∃ dk rk, env.cls cls = .node dk ∧ r = .node rk ∧ keys rk = keys dk :=
  construct_keys (mk_ok h).1

theorem runRules_ok {kvs : Kvs} : ∀ {rules : List (String × Rule)}, runRules kvs rules = .ok () →
    ∀ f r, (f, r) ∈ rules → ∀ c, lookup f kvs = some c → r.check c = .ok () := by
  intro rules
  induction rules with
  | nil => intro _ f r hm; cases hm
  | cons fr rest ih =>
    intro h f r hm c hl
    obtain ⟨f0, r0⟩ := fr
    unfold runRules at h
    cases hl0 : lookup f0 kvs with
    | none =>
      rw [hl0] at h
      cases hm with
      | head => rw [hl0] at hl; cases hl
      | tail _ hm' => exact ih h f r hm' c hl
    | some c0 =>
      rw [hl0] at h
      simp only at h
      cases hc0 : r0.check c0 with
      | error e => rw [hc0] at h; cases h
      | ok u =>
        rw [hc0] at h
        cases hm with
        | head => rw [hl0] at hl; cases hl; exact hc0
        | tail _ hm' => exact ih h f r hm' c hl

theorem mem_place {a : Kvs} {t : List (String × String)} {fn : String × String} (h : fn ∈ t) :
    (fn.1, arg a fn.2) ∈ place a t := by
  unfold place; exact List.mem_map_of_mem (f := fun fn => (fn.1, arg a fn.2)) h

theorem keys_place (a : Kvs) (t : List (String × String)) : keys (place a t) = t.map (·.1) := by
  unfold keys place; rw [List.map_map]; rfl

theorem keys_append (x y : Kvs) : keys (x ++ y) = keys x ++ keys y := by
  unfold keys; rw [List.map_append]

/-! ### documented place of every plain argument (paths into the builder's result) -/

def under (p : String) (t : List (String × String)) : List (List String × String) :=
  t.map (fun fn => ([p, fn.1], fn.2))

def dataPaths : List (List String × String) :=
  dataPlacement.map (fun fn => ([fn.1], fn.2)) ++ under "preprocessing" preprocessingPlacement

def modelPaths : List (List String × String) := modelPlacement.map (fun fn => ([fn.1], fn.2))

def trainerPaths : List (List String × String) :=
  trainerPlacement.map (fun fn => ([fn.1], fn.2)) ++ under "train_data_loader" trainLoaderPlacement ++
    under "val_data_loader" valLoaderPlacement ++ under "model_ckpt" ckptPlacement ++
    under "wandb" wandbPlacement ++ under "optimizer" optimizerPlacement ++
    under "early_stopping" earlyStoppingPlacement

/-- a sub-config built by `mk … (place a t)` and stored under key `p` of `r` -/
theorem under_get {env : Env} {a : Kvs} {cls p : String} {t : List (String × String)} {sub r : Cfg}
    (hsub : mk env cls (place a t) = .ok sub) (hnd : (t.map (·.1)).Nodup)
    (hp : getPath [p] r = some sub) : ∀ pn ∈ under p t, getPath pn.1 r = some (arg a pn.2) := by
  intro pn hm
  unfold under at hm
  rw [List.mem_map] at hm
  obtain ⟨fn, hfn, rfl⟩ := hm
  show getPath (p :: [fn.1]) r = _
  rw [getPath_cons_of hp]
  exact mk_get hsub (by rw [keys_place]; exact hnd) (mem_place hfn)

end SleapVerif.Config
