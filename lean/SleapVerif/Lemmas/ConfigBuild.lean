import SleapVerif.Lemmas.ConfigTree
/-!
# Lemmas about attrs constructors (`construct`, `mk`) and the three builders — core Lean only
-/
namespace SleapVerif.Config

theorem getPath_single (k : String) (kvs : Kvs) : getPath [k] (.node kvs) = lookup k kvs := by
  simp only [getPath]
  cases lookup k kvs <;> rfl

theorem getPath_cons_of {k : String} {p : List String} {r v : Cfg} (h : getPath [k] r = some v) :
    getPath (k :: p) r = getPath p v := by
  cases r with
  | leaf w => simp [getPath] at h
  | node kvs =>
    rw [getPath_single] at h
    simp only [getPath, h]

theorem construct_get {d : Cfg} {kw : Kvs} {r : Cfg} (h : construct d kw = .ok r)
    (hnd : (keys kw).Nodup) {k : String} {v : Cfg} (hm : (k, v) ∈ kw) : getPath [k] r = some v := by
  obtain ⟨kvs, _, hsub, rfl⟩ := construct_ok h
  rw [getPath_single]
  exact lookup_foldl_setKey_mem kw kvs hnd hm (hsub _ hm)

theorem construct_other {d : Cfg} {kw : Kvs} {r : Cfg} (h : construct d kw = .ok r)
    {k : String} (hk : k ∉ keys kw) : getPath [k] r = getPath [k] d := by
  obtain ⟨kvs, rfl, _, rfl⟩ := construct_ok h
  rw [getPath_single, getPath_single]
  exact lookup_foldl_setKey_not_mem kw kvs hk

theorem construct_keys {d : Cfg} {kw : Kvs} {r : Cfg} (h : construct d kw = .ok r) :
    ∃ dk rk, d = .node dk ∧ r = .node rk ∧ keys rk = keys dk := by
  obtain ⟨kvs, rfl, _, rfl⟩ := construct_ok h
  exact ⟨kvs, _, rfl, rfl, foldl_setKey_keys kw kvs⟩

/-- `mk` succeeds only if the plain constructor does, all field validators pass and the
class-level check passes -/
theorem mk_ok {env : Env} {cls : String} {kw : Kvs} {r : Cfg} (h : mk env cls kw = .ok r) :
    construct (env.cls cls) kw = .ok r ∧
      ∀ kvs, r = .node kvs → runRules kvs (fieldRules cls) = .ok () ∧ classCheck cls kvs = .ok () := by
  unfold mk at h
  cases hc : construct (env.cls cls) kw with
  | error e => rw [hc] at h; cases h
  | ok c =>
    rw [hc] at h
    cases c with
    | leaf v =>
      simp only [Except.ok.injEq] at h
      subst h
      exact ⟨rfl, fun kvs hk => by cases hk⟩
    | node kvs =>
      simp only at h
      cases hr : runRules kvs (fieldRules cls) with
      | error e => rw [hr] at h; cases h
      | ok u =>
        rw [hr] at h
        cases hcc : classCheck cls kvs with
        | error e => rw [hcc] at h; cases h
        | ok u' =>
          rw [hcc] at h
          simp only [Except.ok.injEq] at h
          subst h
          refine ⟨rfl, fun kvs' hk => ?_⟩
          cases hk
          exact ⟨hr, hcc⟩

theorem mk_get {env : Env} {cls : String} {kw : Kvs} {r : Cfg} (h : mk env cls kw = .ok r)
    (hnd : (keys kw).Nodup) {k : String} {v : Cfg} (hm : (k, v) ∈ kw) : getPath [k] r = some v :=
  construct_get (mk_ok h).1 hnd hm

theorem mk_other {env : Env} {cls : String} {kw : Kvs} {r : Cfg} (h : mk env cls kw = .ok r)
    {k : String} (hk : k ∉ keys kw) : getPath [k] r = getPath [k] (env.cls cls) :=
  construct_other (mk_ok h).1 hk

theorem mk_keys {env : Env} {cls : String} {kw : Kvs} {r : Cfg} (h : mk env cls kw = .ok r) :
    ∃ dk rk, env.cls cls = .node dk ∧ r = .node rk ∧ keys rk = keys dk :=
  construct_keys (mk_ok h).1

theorem runRules_ok {kvs : Kvs} : ∀ {rules : List (String × Rule)}, runRules kvs rules = .ok () →
    ∀ f r, (f, r) ∈ rules → ∀ c, lookup f kvs = some c → r.check c = .ok () := by
  intro rules
  induction rules with
  | nil => intro _ f r hm; cases hm
  | cons fr rest ih =>
    intro h f r hm c hl
    obtain ⟨f0, r0⟩ := fr
    unfold runRules at h
    cases hl0 : lookup f0 kvs with
    | none =>
      rw [hl0] at h
      cases hm with
      | head => rw [hl0] at hl; cases hl
      | tail _ hm' => exact ih h f r hm' c hl
    | some c0 =>
      rw [hl0] at h
      simp only at h
      cases hc0 : r0.check c0 with
      | error e => rw [hc0] at h; cases h
      | ok u =>
        rw [hc0] at h
        cases hm with
        | head => rw [hl0] at hl; cases hl; exact hc0
        | tail _ hm' => exact ih h f r hm' c hl

theorem mem_place {a : Kvs} {t : List (String × String)} {fn : String × String} (h : fn ∈ t) :
    (fn.1, arg a fn.2) ∈ place a t := by
  unfold place; exact List.mem_map_of_mem (f := fun fn => (fn.1, arg a fn.2)) h

theorem keys_place (a : Kvs) (t : List (String × String)) : keys (place a t) = t.map (·.1) := by
  unfold keys place; rw [List.map_map]; rfl

theorem keys_append (x y : Kvs) : keys (x ++ y) = keys x ++ keys y := by
  unfold keys; rw [List.map_append]

/-! ### documented place of every plain argument (paths into the builder's result) -/

def under (p : String) (t : List (String × String)) : List (List String × String) :=
  t.map (fun fn => ([p, fn.1], fn.2))

def dataPaths : List (List String × String) :=
  dataPlacement.map (fun fn => ([fn.1], fn.2)) ++ under "preprocessing" preprocessingPlacement

def modelPaths : List (List String × String) := modelPlacement.map (fun fn => ([fn.1], fn.2))

def trainerPaths : List (List String × String) :=
  trainerPlacement.map (fun fn => ([fn.1], fn.2)) ++ under "train_data_loader" trainLoaderPlacement ++
    under "val_data_loader" valLoaderPlacement ++ under "model_ckpt" ckptPlacement ++
    under "wandb" wandbPlacement ++ under "optimizer" optimizerPlacement ++
    under "early_stopping" earlyStoppingPlacement

/-- a sub-config built by `mk … (place a t)` and stored under key `p` of `r` -/
theorem under_get {env : Env} {a : Kvs} {cls p : String} {t : List (String × String)} {sub r : Cfg}
    (hsub : mk env cls (place a t) = .ok sub) (hnd : (t.map (·.1)).Nodup)
    (hp : getPath [p] r = some sub) : ∀ pn ∈ under p t, getPath pn.1 r = some (arg a pn.2) := by
  intro pn hm
  unfold under at hm
  rw [List.mem_map] at hm
  obtain ⟨fn, hfn, rfl⟩ := hm
  show getPath (p :: [fn.1]) r = _
  rw [getPath_cons_of hp]
  exact mk_get hsub (by rw [keys_place]; exact hnd) (mem_place hfn)

/-! ### a concrete environment for the non-vacuity examples of Props/C20 -/

def nullNode (ks : List String) : Cfg := .node (ks.map (fun k => (k, cnull)))

/-- a small class-default environment with the real field names (values are irrelevant to the
theorems; only validated fields need sensible values, and those come from the arguments) -/
def exCls : String → Cfg
  | "DataLoaderConfig" => nullNode ["batch_size", "shuffle", "num_workers"]
  | "ModelCkptConfig" => nullNode ["save_top_k", "save_last"]
  | "WandBConfig" => nullNode ["entity", "project", "name", "api_key", "wandb_mode", "prv_runid", "group"]
  | "OptimizerConfig" => nullNode ["lr", "amsgrad"]
  | "EarlyStoppingConfig" => nullNode ["min_delta", "patience", "stop_training_on_plateau"]
  | "LRSchedulerConfig" => nullNode ["step_lr", "reduce_lr_on_plateau"]
  | "StepLRConfig" => .node [("step_size", .leaf (.int 10)), ("gamma", fl (mkRat 1 10))]
  | "TrainerConfig" => nullNode ["train_data_loader", "val_data_loader", "model_ckpt", "trainer_devices",
      "trainer_accelerator", "profiler", "trainer_strategy", "enable_progress_bar", "steps_per_epoch",
      "max_epochs", "seed", "use_wandb", "save_ckpt", "save_ckpt_path", "resume_ckpt_path", "wandb",
      "optimizer_name", "optimizer", "lr_scheduler", "early_stopping"]
  | "PreprocessingConfig" => nullNode ["is_rgb", "max_height", "max_width", "scale", "crop_hw", "min_crop_size"]
  | "DataConfig" => nullNode ["train_labels_path", "val_labels_path", "test_file_path", "provider",
      "user_instances_only", "data_pipeline_fw", "np_chunks_path", "litdata_chunks_path",
      "use_existing_chunks", "chunk_size", "delete_chunks_after_training", "preprocessing",
      "use_augmentations_train", "augmentation_config", "skeletons"]
  | "IntensityConfig" => .node [("uniform_noise_p", fl 0), ("gaussian_noise_p", fl 0), ("contrast_p", fl 0),
      ("brightness_p", fl 0)]
  | "GeometricConfig" => .node [("rotation", fl 15), ("scale", pair d09 d11), ("translate_width", fl d02),
      ("translate_height", fl d02), ("affine_p", fl 0), ("erase_p", fl 0), ("mixup_p", fl 0)]
  | "AugmentationConfig" => .node
      [("intensity", .node [("uniform_noise_p", fl 0), ("gaussian_noise_p", fl 0), ("contrast_p", fl 0),
          ("brightness_p", fl 0)]),
       ("geometric", .node [("rotation", fl 15), ("scale", pair d09 d11), ("translate_width", fl d02),
          ("translate_height", fl d02), ("affine_p", fl 0), ("erase_p", fl 0), ("mixup_p", fl 0)])]
  | "ModelConfig" => nullNode ["init_weights", "pre_trained_weights", "pretrained_backbone_weights",
      "pretrained_head_weights", "backbone_config", "head_configs", "total_params"]
  | "TrainingJobConfig" => nullNode ["data_config", "model_config", "trainer_config", "name", "description",
      "sleap_nn_version", "filename"]
  | "BackboneConfig" => nullNode ["unet", "convnext", "swint"]
  | "HeadConfig" => nullNode ["single_instance", "centroid", "centered_instance", "bottomup"]
  | "UNetConfig" => .node [("filters", .leaf (.int 32)), ("max_stride", .leaf (.int 16))]
  | "ConvNextConfig" => .node [("model_type", cstr "tiny"), ("max_stride", .leaf (.int 16))]
  | "CentroidConfig" => .node [("confmaps", .node [("anchor_part", cnull), ("sigma", fl 5)])]
  | "CentroidConfMapsConfig" => .node [("anchor_part", cnull), ("sigma", fl 5)]
  | _ => cnull

def exEnv : Env := ⟨exCls, fun a b => a = b⟩

def exTrainerArgs : Kvs :=
  [("batch_size", .leaf (.int 4)), ("learning_rate", fl (mkRat 1 1000)), ("optimizer", cstr "Adam"),
   ("trainer_num_devices", cstr "auto"), ("early_stopping_min_delta", fl 0),
   ("early_stopping_patience", .leaf (.int 1)), ("lr_scheduler", .node [("step_lr", .node [("step_size", .leaf (.int 5))])])]
def exDataArgs : Kvs :=
  [("train_labels_path", cstr "t.slp"), ("val_labels_path", cstr "v.slp"), ("scale", fl 1),
   ("use_augmentations_train", cbool true), ("intensity_aug", cstr "contrast"),
   ("geometry_aug", .leaf (.list [.str "scale", .str "rotation"]))]
def exModelArgs : Kvs :=
  [("init_weight", cstr "default"), ("backbone_config", .node [("unet", .node [("filters", .leaf (.int 8))])]),
   ("head_configs", .node [("centroid", .node [("confmaps", .node [("sigma", fl 2)])])])]


def isFl (q : Rat) : Option Cfg → Bool
  | some (.leaf (.num x)) => x == q
  | _ => false
def isInt (i : Int) : Option Cfg → Bool
  | some (.leaf (.int x)) => x == i
  | _ => false
def isNullOpt : Option Cfg → Bool
  | some c => c.isNull
  | none => false
def pathOf (r : Except String Cfg) (p : List String) : Option Cfg :=
  match r with
  | .ok c => getPath p c
  | .error _ => none

end SleapVerif.Config
