import SleapVerif.Lemmas.EvalMatch

/-! Lemmas about `find_frame_pairs` (video matching, frame matching) for C16. -/
set_option linter.unusedSectionVars false
set_option linter.unusedVariables false
namespace SleapVerif.Eval
open SleapVerif.Oks

theorem sameVideo_iff (vgt v : VideoKey) : sameVideo vgt v = true ↔ v = vgt := by
  obtain ⟨k, f, d⟩ := vgt
  obtain ⟨k', f', d'⟩ := v
  simp [sameVideo, Bool.and_eq_true]
  tauto

theorem firstIdx_spec {α : Type} (p : α → Bool) : ∀ (l : List α) (i : Nat), firstIdx p l = some i →
    ∃ x, l[i]? = some x ∧ p x = true ∧ ∀ (j : Nat) (y : α), j < i → l[j]? = some y → p y = false
  | [], i, h => by simp [firstIdx] at h
  | a :: t, i, h => by
    unfold firstIdx at h
    by_cases hp : p a = true
    · rw [if_pos hp] at h
      have : i = 0 := by simpa using h.symm
      subst this
      exact ⟨a, by simp, hp, fun j y hj => by omega⟩
    · rw [if_neg hp] at h
      cases hf : firstIdx p t with
      | none => rw [hf] at h; simp at h
      | some k =>
        rw [hf] at h
        have : i = k + 1 := by simpa using h.symm
        subst this
        obtain ⟨x, hx, hpx, hmin⟩ := firstIdx_spec p t k hf
        refine ⟨x, by simpa using hx, hpx, ?_⟩
        intro j y hj hy
        cases j with
        | zero =>
          have : a = y := by simpa using hy
          subst this; simpa using hp
        | succ j' => exact hmin j' y (by omega) (by simpa using hy)

theorem firstIdx_some_of_mem {α : Type} (p : α → Bool) : ∀ (l : List α) (i : Nat) (x : α),
    l[i]? = some x → p x = true → ∃ k, firstIdx p l = some k ∧ k ≤ i
  | [], i, x, h, _ => by simp at h
  | a :: t, i, x, h, hp => by
    unfold firstIdx
    by_cases hpa : p a = true
    · rw [if_pos hpa]; exact ⟨0, rfl, Nat.zero_le _⟩
    · rw [if_neg hpa]
      cases i with
      | zero =>
        have : a = x := by simpa using h
        subst this; exact absurd hp hpa
      | succ i' =>
        obtain ⟨k, hk, hki⟩ := firstIdx_some_of_mem p t i' x (by simpa using h) hp
        exact ⟨k + 1, by rw [hk]; rfl, by omega⟩

theorem getElem?_inj_of_nodup {α : Type} {l : List α} (h : l.Nodup) {i j : Nat} {x : α}
    (hi : l[i]? = some x) (hj : l[j]? = some x) : i = j := by
  obtain ⟨hi', ei⟩ := List.getElem?_eq_some_iff.mp hi
  obtain ⟨hj', ej⟩ := List.getElem?_eq_some_iff.mp hj
  exact (List.Nodup.getElem_inj_iff h).mp (ei.trans ej.symm)

/-- in a duplicate-free video list a video is matched to itself -/
theorem firstIdx_self (l : List VideoKey) (h : l.Nodup) (i : Nat) (vk : VideoKey) (hi : l[i]? = some vk) :
    firstIdx (sameVideo vk) l = some i := by
  obtain ⟨k, hk, _⟩ := firstIdx_some_of_mem (sameVideo vk) l i vk hi ((sameVideo_iff vk vk).mpr rfl)
  obtain ⟨x, hx, hpx, _⟩ := firstIdx_spec _ l k hk
  have : x = vk := (sameVideo_iff vk x).mp hpx
  subst this
  rw [hk, getElem?_inj_of_nodup h hx hi]

variable {G P : Type}

theorem mem_pairsOfVideo (gt : Labels G) (pr : Labels P) (vi pj : Nat) (a : LFrame G) (b : LFrame P) :
    (a, b) ∈ pairsOfVideo gt pr vi pj ↔
      a ∈ gt.frames ∧ a.video = vi ∧ a.insts ≠ [] ∧
        pr.frames.find? (fun x => x.video == pj && x.frameIdx == a.frameIdx) = some b := by
  unfold pairsOfVideo
  simp only [List.mem_flatMap, List.mem_filter]
  constructor
  · rintro ⟨lf, ⟨hlf, hcond⟩, hmem⟩
    simp only [Bool.and_eq_true, beq_iff_eq, Bool.not_eq_true', List.isEmpty_eq_false_iff] at hcond
    cases hf : pr.frames.find? (fun x => x.video == pj && x.frameIdx == lf.frameIdx) with
    | none => rw [hf] at hmem; simp at hmem
    | some x =>
      rw [hf] at hmem
      have : a = lf ∧ b = x := by simpa using hmem
      obtain ⟨rfl, rfl⟩ := this
      exact ⟨hlf, hcond.1, hcond.2, hf⟩
  · rintro ⟨ha, hv, hne, hf⟩
    refine ⟨a, ⟨ha, ?_⟩, ?_⟩
    · simp only [Bool.and_eq_true, beq_iff_eq, Bool.not_eq_true', List.isEmpty_eq_false_iff]
      exact ⟨hv, hne⟩
    · rw [hf]; simp

theorem mem_pairsFrom (gt : Labels G) (pr : Labels P) (a : LFrame G) (b : LFrame P) :
    ∀ (vs : List VideoKey) (vi : Nat), (a, b) ∈ pairsFrom gt pr vi vs ↔
      ∃ j vk pj, vs[j]? = some vk ∧ firstIdx (sameVideo vk) pr.videos = some pj ∧
        (a, b) ∈ pairsOfVideo gt pr (vi + j) pj
  | [], vi => by simp [pairsFrom]
  | vk :: rest, vi => by
    unfold pairsFrom
    rw [List.mem_append, mem_pairsFrom gt pr a b rest (vi + 1)]
    constructor
    · rintro (h | ⟨j, vk', pj, hj, hf, hm⟩)
      · cases hf : firstIdx (sameVideo vk) pr.videos with
        | none => rw [hf] at h; simp at h
        | some pj => rw [hf] at h; exact ⟨0, vk, pj, by simp, hf, by simpa using h⟩
      · exact ⟨j + 1, vk', pj, by simpa using hj, hf, by
          have : vi + (j + 1) = vi + 1 + j := by omega
          rw [this]; exact hm⟩
    · rintro ⟨j, vk', pj, hj, hf, hm⟩
      cases j with
      | zero =>
        have : vk = vk' := by simpa using hj
        subst this
        left; rw [hf]; simpa using hm
      | succ j' =>
        right
        exact ⟨j', vk', pj, by simpa using hj, hf, by
          have : vi + (j' + 1) = vi + 1 + j' := by omega
          rw [← this]; exact hm⟩

/-- characterisation of `find_frame_pairs` -/
theorem mem_findFramePairs (gt : Labels G) (pr : Labels P) (a : LFrame G) (b : LFrame P) :
    (a, b) ∈ findFramePairs gt pr ↔
      ∃ vk pj, gt.videos[a.video]? = some vk ∧ firstIdx (sameVideo vk) pr.videos = some pj ∧
        a ∈ gt.frames ∧ a.insts ≠ [] ∧
        pr.frames.find? (fun x => x.video == pj && x.frameIdx == a.frameIdx) = some b := by
  unfold findFramePairs
  rw [mem_pairsFrom]
  constructor
  · rintro ⟨j, vk, pj, hj, hf, hm⟩
    rw [mem_pairsOfVideo] at hm
    obtain ⟨ha, hv, hne, hfind⟩ := hm
    have : a.video = j := by omega
    exact ⟨vk, pj, by rw [this]; exact hj, hf, ha, hne, hfind⟩
  · rintro ⟨vk, pj, hj, hf, ha, hne, hfind⟩
    exact ⟨a.video, vk, pj, hj, hf, (mem_pairsOfVideo gt pr _ pj a b).mpr ⟨ha, by omega, hne, hfind⟩⟩

/-- perfect label pairs, frame level: each frame is the gt of itself mapped through `pred` -/
theorem processFrames_perfect {R : Type} [Field R] [LinearOrder R] [IsStrictOrderedRing R]
    (oks : G → P → Option R) (score : P → R) (pred : G → P) (thr one : R) (hthr : thr < one)
    :
    ∀ fs : List (Frame G P), (∀ f ∈ fs, f.gts.Nodup ∧ f.prs = some (f.gts.map pred) ∧
        (∀ g ∈ f.gts, oks g (pred g) = some one) ∧
        (∀ g ∈ f.gts, ∀ g' ∈ f.gts, ∀ w, g' ≠ g → oks g' (pred g) = some w → w < one)) →
      (processFrames oks score thr fs).2 = [] ∧
      (∀ x ∈ (processFrames oks score thr fs).1, x.2.2 = one ∧ x.2.1 = pred x.1) ∧
      (processFrames oks score thr fs).1.length = (fs.map (fun f => f.gts.length)).sum
  | [], _ => ⟨rfl, by simp [processFrames], rfl⟩
  | ⟨gts, prs⟩ :: fs, h => by
    obtain ⟨hnd, hprs, hself, hdist⟩ := h ⟨gts, prs⟩ List.mem_cons_self
    simp only at hnd hprs hself hdist
    subst hprs
    obtain ⟨ih1, ih2, ih3⟩ := processFrames_perfect oks score pred thr one hthr fs
      (fun f hf => h f (List.mem_cons_of_mem _ hf))
    rw [processFrames_cons_some]
    have hm : matchInstances oks score thr gts (gts.map pred) =
        ((sortDesc (score ∘ pred) gts).map (fun g => (g, pred g, one)), []) := by
      unfold matchInstances
      rw [sortDesc_map]
      exact matchLoop_perfect oks pred thr one hthr gts hself hdist _ gts (sortDesc_perm _ gts) hnd (fun x hx => hx)
    rw [hm]
    refine ⟨by simp [ih1], ?_, ?_⟩
    · intro x hx
      rcases List.mem_append.mp hx with hx | hx
      · obtain ⟨g, _, rfl⟩ := List.mem_map.mp hx
        exact ⟨rfl, rfl⟩
      · exact ih2 x hx
    · simp only [List.length_append, List.length_map, (sortDesc_perm _ gts).length_eq, ih3,
        List.map_cons, List.sum_cons]

/-! ### `user_labels_only=False`: all frames, all instances -/

theorem mem_pairsOfVideoAll (gt : Labels G) (pr : Labels P) (vi pj : Nat) (a : LFrame G) (b : LFrame P) :
    (a, b) ∈ pairsOfVideoAll gt pr vi pj ↔
      a ∈ gt.frames ∧ a.video = vi ∧
        pr.frames.find? (fun x => x.video == pj && x.frameIdx == a.frameIdx) = some b := by
  unfold pairsOfVideoAll
  simp only [List.mem_flatMap, List.mem_filter]
  constructor
  · rintro ⟨lf, ⟨hlf, hcond⟩, hmem⟩
    simp only [beq_iff_eq] at hcond
    cases hf : pr.frames.find? (fun x => x.video == pj && x.frameIdx == lf.frameIdx) with
    | none => rw [hf] at hmem; simp at hmem
    | some x =>
      rw [hf] at hmem
      have : a = lf ∧ b = x := by simpa using hmem
      obtain ⟨rfl, rfl⟩ := this
      exact ⟨hlf, hcond, hf⟩
  · rintro ⟨ha, hv, hf⟩
    refine ⟨a, ⟨ha, by simpa using hv⟩, ?_⟩
    rw [hf]; simp

theorem mem_pairsFromAll (gt : Labels G) (pr : Labels P) (a : LFrame G) (b : LFrame P) :
    ∀ (vs : List VideoKey) (vi : Nat), (a, b) ∈ pairsFromAll gt pr vi vs ↔
      ∃ j vk pj, vs[j]? = some vk ∧ firstIdx (sameVideo vk) pr.videos = some pj ∧
        (a, b) ∈ pairsOfVideoAll gt pr (vi + j) pj
  | [], vi => by simp [pairsFromAll]
  | vk :: rest, vi => by
    unfold pairsFromAll
    rw [List.mem_append, mem_pairsFromAll gt pr a b rest (vi + 1)]
    constructor
    · rintro (h | ⟨j, vk', pj, hj, hf, hm⟩)
      · cases hf : firstIdx (sameVideo vk) pr.videos with
        | none => rw [hf] at h; simp at h
        | some pj => rw [hf] at h; exact ⟨0, vk, pj, by simp, hf, by simpa using h⟩
      · exact ⟨j + 1, vk', pj, by simpa using hj, hf, by
          have : vi + (j + 1) = vi + 1 + j := by omega
          rw [this]; exact hm⟩
    · rintro ⟨j, vk', pj, hj, hf, hm⟩
      cases j with
      | zero =>
        have : vk = vk' := by simpa using hj
        subst this
        left; rw [hf]; simpa using hm
      | succ j' =>
        right
        exact ⟨j', vk', pj, by simpa using hj, hf, by
          have : vi + (j' + 1) = vi + 1 + j' := by omega
          rw [← this]; exact hm⟩

theorem mem_findFramePairsAll (gt : Labels G) (pr : Labels P) (a : LFrame G) (b : LFrame P) :
    (a, b) ∈ findFramePairsAll gt pr ↔
      ∃ vk pj, gt.videos[a.video]? = some vk ∧ firstIdx (sameVideo vk) pr.videos = some pj ∧
        a ∈ gt.frames ∧
        pr.frames.find? (fun x => x.video == pj && x.frameIdx == a.frameIdx) = some b := by
  unfold findFramePairsAll
  rw [mem_pairsFromAll]
  constructor
  · rintro ⟨j, vk, pj, hj, hf, hm⟩
    rw [mem_pairsOfVideoAll] at hm
    obtain ⟨ha, hv, hfind⟩ := hm
    have : a.video = j := by omega
    exact ⟨vk, pj, by rw [this]; exact hj, hf, ha, hfind⟩
  · rintro ⟨vk, pj, hj, hf, ha, hfind⟩
    exact ⟨a.video, vk, pj, hj, hf, (mem_pairsOfVideoAll gt pr _ pj a b).mpr ⟨ha, by omega, hfind⟩⟩

/-- the default mode is the all-frames mode minus the frames without (user) instances -/
theorem mem_findFramePairs_iff_all (gt : Labels G) (pr : Labels P) (a : LFrame G) (b : LFrame P) :
    (a, b) ∈ findFramePairs gt pr ↔ (a, b) ∈ findFramePairsAll gt pr ∧ a.insts ≠ [] := by
  rw [mem_findFramePairs, mem_findFramePairsAll]
  constructor
  · rintro ⟨vk, pj, h1, h2, h3, h4, h5⟩; exact ⟨⟨vk, pj, h1, h2, h3, h5⟩, h4⟩
  · rintro ⟨⟨vk, pj, h1, h2, h3, h5⟩, h4⟩; exact ⟨vk, pj, h1, h2, h3, h4, h5⟩

/-- `len(positive_pairs) + len(false_negatives)` = number of enumerated gt instances of the paired frames -/
theorem processFrames_count {R : Type} [Field R] [LinearOrder R] [IsStrictOrderedRing R] (oks : G → P → Option R) (score : P → R) (thr : R) :
    ∀ fs : List (Frame G P), (∀ f ∈ fs, f.prs.isSome) →
      (processFrames oks score thr fs).1.length + (processFrames oks score thr fs).2.length =
        (fs.map (fun f => f.gts.length)).sum
  | [], _ => rfl
  | ⟨gts, none⟩ :: fs, h => by have := h _ List.mem_cons_self; simp at this
  | ⟨gts, some prs⟩ :: fs, h => by
    have ih := processFrames_count oks score thr fs (fun f hf => h f (List.mem_cons_of_mem _ hf))
    have hc := matchInstances_count oks score thr gts prs
    rw [processFrames_cons_some]
    simp only [List.length_append, List.map_cons, List.sum_cons]
    omega

end SleapVerif.Eval
