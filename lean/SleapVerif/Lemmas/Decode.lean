import SleapVerif.Model.Decode
import Mathlib.Algebra.Order.Field.Basic
import Mathlib.Tactic.Linarith
import Mathlib.Tactic.FieldSimp
import Mathlib.Tactic.Ring
import Mathlib.Tactic.Positivity
/-!
# Numeric lemmas for the decode chains (any ordered field)

`nearest` really is a nearest grid cell, a point inside the grid's range is within half a stride
of it, and the two affine decode chains undo `encode` exactly up to that quantisation error.
-/
namespace SleapVerif.Decode

set_option linter.unusedSectionVars false
variable {R : Type} [Field R] [LinearOrder R] [IsStrictOrderedRing R]

theorem nearest_le (os : Nat) (q : R) (m : Nat) : nearest Nat.cast os q m ≤ m := by
  induction m with
  | zero => simp [nearest]
  | succ k ih =>
    simp only [nearest]
    split <;> omega

/-- `nearest` minimises the squared distance over the cells `0..m`. -/
theorem nearest_min (os : Nat) (q : R) (m k : Nat) (hk : k ≤ m) :
    dist2 (((nearest Nat.cast os q m * os : Nat) : R)) q ≤ dist2 (((k * os : Nat) : R)) q := by
  induction m with
  | zero =>
    have : k = 0 := by omega
    subst this; simp [nearest]
  | succ n ih =>
    simp only [nearest]
    by_cases hlt : dist2 ((((n + 1) * os : Nat) : R)) q < dist2 (((nearest Nat.cast os q n * os : Nat) : R)) q
    · rw [if_pos hlt]
      rcases Nat.lt_or_ge k (n + 1) with h | h
      · exact le_trans (le_of_lt hlt) (ih (by omega))
      · have : k = n + 1 := by omega
        subst this; exact le_refl _
    · rw [if_neg hlt]
      rcases Nat.lt_or_ge k (n + 1) with h | h
      · exact ih (by omega)
      · have : k = n + 1 := by omega
        subst this; exact not_lt.mp hlt

/-- every point of `[0, m·os + os/2]` is within half a stride of one of the cells `0..m`
(no Archimedean axiom needed: induction on the number of cells). -/
theorem exists_cell_near (os : Nat) (q : R) (m : Nat) (h0 : 0 ≤ q)
    (h1 : q ≤ ((m * os : Nat) : R) + (os : R) / 2) :
    ∃ k, k ≤ m ∧ |((k * os : Nat) : R) - q| ≤ (os : R) / 2 := by
  induction m with
  | zero =>
    refine ⟨0, le_refl _, ?_⟩
    simp only [Nat.zero_mul, Nat.cast_zero, zero_add, zero_sub, abs_neg] at h1 ⊢
    rw [abs_of_nonneg h0]; exact h1
  | succ n ih =>
    by_cases hq : q ≤ ((n * os : Nat) : R) + (os : R) / 2
    · obtain ⟨k, hk, hb⟩ := ih hq
      exact ⟨k, by omega, hb⟩
    · refine ⟨n + 1, le_refl _, ?_⟩
      have hq' := not_le.mp hq
      have e : (((n + 1) * os : Nat) : R) = ((n * os : Nat) : R) + (os : R) := by push_cast; ring
      rw [e] at h1 ⊢
      rw [abs_le]; constructor <;> linarith

theorem abs_le_of_dist2_le {a b q : R} {c : R} (h : dist2 a q ≤ dist2 b q) (hb : |b - q| ≤ c) :
    |a - q| ≤ c := by
  refine le_trans ?_ hb
  unfold dist2 at h
  by_contra hc
  have hlt := not_le.mp hc
  have := mul_self_lt_mul_self (abs_nonneg (b - q)) hlt
  rw [abs_mul_abs_self, abs_mul_abs_self] at this
  exact absurd h (not_le.mpr this)

/-- **half-cell lemma**: inside the grid's range the nearest cell is within half a stride. -/
theorem nearest_half (os : Nat) (q : R) (m : Nat) (h0 : 0 ≤ q)
    (h1 : q ≤ ((m * os : Nat) : R) + (os : R) / 2) :
    |((nearest Nat.cast os q m * os : Nat) : R) - q| ≤ (os : R) / 2 := by
  obtain ⟨k, hk, hb⟩ := exists_cell_near os q m h0 h1
  exact abs_le_of_dist2_le (nearest_min os q m k hk) hb

/-- the affine part of both decode chains: if `g·os` is within `e` of `x·(eff·s) - tl` then
`g·os/s/eff + tl/s/eff` is within `e/(s·eff)` of `x`. -/
theorem decode_affine {s eff x tl gos e : R} (hs : 0 < s) (he : 0 < eff)
    (h : |gos - (x * (eff * s) - tl)| ≤ e) :
    |gos / s / eff + tl / s / eff - x| ≤ e / (s * eff) := by
  have hse : 0 < s * eff := mul_pos hs he
  have e1 : gos / s / eff + tl / s / eff - x = (gos - (x * (eff * s) - tl)) / (s * eff) := by
    field_simp
    ring
  rw [e1, abs_div, abs_of_pos hse]
  exact div_le_div_of_nonneg_right h (le_of_lt hse)

/-- **centroid_roundtrip**: the centroid stage (no refinement) returns the centroid, in size-matched
image coordinates, within half a centroid cell: `|cell·os_c/s_c − cen·eff| ≤ os_c/2/s_c`. -/
theorem centroid_roundtrip (c : TopDownCfg) (eff x : R) (n : Nat)
    (hs : 0 < c.sc.toR (Nat.cast : Nat → R))
    (h0 : 0 ≤ x * (eff * c.sc.toR Nat.cast))
    (h1 : x * (eff * c.sc.toR Nat.cast) ≤ (((n - 1) * c.osC : Nat) : R) + (c.osC : R) / 2) :
    |centroidCoord Nat.cast c eff n x 0 - x * eff| ≤ (c.osC : R) / 2 / c.sc.toR Nat.cast := by
  have hh := nearest_half c.osC (x * (eff * c.sc.toR (Nat.cast : Nat → R))) (n - 1) h0 h1
  have := decode_affine (s := c.sc.toR (Nat.cast : Nat → R)) (eff := (1 : R)) (x := x * eff) (tl := (0 : R))
    hs one_pos (gos := ((nearest Nat.cast c.osC (x * (eff * c.sc.toR Nat.cast)) (n - 1) * c.osC : Nat) : R))
    (e := (c.osC : R) / 2) (by simpa [mul_assoc] using hh)
  simpa [centroidCoord] using this

/-- **crop_contains** (one axis): if the centroid estimate `ĉ` is within `e` of the true centroid `cn`
and the keypoint keeps the margins that `robustAxis` tests, the keypoint lies in the grid range of the
crop cut around `ĉ` — the range hypotheses of `topdown_roundtrip` for the crop actually taken. -/
theorem crop_contains (c : TopDownCfg) (size : Nat) (chat cn e p qmax : R)
    (hsi : 0 ≤ c.si.toR (Nat.cast : Nat → R)) (hc : |chat - cn| ≤ e)
    (hlo : 0 ≤ p - ((cn + e) * c.si.toR Nat.cast - ((size : R) / 2 - 1 / 2)))
    (hhi : p - ((cn - e) * c.si.toR Nat.cast - ((size : R) / 2 - 1 / 2)) ≤ qmax) :
    0 ≤ p - cropTL Nat.cast c size chat ∧ p - cropTL Nat.cast c size chat ≤ qmax := by
  have h1 := (abs_le.mp hc).1
  have h2 := (abs_le.mp hc).2
  have ha : chat * c.si.toR Nat.cast ≤ (cn + e) * c.si.toR Nat.cast :=
    mul_le_mul_of_nonneg_right (by linarith) hsi
  have hb : (cn - e) * c.si.toR Nat.cast ≤ chat * c.si.toR Nat.cast :=
    mul_le_mul_of_nonneg_right (by linarith) hsi
  simp only [cropTL, Nat.cast_ofNat, Nat.cast_one]
  constructor <;> linarith

/-- what `robustAxis = true` means -/
theorem robustAxis_spec (c : TopDownCfg) (size n : Nat) (eff e cn x : R)
    (h : robustAxis Nat.cast c size n eff e cn x = true) :
    0 ≤ x * (eff * c.si.toR Nat.cast) - ((cn + e) * c.si.toR Nat.cast - ((size : R) / 2 - 1 / 2)) ∧
    x * (eff * c.si.toR Nat.cast) - ((cn - e) * c.si.toR Nat.cast - ((size : R) / 2 - 1 / 2))
      ≤ (((n - 1) * c.osI : Nat) : R) + (c.osI : R) / 2 := by
  simp only [robustAxis, Bool.and_eq_true, Bool.not_eq_true', decide_eq_false_iff_not, not_lt, sub_self,
    Nat.cast_ofNat, Nat.cast_one] at h
  exact h

end SleapVerif.Decode
