import SleapVerif.Lemmas.Peaks
import SleapVerif.Lemmas.PeaksSum
/-!
Helper lemmas for C07: flat argmax + unravel, the `valid_idx` gather/scatter of
`find_global_peaks`, and bump patches (pairing argument instantiated).
-/
namespace SleapVerif.Peaks
set_option linter.unusedSectionVars false

variable {R : Type} [Field R] [LinearOrder R] [IsStrictOrderedRing R]

/-! ### flat argmax -/

/-- the flat index of the repaired detector -/
def flatArg (h w : Nat) (img : Nat → Nat → R) : Nat :=
  argmaxUpTo (fun k => img (k / w) (k % w)) (h * w - 1)

theorem globalRough1_eq (thr : R) (h w : Nat) (img : Nat → Nat → R) :
    globalRough1 thr h w img =
      threshold thr (flatArg h w img % w) (flatArg h w img / w) (img (flatArg h w img / w) (flatArg h w img % w)) := rfl

theorem flatArg_bounds {h w : Nat} (hh : 0 < h) (hw : 0 < w) (img : Nat → Nat → R) :
    flatArg h w img / w < h ∧ flatArg h w img % w < w := by
  have hle := argmaxUpTo_le (fun k => img (k / w) (k % w)) (h * w - 1)
  have hpos : 0 < h * w := Nat.mul_pos hh hw
  refine ⟨?_, Nat.mod_lt _ hw⟩
  rw [Nat.div_lt_iff_lt_mul hw]
  unfold flatArg; omega

theorem flat_le {h w i j : Nat} (hi : i < h) (hj : j < w) : i * w + j ≤ h * w - 1 := by
  have : (i + 1) * w ≤ h * w := Nat.mul_le_mul_right w hi
  rw [Nat.add_mul] at this
  omega

theorem le_flatArg {h w : Nat} (img : Nat → Nat → R) {i j : Nat} (hi : i < h) (hj : j < w) :
    img i j ≤ img (flatArg h w img / w) (flatArg h w img % w) := by
  have := le_argmaxUpTo (fun k => img (k / w) (k % w)) (h * w - 1) (i * w + j) (flat_le hi hj)
  simp only [flat_div hj, flat_mod hj] at this
  exact this

theorem lt_flatArg_of_before {h w : Nat} (img : Nat → Nat → R) {i j : Nat} (hj : j < w)
    (hlt : i * w + j < flatArg h w img) :
    img i j < img (flatArg h w img / w) (flatArg h w img % w) := by
  have := lt_argmaxUpTo_of_lt (fun k => img (k / w) (k % w)) (h * w - 1) (i * w + j) hlt
  simp only [flat_div hj, flat_mod hj] at this
  exact this

theorem threshold_pt_none_iff (thr : R) (x y : Nat) (m : R) : (threshold thr x y m).pt = none ↔ m < thr := by
  unfold threshold
  split <;> simp [*]

theorem threshold_some (thr : R) (x y : Nat) (m : R) (h : ¬ m < thr) : threshold thr x y m = ⟨some (x, y), m⟩ := by
  unfold threshold; rw [if_neg h]

theorem threshold_none (thr : R) (x y : Nat) (m : R) (h : m < thr) : threshold thr x y m = ⟨none, 0⟩ := by
  unfold threshold; rw [if_pos h]

/-! ### gather / scatter -/

theorem zip_map_self {α β : Type} (I : List α) (F : α → β) : I.zip (I.map F) = I.map fun k => (k, F k) := by
  induction I with
  | nil => rfl
  | cons a as ih => simp [ih]

theorem scatterStep_length (acc : List (GRPeak R)) (kr : Nat × Option (R × R)) :
    (scatterStep acc kr).length = acc.length := by
  unfold scatterStep; split <;> simp

theorem scatterStep_getElem? (acc : List (GRPeak R)) (i : Nat) (v : Option (R × R)) (k : Nat) :
    (scatterStep acc (i, v))[k]? =
      if k = i then acc[k]?.map (fun e => { e with pt := some v }) else acc[k]? := by
  unfold scatterStep
  simp only
  cases hi : acc[i]? with
  | none =>
    by_cases hk : k = i
    · subst hk; simp [hi]
    · simp [hk]
  | some e =>
    simp only
    by_cases hk : k = i
    · subst hk
      rw [if_pos rfl, List.getElem?_set_self' ]
      simp [hi]
    · rw [if_neg hk, List.getElem?_set_ne (Ne.symm hk)]

theorem scatter_fold_getElem? (F : Nat → Option (R × R)) (I : List Nat) (acc : List (GRPeak R)) (k : Nat) :
    ((I.map fun i => (i, F i)).foldl scatterStep acc)[k]? =
      if k ∈ I then acc[k]?.map (fun e => { e with pt := some (F k) }) else acc[k]? := by
  induction I generalizing acc with
  | nil => simp
  | cons i I ih =>
    rw [List.map_cons, List.foldl_cons, ih, scatterStep_getElem?]
    by_cases hk : k = i
    · subst hk
      simp only [if_true, List.mem_cons, true_or]
      split
      · cases acc[k]? <;> simp
      · rfl
    · simp [hk]

/-- pointwise description of `find_global_peaks(refinement="integral")` on the flat `(S·C)` view:
valid rows get `rough + offsets` computed on **their own** flat map around **their own** rough
cell, invalid rows stay NaN, values are untouched. -/
theorem globalRefineFlat_getElem? (rough : Nat → Nat → GPeak R) (q : Nat) (b : Batch R) (k : Nat)
    (hk : k < b.S * b.C) :
    (globalRefineFlat rough q b)[k]? =
      some ⟨(rough (k / b.C) (k % b.C)).pt,
            (rough (k / b.C) (k % b.C)).pt.map (fun xy => refinePoint b.h b.w (b.flat k) q xy.1 xy.2),
            (rough (k / b.C) (k % b.C)).val⟩ := by
  unfold globalRefineFlat
  simp only
  rw [zip_map_self]
  rw [scatter_fold_getElem?]
  have hget : ∀ d, ((List.range (b.S * b.C)).map fun k => rough (k / b.C) (k % b.C)).getD k d
      = rough (k / b.C) (k % b.C) := by
    intro d
    simp [List.getD, hk]
  simp only [List.mem_filter, List.mem_range, hk, true_and, hget]
  simp only [List.getElem?_map, List.getElem?_range hk, Option.map_some]
  cases hp : (rough (k / b.C) (k % b.C)).pt with
  | none => simp
  | some xy => obtain ⟨x, y⟩ := xy; simp

/-! ### crops: parity cases, negation, transposition -/

theorem cropZ_odd (Z : Int → Int → R) {p : Nat} (hp : p % 2 = 1) (cx cy a b : Nat) :
    cropZ Z p cx cy a b = Z ((cy : Int) - ((p / 2 : Nat) : Int) + a) ((cx : Int) - ((p / 2 : Nat) : Int) + b) := by
  unfold cropZ; simp only; rw [if_pos hp]

theorem cropZ_even (Z : Int → Int → R) {p : Nat} (hp : ¬ p % 2 = 1) (cx cy a b : Nat) :
    cropZ Z p cx cy a b =
      (Z ((cy : Int) - ((p / 2 : Nat) : Int) + a) ((cx : Int) - ((p / 2 : Nat) : Int) + b)
        + Z ((cy : Int) - ((p / 2 : Nat) : Int) + a) ((cx : Int) - ((p / 2 : Nat) : Int) + b + 1)
        + Z ((cy : Int) - ((p / 2 : Nat) : Int) + a + 1) ((cx : Int) - ((p / 2 : Nat) : Int) + b)
        + Z ((cy : Int) - ((p / 2 : Nat) : Int) + a + 1) ((cx : Int) - ((p / 2 : Nat) : Int) + b + 1)) / 4 := by
  unfold cropZ; simp only; rw [if_neg hp]
  norm_num

theorem cropZ_neg (Z : Int → Int → R) (p cx cy a b : Nat) :
    cropZ (fun i j => - Z i j) p cx cy a b = - cropZ Z p cx cy a b := by
  by_cases hp : p % 2 = 1
  · rw [cropZ_odd _ hp, cropZ_odd _ hp]
  · rw [cropZ_even _ hp, cropZ_even _ hp]; ring

theorem cropZ_transpose (Z : Int → Int → R) (p cx cy a b : Nat) :
    cropZ Z p cx cy a b = cropZ (fun i j => Z j i) p cy cx b a := by
  by_cases hp : p % 2 = 1
  · rw [cropZ_odd _ hp, cropZ_odd _ hp]
  · rw [cropZ_even _ hp, cropZ_even _ hp]; ring

theorem zeroPadAt_transpose (h w : Nat) (img : Nat → Nat → R) (i j : Int) :
    zeroPadAt h w img i j = zeroPadAt w h (fun a b => img b a) j i := by
  unfold zeroPadAt
  have : inB h w i j = inB w h j i := by
    simp only [inB]
    cases decide (0 ≤ i) <;> cases decide (i < (h : Int)) <;> cases decide (0 ≤ j) <;> cases decide (j < (w : Int)) <;> rfl
  rw [this]

theorem patch_transpose (h w : Nat) (img : Nat → Nat → R) (p cx cy a b : Nat) :
    patch h w img p cx cy a b = patch w h (fun i j => img j i) p cy cx b a := by
  unfold patch
  rw [cropZ_transpose]
  congr 1
  funext i j
  exact zeroPadAt_transpose h w img j i

/-! ### mirror dominance: from the (padded) map to the crop rows -/

/-- On the rows and columns a `p`-crop around `(cx,cy)` reads, every cell at or right of column `cx`
is at least its mirror image about column `cx`. -/
def ColDom (Z : Int → Int → R) (p cx cy : Nat) : Prop :=
  ∀ i j : Int, (cy : Int) - ((p / 2 : Nat) : Int) ≤ i → i ≤ (cy : Int) + ((p / 2 : Nat) : Int) →
    (cx : Int) ≤ j → j ≤ (cx : Int) + ((p / 2 : Nat) : Int) → Z i (2 * (cx : Int) - j) ≤ Z i j

/-- strictly so on the centre row `cy`, right of `cx` -/
def RowSDom (Z : Int → Int → R) (p cx cy : Nat) : Prop :=
  ∀ j : Int, (cx : Int) < j → j ≤ (cx : Int) + ((p / 2 : Nat) : Int) → Z cy (2 * (cx : Int) - j) < Z cy j

theorem cropZ_dom_right {Z : Int → Int → R} {p cx cy : Nat} (H : ColDom Z p cx cy) :
    ∀ a b, a < p → p - 1 < 2 * b → b < p → cropZ Z p cx cy a (p - 1 - b) ≤ cropZ Z p cx cy a b := by
  intro a b ha hb2 hb
  by_cases hp : p % 2 = 1
  · rw [cropZ_odd _ hp, cropZ_odd _ hp]
    have e : (cx : Int) - ((p / 2 : Nat) : Int) + ((p - 1 - b : Nat) : Int)
        = 2 * (cx : Int) - ((cx : Int) - ((p / 2 : Nat) : Int) + b) := by omega
    rw [e]
    apply H <;> omega
  · rw [cropZ_even _ hp, cropZ_even _ hp]
    have e1 : (cx : Int) - ((p / 2 : Nat) : Int) + ((p - 1 - b : Nat) : Int)
        = 2 * (cx : Int) - ((cx : Int) - ((p / 2 : Nat) : Int) + b + 1) := by omega
    have e2 : 2 * (cx : Int) - ((cx : Int) - ((p / 2 : Nat) : Int) + b + 1) + 1
        = 2 * (cx : Int) - ((cx : Int) - ((p / 2 : Nat) : Int) + b) := by omega
    rw [e1, e2]
    have h1 := H ((cy : Int) - ((p / 2 : Nat) : Int) + a) ((cx : Int) - ((p / 2 : Nat) : Int) + b)
      (by omega) (by omega) (by omega) (by omega)
    have h2 := H ((cy : Int) - ((p / 2 : Nat) : Int) + a) ((cx : Int) - ((p / 2 : Nat) : Int) + b + 1)
      (by omega) (by omega) (by omega) (by omega)
    have h3 := H ((cy : Int) - ((p / 2 : Nat) : Int) + a + 1) ((cx : Int) - ((p / 2 : Nat) : Int) + b)
      (by omega) (by omega) (by omega) (by omega)
    have h4 := H ((cy : Int) - ((p / 2 : Nat) : Int) + a + 1) ((cx : Int) - ((p / 2 : Nat) : Int) + b + 1)
      (by omega) (by omega) (by omega) (by omega)
    apply div_le_div_of_nonneg_right _ (by norm_num : (0 : R) ≤ 4)
    linarith

/-- the crop row through the cell's own map row, `a = (p-1)/2`, is strictly dominated -/
theorem cropZ_sdom_mid {Z : Int → Int → R} {p cx cy : Nat} (H : ColDom Z p cx cy) (Hs : RowSDom Z p cx cy) :
    ∀ b, p - 1 < 2 * b → b < p →
      cropZ Z p cx cy ((p - 1) / 2) (p - 1 - b) < cropZ Z p cx cy ((p - 1) / 2) b := by
  intro b hb2 hb
  by_cases hp : p % 2 = 1
  · rw [cropZ_odd _ hp, cropZ_odd _ hp]
    have e : (cx : Int) - ((p / 2 : Nat) : Int) + ((p - 1 - b : Nat) : Int)
        = 2 * (cx : Int) - ((cx : Int) - ((p / 2 : Nat) : Int) + b) := by omega
    have ey : (cy : Int) - ((p / 2 : Nat) : Int) + (((p - 1) / 2 : Nat) : Int) = cy := by omega
    rw [e, ey]
    apply Hs <;> omega
  · rw [cropZ_even _ hp, cropZ_even _ hp]
    have e1 : (cx : Int) - ((p / 2 : Nat) : Int) + ((p - 1 - b : Nat) : Int)
        = 2 * (cx : Int) - ((cx : Int) - ((p / 2 : Nat) : Int) + b + 1) := by omega
    have e2 : 2 * (cx : Int) - ((cx : Int) - ((p / 2 : Nat) : Int) + b + 1) + 1
        = 2 * (cx : Int) - ((cx : Int) - ((p / 2 : Nat) : Int) + b) := by omega
    have ey : (cy : Int) - ((p / 2 : Nat) : Int) + (((p - 1) / 2 : Nat) : Int) + 1 = cy := by omega
    rw [e1, e2, ey]
    have h1 := H ((cy : Int) - ((p / 2 : Nat) : Int) + (((p - 1) / 2 : Nat) : Int)) ((cx : Int) - ((p / 2 : Nat) : Int) + b)
      (by omega) (by omega) (by omega) (by omega)
    have h2 := H ((cy : Int) - ((p / 2 : Nat) : Int) + (((p - 1) / 2 : Nat) : Int)) ((cx : Int) - ((p / 2 : Nat) : Int) + b + 1)
      (by omega) (by omega) (by omega) (by omega)
    have h3 := H (cy : Int) ((cx : Int) - ((p / 2 : Nat) : Int) + b) (by omega) (by omega) (by omega) (by omega)
    have h4 := Hs ((cx : Int) - ((p / 2 : Nat) : Int) + b + 1) (by omega) (by omega)
    apply div_lt_div_of_pos_right _ (by norm_num : (0 : R) < 4)
    linarith

/-- a (padded) map that is mirror-symmetric about column `cx` on the window gives mirror-symmetric crop rows -/
theorem cropZ_symm {Z : Int → Int → R} {p cx cy : Nat} (H1 : ColDom Z p cx cy)
    (H2 : ColDom (fun i j => - Z i j) p cx cy) :
    ∀ a b, a < p → b < p → cropZ Z p cx cy a (p - 1 - b) = cropZ Z p cx cy a b := by
  have key : ∀ a b, a < p → p - 1 < 2 * b → b < p → cropZ Z p cx cy a (p - 1 - b) = cropZ Z p cx cy a b := by
    intro a b ha hb2 hb
    have h1 := cropZ_dom_right H1 a b ha hb2 hb
    have h2 := cropZ_dom_right H2 a b ha hb2 hb
    rw [cropZ_neg, cropZ_neg, neg_le_neg_iff] at h2
    exact le_antisymm h1 h2
  intro a b ha hb
  rcases Nat.lt_trichotomy (2 * b) (p - 1) with h | h | h
  · have := key a (p - 1 - b) ha (by omega) (by omega)
    have e : p - 1 - (p - 1 - b) = b := by omega
    rw [e] at this
    exact this.symm
  · have e : p - 1 - b = b := by omega
    rw [e]
  · exact key a b ha h hb

theorem xNum_neg_fun (p : Nat) (P : Nat → Nat → R) : xNum p (fun a b => - P a b) = - xNum p P := by
  simp only [xNum_eq, mul_neg, Finset.sum_neg_distrib]

/-- strict positivity needs strict dominance on one row only -/
theorem xNum_pos_of_row (p : Nat) (hp : 2 ≤ p) (P : Nat → Nat → R) (a0 : Nat) (ha0 : a0 < p)
    (hdom : ∀ a b, a < p → p - 1 < 2 * b → b < p → P a (p - 1 - b) ≤ P a b)
    (hs : ∀ b, p - 1 < 2 * b → b < p → P a0 (p - 1 - b) < P a0 b) : 0 < xNum p P := by
  rw [xNum_eq]
  exact Finset.sum_pos' (fun a ha => row_nonneg p (P a) fun b h1 h2 => hdom a b (Finset.mem_range.mp ha) h1 h2)
    ⟨a0, Finset.mem_range.mpr ha0, row_pos p hp (P a0) hs⟩

/-! ### bump maps, one axis at a time -/

/-- the map is an even, radially non-increasing profile `g(d²)` centred at `(cx+δx, cy+δy)`; the cell
`(cx,cy)` is in the map and the `p`-crop around it stays inside the map **along x** (it may leave
the map along y: rows outside read the zero padding, which is mirror-symmetric in x) -/
structure BumpX (h w : Nat) (img : Nat → Nat → R) (g : R → R) (p cx cy : Nat) (δx δy : R) : Prop where
  x0 : p / 2 ≤ cx
  x1 : cx + p / 2 < w
  ycell : cy < h
  shape : ∀ i j, i < h → j < w → img i j = g (((j : R) - (cx + δx))^2 + ((i : R) - (cy + δy))^2)

/-- the same along y, as a `BumpX` of the transposed map -/
theorem BumpX.ofTranspose {h w : Nat} {img : Nat → Nat → R} {g : R → R} {p cx cy : Nat} {δx δy : R}
    (y0 : p / 2 ≤ cy) (y1 : cy + p / 2 < h) (xcell : cx < w)
    (shape : ∀ i j, i < h → j < w → img i j = g (((j : R) - (cx + δx))^2 + ((i : R) - (cy + δy))^2)) :
    BumpX w h (fun i j => img j i) g p cy cx δy δx :=
  ⟨y0, y1, xcell, fun i j hi hj => by rw [shape j i hj hi, add_comm]⟩

theorem zeroPadAt_oob_row {h w : Nat} (img : Nat → Nat → R) {i : Int} (hi : ¬ (0 ≤ i ∧ i < h)) (j : Int) :
    zeroPadAt h w img i j = 0 := by
  unfold zeroPadAt
  rw [if_neg]
  simp only [inB, Bool.and_eq_true, decide_eq_true_eq]
  tauto

/-- value of the padded bump map at an in-range signed position -/
theorem BumpX.at {h w : Nat} {img : Nat → Nat → R} {g : R → R} {p cx cy : Nat} {δx δy : R}
    (B : BumpX h w img g p cx cy δx δy) (i j : Int) (hi0 : 0 ≤ i) (hi1 : i < h) (hj0 : 0 ≤ j) (hj1 : j < w) :
    zeroPadAt h w img i j = g (((j : R) - (cx + δx))^2 + ((i : R) - (cy + δy))^2) := by
  have hi : ((i.toNat : Nat) : Int) = i := Int.toNat_of_nonneg hi0
  have hj : ((j.toNat : Nat) : Int) = j := Int.toNat_of_nonneg hj0
  rw [zeroPadAt_of_nat img (i' := i.toNat) (j' := j.toNat) hi.symm hj.symm (by omega) (by omega),
      B.shape _ _ (by omega) (by omega)]
  have ci : ((i.toNat : Nat) : R) = (i : R) := by rw [← Int.cast_natCast, hi]
  have cj : ((j.toNat : Nat) : R) = (j : R) := by rw [← Int.cast_natCast, hj]
  rw [ci, cj]

theorem mirror_sq' (cx : Nat) (j : Int) (δ : R) :
    (((2 * (cx : Int) - j : Int) : R) - (cx + δ))^2 - ((j : R) - (cx + δ))^2 = 4 * ((j : R) - cx) * δ := by
  push_cast; ring

theorem BumpX.colDom {h w : Nat} {img : Nat → Nat → R} {g : R → R} {p cx cy : Nat} {δx δy : R}
    (B : BumpX h w img g p cx cy δx δy) (anti : ∀ u v, 0 ≤ u → u ≤ v → g v ≤ g u) (hδ : 0 ≤ δx) :
    ColDom (zeroPadAt h w img) p cx cy := by
  intro i j _ _ h3 h4
  have := B.x0; have := B.x1
  by_cases hi : 0 ≤ i ∧ i < h
  · rw [B.at i j hi.1 hi.2 (by omega) (by omega), B.at i (2 * (cx : Int) - j) hi.1 hi.2 (by omega) (by omega)]
    apply anti
    · positivity
    · have e := mirror_sq' (R := R) cx j δx
      have hk : (0 : R) ≤ (j : R) - cx := by
        have : ((cx : Int) : R) ≤ (j : R) := by exact_mod_cast h3
        simpa using sub_nonneg.mpr this
      have : 0 ≤ 4 * ((j : R) - cx) * δx := by positivity
      linarith
  · rw [zeroPadAt_oob_row img hi, zeroPadAt_oob_row img hi]

theorem BumpX.colDom_neg {h w : Nat} {img : Nat → Nat → R} {g : R → R} {p cx cy : Nat} {δx δy : R}
    (B : BumpX h w img g p cx cy δx δy) (anti : ∀ u v, 0 ≤ u → u ≤ v → g v ≤ g u) (hδ : δx ≤ 0) :
    ColDom (fun i j => - zeroPadAt h w img i j) p cx cy := by
  intro i j _ _ h3 h4
  have := B.x0; have := B.x1
  show - zeroPadAt h w img i (2 * (cx : Int) - j) ≤ - zeroPadAt h w img i j
  by_cases hi : 0 ≤ i ∧ i < h
  · rw [B.at i j hi.1 hi.2 (by omega) (by omega), B.at i (2 * (cx : Int) - j) hi.1 hi.2 (by omega) (by omega),
        neg_le_neg_iff]
    apply anti
    · positivity
    · have e := mirror_sq' (R := R) cx j δx
      have hk : (0 : R) ≤ (j : R) - cx := by
        have : ((cx : Int) : R) ≤ (j : R) := by exact_mod_cast h3
        simpa using sub_nonneg.mpr this
      have : 0 ≤ 4 * ((j : R) - cx) * (-δx) := by
        have : 0 ≤ -δx := by linarith
        positivity
      linarith
  · rw [zeroPadAt_oob_row img hi, zeroPadAt_oob_row img hi]

theorem BumpX.rowSDom {h w : Nat} {img : Nat → Nat → R} {g : R → R} {p cx cy : Nat} {δx δy : R}
    (B : BumpX h w img g p cx cy δx δy) (santi : ∀ u v, 0 ≤ u → u < v → g v < g u) (hδ : 0 < δx) :
    RowSDom (zeroPadAt h w img) p cx cy := by
  intro j h3 h4
  have := B.x0; have := B.x1; have := B.ycell
  rw [B.at cy j (by omega) (by omega) (by omega) (by omega),
      B.at cy (2 * (cx : Int) - j) (by omega) (by omega) (by omega) (by omega)]
  apply santi
  · positivity
  · have e := mirror_sq' (R := R) cx j δx
    have hk : (0 : R) < (j : R) - cx := by
      have : ((cx : Int) : R) < (j : R) := by exact_mod_cast h3
      simpa using sub_pos.mpr this
    have : 0 < 4 * ((j : R) - cx) * δx := by positivity
    linarith

theorem BumpX.rowSDom_neg {h w : Nat} {img : Nat → Nat → R} {g : R → R} {p cx cy : Nat} {δx δy : R}
    (B : BumpX h w img g p cx cy δx δy) (santi : ∀ u v, 0 ≤ u → u < v → g v < g u) (hδ : δx < 0) :
    RowSDom (fun i j => - zeroPadAt h w img i j) p cx cy := by
  intro j h3 h4
  have := B.x0; have := B.x1; have := B.ycell
  show - zeroPadAt h w img cy (2 * (cx : Int) - j) < - zeroPadAt h w img cy j
  rw [B.at cy j (by omega) (by omega) (by omega) (by omega),
      B.at cy (2 * (cx : Int) - j) (by omega) (by omega) (by omega) (by omega), neg_lt_neg_iff]
  apply santi
  · positivity
  · have e := mirror_sq' (R := R) cx j δx
    have hk : (0 : R) < (j : R) - cx := by
      have : ((cx : Int) : R) < (j : R) := by exact_mod_cast h3
      simpa using sub_pos.mpr this
    have : 0 < 4 * ((j : R) - cx) * (-δx) := by
      have : 0 < -δx := by linarith
      positivity
    linarith

theorem anti_of_santi {g : R → R} (santi : ∀ u v, 0 ≤ u → u < v → g v < g u) :
    ∀ u v, 0 ≤ u → u ≤ v → g v ≤ g u := by
  intro u v hu huv
  rcases lt_or_eq_of_le huv with h1 | h1
  · exact le_of_lt (santi u v hu h1)
  · rw [h1]

/-! ### sign of the x-numerator on a bump map (y: apply to the transpose) -/

theorem BumpX.xNum_nonneg {h w : Nat} {img : Nat → Nat → R} {g : R → R} {p cx cy : Nat} {δx δy : R}
    (B : BumpX h w img g p cx cy δx δy) (anti : ∀ u v, 0 ≤ u → u ≤ v → g v ≤ g u) (hδ : 0 ≤ δx) :
    0 ≤ xNum p (patch h w img p cx cy) :=
  Peaks.xNum_nonneg p _ (cropZ_dom_right (B.colDom anti hδ))

theorem BumpX.xNum_nonpos {h w : Nat} {img : Nat → Nat → R} {g : R → R} {p cx cy : Nat} {δx δy : R}
    (B : BumpX h w img g p cx cy δx δy) (anti : ∀ u v, 0 ≤ u → u ≤ v → g v ≤ g u) (hδ : δx ≤ 0) :
    xNum p (patch h w img p cx cy) ≤ 0 := by
  apply Peaks.xNum_nonpos p _
  intro a b ha hb2 hb
  have := cropZ_dom_right (B.colDom_neg anti hδ) a b ha hb2 hb
  rw [cropZ_neg, cropZ_neg, neg_le_neg_iff] at this
  exact this

theorem BumpX.xNum_pos {h w : Nat} {img : Nat → Nat → R} {g : R → R} {p cx cy : Nat} {δx δy : R}
    (B : BumpX h w img g p cx cy δx δy) (hp : 2 ≤ p) (santi : ∀ u v, 0 ≤ u → u < v → g v < g u) (hδ : 0 < δx) :
    0 < xNum p (patch h w img p cx cy) :=
  xNum_pos_of_row p hp _ ((p - 1) / 2) (by omega)
    (cropZ_dom_right (B.colDom (anti_of_santi santi) (le_of_lt hδ)))
    (cropZ_sdom_mid (B.colDom (anti_of_santi santi) (le_of_lt hδ)) (B.rowSDom santi hδ))

theorem BumpX.xNum_neg {h w : Nat} {img : Nat → Nat → R} {g : R → R} {p cx cy : Nat} {δx δy : R}
    (B : BumpX h w img g p cx cy δx δy) (hp : 2 ≤ p) (santi : ∀ u v, 0 ≤ u → u < v → g v < g u) (hδ : δx < 0) :
    xNum p (patch h w img p cx cy) < 0 := by
  have H := B.colDom_neg (anti_of_santi santi) (le_of_lt hδ)
  have := xNum_pos_of_row p hp (fun a b => - patch h w img p cx cy a b) ((p - 1) / 2) (by omega)
    (fun a b ha hb2 hb => by
      have := cropZ_dom_right H a b ha hb2 hb
      rw [cropZ_neg, cropZ_neg] at this
      exact this)
    (fun b hb2 hb => by
      have := cropZ_sdom_mid H (B.rowSDom_neg santi hδ) b hb2 hb
      rw [cropZ_neg, cropZ_neg] at this
      exact this)
  rw [xNum_neg_fun] at this
  linarith

theorem yNum_eq_xNum_patch_transpose (h w : Nat) (img : Nat → Nat → R) (p cx cy : Nat) :
    yNum p (patch h w img p cx cy) = xNum p (patch w h (fun i j => img j i) p cy cx) := by
  rw [yNum_eq_xNum_transpose]
  congr 1
  funext a b
  exact patch_transpose h w img p cx cy b a

/-! ### map symmetric about the cell ⇒ patch symmetric -/

/-- the zero-padded map is mirror-symmetric about column `cx` on the window of the `p`-crop -/
def ColSymm (Z : Int → Int → R) (p cx cy : Nat) : Prop :=
  ∀ i j : Int, (cy : Int) - ((p / 2 : Nat) : Int) ≤ i → i ≤ (cy : Int) + ((p / 2 : Nat) : Int) →
    (cx : Int) ≤ j → j ≤ (cx : Int) + ((p / 2 : Nat) : Int) → Z i (2 * (cx : Int) - j) = Z i j

theorem cropZ_symm_of_colSymm {Z : Int → Int → R} {p cx cy : Nat} (H : ColSymm Z p cx cy) :
    ∀ a b, a < p → b < p → cropZ Z p cx cy a (p - 1 - b) = cropZ Z p cx cy a b :=
  cropZ_symm (fun i j h1 h2 h3 h4 => le_of_eq (H i j h1 h2 h3 h4))
    (fun i j h1 h2 h3 h4 => by
      show - Z i (2 * (cx : Int) - j) ≤ - Z i j
      rw [H i j h1 h2 h3 h4])

/-- a map that is mirror-symmetric about column `cx` (`img i (cx-d) = img i (cx+d)`, `d ≤ p/2`), with
the crop inside the map along x, has a column-symmetric padded window -/
theorem colSymm_of_map {h w : Nat} (img : Nat → Nat → R) {p cx cy : Nat} (hx0 : p / 2 ≤ cx) (hx1 : cx + p / 2 < w)
    (hs : ∀ i d, i < h → d ≤ p / 2 → img i (cx - d) = img i (cx + d)) :
    ColSymm (zeroPadAt h w img) p cx cy := by
  intro i j _ _ h3 h4
  by_cases hi : 0 ≤ i ∧ i < h
  · have hti : ((i.toNat : Nat) : Int) = i := Int.toNat_of_nonneg hi.1
    obtain ⟨d, hd⟩ := Int.eq_ofNat_of_zero_le (show 0 ≤ j - (cx : Int) by omega)
    have hdle : d ≤ p / 2 := by omega
    have e1 : j = ((cx + d : Nat) : Int) := by push_cast; omega
    have e2 : 2 * (cx : Int) - j = ((cx - d : Nat) : Int) := by
      rw [Nat.cast_sub (by omega)]; omega
    rw [zeroPadAt_of_nat img (i' := i.toNat) (j' := cx + d) hti.symm e1 (by omega) (by omega),
        zeroPadAt_of_nat img (i' := i.toNat) (j' := cx - d) hti.symm e2 (by omega) (by omega)]
    exact hs _ _ (by omega) hdle
  · rw [zeroPadAt_oob_row img hi, zeroPadAt_oob_row img hi]

/-! ### the rough detector on a strictly decreasing bump -/

theorem axis_sq_lt {n m : Nat} (hne : n ≠ m) {δ : R} (hδ : |δ| < 1 / 2) :
    ((m : R) - (m + δ))^2 < ((n : R) - (m + δ))^2 := by
  obtain ⟨h1, h2⟩ := abs_lt.mp hδ
  rcases Nat.lt_or_gt_of_ne hne with h | h
  · have ht : (n : R) + 1 ≤ m := by exact_mod_cast h
    have a1 : (n : R) - m < 0 := by linarith
    have a2 : (n : R) - m - 2 * δ < 0 := by linarith
    have := mul_pos_of_neg_of_neg a1 a2
    nlinarith
  · have ht : (m : R) + 1 ≤ n := by exact_mod_cast h
    have a1 : 0 < (n : R) - m := by linarith
    have a2 : 0 < (n : R) - m - 2 * δ := by linarith
    have := mul_pos a1 a2
    nlinarith

theorem axis_sq_le (n m : Nat) {δ : R} (hδ : |δ| < 1 / 2) :
    ((m : R) - (m + δ))^2 ≤ ((n : R) - (m + δ))^2 := by
  by_cases h : n = m
  · rw [h]
  · exact le_of_lt (axis_sq_lt h hδ)

/-- on a strictly decreasing bump whose centre is within half a cell of `(cx,cy)` every other cell is
strictly below that cell -/
theorem bump_cell_lt {h w : Nat} {img : Nat → Nat → R} {g : R → R} {cx cy : Nat} {δx δy : R}
    (hcx : cx < w) (hcy : cy < h)
    (shape : ∀ i j, i < h → j < w → img i j = g (((j : R) - (cx + δx))^2 + ((i : R) - (cy + δy))^2))
    (santi : ∀ u v, 0 ≤ u → u < v → g v < g u) (hδx : |δx| < 1 / 2) (hδy : |δy| < 1 / 2)
    {i j : Nat} (hi : i < h) (hj : j < w) (hne : i ≠ cy ∨ j ≠ cx) : img i j < img cy cx := by
  rw [shape i j hi hj, shape cy cx hcy hcx]
  apply santi
  · positivity
  · rcases hne with hne | hne
    · have := axis_sq_lt (R := R) hne hδy
      have := axis_sq_le (R := R) j cx hδx
      linarith
    · have := axis_sq_lt (R := R) hne hδx
      have := axis_sq_le (R := R) i cy hδy
      linarith

theorem flatArg_of_strict_max {h w : Nat} {img : Nat → Nat → R} {cx cy : Nat} (hcx : cx < w) (hcy : cy < h)
    (hmax : ∀ i j, i < h → j < w → (i ≠ cy ∨ j ≠ cx) → img i j < img cy cx) :
    flatArg h w img / w = cy ∧ flatArg h w img % w = cx := by
  obtain ⟨h1, h2⟩ := flatArg_bounds (by omega : 0 < h) (by omega : 0 < w) img
  have hle := le_flatArg (h := h) (w := w) img hcy hcx
  by_contra hcon
  have hne : flatArg h w img / w ≠ cy ∨ flatArg h w img % w ≠ cx := by
    by_contra hh
    rw [not_or, not_not, not_not] at hh
    exact hcon hh
  have := hmax _ _ h1 h2 hne
  exact absurd hle (not_le.mpr this)

end SleapVerif.Peaks
