import SleapVerif.Lemmas.Peaks
import SleapVerif.Lemmas.PeaksSum
/-!
Helper lemmas for C07: flat argmax + unravel, the `valid_idx` gather/scatter of
`find_global_peaks`, and bump patches (pairing argument instantiated).
-/
namespace SleapVerif.Peaks
set_option linter.unusedSectionVars false

variable {R : Type} [Field R] [LinearOrder R] [IsStrictOrderedRing R]

/-! ### flat argmax -/

/-- the flat index of the repaired detector -/
def flatArg (h w : Nat) (img : Nat → Nat → R) : Nat :=
  argmaxUpTo (fun k => img (k / w) (k % w)) (h * w - 1)

theorem globalRough1_eq (thr : R) (h w : Nat) (img : Nat → Nat → R) :
    globalRough1 thr h w img =
      threshold thr (flatArg h w img % w) (flatArg h w img / w) (img (flatArg h w img / w) (flatArg h w img % w)) := rfl

theorem flatArg_bounds {h w : Nat} (hh : 0 < h) (hw : 0 < w) (img : Nat → Nat → R) :
    flatArg h w img / w < h ∧ flatArg h w img % w < w := by
  have hle := argmaxUpTo_le (fun k => img (k / w) (k % w)) (h * w - 1)
  have hpos : 0 < h * w := Nat.mul_pos hh hw
  refine ⟨?_, Nat.mod_lt _ hw⟩
  rw [Nat.div_lt_iff_lt_mul hw]
  unfold flatArg; omega

theorem flat_le {h w i j : Nat} (hi : i < h) (hj : j < w) : i * w + j ≤ h * w - 1 := by
  have : (i + 1) * w ≤ h * w := Nat.mul_le_mul_right w hi
  rw [Nat.add_mul] at this
  omega

theorem le_flatArg {h w : Nat} (img : Nat → Nat → R) {i j : Nat} (hi : i < h) (hj : j < w) :
    img i j ≤ img (flatArg h w img / w) (flatArg h w img % w) := by
  have := le_argmaxUpTo (fun k => img (k / w) (k % w)) (h * w - 1) (i * w + j) (flat_le hi hj)
  simp only [flat_div hj, flat_mod hj] at this
  exact this

theorem lt_flatArg_of_before {h w : Nat} (img : Nat → Nat → R) {i j : Nat} (hj : j < w)
    (hlt : i * w + j < flatArg h w img) :
    img i j < img (flatArg h w img / w) (flatArg h w img % w) := by
  have := lt_argmaxUpTo_of_lt (fun k => img (k / w) (k % w)) (h * w - 1) (i * w + j) hlt
  simp only [flat_div hj, flat_mod hj] at this
  exact this

theorem threshold_pt_none_iff (thr : R) (x y : Nat) (m : R) : (threshold thr x y m).pt = none ↔ m < thr := by
  unfold threshold
  split <;> simp [*]

theorem threshold_some (thr : R) (x y : Nat) (m : R) (h : ¬ m < thr) : threshold thr x y m = ⟨some (x, y), m⟩ := by
  unfold threshold; rw [if_neg h]

theorem threshold_none (thr : R) (x y : Nat) (m : R) (h : m < thr) : threshold thr x y m = ⟨none, 0⟩ := by
  unfold threshold; rw [if_pos h]

/-! ### gather / scatter -/

theorem zip_map_self {α β : Type} (I : List α) (F : α → β) : I.zip (I.map F) = I.map fun k => (k, F k) := by
  induction I with
  | nil => rfl
  | cons a as ih => simp [ih]

theorem scatterStep_length (acc : List (GRPeak R)) (kr : Nat × Option (R × R)) :
    (scatterStep acc kr).length = acc.length := by
  unfold scatterStep; split <;> simp

theorem scatterStep_getElem? (acc : List (GRPeak R)) (i : Nat) (v : Option (R × R)) (k : Nat) :
    (scatterStep acc (i, v))[k]? =
      if k = i then acc[k]?.map (fun e => { e with pt := some v }) else acc[k]? := by
  unfold scatterStep
  simp only
  cases hi : acc[i]? with
  | none =>
    by_cases hk : k = i
    · subst hk; simp [hi]
    · simp [hk]
  | some e =>
    simp only
    by_cases hk : k = i
    · subst hk
      rw [if_pos rfl, List.getElem?_set_self' ]
      simp [hi]
    · rw [if_neg hk, List.getElem?_set_ne (Ne.symm hk)]

theorem scatter_fold_getElem? (F : Nat → Option (R × R)) (I : List Nat) (acc : List (GRPeak R)) (k : Nat) :
    ((I.map fun i => (i, F i)).foldl scatterStep acc)[k]? =
      if k ∈ I then acc[k]?.map (fun e => { e with pt := some (F k) }) else acc[k]? := by
  induction I generalizing acc with
  | nil => simp
  | cons i I ih =>
    rw [List.map_cons, List.foldl_cons, ih, scatterStep_getElem?]
    by_cases hk : k = i
    · subst hk
      simp only [if_true, List.mem_cons, true_or]
      split
      · cases acc[k]? <;> simp
      · rfl
    · simp [hk]

/-- pointwise description of `find_global_peaks(refinement="integral")` on the flat `(S·C)` view:
valid rows get `rough + offsets` computed on **their own** flat map around **their own** rough
cell, invalid rows stay NaN, values are untouched. -/
theorem globalRefineFlat_getElem? (rough : Nat → Nat → GPeak R) (q : Nat) (b : Batch R) (k : Nat)
    (hk : k < b.S * b.C) :
    (globalRefineFlat rough q b)[k]? =
      some ⟨(rough (k / b.C) (k % b.C)).pt,
            (rough (k / b.C) (k % b.C)).pt.map (fun xy => refinePoint b.h b.w (b.flat k) q xy.1 xy.2),
            (rough (k / b.C) (k % b.C)).val⟩ := by
  unfold globalRefineFlat
  simp only
  rw [zip_map_self]
  rw [scatter_fold_getElem?]
  have hget : ∀ d, ((List.range (b.S * b.C)).map fun k => rough (k / b.C) (k % b.C)).getD k d
      = rough (k / b.C) (k % b.C) := by
    intro d
    simp [List.getD, hk]
  simp only [List.mem_filter, List.mem_range, hk, true_and, hget]
  simp only [List.getElem?_map, List.getElem?_range hk, Option.map_some]
  cases hp : (rough (k / b.C) (k % b.C)).pt with
  | none => simp
  | some xy => obtain ⟨x, y⟩ := xy; simp

/-! ### crops: parity cases, negation, transposition -/

theorem cropZ_odd (Z : Int → Int → R) {p : Nat} (hp : p % 2 = 1) (cx cy a b : Nat) :
    cropZ Z p cx cy a b = Z ((cy : Int) - ((p / 2 : Nat) : Int) + a) ((cx : Int) - ((p / 2 : Nat) : Int) + b) := by
  unfold cropZ; simp only; rw [if_pos hp]

theorem cropZ_even (Z : Int → Int → R) {p : Nat} (hp : ¬ p % 2 = 1) (cx cy a b : Nat) :
    cropZ Z p cx cy a b =
      (Z ((cy : Int) - ((p / 2 : Nat) : Int) + a) ((cx : Int) - ((p / 2 : Nat) : Int) + b)
        + Z ((cy : Int) - ((p / 2 : Nat) : Int) + a) ((cx : Int) - ((p / 2 : Nat) : Int) + b + 1)
        + Z ((cy : Int) - ((p / 2 : Nat) : Int) + a + 1) ((cx : Int) - ((p / 2 : Nat) : Int) + b)
        + Z ((cy : Int) - ((p / 2 : Nat) : Int) + a + 1) ((cx : Int) - ((p / 2 : Nat) : Int) + b + 1)) / 4 := by
  unfold cropZ; simp only; rw [if_neg hp]
  norm_num

theorem cropZ_neg (Z : Int → Int → R) (p cx cy a b : Nat) :
    cropZ (fun i j => - Z i j) p cx cy a b = - cropZ Z p cx cy a b := by
  by_cases hp : p % 2 = 1
  · rw [cropZ_odd _ hp, cropZ_odd _ hp]
  · rw [cropZ_even _ hp, cropZ_even _ hp]; ring

theorem cropZ_transpose (Z : Int → Int → R) (p cx cy a b : Nat) :
    cropZ Z p cx cy a b = cropZ (fun i j => Z j i) p cy cx b a := by
  by_cases hp : p % 2 = 1
  · rw [cropZ_odd _ hp, cropZ_odd _ hp]
  · rw [cropZ_even _ hp, cropZ_even _ hp]; ring

theorem zeroPadAt_transpose (h w : Nat) (img : Nat → Nat → R) (i j : Int) :
    zeroPadAt h w img i j = zeroPadAt w h (fun a b => img b a) j i := by
  unfold zeroPadAt
  have : inB h w i j = inB w h j i := by
    simp only [inB]
    cases decide (0 ≤ i) <;> cases decide (i < (h : Int)) <;> cases decide (0 ≤ j) <;> cases decide (j < (w : Int)) <;> rfl
  rw [this]

theorem patch_transpose (h w : Nat) (img : Nat → Nat → R) (p cx cy a b : Nat) :
    patch h w img p cx cy a b = patch w h (fun i j => img j i) p cy cx b a := by
  unfold patch
  rw [cropZ_transpose]
  congr 1
  funext i j
  exact zeroPadAt_transpose h w img j i

/-! ### mirror dominance: from the (padded) map to the crop rows -/

/-- On the rows and columns a `p`-crop around `(cx,cy)` reads, every cell at or right of column `cx`
is at least its mirror image about column `cx`. -/
def ColDom (Z : Int → Int → R) (p cx cy : Nat) : Prop :=
  ∀ i j : Int, (cy : Int) - ((p / 2 : Nat) : Int) ≤ i → i ≤ (cy : Int) + ((p / 2 : Nat) : Int) →
    (cx : Int) ≤ j → j ≤ (cx : Int) + ((p / 2 : Nat) : Int) → Z i (2 * (cx : Int) - j) ≤ Z i j

/-- strict right of `cx` -/
def SColDom (Z : Int → Int → R) (p cx cy : Nat) : Prop :=
  ∀ i j : Int, (cy : Int) - ((p / 2 : Nat) : Int) ≤ i → i ≤ (cy : Int) + ((p / 2 : Nat) : Int) →
    (cx : Int) < j → j ≤ (cx : Int) + ((p / 2 : Nat) : Int) → Z i (2 * (cx : Int) - j) < Z i j

theorem SColDom.toColDom {Z : Int → Int → R} {p cx cy : Nat} (H : SColDom Z p cx cy) : ColDom Z p cx cy := by
  intro i j h1 h2 h3 h4
  rcases lt_or_eq_of_le h3 with h | h
  · exact le_of_lt (H i j h1 h2 h h4)
  · subst h
    have : 2 * (cx : Int) - cx = cx := by omega
    rw [this]

theorem cropZ_dom_right {Z : Int → Int → R} {p cx cy : Nat} (H : ColDom Z p cx cy) :
    ∀ a b, a < p → p - 1 < 2 * b → b < p → cropZ Z p cx cy a (p - 1 - b) ≤ cropZ Z p cx cy a b := by
  intro a b ha hb2 hb
  by_cases hp : p % 2 = 1
  · rw [cropZ_odd _ hp, cropZ_odd _ hp]
    have e : (cx : Int) - ((p / 2 : Nat) : Int) + ((p - 1 - b : Nat) : Int)
        = 2 * (cx : Int) - ((cx : Int) - ((p / 2 : Nat) : Int) + b) := by omega
    rw [e]
    apply H <;> omega
  · rw [cropZ_even _ hp, cropZ_even _ hp]
    have e1 : (cx : Int) - ((p / 2 : Nat) : Int) + ((p - 1 - b : Nat) : Int)
        = 2 * (cx : Int) - ((cx : Int) - ((p / 2 : Nat) : Int) + b + 1) := by omega
    have e2 : 2 * (cx : Int) - ((cx : Int) - ((p / 2 : Nat) : Int) + b + 1) + 1
        = 2 * (cx : Int) - ((cx : Int) - ((p / 2 : Nat) : Int) + b) := by omega
    rw [e1, e2]
    have h1 := H ((cy : Int) - ((p / 2 : Nat) : Int) + a) ((cx : Int) - ((p / 2 : Nat) : Int) + b)
      (by omega) (by omega) (by omega) (by omega)
    have h2 := H ((cy : Int) - ((p / 2 : Nat) : Int) + a) ((cx : Int) - ((p / 2 : Nat) : Int) + b + 1)
      (by omega) (by omega) (by omega) (by omega)
    have h3 := H ((cy : Int) - ((p / 2 : Nat) : Int) + a + 1) ((cx : Int) - ((p / 2 : Nat) : Int) + b)
      (by omega) (by omega) (by omega) (by omega)
    have h4 := H ((cy : Int) - ((p / 2 : Nat) : Int) + a + 1) ((cx : Int) - ((p / 2 : Nat) : Int) + b + 1)
      (by omega) (by omega) (by omega) (by omega)
    apply div_le_div_of_nonneg_right _ (by norm_num : (0 : R) ≤ 4)
    linarith

theorem cropZ_sdom_right {Z : Int → Int → R} {p cx cy : Nat} (H : SColDom Z p cx cy) :
    ∀ a b, a < p → p - 1 < 2 * b → b < p → cropZ Z p cx cy a (p - 1 - b) < cropZ Z p cx cy a b := by
  intro a b ha hb2 hb
  have HL := H.toColDom
  by_cases hp : p % 2 = 1
  · rw [cropZ_odd _ hp, cropZ_odd _ hp]
    have e : (cx : Int) - ((p / 2 : Nat) : Int) + ((p - 1 - b : Nat) : Int)
        = 2 * (cx : Int) - ((cx : Int) - ((p / 2 : Nat) : Int) + b) := by omega
    rw [e]
    apply H <;> omega
  · rw [cropZ_even _ hp, cropZ_even _ hp]
    have e1 : (cx : Int) - ((p / 2 : Nat) : Int) + ((p - 1 - b : Nat) : Int)
        = 2 * (cx : Int) - ((cx : Int) - ((p / 2 : Nat) : Int) + b + 1) := by omega
    have e2 : 2 * (cx : Int) - ((cx : Int) - ((p / 2 : Nat) : Int) + b + 1) + 1
        = 2 * (cx : Int) - ((cx : Int) - ((p / 2 : Nat) : Int) + b) := by omega
    rw [e1, e2]
    have h1 := HL ((cy : Int) - ((p / 2 : Nat) : Int) + a) ((cx : Int) - ((p / 2 : Nat) : Int) + b)
      (by omega) (by omega) (by omega) (by omega)
    have h2 := H ((cy : Int) - ((p / 2 : Nat) : Int) + a) ((cx : Int) - ((p / 2 : Nat) : Int) + b + 1)
      (by omega) (by omega) (by omega) (by omega)
    have h3 := HL ((cy : Int) - ((p / 2 : Nat) : Int) + a + 1) ((cx : Int) - ((p / 2 : Nat) : Int) + b)
      (by omega) (by omega) (by omega) (by omega)
    have h4 := H ((cy : Int) - ((p / 2 : Nat) : Int) + a + 1) ((cx : Int) - ((p / 2 : Nat) : Int) + b + 1)
      (by omega) (by omega) (by omega) (by omega)
    apply div_lt_div_of_pos_right _ (by norm_num : (0 : R) < 4)
    linarith

/-! ### bump maps -/

/-- the map is an even, radially non-increasing profile `g(d²)` centred at `(cx+δx, cy+δy)` and the
`p`-crop around cell `(cx,cy)` lies inside the map -/
structure BumpMap (h w : Nat) (img : Nat → Nat → R) (g : R → R) (p cx cy : Nat) (δx δy : R) : Prop where
  x0 : p / 2 ≤ cx
  x1 : cx + p / 2 < w
  y0 : p / 2 ≤ cy
  y1 : cy + p / 2 < h
  shape : ∀ i j, i < h → j < w → img i j = g (((j : R) - (cx + δx))^2 + ((i : R) - (cy + δy))^2)

theorem BumpMap.transpose {h w : Nat} {img : Nat → Nat → R} {g : R → R} {p cx cy : Nat} {δx δy : R}
    (B : BumpMap h w img g p cx cy δx δy) : BumpMap w h (fun i j => img j i) g p cy cx δy δx :=
  ⟨B.y0, B.y1, B.x0, B.x1, fun i j hi hj => by rw [B.shape j i hj hi, add_comm]⟩

/-- value of the padded bump map at an in-range signed position -/
theorem BumpMap.at {h w : Nat} {img : Nat → Nat → R} {g : R → R} {p cx cy : Nat} {δx δy : R}
    (B : BumpMap h w img g p cx cy δx δy) (i j : Int) (hi0 : 0 ≤ i) (hi1 : i < h) (hj0 : 0 ≤ j) (hj1 : j < w) :
    zeroPadAt h w img i j = g (((j : R) - (cx + δx))^2 + ((i : R) - (cy + δy))^2) := by
  have hi : ((i.toNat : Nat) : Int) = i := Int.toNat_of_nonneg hi0
  have hj : ((j.toNat : Nat) : Int) = j := Int.toNat_of_nonneg hj0
  rw [zeroPadAt_of_nat img (i' := i.toNat) (j' := j.toNat) hi.symm hj.symm (by omega) (by omega),
      B.shape _ _ (by omega) (by omega)]
  have ci : ((i.toNat : Nat) : R) = (i : R) := by rw [← Int.cast_natCast, hi]
  have cj : ((j.toNat : Nat) : R) = (j : R) := by rw [← Int.cast_natCast, hj]
  rw [ci, cj]

theorem mirror_sq' (cx : Nat) (j : Int) (δ : R) :
    (((2 * (cx : Int) - j : Int) : R) - (cx + δ))^2 - ((j : R) - (cx + δ))^2 = 4 * ((j : R) - cx) * δ := by
  push_cast; ring

theorem BumpMap.colDom {h w : Nat} {img : Nat → Nat → R} {g : R → R} {p cx cy : Nat} {δx δy : R}
    (B : BumpMap h w img g p cx cy δx δy) (anti : ∀ u v, 0 ≤ u → u ≤ v → g v ≤ g u) (hδ : 0 ≤ δx) :
    ColDom (zeroPadAt h w img) p cx cy := by
  intro i j h1 h2 h3 h4
  have := B.x0; have := B.x1; have := B.y0; have := B.y1
  rw [B.at i j (by omega) (by omega) (by omega) (by omega),
      B.at i (2 * (cx : Int) - j) (by omega) (by omega) (by omega) (by omega)]
  apply anti
  · positivity
  · have e := mirror_sq' (R := R) cx j δx
    have hk : (0 : R) ≤ (j : R) - cx := by
      have : ((cx : Int) : R) ≤ (j : R) := by exact_mod_cast h3
      simpa using sub_nonneg.mpr this
    have : 0 ≤ 4 * ((j : R) - cx) * δx := by positivity
    linarith

theorem BumpMap.sColDom {h w : Nat} {img : Nat → Nat → R} {g : R → R} {p cx cy : Nat} {δx δy : R}
    (B : BumpMap h w img g p cx cy δx δy) (santi : ∀ u v, 0 ≤ u → u < v → g v < g u) (hδ : 0 < δx) :
    SColDom (zeroPadAt h w img) p cx cy := by
  intro i j h1 h2 h3 h4
  have := B.x0; have := B.x1; have := B.y0; have := B.y1
  rw [B.at i j (by omega) (by omega) (by omega) (by omega),
      B.at i (2 * (cx : Int) - j) (by omega) (by omega) (by omega) (by omega)]
  apply santi
  · positivity
  · have e := mirror_sq' (R := R) cx j δx
    have hk : (0 : R) < (j : R) - cx := by
      have : ((cx : Int) : R) < (j : R) := by exact_mod_cast h3
      simpa using sub_pos.mpr this
    have : 0 < 4 * ((j : R) - cx) * δx := by positivity
    linarith

/-- `δx ≤ 0`: the mirrored (negated) statement -/
theorem BumpMap.colDom_neg {h w : Nat} {img : Nat → Nat → R} {g : R → R} {p cx cy : Nat} {δx δy : R}
    (B : BumpMap h w img g p cx cy δx δy) (anti : ∀ u v, 0 ≤ u → u ≤ v → g v ≤ g u) (hδ : δx ≤ 0) :
    ColDom (fun i j => - zeroPadAt h w img i j) p cx cy := by
  intro i j h1 h2 h3 h4
  have := B.x0; have := B.x1; have := B.y0; have := B.y1
  show - zeroPadAt h w img i (2 * (cx : Int) - j) ≤ - zeroPadAt h w img i j
  rw [B.at i j (by omega) (by omega) (by omega) (by omega),
      B.at i (2 * (cx : Int) - j) (by omega) (by omega) (by omega) (by omega), neg_le_neg_iff]
  apply anti
  · positivity
  · have e := mirror_sq' (R := R) cx j δx
    have hk : (0 : R) ≤ (j : R) - cx := by
      have : ((cx : Int) : R) ≤ (j : R) := by exact_mod_cast h3
      simpa using sub_nonneg.mpr this
    have : 0 ≤ 4 * ((j : R) - cx) * (-δx) := by
      have : 0 ≤ -δx := by linarith
      positivity
    linarith

theorem BumpMap.sColDom_neg {h w : Nat} {img : Nat → Nat → R} {g : R → R} {p cx cy : Nat} {δx δy : R}
    (B : BumpMap h w img g p cx cy δx δy) (santi : ∀ u v, 0 ≤ u → u < v → g v < g u) (hδ : δx < 0) :
    SColDom (fun i j => - zeroPadAt h w img i j) p cx cy := by
  intro i j h1 h2 h3 h4
  have := B.x0; have := B.x1; have := B.y0; have := B.y1
  show - zeroPadAt h w img i (2 * (cx : Int) - j) < - zeroPadAt h w img i j
  rw [B.at i j (by omega) (by omega) (by omega) (by omega),
      B.at i (2 * (cx : Int) - j) (by omega) (by omega) (by omega) (by omega), neg_lt_neg_iff]
  apply santi
  · positivity
  · have e := mirror_sq' (R := R) cx j δx
    have hk : (0 : R) < (j : R) - cx := by
      have : ((cx : Int) : R) < (j : R) := by exact_mod_cast h3
      simpa using sub_pos.mpr this
    have : 0 < 4 * ((j : R) - cx) * (-δx) := by
      have : 0 < -δx := by linarith
      positivity
    linarith

/-! ### sign of the x-numerator on a bump map (y: apply to the transpose) -/

theorem BumpMap.xNum_nonneg {h w : Nat} {img : Nat → Nat → R} {g : R → R} {p cx cy : Nat} {δx δy : R}
    (B : BumpMap h w img g p cx cy δx δy) (anti : ∀ u v, 0 ≤ u → u ≤ v → g v ≤ g u) (hδ : 0 ≤ δx) :
    0 ≤ xNum p (patch h w img p cx cy) :=
  Peaks.xNum_nonneg p _ (cropZ_dom_right (B.colDom anti hδ))

theorem BumpMap.xNum_nonpos {h w : Nat} {img : Nat → Nat → R} {g : R → R} {p cx cy : Nat} {δx δy : R}
    (B : BumpMap h w img g p cx cy δx δy) (anti : ∀ u v, 0 ≤ u → u ≤ v → g v ≤ g u) (hδ : δx ≤ 0) :
    xNum p (patch h w img p cx cy) ≤ 0 := by
  apply Peaks.xNum_nonpos p _
  intro a b ha hb2 hb
  have := cropZ_dom_right (B.colDom_neg anti hδ) a b ha hb2 hb
  rw [cropZ_neg, cropZ_neg, neg_le_neg_iff] at this
  exact this

theorem BumpMap.xNum_pos {h w : Nat} {img : Nat → Nat → R} {g : R → R} {p cx cy : Nat} {δx δy : R}
    (B : BumpMap h w img g p cx cy δx δy) (hp : 2 ≤ p) (santi : ∀ u v, 0 ≤ u → u < v → g v < g u) (hδ : 0 < δx) :
    0 < xNum p (patch h w img p cx cy) :=
  Peaks.xNum_pos p hp _ (cropZ_sdom_right (B.sColDom santi hδ))

theorem BumpMap.xNum_neg {h w : Nat} {img : Nat → Nat → R} {g : R → R} {p cx cy : Nat} {δx δy : R}
    (B : BumpMap h w img g p cx cy δx δy) (hp : 2 ≤ p) (santi : ∀ u v, 0 ≤ u → u < v → g v < g u) (hδ : δx < 0) :
    xNum p (patch h w img p cx cy) < 0 := by
  apply Peaks.xNum_neg p hp _
  intro a b ha hb2 hb
  have := cropZ_sdom_right (B.sColDom_neg santi hδ) a b ha hb2 hb
  rw [cropZ_neg, cropZ_neg, neg_lt_neg_iff] at this
  exact this

theorem yNum_eq_xNum_patch_transpose (h w : Nat) (img : Nat → Nat → R) (p cx cy : Nat) :
    yNum p (patch h w img p cx cy) = xNum p (patch w h (fun i j => img j i) p cy cx) := by
  rw [yNum_eq_xNum_transpose]
  congr 1
  funext a b
  exact patch_transpose h w img p cx cy b a

end SleapVerif.Peaks
