import SleapVerif.Lemmas.Peaks
import SleapVerif.Lemmas.PeaksSum
/-!
Helper lemmas for C07: flat argmax + unravel, the `valid_idx` gather/scatter of
`find_global_peaks`, and bump patches (pairing argument instantiated).
-/
namespace SleapVerif.Peaks
set_option linter.unusedSectionVars false

variable {R : Type} [Field R] [LinearOrder R] [IsStrictOrderedRing R]

/-! ### flat argmax -/

/-- the flat index of the repaired detector -/
def flatArg (h w : Nat) (img : Nat → Nat → R) : Nat :=
  argmaxUpTo (fun k => img (k / w) (k % w)) (h * w - 1)

theorem globalRough1_eq (thr : R) (h w : Nat) (img : Nat → Nat → R) :
    globalRough1 thr h w img =
      threshold thr (flatArg h w img % w) (flatArg h w img / w) (img (flatArg h w img / w) (flatArg h w img % w)) := rfl

theorem flatArg_bounds {h w : Nat} (hh : 0 < h) (hw : 0 < w) (img : Nat → Nat → R) :
    flatArg h w img / w < h ∧ flatArg h w img % w < w := by
  have hle := argmaxUpTo_le (fun k => img (k / w) (k % w)) (h * w - 1)
  have hpos : 0 < h * w := Nat.mul_pos hh hw
  refine ⟨?_, Nat.mod_lt _ hw⟩
  rw [Nat.div_lt_iff_lt_mul hw]
  unfold flatArg; omega

theorem flat_le {h w i j : Nat} (hi : i < h) (hj : j < w) : i * w + j ≤ h * w - 1 := by
  have : (i + 1) * w ≤ h * w := Nat.mul_le_mul_right w hi
  rw [Nat.add_mul] at this
  omega

theorem le_flatArg {h w : Nat} (img : Nat → Nat → R) {i j : Nat} (hi : i < h) (hj : j < w) :
    img i j ≤ img (flatArg h w img / w) (flatArg h w img % w) := by
  have := le_argmaxUpTo (fun k => img (k / w) (k % w)) (h * w - 1) (i * w + j) (flat_le hi hj)
  simp only [flat_div hj, flat_mod hj] at this
  exact this

theorem lt_flatArg_of_before {h w : Nat} (img : Nat → Nat → R) {i j : Nat} (hj : j < w)
    (hlt : i * w + j < flatArg h w img) :
    img i j < img (flatArg h w img / w) (flatArg h w img % w) := by
  have := lt_argmaxUpTo_of_lt (fun k => img (k / w) (k % w)) (h * w - 1) (i * w + j) hlt
  simp only [flat_div hj, flat_mod hj] at this
  exact this

theorem threshold_pt_none_iff (thr : R) (x y : Nat) (m : R) : (threshold thr x y m).pt = none ↔ m < thr := by
  unfold threshold
  split <;> simp [*]

theorem threshold_some (thr : R) (x y : Nat) (m : R) (h : ¬ m < thr) : threshold thr x y m = ⟨some (x, y), m⟩ := by
  unfold threshold; rw [if_neg h]

theorem threshold_none (thr : R) (x y : Nat) (m : R) (h : m < thr) : threshold thr x y m = ⟨none, 0⟩ := by
  unfold threshold; rw [if_pos h]

/-! ### gather / scatter -/

theorem zip_map_self {α β : Type} (I : List α) (F : α → β) : I.zip (I.map F) = I.map fun k => (k, F k) := by
  induction I with
  | nil => rfl
  | cons a as ih => simp [ih]

theorem scatterStep_length (acc : List (GRPeak R)) (kr : Nat × Option (R × R)) :
    (scatterStep acc kr).length = acc.length := by
  unfold scatterStep; split <;> simp

theorem scatterStep_getElem? (acc : List (GRPeak R)) (i : Nat) (v : Option (R × R)) (k : Nat) :
    (scatterStep acc (i, v))[k]? =
      if k = i then acc[k]?.map (fun e => { e with pt := some v }) else acc[k]? := by
  unfold scatterStep
  simp only
  cases hi : acc[i]? with
  | none =>
    by_cases hk : k = i
    · subst hk; simp [hi]
    · simp [hk]
  | some e =>
    simp only
    by_cases hk : k = i
    · subst hk
      rw [if_pos rfl, List.getElem?_set_self' ]
      simp [hi]
    · rw [if_neg hk, List.getElem?_set_ne (Ne.symm hk)]

theorem scatter_fold_getElem? (F : Nat → Option (R × R)) (I : List Nat) (acc : List (GRPeak R)) (k : Nat) :
    ((I.map fun i => (i, F i)).foldl scatterStep acc)[k]? =
      if k ∈ I then acc[k]?.map (fun e => { e with pt := some (F k) }) else acc[k]? := by
  induction I generalizing acc with
  | nil => simp
  | cons i I ih =>
    rw [List.map_cons, List.foldl_cons, ih, scatterStep_getElem?]
    by_cases hk : k = i
    · subst hk
      simp only [if_true, List.mem_cons, true_or]
      split
      · cases acc[k]? <;> simp
      · rfl
    · simp [hk]

/-- pointwise description of `find_global_peaks(refinement="integral")` on the flat `(S·C)` view:
valid rows get `rough + offsets` computed on **their own** flat map around **their own** rough
cell, invalid rows stay NaN, values are untouched. -/
theorem globalRefineFlat_getElem? (rough : Nat → Nat → GPeak R) (r : Nat) (b : Batch R) (k : Nat)
    (hk : k < b.S * b.C) :
    (globalRefineFlat rough r b)[k]? =
      some ⟨(rough (k / b.C) (k % b.C)).pt,
            (rough (k / b.C) (k % b.C)).pt.map (fun xy => refinePoint b.h b.w (b.flat k) r xy.1 xy.2),
            (rough (k / b.C) (k % b.C)).val⟩ := by
  unfold globalRefineFlat
  simp only
  rw [zip_map_self]
  rw [scatter_fold_getElem?]
  have hget : ∀ d, ((List.range (b.S * b.C)).map fun k => rough (k / b.C) (k % b.C)).getD k d
      = rough (k / b.C) (k % b.C) := by
    intro d
    simp [List.getD, hk]
  simp only [List.mem_filter, List.mem_range, hk, true_and, hget]
  simp only [List.getElem?_map, List.getElem?_range hk, Option.map_some]
  cases hp : (rough (k / b.C) (k % b.C)).pt with
  | none => simp
  | some xy => obtain ⟨x, y⟩ := xy; simp

/-! ### bump patches -/

/-- the patch samples an even, radially non-increasing profile `g(d²)` centred at
`(r + δx, r + δy)` in patch coordinates -/
structure BumpPatch (r : Nat) (P : Nat → Nat → R) (g : R → R) (δx δy : R) : Prop where
  shape : ∀ a b, a < 2*r+1 → b < 2*r+1 → P a b = g (((b : R) - r - δx)^2 + ((a : R) - r - δy)^2)
  anti : ∀ u v, 0 ≤ u → u ≤ v → g v ≤ g u

theorem BumpPatch.transpose {r : Nat} {P : Nat → Nat → R} {g : R → R} {δx δy : R}
    (B : BumpPatch r P g δx δy) : BumpPatch r (fun a b => P b a) g δy δx :=
  ⟨fun a b ha hb => by rw [B.shape b a hb ha, add_comm], B.anti⟩

theorem mirror_sq {r b : Nat} (hb : b < 2*r+1) (δ : R) :
    (((2*r - b : Nat) : R) - r - δ)^2 - ((b : R) - r - δ)^2 = 4 * ((b : R) - r) * δ := by
  rw [Nat.cast_sub (by omega)]
  push_cast; ring

theorem bump_dom_right {r : Nat} {P : Nat → Nat → R} {g : R → R} {δx δy : R} (B : BumpPatch r P g δx δy)
    (hδ : 0 ≤ δx) : ∀ a b, a < 2*r+1 → r < b → b < 2*r+1 → P a (2*r - b) ≤ P a b := by
  intro a b ha hrb hb
  rw [B.shape a b ha hb, B.shape a (2*r - b) ha (by omega)]
  apply B.anti
  · positivity
  · have h1 := mirror_sq (R := R) hb δx
    have h2 : (0 : R) < (b : R) - r := by rw [sub_pos]; exact_mod_cast hrb
    have h3 : 0 ≤ 4 * ((b : R) - r) * δx := by positivity
    linarith

theorem bump_dom_left {r : Nat} {P : Nat → Nat → R} {g : R → R} {δx δy : R} (B : BumpPatch r P g δx δy)
    (hδ : δx ≤ 0) : ∀ a b, a < 2*r+1 → r < b → b < 2*r+1 → P a b ≤ P a (2*r - b) := by
  intro a b ha hrb hb
  rw [B.shape a b ha hb, B.shape a (2*r - b) ha (by omega)]
  apply B.anti
  · positivity
  · have h1 := mirror_sq (R := R) hb δx
    have h2 : (0 : R) < (b : R) - r := by rw [sub_pos]; exact_mod_cast hrb
    have h3 : 4 * ((b : R) - r) * δx ≤ 0 := by
      have : 0 ≤ 4 * ((b : R) - r) * (-δx) := by
        have : 0 ≤ -δx := by linarith
        positivity
      linarith
    linarith

theorem bump_sdom_right {r : Nat} {P : Nat → Nat → R} {g : R → R} {δx δy : R} (B : BumpPatch r P g δx δy)
    (hs : ∀ u v, 0 ≤ u → u < v → g v < g u)
    (hδ : 0 < δx) : ∀ a b, a < 2*r+1 → r < b → b < 2*r+1 → P a (2*r - b) < P a b := by
  intro a b ha hrb hb
  rw [B.shape a b ha hb, B.shape a (2*r - b) ha (by omega)]
  apply hs
  · positivity
  · have h1 := mirror_sq (R := R) hb δx
    have h2 : (0 : R) < (b : R) - r := by rw [sub_pos]; exact_mod_cast hrb
    have h3 : 0 < 4 * ((b : R) - r) * δx := by positivity
    linarith

theorem bump_sdom_left {r : Nat} {P : Nat → Nat → R} {g : R → R} {δx δy : R} (B : BumpPatch r P g δx δy)
    (hs : ∀ u v, 0 ≤ u → u < v → g v < g u)
    (hδ : δx < 0) : ∀ a b, a < 2*r+1 → r < b → b < 2*r+1 → P a b < P a (2*r - b) := by
  intro a b ha hrb hb
  rw [B.shape a b ha hb, B.shape a (2*r - b) ha (by omega)]
  apply hs
  · positivity
  · have h1 := mirror_sq (R := R) hb δx
    have h2 : (0 : R) < (b : R) - r := by rw [sub_pos]; exact_mod_cast hrb
    have h3 : 4 * ((b : R) - r) * δx < 0 := by
      have : 0 < 4 * ((b : R) - r) * (-δx) := by
        have : 0 < -δx := by linarith
        positivity
      linarith
    linarith

/-- a patch that lies inside the map reads the map itself -/
theorem patch_inside {h w : Nat} (img : Nat → Nat → R) {r cx cy a b : Nat}
    (hx0 : r ≤ cx) (hx1 : cx + r < w) (hy0 : r ≤ cy) (hy1 : cy + r < h) (ha : a < 2*r+1) (hb : b < 2*r+1) :
    patch h w img r cx cy a b = img (cy - r + a) (cx - r + b) := by
  unfold patch zeroPadAt
  have : inB h w ((cy : Int) - r + a) ((cx : Int) - r + b) = true := by
    simp only [inB, Bool.and_eq_true, decide_eq_true_eq]; omega
  rw [if_pos this]
  congr 1 <;> omega

/-- a bump map sampled by an inside patch is a bump patch -/
theorem bumpPatch_of_map {h w : Nat} (img : Nat → Nat → R) (g : R → R) {r cx cy : Nat} (δx δy : R)
    (hx0 : r ≤ cx) (hx1 : cx + r < w) (hy0 : r ≤ cy) (hy1 : cy + r < h)
    (himg : ∀ i j, i < h → j < w → img i j = g (((j : R) - (cx + δx))^2 + ((i : R) - (cy + δy))^2))
    (anti : ∀ u v, 0 ≤ u → u ≤ v → g v ≤ g u) :
    BumpPatch r (patch h w img r cx cy) g δx δy := by
  refine ⟨fun a b ha hb => ?_, anti⟩
  rw [patch_inside img hx0 hx1 hy0 hy1 ha hb, himg _ _ (by omega) (by omega)]
  congr 2
  · rw [Nat.cast_add, Nat.cast_sub hx0]; ring
  · rw [Nat.cast_add, Nat.cast_sub hy0]; ring

end SleapVerif.Peaks
