import SleapVerif.Lemmas.EvalVoc

/-! Unit bounds for the reported PCK quantities (`mPCK_parts`, `mPCK`). -/
set_option linter.unusedSectionVars false
set_option linter.unusedVariables false
namespace SleapVerif.Eval
open SleapVerif.Oks

variable {R : Type} [Field R] [LinearOrder R] [IsStrictOrderedRing R]

theorem ind_unit (b : Bool) : InUnit (ind (R := R) b) := by
  cases b <;> simp [ind, InUnit]

theorem mPCKparts_unit (thrs : List R) (d : List (List (Option R))) (n : Nat) :
    ∀ x ∈ mPCKparts (Nat.cast : Nat → R) thrs d n, InUnit x := by
  intro x hx
  unfold mPCKparts at hx
  cases d with
  | nil => simp at hx
  | cons r rs =>
    simp only [List.mem_map] at hx
    obtain ⟨k, _, rfl⟩ := hx
    apply mean_unit
    intro y hy
    obtain ⟨t, _, rfl⟩ := List.mem_map.mp hy
    apply mean_unit
    intro z hz
    obtain ⟨row, _, rfl⟩ := List.mem_map.mp hz
    exact ind_unit _

theorem mPCK_unit (thrs : List R) (d : List (List (Option R))) (n : Nat) (v : R)
    (h : mPCK (Nat.cast : Nat → R) thrs d n = some v) : InUnit v := by
  unfold mPCK at h
  split at h
  · cases h
  · have := Option.some.inj h
    subst this
    exact mean_unit _ (mPCKparts_unit thrs d n)

end SleapVerif.Eval
