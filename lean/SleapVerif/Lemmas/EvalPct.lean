import SleapVerif.Lemmas.Eval

/-! Percentiles of the distance summary are monotone in the percentile (C16). -/
set_option linter.unusedSectionVars false
set_option linter.unusedVariables false
namespace SleapVerif.Eval
open SleapVerif.Oks

variable {R : Type} [Field R] [LinearOrder R] [IsStrictOrderedRing R]

theorem sortAsc_sorted (l : List R) : (sortAsc l).Pairwise (· ≤ ·) := by
  unfold sortAsc
  rw [List.pairwise_reverse]
  exact (sortDesc_sorted (fun x : R => x) l).imp (fun h => not_lt.mp h)

theorem sortAsc_perm (l : List R) : (sortAsc l).Perm l :=
  (List.reverse_perm _).trans (sortDesc_perm _ l)

theorem sorted_getD_mono {s : List R} (hs : s.Pairwise (· ≤ ·)) (d : R) {i j : Nat} (hij : i ≤ j)
    (hj : j < s.length) : s.getD i d ≤ s.getD j d := by
  have hi : i < s.length := by omega
  rw [List.getD_eq_getElem?_getD, List.getD_eq_getElem?_getD, List.getElem?_eq_getElem hi,
    List.getElem?_eq_getElem hj]
  simp only [Option.getD_some]
  rcases Nat.eq_or_lt_of_le hij with rfl | hlt
  · exact le_refl _
  · exact List.pairwise_iff_getElem.mp hs i j hi hj hlt

/-- one interpolated order statistic of a sorted non-empty sample -/
def interp (s : List R) (d : R) (n p : Nat) : R :=
  s.getD ((n - 1) * p / 100) d +
    (((n - 1) * p % 100 : Nat) : R) / ((100 : Nat) : R) *
      (s.getD (min ((n - 1) * p / 100 + 1) (n - 1)) d - s.getD ((n - 1) * p / 100) d)

theorem interp_mono {s : List R} (hs : s.Pairwise (· ≤ ·)) (d : R) (hne : 0 < s.length) (p q : Nat)
    (hpq : p ≤ q) (hq : q ≤ 100) : interp s d s.length p ≤ interp s d s.length q := by
  unfold interp
  generalize hn : s.length = n at *
  have hmul : (n - 1) * p ≤ (n - 1) * q := Nat.mul_le_mul_left _ hpq
  have hmax : (n - 1) * q ≤ (n - 1) * 100 := Nat.mul_le_mul_left _ hq
  generalize hP : (n - 1) * p = P at *
  generalize hQ : (n - 1) * q = Q at *
  have hk' : Q / 100 ≤ n - 1 := by omega
  have hk : P / 100 ≤ n - 1 := by omega
  have hlen : ∀ i, i ≤ n - 1 → i < s.length := by intro i hi; omega
  -- fractions
  have f0 : ∀ X : Nat, (0 : R) ≤ ((X % 100 : Nat) : R) / ((100 : Nat) : R) := fun X =>
    div_nonneg (Nat.cast_nonneg _) (Nat.cast_nonneg _)
  have f1 : ∀ X : Nat, ((X % 100 : Nat) : R) / ((100 : Nat) : R) ≤ 1 := fun X =>
    div_le_one_of_le₀ (by exact_mod_cast (Nat.mod_lt X (by norm_num)).le) (Nat.cast_nonneg _)
  -- A ≤ B at both percentiles
  have hAB : ∀ X : Nat, X / 100 ≤ n - 1 →
      s.getD (X / 100) d ≤ s.getD (min (X / 100 + 1) (n - 1)) d := by
    intro X hX
    exact sorted_getD_mono hs d (by omega) (hlen _ (by omega))
  rcases Nat.eq_or_lt_of_le (Nat.div_le_div_right (c := 100) hmul) with heq | hlt
  · -- same cell: the fraction grows
    rw [← heq]
    have hr : ((P % 100 : Nat) : R) / ((100 : Nat) : R) ≤ ((Q % 100 : Nat) : R) / ((100 : Nat) : R) := by
      apply div_le_div_of_nonneg_right _ (Nat.cast_nonneg _)
      exact_mod_cast (show P % 100 ≤ Q % 100 by omega)
    have hd := hAB P hk
    nlinarith [hr, hd]
  · -- later cell: value_p ≤ B_p ≤ A_q ≤ value_q
    have h1 : s.getD (P / 100) d + ((P % 100 : Nat) : R) / ((100 : Nat) : R) *
        (s.getD (min (P / 100 + 1) (n - 1)) d - s.getD (P / 100) d) ≤
        s.getD (min (P / 100 + 1) (n - 1)) d := by
      have := hAB P hk; nlinarith [f1 P, f0 P]
    have h2 : s.getD (min (P / 100 + 1) (n - 1)) d ≤ s.getD (Q / 100) d :=
      sorted_getD_mono hs d (by omega) (hlen _ hk')
    have h3 : s.getD (Q / 100) d ≤ s.getD (Q / 100) d + ((Q % 100 : Nat) : R) / ((100 : Nat) : R) *
        (s.getD (min (Q / 100 + 1) (n - 1)) d - s.getD (Q / 100) d) := by
      have := hAB Q hk'; nlinarith [f0 Q]
    linarith

theorem percentile_eq (p : Nat) (l : List R) (v : R) (h : percentile (Nat.cast : Nat → R) p l = some v) :
    ∃ s0 st, sortAsc l = s0 :: st ∧ v = interp (s0 :: st) s0 (s0 :: st).length p := by
  unfold percentile at h
  cases hs : sortAsc l with
  | nil => rw [hs] at h; simp at h
  | cons s0 st =>
    rw [hs] at h
    exact ⟨s0, st, rfl, (Option.some.inj h).symm⟩

end SleapVerif.Eval
