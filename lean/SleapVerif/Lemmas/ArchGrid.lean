import SleapVerif.Lemmas.Arch
/-!
# The configuration grid of property C14 and its well-formedness check

`wellFormed c` is a decidable, input-size-free certificate: the model builds, every strided op
divides exactly, the encoder's total stride is the family's max stride, and on an input of
exactly one max stride per side the forward pass succeeds with the contracted head outputs and
every decoder stage sits at the stride its label claims.  `Props/C14.arch_contract` lifts such a
certificate to every input `a·S × b·S`, every pooling state and every call history.
-/
namespace SleapVerif.Arch

/-- construct, then one forward call -/
def run (c : Cfg) (fresh : Bool) (h w : Nat) : Res Forward :=
  (construct c).bind fun k => forward c k fresh h w

/-- the contracted output shapes: one per head, `(channels, h / stride, w / stride)` -/
def contract (c : Cfg) (h w : Nat) : List (Nat × Nat × Nat) :=
  c.heads.map fun hd => (hd.ch, h / hd.os, w / hd.os)

def wellFormed (c : Cfg) : Bool :=
  match construct c with
  | .err _ => false
  | .ok k =>
    let S := c.realMaxStride
    k.built.enc.all Op.exactOk && encStride k.built.enc == S && decide (0 < S)
      && c.heads.all (fun hd => decide (0 < hd.os) && S % hd.os == 0)
      && k.headIn.length == c.heads.length
      && match forward c k true S S with
         | .err _ => false
         | .ok f => f.outs == contract c S S
                     && f.stages.all (fun (l, _, a, b) => l * a == S && l * b == S)

/-- Documented validity: `backbone output_stride ≤ head stride ≤ max_stride / 2` for every head
    (a head *at* the max stride is an invalid configuration, rejected loudly: see
    `Props/C14.head_stride_eq_max_rejected`), at least one head. -/
def docValid (c : Cfg) : Bool :=
  !c.heads.isEmpty && c.heads.all (fun h => decide (c.bos ≤ h.os) && decide (2 * h.os ≤ c.realMaxStride))
    && decide (1 ≤ c.cpb)

/-- The extra hypotheses under which the contract is actually true of the code (the three
    excluded regions are the known findings F-C14-*; `rate = 2` for the wrappers is a documented
    restriction: their encoders double the channels per stage). -/
def supported (c : Cfg) : Bool :=
  match c.fam with
  | .unet => decide (2 ≤ c.cpb) && (c.middle || c.rate == ⟨1, 1⟩)
  | _ => c.rate == ⟨2, 1⟩ && decide (c.bos ≤ c.stem)

def strides6 : List Nat := [1, 2, 4, 8, 16, 32]
def rates3 : List Rate := [⟨1, 1⟩, ⟨3, 2⟩, ⟨2, 1⟩]
def bools : List Bool := [true, false]

/-- head lists of the grid: one confidence-map head (single-instance / centroid / centered-instance:
    3 channels stand for `parts`, see `output_channels`), or confmaps + PAFs (bottom-up) -/
def headGrid : List (List Head) :=
  (strides6.map fun a => [⟨a, 3⟩]) ++ (strides6.flatMap fun a => strides6.map fun b => [⟨a, 3⟩, ⟨b, 2⟩])

def gridUnet (filters : Nat) (rate : Rate) : List Cfg :=
  [8, 16, 32].flatMap fun ms => [0, 2, 4].flatMap fun stem => strides6.flatMap fun bos =>
  headGrid.flatMap fun hs => [1, 2, 3].flatMap fun cpb => bools.flatMap fun mid => bools.map fun upi =>
    { fam := .unet, variant := 0, filters := filters, rate := rate, maxStride := ms, bos := bos, stem := stem,
      cpb := cpb, middle := mid, upInterp := upi, inCh := 1, heads := hs }

def gridWrapper (fam : Family) (variant : Nat) : List Cfg :=
  [2, 4].flatMap fun sps => rates3.flatMap fun rate => strides6.flatMap fun bos =>
  headGrid.flatMap fun hs => [1, 2, 3].flatMap fun cpb => bools.map fun upi =>
    { fam := fam, variant := variant, filters := 0, rate := rate, maxStride := sps * 8, bos := bos, stem := sps,
      cpb := cpb, middle := true, upInterp := upi, inCh := 1, heads := hs }

def gridOk (g : List Cfg) : Bool := g.all fun c => !(docValid c && supported c) || wellFormed c

end SleapVerif.Arch
