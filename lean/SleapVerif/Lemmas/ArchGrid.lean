import SleapVerif.Lemmas.Arch
/-!
# Well-formedness certificate of a configuration, and its consequences

`wellFormed c` is a decidable, input-size-free certificate: the backbone builds, every strided op
divides exactly, the encoder's total stride is the family's max stride, the channel pass
succeeds, on an input of exactly one max stride the spatial pass succeeds with every decoder
stage at the stride its label claims, and for every head the stride is found among the decoder
labels, divides the max stride, and the `in_channels` computed by `Model.__init__` equal the
channels of the stage `Model.forward` selects.

`run_of_wellFormed` lifts the certificate to every input `a·S × b·S`, either pooling state.
-/
namespace SleapVerif.Arch

/-- construct, then one forward call -/
def run (c : Cfg) (fresh : Bool) (h w : Nat) : Res Forward :=
  (construct c).bind fun k => forward c k fresh h w

/-- the same on the tree before c60aeeb (regression record) -/
def runAsIs (c : Cfg) (fresh : Bool) (h w : Nat) : Res Forward :=
  (constructAsIs c).bind fun k => forward c k fresh h w

/-- the contracted output shapes: one per head, `(channels, h / stride, w / stride)` -/
def contract (c : Cfg) (h w : Nat) : List (Nat × Nat × Nat) :=
  c.heads.map fun hd => (hd.ch, h / hd.os, w / hd.os)

/-- per-head certificate (depends on the head's stride only, not on its channel count) -/
def certOs (c : Cfg) (b : Built) (chans l0 : List Nat) (os : Nat) : Bool :=
  decide (0 < os) &&
  match findIdx (labels b.dec) os with
  | .err _ => false
  | .ok i =>
    (headInFor b os == .ok (chans.getD i 0))
      && l0.getD i 0 * os == c.realMaxStride

def wellFormed (c : Cfg) : Bool :=
  match build c with
  | .err _ => false
  | .ok b =>
    let S := c.realMaxStride
    b.enc.all Op.exactOk && encStride b.enc == S && !c.heads.isEmpty &&
    match chanStages c b, spatStages b true S with
    | .ok chans, .ok l0 => c.heads.all fun h => certOs c b chans l0 h.os
    | _, _ => false

theorem build_heads (c : Cfg) (hs : List Head) : build { c with heads := hs } = build c := by
  unfold build; cases c.fam <;> rfl

theorem build_upInterp (c : Cfg) (u : Bool) : build { c with upInterp := u } = build c := by
  unfold build; cases c.fam <;> rfl

/-- `up_interpolate = False` is the stronger case: a certificate for it gives one for `True`. -/
theorem wellFormed_upInterp (c : Cfg) (h : wellFormed { c with upInterp := false } = true) (u : Bool) :
    wellFormed { c with upInterp := u } = true := by
  cases u
  · exact h
  · unfold wellFormed at h ⊢
    rw [build_upInterp] at h ⊢
    cases hb : build c with
    | err e => simp [hb] at h
    | ok b =>
      simp only [hb] at h ⊢
      simp only [Bool.and_eq_true] at h ⊢
      refine ⟨h.1, ?_⟩
      have h2 := h.2
      cases hc : chanStages { c with upInterp := false } b with
      | err e => simp [hc] at h2
      | ok chans =>
        have hc' : chanStages { c with upInterp := true } b = .ok chans := by
          unfold chanStages at hc ⊢
          obtain ⟨⟨x, feats⟩, he, hd⟩ := Res.bind_eq_ok.mp hc
          simp only at he hd ⊢
          rw [he]
          exact decChan_upInterp_mono _ _ _ _ hd
        simp only [hc, hc'] at h2 ⊢
        exact h2

/-- Heads are independent: certificates for the one-head configurations (any channel count)
    assemble into a certificate for the whole head list. -/
theorem wellFormed_of_single (c : Cfg) (hne : c.heads ≠ [])
    (h : ∀ hd ∈ c.heads, ∃ ch, wellFormed { c with heads := [⟨hd.os, ch⟩] } = true) :
    wellFormed c = true := by
  obtain ⟨hd0, hs0, hcons⟩ := List.exists_cons_of_ne_nil hne
  obtain ⟨ch0, hw0⟩ := h hd0 (by simp [hcons])
  unfold wellFormed at hw0 ⊢
  rw [build_heads] at hw0
  cases hb : build c with
  | err e => simp [hb] at hw0
  | ok b =>
    simp only [hb] at hw0 ⊢
    have hcs : ∀ hs, chanStages { c with heads := hs } b = chanStages c b := fun _ => rfl
    have hrs : ∀ hs, ({ c with heads := hs } : Cfg).realMaxStride = c.realMaxStride := fun _ => rfl
    simp only [hcs, hrs, Bool.and_eq_true] at hw0 ⊢
    refine ⟨⟨hw0.1.1, by simp [hne]⟩, ?_⟩
    cases hc : chanStages c b with
    | err e => simp [hc] at hw0
    | ok chans =>
      cases hsp : spatStages b true c.realMaxStride with
      | err e => simp [hc, hsp] at hw0
      | ok l0 =>
        simp only [List.all_eq_true]
        intro hd hhd
        obtain ⟨ch, hw⟩ := h hd hhd
        unfold wellFormed at hw
        rw [build_heads, hb] at hw
        simp only [hcs, hrs, hc, hsp, Bool.and_eq_true, List.all_cons, List.all_nil, Bool.and_true] at hw
        exact hw.2

/-- **The certificate implies the contract** for every input `a·S × b·S` and either pooling
    state: construction succeeds, forward succeeds, one output per head with the head's channel
    count and spatial size `input / head stride`. -/
theorem run_of_wellFormed (c : Cfg) (hw : wellFormed c = true) (a b : Nat) (ha : 0 < a) (hb : 0 < b)
    (fresh : Bool) :
    ∃ f, run c fresh (a * c.realMaxStride) (b * c.realMaxStride) = .ok f ∧
      f.outs = contract c (a * c.realMaxStride) (b * c.realMaxStride) := by
  unfold wellFormed at hw
  cases hbd : build c with
  | err e => simp [hbd] at hw
  | ok bb =>
    simp only [hbd, Bool.and_eq_true] at hw
    obtain ⟨⟨⟨hex, hS⟩, _⟩, hw⟩ := hw
    cases hc : chanStages c bb with
    | err e => simp [hc] at hw
    | ok chans =>
      cases hsp : spatStages bb true c.realMaxStride with
      | err e => simp [hc, hsp] at hw
      | ok l0 =>
        simp only [hc, hsp, List.all_eq_true] at hw
        have hS' : encStride bb.enc = c.realMaxStride := by simpa using hS
        have hex' : ∀ op ∈ bb.enc, op.exactOk = true := by simpa [List.all_eq_true] using hex
        rw [← hS'] at hsp
        have spA := spatStages_scale bb hex' l0 hsp a ha fresh
        have spB := spatStages_scale bb hex' l0 hsp b hb fresh
        rw [hS'] at spA spB
        -- per-head data
        let idx : Head → Nat := fun hd => (labels bb.dec).idxOf hd.os
        let g : Head → Nat := fun hd => chans.getD (idx hd) 0
        have hhead : ∀ hd ∈ c.heads, 0 < hd.os ∧ findIdx (labels bb.dec) hd.os = .ok (idx hd) ∧
            headInFor bb hd.os = .ok (g hd) ∧
            l0.getD (idx hd) 0 * hd.os = c.realMaxStride := by
          intro hd hhd
          have := hw hd hhd
          unfold certOs at this
          simp only [Bool.and_eq_true, decide_eq_true_eq] at this
          obtain ⟨hpos, this⟩ := this
          cases hf : findIdx (labels bb.dec) hd.os with
          | err e => simp [hf] at this
          | ok i =>
            have hi : i = idx hd := by
              unfold findIdx at hf; split at hf
              · injection hf with hf; exact hf.symm
              · cases hf
            subst hi
            simp only [hf, Bool.and_eq_true, beq_iff_eq] at this
            exact ⟨hpos, rfl, this.1, this.2⟩
        have hinit : initHeads bb c.heads = .ok (c.heads.map g) :=
          initHeads_map bb g c.heads (fun hd hhd => (hhead hd hhd).2.2.1)
        have hcon : construct c = .ok { built := bb, headIn := c.heads.map g } := by
          simp [construct, hbd, hinit]
        let o : Head → Nat × Nat × Nat := fun hd =>
          (hd.ch, (l0.map (a * ·)).getD (idx hd) 0, (l0.map (b * ·)).getD (idx hd) 0)
        have hout : headOuts (labels bb.dec) chans (l0.map (a * ·)) (l0.map (b * ·)) c.heads (c.heads.map g)
            = .ok (c.heads.map o) :=
          headOuts_map _ _ _ _ g o c.heads (fun hd hhd => by
            unfold headOutFor
            rw [(hhead hd hhd).2.1]
            simp [g, o])
        refine ⟨{ stages := List.zip (labels bb.dec)
                    (List.zip chans (List.zip (l0.map (a * ·)) (l0.map (b * ·)))),
                  outs := c.heads.map o }, ?_, ?_⟩
        · unfold run
          rw [hcon]
          simp only [Res.bind_ok, forward, hc, spA, spB, hout]
        · simp only [contract]
          apply List.map_congr_left
          intro hd hhd
          obtain ⟨hpos, _, _, hsz⟩ := hhead hd hhd
          have e : ∀ m, m * c.realMaxStride / hd.os = m * l0.getD (idx hd) 0 := by
            intro m
            rw [← hsz, ← Nat.mul_assoc, Nat.mul_div_cancel _ hpos]
          simp only [o]
          rw [getD_map_mul, getD_map_mul, e a, e b]

/-- what a certificate says about sizes: on every multiple of the max stride the decoder stage
    sizes are the same in both pooling states -/
theorem wellFormed_spat (c : Cfg) (hw : wellFormed c = true) :
    ∃ (b : Built) (l0 : List Nat), build c = .ok b ∧ ∀ m, 0 < m → ∀ fresh,
      spatStages b fresh (m * c.realMaxStride) = .ok (l0.map (m * ·)) := by
  unfold wellFormed at hw
  cases hbd : build c with
  | err e => simp [hbd] at hw
  | ok bb =>
    simp only [hbd, Bool.and_eq_true] at hw
    obtain ⟨⟨⟨hex, hS⟩, _⟩, hw⟩ := hw
    cases hc : chanStages c bb with
    | err e => simp [hc] at hw
    | ok chans =>
      cases hsp : spatStages bb true c.realMaxStride with
      | err e => simp [hc, hsp] at hw
      | ok l0 =>
        have hS' : encStride bb.enc = c.realMaxStride := by simpa using hS
        have hex' : ∀ op ∈ bb.enc, op.exactOk = true := by simpa [List.all_eq_true] using hex
        rw [← hS'] at hsp
        refine ⟨bb, l0, rfl, fun m hm fresh => ?_⟩
        have := spatStages_scale bb hex' l0 hsp m hm fresh
        rwa [hS'] at this

/-- the forward pass does not depend on the pooling state on multiples of the max stride -/
theorem forward_fresh_irrelevant (c : Cfg) (hw : wellFormed c = true) (k : Constructed)
    (hk : construct c = .ok k) (a b : Nat) (ha : 0 < a) (hb : 0 < b) (f1 f2 : Bool) :
    forward c k f1 (a * c.realMaxStride) (b * c.realMaxStride)
      = forward c k f2 (a * c.realMaxStride) (b * c.realMaxStride) := by
  obtain ⟨bb, l0, hbd, hsp⟩ := wellFormed_spat c hw
  have hkb : k.built = bb := by
    unfold construct at hk
    rw [hbd] at hk
    simp only [Res.bind_ok] at hk
    obtain ⟨hi, _, hk⟩ := Res.bind_eq_ok.mp hk
    injection hk with hk; subst hk; rfl
  unfold forward
  rw [hkb, hsp a ha f1, hsp a ha f2, hsp b hb f1, hsp b hb f2]

theorem callSeq_last (c : Cfg) (k : Constructed) (calls : List (Nat × Nat)) (last : Nat × Nat) (fresh : Bool) :
    callSeq c k (calls ++ [last]) fresh
      = some (forward c k (if calls = [] then fresh else false) last.1 last.2) := by
  induction calls generalizing fresh with
  | nil => simp [callSeq]
  | cons p ps ih =>
    cases ps with
    | nil => simp [callSeq]
    | cons q qs =>
      have := ih false
      simp only [List.cons_append] at this ⊢
      simp only [callSeq]
      rw [this]; simp

/-- a certificate says every head's stride is positive and divides the max stride -/
theorem wellFormed_head_dvd (c : Cfg) (hw : wellFormed c = true) :
    ∀ hd ∈ c.heads, 0 < hd.os ∧ hd.os ∣ c.realMaxStride := by
  unfold wellFormed at hw
  cases hbd : build c with
  | err e => simp [hbd] at hw
  | ok bb =>
    simp only [hbd, Bool.and_eq_true] at hw
    obtain ⟨_, hw⟩ := hw
    cases hc : chanStages c bb with
    | err e => simp [hc] at hw
    | ok chans =>
      cases hsp : spatStages bb true c.realMaxStride with
      | err e => simp [hc, hsp] at hw
      | ok l0 =>
        simp only [hc, hsp, List.all_eq_true] at hw
        intro hd hhd
        have := hw hd hhd
        unfold certOs at this
        simp only [Bool.and_eq_true, decide_eq_true_eq] at this
        obtain ⟨hpos, this⟩ := this
        cases hf : findIdx (labels bb.dec) hd.os with
        | err e => simp [hf] at this
        | ok i =>
          simp only [hf, Bool.and_eq_true, beq_iff_eq] at this
          exact ⟨hpos, ⟨l0.getD i 0, by rw [← this.2, Nat.mul_comm]⟩⟩


/-! ## the stem kernel of the ConvNeXt / Swin wrappers (`stem_patch_kernel`, `patch_size`)

The stem conv has `padding = 1` hard-coded, so it divides multiples of its stride exactly iff
`2 < k ≤ stride + 2`; for every such kernel the certificate is the one of the default kernel 4. -/

theorem sconv_spat_valid (a b k s : Nat) (fresh : Bool) (hk : 2 < k ∧ k ≤ s + 2) (hs : 0 < s) :
    (Op.sconv a b k s 1).spat fresh (s * 8) = some 8 := by
  have h : (Op.sconv a b k s 1).exactOk = true := by
    simp only [Op.exactOk, decide_eq_true_eq]; omega
  have := Op.spat_exact (Op.sconv a b k s 1) h fresh 8 (by omega)
  simpa [Op.stride, Nat.mul_comm] using this

theorem wellFormed_stemKernel (c : Cfg) (hf : c.fam ≠ .unet) (k : Nat) (hk : 2 < k ∧ k ≤ c.stem + 2)
    (h4 : 2 ≤ c.stem) :
    wellFormed { c with stemKernel := k } = wellFormed { c with stemKernel := 4 } := by
  have e4 : (2 : Nat) < 4 ∧ 4 ≤ c.stem + 2 := by omega
  have hs : 0 < c.stem := by omega
  unfold wellFormed build
  cases hfam : c.fam with
  | unet => exact absurd hfam hf
  | convnext =>
    simp only [Cfg.realMaxStride]
    cases decBuild false ((convnextChannels c.variant).getD 0 0) c.rate 3 (wrapUp c.fixWrap c.stem c.bos)
        ((convnextChannels c.variant).getD 3 0) (c.stem * 4) c.bos with
    | err e => rfl
    | ok dec =>
      simp only [Res.bind_ok, spatStages, chanStages, encRun, Op.chan, sconv_spat_valid _ _ _ _ _ hk hs,
        sconv_spat_valid _ _ _ _ _ e4 hs, List.all_cons, Op.exactOk, encStride, Op.stride]
      simp [hk.1, hk.2, e4.2, hs, certOs, headInFor, Cfg.realMaxStride, labels]
  | swint =>
    simp only [Cfg.realMaxStride]
    cases decBuild false (swintEmbed c.variant) c.rate 3 (wrapUp c.fixWrap c.stem c.bos)
        (swintEmbed c.variant * 8) (c.stem * 4) c.bos with
    | err e => rfl
    | ok dec =>
      simp only [Res.bind_ok, spatStages, chanStages, encRun, Op.chan, sconv_spat_valid _ _ _ _ _ hk hs,
        sconv_spat_valid _ _ _ _ _ e4 hs, List.all_cons, Op.exactOk, encStride, Op.stride]
      simp [hk.1, hk.2, e4.2, hs, certOs, headInFor, Cfg.realMaxStride, labels]
end SleapVerif.Arch
