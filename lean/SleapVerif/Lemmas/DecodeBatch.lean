import SleapVerif.Model.Decode
/-!
# Batch plumbing lemmas (core Lean only)

The flat, sample-index-tagged peak list of a batch, split again by sample index, padded, zipped
with the parallel index lists and filtered, is — frame by frame — what each frame contributes on
its own (`frameGroup`).
-/
namespace SleapVerif.Decode

set_option linter.unusedSectionVars false
variable {α V ι E : Type} [LT V] [DecidableLT V]

/-- selecting sample `b` from the flat list gives back exactly frame `b`'s peaks -/
theorem sel_flatFrom (fs : List (Frame α V ι E)) (n b : Nat) :
    ((flatFrom n fs).filter (fun e => e.1 == b)).map (·.2)
      = if b < n then [] else ((fs[b - n]?).map (·.peaks)).getD [] := by
  induction fs generalizing n with
  | nil => simp [flatFrom]
  | cons f fs ih =>
    simp only [flatFrom, List.filter_append, List.map_append, ih (n + 1)]
    have h1 : ((f.peaks.map (fun p => (n, p))).filter (fun e => e.1 == b)).map (·.2)
        = if n = b then f.peaks else [] := by
      by_cases hnb : n = b
      · subst hnb
        simp [List.filter_map, Function.comp_def]
      · have : (n == b) = false := by simpa using hnb
        simp [List.filter_map, Function.comp_def, this, hnb]
    rw [h1]
    by_cases h : b < n
    · have : ¬ n = b := by omega
      have h' : b < n + 1 := by omega
      simp [h, this, h']
    · by_cases hnb : n = b
      · subst hnb
        simp
      · have h2 : ¬ b < n + 1 := by omega
        have h3 : b - n = (b - (n + 1)) + 1 := by omega
        simp [h, hnb, h2, h3]

/-- what one sample's rows look like after `topk` / NaN padding -/
def padOf (k : Nat) (cur : List (Peak α V)) : List (Option (Peak α V)) :=
  if cur.length > k then (topk k cur).map some
  else cur.map some ++ List.replicate (k - cur.length) none

theorem perSample_eq (k : Nat) (batch : List (Frame α V ι E)) (i : Nat) (hi : i < batch.length) :
    perSample k (flatFrom 0 batch) i = padOf k batch[i].peaks := by
  unfold perSample padOf
  rw [sel_flatFrom]
  simp [hi]

theorem batched_eq (k : Nat) (batch : List (Frame α V ι E)) :
    (List.range batch.length).map (perSample k (flatFrom 0 batch)) = batch.map (fun f => padOf k f.peaks) := by
  apply List.ext_getElem
  · simp
  · intro i h1 h2
    simp only [List.getElem_map, List.getElem_range]
    exact perSample_eq k batch i (by simpa using h1)

theorem filterMap_id_map_some {β : Type} (l : List β) : (l.map some).filterMap id = l := by
  induction l with
  | nil => rfl
  | cons x xs ih => simp [ih]

theorem filterMap_id_replicate_none {β : Type} (n : Nat) :
    (List.replicate n (none : Option β)).filterMap id = [] := by
  induction n with
  | zero => rfl
  | succ n ih => simp [List.replicate_succ, ih]

/-- dropping the NaN rows leaves the frame's own peaks (the `k` best when over the limit) -/
theorem live_padOf (k : Nat) (cur : List (Peak α V)) :
    (padOf k cur).filterMap id = if cur.length > k then topk k cur else cur := by
  unfold padOf
  split
  · exact filterMap_id_map_some _
  · rw [List.filterMap_append, filterMap_id_map_some, filterMap_id_replicate_none, List.append_nil]

theorem flatFrom_isEmpty (fs : List (Frame α V ι E)) (n : Nat) :
    (flatFrom n fs).isEmpty = true ↔ ∀ f ∈ fs, f.peaks = [] := by
  induction fs generalizing n with
  | nil => simp [flatFrom]
  | cons f fs ih =>
    have ih' := ih (n + 1)
    simp only [List.isEmpty_iff] at ih' ⊢
    simp only [flatFrom, List.append_eq_nil_iff, List.map_eq_nil_iff, List.mem_cons,
      forall_eq_or_imp, ih']

theorem le_foldl_max (fs : List (Frame α V ι E)) (m : Nat) :
    m ≤ fs.foldl (fun m f => max m f.peaks.length) m ∧
      ∀ f ∈ fs, f.peaks.length ≤ fs.foldl (fun m f => max m f.peaks.length) m := by
  induction fs generalizing m with
  | nil => simp
  | cons g gs ih =>
    simp only [List.foldl_cons, List.mem_cons, forall_eq_or_imp]
    have := ih (max m g.peaks.length)
    refine ⟨by omega, by omega, this.2⟩

theorem length_le_maxCount (batch : List (Frame α V ι E)) (f : Frame α V ι E) (hf : f ∈ batch) :
    f.peaks.length ≤ maxCount batch := (le_foldl_max batch 0).2 f hf

theorem zip_replicate {β γ : Type} (a : β) (l : List γ) (n : Nat) (hn : n = l.length) :
    (List.replicate n a).zip l = l.map (fun x => (a, x)) := by
  subst hn
  induction l with
  | nil => rfl
  | cons x xs ih => simp [List.replicate_succ, ih]

/-- the replicate/zip plumbing of `_generate_crops` tags every crop with the frame's own entries -/
theorem replicated_rows (fi vi : ι) (e : E) (live : List (Peak α V)) :
    (((List.replicate live.length fi).zip ((List.replicate live.length vi).zip
        ((List.replicate live.length e).zip live))).map
      fun (x : ι × ι × E × Peak α V) => ({ fidx := x.1, vidx := x.2.1, eff := x.2.2.1, peak := x.2.2.2 } : Rec α V ι E))
      = live.map fun p => { fidx := fi, vidx := vi, eff := e, peak := p } := by
  rw [zip_replicate e live _ rfl, zip_replicate vi _ _ (by simp), zip_replicate fi _ _ (by simp)]
  simp [List.map_map, Function.comp_def]

/-- one frame's entry of `_generate_crops` -/
def cropsOf (k : Nat) (f : Frame α V ι E) : Option (List (Rec α V ι E)) :=
  let live := (padOf k f.peaks).filterMap id
  if live.isEmpty then none
  else some (live.map fun p => { fidx := f.fidx, vidx := f.vidx, eff := f.eff, peak := p })

theorem generateCrops_eq (k : Nat) (batch : List (Frame α V ι E)) :
    generateCrops (batch.map (fun f => padOf k f.peaks)) (batch.map (·.fidx)) (batch.map (·.vidx))
        (batch.map (·.eff))
      = batch.filterMap (cropsOf k) := by
  unfold generateCrops
  rw [List.zip_map', List.zip_map', List.zip_map', List.filterMap_map]
  congr 1
  funext f
  simp only [Function.comp_def, cropsOf]
  split
  · rfl
  · rw [replicated_rows]

theorem cropsOf_eq_frameGroup (mi : Option Nat) (batch : List (Frame α V ι E)) (f : Frame α V ι E)
    (hf : f ∈ batch) : cropsOf (mi.getD (maxCount batch)) f = frameGroup mi f := by
  unfold cropsOf frameGroup
  rw [live_padOf]
  cases mi with
  | some k => simp
  | none =>
    have := length_le_maxCount batch f hf
    have h : ¬ f.peaks.length > maxCount batch := by omega
    simp [h]

theorem filterMap_congr' {β γ : Type} (l : List β) (f g : β → Option γ) (h : ∀ x ∈ l, f x = g x) :
    l.filterMap f = l.filterMap g := by
  induction l with
  | nil => rfl
  | cons x xs ih =>
    simp only [List.filterMap_cons, h x (List.mem_cons_self ..)]
    rw [ih (fun y hy => h y (List.mem_cons_of_mem _ hy))]

theorem frameGroup_none_of_empty (mi : Option Nat) (f : Frame α V ι E) (h : f.peaks = []) :
    frameGroup mi f = none := by
  unfold frameGroup
  cases mi <;> simp [h]

/-- **the batch forward is the per-frame map** -/
theorem centroidCrop_eq (mi : Option Nat) (batch : List (Frame α V ι E)) :
    centroidCrop mi batch = batch.filterMap (frameGroup mi) := by
  unfold centroidCrop batchedPeaks
  by_cases he : (flatFrom 0 batch).isEmpty = true
  · simp only [he, if_true]
    have hall := (flatFrom_isEmpty batch 0).mp he
    symm
    rw [List.filterMap_eq_nil_iff]
    intro f hf
    exact frameGroup_none_of_empty mi f (hall f hf)
  · have he' : (flatFrom 0 batch).isEmpty = false := by simpa using he
    simp only [he', Bool.false_eq_true, if_false]
    rw [batched_eq, generateCrops_eq]
    exact filterMap_congr' _ _ _ (fun f hf => cropsOf_eq_frameGroup mi batch f hf)

/-! ### bottom-up -/

theorem bottomupRecords_eq {β γ : Type} (group : List (Peak α V) → β) (decode : E → β → γ)
    (batch : List (Frame α V ι E)) :
    bottomupRecords group decode batch
      = batch.map fun f => (f.fidx, f.vidx, decode f.eff (group f.peaks)) := by
  have hper : (List.range batch.length).map
        (fun b => group (((flatFrom 0 batch).filter (fun e => e.1 == b)).map (·.2)))
      = batch.map (fun f => group f.peaks) := by
    apply List.ext_getElem
    · simp
    · intro i h1 h2
      have hi : i < batch.length := by simpa using h1
      simp only [List.getElem_map, List.getElem_range]
      rw [sel_flatFrom]
      simp [hi]
  unfold bottomupRecords bottomupForward
  simp only [hper, List.zip_map', List.map_map, Function.comp_def]

/-! ### ground-truth peaks -/

theorem gtParse_eq {τ : Type} (maxInst : Nat) (ms : List (List τ)) (pre : List τ) :
    gtParse maxInst pre.length ms (pre ++ ms.flatten) = ms.map (gtPad maxInst) := by
  induction ms generalizing pre with
  | nil => rfl
  | cons m ms ih =>
    simp only [gtParse, List.map_cons]
    by_cases hc : m.length = 0
    · have hm : m = [] := List.eq_nil_of_length_eq_zero hc
      subst hm
      have := ih pre
      simp only [List.flatten_cons, List.nil_append] at this ⊢
      simp [this, gtPad]
    · rw [if_neg hc]
      have hcur : ((pre ++ (m :: ms).flatten).drop pre.length).take m.length = m := by
        simp [List.flatten_cons]
      have hnext := ih (pre ++ m)
      simp only [List.length_append, List.append_assoc] at hnext
      rw [hcur]
      simp only [List.flatten_cons]
      rw [hnext]
      simp [gtPad]

theorem gtPeaks_eq {τ : Type} (maxInst : Nat) (ms : List (List τ)) :
    gtPeaks maxInst ms = ms.map (gtPad maxInst) := by
  simpa [gtPeaks] using gtParse_eq maxInst ms []

/-! ### chunking -/

theorem flatten_chunksFuel {τ : Type} (B : Nat) (hB : 1 ≤ B) (fuel : Nat) (l : List τ)
    (h : l.length ≤ fuel) : (chunksFuel B fuel l).flatten = l := by
  induction fuel generalizing l with
  | zero =>
    have : l = [] := List.eq_nil_of_length_eq_zero (by omega)
    subst this; rfl
  | succ n ih =>
    cases l with
    | nil => rfl
    | cons x xs =>
      simp only [chunksFuel, List.flatten_cons]
      rw [ih _ (by simp only [List.length_drop, List.length_cons] at h ⊢; omega)]
      exact List.take_append_drop B (x :: xs)

theorem flatten_chunks {τ : Type} (B : Nat) (hB : 1 ≤ B) (l : List τ) : (chunks B l).flatten = l :=
  flatten_chunksFuel B hB l.length l (Nat.le_refl _)

theorem chunksFuel_sizes {τ : Type} (B : Nat) (hB : 1 ≤ B) (fuel : Nat) (l : List τ) :
    ∀ c ∈ chunksFuel B fuel l, c ≠ [] ∧ c.length ≤ B := by
  induction fuel generalizing l with
  | zero => intro c hc; simp [chunksFuel] at hc
  | succ n ih =>
    cases l with
    | nil => intro c hc; simp [chunksFuel] at hc
    | cons x xs =>
      intro c hc
      simp only [chunksFuel, List.mem_cons] at hc
      rcases hc with rfl | hc
      · constructor
        · cases B with
          | zero => omega
          | succ b => simp
        · simp only [List.length_take]; omega
      · exact ih _ c hc

/-! ### top-k -/

theorem sortDesc_perm (l : List (Peak α V)) : (sortDesc l).Perm l := List.mergeSort_perm _ _

end SleapVerif.Decode
