import SleapVerif.Lemmas.GroupingOut
/-! Helper lemmas for C08, part 5: facts about a successful `groupSample` run on a tree skeleton. -/
set_option linter.unusedSectionVars false

namespace SleapVerif.Grouping
open SleapVerif.Toposort

variable {R : Type}

theorem mem_filterMinScore [LE R] [DecidableLE R] {thr : R} {ms : List (Match R)} {m : Match R} :
    m ∈ filterMinScore thr ms ↔ m ∈ ms ∧ ∃ s, m.score = some s ∧ thr ≤ s := by
  unfold filterMinScore
  rw [List.mem_filter]
  constructor
  · rintro ⟨h1, h2⟩
    refine ⟨h1, ?_⟩
    cases hs : m.score with
    | none => simp [hs] at h2
    | some s => simp [hs] at h2; exact ⟨s, rfl, h2⟩
  · rintro ⟨h1, s, hs, hle⟩
    exact ⟨h1, by simp [hs, hle]⟩

theorem filterMinScore_sublist [LE R] [DecidableLE R] (thr : R) (ms : List (Match R)) :
    (filterMinScore thr ms).Sublist ms := List.filter_sublist

section sample
variable [Add R] [Neg R] [LT R] [DecidableLT R] [LE R] [DecidableLE R] [OfNat R 0] [OfNat R 1]

/-- a successful run, taken apart -/
theorem groupSample_ok {fixed : Bool} {lsa : Lsa R} {P : Params R} {ch : List Nat}
    {scores : List (Mat (Option R))} {out : Output R}
    (h : groupSample fixed lsa P ch scores = .ok out) :
    matchAll fixed lsa P ch scores = some out.mts ∧
    out.conns = connections P.edges P.order (out.mts.map (filterMinScore P.minLine)) ∧
    out.assign = assignConnections (pairs out.conns) P.minPeaks P.nNodes ∧
    makeInstances out.conns out.assign P.nNodes = .ok out.insts := by
  unfold groupSample at h
  cases hm : matchAll fixed lsa P ch scores with
  | none => simp [hm] at h
  | some ms =>
    simp only [hm] at h
    cases hk : makeInstances
        (connections P.edges P.order (ms.map (filterMinScore P.minLine)))
        (assignConnections (pairs (connections P.edges P.order (ms.map (filterMinScore P.minLine))))
          P.minPeaks P.nNodes) P.nNodes with
    | error e => simp [hk] at h
    | ok insts =>
      simp only [hk, Except.ok.injEq] at h
      subst h
      exact ⟨rfl, rfl, rfl, hk⟩

/-- the matrix `linear_sum_assignment` receives for cost matrix `C` -/
def lsaInput (fixed : Bool) (C : Mat (Option R)) : Mat (Option R) :=
  if fixed then fillInvalid C else C

/-- the solver contract, assumed only on the matrices this run hands to the solver -/
def LsaOK (fixed : Bool) (lsa : Lsa R) (P : Params R) (ch : List Nat)
    (scores : List (Mat (Option R))) : Prop :=
  ∀ k e, P.edges[k]? = some e → LsaSpecOn lsa (lsaInput fixed (edgeCost ch scores k e))

theorem LsaSpec.ok {lsa : Lsa R} (S : LsaSpec lsa) (fixed : Bool) (P : Params R) (ch : List Nat)
    (scores : List (Mat (Option R))) : LsaOK fixed lsa P ch scores := fun _ _ _ => S _

theorem matchEdge_good {fixed : Bool} {lsa : Lsa R} {C : Mat (Option R)}
    (S : LsaSpecOn lsa (lsaInput fixed C))
    {ms : List (Match R)} (h : matchEdge fixed lsa C = some ms) : GoodMatches C ms := by
  unfold matchEdge at h
  unfold lsaInput at S
  cases fixed with
  | false => exact matchEdgeAsIs_good (by simpa using S) (by simpa using h)
  | true => exact matchEdgeFixed_good (by simpa using S) (by simpa using h)

theorem mts_good {fixed : Bool} {lsa : Lsa R} {P : Params R} {ch : List Nat}
    {scores : List (Mat (Option R))} (S : LsaOK fixed lsa P ch scores) {ms : List (List (Match R))}
    (h : matchAll fixed lsa P ch scores = some ms) {k : Nat} {e : Edge} (he : P.edges[k]? = some e) :
    GoodMatches (edgeCost ch scores k e) (ms.getD k []) :=
  matchEdge_good (S k e he) (matchAll_get h he)

theorem getD_filtered (thr : R) (mts : List (List (Match R))) (k : Nat) :
    (mts.map (filterMinScore thr)).getD k [] = filterMinScore thr (mts.getD k []) :=
  getD_map_filter (filterMinScore thr) rfl mts k

/-- **the connection list handed to the assignment loop has tree shape** -/
theorem treeConns_of_matchAll {fixed : Bool} {lsa : Lsa R} {P : Params R} {r : Nat}
    (A : Arbo P.edges r) (ho : toposort P.edges = some P.order) {ch : List Nat}
    {scores : List (Mat (Option R))} (S : LsaOK fixed lsa P ch scores) {ms : List (List (Match R))}
    (hm : matchAll fixed lsa P ch scores = some ms) :
    TreeConns (pairs (connections P.edges P.order (ms.map (filterMinScore P.minLine)))) := by
  rw [pairs_connections A ho]
  apply treeConns_flatMap (bfsOut_edgeOrderOK A.toTreeLike)
  intro e he
  have I := binv_run A.toTreeLike (P.edges.length + 1) (binv_init P.edges r)
  have hE : e ∈ P.edges := out_sub I e he
  have hlt := List.idxOf_lt_length_of_mem hE
  have hk : P.edges[P.edges.idxOf e]? = some e := by
    rw [List.getElem?_eq_getElem hlt, List.getElem_idxOf hlt]
  have good := mts_good S hm hk
  rw [getD_filtered]
  refine OneToOne.sublist ?_ good.oneToOne
  exact ((List.filter_sublist).trans (filterMinScore_sublist _ _)).map _

theorem treeConns_out {fixed : Bool} {lsa : Lsa R} {P : Params R} {r : Nat}
    (A : Arbo P.edges r) (ho : toposort P.edges = some P.order) {ch : List Nat}
    {scores : List (Mat (Option R))} (S : LsaOK fixed lsa P ch scores) {out : Output R}
    (h : groupSample fixed lsa P ch scores = .ok out) : TreeConns (pairs out.conns) := by
  obtain ⟨hm, hc, _, _⟩ := groupSample_ok h
  rw [hc]
  exact treeConns_of_matchAll A ho S hm

/-- every accepted connection is a match of its edge type with score ≥ the minimum, and its peak
    indices exist among the detected peaks of the two node types -/
theorem conn_facts {fixed : Bool} {lsa : Lsa R} {P : Params R} {ch : List Nat}
    {scores : List (Mat (Option R))} (S : LsaOK fixed lsa P ch scores) {out : Output R}
    (h : groupSample fixed lsa P ch scores = .ok out) {c : Conn R} (hc : c ∈ out.conns) :
    ∃ k e m, k ∈ P.order ∧ P.edges[k]? = some e ∧ m ∈ out.mts.getD k [] ∧ m.score = some c.score ∧
      P.minLine ≤ c.score ∧ c.src = (e.1, m.row) ∧ c.dst = (e.2, m.col) ∧
      m.row < (nodePeaks ch e.1).length ∧ m.col < (nodePeaks ch e.2).length := by
  obtain ⟨hm, hcs, _, _⟩ := groupSample_ok h
  rw [hcs] at hc
  obtain ⟨k, e, m, hk, he, hmem, hs, h1, h2⟩ := mem_connections hc
  rw [getD_filtered] at hmem
  obtain ⟨hmem', s, hs', hle⟩ := mem_filterMinScore.mp hmem
  have hsc : s = c.score := by rw [hs] at hs'; exact (Option.some.inj hs').symm
  have good := mts_good S hm he
  have hr := good.inRange m hmem'
  have hd := dims_costMatrix ch e (scores.getD k [])
  refine ⟨k, e, m, hk, he, hmem', hs, hsc ▸ hle, h1, h2, ?_, ?_⟩
  · exact Nat.lt_of_lt_of_le hr.1 hd.1
  · exact Nat.lt_of_lt_of_le hr.2 hd.2

theorem groupBatch_total {fixed : Bool} {lsa : Lsa R} {P : Params R}
    (samples : List (List Nat × List (Mat (Option R))))
    (h : ∀ s ∈ samples, ∃ out, groupSample fixed lsa P s.1 s.2 = .ok out) :
    ∃ outs, groupBatch fixed lsa P samples = .ok outs ∧ outs.length = samples.length := by
  unfold groupBatch
  induction samples with
  | nil => exact ⟨[], rfl, rfl⟩
  | cons s rest ih =>
    obtain ⟨o, ho⟩ := h s (by simp)
    obtain ⟨os, hos, hl⟩ := ih (fun x hx => h x (by simp [hx]))
    refine ⟨o :: os, ?_, by simp [hl]⟩
    simp only [List.mapM_cons, ho, hos]
    rfl

end sample

/-- in an arborescence every edge index occurs in C17's order -/
theorem mem_order_of_edge {edges : List Edge} {r : Nat} (A : Arbo edges r) {order : List Nat}
    (ho : toposort edges = some order) {k : Nat} {e : Edge} (he : edges[k]? = some e) : k ∈ order := by
  have hne : edges ≠ [] := by
    intro h0; subst h0; simp at he
  have ho' : order = (bfsOut edges r).map (fun e => edges.idxOf e) := by
    simp [toposort, arbo_rootOf A hne] at ho; exact ho.symm
  obtain ⟨hk, hek⟩ := List.getElem?_eq_some_iff.mp he
  have hE : e ∈ edges := hek ▸ List.getElem_mem hk
  have hout := arbo_all_emitted A e hE
  rw [ho']
  refine List.mem_map.mpr ⟨e, hout, ?_⟩
  rw [← hek]
  exact A.nodup.idxOf_getElem k hk

end SleapVerif.Grouping
