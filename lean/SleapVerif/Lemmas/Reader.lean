import SleapVerif.Model.Reader
/-!
# Helper lemmas for C13: the inductive invariant of the reader/consumer system, progress,
the decreasing measure and the batch-shape invariant.  Core Lean only.
-/
namespace SleapVerif.Reader

/-! ### arithmetic of the delivered range -/

theorem start_le_stopIdx (P : Params) : P.start ≤ stopIdx P := by
  unfold stopIdx; split <;> (try split) <;> omega

theorem stopIdx_le_max (P : Params) : stopIdx P ≤ max P.start P.stop := by
  unfold stopIdx; split <;> (try split) <;> omega

theorem stopIdx_of_fail (P : Params) (i : Nat) (h1 : P.start ≤ i) (h2 : i < P.stop)
    (hf : P.fail = some i) : stopIdx P = i := by
  unfold stopIdx; rw [hf]; simp [h1, h2]

/-- a position inside the loop that does not fail is strictly before the cut -/
theorem lt_stopIdx_of_ok (P : Params) (i : Nat) (h2 : i ≤ stopIdx P) (h3 : i < P.stop)
    (hf : P.fail ≠ some i) : i < stopIdx P := by
  unfold stopIdx at *
  cases hfl : P.fail with
  | none => simp only [hfl] at *; omega
  | some k =>
    simp only [hfl] at *
    have hk : k ≠ i := fun e => hf (by rw [e])
    by_cases hin : P.start ≤ k ∧ k < P.stop
    · rw [if_pos hin] at *; omega
    · rw [if_neg hin] at *; omega

theorem idxUpto_succ (P : Params) (i : Nat) (h : P.start ≤ i) :
    idxUpto P i ++ [i] = idxUpto P (i+1) := by
  unfold idxUpto
  have : i + 1 - P.start = (i - P.start) + 1 := by omega
  rw [this, List.range'_concat]; simp; omega

theorem upto_succ (P : Params) (i : Nat) (h : P.start ≤ i) :
    upto P i ++ [P.pay i] = upto P (i+1) := by
  unfold upto; rw [← idxUpto_succ P i h]; simp

theorem upto_start (P : Params) : upto P P.start = [] := by simp [upto, idxUpto]

/-! ### queue contents -/

def allFrames (q : List Item) : Prop := q = (framesOf q).map Item.frame

theorem framesOf_append (a b : List Item) : framesOf (a ++ b) = framesOf a ++ framesOf b := by
  induction a with
  | nil => rfl
  | cons x r ih => cases x <;> simp [framesOf, ih]

theorem framesOf_map (fs : List Payload) : framesOf (fs.map Item.frame) = fs := by
  induction fs with
  | nil => rfl
  | cons x r ih => simp [framesOf, ih]

theorem allFrames_append_frame {q : List Item} (h : allFrames q) (x : Payload) :
    allFrames (q ++ [Item.frame x]) := by
  unfold allFrames at *
  rw [framesOf_append, List.map_append, ← h]; simp [framesOf]

theorem allFrames_cons_frame {x : Payload} {q : List Item} (h : allFrames (Item.frame x :: q)) :
    allFrames q := by
  unfold allFrames at *
  simp [framesOf] at h; exact h

theorem not_allFrames_sentinel {q : List Item} : ¬ allFrames (Item.sentinel :: q) := by
  unfold allFrames; cases h : framesOf (Item.sentinel :: q) <;> simp

/-! ### the invariant -/

/-- ghost history = frames delivered so far, plus the marker once the consumer has seen it -/
def takenSpec (s : St) : List Item :=
  (delivered s).map Item.frame ++ (if s.c = .getting then [] else [Item.sentinel])

structure RInv (P : Params) (s : St) : Prop where
  capOk : P.cap = 0 ∨ s.q.length ≤ P.cap
  batchLt : s.batch.length < P.B
  takenOk : s.taken = takenSpec s
  main : match s.p with
    | .reading i => P.start ≤ i ∧ i < P.stop ∧ i ≤ stopIdx P ∧ s.c = .getting ∧ allFrames s.q ∧
        delivered s ++ framesOf s.q = upto P i
    | .putting i x => P.start ≤ i ∧ i < P.stop ∧ i < stopIdx P ∧ x = P.pay i ∧ s.c = .getting ∧
        allFrames s.q ∧ delivered s ++ framesOf s.q = upto P i
    | .putSent => s.c = .getting ∧ allFrames s.q ∧
        delivered s ++ framesOf s.q = expected P
    | .done => (s.c = .getting ∧ ∃ fs, s.q = fs.map Item.frame ++ [Item.sentinel] ∧
                  delivered s ++ fs = expected P)
               ∨ (s.c ≠ .getting ∧ s.q = [] ∧ s.batch = [] ∧ s.out.flatten = expected P)

/-- invariant clause for the loop head `loopPc P i` (reached with everything before `i` produced) -/
theorem inv_loopPc (P : Params) (s : St) (i : Nat) (h1 : P.start ≤ i) (h2 : i ≤ stopIdx P)
    (hc : s.c = .getting) (hq : allFrames s.q) (hd : delivered s ++ framesOf s.q = upto P i)
    (hp : s.p = loopPc P i) :
    match s.p with
    | .reading i => P.start ≤ i ∧ i < P.stop ∧ i ≤ stopIdx P ∧ s.c = .getting ∧ allFrames s.q ∧
        delivered s ++ framesOf s.q = upto P i
    | .putting i x => P.start ≤ i ∧ i < P.stop ∧ i < stopIdx P ∧ x = P.pay i ∧ s.c = .getting ∧
        allFrames s.q ∧ delivered s ++ framesOf s.q = upto P i
    | .putSent => s.c = .getting ∧ allFrames s.q ∧
        delivered s ++ framesOf s.q = expected P
    | .done => (s.c = .getting ∧ ∃ fs, s.q = fs.map Item.frame ++ [Item.sentinel] ∧
                  delivered s ++ fs = expected P)
               ∨ (s.c ≠ .getting ∧ s.q = [] ∧ s.batch = [] ∧ s.out.flatten = expected P) := by
  rw [hp]; unfold loopPc
  by_cases hlt : i < P.stop
  · rw [if_pos hlt]; exact ⟨h1, hlt, h2, hc, hq, hd⟩
  · rw [if_neg hlt]
    have hmax := stopIdx_le_max P
    have e : i = stopIdx P := by omega
    refine ⟨hc, hq, ?_⟩
    unfold expected; rw [← e]; exact hd

theorem inv_init (P : Params) (hB : 0 < P.B) : RInv P (init P) := by
  refine ⟨by simp [init], by simpa [init] using hB, by simp [init, takenSpec, delivered], ?_⟩
  exact inv_loopPc P (init P) P.start (Nat.le_refl _) (start_le_stopIdx P) rfl
    (by simp [init, allFrames, framesOf])
    (by simp [init, delivered, framesOf, upto_start]) rfl

theorem inv_stepP (P : Params) (s s' : St) (h : RInv P s) (hs : stepP P s = some s') :
    RInv P s' := by
  obtain ⟨hc, hb, ht, hm⟩ := h
  unfold stepP at hs
  cases hp : s.p with
  | reading i =>
    simp only [hp] at hs hm
    obtain ⟨h1, h2, h3, h4, h5, h6⟩ := hm
    by_cases hf : P.fail = some i
    · rw [if_pos hf] at hs; injection hs with hs; subst hs
      refine ⟨hc, hb, ht, ?_⟩
      have e := stopIdx_of_fail P i h1 h2 hf
      simp only; unfold expected; rw [e]; exact ⟨h4, h5, h6⟩
    · rw [if_neg hf] at hs; injection hs with hs; subst hs
      refine ⟨hc, hb, ht, ?_⟩
      simp only; exact ⟨h1, h2, lt_stopIdx_of_ok P i h3 h2 hf, trivial, h4, h5, h6⟩
  | putting i x =>
    simp only [hp] at hs hm
    obtain ⟨h1, h2, h3, hx, h4, h5, h6⟩ := hm
    by_cases hl : canPut P s
    · rw [if_pos hl] at hs; injection hs with hs; subst hs
      refine ⟨?_, hb, ?_, ?_⟩
      · unfold canPut at hl; simp; omega
      · simpa [takenSpec, delivered] using ht
      · refine inv_loopPc P _ (i+1) (by omega) (by omega) h4 (allFrames_append_frame h5 x) ?_ rfl
        show delivered s ++ framesOf (s.q ++ [Item.frame x]) = _
        rw [framesOf_append, ← List.append_assoc, h6, hx]
        simpa [framesOf] using upto_succ P i h1
    · rw [if_neg hl] at hs; cases hs
  | putSent =>
    simp only [hp] at hs hm
    obtain ⟨h3, h4, h5⟩ := hm
    by_cases hl : canPut P s
    · rw [if_pos hl] at hs; injection hs with hs; subst hs
      refine ⟨?_, hb, ?_, ?_⟩
      · unfold canPut at hl; simp; omega
      · simpa [takenSpec, delivered] using ht
      · simp only
        left
        refine ⟨h3, framesOf s.q, ?_, h5⟩
        rw [← h4]
    · rw [if_neg hl] at hs; cases hs
  | done => simp [hp] at hs

/-- what one `get` of a frame does to `delivered` -/
theorem delivered_get (B : Nat) (s : St) (x : Payload) (q' : List Item) (t : List Item) :
    let b := s.batch ++ [x]
    delivered (if b.length = B then { s with q := q', batch := [], out := s.out ++ [b], taken := t }
               else { s with q := q', batch := b, taken := t }) = delivered s ++ [x] := by
  intro b
  split <;> simp [delivered, b]

theorem inv_stepC (P : Params) (hB : 0 < P.B) (s s' : St) (h : RInv P s)
    (hs : stepC P s = some s') : RInv P s' := by
  obtain ⟨hc, hb, ht, hm⟩ := h
  unfold stepC at hs
  cases hcp : s.c with
  | finished => simp [hcp] at hs
  | joining =>
    simp only [hcp] at hs
    by_cases hd : s.p = .done
    · rw [if_pos hd] at hs; injection hs with hs; subst hs
      refine ⟨hc, hb, ?_, ?_⟩
      · simpa [takenSpec, delivered, hcp] using ht
      · simp only [hd] at hm ⊢
        rcases hm with ⟨h3, _⟩ | ⟨_, h4, h5, h6⟩
        · rw [hcp] at h3; cases h3
        · right; exact ⟨by simp, h4, h5, h6⟩
    · rw [if_neg hd] at hs; cases hs
  | getting =>
    simp only [hcp] at hs
    cases hq : s.q with
    | nil => simp [hq] at hs
    | cons it q' =>
      simp only [hq] at hs
      cases it with
      | frame x =>
        simp only at hs
        have hcap : P.cap = 0 ∨ q'.length ≤ P.cap := by rw [hq] at hc; simp at hc; omega
        have hdel : delivered s' = delivered s ++ [x] := by
          have := delivered_get P.B s x q' (s.taken ++ [Item.frame x])
          simp only at this
          split at hs <;> injection hs with hs <;> subst hs <;> simp_all
        have hq' : s'.q = q' := by split at hs <;> injection hs with hs <;> subst hs <;> rfl
        have hp' : s'.p = s.p := by split at hs <;> injection hs with hs <;> subst hs <;> rfl
        have hc' : s'.c = .getting := by
          split at hs <;> injection hs with hs <;> subst hs <;> simp
        have ht' : s'.taken = s.taken ++ [Item.frame x] := by
          split at hs <;> injection hs with hs <;> subst hs <;> rfl
        have hb' : s'.batch.length < P.B := by
          split at hs <;> injection hs with hs <;> subst hs
          · simpa using hB
          · rename_i hne; simp at hne ⊢; omega
        refine ⟨by rw [hq']; exact hcap, hb', ?_, ?_⟩
        · rw [ht', ht]; simp [takenSpec, hdel, hc', hcp]
        rw [hp', hq', hdel, hc']
        rw [hq] at hm
        cases hp : s.p with
        | reading j =>
          simp only [hp] at hm ⊢
          obtain ⟨h1, h2, h3, _, h5, h6⟩ := hm
          refine ⟨h1, h2, h3, trivial, allFrames_cons_frame h5, ?_⟩
          simpa [framesOf] using h6
        | putting j y =>
          simp only [hp] at hm ⊢
          obtain ⟨h1, h2, h3, hy, _, h5, h6⟩ := hm
          refine ⟨h1, h2, h3, hy, trivial, allFrames_cons_frame h5, ?_⟩
          simpa [framesOf] using h6
        | putSent =>
          simp only [hp] at hm ⊢
          obtain ⟨_, h4, h5⟩ := hm
          refine ⟨trivial, allFrames_cons_frame h4, ?_⟩
          simpa [framesOf] using h5
        | done =>
          simp only [hp] at hm ⊢
          rcases hm with ⟨_, fs, h4, h5⟩ | ⟨h3, _⟩
          · left
            refine ⟨trivial, ?_⟩
            cases fs with
            | nil => simp at h4
            | cons f fs' =>
              simp at h4
              obtain ⟨rfl, h4⟩ := h4
              exact ⟨fs', h4, by simpa using h5⟩
          · exact absurd hcp h3
      | sentinel =>
        simp only at hs
        injection hs with hs; subst hs
        rw [hq] at hm
        cases hp : s.p with
        | reading j => simp only [hp] at hm; exact absurd hm.2.2.2.2.1 not_allFrames_sentinel
        | putting j y => simp only [hp] at hm; exact absurd hm.2.2.2.2.2.1 not_allFrames_sentinel
        | putSent => simp only [hp] at hm; exact absurd hm.2.1 not_allFrames_sentinel
        | done =>
          simp only [hp] at hm
          rcases hm with ⟨_, fs, h4, h5⟩ | ⟨h3, _⟩
          · cases fs with
            | cons f fs' => simp at h4
            | nil =>
              simp at h4 h5
              have hflat : (if s.batch = [] then s.out else s.out ++ [s.batch]).flatten
                  = delivered s := by
                by_cases hbn : s.batch = [] <;> simp [delivered, hbn]
              refine ⟨by simp [h4], by simpa using hB, ?_, ?_⟩
              · simp only [takenSpec, delivered, List.append_nil, hflat]
                rw [ht]; simp [takenSpec, hcp, delivered]
              · show _ ∨ _
                right
                refine ⟨by simp, h4, rfl, ?_⟩
                rw [hflat, h5]
          · exact absurd hcp h3

theorem reach_inv (P : Params) (hB : 0 < P.B) {s : St} (h : Reach P s) : RInv P s := by
  induction h with
  | init => exact inv_init P hB
  | step _ st ih =>
    cases st with
    | prod e => exact inv_stepP P _ _ ih e
    | cons e => exact inv_stepC P hB _ _ ih e

/-! ### progress -/

theorem consumer_enabled_of_nonempty (P : Params) (s : St) (hc : s.c = .getting) (hq : s.q ≠ []) :
    (stepC P s).isSome := by
  obtain ⟨x, r, hq⟩ := List.exists_cons_of_ne_nil hq
  simp only [stepC, hc, hq]
  cases x <;> simp <;> split <;> rfl

theorem nonempty_of_not_canPut (P : Params) (s : St) (h : ¬ canPut P s) : s.q ≠ [] := by
  intro e; unfold canPut at h; rw [e] at h; simp only [List.length_nil] at h; omega

theorem no_deadlock (P : Params) (s : St) (h : RInv P s) :
    (stepP P s).isSome ∨ (stepC P s).isSome ∨ isFinal s := by
  obtain ⟨hc, hb, ht, hm⟩ := h
  cases hp : s.p with
  | reading i => left; by_cases hf : P.fail = some i <;> simp [stepP, hp, hf]
  | putting i x =>
    simp only [hp] at hm
    by_cases hl : canPut P s
    · left; simp [stepP, hp, hl]
    · right; left
      exact consumer_enabled_of_nonempty P s hm.2.2.2.2.1 (nonempty_of_not_canPut P s hl)
  | putSent =>
    simp only [hp] at hm
    by_cases hl : canPut P s
    · left; simp [stepP, hp, hl]
    · right; left
      exact consumer_enabled_of_nonempty P s hm.1 (nonempty_of_not_canPut P s hl)
  | done =>
    simp only [hp] at hm
    rcases hm with ⟨h3, fs, h4, _⟩ | ⟨h3, h4, _⟩
    · right; left
      exact consumer_enabled_of_nonempty P s h3 (by rw [h4]; simp)
    · cases hcp : s.c with
      | getting => exact absurd hcp h3
      | joining => right; left; simp [stepC, hcp, hp]
      | finished => right; right; exact ⟨hp, hcp, h4⟩

/-! ### termination measure (needs no invariant) -/

theorem mu_decreases (P : Params) (s s' : St) (st : Step P s s') : mu P s' < mu P s := by
  cases st with
  | prod e =>
    unfold stepP at e
    cases hp : s.p with
    | reading i =>
      simp only [hp] at e
      split at e <;> injection e with e <;> subst e <;> simp [mu, pcRank, hp]
    | putting i x =>
      simp only [hp] at e
      split at e
      · injection e with e; subst e
        by_cases hlt : i + 1 < P.stop <;> simp [mu, pcRank, hp, loopPc, hlt] <;> omega
      · cases e
    | putSent =>
      simp only [hp] at e
      split at e
      · injection e with e; subst e; simp [mu, pcRank, hp]; omega
      · cases e
    | done => simp [hp] at e
  | cons e =>
    unfold stepC at e
    cases hcp : s.c with
    | finished => simp [hcp] at e
    | joining =>
      simp only [hcp] at e
      split at e
      · injection e with e; subst e; simp [mu, cRank, hcp]
      · cases e
    | getting =>
      simp only [hcp] at e
      cases hq : s.q with
      | nil => simp [hq] at e
      | cons x q' =>
        simp only [hq] at e
        cases x with
        | frame i =>
          simp only at e
          split at e <;> injection e with e <;> subst e <;> simp [mu, hq, cRank, hcp]
        | sentinel =>
          simp only at e
          injection e with e; subst e; simp [mu, hq, cRank, hcp]

/-! ### the scheduler run -/

theorem pick_step (P : Params) (s s' : St) (w who : Bool) (h : pick P s w = some (who, s')) :
    Step P s s' := by
  unfold pick at h
  split at h
  · cases hp : stepP P s with
    | some t => simp [hp] at h; exact .prod (h.2 ▸ hp)
    | none =>
      simp [hp] at h
      exact .cons h.1
  · cases hc : stepC P s with
    | some t => simp [hc] at h; exact .cons (h.2 ▸ hc)
    | none =>
      simp [hc] at h
      exact .prod h.1

theorem pick_none (P : Params) (s : St) (w : Bool) (h : pick P s w = none) :
    stepP P s = none ∧ stepC P s = none := by
  unfold pick at h
  split at h
  · cases hp : stepP P s with
    | some t => simp [hp] at h
    | none => simp [hp] at h; exact ⟨rfl, h⟩
  · cases hc : stepC P s with
    | some t => simp [hc] at h
    | none => simp [hc] at h; exact ⟨h, rfl⟩

theorem run_reach (P : Params) (sched : Nat → Bool) (fuel : Nat) :
    ∀ (t : Nat) (s : St), Reach P s → Reach P (run P sched t fuel s).2 := by
  induction fuel with
  | zero => intro t s h; exact h
  | succ n ih =>
    intro t s h
    unfold run
    cases hp : pick P s (sched t) with
    | none => exact h
    | some r =>
      obtain ⟨who, s'⟩ := r
      exact ih (t+1) s' (.step h (pick_step P s s' _ who hp))

theorem run_final (P : Params) (hB : 0 < P.B) (sched : Nat → Bool) (fuel : Nat) :
    ∀ (t : Nat) (s : St), Reach P s → mu P s ≤ fuel → isFinal (run P sched t fuel s).2 := by
  induction fuel with
  | zero =>
    intro t s h hm
    have I := reach_inv P hB h
    rcases no_deadlock P s I with hp | hc | hf
    · obtain ⟨s', hs⟩ := Option.isSome_iff_exists.mp hp
      have := mu_decreases P s s' (.prod hs); omega
    · obtain ⟨s', hs⟩ := Option.isSome_iff_exists.mp hc
      have := mu_decreases P s s' (.cons hs); omega
    · exact hf
  | succ n ih =>
    intro t s h hm
    unfold run
    cases hp : pick P s (sched t) with
    | none =>
      obtain ⟨h1, h2⟩ := pick_none P s _ hp
      have I := reach_inv P hB h
      rcases no_deadlock P s I with hp' | hc' | hf
      · rw [h1] at hp'; cases hp'
      · rw [h2] at hc'; cases hc'
      · exact hf
    | some r =>
      obtain ⟨who, s'⟩ := r
      have st := pick_step P s s' _ who hp
      have := mu_decreases P s s' st
      exact ih (t+1) s' (.step h st) (by omega)

/-! ### shape of the batches -/

/-- while getting every emitted batch is full; afterwards all but the last are full and the last
    is non-empty and at most `B` long -/
structure BInv (P : Params) (s : St) : Prop where
  full : s.c = .getting → ∀ b ∈ s.out, b.length = P.B
  last : s.c ≠ .getting → (∀ b ∈ s.out.dropLast, b.length = P.B) ∧
                          (∀ b ∈ s.out, 0 < b.length ∧ b.length ≤ P.B)

theorem binv_init (P : Params) : BInv P (init P) := by
  constructor <;> simp [init]

theorem stepP_frame (P : Params) (s s' : St) (hs : stepP P s = some s') :
    s'.c = s.c ∧ s'.out = s.out ∧ s'.batch = s.batch := by
  unfold stepP at hs
  split at hs
  · split at hs <;> injection hs with hs <;> subst hs <;> simp
  · split at hs
    · injection hs with hs; subst hs; simp
    · cases hs
  · split at hs
    · injection hs with hs; subst hs; simp
    · cases hs
  · cases hs

theorem binv_step (P : Params) (hB : 0 < P.B) (s s' : St) (hb : s.batch.length < P.B)
    (h : BInv P s) (st : Step P s s') : BInv P s' := by
  cases st with
  | prod e =>
    obtain ⟨h1, h2, _⟩ := stepP_frame P s s' e
    constructor
    · rw [h1, h2]; exact h.full
    · rw [h1, h2]; exact h.last
  | cons e =>
    unfold stepC at e
    cases hcp : s.c with
    | finished => simp [hcp] at e
    | joining =>
      simp only [hcp] at e
      split at e
      · injection e with e; subst e
        constructor
        · intro hc; simp at hc
        · intro _; exact h.last (by simp [hcp])
      · cases e
    | getting =>
      simp only [hcp] at e
      have hfull := h.full hcp
      cases hq : s.q with
      | nil => simp [hq] at e
      | cons x q' =>
        simp only [hq] at e
        cases x with
        | frame y =>
          simp only at e
          split at e
          · rename_i hlen
            injection e with e; subst e
            constructor
            · intro _ b hbm
              simp at hbm
              rcases hbm with hbm | rfl
              · exact hfull b hbm
              · exact hlen
            · intro hc; simp at hc
          · injection e with e; subst e
            constructor
            · intro _; exact hfull
            · intro hc; simp at hc
        | sentinel =>
          simp only at e
          injection e with e; subst e
          constructor
          · intro hc; simp at hc
          · intro _
            by_cases hbn : s.batch = []
            · simp only [hbn, if_true]
              refine ⟨fun b hbm => hfull b (List.dropLast_subset _ hbm), ?_⟩
              intro b hbm; have := hfull b hbm; omega
            · simp only [hbn, if_false]
              refine ⟨by simpa using hfull, ?_⟩
              intro b hbm
              simp at hbm
              rcases hbm with hbm | rfl
              · have := hfull b hbm; omega
              · have : 0 < s.batch.length := List.length_pos_iff.mpr hbn
                omega

theorem reach_binv (P : Params) (hB : 0 < P.B) {s : St} (h : Reach P s) : BInv P s := by
  induction h with
  | init => exact binv_init P
  | step hr st ih => exact binv_step P hB _ _ (reach_inv P hB hr).batchLt ih st

/-- a list of chunks, all of length `B` except a shorter non-empty last one, is the chunking of
    its concatenation: the `j`-th chunk is elements `j*B … j*B+B-1` -/
theorem chunk_getElem {α} (B : Nat) (L : List (List α))
    (hfull : ∀ b ∈ L.dropLast, b.length = B) (hall : ∀ b ∈ L, 0 < b.length ∧ b.length ≤ B) :
    ∀ (j : Nat) (hj : j < L.length), L[j] = (L.flatten.drop (j * B)).take B := by
  induction L with
  | nil => intro j hj; simp at hj
  | cons b r ih =>
    intro j hj
    cases r with
    | nil =>
      have : j = 0 := by simp at hj; omega
      subst this
      have := (hall b (by simp)).2
      simp [List.take_of_length_le this]
    | cons b' r' =>
      have hb : b.length = B := hfull b (by simp [List.dropLast])
      have ih' := ih (fun x hx => hfull x (by simp [List.dropLast]; right; simpa using hx))
        (fun x hx => hall x (List.mem_cons_of_mem _ hx))
      cases j with
      | zero => simp [← hb]
      | succ k =>
        have hk : k < (b' :: r').length := by simp at hj ⊢; omega
        have := ih' k hk
        simp only [List.getElem_cons_succ, List.flatten_cons] at this ⊢
        rw [this]
        have e : (k + 1) * B = b.length + k * B := by rw [hb, Nat.succ_mul]; omega
        rw [e, List.drop_length_add_append]

theorem chunk_count {α} (B : Nat) (hB : 0 < B) (L : List (List α))
    (hfull : ∀ b ∈ L.dropLast, b.length = B) (hall : ∀ b ∈ L, 0 < b.length ∧ b.length ≤ B) :
    L.length = (L.flatten.length + B - 1) / B := by
  induction L with
  | nil => simp; exact (Nat.div_eq_of_lt (by omega)).symm
  | cons b r ih =>
    cases r with
    | nil =>
      have := hall b (by simp)
      simp
      have h1 : (b.length + B - 1) / B = 1 := by
        apply Nat.div_eq_of_lt_le <;> omega
      omega
    | cons b' r' =>
      have hb : b.length = B := hfull b (by simp [List.dropLast])
      have ih' := ih (fun x hx => hfull x (by simp [List.dropLast]; right; simpa using hx))
        (fun x hx => hall x (List.mem_cons_of_mem _ hx))
      simp only [List.length_cons, List.flatten_cons, List.length_append] at ih' ⊢
      rw [ih', hb]
      have : B + (b'.length + r'.flatten.length) + B - 1 = (b'.length + r'.flatten.length + B - 1) + B := by
        omega
      rw [this, Nat.add_div_right _ hB]

/-! ### finite runs -/

/-- `Steps P n s s'`: `s'` is reached from `s` by exactly `n` transitions -/
inductive Steps (P : Params) : Nat → St → St → Prop
  | refl (s) : Steps P 0 s s
  | cons {n s s' s''} : Step P s s' → Steps P n s' s'' → Steps P (n+1) s s''

theorem steps_bound (P : Params) {n : Nat} {s s' : St} (h : Steps P n s s') :
    n + mu P s' ≤ mu P s := by
  induction h with
  | refl s => simp
  | cons st _ ih => have := mu_decreases P _ _ st; omega

theorem steps_reach (P : Params) {n : Nat} {s s' : St} (h : Steps P n s s') (hr : Reach P s) :
    Reach P s' := by
  induction h with
  | refl s => exact hr
  | cons st _ ih => exact ih (.step hr st)

/-! ### prefixes of the expected sequence, position of the marker -/

theorem upto_prefix (P : Params) (i : Nat) (h1 : P.start ≤ i) (h2 : i ≤ stopIdx P) :
    upto P i <+: expected P := by
  unfold expected upto idxUpto
  have e : stopIdx P - P.start = (i - P.start) + (stopIdx P - i) := by omega
  rw [e, ← List.range'_append_1, List.map_append]
  exact List.prefix_append _ _

theorem count_sentinel_map (fs : List Payload) : (fs.map Item.frame).count Item.sentinel = 0 := by
  induction fs with
  | nil => rfl
  | cons x r ih => simp [ih]

theorem allFrames_count {q : List Item} (h : allFrames q) : q.count Item.sentinel = 0 := by
  unfold allFrames at h; rw [h]; exact count_sentinel_map _

theorem expected_length (P : Params) : (expected P).length = stopIdx P - P.start := by
  simp [expected, upto, idxUpto]

theorem expected_getElem (P : Params) (j : Nat) (hj : j < (expected P).length) :
    (expected P)[j] = P.pay (P.start + j) := by
  simp [expected, upto, idxUpto]

end SleapVerif.Reader
