import SleapVerif.Lemmas.ArchTable
/-! UNet table, filters = 16: `decide +kernel` over the certified rows (the quantifier IS the table). -/
namespace SleapVerif.Arch
theorem tableUnet_16_r1 : tableUnet 16 ⟨1, 1⟩ = true := by decide +kernel
theorem tableUnet_16_r32 : tableUnet 16 ⟨3, 2⟩ = true := by decide +kernel
theorem tableUnet_16_r2 : tableUnet 16 ⟨2, 1⟩ = true := by decide +kernel
theorem tableUnetCpb1_16 : tableUnetCpb1 16 = true := by decide +kernel
end SleapVerif.Arch
