import SleapVerif.Lemmas.ConfigTree
/-!
# Lemmas about the augmentation loop of `get_aug_config` (repaired and as-is) — core Lean only
-/
namespace SleapVerif.Config

/-- closed form of the repaired loop body: a parameter is enabled iff its name occurs -/
def geoClosed (d acc : Geo) (l : List GeoName) : Geo :=
  { rotation := if GeoName.rotation ∈ l then d.rotation else acc.rotation
    scale := if GeoName.scale ∈ l then pair d09 d11 else acc.scale
    tw := if GeoName.translate ∈ l then fl d02 else acc.tw
    th := if GeoName.translate ∈ l then fl d02 else acc.th
    affineP := acc.affineP
    eraseP := if GeoName.eraseScale ∈ l then fl 1 else acc.eraseP
    mixupP := if GeoName.mixup ∈ l then fl 1 else acc.mixupP }

theorem foldl_geoStep (d : Geo) (l : List GeoName) : ∀ acc, l.foldl (geoStep d) acc = geoClosed d acc l := by
  induction l with
  | nil => intro acc; simp [geoClosed]
  | cons x t ih =>
    intro acc
    rw [List.foldl_cons, ih]
    cases x <;> simp [geoClosed, geoStep, List.mem_cons]

theorem geoLoop_eq (g : Geo) (l : List GeoName) : geoLoop g l = geoClosed g (geoPre g l) l := by
  unfold geoLoop; rw [foldl_geoStep]

theorem any_isAffine_iff (l : List GeoName) :
    l.any GeoName.isAffine = true ↔ GeoName.rotation ∈ l ∨ GeoName.scale ∈ l ∨ GeoName.translate ∈ l := by
  rw [List.any_eq_true]
  constructor
  · rintro ⟨x, hx, ha⟩
    cases x <;> simp_all [GeoName.isAffine]
  · rintro (h | h | h)
    · exact ⟨_, h, rfl⟩
    · exact ⟨_, h, rfl⟩
    · exact ⟨_, h, rfl⟩

theorem geoLoop_perm (g : Geo) {l l' : List GeoName} (h : l.Perm l') : geoLoop g l = geoLoop g l' := by
  rw [geoLoop_eq, geoLoop_eq]
  have hp : geoPre g l = geoPre g l' := by unfold geoPre; rw [h.any_eq]
  rw [hp]
  unfold geoClosed
  simp only [h.mem_iff]

/-! ### names as strings -/

theorem parseAll_eq {α} (p : String → Option α) (l : List String) :
    parseAll p l = if l.all (fun s => (p s).isSome) then some (l.filterMap p) else none := by
  induction l with
  | nil => simp [parseAll]
  | cons s r ih =>
    rw [parseAll, ih]
    cases hp : p s with
    | none => simp [hp]
    | some a =>
      by_cases hall : (r.all fun s => (p s).isSome) = true
      · simp [hp, hall]
      · simp [hp, hall]

theorem parseAll_perm {α} (p : String → Option α) {l l' : List String} (h : l.Perm l') :
    (parseAll p l = none ∧ parseAll p l' = none) ∨
      ∃ ns ns', parseAll p l = some ns ∧ parseAll p l' = some ns' ∧ ns.Perm ns' := by
  rw [parseAll_eq, parseAll_eq, ← h.all_eq]
  by_cases hall : (l.all fun s => (p s).isSome) = true
  · right; exact ⟨_, _, by simp [hall], by simp [hall], h.filterMap p⟩
  · left; simp [hall]

theorem augGeometric_perm (env : Env) (dflt : Cfg) {l l' : List String} (h : l.Perm l') :
    augGeometric .fixed env dflt (.names l) = augGeometric .fixed env dflt (.names l') := by
  rcases parseAll_perm GeoName.parse h with ⟨h1, h2⟩ | ⟨ns, ns', h1, h2, hp⟩
  · simp only [augGeometric, h1, h2]
  · simp only [augGeometric, h1, h2]
    rw [hp.isEmpty_eq]
    have hg : ∀ g, geoLoop g ns = geoLoop g ns' := fun g => geoLoop_perm g hp
    simp only [hg]

/-! ### intensity loop -/

theorem intStep_comm (kvs : Kvs) (a b : IntName) : intStep (intStep kvs a) b = intStep (intStep kvs b) a := by
  unfold intStep
  by_cases h : a.field = b.field
  · rw [h]
  · exact (setKey_comm _ _ _ h).symm

theorem intLoop_perm (kvs : Kvs) {l l' : List IntName} (h : l.Perm l') : intLoop kvs l = intLoop kvs l' := by
  unfold intLoop
  exact h.foldl_eq' (fun x _ y _ z => intStep_comm z x y) kvs

theorem hasKey_intLoop (k : String) (l : List IntName) : ∀ kvs, hasKey k (intLoop kvs l) = hasKey k kvs := by
  induction l with
  | nil => intro kvs; rfl
  | cons x t ih =>
    intro kvs
    unfold intLoop at ih ⊢
    rw [List.foldl_cons, ih]
    unfold intStep; rw [hasKey_setKey]

theorem IntName.field_inj {a b : IntName} (h : a.field = b.field) : a = b := by
  cases a <;> cases b <;> first | rfl | (simp [IntName.field] at h)

theorem lookup_intLoop_mem {n : IntName} (l : List IntName) :
    ∀ kvs, n ∈ l → hasKey n.field kvs = true → lookup n.field (intLoop kvs l) = some (fl 1) := by
  induction l with
  | nil => intro _ h; cases h
  | cons x t ih =>
    intro kvs hm hk
    unfold intLoop at ih ⊢
    rw [List.foldl_cons]
    by_cases hmt : n ∈ t
    · apply ih _ hmt
      unfold intStep; rw [hasKey_setKey]; exact hk
    · have hx : n = x := by
        cases hm with
        | head => rfl
        | tail _ h => exact absurd h hmt
      subst hx
      -- later steps touch other fields only
      have : ∀ (t : List IntName) (kvs : Kvs), n ∉ t →
          lookup n.field (t.foldl intStep kvs) = lookup n.field kvs := by
        intro t
        induction t with
        | nil => intro _ _; rfl
        | cons y t' ih' =>
          intro kvs hn
          simp only [List.mem_cons, not_or] at hn
          rw [List.foldl_cons, ih' _ hn.2]
          unfold intStep
          apply lookup_setKey_ne
          intro he; exact hn.1 (IntName.field_inj he).symm
      rw [this t _ hmt]
      unfold intStep
      exact lookup_setKey_self hk

theorem lookup_intLoop_not_mem {k : String} (l : List IntName) (h : ∀ n ∈ l, n.field ≠ k) :
    ∀ kvs, lookup k (intLoop kvs l) = lookup k kvs := by
  induction l with
  | nil => intro _; rfl
  | cons x t ih =>
    intro kvs
    unfold intLoop at ih ⊢
    rw [List.foldl_cons, ih (fun n hn => h n (List.mem_cons_of_mem _ hn))]
    unfold intStep
    exact lookup_setKey_ne _ _ (h x List.mem_cons_self)

theorem augIntensity_perm (env : Env) (dflt : Cfg) {l l' : List String} (h : l.Perm l') :
    augIntensity env dflt (.names l) = augIntensity env dflt (.names l') := by
  rcases parseAll_perm IntName.parse h with ⟨h1, h2⟩ | ⟨ns, ns', h1, h2, hp⟩
  · simp only [augIntensity, h1, h2]
  · simp only [augIntensity, h1, h2]
    cases dflt with
    | leaf v => simp only [hp.isEmpty_eq]
    | node kvs => simp only [hp.all_eq, intLoop_perm kvs hp]

/-! ### `Geo.read` / `Geo.write` against the TREE that is returned -/

def geoKeys : List String :=
  ["rotation", "scale", "translate_width", "translate_height", "affine_p", "erase_p", "mixup_p"]

theorem Geo.read_eq {kvs : Kvs} {g : Geo} (h : Geo.read kvs = some g) :
    lookup "rotation" kvs = some g.rotation ∧ lookup "scale" kvs = some g.scale ∧
    lookup "translate_width" kvs = some g.tw ∧ lookup "translate_height" kvs = some g.th ∧
    lookup "affine_p" kvs = some g.affineP ∧ lookup "erase_p" kvs = some g.eraseP ∧
    lookup "mixup_p" kvs = some g.mixupP := by
  unfold Geo.read at h
  split at h
  · rename_i r s tw th a e m h1 h2 h3 h4 h5 h6 h7
    simp only [Option.some.injEq] at h
    subst h
    exact ⟨h1, h2, h3, h4, h5, h6, h7⟩
  · cases h

theorem hasKey_of_lookup {k : String} {kvs : Kvs} {v : Cfg} (h : lookup k kvs = some v) :
    hasKey k kvs = true := by unfold hasKey; rw [h]; rfl

@[simp] theorem keys_write (g : Geo) (kvs : Kvs) : keys (g.write kvs) = keys kvs := by
  unfold Geo.write; simp only [keys_setKey]

/-- every one of the seven fields is written under ITS OWN key -/
theorem lookup_write (g' : Geo) {kvs : Kvs} {g : Geo} (h : Geo.read kvs = some g) :
    lookup "rotation" (g'.write kvs) = some g'.rotation ∧ lookup "scale" (g'.write kvs) = some g'.scale ∧
    lookup "translate_width" (g'.write kvs) = some g'.tw ∧
    lookup "translate_height" (g'.write kvs) = some g'.th ∧
    lookup "affine_p" (g'.write kvs) = some g'.affineP ∧ lookup "erase_p" (g'.write kvs) = some g'.eraseP ∧
    lookup "mixup_p" (g'.write kvs) = some g'.mixupP := by
  obtain ⟨h1, h2, h3, h4, h5, h6, h7⟩ := Geo.read_eq h
  have k1 := hasKey_of_lookup h1; have k2 := hasKey_of_lookup h2; have k3 := hasKey_of_lookup h3
  have k4 := hasKey_of_lookup h4; have k5 := hasKey_of_lookup h5; have k6 := hasKey_of_lookup h6
  have k7 := hasKey_of_lookup h7
  unfold Geo.write
  refine ⟨?_, ?_, ?_, ?_, ?_, ?_, ?_⟩
  · rw [lookup_setKey_ne _ _ (by decide), lookup_setKey_ne _ _ (by decide), lookup_setKey_ne _ _ (by decide),
      lookup_setKey_ne _ _ (by decide), lookup_setKey_ne _ _ (by decide), lookup_setKey_ne _ _ (by decide)]
    exact lookup_setKey_self k1
  · rw [lookup_setKey_ne _ _ (by decide), lookup_setKey_ne _ _ (by decide), lookup_setKey_ne _ _ (by decide),
      lookup_setKey_ne _ _ (by decide), lookup_setKey_ne _ _ (by decide)]
    exact lookup_setKey_self (by simp only [hasKey_setKey]; exact k2)
  · rw [lookup_setKey_ne _ _ (by decide), lookup_setKey_ne _ _ (by decide), lookup_setKey_ne _ _ (by decide),
      lookup_setKey_ne _ _ (by decide)]
    exact lookup_setKey_self (by simp only [hasKey_setKey]; exact k3)
  · rw [lookup_setKey_ne _ _ (by decide), lookup_setKey_ne _ _ (by decide), lookup_setKey_ne _ _ (by decide)]
    exact lookup_setKey_self (by simp only [hasKey_setKey]; exact k4)
  · rw [lookup_setKey_ne _ _ (by decide), lookup_setKey_ne _ _ (by decide)]
    exact lookup_setKey_self (by simp only [hasKey_setKey]; exact k5)
  · rw [lookup_setKey_ne _ _ (by decide)]
    exact lookup_setKey_self (by simp only [hasKey_setKey]; exact k6)
  · exact lookup_setKey_self (by simp only [hasKey_setKey]; exact k7)

/-- … and nothing else is touched -/
theorem lookup_write_other (g' : Geo) (kvs : Kvs) {k : String} (hk : k ∉ geoKeys) :
    lookup k (g'.write kvs) = lookup k kvs := by
  simp only [geoKeys, List.mem_cons, List.not_mem_nil, or_false, not_or] at hk
  obtain ⟨n1, n2, n3, n4, n5, n6, n7⟩ := hk
  unfold Geo.write
  rw [lookup_setKey_ne _ _ (Ne.symm n7), lookup_setKey_ne _ _ (Ne.symm n6), lookup_setKey_ne _ _ (Ne.symm n5),
    lookup_setKey_ne _ _ (Ne.symm n4), lookup_setKey_ne _ _ (Ne.symm n3), lookup_setKey_ne _ _ (Ne.symm n2),
    lookup_setKey_ne _ _ (Ne.symm n1)]

theorem read_write (g' : Geo) {kvs : Kvs} {g : Geo} (h : Geo.read kvs = some g) :
    Geo.read (g'.write kvs) = some g' := by
  obtain ⟨h1, h2, h3, h4, h5, h6, h7⟩ := lookup_write g' h
  unfold Geo.read
  rw [h1, h2, h3, h4, h5, h6, h7]

/-! ### REGRESSION RECORD: the loop as it was in /repo before ba6346f (F-C20) -/

/-- closed form of the as-is loop, valid when all affine names in the list are the same name -/
def asIsClosed (acc : Geo) (l : List GeoName) : Geo :=
  { rotation := if l.any GeoName.isAffine then (if GeoName.rotation ∈ l then acc.rotation else fl 0) else acc.rotation
    scale := if l.any GeoName.isAffine then (if GeoName.scale ∈ l then pair d09 d11 else pair 1 1) else acc.scale
    tw := if l.any GeoName.isAffine then (if GeoName.translate ∈ l then fl d02 else fl 0) else acc.tw
    th := if l.any GeoName.isAffine then (if GeoName.translate ∈ l then fl d02 else fl 0) else acc.th
    affineP := if l.any GeoName.isAffine then fl 1 else acc.affineP
    eraseP := if GeoName.eraseScale ∈ l then fl 1 else acc.eraseP
    mixupP := if GeoName.mixup ∈ l then fl 1 else acc.mixupP }

def oneAffine (l : List GeoName) : Prop :=
  ∀ x ∈ l, ∀ y ∈ l, x.isAffine = true → y.isAffine = true → x = y

theorem foldl_asIs (l : List GeoName) : ∀ acc, oneAffine l → l.foldl geoStepAsIs acc = asIsClosed acc l := by
  induction l with
  | nil => intro acc _; simp [asIsClosed]
  | cons x t ih =>
    intro acc h
    have ht : oneAffine t := fun a ha b hb => h a (List.mem_cons_of_mem _ ha) b (List.mem_cons_of_mem _ hb)
    rw [List.foldl_cons, ih _ ht]
    have hx : ∀ y ∈ t, x.isAffine = true → y.isAffine = true → x = y :=
      fun y hy => h x List.mem_cons_self y (List.mem_cons_of_mem _ hy)
    have hany := any_isAffine_iff t
    cases x with
    | rotation =>
      have h1 : GeoName.scale ∉ t := fun hm => by have := hx _ hm rfl rfl; cases this
      have h2 : GeoName.translate ∉ t := fun hm => by have := hx _ hm rfl rfl; cases this
      by_cases h0 : GeoName.rotation ∈ t
      · have ha : t.any GeoName.isAffine = true := hany.2 (Or.inl h0)
        simp [asIsClosed, geoStepAsIs, h0, h1, h2, ha, GeoName.isAffine]
      · have ha : t.any GeoName.isAffine = false := by
          cases hb : t.any GeoName.isAffine with
          | false => rfl
          | true => rcases hany.1 hb with h | h | h <;> contradiction
        simp [asIsClosed, geoStepAsIs, h0, h1, h2, ha, GeoName.isAffine]
    | scale =>
      have h1 : GeoName.rotation ∉ t := fun hm => by have := hx _ hm rfl rfl; cases this
      have h2 : GeoName.translate ∉ t := fun hm => by have := hx _ hm rfl rfl; cases this
      by_cases h0 : GeoName.scale ∈ t
      · have ha : t.any GeoName.isAffine = true := hany.2 (Or.inr (Or.inl h0))
        simp [asIsClosed, geoStepAsIs, h0, h1, h2, ha, GeoName.isAffine]
      · have ha : t.any GeoName.isAffine = false := by
          cases hb : t.any GeoName.isAffine with
          | false => rfl
          | true => rcases hany.1 hb with h | h | h <;> contradiction
        simp [asIsClosed, geoStepAsIs, h0, h1, h2, ha, GeoName.isAffine]
    | translate =>
      have h1 : GeoName.rotation ∉ t := fun hm => by have := hx _ hm rfl rfl; cases this
      have h2 : GeoName.scale ∉ t := fun hm => by have := hx _ hm rfl rfl; cases this
      by_cases h0 : GeoName.translate ∈ t
      · have ha : t.any GeoName.isAffine = true := hany.2 (Or.inr (Or.inr h0))
        simp [asIsClosed, geoStepAsIs, h0, h1, h2, ha, GeoName.isAffine]
      · have ha : t.any GeoName.isAffine = false := by
          cases hb : t.any GeoName.isAffine with
          | false => rfl
          | true => rcases hany.1 hb with h | h | h <;> contradiction
        simp [asIsClosed, geoStepAsIs, h0, h1, h2, ha, GeoName.isAffine]
    | eraseScale => simp [asIsClosed, geoStepAsIs, GeoName.isAffine]
    | mixup => simp [asIsClosed, geoStepAsIs, GeoName.isAffine]

theorem asIsClosed_eq (g : Geo) (l : List GeoName) : asIsClosed g l = geoClosed g (geoPre g l) l := by
  have hany := any_isAffine_iff l
  unfold asIsClosed geoClosed geoPre
  by_cases ha : l.any GeoName.isAffine = true
  · simp [ha]
  · have ha' : l.any GeoName.isAffine = false := by simpa using ha
    have h1 : GeoName.rotation ∉ l := fun h => ha (hany.2 (Or.inl h))
    have h2 : GeoName.scale ∉ l := fun h => ha (hany.2 (Or.inr (Or.inl h)))
    have h3 : GeoName.translate ∉ l := fun h => ha (hany.2 (Or.inr (Or.inr h)))
    simp [ha', h1, h2, h3]

theorem geoLoopAsIs_eq_of_oneAffine (g : Geo) (l : List GeoName) (h : oneAffine l) :
    geoLoopAsIs g l = geoLoop g l := by
  unfold geoLoopAsIs
  rw [foldl_asIs l g h, asIsClosed_eq, geoLoop_eq]

end SleapVerif.Config
