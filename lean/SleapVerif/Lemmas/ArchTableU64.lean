import SleapVerif.Lemmas.ArchTable
/-! UNet table, filters = 64: `decide +kernel` over the certified rows (the quantifier IS the table). -/
namespace SleapVerif.Arch
theorem tableUnet_64_r1 : tableUnet 64 ⟨1, 1⟩ = true := by decide +kernel
theorem tableUnet_64_r32 : tableUnet 64 ⟨3, 2⟩ = true := by decide +kernel
theorem tableUnet_64_r2 : tableUnet 64 ⟨2, 1⟩ = true := by decide +kernel
theorem tableUnetCpb1_64 : tableUnetCpb1 64 = true := by decide +kernel
end SleapVerif.Arch
