import SleapVerif.Model.Peaks
import Mathlib.Algebra.Order.Field.Basic
import Mathlib.Tactic.Linarith
/-!
Helper lemmas for C06/C07, part 1: order facts (`maxR`, kornia dilation, first argmax) and the list
plumbing of `localPeaksRough`.
-/
namespace SleapVerif.Peaks
set_option linter.unusedSectionVars false

variable {R : Type} [Field R] [LinearOrder R] [IsStrictOrderedRing R]

/-! ### flat index arithmetic -/

theorem flat_div {C s c : Nat} (hc : c < C) : (s * C + c) / C = s := by
  have hC : 0 < C := by omega
  rw [Nat.add_comm, Nat.add_mul_div_right _ _ hC, Nat.div_eq_of_lt hc, Nat.zero_add]

theorem flat_mod {C s c : Nat} (hc : c < C) : (s * C + c) % C = c := by
  rw [Nat.add_comm, Nat.add_mul_mod_self_right, Nat.mod_eq_of_lt hc]

theorem Batch.flat_index {α : Type} (b : Batch α) {s c : Nat} (hc : c < b.C) : b.flat (s * b.C + c) = b.v s c := by
  unfold Batch.flat
  rw [flat_div hc, flat_mod hc]

/-! ### maxR and the dilation -/

theorem maxR_lt_iff (x a v : R) : maxR x a < v ↔ x < v ∧ a < v := by
  unfold maxR
  by_cases h : x < a
  · rw [if_pos h]; exact ⟨fun h1 => ⟨lt_trans h h1, h1⟩, fun h1 => h1.2⟩
  · rw [if_neg h]; exact ⟨fun h1 => ⟨h1, lt_of_le_of_lt (not_lt.mp h) h1⟩, fun h1 => h1.1⟩

theorem foldl_maxR_lt_iff (xs : List R) (x v : R) :
    xs.foldl maxR x < v ↔ x < v ∧ ∀ y ∈ xs, y < v := by
  induction xs generalizing x with
  | nil => simp
  | cons a as ih =>
    simp only [List.foldl_cons, ih, List.mem_cons, forall_eq_or_imp, maxR_lt_iff, and_assoc]

theorem mem_kernelOffsets (a b : Int) :
    (a, b) ∈ kernelOffsets ↔ (-1 ≤ a ∧ a ≤ 1 ∧ -1 ≤ b ∧ b ≤ 1) := by
  simp only [kernelOffsets, List.mem_cons, Prod.mk.injEq, List.mem_nil_iff, or_false]
  omega

theorem dilate_lt_iff (big : R) (h w : Nat) (img : Nat → Nat → R) (i j : Nat) (v : R) :
    dilate big h w img i j < v ↔
      ∀ d ∈ kernelOffsets, padAt big h w img ((i : Int) + d.1) ((j : Int) + d.2) + nbhd big d.1 d.2 < v := by
  unfold dilate
  generalize hf : (fun d : Int × Int => padAt big h w img ((i : Int) + d.1) ((j : Int) + d.2) + nbhd big d.1 d.2) = f
  have : ∀ d, padAt big h w img ((i : Int) + d.1) ((j : Int) + d.2) + nbhd big d.1 d.2 = f d := by
    intro d; rw [← hf]
  simp only [this]
  simp only [kernelOffsets, List.map_cons, List.map_nil, foldl_maxR_lt_iff, List.mem_cons, List.mem_nil_iff,
    or_false, forall_eq_or_imp, forall_eq]

theorem padAt_of_nat (big : R) {h w : Nat} (img : Nat → Nat → R) {i' j' : Nat} {a b : Int}
    (ha : a = i') (hb : b = j') (hi : i' < h) (hj : j' < w) : padAt big h w img a b = img i' j' := by
  subst ha hb
  simp [padAt, inB, hi, hj]

/-- every in-bounds 8-neighbour of `(i,j)` is strictly below `v` -/
def NbrLt (h w : Nat) (img : Nat → Nat → R) (i j : Nat) (v : R) : Prop :=
  ∀ i' j', i' < h → j' < w → (i' ≠ i ∨ j' ≠ j) → i' ≤ i + 1 → i ≤ i' + 1 → j' ≤ j + 1 → j ≤ j' + 1 →
    img i' j' < v

/-- kornia's dilation with the hollow 3×3 kernel is below the centre value exactly when all
in-bounds 8-neighbours are (given `max_val > 0` and a centre above `-max_val`). -/
theorem dilate_lt_center_iff (big : R) (hbig : 0 < big) {h w : Nat} (img : Nat → Nat → R) {i j : Nat}
    (hi : i < h) (hj : j < w) (hv : -big < img i j) :
    dilate big h w img i j < img i j ↔ NbrLt h w img i j (img i j) := by
  rw [dilate_lt_iff]
  constructor
  · intro H i' j' hi' hj' hne h1 h2 h3 h4
    have hm : ((i' : Int) - i, (j' : Int) - j) ∈ kernelOffsets := by
      rw [mem_kernelOffsets]; omega
    have := H _ hm
    simp only at this
    rw [padAt_of_nat big img (by omega) (by omega) hi' hj'] at this
    have hn : nbhd big ((i' : Int) - i) ((j' : Int) - j) = 0 := by
      unfold nbhd
      rw [if_neg]
      omega
    rwa [hn, add_zero] at this
  · intro H d hd
    obtain ⟨d1, d2⟩ := d
    rw [mem_kernelOffsets] at hd
    simp only
    by_cases hc : d1 = 0 ∧ d2 = 0
    · obtain ⟨rfl, rfl⟩ := hc
      rw [padAt_of_nat big img (by omega) (by omega) hi hj]
      simp only [nbhd, and_self, if_true]
      linarith
    · have hn : nbhd big d1 d2 = 0 := by unfold nbhd; rw [if_neg hc]
      rw [hn, add_zero]
      unfold padAt
      by_cases hb : inB h w ((i : Int) + d1) ((j : Int) + d2) = true
      · rw [if_pos hb]
        simp only [inB, Bool.and_eq_true, decide_eq_true_eq] at hb
        apply H
        all_goals omega
      · rw [if_neg hb]; exact hv

/-! ### first argmax -/

theorem argmaxUpTo_le (f : Nat → R) (k : Nat) : argmaxUpTo f k ≤ k := by
  induction k with
  | zero => simp [argmaxUpTo]
  | succ k ih =>
    simp only [argmaxUpTo]
    split <;> omega

theorem le_argmaxUpTo (f : Nat → R) (k : Nat) : ∀ i, i ≤ k → f i ≤ f (argmaxUpTo f k) := by
  induction k with
  | zero => intro i hi; have : i = 0 := by omega
            subst this; simp [argmaxUpTo]
  | succ k ih =>
    intro i hi
    simp only [argmaxUpTo]
    by_cases h : f (argmaxUpTo f k) < f (k+1)
    · rw [if_pos h]
      rcases Nat.lt_or_ge i (k+1) with h1 | h1
      · exact le_of_lt (lt_of_le_of_lt (ih i (by omega)) h)
      · have : i = k+1 := by omega
        subst this; exact le_rfl
    · rw [if_neg h]
      rcases Nat.lt_or_ge i (k+1) with h1 | h1
      · exact ih i (by omega)
      · have : i = k+1 := by omega
        subst this; exact not_lt.mp h

/-- ties are broken towards the first index -/
theorem lt_argmaxUpTo_of_lt (f : Nat → R) (k : Nat) : ∀ i, i < argmaxUpTo f k → f i < f (argmaxUpTo f k) := by
  induction k with
  | zero => intro i hi; simp [argmaxUpTo] at hi
  | succ k ih =>
    intro i hi
    simp only [argmaxUpTo] at hi ⊢
    by_cases h : f (argmaxUpTo f k) < f (k+1)
    · rw [if_pos h] at hi ⊢
      exact lt_of_le_of_lt (le_argmaxUpTo f k i (by omega)) h
    · rw [if_neg h] at hi ⊢
      exact ih i hi

/-! ### list plumbing -/

/-- lexicographic order on `(sample, row, col, channel)` -/
def KeyLt (a b : Nat × Nat × Nat × Nat) : Prop :=
  a.1 < b.1 ∨ (a.1 = b.1 ∧ (a.2.1 < b.2.1 ∨ (a.2.1 = b.2.1 ∧ (a.2.2.1 < b.2.2.1 ∨
    (a.2.2.1 = b.2.2.1 ∧ a.2.2.2 < b.2.2.2)))))

def Peak.key {α : Type} (p : Peak α) : Nat × Nat × Nat × Nat := (p.sample, p.y, p.x, p.channel)

theorem mem_localPeaksRough (big thr : R) (b : Batch R) (p : Peak R) :
    p ∈ localPeaksRough big thr b ↔
      p.sample < b.S ∧ p.y < b.h ∧ p.x < b.w ∧ p.channel < b.C ∧
        isPeak big thr b p.sample p.channel p.y p.x = true ∧ p.val = b.v p.sample p.channel p.y p.x := by
  obtain ⟨x, y, val, s, c⟩ := p
  simp only [localPeaksRough, List.mem_flatMap, List.mem_filterMap, List.mem_range]
  constructor
  · rintro ⟨s', hs, i, hi, j, hj, c', hc, h⟩
    split at h
    · rename_i hp
      simp only [Option.some.injEq, Peak.mk.injEq] at h
      obtain ⟨rfl, rfl, rfl, rfl, rfl⟩ := h
      exact ⟨hs, hi, hj, hc, hp, rfl⟩
    · cases h
  · rintro ⟨hs, hi, hj, hc, hp, hv⟩
    refine ⟨s, hs, y, hi, x, hj, c, hc, ?_⟩
    rw [if_pos hp, hv]

theorem localPeaksRough_pairwise (big thr : R) (b : Batch R) :
    (localPeaksRough big thr b).Pairwise (fun p q => KeyLt p.key q.key) := by
  unfold localPeaksRough
  rw [List.pairwise_flatMap]
  refine ⟨fun s _ => ?_, ?_⟩
  · rw [List.pairwise_flatMap]
    refine ⟨fun i _ => ?_, ?_⟩
    · rw [List.pairwise_flatMap]
      refine ⟨fun j _ => ?_, ?_⟩
      · rw [List.pairwise_filterMap]
        refine List.Pairwise.imp ?_ (List.pairwise_lt_range (n := b.C))
        intro c c' hcc p hp q hq
        split at hp <;> simp only [Option.some.injEq, reduceCtorEq] at hp
        split at hq <;> simp only [Option.some.injEq, reduceCtorEq] at hq
        subst hp hq
        simp [KeyLt, Peak.key, hcc]
      · refine List.Pairwise.imp ?_ (List.pairwise_lt_range (n := b.w))
        intro j j' hjj p hp q hq
        simp only [List.mem_filterMap, List.mem_range] at hp hq
        obtain ⟨c, _, hp⟩ := hp
        obtain ⟨c', _, hq⟩ := hq
        split at hp <;> simp only [Option.some.injEq, reduceCtorEq] at hp
        split at hq <;> simp only [Option.some.injEq, reduceCtorEq] at hq
        subst hp hq
        simp [KeyLt, Peak.key, hjj]
    · refine List.Pairwise.imp ?_ (List.pairwise_lt_range (n := b.h))
      intro i i' hii p hp q hq
      simp only [List.mem_flatMap, List.mem_filterMap, List.mem_range] at hp hq
      obtain ⟨j, _, c, _, hp⟩ := hp
      obtain ⟨j', _, c', _, hq⟩ := hq
      split at hp <;> simp only [Option.some.injEq, reduceCtorEq] at hp
      split at hq <;> simp only [Option.some.injEq, reduceCtorEq] at hq
      subst hp hq
      simp [KeyLt, Peak.key, hii]
  · refine List.Pairwise.imp ?_ (List.pairwise_lt_range (n := b.S))
    intro s s' hss p hp q hq
    simp only [List.mem_flatMap, List.mem_filterMap, List.mem_range] at hp hq
    obtain ⟨i, _, j, _, c, _, hp⟩ := hp
    obtain ⟨i', _, j', _, c', _, hq⟩ := hq
    split at hp <;> simp only [Option.some.injEq, reduceCtorEq] at hp
    split at hq <;> simp only [Option.some.injEq, reduceCtorEq] at hq
    subst hp hq
    simp [KeyLt, Peak.key, hss]

theorem isPeak_iff (big thr : R) (b : Batch R) {s c : Nat} (hc : c < b.C) (i j : Nat) :
    isPeak big thr b s c i j = true ↔
      dilate big b.h b.w (b.v s c) i j < b.v s c i j ∧ thr < b.v s c i j := by
  simp only [isPeak, maxImg, b.flat_index hc, Bool.and_eq_true, decide_eq_true_eq]

/-! ### batch independence plumbing -/

theorem range_flatMap_filter_eq {α : Type} (n k : Nat) (hk : k < n) (f : Nat → List α) (p : α → Bool)
    (hne : ∀ a, a ≠ k → ∀ x ∈ f a, p x = false) (heq : ∀ x ∈ f k, p x = true) :
    ((List.range n).flatMap f).filter p = f k := by
  induction n with
  | zero => omega
  | succ n ih =>
    rw [List.range_succ, List.flatMap_append, List.filter_append]
    simp only [List.flatMap_cons, List.flatMap_nil, List.append_nil]
    rcases Nat.lt_or_ge k n with h | h
    · rw [ih h]
      have : (f n).filter p = [] := by
        rw [List.filter_eq_nil_iff]
        intro x hx
        rw [hne n (by omega) x hx]; simp
      rw [this, List.append_nil]
    · have hkn : k = n := by omega
      subst hkn
      have h1 : ((List.range k).flatMap f).filter p = [] := by
        rw [List.filter_eq_nil_iff]
        intro x hx
        rw [List.mem_flatMap] at hx
        obtain ⟨a, ha, hx⟩ := hx
        rw [List.mem_range] at ha
        rw [hne a (by omega) x hx]; simp
      have h2 : (f k).filter p = f k := by
        rw [List.filter_eq_self]; exact heq
      rw [h1, h2, List.nil_append]

theorem range_filterMap_filter_eq {α : Type} (n k : Nat) (hk : k < n) (g : Nat → Option α) (p : α → Bool)
    (hne : ∀ a, a ≠ k → ∀ x, g a = some x → p x = false) (heq : ∀ x, g k = some x → p x = true) :
    ((List.range n).filterMap g).filter p = (g k).toList := by
  have := range_flatMap_filter_eq n k hk (fun a => (g a).toList) p
    (fun a ha x hx => hne a ha x (by simpa using hx)) (fun x hx => heq x (by simpa using hx))
  rw [← this]
  congr 1
  induction (List.range n) with
  | nil => rfl
  | cons a as ih =>
    rw [List.filterMap_cons, List.flatMap_cons, ← ih]
    cases g a <;> simp

theorem isPeak_single (big thr : R) (b : Batch R) {s c : Nat} (hc : c < b.C) (i j : Nat) :
    isPeak big thr (b.single s c) 0 0 i j = isPeak big thr b s c i j := by
  unfold isPeak maxImg
  rw [b.flat_index hc]
  rfl

/-- The peaks reported for map `(s,c)` inside a batch are exactly the peaks of that map alone,
in the same order (only the sample/channel tags differ). -/
theorem localPeaksRough_filter (big thr : R) (b : Batch R) {s c : Nat} (hs : s < b.S) (hc : c < b.C) :
    (localPeaksRough big thr b).filter (fun p => p.sample == s && p.channel == c) =
      (localPeaksRough big thr (b.single s c)).map (fun p => { p with sample := s, channel := c }) := by
  have hsplit : (localPeaksRough big thr b).filter (fun p => p.sample == s && p.channel == c) =
      ((localPeaksRough big thr b).filter (fun p => p.sample == s)).filter (fun p => p.channel == c) := by
    rw [List.filter_filter]
    congr 1
    funext p
    exact Bool.and_comm _ _
  rw [hsplit]
  unfold localPeaksRough
  rw [range_flatMap_filter_eq b.S s hs]
  · simp only [List.filter_flatMap, Batch.single, List.range_one, List.flatMap_cons, List.flatMap_nil,
      List.append_nil, List.map_flatMap, List.filterMap_cons, List.filterMap_nil]
    congr 1; funext i
    congr 1; funext j
    rw [range_filterMap_filter_eq b.C c hc]
    · have := isPeak_single big thr b (s := s) hc i j
      simp only [Batch.single] at this
      simp only [this]
      cases isPeak big thr b s c i j <;> simp
    · intro a ha x hx
      split at hx <;> simp only [Option.some.injEq, reduceCtorEq] at hx
      subst hx
      simpa using ha
    · intro x hx
      split at hx <;> simp only [Option.some.injEq, reduceCtorEq] at hx
      subst hx
      simp
  · intro a ha x hx
    simp only [List.mem_flatMap, List.mem_filterMap, List.mem_range] at hx
    obtain ⟨i, _, j, _, c', _, hx⟩ := hx
    split at hx <;> simp only [Option.some.injEq, reduceCtorEq] at hx
    subst hx
    simpa using ha
  · intro x hx
    simp only [List.mem_flatMap, List.mem_filterMap, List.mem_range] at hx
    obtain ⟨i, _, j, _, c', _, hx⟩ := hx
    split at hx <;> simp only [Option.some.injEq, reduceCtorEq] at hx
    subst hx
    simp

end SleapVerif.Peaks
