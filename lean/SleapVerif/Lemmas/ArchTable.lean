import SleapVerif.Lemmas.ArchGrid
/-!
# The factored configuration table of property C14

The property's quantifier is a finite grid.  Dimensions that provably do not enter the
bookkeeping were discharged by lemmas (`wellFormed_of_single`: head lists / head type / channel
count; `wellFormed_upInterp`: `up_interpolate`; `run_of_wellFormed`: input size, pooling state),
so the table ranges over family × variant × filters × rate × max_stride × stem × backbone stride ×
head stride × convs_per_block × middle_block only, with `up_interpolate = False` and one head.
Each `table…` is checked by `decide +kernel` in `ArchTable*.lean` (< 400 certified rows each).
-/
namespace SleapVerif.Arch

def strides6 : List Nat := [1, 2, 4, 8, 16, 32]
def rates3 : List Rate := [⟨1, 1⟩, ⟨3, 2⟩, ⟨2, 1⟩]
def bools : List Bool := [true, false]

def mkUnet (f : Nat) (r : Rate) (ms stem bos os cpb : Nat) (mid : Bool) : Cfg :=
  { fam := .unet, variant := 0, filters := f, rate := r, maxStride := ms, bos := bos, stem := stem,
    cpb := cpb, middle := mid, upInterp := false, inCh := 1, heads := [⟨os, 0⟩],
    fixMid := true, fixWrap := true }

def mkWrap (fam : Family) (v sps bos os cpb : Nat) : Cfg :=
  { fam := fam, variant := v, filters := 0, rate := ⟨2, 1⟩, maxStride := sps * 8, bos := bos, stem := sps,
    cpb := cpb, middle := true, upInterp := false, inCh := 1, heads := [⟨os, 0⟩],
    fixMid := true, fixWrap := true }

def tableUnet (f : Nat) (r : Rate) : Bool :=
  [8, 16, 32].all fun ms => [0, 2, 4].all fun stem => strides6.all fun bos => strides6.all fun os =>
    !(decide (bos ≤ os) && decide (2 * os ≤ ms)) ||
      ([2, 3].all fun cpb => bools.all fun mid => wellFormed (mkUnet f r ms stem bos os cpb mid))

/-- `convs_per_block = 1` works exactly when `filters_rate = 1` and a stem is configured (all filters equal,
    the stem block carries the one convolution): rows `rate = 1, cpb = 1, stem ∈ {2, 4}` -/
def tableUnetCpb1 (f : Nat) : Bool :=
  [8, 16, 32].all fun ms => [2, 4].all fun stem => strides6.all fun bos => strides6.all fun os =>
    !(decide (bos ≤ os) && decide (2 * os ≤ ms)) ||
      (bools.all fun mid => wellFormed (mkUnet f ⟨1, 1⟩ ms stem bos os 1 mid))

def tableWrap (fam : Family) (v : Nat) : Bool :=
  [2, 4].all fun sps => strides6.all fun bos => strides6.all fun os =>
    !(decide (bos ≤ os) && decide (2 * os ≤ sps * 8)) ||
      ([1, 2, 3].all fun cpb => wellFormed (mkWrap fam v sps bos os cpb))

/-- Documented validity — the same predicate as `doc_valid` in `harness/c14.py`: at least one head and
    `backbone output_stride ≤ head stride ≤ max_stride / 2` for every head, with `max_stride` the
    **configured** one (a head *at* the max stride is an invalid configuration, rejected loudly: see
    `Props/C14.head_stride_eq_max_rejected`).  Nothing else: `docs/config.md` puts no restriction on
    `filters_rate`, `convs_per_block`, `middle_block` or on the wrappers' `max_stride`. -/
def docValid (c : Cfg) : Bool :=
  !c.heads.isEmpty && c.heads.all (fun h => decide (c.bos ≤ h.os) && decide (2 * h.os ≤ c.maxStride))

/-- The extra hypotheses under which the contract is true of the code **as it is now** (HEAD of
    /repo: both C14 fixes applied, `fixMid = fixWrap = true`); each excluded region is a `known` finding,
    sampled by the harness with the property oracle:
    * UNet: `convs_per_block ≥ 2`, or `convs_per_block = 1` with `filters_rate = 1` and a stem
      (F-C14-convs-per-block is the rest of `convs_per_block = 1`);
    * ConvNeXt / Swin-T: `filters_rate = 2` (F-C14-wrapper-filters-rate: their torchvision encoders double
      the channels per stage, the decoder is sized from `filters_rate`) and `max_stride = 8·stem_patch_stride`
      (F-C14-wrapper-max-stride: the wrappers ignore `config.max_stride`). -/
def supported (c : Cfg) : Bool :=
  match c.fam with
  | .unet => decide (2 ≤ c.cpb) || (c.rate == ⟨1, 1⟩ && c.stem != 0)
  | _ => c.rate == ⟨2, 1⟩ && c.maxStride == c.stem * 8

/-- the finite grid named by the property, on the tree as it is now (both fixes applied) (canonical representation: `variant = 0` for UNet,
    `filters = 0`, `middle_block = True` for the wrappers, which ignore those fields) -/
def inGrid (c : Cfg) : Bool :=
  c.inCh == 1 && c.fixMid && c.fixWrap && c.stemKernel == 4 && c.heads.all (fun h => strides6.contains h.os) && strides6.contains c.bos
    && [1, 2, 3].contains c.cpb && rates3.contains c.rate &&
  match c.fam with
  | .unet => c.variant == 0 && [8, 16, 24, 32, 64].contains c.filters && [8, 16, 32].contains c.maxStride
              && [0, 2, 4].contains c.stem
  | .convnext => [0, 1, 2, 3].contains c.variant && c.filters == 0 && [2, 4].contains c.stem
              && [16, 32].contains c.maxStride && c.middle
  | .swint => [0, 1, 2].contains c.variant && c.filters == 0 && [2, 4].contains c.stem
              && [16, 32].contains c.maxStride && c.middle

end SleapVerif.Arch
