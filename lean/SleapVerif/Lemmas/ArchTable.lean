import SleapVerif.Lemmas.ArchGrid
/-!
# The factored configuration table of property C14

The property's quantifier is a finite grid.  Dimensions that provably do not enter the
bookkeeping were discharged by lemmas (`wellFormed_of_single`: head lists / head type / channel
count; `wellFormed_upInterp`: `up_interpolate`; `run_of_wellFormed`: input size, pooling state),
so the table ranges over family × variant × filters × rate × max_stride × stem × backbone stride ×
head stride × convs_per_block × middle_block only, with `up_interpolate = False` and one head.
Each `table…` is checked by `decide +kernel` in `ArchTable*.lean` (< 400 certified rows each).
-/
namespace SleapVerif.Arch

def strides6 : List Nat := [1, 2, 4, 8, 16, 32]
def rates3 : List Rate := [⟨1, 1⟩, ⟨3, 2⟩, ⟨2, 1⟩]
def bools : List Bool := [true, false]

def mkUnet (f : Nat) (r : Rate) (ms stem bos os cpb : Nat) (mid : Bool) : Cfg :=
  { fam := .unet, variant := 0, filters := f, rate := r, maxStride := ms, bos := bos, stem := stem,
    cpb := cpb, middle := mid, upInterp := false, inCh := 1, heads := [⟨os, 0⟩],
    fixMid := true, fixWrap := true }

def mkWrap (fam : Family) (v sps bos os cpb : Nat) : Cfg :=
  { fam := fam, variant := v, filters := 0, rate := ⟨2, 1⟩, maxStride := sps * 8, bos := bos, stem := sps,
    cpb := cpb, middle := true, upInterp := false, inCh := 1, heads := [⟨os, 0⟩],
    fixMid := true, fixWrap := true }

def tableUnet (f : Nat) (r : Rate) : Bool :=
  [8, 16, 32].all fun ms => [0, 2, 4].all fun stem => strides6.all fun bos => strides6.all fun os =>
    !(decide (bos ≤ os) && decide (2 * os ≤ ms)) ||
      ([2, 3].all fun cpb => bools.all fun mid => wellFormed (mkUnet f r ms stem bos os cpb mid))

def tableWrap (fam : Family) (v : Nat) : Bool :=
  [2, 4].all fun sps => strides6.all fun bos => strides6.all fun os =>
    !(decide (bos ≤ os) && decide (2 * os ≤ sps * 8)) ||
      ([1, 2, 3].all fun cpb => wellFormed (mkWrap fam v sps bos os cpb))

/-- Documented validity: `backbone output_stride ≤ head stride ≤ max_stride / 2` for every head
    (a head *at* the max stride is an invalid configuration, rejected loudly: see
    `Props/C14.head_stride_eq_max_rejected`), at least one head. -/
def docValid (c : Cfg) : Bool :=
  !c.heads.isEmpty && c.heads.all (fun h => decide (c.bos ≤ h.os) && decide (2 * h.os ≤ c.realMaxStride))

/-- The extra hypotheses under which the contract is true of the code **as it is now** (HEAD of
    /repo: both C14 fixes applied, `fixMid = fixWrap = true`).  UNet: `convs_per_block ≥ 2` (the excluded
    region is the known finding F-C14-convs-per-block); `middle_block = False` is valid with any rate
    since 24db0b1.  ConvNeXt / Swin-T: `filters_rate = 2` (documented restriction: their torchvision
    encoders double the channels per stage); `output_stride > stem_patch_stride` is valid since e4cd03e. -/
def supported (c : Cfg) : Bool :=
  match c.fam with
  | .unet => decide (2 ≤ c.cpb)
  | _ => c.rate == ⟨2, 1⟩

/-- the finite grid named by the property, on the tree as it is now (both fixes applied) (canonical representation: `variant = 0` for UNet,
    `filters = 0`, `middle_block = True`, `max_stride = 8·stem_patch_stride` for the wrappers, which
    ignore those fields) -/
def inGrid (c : Cfg) : Bool :=
  c.inCh == 1 && c.fixMid && c.fixWrap && c.stemKernel == 4 && c.heads.all (fun h => strides6.contains h.os) && strides6.contains c.bos
    && [1, 2, 3].contains c.cpb && rates3.contains c.rate &&
  match c.fam with
  | .unet => c.variant == 0 && [8, 16, 24, 32, 64].contains c.filters && [8, 16, 32].contains c.maxStride
              && [0, 2, 4].contains c.stem
  | .convnext => [0, 1, 2, 3].contains c.variant && c.filters == 0 && [2, 4].contains c.stem
              && c.maxStride == c.stem * 8 && c.middle
  | .swint => [0, 1, 2].contains c.variant && c.filters == 0 && [2, 4].contains c.stem
              && c.maxStride == c.stem * 8 && c.middle

end SleapVerif.Arch
