import Mathlib.Order.Defs.LinearOrder
import SleapVerif.Model.Datasets
/-!
# Order facts about the multi-instance confidence-map reduction (C11)

The only Mathlib import of C11: `LinearOrder`.  The reduction `cms = maximum(cms, cm_i)` starting
from zeros is a left fold of `maxR`; a missing keypoint contributes the value `0`
(`nan_to_num` is applied **per instance, before** the maximum), so it can never hide another
animal's keypoint.
-/
set_option linter.unusedSectionVars false
namespace SleapVerif.Datasets
variable {R : Type} [LinearOrder R] [OfNat R 0]

theorem le_maxR_left (a b : R) : a ≤ maxR a b := by
  unfold maxR; split
  · exact le_of_lt ‹_›
  · exact le_refl _

theorem le_maxR_right (a b : R) : b ≤ maxR a b := by
  unfold maxR; split
  · exact le_refl _
  · exact not_lt.mp ‹_›

theorem maxR_le {a b t : R} (ha : a ≤ t) (hb : b ≤ t) : maxR a b ≤ t := by
  unfold maxR; split <;> assumption

theorem foldMax_ge_init (f : Pt R → R) (l : List (Pt R)) (a : R) :
    a ≤ l.foldl (fun acc kp => maxR acc (f kp)) a := by
  induction l generalizing a with
  | nil => exact le_refl _
  | cons kp l ih => exact le_trans (le_maxR_left a (f kp)) (ih _)

theorem foldMax_ge_mem (f : Pt R → R) (l : List (Pt R)) (a : R) (kp : Pt R) (h : kp ∈ l) :
    f kp ≤ l.foldl (fun acc kp => maxR acc (f kp)) a := by
  induction l generalizing a with
  | nil => cases h
  | cons q l ih =>
    simp only [List.mem_cons] at h
    rcases h with rfl | h
    · exact le_trans (le_maxR_right a (f kp)) (foldMax_ge_init f l _)
    · exact ih _ h

theorem foldMax_le (f : Pt R → R) (l : List (Pt R)) (a t : R) (ha : a ≤ t) (hf : ∀ kp ∈ l, f kp ≤ t) :
    l.foldl (fun acc kp => maxR acc (f kp)) a ≤ t := by
  induction l generalizing a with
  | nil => exact ha
  | cons q l ih =>
    exact ih _ (maxR_le ha (hf q (by simp))) (fun kp hkp => hf kp (by simp [hkp]))

/-- every contributing keypoint is dominated by the reduced cell -/
theorem cmCell_le_multi (kernel : R → R → R → R → R) (kps : List (Pt R)) (kp : Pt R) (h : kp ∈ kps)
    (gx gy : R) : cmCell kernel kp gx gy ≤ multiCmCell kernel kps gx gy :=
  foldMax_ge_mem (fun kp => cmCell kernel kp gx gy) kps 0 kp h

theorem multi_le (kernel : R → R → R → R → R) (kps : List (Pt R)) (gx gy t : R) (h0 : (0 : R) ≤ t)
    (hk : ∀ a b c d, kernel a b c d ≤ t) : multiCmCell kernel kps gx gy ≤ t := by
  apply foldMax_le _ _ _ _ h0
  intro kp _
  obtain ⟨x, y⟩ := kp
  cases x <;> cases y <;> simp [cmCell, h0, hk]

theorem mem_channelKps (rows : List (List (Pt R))) (n k r : Nat) (row : List (Pt R))
    (hr : r < n) (hrow : rows[r]? = some row) : row.getD k Pt.nan ∈ channelKps rows n k := by
  unfold channelKps
  apply List.mem_map.mpr
  refine ⟨row, ?_, rfl⟩
  have : (rows.take n)[r]? = some row := by rw [List.getElem?_take]; simp [hr, hrow]
  exact List.mem_of_getElem? this

end SleapVerif.Datasets
