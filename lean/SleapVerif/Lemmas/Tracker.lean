import SleapVerif.Model.Tracker
import Mathlib.Data.List.Nodup
/-!
# Helper lemmas for the tracker model (C09, C10)
-/
namespace SleapVerif.Tracker

/-! ## greedy -/

theorem greedy_nil : greedy [] = [] := by simp [greedy]

theorem greedy_cons (e : Nat × Nat) (rest : List (Nat × Nat)) :
    greedy (e :: rest) = e :: greedy (rest.filter fun x => x.1 != e.1 && x.2 != e.2) := by
  simp [greedy]

/-- induction along the recursion of `greedy` -/
theorem greedy_ind {P : List (Nat × Nat) → Prop} (nil : P [])
    (cons : ∀ e rest, P (rest.filter fun x => x.1 != e.1 && x.2 != e.2) → P (e :: rest)) :
    ∀ l, P l := by
  intro l
  induction hn : l.length using Nat.strongRecOn generalizing l with
  | _ n ih =>
    cases l with
    | nil => exact nil
    | cons e rest =>
      apply cons
      have hlen := List.length_filter_le (fun x : Nat × Nat => x.1 != e.1 && x.2 != e.2) rest
      exact ih _ (by simp only [List.length_cons] at hn; omega) _ rfl

theorem greedy_length_le (l : List (Nat × Nat)) : (greedy l).length ≤ l.length := by
  induction l using greedy_ind with
  | nil => simp [greedy_nil]
  | cons e rest ih =>
    rw [greedy_cons]
    have := List.length_filter_le (fun x : Nat × Nat => x.1 != e.1 && x.2 != e.2) rest
    simp only [List.length_cons]; omega

theorem greedy_mem (l : List (Nat × Nat)) : ∀ e ∈ greedy l, e ∈ l := by
  induction l using greedy_ind with
  | nil => simp [greedy_nil]
  | cons e rest ih =>
    rw [greedy_cons]
    intro x hx
    rcases List.mem_cons.1 hx with h | h
    · simp [h]
    · exact List.mem_cons_of_mem _ (List.mem_of_mem_filter (ih x h))

/-- no two chosen edges share a row or a column -/
theorem greedy_pairwise (l : List (Nat × Nat)) :
    (greedy l).Pairwise (fun a b => a.1 ≠ b.1 ∧ a.2 ≠ b.2) := by
  induction l using greedy_ind with
  | nil => simp [greedy_nil]
  | cons e rest ih =>
    rw [greedy_cons, List.pairwise_cons]
    refine ⟨?_, ih⟩
    intro x hx
    have := List.mem_filter.1 (greedy_mem _ x hx)
    simp only [bne_iff_ne, ne_eq, Bool.and_eq_true] at this
    exact ⟨fun h => this.2.1 h.symm, fun h => this.2.2 h.symm⟩

/-- every edge is chosen or blocked by a chosen edge in its row or column -/
theorem greedy_blocks (l : List (Nat × Nat)) :
    ∀ e ∈ l, ∃ g ∈ greedy l, g.1 = e.1 ∨ g.2 = e.2 := by
  induction l using greedy_ind with
  | nil => simp
  | cons e rest ih =>
    rw [greedy_cons]
    intro x hx
    rcases List.mem_cons.1 hx with h | h
    · exact ⟨e, by simp, by simp [h]⟩
    · by_cases hc : x.1 = e.1 ∨ x.2 = e.2
      · exact ⟨e, by simp, by rcases hc with h1 | h1 <;> simp [h1]⟩
      · have hm : x ∈ rest.filter fun y => y.1 != e.1 && y.2 != e.2 := by
          simp only [List.mem_filter, bne_iff_ne, ne_eq, Bool.and_eq_true]
          exact ⟨h, fun h1 => hc (Or.inl h1), fun h1 => hc (Or.inr h1)⟩
        obtain ⟨g, hg, hg'⟩ := ih x hm
        exact ⟨g, List.mem_cons_of_mem _ hg, hg'⟩

theorem greedy_ne_nil {l : List (Nat × Nat)} (h : l ≠ []) : greedy l ≠ [] := by
  cases l with
  | nil => exact absurd rfl h
  | cons e rest => rw [greedy_cons]; simp


/-! ## matches, ids -/

/-- no two positions hold the same track -/
def Distinct (ids : List (Option Nat)) : Prop :=
  ids.Pairwise (fun a b => ∀ t, a = some t → b ≠ some t)

/-- structural part of a solver result for an `n × m` matrix -/
structure MatchValid (n m : Nat) (ms : List (Nat × Nat)) : Prop where
  rows : (ms.map (·.1)).Nodup
  cols : (ms.map (·.2)).Nodup
  bounds : ∀ p ∈ ms, p.1 < n ∧ p.2 < m

theorem foldl_set_length (ms : List (Nat × Nat)) (ids : List (Option Nat)) :
    (ms.foldl (fun ids p => ids.set p.1 (some p.2)) ids).length = ids.length := by
  induction ms generalizing ids with
  | nil => rfl
  | cons p rest ih => simp [List.foldl_cons, ih]

theorem foldl_set_get_not_mem (ms : List (Nat × Nat)) (ids : List (Option Nat)) (i : Nat)
    (h : i ∉ ms.map (·.1)) :
    (ms.foldl (fun ids p => ids.set p.1 (some p.2)) ids)[i]? = ids[i]? := by
  induction ms generalizing ids with
  | nil => rfl
  | cons p rest ih =>
    simp only [List.map_cons, List.mem_cons, not_or] at h
    rw [List.foldl_cons, ih _ h.2, List.getElem?_set]
    simp [Ne.symm h.1]

theorem foldl_set_get_mem (ms : List (Nat × Nat)) (ids : List (Option Nat)) (i c : Nat)
    (hn : (ms.map (·.1)).Nodup) (hm : (i, c) ∈ ms) (hi : i < ids.length) :
    (ms.foldl (fun ids p => ids.set p.1 (some p.2)) ids)[i]? = some (some c) := by
  induction ms generalizing ids with
  | nil => simp at hm
  | cons p rest ih =>
    simp only [List.map_cons, List.nodup_cons] at hn
    rw [List.foldl_cons]
    rcases List.mem_cons.1 hm with h | h
    · subst h
      rw [foldl_set_get_not_mem _ _ _ hn.1, List.getElem?_set]
      simp [hi]
    · exact ih _ hn.2 h (by simpa using hi)

theorem assignIds_length (n : Nat) (ms : List (Nat × Nat)) : (assignIds n ms).length = n := by
  simp [assignIds, foldl_set_length]

theorem assignIds_of_mem {n m : Nat} {ms : List (Nat × Nat)} (hv : MatchValid n m ms) {i c : Nat}
    (h : (i, c) ∈ ms) : (assignIds n ms)[i]? = some (some c) :=
  foldl_set_get_mem ms _ i c hv.rows h (by simpa using (hv.bounds _ h).1)

theorem assignIds_some {n m : Nat} {ms : List (Nat × Nat)} (hv : MatchValid n m ms) {i c : Nat}
    (h : (assignIds n ms)[i]? = some (some c)) : (i, c) ∈ ms := by
  by_cases hi : i ∈ ms.map (·.1)
  · obtain ⟨p, hp, rfl⟩ := List.mem_map.1 hi
    have := assignIds_of_mem hv (i := p.1) (c := p.2) hp
    rw [this] at h
    cases p; simp_all
  · unfold assignIds at h
    rw [foldl_set_get_not_mem _ _ _ hi] at h
    simp [List.getElem?_replicate] at h

theorem assignIds_none {n : Nat} {ms : List (Nat × Nat)} {i : Nat} (hi : i < n)
    (h : i ∉ ms.map (·.1)) : (assignIds n ms)[i]? = some none := by
  unfold assignIds
  rw [foldl_set_get_not_mem _ _ _ h]
  simp [hi]

theorem assignIds_mem_some {n m : Nat} {ms : List (Nat × Nat)} (hv : MatchValid n m ms) {t : Nat}
    (h : some t ∈ assignIds n ms) : ∃ i, (i, t) ∈ ms := by
  obtain ⟨i, hi⟩ := List.mem_iff_getElem?.1 h
  exact ⟨i, assignIds_some hv hi⟩

theorem assignIds_distinct {n m : Nat} {ms : List (Nat × Nat)} (hv : MatchValid n m ms) :
    Distinct (assignIds n ms) := by
  unfold Distinct
  rw [List.pairwise_iff_getElem]
  intro i j hi hj hij t h1 h2
  have e1 : (assignIds n ms)[i]? = some (some t) := by rw [List.getElem?_eq_getElem hi, h1]
  have e2 : (assignIds n ms)[j]? = some (some t) := by rw [List.getElem?_eq_getElem hj, h2]
  have m1 := assignIds_some hv e1
  have m2 := assignIds_some hv e2
  have := List.inj_on_of_nodup_map hv.cols m1 m2 rfl
  simp at this
  omega

/-! ## id allocation -/

theorem foldl_max_ge (l : List Nat) (t : Nat) : t ≤ l.foldl Nat.max t ∧ ∀ x ∈ l, x ≤ l.foldl Nat.max t := by
  induction l generalizing t with
  | nil => simp
  | cons a l ih =>
    simp only [List.foldl_cons, List.mem_cons, forall_eq_or_imp]
    have h := ih (Nat.max t a)
    have h1 : t ≤ Nat.max t a := Nat.le_max_left _ _
    have h2 : a ≤ Nat.max t a := Nat.le_max_right _ _
    exact ⟨by omega, by omega, h.2⟩

theorem foldl_max_mem (l : List Nat) (t : Nat) : l.foldl Nat.max t ∈ t :: l := by
  induction l generalizing t with
  | nil => simp
  | cons a l ih =>
    simp only [List.foldl_cons]
    have h := ih (Nat.max t a)
    rcases List.mem_cons.1 h with h | h
    · rw [h]
      rcases Nat.le_total t a with h' | h'
      · rw [show Nat.max t a = a from Nat.max_eq_right h']; simp
      · rw [show Nat.max t a = t from Nat.max_eq_left h']; simp
    · simp [h]

theorem newId_range (m : Nat) : newId (List.range m) = m := by
  cases m with
  | zero => rfl
  | succ k =>
    have hr : List.range (k + 1) = 0 :: (List.range k).map Nat.succ := List.range_succ_eq_map
    rw [hr]
    show ((List.range k).map Nat.succ).foldl Nat.max 0 + 1 = k + 1
    have hge := foldl_max_ge ((List.range k).map Nat.succ) 0
    have hmem := foldl_max_mem ((List.range k).map Nat.succ) 0
    rw [← hr] at hmem
    have hlt := List.mem_range.1 hmem
    cases k with
    | zero => simp
    | succ j =>
      have : j + 1 ∈ (List.range (j + 1)).map Nat.succ := by
        simp only [List.mem_map, List.mem_range]; exact ⟨j, by omega, rfl⟩
      have := hge.2 _ this
      omega


section alloc
variable {R : Type} [LT R] [DecidableLT R]

/-- what `allocate` (= `add_new_tracks`) guarantees when `current_tracks = range m` -/
structure AllocSpec (thr : R) (ss : List R) (ids0 : List (Option Nat)) (m : Nat)
    (r : List (Option Nat) × List Nat) : Prop where
  tracks : ∃ m', m ≤ m' ∧ r.2 = List.range m' ∧
    ∀ t, some t ∈ r.1 → some t ∈ ids0 ∨ (m ≤ t ∧ t < m')
  length : r.1.length = ss.length
  keep : ∀ (i t : Nat), ids0[i]? = some (some t) → r.1[i]? = some (some t)
  fresh : ∀ i (h : i < ss.length), ids0[i]? = some none → thr < ss[i] →
    ∃ t, m ≤ t ∧ r.1[i]? = some (some t)
  low : ∀ i (h : i < ss.length), ids0[i]? = some none → ¬ thr < ss[i] → r.1[i]? = some none
  distinct : Distinct r.1

theorem allocate_spec' (thr : R) (ss : List R) : ∀ (ids0 : List (Option Nat)) (m : Nat),
    ids0.length = ss.length → (∀ t, some t ∈ ids0 → t < m) → Distinct ids0 →
    AllocSpec thr ss ids0 m (allocate thr ss ids0 (List.range m)) := by
  induction ss with
  | nil =>
    intro ids0 m hl _ _
    have : ids0 = [] := List.length_eq_zero_iff.1 (by simpa using hl)
    subst this
    refine ⟨⟨m, Nat.le_refl _, ?_, ?_⟩, ?_, ?_, ?_, ?_, ?_⟩ <;> simp [allocate, Distinct]
  | cons s ss ih =>
    intro ids0 m hl hlt hd
    cases ids0 with
    | nil => simp at hl
    | cons o ids =>
      have hl' : ids.length = ss.length := by simpa using hl
      have hd' : Distinct ids := (List.pairwise_cons.1 hd).2
      have hlt' : ∀ t, some t ∈ ids → t < m := fun t h => hlt t (List.mem_cons_of_mem _ h)
      cases o with
      | some t0 =>
        have H := ih ids m hl' hlt' hd'
        obtain ⟨m', hm', hr, hmem⟩ := H.tracks
        have e : allocate thr (s :: ss) (some t0 :: ids) (List.range m) =
            (some t0 :: (allocate thr ss ids (List.range m)).1, (allocate thr ss ids (List.range m)).2) := by
          simp [allocate]
        rw [e]
        refine ⟨⟨m', hm', hr, ?_⟩, by simp [H.length], ?_, ?_, ?_, ?_⟩
        · intro t ht
          rcases List.mem_cons.1 ht with h | h
          · left; rw [h]; simp
          · rcases hmem t h with h' | h'
            · left; exact List.mem_cons_of_mem _ h'
            · right; exact h'
        · intro i t hi
          cases i with
          | zero => simpa using hi
          | succ i => simpa using H.keep i t (by simpa using hi)
        · intro i h hi hthr
          cases i with
          | zero => simp at hi
          | succ i => simpa using H.fresh i (by simpa using h) (by simpa using hi) (by simpa using hthr)
        · intro i h hi hthr
          cases i with
          | zero => simp at hi
          | succ i => simpa using H.low i (by simpa using h) (by simpa using hi) (by simpa using hthr)
        · refine List.pairwise_cons.2 ⟨?_, H.distinct⟩
          intro b hb t ht hbt
          have ht' : t0 = t := by simpa using ht
          subst ht'
          subst hbt
          rcases hmem t0 hb with h' | h'
          · exact (List.pairwise_cons.1 hd).1 _ h' t0 rfl rfl
          · have := hlt t0 (by simp); omega
      | none =>
        by_cases hs : thr < s
        · have hlt'' : ∀ t, some t ∈ ids → t < m + 1 := fun t h => Nat.lt_succ_of_lt (hlt' t h)
          have H := ih ids (m + 1) hl' hlt'' hd'
          obtain ⟨m', hm', hr, hmem⟩ := H.tracks
          have e : allocate thr (s :: ss) (none :: ids) (List.range m) =
              (some m :: (allocate thr ss ids (List.range (m + 1))).1,
               (allocate thr ss ids (List.range (m + 1))).2) := by
            simp [allocate, hs, newId_range, List.range_succ]
          rw [e]
          refine ⟨⟨m', by omega, hr, ?_⟩, by simp [H.length], ?_, ?_, ?_, ?_⟩
          · intro t ht
            rcases List.mem_cons.1 ht with h | h
            · right; cases h; omega
            · rcases hmem t h with h' | h'
              · left; exact List.mem_cons_of_mem _ h'
              · right; omega
          · intro i t hi
            cases i with
            | zero => simp at hi
            | succ i => simpa using H.keep i t (by simpa using hi)
          · intro i h hi hthr
            cases i with
            | zero => exact ⟨m, Nat.le_refl _, by simp⟩
            | succ i =>
              obtain ⟨t, ht, ht'⟩ := H.fresh i (by simpa using h) (by simpa using hi) (by simpa using hthr)
              exact ⟨t, by omega, by simpa using ht'⟩
          · intro i h hi hthr
            cases i with
            | zero => exact absurd hs (by simpa using hthr)
            | succ i => simpa using H.low i (by simpa using h) (by simpa using hi) (by simpa using hthr)
          · refine List.pairwise_cons.2 ⟨?_, H.distinct⟩
            intro b hb t ht hbt
            have ht' : m = t := by simpa using ht
            subst ht'
            subst hbt
            rcases hmem m hb with h' | h'
            · have := hlt' m h'; omega
            · omega
        · have H := ih ids m hl' hlt' hd'
          obtain ⟨m', hm', hr, hmem⟩ := H.tracks
          have e : allocate thr (s :: ss) (none :: ids) (List.range m) =
              (none :: (allocate thr ss ids (List.range m)).1, (allocate thr ss ids (List.range m)).2) := by
            simp [allocate, hs]
          rw [e]
          refine ⟨⟨m', hm', hr, ?_⟩, by simp [H.length], ?_, ?_, ?_, ?_⟩
          · intro t ht
            rcases List.mem_cons.1 ht with h | h
            · cases h
            · rcases hmem t h with h' | h'
              · left; exact List.mem_cons_of_mem _ h'
              · right; exact h'
          · intro i t hi
            cases i with
            | zero => simp at hi
            | succ i => simpa using H.keep i t (by simpa using hi)
          · intro i h hi hthr
            cases i with
            | zero => exact absurd (by simpa using hthr) hs
            | succ i => simpa using H.fresh i (by simpa using h) (by simpa using hi) (by simpa using hthr)
          · intro i h hi hthr
            cases i with
            | zero => simp
            | succ i => simpa using H.low i (by simpa using h) (by simpa using hi) (by simpa using hthr)
          · refine List.pairwise_cons.2 ⟨?_, H.distinct⟩
            intro b _ t ht
            cases ht

end alloc


/-! ## the matching stage -/

section stage
variable {R : Type}

/-- contract of the external solvers as far as C09 needs it (C10 adds optimality / sortedness) -/
structure ExtOk (ext : Ext R) : Prop where
  /-- scipy, on a matrix without `+∞` (with `+∞` entries it may raise, and the model never calls it
      there): a one-to-one assignment of full size `min n k`, in bounds -/
  lsa : ∀ (M : List (List (Option R))) (k : Nat), (∀ row ∈ M, row.length = k) →
    (∀ row ∈ M, ∀ o ∈ row, o ≠ none) →
    MatchValid M.length k (ext.lsa M) ∧ (ext.lsa M).length = min M.length k
  /-- numpy: argsort + unravel_index enumerates exactly the index pairs of the matrix -/
  argsort : ∀ (M : List (List (Option R))) (k : Nat), (∀ row ∈ M, row.length = k) →
    ∀ e, e ∈ ext.argsort M ↔ (e.1 < M.length ∧ e.2 < k)

theorem subMatrix_length (cost : List (List (Option R))) (valid : List Nat) :
    (subMatrix cost valid).length = cost.length := by simp [subMatrix]

theorem subMatrix_rect (cost : List (List (Option R))) (valid : List Nat) :
    ∀ row ∈ subMatrix cost valid, row.length = valid.length := by
  intro row h
  simp only [subMatrix, List.mem_map] at h
  obtain ⟨r, _, rfl⟩ := h
  simp

theorem validCols_nodup (st : Bool) (m : Nat) (cost : List (List (Option R))) :
    (validCols st m cost).Nodup := by
  unfold validCols
  split
  · exact List.Nodup.filter _ List.nodup_range
  · exact List.nodup_range

theorem validCols_lt (st : Bool) (m : Nat) (cost : List (List (Option R))) :
    ∀ c ∈ validCols st m cost, c < m := by
  unfold validCols
  intro c hc
  split at hc
  · exact List.mem_range.1 (List.mem_of_mem_filter hc)
  · exact List.mem_range.1 hc

theorem infeasible_sub (m : Nat) (cost : List (List (Option R))) :
    infeasible (validCols true m cost).length (subMatrix cost (validCols true m cost)) = false := by
  have hall : ∀ c ∈ List.range (validCols true m cost).length,
      (subMatrix cost (validCols true m cost)).any (fun row => (row.getD c none).isSome) = true := by
    intro c hc
    have hc' := List.mem_range.1 hc
    have hmem : (validCols true m cost)[c] ∈ validCols true m cost := List.getElem_mem _
    have hmem' : (validCols true m cost)[c] ∈ (List.range m).filter
        (fun c => cost.any (fun row => (row.getD c none).isSome)) := by
      have h0 : validCols true m cost = (List.range m).filter
        (fun c => cost.any (fun row => (row.getD c none).isSome)) := by simp [validCols]
      rw [← h0]; exact hmem
    have hv := (List.mem_filter.1 hmem').2
    rw [List.any_eq_true] at hv ⊢
    obtain ⟨row, hrow, hs⟩ := hv
    refine ⟨(validCols true m cost).map (fun c => row.getD c none), ?_, ?_⟩
    · exact List.mem_map.2 ⟨row, hrow, rfl⟩
    · simpa [List.getD_eq_getElem?_getD, hc'] using hs
  have : (List.range (validCols true m cost).length).filter
      (fun c => (subMatrix cost (validCols true m cost)).any (fun row => (row.getD c none).isSome))
      = List.range (validCols true m cost).length := List.filter_eq_self.2 hall
  simp only [infeasible, finiteCols, this, List.length_range, decide_eq_false_iff_not, Nat.not_lt]
  exact Nat.min_le_right _ _

theorem matchValid_back {n k m : Nat} {valid : List Nat} (hk : valid.length = k)
    (hnd : valid.Nodup) (hlt : ∀ c ∈ valid, c < m) {ps : List (Nat × Nat)}
    (hv : MatchValid n k ps) :
    MatchValid n m (ps.map (fun p => (p.1, valid.getD p.2 0))) := by
  refine ⟨?_, ?_, ?_⟩
  · simpa [List.map_map, Function.comp_def] using hv.rows
  · have : (ps.map (fun p => (p.1, valid.getD p.2 0))).map (·.2) =
        (ps.map (·.2)).map (fun c => valid.getD c 0) := by
      simp [List.map_map, Function.comp_def]
    rw [this]
    refine List.Nodup.map_on ?_ hv.cols
    intro x hx y hy hxy
    obtain ⟨p, hp, rfl⟩ := List.mem_map.1 hx
    obtain ⟨q, hq, rfl⟩ := List.mem_map.1 hy
    have h1 : p.2 < valid.length := by rw [hk]; exact (hv.bounds p hp).2
    have h2 : q.2 < valid.length := by rw [hk]; exact (hv.bounds q hq).2
    simp only [List.getD_eq_getElem?_getD, List.getElem?_eq_getElem h1,
      List.getElem?_eq_getElem h2, Option.getD_some] at hxy
    exact (List.Nodup.getElem_inj_iff hnd).1 hxy
  · intro p hp
    obtain ⟨q, hq, rfl⟩ := List.mem_map.1 hp
    have h1 : q.2 < valid.length := by rw [hk]; exact (hv.bounds q hq).2
    refine ⟨(hv.bounds q hq).1, ?_⟩
    simp only [List.getD_eq_getElem?_getD, List.getElem?_eq_getElem h1, Option.getD_some]
    exact hlt _ (List.getElem_mem _)

theorem greedy_matchValid {n k : Nat} {l : List (Nat × Nat)}
    (hl : ∀ e ∈ l, e.1 < n ∧ e.2 < k) : MatchValid n k (greedy l) := by
  have hp := greedy_pairwise l
  refine ⟨?_, ?_, fun p hp' => hl p (greedy_mem l p hp')⟩
  · exact List.pairwise_map.2 (hp.imp fun h => h.1)
  · exact List.pairwise_map.2 (hp.imp fun h => h.2)

/-- `+∞` (NaN score) fills whole columns only: the shape every cost matrix of the model has, because
    scores are total and a column is `none` exactly when its track has no candidate.  (A scattered
    pattern — a NaN score of one detection — is outside the model, see F-C09d.) -/
def ColPattern (cost : List (List (Option R))) : Prop :=
  ∀ c : Nat, (∀ row ∈ cost, (row.getD c none).isSome = true) ∨ (∀ row ∈ cost, row.getD c none = none)

theorem subMatrix_allSome (m : Nat) (cost : List (List (Option R))) (hcp : ColPattern cost) :
    ∀ row ∈ subMatrix cost (validCols true m cost), ∀ o ∈ row, o ≠ none := by
  intro row hrow o ho
  simp only [subMatrix, List.mem_map] at hrow
  obtain ⟨r, hr, rfl⟩ := hrow
  obtain ⟨c, hc, rfl⟩ := List.mem_map.1 ho
  have hc' : c ∈ (List.range m).filter (fun c => cost.any (fun row => (row.getD c none).isSome)) := by
    have h0 : validCols true m cost = (List.range m).filter
      (fun c => cost.any (fun row => (row.getD c none).isSome)) := by simp [validCols]
    rw [← h0]; exact hc
  obtain ⟨r', hr', hs⟩ := List.any_eq_true.1 (List.mem_filter.1 hc').2
  rcases hcp c with h | h
  · intro hn; have := h r hr; rw [hn] at this; simp at this
  · rw [h r' hr'] at hs; simp at hs

/-- the repaired matching stage never raises and returns a valid, non-trivial assignment — on the
    cost matrices of the model (`ColPattern`) -/
theorem assignStage_repaired {ext : Ext R} (hext : ExtOk ext) (fx : Fixes) (hfx : fx.stale = true)
    (mt : Matcher) (m : Nat) (cost : List (List (Option R))) (hcp : ColPattern cost) :
    ∃ ms, assignStage fx mt ext m cost = .ok ms ∧ MatchValid cost.length m ms ∧
      (cost ≠ [] → validCols true m cost ≠ [] → ms ≠ []) := by
  have hrect := subMatrix_rect cost (validCols true m cost)
  have hlen := subMatrix_length cost (validCols true m cost)
  cases mt with
  | hungarian =>
    obtain ⟨hv, hsz⟩ := hext.lsa _ _ hrect (subMatrix_allSome m cost hcp)
    rw [hlen] at hv hsz
    refine ⟨_, by simp [assignStage, hfx, infeasible_sub], matchValid_back rfl
      (validCols_nodup _ _ _) (validCols_lt _ _ _) hv, ?_⟩
    intro h1 h2
    have a1 : 0 < cost.length := List.length_pos_iff.2 h1
    have a2 : 0 < (validCols true m cost).length := List.length_pos_iff.2 h2
    intro h
    have := congrArg List.length h
    simp only [List.length_map, List.length_nil] at this
    omega
  | greedy =>
    have hmem := hext.argsort _ _ hrect
    rw [hlen] at hmem
    refine ⟨_, by simp [assignStage, hfx], matchValid_back rfl
      (validCols_nodup _ _ _) (validCols_lt _ _ _)
      (greedy_matchValid fun e he => (hmem e).1 he), ?_⟩
    intro h1 h2
    have a1 : 0 < cost.length := List.length_pos_iff.2 h1
    have a2 : 0 < (validCols true m cost).length := List.length_pos_iff.2 h2
    have : ext.argsort (subMatrix cost (validCols true m cost)) ≠ [] :=
      List.ne_nil_of_mem ((hmem (0, 0)).2 ⟨a1, a2⟩)
    simpa using greedy_ne_nil this

end stage


/-! ## the score matrix of the repaired code -/

section scoresP
variable {R : Type} {φ : Type} [Add R] [Div R] [OfNat R 0] [NatCast R] [LT R] [DecidableLT R]

/-- `reduce` without the exception: the repaired code never raises here -/
def reduceP (rd : Reduction) : List R → Option R
  | [] => none
  | x :: xs => some (match rd with
      | .mean => (x :: xs).foldl (· + ·) 0 / ((xs.length + 1 : Nat) : R)
      | .max => xs.foldl (fun a b => if a < b then b else a) x)

theorem reduce_repaired (rd : Reduction) (l : List R) : reduce rd true l = .ok (reduceP rd l) := by
  cases l with
  | nil => simp [reduce, reduceP]
  | cons x xs => rfl

theorem reduceP_isSome (rd : Reduction) {l : List R} (h : l ≠ []) : (reduceP rd l).isSome = true := by
  cases l with
  | nil => exact absurd rfl h
  | cons x xs => simp [reduceP]

theorem mapM_ok {α β ε : Type} {f : α → Except ε β} {g : α → β} (h : ∀ x, f x = .ok (g x))
    (l : List α) : l.mapM f = .ok (l.map g) := by
  induction l with
  | nil => rfl
  | cons a l ih =>
    rw [List.mapM_cons, h a, ih]
    rfl

/-- the score matrix as a pure function -/
def scoreMatrixP (rd : Reduction) (score : φ → φ → R) (cands : Nat → List φ) (m : Nat)
    (cur : List φ) : List (List (Option R)) :=
  cur.map fun f => (List.range m).map fun t => reduceP rd ((cands t).map (score f))

theorem scoreMatrix_repaired (rd : Reduction) (score : φ → φ → R) (cands : Nat → List φ) (m : Nat)
    (cur : List φ) :
    scoreMatrix rd true score cands m cur = .ok (scoreMatrixP rd score cands m cur) := by
  unfold scoreMatrix scoreMatrixP
  refine mapM_ok (fun f => ?_) cur
  unfold scoreRow
  exact mapM_ok (fun t => reduce_repaired rd _) _

omit [Add R] [Div R] [OfNat R 0] [NatCast R] [LT R] [DecidableLT R] in
theorem toCost_length [Neg R] (sc : List (List (Option R))) : (toCost sc).length = sc.length := by
  simp [toCost]

theorem scoreMatrixP_length (rd : Reduction) (score : φ → φ → R) (cands : Nat → List φ) (m : Nat)
    (cur : List φ) : (scoreMatrixP rd score cands m cur).length = cur.length := by
  simp [scoreMatrixP]

/-- a track with a candidate gives a valid column as soon as there is a detection -/
theorem validCols_ne_nil [Neg R] (rd : Reduction) (score : φ → φ → R) (cands : Nat → List φ)
    (m : Nat) (cur : List φ) (hcur : cur ≠ []) {t : Nat} (ht : t < m) (hc : cands t ≠ []) :
    validCols true m (toCost (scoreMatrixP rd score cands m cur)) ≠ [] := by
  apply List.ne_nil_of_mem (a := t)
  cases cur with
  | nil => exact absurd rfl hcur
  | cons f fs =>
    simp only [validCols, if_true, List.mem_filter, List.mem_range, ht, true_and]
    have : (reduceP rd ((cands t).map (score f))).isSome = true :=
      reduceP_isSome rd (by simpa using hc)
    simp [toCost, scoreMatrixP, List.getD_eq_getElem?_getD, ht, this]

/-- the model's cost matrices have the column pattern -/
theorem colPattern_scoreMatrix [Neg R] (rd : Reduction) (score : φ → φ → R) (cands : Nat → List φ)
    (m : Nat) (cur : List φ) : ColPattern (toCost (scoreMatrixP rd score cands m cur)) := by
  intro c
  by_cases hc : c < m ∧ cands c ≠ []
  · left
    intro row hrow
    simp only [toCost, scoreMatrixP, List.map_map, List.mem_map] at hrow
    obtain ⟨f, _, rfl⟩ := hrow
    have := reduceP_isSome rd (l := (cands c).map (score f)) (by simpa using hc.2)
    obtain ⟨a, ha⟩ := Option.isSome_iff_exists.1 this
    simp [List.getD_eq_getElem?_getD, hc.1, ha]
  · right
    intro row hrow
    simp only [toCost, scoreMatrixP, List.map_map, List.mem_map] at hrow
    obtain ⟨f, _, rfl⟩ := hrow
    by_cases h1 : c < m
    · have h2 : cands c = [] := by
        by_contra h; exact hc ⟨h1, h⟩
      simp [List.getD_eq_getElem?_getD, h1, h2, reduceP]
    · simp [List.getD_eq_getElem?_getD, h1]

end scoresP

end SleapVerif.Tracker
