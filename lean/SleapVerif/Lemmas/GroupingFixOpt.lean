import SleapVerif.Lemmas.GroupingPipe
import Mathlib.Algebra.Order.Field.Basic
import Mathlib.Algebra.Order.BigOperators.Group.List
import Mathlib.Tactic.Linarith
/-! Helper lemmas for C08, part 6 (ordered fields): the finite cost `2·Σ|valid| + 1` that the
    repaired `match_candidates_sample` writes into invalid cells dominates every combination of
    valid costs, so whenever an assignment avoiding invalid cells exists the solver's optimum on
    the filled matrix avoids them too and is an optimum of the original problem. -/
set_option linter.unusedSectionVars false

namespace SleapVerif.Grouping

variable {K : Type} [Field K] [LinearOrder K] [IsStrictOrderedRing K]

theorem sumL_eq_sum (l : List K) : sumL l = l.sum := by
  unfold sumL; rw [List.sum_eq_foldl]

theorem absR_eq_abs (x : K) : absR x = |x| := by
  unfold absR
  split
  · next h => exact (abs_of_neg h).symm
  · next h => exact (abs_of_nonneg (not_lt.mp h)).symm

theorem cellAbs_nonneg (x : Option K) : 0 ≤ cellAbs x := by
  cases x with
  | none => exact le_refl _
  | some v => simp only [cellAbs]; rw [absR_eq_abs]; exact abs_nonneg v

theorem getD_le_cellAbs (x : Option K) : x.getD 0 ≤ cellAbs x := by
  cases x with
  | none => exact le_refl _
  | some v => simp only [cellAbs, Option.getD_some]; rw [absR_eq_abs]; exact le_abs_self v

theorem neg_cellAbs_le_getD (x : Option K) {B : K} (hB : 0 ≤ B) : -cellAbs x ≤ x.getD B := by
  cases x with
  | none => simp only [cellAbs, Option.getD_none]; linarith
  | some v => simp only [cellAbs, Option.getD_some]; rw [absR_eq_abs]; exact neg_abs_le v

/-- a sub-sum of a non-negative family over distinct indices is at most the whole sum -/
theorem sum_sub_le {ι : Type} {U M : List ι} (hM : M.Nodup) (hsub : ∀ m ∈ M, m ∈ U) (g : ι → K)
    (hg : ∀ u, 0 ≤ g u) : (M.map g).sum ≤ (U.map g).sum := by
  obtain ⟨l, hp, hs⟩ := List.subperm_of_subset hM hsub
  calc (M.map g).sum = (l.map g).sum := ((hp.map g).sum_eq).symm
    _ ≤ (U.map g).sum := (hs.map g).sum_le_sum (fun x hx => by
        obtain ⟨u, _, rfl⟩ := List.mem_map.mp hx; exact hg u)

theorem mem_allIdx {α : Type} {C : Mat α} {m : Nat × Nat} :
    m ∈ allIdx C ↔ m.1 < nRows C ∧ m.2 < nCols C := by
  unfold allIdx
  simp only [List.mem_flatMap, List.mem_map, List.mem_range]
  constructor
  · rintro ⟨i, hi, j, hj, rfl⟩; exact ⟨hi, hj⟩
  · rintro ⟨h1, h2⟩; exact ⟨m.1, h1, m.2, h2, rfl⟩

theorem nodup_of_map_fst_nodup {M : List (Nat × Nat)} (h : (M.map (·.1)).Nodup) : M.Nodup :=
  SleapVerif.Toposort.nodup_of_map_nodup _ _ h

/-- `Σ_{m ∈ M} |C m|` over a one-to-one in-range assignment is at most `Σ|valid|` -/
theorem matching_abs_le (C : Mat (Option K)) {M : List (Nat × Nat)} (h1 : OneToOne M)
    (h2 : ∀ m ∈ M, m.1 < nRows C ∧ m.2 < nCols C) :
    (M.map fun m => cellAbs (entry C m.1 m.2)).sum
      ≤ ((allIdx C).map fun m => cellAbs (entry C m.1 m.2)).sum :=
  sum_sub_le (nodup_of_map_fst_nodup h1.1) (fun m hm => mem_allIdx.mpr (h2 m hm)) _
    (fun _ => cellAbs_nonneg _)

section main
variable (nr nc : Nat) (f : Nat → Nat → Option K)

/-- `Σ|valid|` of the rectangular matrix `mkMat nr nc f` -/
def absTotal : K := ((allIdx (mkMat nr nc f)).map fun m => cellAbs (entry (mkMat nr nc f) m.1 m.2)).sum

theorem sentinel_eq : sentinel (mkMat nr nc f) = 2 * absTotal nr nc f + 1 := by
  unfold sentinel absTotal
  simp only [sumL_eq_sum]
  rw [two_mul]

theorem absTotal_nonneg : 0 ≤ absTotal nr nc f := by
  unfold absTotal
  apply List.sum_nonneg
  intro x hx
  obtain ⟨u, _, rfl⟩ := List.mem_map.mp hx
  exact cellAbs_nonneg _

variable {nr nc f}

omit [Field K] [LinearOrder K] [IsStrictOrderedRing K] in
theorem inRange_mk {M : List (Nat × Nat)} {C' : Mat (Option K)}
    (hr : nRows C' = nRows (mkMat nr nc f)) (hc : nCols C' = nCols (mkMat nr nc f))
    (h : ∀ m ∈ M, m.1 < nRows C' ∧ m.2 < nCols C') : ∀ m ∈ M, m.1 < nr ∧ m.2 < nc := by
  intro m hm
  obtain ⟨a, b⟩ := h m hm
  rw [hr, nRows_mkMat] at a
  rw [hc, nCols_mkMat _ _ _ (by omega)] at b
  exact ⟨a, b⟩

/-- entries of the filled matrix -/
theorem entry_fill {i j : Nat} (hi : i < nr) (hj : j < nc) :
    entry (fillInvalid (mkMat nr nc f)) i j = some ((f i j).getD (sentinel (mkMat nr nc f))) := by
  rw [fillInvalid_mkMat, entry_mkMat _ _ _ hi hj]

theorem cost_fill_eq_of_valid {M : List (Nat × Nat)} (hr : ∀ m ∈ M, m.1 < nr ∧ m.2 < nc)
    (hv : ∀ m ∈ M, (entry (mkMat nr nc f) m.1 m.2).isSome) :
    cost (fillInvalid (mkMat nr nc f)) M = cost (mkMat nr nc f) M := by
  unfold cost
  congr 1
  apply List.map_congr_left
  intro m hm
  obtain ⟨a, b⟩ := hr m hm
  have := hv m hm
  rw [entry_fill a b]
  rw [entry_mkMat _ _ _ a b] at this ⊢
  cases hf : f m.1 m.2 with
  | none => simp [hf] at this
  | some v => simp

theorem cost_le_absTotal {M : List (Nat × Nat)} (h1 : OneToOne M) (hr : ∀ m ∈ M, m.1 < nr ∧ m.2 < nc) :
    cost (mkMat nr nc f) M ≤ absTotal nr nc f := by
  unfold cost
  rw [sumL_eq_sum]
  have hr' : ∀ m ∈ M, m.1 < nRows (mkMat nr nc f) ∧ m.2 < nCols (mkMat nr nc f) := by
    intro m hm
    obtain ⟨a, b⟩ := hr m hm
    rw [nRows_mkMat, nCols_mkMat _ _ _ (by omega)]; exact ⟨a, b⟩
  calc (M.map fun m => (entry (mkMat nr nc f) m.1 m.2).getD 0).sum
      ≤ (M.map fun m => cellAbs (entry (mkMat nr nc f) m.1 m.2)).sum :=
        List.sum_le_sum (fun m _ => getD_le_cellAbs _)
    _ ≤ absTotal nr nc f := matching_abs_le _ h1 hr'

/-- an assignment that uses an invalid cell costs more than `Σ|valid|` on the filled matrix -/
theorem cost_fill_gt_of_invalid {M : List (Nat × Nat)} (h1 : OneToOne M)
    (hr : ∀ m ∈ M, m.1 < nr ∧ m.2 < nc) {m0 : Nat × Nat} (hm0 : m0 ∈ M)
    (hinv : entry (mkMat nr nc f) m0.1 m0.2 = none) :
    absTotal nr nc f < cost (fillInvalid (mkMat nr nc f)) M := by
  have hS := absTotal_nonneg nr nc f
  have hB : sentinel (mkMat nr nc f) = 2 * absTotal nr nc f + 1 := sentinel_eq nr nc f
  have hB0 : 0 ≤ sentinel (mkMat nr nc f) := by rw [hB]; linarith
  set B := sentinel (mkMat nr nc f) with hBdef
  -- per-cell facts
  have hcell : ∀ m ∈ M, (entry (fillInvalid (mkMat nr nc f)) m.1 m.2).getD 0
      = (entry (mkMat nr nc f) m.1 m.2).getD B := by
    intro m hm
    obtain ⟨a, b⟩ := hr m hm
    rw [entry_fill a b, entry_mkMat _ _ _ a b]; rfl
  have hr' : ∀ m ∈ M, m.1 < nRows (mkMat nr nc f) ∧ m.2 < nCols (mkMat nr nc f) := by
    intro m hm
    obtain ⟨a, b⟩ := hr m hm
    rw [nRows_mkMat, nCols_mkMat _ _ _ (by omega)]; exact ⟨a, b⟩
  have habs := matching_abs_le (mkMat nr nc f) h1 hr'
  -- Σ (t + |c|) ≥ B because every term is ≥ 0 and the term at m0 is B
  have hsum : B ≤ (M.map fun m => (entry (mkMat nr nc f) m.1 m.2).getD B
      + cellAbs (entry (mkMat nr nc f) m.1 m.2)).sum := by
    have hmem : (entry (mkMat nr nc f) m0.1 m0.2).getD B + cellAbs (entry (mkMat nr nc f) m0.1 m0.2)
        ∈ M.map fun m => (entry (mkMat nr nc f) m.1 m.2).getD B
          + cellAbs (entry (mkMat nr nc f) m.1 m.2) := List.mem_map.mpr ⟨m0, hm0, rfl⟩
    have hnn : ∀ x ∈ (M.map fun m => (entry (mkMat nr nc f) m.1 m.2).getD B
          + cellAbs (entry (mkMat nr nc f) m.1 m.2)), 0 ≤ x := by
      intro x hx
      obtain ⟨m, _, rfl⟩ := List.mem_map.mp hx
      have := neg_cellAbs_le_getD (entry (mkMat nr nc f) m.1 m.2) hB0
      linarith
    have := List.single_le_sum hnn _ hmem
    rw [hinv] at this
    simpa [cellAbs] using this
  rw [List.sum_map_add] at hsum
  unfold cost
  rw [sumL_eq_sum, List.map_congr_left hcell]
  unfold absTotal at hB hS ⊢
  linarith

end main

/-- **The repaired matching is never worse than the pinned one**: if some saturating assignment
    avoids the invalid (NaN) cells, the repaired code returns a saturating assignment that avoids
    them and has minimum cost among all such assignments. -/
theorem matchEdgeFixed_optimal_of_feasible {lsa : Lsa K} (nr nc : Nat) (f : Nat → Nat → Option K)
    (S : LsaSpecOn lsa (fillInvalid (mkMat nr nc f)))
    (hfeas : ∃ M0, IsMatching (mkMat nr nc f) M0) :
    ∃ ms, matchEdgeFixed lsa (mkMat nr nc f) = some ms ∧ IsMatching (mkMat nr nc f) (rc ms) ∧
      ∀ M', IsMatching (mkMat nr nc f) M' → cost (mkMat nr nc f) (rc ms) ≤ cost (mkMat nr nc f) M' := by
  obtain ⟨M0, IM0⟩ := hfeas
  have hrF : nRows (fillInvalid (mkMat nr nc f)) = nRows (mkMat nr nc f) := nRows_fillInvalid _
  have hcF : nCols (fillInvalid (mkMat nr nc f)) = nCols (mkMat nr nc f) := nCols_fillInvalid _
  -- a valid matching of C is a matching of the filled matrix
  have lift : ∀ M', IsMatching (mkMat nr nc f) M' → IsMatching (fillInvalid (mkMat nr nc f)) M' := by
    intro M' IM'
    refine ⟨IM'.oneToOne, by rw [hrF, hcF]; exact IM'.inRange, by rw [hrF, hcF]; exact IM'.saturating, ?_⟩
    intro m hm
    obtain ⟨a, b⟩ := inRange_mk rfl rfl IM'.inRange m hm
    rw [entry_fill a b]; rfl
  cases hl : lsa (fillInvalid (mkMat nr nc f)) with
  | none => exact absurd ⟨M0, lift M0 IM0⟩ (S.complete hl)
  | some M =>
    obtain ⟨IM, hopt⟩ := S.sound M hl
    have hrM := inRange_mk hrF hcF IM.inRange
    have hr0 := inRange_mk rfl rfl IM0.inRange
    -- M avoids invalid cells
    have hvalid : ∀ m ∈ M, (entry (mkMat nr nc f) m.1 m.2).isSome := by
      intro m hm
      cases he : entry (mkMat nr nc f) m.1 m.2 with
      | some v => rfl
      | none =>
        exfalso
        have h1 := cost_fill_gt_of_invalid IM.oneToOne hrM hm he
        have h2 := hopt M0 (lift M0 IM0)
        rw [cost_fill_eq_of_valid hr0 IM0.finite] at h2
        have h3 := cost_le_absTotal (f := f) IM0.oneToOne hr0
        linarith
    have hfilter : M.filter (fun m => (entry (mkMat nr nc f) m.1 m.2).isSome) = M :=
      List.filter_eq_self.mpr hvalid
    refine ⟨toMatches (mkMat nr nc f) M, ?_, ?_, ?_⟩
    · unfold matchEdgeFixed; rw [hl]; simp [hfilter]
    · rw [rc_toMatches]
      exact ⟨IM.oneToOne, by rw [← hrF, ← hcF]; exact IM.inRange,
        by rw [← hrF, ← hcF]; exact IM.saturating, hvalid⟩
    · intro M' IM'
      rw [rc_toMatches]
      have := hopt M' (lift M' IM')
      rw [cost_fill_eq_of_valid hrM hvalid,
        cost_fill_eq_of_valid (inRange_mk rfl rfl IM'.inRange) IM'.finite] at this
      exact this

end SleapVerif.Grouping
