import SleapVerif.Model.Grid
import Mathlib.Algebra.Order.Field.Basic
import Mathlib.Tactic.Ring

/-!
# Grid / tabulation lemmas shared by C01 and C05 (and anything else that tabulates over the
stride grid).  Pure `Nat` facts about `gridLen`/`gridVec`, reading a tabulated map, and the grid
point `gp s k = ((k·s : ℕ) : R)`.
-/

set_option linter.unusedSectionVars false

namespace SleapVerif.GridTab
open SleapVerif.Grid

variable {R : Type} [Field R] [LinearOrder R] [IsStrictOrderedRing R]

/-! ## grid facts (pure `Nat`) -/

theorem gridVec_length (size s : Nat) : (gridVec size s).length = gridLen size s := by
  simp [gridVec]

theorem gridVec_getElem (size s i : Nat) (h : i < (gridVec size s).length) :
    (gridVec size s)[i] = i * s := by
  simp [gridVec]

/-- `gridLen` is `⌈size/s⌉`: the least `n` with `size ≤ n·s`. -/
theorem gridLen_ceil (size s : Nat) (hs : 0 < s) :
    size ≤ gridLen size s * s ∧ ∀ n, size ≤ n * s → gridLen size s ≤ n := by
  unfold gridLen
  constructor
  · have h1 := Nat.div_add_mod (size + s - 1) s
    have h2 := Nat.mod_lt (size + s - 1) hs
    have h3 : s * ((size + s - 1) / s) = (size + s - 1) / s * s := Nat.mul_comm _ _
    omega
  · intro n hn
    apply Nat.lt_succ_iff.mp
    apply (Nat.div_lt_iff_lt_mul hs).mpr
    have : n.succ * s = n * s + s := Nat.succ_mul n s
    omega

theorem gridLen_of_dvd (size s : Nat) (hs : 0 < s) (hd : s ∣ size) : gridLen size s = size / s := by
  obtain ⟨k, rfl⟩ := hd
  unfold gridLen
  rw [Nat.mul_div_cancel_left k hs]
  have : s * k + s - 1 = (s - 1) + s * k := by omega
  rw [this, Nat.add_mul_div_left _ _ hs, Nat.div_eq_of_lt (by omega)]
  omega

/-- every grid coordinate lies inside the image: `i·s < size` -/
theorem grid_point_lt (size s i : Nat) (hs : 0 < s) (hi : i < gridLen size s) : i * s < size := by
  by_contra hc
  have := (gridLen_ceil size s hs).2 i (by omega)
  omega

/-! ## reading a tabulated map -/

theorem cellAt?_tabulate {α : Type} (cast : Nat → R) (xv yv : List Nat) (f : R → R → α) (i j : Nat)
    (hi : i < yv.length) (hj : j < xv.length) :
    cellAt? (tabulate cast xv yv f) i j = some (f (cast xv[j]) (cast yv[i])) := by
  simp [cellAt?, tabulate, hi, hj]

theorem cellAt?_tabulate_none {α : Type} (cast : Nat → R) (xv yv : List Nat) (f : R → R → α) (i j : Nat)
    (h : ¬ (i < yv.length ∧ j < xv.length)) :
    cellAt? (tabulate cast xv yv f) i j = none := by
  unfold cellAt? tabulate
  by_cases hi : i < yv.length
  · have hj : ¬ j < xv.length := fun hj => h ⟨hi, hj⟩
    simp [hi, Nat.le_of_not_lt hj]
  · simp [Nat.le_of_not_lt hi]

/-- grid point `k` along an axis, as an element of `R` -/
def gp (s k : Nat) : R := ((k * s : Nat) : R)


end SleapVerif.GridTab
