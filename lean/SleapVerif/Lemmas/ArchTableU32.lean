import SleapVerif.Lemmas.ArchTable
/-! UNet table, filters = 32: `decide +kernel` over the certified rows (the quantifier IS the table). -/
namespace SleapVerif.Arch
theorem tableUnet_32_r1 : tableUnet 32 ⟨1, 1⟩ = true := by decide +kernel
theorem tableUnet_32_r32 : tableUnet 32 ⟨3, 2⟩ = true := by decide +kernel
theorem tableUnet_32_r2 : tableUnet 32 ⟨2, 1⟩ = true := by decide +kernel
theorem tableUnetCpb1_32 : tableUnetCpb1 32 = true := by decide +kernel
end SleapVerif.Arch
