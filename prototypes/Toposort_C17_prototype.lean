/-! Design-validation prototype for C17 (round 0), not part of any check yet.
    BFS edge order over a rooted tree: step invariant, parent-before-child, soundness and
    no-duplicates for every tree, every listing, every fuel. Core Lean only, ~2 s.
    Still to do: completeness (fuel = edges+1 suffices, every edge emitted) and `rootOf`. -/

abbrev Edge := Nat × Nat

def children (edges : List Edge) (u : Nat) : List Edge := edges.filter (fun e => e.1 == u)

structure BState where
  processed : List Nat
  queue     : List Nat
  out       : List Edge
deriving Repr

/-- `visited` is not stored: it is always `processed ++ queue` (invariant (c) made structural). -/
def BState.visited (s : BState) : List Nat := s.processed ++ s.queue

def bstep (edges : List Edge) (s : BState) : Option BState :=
  match s.queue with
  | [] => none
  | u :: q =>
    let new := (children edges u).filter (fun e => !(s.visited.contains e.2))
    some { processed := s.processed ++ [u], queue := q ++ new.map (·.2), out := s.out ++ new }

def binit (r : Nat) : BState := ⟨[], [r], []⟩

def brun (edges : List Edge) : Nat → BState → BState
  | 0, s => s
  | f+1, s => match bstep edges s with
    | none => s
    | some s' => brun edges f s'

def rootOf (edges : List Edge) : Option Nat :=
  let nodes := (edges.flatMap (fun e => [e.1, e.2])).eraseDups
  nodes.find? (fun v => !(edges.any (fun e => e.2 == v)))

def toposort (edges : List Edge) : List Nat :=
  match rootOf edges with
  | none => []
  | some r => ((brun edges (edges.length + 1) (binit r)).out).map (fun e => edges.idxOf e)

#eval toposort [(2,3),(0,1),(1,2),(1,4)]   -- root 0: (0,1),(1,2),(1,4),(2,3) -> [1,2,3,0]

/-- a rooted tree: no edge into the root, each node has at most one incoming edge,
    no duplicate edges (reachability is only needed for completeness, not here) -/
structure TreeLike (edges : List Edge) (r : Nat) : Prop where
  nodup : edges.Nodup
  noRootIn : ∀ e ∈ edges, e.2 ≠ r
  uniqueParent : ∀ e ∈ edges, ∀ e' ∈ edges, e.2 = e'.2 → e = e'

structure BInv (edges : List Edge) (r : Nat) (s : BState) : Prop where
  vis : s.visited = r :: s.out.map (·.2)
  nodupV : s.visited.Nodup
  blocks : s.out = s.processed.flatMap (children edges)
  parentFirst : ∀ (pre : List Edge) (e : Edge) (post : List Edge), s.out = pre ++ e :: post →
      e.1 = r ∨ ∃ e' ∈ pre, e'.2 = e.1

theorem binv_init (edges : List Edge) (r : Nat) : BInv edges r (binit r) := by
  refine ⟨by simp [binit, BState.visited], by simp [binit, BState.visited], by simp [binit], ?_⟩
  intro pre e post h; simp [binit] at h

theorem mem_children {edges : List Edge} {u : Nat} {e : Edge} :
    e ∈ children edges u ↔ e ∈ edges ∧ e.1 = u := by
  simp [children]

/-- In a tree, no child edge of a queued node leads to a visited node. -/
theorem children_fresh {edges : List Edge} {r : Nat} (T : TreeLike edges r) {s : BState}
    (I : BInv edges r s) {u : Nat} {q : List Nat} (hq : s.queue = u :: q) :
    ∀ e ∈ children edges u, e.2 ∉ s.visited := by
  intro e he hv
  obtain ⟨heE, heu⟩ := mem_children.mp he
  rw [I.vis] at hv
  rcases List.mem_cons.mp hv with h | h
  · exact T.noRootIn e heE h
  · obtain ⟨e', he', hd⟩ := List.mem_map.mp h
    -- e' is an emitted edge with the same destination ⇒ e' = e ⇒ u ∈ processed, contradiction
    have he'E : e' ∈ edges ∧ e'.1 ∈ s.processed := by
      rw [I.blocks] at he'
      obtain ⟨p, hp, hc⟩ := List.mem_flatMap.mp he'
      obtain ⟨a, b⟩ := mem_children.mp hc
      exact ⟨a, b ▸ hp⟩
    have : e' = e := T.uniqueParent e' he'E.1 e heE hd
    subst this
    have hup : u ∈ s.processed := heu ▸ he'E.2
    have hnd := I.nodupV
    unfold BState.visited at hnd
    rw [hq] at hnd
    have := (List.nodup_append.mp hnd).2.2 u hup u (by simp)
    exact this rfl

theorem filter_fresh_eq {edges : List Edge} {r : Nat} (T : TreeLike edges r) {s : BState}
    (I : BInv edges r s) {u : Nat} {q : List Nat} (hq : s.queue = u :: q) :
    (children edges u).filter (fun e => !(s.visited.contains e.2)) = children edges u := by
  apply List.filter_eq_self.mpr
  intro e he
  have := children_fresh T I hq e he
  simp [this]

theorem nodup_map_of_injOn {α β : Type} (f : α → β) :
    ∀ (l : List α), l.Nodup → (∀ a ∈ l, ∀ b ∈ l, f a = f b → a = b) → (l.map f).Nodup
  | [], _, _ => by simp
  | x :: xs, hn, hinj => by
    obtain ⟨hx, hxs⟩ := List.nodup_cons.mp hn
    simp only [List.map_cons, List.nodup_cons]
    refine ⟨?_, nodup_map_of_injOn f xs hxs (fun a ha b hb => hinj a (by simp [ha]) b (by simp [hb]))⟩
    intro hmem
    obtain ⟨y, hy, hxy⟩ := List.mem_map.mp hmem
    have := hinj y (by simp [hy]) x (by simp) hxy
    exact hx (this ▸ hy)

theorem nodup_of_map_nodup {α β : Type} (f : α → β) :
    ∀ (l : List α), (l.map f).Nodup → l.Nodup
  | [], _ => by simp
  | x :: xs, h => by
    simp only [List.map_cons, List.nodup_cons] at h
    refine List.nodup_cons.mpr ⟨?_, nodup_of_map_nodup f xs h.2⟩
    intro hx; exact h.1 (List.mem_map.mpr ⟨x, hx, rfl⟩)

theorem children_dst_nodup {edges : List Edge} {r : Nat} (T : TreeLike edges r) (u : Nat) :
    ((children edges u).map (·.2)).Nodup := by
  have hn : (children edges u).Nodup := T.nodup.filter _
  refine nodup_map_of_injOn _ _ hn ?_
  intro a ha b hb hab
  exact T.uniqueParent a (mem_children.mp ha).1 b (mem_children.mp hb).1 hab

theorem binv_step {edges : List Edge} {r : Nat} (T : TreeLike edges r) {s s' : BState}
    (I : BInv edges r s) (h : bstep edges s = some s') : BInv edges r s' := by
  unfold bstep at h
  cases hq : s.queue with
  | nil => simp [hq] at h
  | cons u q =>
    simp only [hq] at h
    rw [filter_fresh_eq T I hq] at h
    injection h with h; subst h
    have hvis : s.visited = s.processed ++ u :: q := by simp [BState.visited, hq]
    have hfresh := children_fresh T I hq
    refine ⟨?_, ?_, ?_, ?_⟩
    · -- vis
      show (s.processed ++ [u]) ++ (q ++ (children edges u).map (·.2)) = _
      have : (s.processed ++ [u]) ++ (q ++ (children edges u).map (·.2))
          = s.visited ++ (children edges u).map (·.2) := by simp [hvis]
      rw [this, I.vis]; simp
    · -- nodup
      show ((s.processed ++ [u]) ++ (q ++ (children edges u).map (·.2))).Nodup
      have : (s.processed ++ [u]) ++ (q ++ (children edges u).map (·.2))
          = s.visited ++ (children edges u).map (·.2) := by simp [hvis]
      rw [this]
      refine List.nodup_append.mpr ⟨I.nodupV, children_dst_nodup T u, ?_⟩
      intro a ha b hb hab
      obtain ⟨e, he, rfl⟩ := List.mem_map.mp hb
      exact hfresh e he (hab ▸ ha)
    · -- blocks
      show s.out ++ children edges u = (s.processed ++ [u]).flatMap (children edges)
      rw [List.flatMap_append, ← I.blocks]; simp
    · -- parentFirst
      intro pre e post hsplit
      have hsplit : s.out ++ children edges u = pre ++ e :: post := hsplit
      rcases List.append_eq_append_iff.mp hsplit with ⟨a', h1, h2⟩ | ⟨c', h1, h2⟩
      · -- pre = out ++ a' : e is a new edge, its source is u ∈ visited
        have he : e ∈ children edges u := by rw [h2]; simp
        have heu : e.1 = u := (mem_children.mp he).2
        have hu : u ∈ s.visited := by rw [hvis]; simp
        rw [I.vis] at hu
        rcases List.mem_cons.mp hu with hr | hm
        · left; rw [heu, hr]
        · right
          obtain ⟨e', he', hd⟩ := List.mem_map.mp hm
          exact ⟨e', by rw [h1]; simp [he'], by rw [hd, heu]⟩
      · -- out = pre ++ c' with c' ++ children = e :: post
        cases c' with
        | nil =>
          -- then e is the head of children u and pre = out
          simp at h1 h2
          have he : e ∈ children edges u := by rw [← h2]; simp
          have heu : e.1 = u := (mem_children.mp he).2
          have hu : u ∈ s.visited := by rw [hvis]; simp
          rw [I.vis] at hu
          rcases List.mem_cons.mp hu with hr | hm
          · left; rw [heu, hr]
          · right
            obtain ⟨e', he', hd⟩ := List.mem_map.mp hm
            exact ⟨e', by rw [← h1]; exact he', by rw [hd, heu]⟩
        | cons c cs =>
          simp at h2
          obtain ⟨hce, _⟩ := h2
          exact I.parentFirst pre e cs (hce ▸ h1)

theorem binv_run {edges : List Edge} {r : Nat} (T : TreeLike edges r) (f : Nat) {s : BState}
    (I : BInv edges r s) : BInv edges r (brun edges f s) := by
  induction f generalizing s with
  | zero => exact I
  | succ f ih =>
    unfold brun
    cases h : bstep edges s with
    | none => exact I
    | some s' => exact ih (binv_step T I h)

/-- Parent-before-child for the emitted order, every tree, every listing. -/
theorem toposort_parent_first {edges : List Edge} {r : Nat} (T : TreeLike edges r) (f : Nat)
    (pre : List Edge) (e : Edge) (post : List Edge)
    (h : (brun edges f (binit r)).out = pre ++ e :: post) :
    e.1 = r ∨ ∃ e' ∈ pre, e'.2 = e.1 :=
  (binv_run T f (binv_init edges r)).parentFirst pre e post h

/-- Every emitted edge is an edge of the skeleton and none is emitted twice. -/
theorem toposort_sound_nodup {edges : List Edge} {r : Nat} (T : TreeLike edges r) (f : Nat) :
    (∀ e ∈ (brun edges f (binit r)).out, e ∈ edges) ∧ (brun edges f (binit r)).out.Nodup := by
  have I := binv_run T f (binv_init edges r)
  constructor
  · intro e he
    rw [I.blocks] at he
    obtain ⟨p, _, hc⟩ := List.mem_flatMap.mp he
    exact (mem_children.mp hc).1
  · have hv := I.nodupV
    rw [I.vis] at hv
    exact nodup_of_map_nodup _ _ (List.nodup_cons.mp hv).2

#print axioms toposort_parent_first
#print axioms toposort_sound_nodup
