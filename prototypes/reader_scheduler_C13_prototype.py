# Design-validation prototype for C13 (round 0), not part of any check yet.
# Runs the real VideoReader.run thread and the real Predictor._predict_generator under a
# scheduler that decides which thread performs its next read/put/get; a schedule is a
# replayable string over {P,C}. Run: cd /repo && /venv/bin/python /verif/prototypes/reader_scheduler_C13_prototype.py
import threading, queue, random, sys
import numpy as np, torch
import kornia.core; kornia.core.Tensor = torch.Tensor
from sleap_nn.data.providers import VideoReader
from sleap_nn.inference.predictors import Predictor

class Sched:
    """Main thread owns the schedule; controlled threads park before every visible op."""
    def __init__(self):
        self.cv = threading.Condition()
        self.pending = {}      # tid -> (op, enabled_fn)
        self.granted = None
        self.finished = set()
        self.trace = []
    def park(self, tid, op, enabled):
        with self.cv:
            self.pending[tid] = (op, enabled)
            self.cv.notify_all()
            while self.granted != tid:
                self.cv.wait()
            self.granted = None
            del self.pending[tid]
            self.trace.append((tid, op))
    def finish(self, tid):
        with self.cv:
            self.finished.add(tid); self.cv.notify_all()
    def run(self, tids, choose, max_steps=10000):
        steps = 0
        while True:
            with self.cv:
                # wait until every live thread is parked
                while not all((t in self.pending) or (t in self.finished) for t in tids) or self.granted is not None:
                    self.cv.wait(timeout=5)
                live = [t for t in tids if t not in self.finished]
                if not live: return 'done'
                en = [t for t in live if self.pending[t][1]()]
                if not en: return 'DEADLOCK ' + str({t:self.pending[t][0] for t in live})
                t = choose(en)
                self.granted = t
                self.cv.notify_all()
            steps += 1
            if steps > max_steps: return 'too long'

class SchedQueue(queue.Queue):
    def __init__(self, maxsize, sched):
        super().__init__(maxsize); self.s = sched
    def put(self, item, block=True, timeout=None):
        tag = 'putS' if item.get('image') is None else f"put{int(item['frame_idx'])}"
        self.s.park('P', tag, lambda: self.qsize() < self.maxsize)
        super().put(item, block=False)
    def get(self, block=True, timeout=None):
        self.s.park('C', 'get', lambda: self.qsize() > 0)
        return super().get(block=False)

class FakeVideo:
    def __init__(self, n, fail, sched): self.shape=(n,8,8,1); self.fail=fail; self.s=sched
    def __getitem__(self, i):
        self.s.park('P', f'read{i}', lambda: True)
        if i == self.fail: raise IOError('boom')
        return np.full((8,8,1), i, dtype=np.uint8)

class Rec(torch.nn.Module):
    def __init__(self): super().__init__(); self.batches=[]
    def forward(self, ex):
        self.batches.append([int(i) for i in ex['frame_idx']]); return [ex]

class P(Predictor):
    @classmethod
    def from_trained_models(cls,*a,**k): pass
    @property
    def data_config(self): return None
    def make_pipeline(self,*a,**k): pass
    def _initialize_inference_model(self): pass
    def _make_labeled_frames_from_generator(self, g): pass

def one(seed, cap, B, start, stop, fail):
    rng = random.Random(seed)
    s = Sched()
    q = SchedQueue(cap, s)
    vr = VideoReader(FakeVideo(stop+3, fail, s), q, start, stop)
    orig_run = vr.run
    def run_wrapped():
        try: orig_run()
        finally: s.finish('P')
    vr.run = run_wrapped
    rec = Rec()
    p = P(preprocess=False, preprocess_config={'batch_size':B,'scale':1.0,'is_rgb':False,'max_stride':1,'max_height':None,'max_width':None},
          pipeline=vr, inference_model=rec)
    out = []
    def consume():
        try:
            for o in p._predict_generator(): out.append([int(i) for i in o['frame_idx']])
        finally: s.finish('C')
    ct = threading.Thread(target=consume); ct.start()
    res = s.run(['P','C'], lambda en: rng.choice(en))
    ct.join(5); 
    return res, rec.batches, ''.join(t for t,_ in s.trace), vr.is_alive(), ct.is_alive()

for seed in range(6):
    print(one(seed, cap=1+seed%2, B=2, start=1, stop=6, fail=(4 if seed%3==0 else None)))
