/-! Design-validation prototype for C13 (round 0), not part of any check yet.
    Bounded-queue frame reader: invariant, no-deadlock, strictly decreasing measure and final
    correctness for every capacity, batch size, range and failure index. Core Lean only;
    `lean prototypes/Reader_C13_prototype.lean` checks in ~2 s; axioms: propext, Classical.choice, Quot.sound. -/

structure Params where
  cap   : Nat
  B     : Nat
  start : Nat
  stop  : Nat
  fail  : Option Nat
deriving Repr

inductive Item | frame (i : Nat) | sentinel
deriving Repr, DecidableEq

inductive PPc | reading (i : Nat) | putting (i : Nat) | putSent | done
deriving Repr, DecidableEq

inductive CPc | getting | finished
deriving Repr, DecidableEq

structure St where
  p     : PPc
  q     : List Item
  c     : CPc
  batch : List Nat
  out   : List (List Nat)
deriving Repr

def init (P : Params) : St := ⟨.reading P.start, [], .getting, [], []⟩

def stepP (P : Params) (s : St) : Option St :=
  match s.p with
  | .reading i =>
      if i < P.stop ∧ P.fail ≠ some i then some { s with p := .putting i }
      else some { s with p := .putSent }
  | .putting i =>
      if s.q.length < P.cap then some { s with q := s.q ++ [.frame i], p := .reading (i+1) } else none
  | .putSent =>
      if s.q.length < P.cap then some { s with q := s.q ++ [.sentinel], p := .done } else none
  | .done => none

def stepC (P : Params) (s : St) : Option St :=
  match s.c with
  | .finished => none
  | .getting =>
    match s.q with
    | [] => none
    | .frame i :: q' =>
        let b := s.batch ++ [i]
        if b.length = P.B then some { s with q := q', batch := [], out := s.out ++ [b] }
        else some { s with q := q', batch := b }
    | .sentinel :: q' =>
        some { s with q := q', c := .finished, batch := [],
                      out := if s.batch = [] then s.out else s.out ++ [s.batch] }

inductive Step (P : Params) : St → St → Prop
  | prod {s s'} : stepP P s = some s' → Step P s s'
  | cons {s s'} : stepC P s = some s' → Step P s s'

inductive Reach (P : Params) : St → Prop
  | init : Reach P (init P)
  | step {s s'} : Reach P s → Step P s s' → Reach P s'

/-- frames the consumer has taken so far, in order -/
def delivered (s : St) : List Nat := s.out.flatten ++ s.batch

def framesOf : List Item → List Nat
  | [] => []
  | .frame i :: r => i :: framesOf r
  | .sentinel :: r => framesOf r


def stopIdx (P : Params) : Nat :=
  match P.fail with
  | some k => if P.start ≤ k ∧ k < P.stop then k else max P.start P.stop
  | none => max P.start P.stop

def upto (P : Params) (n : Nat) : List Nat := List.range' P.start (n - P.start)

theorem start_le_stopIdx (P : Params) : P.start ≤ stopIdx P := by
  unfold stopIdx; split <;> (try split) <;> omega

theorem ok_iff (P : Params) (i : Nat) (h1 : P.start ≤ i) (h2 : i ≤ stopIdx P) :
    (i < P.stop ∧ P.fail ≠ some i) ↔ i < stopIdx P := by
  unfold stopIdx at *
  cases hf : P.fail with
  | none => simp [hf] at *; omega
  | some k =>
    simp only [hf] at *
    by_cases hk : P.start ≤ k ∧ k < P.stop
    · rw [if_pos hk] at *
      constructor
      · rintro ⟨a, b⟩; have : k ≠ i := fun e => b (by rw [e]); omega
      · intro h; exact ⟨by omega, by intro e; injection e with e; omega⟩
    · rw [if_neg hk] at *
      constructor
      · rintro ⟨a, b⟩
        have : k ≠ i := fun e => b (by rw [e])
        omega
      · intro h; refine ⟨by omega, ?_⟩; intro e; injection e with e; omega

theorem upto_succ (P : Params) (i : Nat) (h : P.start ≤ i) : upto P i ++ [i] = upto P (i+1) := by
  unfold upto
  have : i + 1 - P.start = (i - P.start) + 1 := by omega
  rw [this, List.range'_concat]; simp; omega

def allFrames (q : List Item) : Prop := q = (framesOf q).map Item.frame

theorem framesOf_append (a b : List Item) : framesOf (a ++ b) = framesOf a ++ framesOf b := by
  induction a with
  | nil => rfl
  | cons x r ih => cases x <;> simp [framesOf, ih]

theorem framesOf_map (fs : List Nat) : framesOf (fs.map Item.frame) = fs := by
  induction fs with
  | nil => rfl
  | cons x r ih => simp [framesOf, ih]

structure RInv (P : Params) (s : St) : Prop where
  capOk : s.q.length ≤ P.cap
  batchLt : s.batch.length < P.B
  main : match s.p with
    | .reading i => P.start ≤ i ∧ i ≤ stopIdx P ∧ s.c = .getting ∧ allFrames s.q ∧
        delivered s ++ framesOf s.q = upto P i
    | .putting i => P.start ≤ i ∧ i < stopIdx P ∧ s.c = .getting ∧ allFrames s.q ∧
        delivered s ++ framesOf s.q = upto P i
    | .putSent => s.c = .getting ∧ allFrames s.q ∧
        delivered s ++ framesOf s.q = upto P (stopIdx P)
    | .done => (s.c = .getting ∧ ∃ fs, s.q = fs.map Item.frame ++ [Item.sentinel] ∧
                  delivered s ++ fs = upto P (stopIdx P))
               ∨ (s.c = .finished ∧ s.q = [] ∧ s.batch = [] ∧ s.out.flatten = upto P (stopIdx P))

theorem inv_init (P : Params) (hB : 0 < P.B) : RInv P (init P) := by
  refine ⟨by simp [init], by simpa [init] using hB, ?_⟩
  simp [init, allFrames, framesOf, delivered, upto, start_le_stopIdx]

theorem allFrames_append_frame {q : List Item} (h : allFrames q) (i : Nat) :
    allFrames (q ++ [Item.frame i]) := by
  unfold allFrames at *
  rw [framesOf_append, List.map_append, ← h]; simp [framesOf]

theorem inv_stepP (P : Params) (s s' : St) (h : RInv P s) (hs : stepP P s = some s') :
    RInv P s' := by
  obtain ⟨hc, hb, hm⟩ := h
  unfold stepP at hs
  cases hp : s.p with
  | reading i =>
    simp only [hp] at hs hm
    obtain ⟨h1, h2, h3, h4, h5⟩ := hm
    by_cases hok : i < P.stop ∧ P.fail ≠ some i
    · rw [if_pos hok] at hs; injection hs with hs; subst hs
      refine ⟨hc, hb, ?_⟩
      have := (ok_iff P i h1 h2).mp hok
      simp only; exact ⟨h1, this, h3, h4, h5⟩
    · rw [if_neg hok] at hs; injection hs with hs; subst hs
      refine ⟨hc, hb, ?_⟩
      have : ¬ i < stopIdx P := fun h => hok ((ok_iff P i h1 h2).mpr h)
      have e : i = stopIdx P := by omega
      simp only; exact ⟨h3, h4, e ▸ h5⟩
  | putting i =>
    simp only [hp] at hs hm
    obtain ⟨h1, h2, h3, h4, h5⟩ := hm
    by_cases hl : s.q.length < P.cap
    · rw [if_pos hl] at hs; injection hs with hs; subst hs
      refine ⟨by simp; omega, hb, ?_⟩
      simp only
      refine ⟨by omega, by omega, h3, allFrames_append_frame h4 i, ?_⟩
      rw [framesOf_append, ← List.append_assoc]
      show delivered s ++ framesOf s.q ++ framesOf [Item.frame i] = _
      rw [h5]; simpa [framesOf] using upto_succ P i h1
    · rw [if_neg hl] at hs; cases hs
  | putSent =>
    simp only [hp] at hs hm
    obtain ⟨h3, h4, h5⟩ := hm
    by_cases hl : s.q.length < P.cap
    · rw [if_pos hl] at hs; injection hs with hs; subst hs
      refine ⟨by simp; omega, hb, ?_⟩
      simp only
      left
      refine ⟨h3, framesOf s.q, ?_, h5⟩
      rw [← h4]
    · rw [if_neg hl] at hs; cases hs
  | done => simp [hp] at hs

theorem allFrames_cons_frame {i : Nat} {q : List Item} (h : allFrames (Item.frame i :: q)) :
    allFrames q := by
  unfold allFrames at *
  simp [framesOf] at h; exact h

theorem not_allFrames_sentinel {q : List Item} : ¬ allFrames (Item.sentinel :: q) := by
  unfold allFrames; cases h : framesOf (Item.sentinel :: q) <;> simp

/-- what one `get` of a frame does to `delivered` -/
theorem delivered_get (P : Params) (s : St) (i : Nat) (q' : List Item) :
    let b := s.batch ++ [i]
    delivered (if b.length = P.B then { s with q := q', batch := [], out := s.out ++ [b] }
               else { s with q := q', batch := b }) = delivered s ++ [i] := by
  intro b
  split <;> simp [delivered, b]

theorem inv_stepC (P : Params) (hB : 0 < P.B) (s s' : St) (h : RInv P s)
    (hs : stepC P s = some s') : RInv P s' := by
  obtain ⟨hc, hb, hm⟩ := h
  unfold stepC at hs
  cases hcp : s.c with
  | finished => simp [hcp] at hs
  | getting =>
    simp only [hcp] at hs
    cases hq : s.q with
    | nil => simp [hq] at hs
    | cons x q' =>
      simp only [hq] at hs
      cases x with
      | frame i =>
        simp only at hs
        -- common facts
        have hcap : q'.length ≤ P.cap := by rw [hq] at hc; simp at hc; omega
        have hdel : delivered s' = delivered s ++ [i] := by
          have := delivered_get P s i q'
          simp only at this
          split at hs <;> injection hs with hs <;> subst hs <;> simp_all
        have hq' : s'.q = q' := by split at hs <;> injection hs with hs <;> subst hs <;> rfl
        have hp' : s'.p = s.p := by split at hs <;> injection hs with hs <;> subst hs <;> rfl
        have hc' : s'.c = s.c := by split at hs <;> injection hs with hs <;> subst hs <;> simp [hcp]
        have hb' : s'.batch.length < P.B := by
          split at hs <;> injection hs with hs <;> subst hs
          · simpa using hB
          · rename_i hne; simp at hne ⊢; omega
        refine ⟨by rw [hq']; exact hcap, hb', ?_⟩
        rw [hp', hq', hdel, hc']
        rw [hq] at hm
        cases hp : s.p with
        | reading j =>
          simp only [hp] at hm ⊢
          obtain ⟨h1, h2, h3, h4, h5⟩ := hm
          refine ⟨h1, h2, h3, allFrames_cons_frame h4, ?_⟩
          simpa [framesOf] using h5
        | putting j =>
          simp only [hp] at hm ⊢
          obtain ⟨h1, h2, h3, h4, h5⟩ := hm
          refine ⟨h1, h2, h3, allFrames_cons_frame h4, ?_⟩
          simpa [framesOf] using h5
        | putSent =>
          simp only [hp] at hm ⊢
          obtain ⟨h3, h4, h5⟩ := hm
          refine ⟨h3, allFrames_cons_frame h4, ?_⟩
          simpa [framesOf] using h5
        | done =>
          simp only [hp] at hm ⊢
          rcases hm with ⟨h3, fs, h4, h5⟩ | ⟨h3, _⟩
          · left
            refine ⟨h3, ?_⟩
            cases fs with
            | nil => simp at h4
            | cons f fs' =>
              simp at h4
              obtain ⟨rfl, h4⟩ := h4
              exact ⟨fs', h4, by simpa using h5⟩
          · rw [hcp] at h3; cases h3
      | sentinel =>
        simp only at hs
        injection hs with hs; subst hs
        rw [hq] at hm
        cases hp : s.p with
        | reading j => simp only [hp] at hm; exact absurd hm.2.2.2.1 not_allFrames_sentinel
        | putting j => simp only [hp] at hm; exact absurd hm.2.2.2.1 not_allFrames_sentinel
        | putSent => simp only [hp] at hm; exact absurd hm.2.1 not_allFrames_sentinel
        | done =>
          simp only [hp] at hm
          rcases hm with ⟨h3, fs, h4, h5⟩ | ⟨h3, _⟩
          · cases fs with
            | cons f fs' => simp at h4
            | nil =>
              simp at h4 h5
              refine ⟨by simp [h4], by simpa using hB, ?_⟩
              simp only [hp]
              right
              simp only [true_and]
              refine ⟨h4, ?_⟩
              rw [← h5]
              by_cases hbn : s.batch = [] <;> simp [delivered, hbn]
          · rw [hcp] at h3; cases h3

theorem reach_inv (P : Params) (hB : 0 < P.B) {s : St} (h : Reach P s) : RInv P s := by
  induction h with
  | init => exact inv_init P hB
  | step _ st ih =>
    cases st with
    | prod e => exact inv_stepP P _ _ ih e
    | cons e => exact inv_stepC P hB _ _ ih e

def isFinal (s : St) : Prop := s.p = .done ∧ s.c = .finished ∧ s.q = []

theorem no_deadlock (P : Params) (hcap : 0 < P.cap) (s : St) (h : RInv P s) :
    (stepP P s).isSome ∨ (stepC P s).isSome ∨ isFinal s := by
  obtain ⟨hc, hb, hm⟩ := h
  cases hp : s.p with
  | reading i => left; simp only [stepP, hp]; split <;> rfl
  | putting i =>
    simp only [hp] at hm
    by_cases hl : s.q.length < P.cap
    · left; simp [stepP, hp, hl]
    · right; left
      have : s.q ≠ [] := by intro e; rw [e] at hl; simp at hl; omega
      obtain ⟨x, r, hq⟩ := List.exists_cons_of_ne_nil this
      simp only [stepC, hm.2.2.1, hq]
      cases x <;> simp <;> split <;> rfl
  | putSent =>
    simp only [hp] at hm
    by_cases hl : s.q.length < P.cap
    · left; simp [stepP, hp, hl]
    · right; left
      have : s.q ≠ [] := by intro e; rw [e] at hl; simp at hl; omega
      obtain ⟨x, r, hq⟩ := List.exists_cons_of_ne_nil this
      simp only [stepC, hm.1, hq]
      cases x <;> simp <;> split <;> rfl
  | done =>
    simp only [hp] at hm
    rcases hm with ⟨h3, fs, h4, _⟩ | ⟨h3, h4, _⟩
    · right; left
      have : s.q ≠ [] := by rw [h4]; simp
      obtain ⟨x, r, hq⟩ := List.exists_cons_of_ne_nil this
      simp only [stepC, h3, hq]
      cases x <;> simp <;> split <;> rfl
    · right; right; exact ⟨hp, h3, h4⟩

def pcRank (P : Params) : PPc → Nat
  | .reading i => 3 * (stopIdx P - i) + 3
  | .putting i => 3 * (stopIdx P - i) + 2
  | .putSent => 2
  | .done => 0

def mu (P : Params) (s : St) : Nat := pcRank P s.p + s.q.length

theorem mu_decreases (P : Params) (s s' : St) (h : RInv P s) (st : Step P s s') :
    mu P s' < mu P s := by
  obtain ⟨hc, hb, hm⟩ := h
  cases st with
  | prod e =>
    unfold stepP at e
    cases hp : s.p with
    | reading i =>
      simp only [hp] at e hm
      split at e <;> injection e with e <;> subst e <;> simp [mu, pcRank, hp] <;> omega
    | putting i =>
      simp only [hp] at e hm
      split at e
      · injection e with e; subst e; simp [mu, pcRank, hp]; omega
      · cases e
    | putSent =>
      simp only [hp] at e
      split at e
      · injection e with e; subst e; simp [mu, pcRank, hp]; omega
      · cases e
    | done => simp [hp] at e
  | cons e =>
    unfold stepC at e
    cases hcp : s.c with
    | finished => simp [hcp] at e
    | getting =>
      simp only [hcp] at e
      cases hq : s.q with
      | nil => simp [hq] at e
      | cons x q' =>
        simp only [hq] at e
        cases x with
        | frame i =>
          simp only at e
          split at e <;> injection e with e <;> subst e <;> simp [mu, hq]
        | sentinel =>
          simp only at e
          injection e with e; subst e; simp [mu, hq]

/-- Every frame of the (possibly truncated) range, once, in order; nothing left over. -/
theorem final_correct (P : Params) (hB : 0 < P.B) (s : St) (hr : Reach P s) (hf : isFinal s) :
    s.out.flatten = upto P (stopIdx P) ∧ s.batch = [] := by
  have h := reach_inv P hB hr
  obtain ⟨hp, hc, hq⟩ := hf
  have hm := h.main
  simp only [hp] at hm
  rcases hm with ⟨h3, _⟩ | ⟨_, _, h5, h6⟩
  · rw [hc] at h3; cases h3
  · exact ⟨h6, h5⟩

#print axioms final_correct
#print axioms no_deadlock
#print axioms mu_decreases
-- non-vacuity: a reachable non-trivial state
example : Reach ⟨1, 2, 0, 3, none⟩ ⟨.putting 0, [], .getting, [], []⟩ :=
  .step .init (.prod (by simp [stepP, init]))
