/-! core-only generic numeric model (prototype for C01) -/
namespace Cm
variable {R : Type} [Add R] [Sub R] [Mul R] [Div R] [Neg R] [LT R] [DecidableLT R] [OfNat R 0] [OfNat R 2]

/-- squared distance from grid point (gx,gy) to keypoint (x,y) -/
def d2 (gx gy x y : R) : R := (gx - x) * (gx - x) + (gy - y) * (gy - y)

/-- one cell of a confidence map; `none` keypoint = missing -/
def cell (exp : R → R) (s2 : R) (kp : Option (R × R)) (gx gy : R) : R :=
  match kp with
  | some (x, y) => exp (-(d2 gx gy x y) / ((2 : R) * s2))
  | none => 0

def maxR (a b : R) : R := if a < b then b else a

def multiCell (exp : R → R) (s2 : R) (kps : List (Option (R × R))) (gx gy : R) : R :=
  kps.foldl (fun acc kp => maxR acc (cell exp s2 kp gx gy)) 0
end Cm

-- executable at Rat (exact argument) and Float
#eval Cm.d2 (R := Rat) 3 4 (1/2) (7/4)
#eval Cm.cell (R := Float) Float.exp 2.25 (some (0.5, 1.75)) 3 4
#eval Cm.multiCell (R := Float) Float.exp 2.25 [some (0.5, 1.75), none, some (3.0, 4.0)] 3 4

/-! ---- proof side (needs Mathlib single modules; in the real project this is a separate file) ----

import Mathlib.Algebra.Order.Field.Basic
import Mathlib.Tactic.Linarith
import Mathlib.Tactic.Positivity
import Mathlib.Tactic.Ring

variable {R : Type} [Field R] [LinearOrder R] [IsStrictOrderedRing R]

structure Transc (R : Type) [Field R] [LinearOrder R] [IsStrictOrderedRing R] where
  exp : R → R
  exp_zero : exp 0 = 1
  exp_pos : ∀ x, 0 < exp x
  exp_mono : ∀ x y, x ≤ y → exp x ≤ exp y

open Cm

theorem d2_nonneg (gx gy x y : R) : 0 ≤ d2 gx gy x y := by
  unfold d2; exact add_nonneg (mul_self_nonneg _) (mul_self_nonneg _)

theorem cell_le_one (T : Transc R) (s2 : R) (hs : 0 < s2) (kp : Option (R × R)) (gx gy : R) :
    cell T.exp s2 kp gx gy ≤ 1 := by
  unfold cell
  match kp with
  | none => simp
  | some (x, y) =>
    simp only
    rw [← T.exp_zero]
    apply T.exp_mono
    have := d2_nonneg gx gy x y
    have h2 : (0:R) < 2 * s2 := by positivity
    apply div_nonpos_of_nonpos_of_nonneg <;> linarith

/-- nearer grid cell ⇒ larger value (argmax at the nearest cell) -/
theorem cell_antitone (T : Transc R) (s2 : R) (hs : 0 < s2) (x y gx gy gx' gy' : R)
    (h : d2 gx gy x y ≤ d2 gx' gy' x y) :
    cell T.exp s2 (some (x, y)) gx' gy' ≤ cell T.exp s2 (some (x, y)) gx gy := by
  unfold cell
  simp only
  apply T.exp_mono
  have h2 : (0:R) < 2 * s2 := by positivity
  rw [div_le_div_iff_of_pos_right h2]
  linarith

theorem cell_missing (T : Transc R) (s2 gx gy : R) : cell T.exp s2 none gx gy = 0 := rfl
#print axioms cell_antitone
-/
